#!/usr/bin/env python3
"""Regenerate DESIGN.md §10.5 (which checks catch which independently written changes) from seeded/*/meta.json."""
import glob, json, os, re
rows = []
for d in sorted(glob.glob('/verif/seeded/*')):
    m = json.load(open(d + '/meta.json'))
    runs = m.get('lead_verification', {}).get('runs', [])
    res = []
    for r in runs:
        for c, v in (r.get('checks') or {}).items():
            res.append("%s %s: %s (%ss)" % (c, v.get('tier', 'quick'), "caught" if v['exit'] == 1 else ("missed" if v['exit'] == 0 else "exit %s" % v['exit']), v.get('seconds')))
    final = m.get('lead_verification', {}).get('final', '')
    summ = re.sub(r'\s+', ' ', m.get('summary', ''))[:230]
    rows.append("| %s | %s | %s | %s |" % (os.path.basename(d), summ.replace('|', '/'), "; ".join(res), final))
table = "| seed | change (author's summary, truncated) | runs of the check against it (in order) | final status |\n|---|---|---|---|\n" + "\n".join(rows)
p = '/verif/DESIGN.md'
s = open(p).read()
head = "### 10.5 Independently written breaking changes and which checks catch them\n"
intro = ("\nEach change below was written by a fresh sub-agent that saw only the property text and its own scratch worktree. "
         "The lead verified each one with `tools/seedtest.py` (demo passes on the clean tree, fails with the patch; patch builds; existing tests of the touched packages pass) "
         "and ran the check against it with `VERIF_REPO=<worktree>`; patches, demos and the verification record are under `seeded/<seed>/`. "
         "Where a change was missed at first, the generator/oracle was strengthened generically and the change re-run (later runs in the list).\n\n")
totals = "Totals: 164 changes, 4 per property (five batches). 161 are caught by the quick tier of the property's own check — about one in five of them only after the generator or oracle had been strengthened generically (C01-2, C02-1, C03-2/3/4, C05-4, C08-3, C09, C10-1, C11-2/4, C12, C13, C17, C19-4, C21-3/4, C23-3, C24-3, C28, C29, C31, C37-2, C39, C40-4, C41-2/3 …), which is what the seeding was for; the rows list the runs in order. The three others are documented in their rows: C02-2 (behaviour-preserving on every history the real runtime can produce on 3 voters: the stale donor's page is refused), C34-4 (a storage-layer change in C16's anchored code, caught by C16, invisible to C34 whose anchors are the usecase files) and C30-3 (outside C30's statement: no restore floor is ever set in the failing history; the anchored allocator behaves as stated)."
block = head + intro + totals + "\n\n" + table + "\n"
if head in s:
    i = s.index(head)
    j = s.find("\n### ", i + 10)
    s = s[:i] + block + (s[j:] if j > 0 else "")
else:
    s = s.rstrip("\n") + "\n\n" + block
open(p, 'w').write(s)
print(len(rows), "rows")
