#!/usr/bin/env python3
"""Verify an independently written breaking change and run checks against it.
usage: seedtest.py <seed-dir> <check-id> [<check-id>...] [--tier thorough]
<seed-dir> holds patch.diff, a demo *_test.go, meta.json (demo.dest_dir_in_repo, demo.run).
Steps (scratch worktree, removed afterwards): demo passes on clean tree; patch applies and
builds; demo fails with patch; existing tests of the touched packages pass with patch
(without the demo file); each check run with VERIF_REPO=<worktree>."""
import json, os, re, shutil, subprocess, sys, time, glob
args = sys.argv[1:]
tier = "quick"
if "--tier" in args:
    i = args.index("--tier"); tier = args[i+1]; del args[i:i+2]
skip_existing = "--skip-existing" in args
if skip_existing: args.remove("--skip-existing")
sd = os.path.abspath(args[0]); checks = args[1:]
meta = json.load(open(os.path.join(sd, "meta.json")))
demo = meta.get("demo", {})
demo_files = [f for f in glob.glob(os.path.join(sd, "*_test.go"))]
dest = demo.get("dest_dir_in_repo", "").strip("/")
wt = "/var/tmp/wk-seed-%d" % os.getpid()
env = dict(os.environ, GOFLAGS="-mod=mod")
def run(cmd, **kw):
    return subprocess.run(cmd, cwd=wt, env=env, capture_output=True, text=True, **kw)
subprocess.run(["git", "-C", "/repo", "worktree", "add", "--detach", wt, "HEAD"], check=True, stdout=subprocess.DEVNULL, stderr=subprocess.DEVNULL)
res = {"seed": os.path.basename(sd), "repo_head": subprocess.run(["git","-C","/repo","rev-parse","--short","HEAD"],capture_output=True,text=True).stdout.strip()}
try:
    m = re.search(r"-run\s+'?\"?([^\s'\"]+)", demo.get("run", ""))
    runre = m.group(1) if m else "Seed"
    def put_demo():
        for f in demo_files: shutil.copy(f, os.path.join(wt, dest, os.path.basename(f)))
    def rm_demo():
        for f in demo_files:
            p = os.path.join(wt, dest, os.path.basename(f))
            if os.path.exists(p): os.remove(p)
    def demo_run():
        r = run(["go", "test", "-count=1", "-vet=off", "-run", runre, "./" + dest])
        return r.returncode, (r.stdout + r.stderr)[-1500:]
    if demo_files and dest:
        put_demo(); rc, out = demo_run(); res["demo_clean_rc"] = rc
        if rc != 0: res["demo_clean_out"] = out
        rm_demo()
    a = run(["git", "apply", os.path.join(sd, "patch.diff")])
    res["patch_applies"] = a.returncode == 0
    if a.returncode != 0:
        res["apply_err"] = a.stderr[-500:]
    else:
        b = run(["go", "build", "./..."]); res["builds"] = b.returncode == 0
        touched = sorted({os.path.dirname(l[6:]) for l in open(os.path.join(sd, "patch.diff")) if l.startswith("+++ b/")})
        res["touched_pkgs"] = touched
        if demo_files and dest:
            put_demo(); rc, out = demo_run(); res["demo_patched_rc"] = rc; res["demo_patched_tail"] = out[-600:]; rm_demo()
        if not skip_existing:
            t = run(["go", "test", "-count=1", "-vet=off"] + ["./" + p for p in touched])
            res["existing_tests_rc"] = t.returncode
            if t.returncode != 0:
                res["existing_tests_fail"] = [l for l in (t.stdout+t.stderr).splitlines() if l.startswith("--- FAIL")][:10]
        res["checks"] = {}
        for c in checks:
            t0 = time.time()
            r = subprocess.run(["/verif/check", c, "--tier", tier], env=dict(os.environ, VERIF_REPO=wt), capture_output=True, text=True)
            v = [l for l in r.stdout.splitlines() if l.startswith("VIOLATION")]
            res["checks"][c] = {"exit": r.returncode, "seconds": round(time.time()-t0), "tier": tier, "violation": v[:1]}
finally:
    subprocess.run(["git", "-C", "/repo", "worktree", "remove", "--force", wt])
print(json.dumps(res, indent=1))
