#!/usr/bin/env python3
"""Run a list of source mutants against checks in a scratch worktree.
usage: mutants.py <spec.json> ; spec = [{"name","file","old","new","checks":["C01",..]}]
Prints one line per (mutant, check): exit code and seconds."""
import json, os, subprocess, sys, time
spec = json.load(open(sys.argv[1]))
wt = "/var/tmp/wk-mut-%d" % os.getpid()
subprocess.run(["git", "-C", "/repo", "worktree", "add", "--detach", wt, "HEAD"], check=True, stdout=subprocess.DEVNULL, stderr=subprocess.DEVNULL)
try:
    for m in spec:
        edits = m.get("edits") or [m]
        bad = False
        for e in edits:
            p = os.path.join(wt, e["file"])
            src = open(p).read()
            if src.count(e["old"]) != 1:
                print("MUTANT %s: pattern occurs %d times in %s, skipped" % (m["name"], src.count(e["old"]), e["file"]), flush=True)
                bad = True
                break
            open(p, "w").write(src.replace(e["old"], e["new"]))
        if bad:
            subprocess.run(["git", "-C", wt, "checkout", "--", "."], check=True)
            continue
        m["file"] = edits[0]["file"]
        b = subprocess.run(["go", "build", "./" + os.path.dirname(m["file"])], cwd=wt, capture_output=True, text=True, env=dict(os.environ, GOFLAGS="-mod=mod"))
        if b.returncode != 0:
            print("MUTANT %s: does not compile: %s" % (m["name"], b.stderr[-300:]), flush=True)
        else:
            for c in m["checks"]:
                t0 = time.time()
                r = subprocess.run(["/verif/check", c], env=dict(os.environ, VERIF_REPO=wt), capture_output=True, text=True)
                line = [l for l in r.stdout.splitlines() if l.startswith("VIOLATION")]
                print("MUTANT %s check %s -> exit %d in %.0fs %s" % (m["name"], c, r.returncode, time.time() - t0, line[:1]), flush=True)
        subprocess.run(["git", "-C", wt, "checkout", "--", "."], check=True)
finally:
    subprocess.run(["git", "-C", "/repo", "worktree", "remove", "--force", wt])
