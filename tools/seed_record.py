#!/usr/bin/env python3
"""Copy a verified seeded change into /verif/seeded/<id>/ and merge the lead's verification.
usage: seed_record.py <seed-id> <result.json> [<result2.json> ...]"""
import json, os, shutil, sys, glob
sid = sys.argv[1]
src = "/tmp/seed-out/" + sid
dst = "/verif/seeded/" + sid
os.makedirs(dst, exist_ok=True)
for f in glob.glob(src + "/*"):
    if os.path.isfile(f) and (f.endswith(".go") or f.endswith(".diff") or f.endswith("meta.json")):
        shutil.copy(f, dst)
# demo test files must not be picked up as Go packages under /verif: rename
for f in glob.glob(dst + "/*_test.go"):
    os.rename(f, f + ".txt")
meta = json.load(open(dst + "/meta.json"))
ver = meta.get("lead_verification", {"runs": []})
for r in sys.argv[2:]:
    d = json.load(open(r))
    ver["runs"].append({k: d.get(k) for k in ("repo_head", "demo_clean_rc", "patch_applies", "builds", "demo_patched_rc", "existing_tests_rc", "existing_tests_fail", "checks")})
ver["how"] = "tools/seedtest.py in a scratch worktree of /repo HEAD: demo passes on the clean tree, patch applies and builds, demo fails with the patch, existing tests of the touched packages, then ./check <ID> with VERIF_REPO=<worktree> (exit 1 = caught)"
meta["lead_verification"] = ver
json.dump(meta, open(dst + "/meta.json", "w"), indent=1, ensure_ascii=False)
print("recorded", dst)
