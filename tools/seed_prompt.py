#!/usr/bin/env python3
"""Print the prompt for a seeded-breakage sub-agent: property text + worktree only."""
import json, sys
pid, wt, out = sys.argv[1], sys.argv[2], sys.argv[3]
n = sys.argv[4] if len(sys.argv) > 4 else "2"
first = int(sys.argv[5]) if len(sys.argv) > 5 else 1
import glob, re
tried = []
for d in sorted(glob.glob('/verif/seeded/%s-*' % pid)):
    try:
        m = json.load(open(d + '/meta.json'))
        tried.append("- " + re.sub(r'\s+', ' ', m.get('summary', ''))[:400])
    except Exception:
        pass
avoid = ""
if tried and first > 1:
    avoid = "\n\nOther engineers already delivered the following changes for this property; yours must be DIFFERENT in mechanism and location (another code path, another clause of the property, another kind of trigger):\n" + "\n".join(tried) + "\n"
rec = None
for l in open('/verif/properties.jsonl'):
    p = json.loads(l)
    if p['id'] == pid:
        rec = p
print(f"""You are a careful adversarial Go engineer. You have your own scratch git worktree of the WuKongIM repository (a distributed instant-messaging server in Go) at {wt}. Work ONLY inside {wt} and write results ONLY under {out}. Do not read or touch /verif or /repo (nothing there is for you), and do not use the network (there is none).

Here is a semantic property the system is supposed to guarantee:

{json.dumps(rec, indent=1, ensure_ascii=False)}

Task: produce {n} DIFFERENT realistic changes to the repository's non-test Go source (each one independent, each a separate patch) that BREAK this property while (a) still compiling, and (b) still passing the repository's existing tests for the affected packages (run them: `cd {wt} && GOFLAGS=-mod=mod go test -count=1 -vet=off ./<affected pkgs>/...` — no build tags; ignore tests that also fail/flake without your change, check by running them on the clean tree). The change should look like something a refactor, an optimisation or a plausible bug fix could introduce (a dropped or weakened guard, an off-by-one in a fence comparison, a skipped index/tombstone update, a stale cache returned, a reordered step, two sites that each look fine alone), and it must need something SPECIFIC to manifest — a particular interleaving, a crash or fault at a particular point, a multi-step sequence of operations, an unusual input — not something ordinary use or the first smoke test would expose at once. Do not edit or delete existing tests.

{avoid}
Number your changes k = {first}..{first + int(n) - 1}. For each change k deliver in {out}/{pid}-<k>/:
 - patch.diff — `git diff` of the change (must apply to a clean checkout with `git apply`);
 - a demonstration: a Go test file (in-package `_test.go`, name it zz_seed_demo_test.go, say where it goes) or a small program, that FAILS with the change applied and PASSES on the clean tree; you must have run it both ways;
 - meta.json — {{"property": "{pid}", "summary": "...what was changed and why it breaks the property...", "needs_to_manifest": "...the specific schedule/fault/sequence/input...", "files_changed": [...], "demo": {{"file": "...", "dest_dir_in_repo": "...", "run": "go test -run ... ./pkg/..."}}, "existing_tests_run": "...command(s) you ran and that they passed..."}}.
After recording a change, revert the worktree (`git -C {wt} checkout -- . && git -C {wt} clean -fd`) before starting the next one. NEVER use `git stash` (the stash is shared with other people's worktrees of the same repository) and keep any helper scripts inside {out}, not in shared temp paths. Keep builds confined to the packages you touch; the machine is shared. Finish with a short summary of the changes you delivered (or why one could not be made to pass the existing tests).""")
