package kit

import (
	"pgregory.net/rapid"
)

// LenClass draws a length biased to boundaries.
func LenClass(max int) *rapid.Generator[int] {
	return rapid.Custom(func(t *rapid.T) int {
		classes := []int{0, 1, 2, 7, 8, 15, 16, 17, 31, 32, 33, 55, 56, 63, 64, 65, 127, 128, 129, 255, 256, 257, 1023, 1024, 4095, 4096, 16383, 16384, 65535}
		switch rapid.IntRange(0, 9).Draw(t, "lenKind") {
		case 0, 1, 2:
			c := rapid.SampledFrom(classes).Draw(t, "lenClass")
			if c > max {
				c = max
			}
			return c
		case 3:
			return max
		default:
			m := max
			if m > 48 {
				m = 48
			}
			return rapid.IntRange(0, m).Draw(t, "lenSmall")
		}
	})
}

// Bytes draws a byte slice with a boundary-biased length.
func Bytes(max int) *rapid.Generator[[]byte] {
	return rapid.Custom(func(t *rapid.T) []byte {
		n := LenClass(max).Draw(t, "n")
		if n > 64 {
			// large: cheap fill from a short seed to keep the bitstream small
			seed := rapid.SliceOfN(rapid.Byte(), 1, 8).Draw(t, "fill")
			b := make([]byte, n)
			for i := range b {
				b[i] = seed[i%len(seed)] + byte(i/len(seed))
			}
			return b
		}
		return rapid.SliceOfN(rapid.Byte(), n, n).Draw(t, "b")
	})
}

// Uint64Edge draws uint64 biased to boundaries.
func Uint64Edge() *rapid.Generator[uint64] {
	return rapid.Custom(func(t *rapid.T) uint64 {
		switch rapid.IntRange(0, 5).Draw(t, "k") {
		case 0:
			return rapid.SampledFrom([]uint64{0, 1, 2, 127, 128, 255, 256, 1<<16 - 1, 1 << 16, 1<<31 - 1, 1 << 31, 1<<32 - 1, 1 << 32, 1<<63 - 1, 1 << 63, 1<<64 - 1}).Draw(t, "edge")
		case 1, 2:
			return uint64(rapid.IntRange(0, 20).Draw(t, "small"))
		default:
			return rapid.Uint64().Draw(t, "u")
		}
	})
}

// Mutation kinds for byte-level corruption.
type Mutation struct {
	Kind string
	Pos  int
	Val  byte
	N    int
}

// Mutate applies one generated mutation to a copy of b and returns it with a
// description. The result always differs from b when len(b) > 0.
func Mutate(t *rapid.T, b []byte) ([]byte, Mutation) {
	out := append([]byte(nil), b...)
	if len(out) == 0 {
		v := rapid.Byte().Draw(t, "mval")
		return []byte{v}, Mutation{Kind: "insert", Pos: 0, Val: v}
	}
	kind := rapid.SampledFrom([]string{"flipbit", "setbyte", "delete", "insert", "truncate", "dup", "zero"}).Draw(t, "mkind")
	pos := rapid.IntRange(0, len(out)-1).Draw(t, "mpos")
	m := Mutation{Kind: kind, Pos: pos}
	switch kind {
	case "flipbit":
		bit := rapid.IntRange(0, 7).Draw(t, "mbit")
		out[pos] ^= 1 << bit
		m.Val = 1 << bit
	case "setbyte":
		v := rapid.Byte().Draw(t, "mval")
		if v == out[pos] {
			v ^= 0xff
		}
		out[pos] = v
		m.Val = v
	case "delete":
		out = append(out[:pos], out[pos+1:]...)
	case "insert":
		v := rapid.Byte().Draw(t, "mval")
		out = append(out[:pos], append([]byte{v}, out[pos:]...)...)
		m.Val = v
	case "truncate":
		out = out[:pos]
	case "dup":
		n := rapid.IntRange(1, 8).Draw(t, "mn")
		if pos+n > len(out) {
			n = len(out) - pos
		}
		seg := append([]byte(nil), out[pos:pos+n]...)
		out = append(out[:pos+n], append(seg, out[pos+n:]...)...)
		m.N = n
	case "zero":
		n := rapid.IntRange(1, 8).Draw(t, "mn")
		changed := false
		for i := pos; i < pos+n && i < len(out); i++ {
			if out[i] != 0 {
				changed = true
			}
			out[i] = 0
		}
		if !changed {
			out[pos] = 0xff
		}
		m.N = n
	}
	return out, m
}
