module verif.local/kit

go 1.23

require pgregory.net/rapid v1.3.0
