// Package kit is the shared support library of the /verif harnesses: an
// evidence collector (cases, non-trivial classification, distinct hashes,
// labels, samples), budget handling, replay-artefact writing and
// known-finding lookup. It is linked into in-package test binaries that are
// injected into /repo by overlay; it never touches /repo.
package kit

import (
	"encoding/json"
	"fmt"
	"hash/fnv"
	"os"
	"path/filepath"
	"sort"
	"strconv"
	"strings"
	"sync"
	"testing"
	"time"

	"pgregory.net/rapid"
)

const (
	maxDistinct = 4_000_000
	maxSamples  = 6
)

// Collector accumulates evidence for one (property, test) pair in one process.
type Collector struct {
	mu         sync.Mutex
	prop       string
	test       string
	evals      int64
	nontrivial int64
	distinct   map[uint64]struct{}
	labels     map[string]int64
	samples    []any
	ntSamples  int
	budgetHit  int64
	incon      int64
	extra      map[string]any
	lastFlush  time.Time
	deadline   time.Time
	path       string
}

var (
	regMu sync.Mutex
	reg   = map[string]*Collector{}
)

// For returns the process-wide collector for (prop, t.Name()) and arranges a
// flush when the test finishes.
func For(t testing.TB, prop string) *Collector {
	regMu.Lock()
	defer regMu.Unlock()
	key := prop + "|" + t.Name()
	if c, ok := reg[key]; ok {
		return c
	}
	c := &Collector{
		prop:     prop,
		test:     t.Name(),
		distinct: map[uint64]struct{}{},
		labels:   map[string]int64{},
		extra:    map[string]any{},
	}
	if d := os.Getenv("VERIF_DEADLINE_UNIX"); d != "" {
		if n, err := strconv.ParseInt(d, 10, 64); err == nil && n > 0 {
			c.deadline = time.Unix(n, 0)
		}
	}
	if dir := os.Getenv("VERIF_STATS_DIR"); dir != "" {
		name := fmt.Sprintf("%s.%s.%d.json", prop, safe(t.Name()), os.Getpid())
		c.path = filepath.Join(dir, name)
	}
	reg[key] = c
	t.Cleanup(func() { c.Flush() })
	return c
}

func safe(s string) string {
	return strings.Map(func(r rune) rune {
		switch {
		case r >= 'a' && r <= 'z', r >= 'A' && r <= 'Z', r >= '0' && r <= '9', r == '_', r == '-':
			return r
		}
		return '_'
	}, s)
}

// Exhausted reports whether the overall wall-clock budget given by the driver
// has passed. Harnesses then stop generating (cases return immediately).
func (c *Collector) Exhausted() bool {
	if c.deadline.IsZero() {
		return false
	}
	if time.Now().After(c.deadline) {
		c.mu.Lock()
		c.budgetHit++
		c.mu.Unlock()
		return true
	}
	return false
}

// Case is one generated case under construction.
type Case struct {
	col        *Collector
	h          uint64
	hset       bool
	nontrivial bool
	labels     []string
	sample     any
	hasSample  bool
	sampleFn   func() any
}

func (c *Collector) NewCase() *Case { return &Case{col: c} }

// Key folds the canonical description of the drawn case into its hash.
func (k *Case) Key(parts ...any) {
	h := fnv.New64a()
	if k.hset {
		var b [8]byte
		for i := 0; i < 8; i++ {
			b[i] = byte(k.h >> (8 * i))
		}
		h.Write(b[:])
	}
	for _, p := range parts {
		switch v := p.(type) {
		case []byte:
			h.Write(v)
		case string:
			h.Write([]byte(v))
		default:
			fmt.Fprintf(h, "%v", v)
		}
		h.Write([]byte{0xff})
	}
	k.h = h.Sum64()
	k.hset = true
}

func (k *Case) NonTrivial()             { k.nontrivial = true }
func (k *Case) SetNonTrivial(b bool)    { k.nontrivial = b }
func (k *Case) IsNonTrivial() bool      { return k.nontrivial }
func (k *Case) Label(l string)          { k.labels = append(k.labels, l) }
func (k *Case) LabelIf(b bool, l string) {
	if b {
		k.labels = append(k.labels, l)
	}
}

// Sample records a printable description of the case; fn is only evaluated if
// the sample is actually kept.
func (k *Case) Sample(fn func() any) { k.sampleFn = fn }

// Commit counts the case. Call only when the case passed its oracle.
func (c *Collector) Commit(k *Case) {
	c.mu.Lock()
	defer c.mu.Unlock()
	c.evals++
	seen := map[string]bool{}
	for _, l := range k.labels {
		if !seen[l] {
			seen[l] = true
			c.labels[l]++
		}
	}
	if k.nontrivial {
		c.nontrivial++
		if k.hset && len(c.distinct) < maxDistinct {
			c.distinct[k.h] = struct{}{}
		}
	}
	if k.sampleFn != nil {
		want := false
		if k.nontrivial && c.ntSamples < maxSamples {
			want = true
		} else if len(c.samples) < 2 {
			want = true
		}
		if want {
			v := k.sampleFn()
			if k.nontrivial {
				c.ntSamples++
				c.samples = append([]any{v}, c.samples...)
			} else {
				c.samples = append(c.samples, v)
			}
			if len(c.samples) > maxSamples {
				c.samples = c.samples[:maxSamples]
			}
		}
	}
	if c.path != "" && time.Since(c.lastFlush) > 3*time.Second {
		c.flushLocked()
	}
}

// Inconclusive records a case whose outcome could not be judged (harness
// deadline, environment). It is never a violation.
func (c *Collector) Inconclusive(why string) {
	c.mu.Lock()
	c.incon++
	c.labels["inconclusive:"+why]++
	c.mu.Unlock()
}

// Extra stores an additional coverage key (last write wins; numbers are summed
// by the driver across processes when AddExtra is used).
func (c *Collector) Extra(key string, v any) {
	c.mu.Lock()
	c.extra[key] = v
	c.mu.Unlock()
}

func (c *Collector) AddExtra(key string, n int64) {
	c.mu.Lock()
	cur, _ := c.extra[key].(int64)
	c.extra[key] = cur + n
	c.mu.Unlock()
}

type statsFile struct {
	Prop       string           `json:"prop"`
	Test       string           `json:"test"`
	Evals      int64            `json:"evals"`
	NonTrivial int64            `json:"nontrivial"`
	Distinct   []uint64         `json:"distinct"`
	Labels     map[string]int64 `json:"labels"`
	Samples    []any            `json:"samples"`
	BudgetHit  int64            `json:"budget_hit"`
	Incon      int64            `json:"inconclusive"`
	Extra      map[string]any   `json:"extra"`
}

func (c *Collector) Flush() {
	c.mu.Lock()
	defer c.mu.Unlock()
	c.flushLocked()
}

func (c *Collector) flushLocked() {
	c.lastFlush = time.Now()
	if c.path == "" {
		return
	}
	sf := statsFile{Prop: c.prop, Test: c.test, Evals: c.evals, NonTrivial: c.nontrivial,
		Labels: c.labels, Samples: c.samples, BudgetHit: c.budgetHit, Incon: c.incon, Extra: c.extra}
	sf.Distinct = make([]uint64, 0, len(c.distinct))
	for h := range c.distinct {
		sf.Distinct = append(sf.Distinct, h)
	}
	sort.Slice(sf.Distinct, func(i, j int) bool { return sf.Distinct[i] < sf.Distinct[j] })
	b, err := json.Marshal(sf)
	if err != nil {
		// samples must be JSON-encodable; fall back to strings
		ss := make([]any, len(sf.Samples))
		for i, s := range sf.Samples {
			ss[i] = fmt.Sprintf("%+v", s)
		}
		sf.Samples = ss
		b, err = json.Marshal(sf)
		if err != nil {
			return
		}
	}
	tmp := c.path + ".tmp"
	if os.WriteFile(tmp, b, 0o644) == nil {
		_ = os.Rename(tmp, c.path)
	}
}

// Check runs body under rapid.Check with evidence accounting. The case is
// counted only if body returns normally (did not fail).
func Check(t *testing.T, prop string, body func(rt *rapid.T, k *Case)) {
	t.Helper()
	col := For(t, prop)
	rapid.Check(t, func(rt *rapid.T) {
		if col.Exhausted() {
			return
		}
		k := col.NewCase()
		body(rt, k)
		col.Commit(k)
	})
}

// Seed returns the effective seed the driver derived for this process.
func Seed() uint64 {
	if s := os.Getenv("VERIF_SEED_EFFECTIVE"); s != "" {
		if n, err := strconv.ParseUint(s, 10, 64); err == nil && n != 0 {
			return n
		}
	}
	return 1
}

// Tier returns "quick" or "thorough".
func Tier() string {
	if os.Getenv("VERIF_TIER") == "thorough" {
		return "thorough"
	}
	return "quick"
}

func Thorough() bool { return Tier() == "thorough" }

// Scale returns q in the quick tier and th in the thorough tier, optionally
// overridden by env VERIF_SCALE_<name>.
func Scale(name string, q, th int) int {
	if s := os.Getenv("VERIF_SCALE_" + name); s != "" {
		if n, err := strconv.Atoi(s); err == nil {
			return n
		}
	}
	if Thorough() {
		return th
	}
	return q
}

// Shard returns (index, count) of this process within a sharded run.
func Shard() (int, int) {
	i, _ := strconv.Atoi(os.Getenv("VERIF_SHARD"))
	n, _ := strconv.Atoi(os.Getenv("VERIF_SHARDS"))
	if n <= 0 {
		n = 1
	}
	return i, n
}

// WorkDir returns a fresh scratch directory under the driver's work dir (or
// the test temp dir) that is removed when the test ends.
func WorkDir(t testing.TB) string {
	base := os.Getenv("VERIF_WORK_DIR")
	if base == "" {
		return t.TempDir()
	}
	d, err := os.MkdirTemp(base, "w-")
	if err != nil {
		t.Fatalf("kit: workdir: %v", err)
	}
	t.Cleanup(func() { os.RemoveAll(d) })
	return d
}

// TempDir makes a scratch directory that the caller removes itself (for use
// inside rapid cases, where t.Cleanup is not available per case).
func TempDir() (string, func()) {
	base := os.Getenv("VERIF_WORK_DIR")
	if base == "" {
		base = os.TempDir()
	}
	d, err := os.MkdirTemp(base, "c-")
	if err != nil {
		panic(fmt.Sprintf("kit: tempdir: %v", err))
	}
	return d, func() { os.RemoveAll(d) }
}

// SaveReplay writes a replay artefact (history, input bytes) for a violation
// found outside rapid's own fail-file mechanism and returns its path.
func SaveReplay(prop, test, ext string, data []byte) string {
	dir := os.Getenv("VERIF_REPLAY_DIR")
	if dir == "" {
		dir = os.TempDir()
	}
	dir = filepath.Join(dir, safe(test))
	_ = os.MkdirAll(dir, 0o755)
	p := filepath.Join(dir, fmt.Sprintf("%s-%d-%d.%s", prop, time.Now().UnixNano(), os.Getpid(), ext))
	_ = os.WriteFile(p, data, 0o644)
	return p
}

// ReplayFile returns the artefact the driver asked this run to replay, if any
// (non-rapid artefacts only; rapid fail files go through -rapid.failfile).
func ReplayFile() string { return os.Getenv("VERIF_REPLAY_FILE") }

// Finding is one entry of /verif/known_findings.json.
type Finding struct {
	Property  string `json:"property"`
	Signature string `json:"signature"`
	Status    string `json:"status"` // "known" or "fixed"
	What      string `json:"what"`
	Commit    string `json:"commit,omitempty"`
}

var (
	findOnce sync.Once
	findings []Finding
	printed  sync.Map
)

func loadFindings() {
	p := os.Getenv("VERIF_KNOWN_FINDINGS")
	if p == "" {
		return
	}
	b, err := os.ReadFile(p)
	if err != nil {
		return
	}
	var doc struct {
		Findings []Finding `json:"findings"`
	}
	if json.Unmarshal(b, &doc) == nil {
		findings = doc.Findings
	}
}

// KnownFinding reports whether (prop, signature) is listed as a recorded,
// unrepaired finding. When it is, the KNOWN-FINDING line is printed once.
func KnownFinding(prop, signature string) bool {
	findOnce.Do(loadFindings)
	for _, f := range findings {
		if f.Property == prop && f.Signature == signature && f.Status == "known" {
			if _, dup := printed.LoadOrStore(prop+"|"+signature, true); !dup {
				fmt.Printf("KNOWN-FINDING: property=%s %s [%s]\n", prop, f.What, signature)
			}
			return true
		}
	}
	return false
}

// HasKnownFinding reports whether a signature is listed without printing.
func HasKnownFinding(prop, signature string) bool {
	findOnce.Do(loadFindings)
	for _, f := range findings {
		if f.Property == prop && f.Signature == signature && f.Status == "known" {
			return true
		}
	}
	return false
}
