package wire

import (
	"bytes"
	"encoding/binary"
	"errors"
	"fmt"
	"io"
	"runtime"
	"testing"

	"github.com/WuKongIM/WuKongIM/pkg/transport/internal/core"
	"pgregory.net/rapid"
	"verif.local/kit"
)

// C26 part 1 — every transport frame header round-trips; malformed headers
// (bad magic, version, flags, reserved bits, kind, priority, oversize body) are
// rejected, and ReadFrame rejects them after reading exactly the header,
// before the body is read or allocated.

func verifC26Header() *rapid.Generator[Header] {
	return rapid.Custom(func(t *rapid.T) Header {
		return Header{
			Kind:      core.FrameKind(rapid.IntRange(1, 5).Draw(t, "kind")),
			Priority:  core.Priority(rapid.IntRange(1, 4).Draw(t, "priority")),
			ServiceID: uint16(rapid.IntRange(0, 65535).Draw(t, "service")),
			RequestID: kit.Uint64Edge().Draw(t, "request"),
			BodyLen:   uint32(kit.Uint64Edge().Draw(t, "bodyLen")),
		}
	})
}

func verifC26Max() *rapid.Generator[int] {
	return rapid.Custom(func(t *rapid.T) int {
		switch rapid.IntRange(0, 3).Draw(t, "maxKind") {
		case 0:
			return rapid.SampledFrom([]int{0, 1, 255, 4096, 1 << 20, 64 << 20, 1<<31 - 1, 1<<32 - 1, 1 << 32, 1 << 40}).Draw(t, "maxEdge")
		default:
			return rapid.IntRange(0, 1<<26).Draw(t, "max")
		}
	})
}

// verifC26Reference is an independent statement of which 24-byte prefixes are
// valid headers under a body limit.
func verifC26Reference(b []byte, max int) (Header, string) {
	if len(b) < 24 {
		return Header{}, "short"
	}
	if b[0] != 0x57 || b[1] != 0x4b {
		return Header{}, "magic"
	}
	if b[2] != 1 {
		return Header{}, "version"
	}
	if b[3] != 0 {
		return Header{}, "flags"
	}
	if b[20]|b[21]|b[22]|b[23] != 0 {
		return Header{}, "reserved"
	}
	if b[4] < 1 || b[4] > 5 {
		return Header{}, "kind"
	}
	if b[5] < 1 || b[5] > 4 {
		return Header{}, "priority"
	}
	bl := binary.BigEndian.Uint32(b[16:20])
	if max < 0 || uint64(bl) > uint64(max) {
		return Header{}, "body"
	}
	return Header{Kind: core.FrameKind(b[4]), Priority: core.Priority(b[5]), ServiceID: binary.BigEndian.Uint16(b[6:8]),
		RequestID: binary.BigEndian.Uint64(b[8:16]), BodyLen: bl}, ""
}

func verifC26ErrClass(err error) string {
	switch {
	case err == nil:
		return ""
	case errors.Is(err, core.ErrInvalidFrame):
		return "invalid_frame"
	case errors.Is(err, core.ErrInvalidPriority):
		return "invalid_priority"
	case errors.Is(err, core.ErrMsgTooLarge):
		return "too_large"
	}
	return "other:" + err.Error()
}

func verifC26WantClass(reason string) string {
	switch reason {
	case "":
		return ""
	case "priority":
		return "invalid_priority"
	case "body":
		return "too_large"
	}
	return "invalid_frame"
}

// onlyHeaderReader hands out the given prefix and records any attempt to read
// past it (it then reports io.ErrUnexpectedEOF, as a peer that sent only the
// header and went away would).
type verifC26PrefixReader struct {
	data     []byte
	off      int
	pastRead int
}

func (r *verifC26PrefixReader) Read(p []byte) (int, error) {
	if r.off >= len(r.data) {
		r.pastRead++
		return 0, io.EOF
	}
	n := copy(p, r.data[r.off:])
	r.off += n
	return n, nil
}

func TestVerifC26HeaderRoundTrip(t *testing.T) {
	kit.Check(t, "C26", func(rt *rapid.T, k *kit.Case) {
		h := verifC26Header().Draw(rt, "header")
		max := verifC26Max().Draw(rt, "max")
		enc := EncodeHeader(h)
		if binary.BigEndian.Uint16(enc[0:]) != Magic || enc[2] != Version || enc[3] != 0 || binary.BigEndian.Uint32(enc[20:]) != 0 {
			rt.Fatalf("EncodeHeader(%+v) fixed fields wrong: % x", h, enc)
		}
		got, err := DecodeHeader(enc[:], max)
		fits := uint64(h.BodyLen) <= uint64(max)
		if fits {
			if err != nil || got != h {
				rt.Fatalf("DecodeHeader(EncodeHeader(%+v), %d) = %+v, %v", h, max, got, err)
			}
		} else if !errors.Is(err, core.ErrMsgTooLarge) {
			rt.Fatalf("body %d > max %d accepted or wrong error: %+v, %v", h.BodyLen, max, got, err)
		}
		// longer input: only the first 24 bytes matter
		tail := kit.Bytes(64).Draw(rt, "tail")
		got2, err2 := DecodeHeader(append(enc[:], tail...), max)
		if (err2 == nil) != (err == nil) || got2 != got {
			rt.Fatalf("trailing bytes changed the result: %+v,%v vs %+v,%v", got, err, got2, err2)
		}
		// every strict prefix is rejected as an invalid frame
		cut := rapid.IntRange(0, HeaderSize-1).Draw(rt, "cut")
		if _, err := DecodeHeader(enc[:cut], max); !errors.Is(err, core.ErrInvalidFrame) {
			rt.Fatalf("short header (%d bytes) gave %v", cut, err)
		}
		k.Key("rt", fmt.Sprintf("%+v", h), max)
		k.SetNonTrivial(fits && h.RequestID != 0)
		k.LabelIf(!fits, "roundtrip: body above limit")
		k.LabelIf(h.BodyLen == uint32(max), "roundtrip: body == limit")
		k.Sample(func() any { return fmt.Sprintf("roundtrip %+v max=%d", h, max) })
	})
}

func TestVerifC26HeaderReject(t *testing.T) {
	kit.Check(t, "C26", func(rt *rapid.T, k *kit.Case) {
		h := verifC26Header().Draw(rt, "header")
		max := verifC26Max().Draw(rt, "max")
		if uint64(h.BodyLen) > uint64(max) && rapid.Bool().Draw(rt, "fit") {
			h.BodyLen = uint32(uint64(h.BodyLen) % (uint64(max) + 1))
		}
		enc := EncodeHeader(h)
		b := append([]byte(nil), enc[:]...)
		var classes []string
		n := rapid.IntRange(0, 2).Draw(rt, "corruptions")
		if rapid.IntRange(0, 9).Draw(rt, "arbitrary") == 0 {
			b = rapid.SliceOfN(rapid.Byte(), HeaderSize, HeaderSize).Draw(rt, "raw")
			classes = append(classes, "arbitrary")
			n = 0
		}
		for i := 0; i < n; i++ {
			c := rapid.SampledFrom([]string{"magic", "version", "flags", "reserved", "kind", "priority", "body"}).Draw(rt, "class")
			classes = append(classes, c)
			switch c {
			case "magic":
				p := rapid.IntRange(0, 1).Draw(rt, "pos")
				b[p] ^= byte(rapid.IntRange(1, 255).Draw(rt, "x"))
			case "version":
				b[2] = byte(rapid.SampledFrom([]int{0, 2, 3, 127, 128, 255}).Draw(rt, "v"))
			case "flags":
				b[3] = byte(rapid.IntRange(1, 255).Draw(rt, "f"))
			case "reserved":
				p := rapid.IntRange(20, 23).Draw(rt, "pos")
				b[p] = byte(rapid.IntRange(1, 255).Draw(rt, "r"))
			case "kind":
				b[4] = byte(rapid.SampledFrom([]int{0, 6, 7, 128, 255}).Draw(rt, "kd"))
			case "priority":
				b[5] = byte(rapid.SampledFrom([]int{0, 5, 6, 128, 255}).Draw(rt, "pr"))
			case "body":
				if uint64(max) < 1<<32-1 {
					over := uint64(max) + 1 + uint64(rapid.IntRange(0, 1<<20).Draw(rt, "over"))
					if over > 1<<32-1 {
						over = 1<<32 - 1
					}
					binary.BigEndian.PutUint32(b[16:], uint32(over))
				}
			}
		}
		want, reason := verifC26Reference(b, max)
		got, err := DecodeHeader(b, max)
		if reason == "" {
			if err != nil || got != want {
				rt.Fatalf("valid header % x (max %d) rejected or mis-decoded: %+v, %v; want %+v", b, max, got, err, want)
			}
		} else {
			if err == nil {
				rt.Fatalf("malformed header % x (max %d, first defect: %s) accepted as %+v", b, max, reason, got)
			}
			if got != (Header{}) {
				rt.Fatalf("rejected header still returned fields %+v", got)
			}
			// the error class is determined by the defects present, whatever the check order
			cls := verifC26ErrClass(err)
			if cls != "invalid_frame" && cls != "invalid_priority" && cls != "too_large" {
				rt.Fatalf("malformed header % x rejected with an undocumented error %v", b, err)
			}
		}

		// through the wire reader: a source that supplies only the header
		src := &verifC26PrefixReader{data: b}
		var ms0, ms1 runtime.MemStats
		bigClaim := binary.BigEndian.Uint32(b[16:]) >= 4<<20
		if bigClaim && reason != "" {
			runtime.ReadMemStats(&ms0)
		}
		if reason == "" && want.BodyLen > 1<<20 {
			// a valid header announcing a large body makes the reader allocate it
			// (within the limit) — correct, but not something to do per case
			k.Key("rej", b, max)
			k.Label("accepted")
			return
		}
		frame, rerr := ReadFrame(src, max)
		if bigClaim && reason != "" {
			runtime.ReadMemStats(&ms1)
			if d := ms1.TotalAlloc - ms0.TotalAlloc; d > 1<<20 {
				rt.Fatalf("ReadFrame allocated %d bytes while rejecting header % x (claimed body %d)", d, b, binary.BigEndian.Uint32(b[16:]))
			}
		}
		if reason != "" {
			if rerr == nil {
				rt.Fatalf("ReadFrame accepted malformed header % x", b)
			}
			if src.pastRead != 0 || src.off != HeaderSize {
				rt.Fatalf("ReadFrame kept reading (%d reads past the header) after a malformed header % x: %v", src.pastRead, b, rerr)
			}
			if verifC26ErrClass(rerr) != verifC26ErrClass(err) {
				rt.Fatalf("ReadFrame error %v differs from DecodeHeader error %v", rerr, err)
			}
			if frame.Body.Len() != 0 {
				rt.Fatalf("ReadFrame returned a body with a malformed header")
			}
		} else if want.BodyLen == 0 {
			if rerr != nil || frame.Header != want || frame.Body.Len() != 0 {
				rt.Fatalf("ReadFrame of a valid empty frame: %+v, %v", frame.Header, rerr)
			}
		} else if rerr == nil {
			rt.Fatalf("ReadFrame returned a frame although the body (%d bytes) never arrived", want.BodyLen)
		}

		k.Key("rej", b, max)
		k.SetNonTrivial(reason != "")
		for _, c := range classes {
			k.Label("corruption generated: " + c)
		}
		if reason != "" {
			k.Label("rejected, first defect: " + reason)
		} else {
			k.Label("accepted")
		}
		k.LabelIf(bigClaim && reason != "", "allocation bound checked (claimed body >= 4 MiB)")
		k.Sample(func() any { return fmt.Sprintf("header % x max=%d -> %s", b, max, reason) })
	})
}

// TestVerifC26FrameStream: frames written by the wire writer are read back
// identically and in order by the wire reader, also when the stream is
// delivered in arbitrary chunks; the writer refuses headers the reader would
// refuse.
func TestVerifC26FrameStream(t *testing.T) {
	kit.Check(t, "C26", func(rt *rapid.T, k *kit.Case) {
		max := rapid.SampledFrom([]int{1, 16, 512, 4096, 70000}).Draw(rt, "max")
		n := rapid.IntRange(1, 8).Draw(rt, "frames")
		var frames []Frame
		var bodies [][]byte
		for i := 0; i < n; i++ {
			h := verifC26Header().Draw(rt, "h")
			body := kit.Bytes(max).Draw(rt, "body")
			if len(body) > max {
				body = body[:max]
			}
			h.BodyLen = uint32(rapid.IntRange(0, 1<<20).Draw(rt, "staleBodyLen")) // ignored: the writer sets it from the body
			frames = append(frames, Frame{Header: h, Body: core.NewOwnedBuffer(body, nil)})
			bodies = append(bodies, body)
		}
		var buf bytes.Buffer
		if err := WriteFrames(&buf, frames, max); err != nil {
			rt.Fatalf("WriteFrames of valid frames: %v", err)
		}
		stream := buf.Bytes()
		total := 0
		for _, b := range bodies {
			total += HeaderSize + len(b)
		}
		if len(stream) != total {
			rt.Fatalf("stream is %d bytes, want %d", len(stream), total)
		}
		chunk := rapid.IntRange(1, 64).Draw(rt, "chunk")
		r := io.Reader(&verifC26ChunkReader{data: stream, chunk: chunk})
		for i := 0; i < n; i++ {
			f, err := ReadFrame(r, max)
			if err != nil {
				rt.Fatalf("ReadFrame #%d: %v", i, err)
			}
			want := frames[i].Header
			want.BodyLen = uint32(len(bodies[i]))
			if f.Header != want || !bytes.Equal(f.Body.Bytes(), bodies[i]) {
				rt.Fatalf("frame #%d read back as %+v / %d body bytes, want %+v / %d", i, f.Header, f.Body.Len(), want, len(bodies[i]))
			}
			f.Body.Release()
		}
		if _, err := ReadFrame(r, max); err != io.EOF {
			rt.Fatalf("after the last frame ReadFrame gave %v, want io.EOF", err)
		}
		// writer-side rejection
		bad := frames[0]
		which := rapid.SampledFrom([]string{"kind", "priority", "body"}).Draw(rt, "bad")
		switch which {
		case "kind":
			bad.Header.Kind = core.FrameKind(rapid.SampledFrom([]int{0, 6, 255}).Draw(rt, "bk"))
		case "priority":
			bad.Header.Priority = core.Priority(rapid.SampledFrom([]int{0, 5, 255}).Draw(rt, "bp"))
		case "body":
			bad.Body = core.NewOwnedBuffer(make([]byte, max+1+rapid.IntRange(0, 8).Draw(rt, "extra")), nil)
		}
		var out bytes.Buffer
		if err := WriteFrames(&out, []Frame{frames[0], bad}, max); err == nil {
			rt.Fatalf("WriteFrames accepted a frame with bad %s", which)
		} else if out.Len() != 0 {
			rt.Fatalf("WriteFrames wrote %d bytes of a batch it rejected", out.Len())
		}
		k.Key("stream", stream, max, chunk)
		k.SetNonTrivial(n > 1 && total > n*HeaderSize)
		k.LabelIf(chunk < HeaderSize, "stream delivered in chunks smaller than a header")
		k.Sample(func() any { return fmt.Sprintf("stream of %d frames, %d bytes, chunk %d", n, total, chunk) })
	})
}

type verifC26ChunkReader struct {
	data  []byte
	chunk int
}

func (r *verifC26ChunkReader) Read(p []byte) (int, error) {
	if len(r.data) == 0 {
		return 0, io.EOF
	}
	n := r.chunk
	if n > len(p) {
		n = len(p)
	}
	if n > len(r.data) {
		n = len(r.data)
	}
	copy(p, r.data[:n])
	r.data = r.data[n:]
	return n, nil
}
