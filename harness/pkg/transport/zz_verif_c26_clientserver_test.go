package transport

import (
	"bytes"
	"context"
	"encoding/binary"
	"encoding/hex"
	"encoding/json"
	"errors"
	"fmt"
	"net"
	"strings"
	"sync"
	"sync/atomic"
	"testing"
	"time"

	"pgregory.net/rapid"
	"verif.local/kit"
)

// C26 part 2c — RPC correlation through the public Client and Server: real
// listener on loopback, real peer manager / connection pool, an injected Dialer
// that wraps every dialled connection in a generated fault conn (reset after n
// bytes, half-close, chunked and stalled writes). Concurrent Calls carry a
// unique token; the service handler answers with a function of the request,
// after a generated delay, or with an error naming the token, or runs into the
// service timeout. Each Call must return its own answer / its own remote error
// / some other error; a handler runs at most once per request.

type verifC26SCall struct {
	Shard   int
	Pad     int
	Ctx     int // 0 long, 1 timeout, 2 cancel later, 3 already cancelled
	CtxUs   int
	DelayUs int
	AsErr   bool
	Service int // 7 registered, 9 not registered
}

type verifC26SFault struct {
	ResetAfterWrite int
	ResetAfterRead  int
	HalfClose       bool
	Chunk           int
	StallUs         int
}

type verifC26SPlan struct {
	PoolSize    int
	Concurrency int
	QueueSize   int
	TimeoutUs   int // service handler timeout (0: none)
	Dials       []verifC26SFault
	Callers     [][]verifC26SCall
	ClosePeerAt int // ClosePeer after this many calls returned (0: never)
}

type verifC26SFaultConn struct {
	net.Conn
	f       verifC26SFault
	written atomic.Int64
	read    atomic.Int64
	fired   *atomic.Int32
	once    sync.Once
}

func (c *verifC26SFaultConn) fire() {
	c.once.Do(func() {
		c.fired.Add(1)
		if c.f.HalfClose {
			if tc, ok := c.Conn.(*net.TCPConn); ok {
				_ = tc.CloseWrite()
				return
			}
		}
		_ = c.Conn.Close()
	})
}

func (c *verifC26SFaultConn) Write(p []byte) (int, error) {
	if c.f.StallUs > 0 {
		time.Sleep(time.Duration(c.f.StallUs) * time.Microsecond)
	}
	total := 0
	for len(p) > 0 {
		piece := p
		if c.f.Chunk > 0 && len(piece) > c.f.Chunk {
			piece = piece[:c.f.Chunk]
		}
		if c.f.ResetAfterWrite > 0 {
			left := int64(c.f.ResetAfterWrite) - c.written.Load()
			if left <= 0 {
				c.fire()
				return total, errors.New("verif: link reset (write budget)")
			}
			if int64(len(piece)) > left {
				piece = piece[:left]
			}
		}
		n, err := c.Conn.Write(piece)
		total += n
		c.written.Add(int64(n))
		if err != nil {
			return total, err
		}
		p = p[n:]
	}
	return total, nil
}

func (c *verifC26SFaultConn) Read(p []byte) (int, error) {
	n, err := c.Conn.Read(p)
	if c.f.ResetAfterRead > 0 && c.read.Add(int64(n)) >= int64(c.f.ResetAfterRead) {
		c.fire()
	}
	return n, err
}

type verifC26SDiscovery string

func (d verifC26SDiscovery) Resolve(NodeID) (string, error) { return string(d), nil }

func verifC26SRequest(token uint64, cp verifC26SCall) []byte {
	b := make([]byte, 16+cp.Pad)
	binary.BigEndian.PutUint64(b, token)
	if cp.AsErr {
		b[8] = 1
	}
	binary.BigEndian.PutUint32(b[9:], uint32(cp.DelayUs))
	for i := 16; i < len(b); i++ {
		b[i] = byte(token>>uint(8*(i%8))) ^ byte(i)
	}
	return b
}

func verifC26SAnswer(req []byte) []byte {
	out := make([]byte, 0, len(req)+1)
	out = append(out, 'R')
	for i := len(req) - 1; i >= 0; i-- {
		out = append(out, req[i])
	}
	return out
}

type verifC26SOutcome struct {
	Caller  int    `json:"caller"`
	Index   int    `json:"index"`
	Token   string `json:"token"`
	Plan    verifC26SCall
	Err     string `json:"err,omitempty"`
	Remote  string `json:"remote,omitempty"`
	Verdict string `json:"verdict,omitempty"`
}

var verifC26SSaved atomic.Int32
var verifC26SNonce atomic.Uint64

func TestVerifC26ClientServer(t *testing.T) {
	col := kit.For(t, "C26")
	kit.Check(t, "C26", func(rt *rapid.T, k *kit.Case) {
		plan := verifC26SPlan{
			PoolSize:    rapid.IntRange(1, 3).Draw(rt, "pool"),
			Concurrency: rapid.SampledFrom([]int{1, 2, 8}).Draw(rt, "concurrency"),
			QueueSize:   rapid.SampledFrom([]int{1, 4, 64}).Draw(rt, "queue"),
			TimeoutUs:   rapid.SampledFrom([]int{0, 0, 500, 5000}).Draw(rt, "svcTimeoutUs"),
		}
		nd := rapid.IntRange(1, 6).Draw(rt, "dials")
		for i := 0; i < nd; i++ {
			var f verifC26SFault
			switch rapid.IntRange(0, 5).Draw(rt, "faultKind") {
			case 0, 1:
				f.ResetAfterWrite = rapid.IntRange(1, 4000).Draw(rt, "resetW")
				f.HalfClose = rapid.IntRange(0, 3).Draw(rt, "half") == 0
			case 2:
				f.ResetAfterRead = rapid.IntRange(1, 4000).Draw(rt, "resetR")
			}
			if rapid.IntRange(0, 2).Draw(rt, "chunked") == 0 {
				f.Chunk = rapid.IntRange(1, 64).Draw(rt, "chunk")
			}
			if rapid.IntRange(0, 4).Draw(rt, "stalled") == 0 {
				f.StallUs = rapid.IntRange(1, 300).Draw(rt, "stall")
			}
			plan.Dials = append(plan.Dials, f)
		}
		var nc int
		if rapid.Bool().Draw(rt, "many") {
			nc = rapid.IntRange(8, 64).Draw(rt, "callers")
		} else {
			nc = rapid.IntRange(2, 8).Draw(rt, "callers")
		}
		total := 0
		for c := 0; c < nc; c++ {
			n := rapid.IntRange(1, 4).Draw(rt, "ncalls")
			calls := make([]verifC26SCall, n)
			for i := range calls {
				cp := verifC26SCall{Shard: rapid.IntRange(0, 5).Draw(rt, "shard"), Service: 7}
				if rapid.IntRange(0, 9).Draw(rt, "padKind") == 0 {
					cp.Pad = rapid.IntRange(0, 3000).Draw(rt, "padBig")
				} else {
					cp.Pad = rapid.IntRange(0, 64).Draw(rt, "pad")
				}
				switch rapid.IntRange(0, 9).Draw(rt, "ctxKind") {
				case 0, 1:
					cp.Ctx, cp.CtxUs = 1, rapid.IntRange(1, 4000).Draw(rt, "timeoutUs")
				case 2, 3:
					cp.Ctx, cp.CtxUs = 2, rapid.IntRange(1, 4000).Draw(rt, "cancelUs")
				case 4:
					cp.Ctx = 3
				}
				cp.DelayUs = rapid.SampledFrom([]int{0, 0, 0, 50, 300, 1500}).Draw(rt, "delayUs")
				cp.AsErr = rapid.IntRange(0, 4).Draw(rt, "asErr") == 0
				if rapid.IntRange(0, 14).Draw(rt, "missingSvc") == 0 {
					cp.Service = 9
				}
				calls[i] = cp
			}
			total += n
			plan.Callers = append(plan.Callers, calls)
		}
		if rapid.IntRange(0, 3).Draw(rt, "closePeer") == 0 {
			plan.ClosePeerAt = rapid.IntRange(1, total).Draw(rt, "closePeerAt")
		}

		limits := DefaultLimits()
		limits.MaxFrameBodyBytes = 16384
		limits.MaxBatchBytes = 16384
		limits.DialFailureCooldown = 0
		server, err := NewServer(ServerConfig{NodeID: 2, Limits: limits})
		if err != nil {
			rt.Fatalf("NewServer: %v", err)
		}
		var served sync.Map
		handler := func(ctx context.Context, payload []byte) ([]byte, error) {
			if len(payload) < 16 {
				return nil, errors.New("short")
			}
			req := append([]byte(nil), payload...)
			token := binary.BigEndian.Uint64(req)
			cnt, _ := served.LoadOrStore(token, new(atomic.Int32))
			cnt.(*atomic.Int32).Add(1)
			if d := time.Duration(binary.BigEndian.Uint32(req[9:])) * time.Microsecond; d > 0 {
				time.Sleep(d)
			}
			if req[8] == 1 {
				return nil, errors.New("E:" + hex.EncodeToString(req[:8]))
			}
			return verifC26SAnswer(req), nil
		}
		if err := server.Handle(7, handler, ServiceOptions{Concurrency: plan.Concurrency, QueueSize: plan.QueueSize, MaxQueueBytes: 1 << 20,
			Timeout: time.Duration(plan.TimeoutUs) * time.Microsecond}); err != nil {
			server.Stop()
			rt.Fatalf("Handle: %v", err)
		}
		if err := server.ListenAndServe("127.0.0.1:0"); err != nil {
			server.Stop()
			col.Inconclusive("listen: " + err.Error())
			rt.Skip("no listener")
		}
		var dialN, fired atomic.Int32
		client, err := NewClient(ClientConfig{NodeID: 1, Discovery: verifC26SDiscovery(server.Addr()), PoolSize: plan.PoolSize, Limits: limits,
			DialTimeout: 10 * time.Second,
			Dialer: func(network, addr string, timeout time.Duration) (net.Conn, error) {
				raw, err := net.DialTimeout(network, addr, timeout)
				if err != nil {
					return nil, err
				}
				i := int(dialN.Add(1)) - 1
				var f verifC26SFault
				if i < len(plan.Dials) {
					f = plan.Dials[i]
				}
				return &verifC26SFaultConn{Conn: raw, f: f, fired: &fired}, nil
			}})
		if err != nil {
			server.Stop()
			rt.Fatalf("NewClient: %v", err)
		}

		nonce := verifC26SNonce.Add(1) << 24
		outcomes := make([][]verifC26SOutcome, nc)
		var returned atomic.Int32
		var callers sync.WaitGroup
		startCh := make(chan struct{})
		for c := 0; c < nc; c++ {
			c := c
			callers.Add(1)
			go func() {
				defer callers.Done()
				<-startCh
				for i, cp := range plan.Callers[c] {
					token := nonce | uint64(c)<<8 | uint64(i)
					req := verifC26SRequest(token, cp)
					ctx, cancel := context.WithTimeout(context.Background(), 30*time.Second)
					switch cp.Ctx {
					case 1:
						cancel()
						ctx, cancel = context.WithTimeout(context.Background(), time.Duration(cp.CtxUs)*time.Microsecond)
					case 2:
						tm := time.AfterFunc(time.Duration(cp.CtxUs)*time.Microsecond, cancel)
						defer tm.Stop()
					case 3:
						cancel()
					}
					payload, err := client.Call(ctx, 2, uint64(cp.Shard), PriorityRPC, uint16(cp.Service), req)
					longExpired := cp.Ctx == 0 && ctx.Err() != nil
					cancel()
					o := verifC26SOutcome{Caller: c, Index: i, Token: hex.EncodeToString(req[:8]), Plan: cp}
					var re RemoteError
					switch {
					case err == nil:
						switch {
						case !bytes.Equal(payload, verifC26SAnswer(req)):
							o.Verdict = fmt.Sprintf("received an answer that is not its own (%d bytes, starts %q)", len(payload), verifC26STrunc(payload))
						case cp.AsErr:
							o.Verdict = "received a success although its handler returned an error"
						case cp.Service != 7:
							o.Verdict = "received a success from a service that is not registered"
						case cp.Ctx == 3:
							o.Verdict = "a call with an already cancelled context was answered"
						}
					case errors.As(err, &re):
						o.Remote = re.Code + "|" + re.Message
						switch {
						case strings.HasPrefix(re.Message, "E:"):
							if re.Message != "E:"+o.Token {
								o.Verdict = fmt.Sprintf("received another call's handler error %q", re.Message)
							} else if !cp.AsErr {
								o.Verdict = "received a handler error although its handler succeeded"
							}
						case re.Code == RemoteErrorCodeServiceNotFound:
							if cp.Service == 7 {
								o.Verdict = "received service_not_found for the registered service"
							}
						}
					default:
						o.Err = err.Error()
						if longExpired {
							o.Verdict = "INCONCLUSIVE"
						}
					}
					outcomes[c] = append(outcomes[c], o)
					if n := int(returned.Add(1)); n == plan.ClosePeerAt {
						client.ClosePeer(2)
					}
				}
			}()
		}
		close(startCh)
		joined := make(chan struct{})
		go func() { callers.Wait(); close(joined) }()
		timedOut := false
		select {
		case <-joined:
		case <-time.After(120 * time.Second):
			timedOut = true
		}
		client.Stop()
		server.Stop()
		if timedOut {
			col.Inconclusive("calls not joined within 120s")
			rt.Skip("inconclusive")
		}

		var all []verifC26SOutcome
		for _, os := range outcomes {
			all = append(all, os...)
		}
		fail := func(format string, args ...any) {
			msg := fmt.Sprintf(format, args...)
			if verifC26SSaved.Add(1) <= 3 {
				b, _ := json.MarshalIndent(map[string]any{"violation": msg, "plan": plan, "outcomes": all}, "", " ")
				rt.Logf("history saved to %s", kit.SaveReplay("C26", "TestVerifC26ClientServer", "json", b))
			}
			rt.Fatalf("VERIF-VIOLATION C26: %s", msg)
		}
		var nOK, nOwnErr, nSvcTimeout, nBusy, nNotFound, nTimeout, nCancel, nLost int
		for _, o := range all {
			if o.Verdict == "INCONCLUSIVE" {
				col.Inconclusive("a 30s call deadline expired")
				rt.Skip("inconclusive")
			}
			if o.Verdict != "" {
				fail("call %d/%d (token %s, %+v): %s", o.Caller, o.Index, o.Token, o.Plan, o.Verdict)
			}
			switch {
			case o.Err == "" && o.Remote == "":
				nOK++
				cnt, ok := served.Load(binary.BigEndian.Uint64(verifC26SMustHex(o.Token)))
				if !ok || cnt.(*atomic.Int32).Load() != 1 {
					fail("call %s succeeded but its handler ran %v times", o.Token, cnt)
				}
			case strings.HasPrefix(o.Remote, RemoteErrorCodeGeneric+"|E:"):
				nOwnErr++
			case strings.Contains(o.Remote, "timeout"):
				nSvcTimeout++
			case strings.Contains(o.Remote, "busy"):
				nBusy++
			case strings.HasPrefix(o.Remote, RemoteErrorCodeServiceNotFound):
				nNotFound++
			case o.Err == context.DeadlineExceeded.Error():
				nTimeout++
			case o.Err == ErrCanceled.Error() || o.Err == context.Canceled.Error():
				nCancel++
			default:
				nLost++
			}
		}
		served.Range(func(key, v any) bool {
			if n := v.(*atomic.Int32).Load(); n > 1 {
				fail("request with token %016x was executed %d times", key.(uint64), n)
			}
			return true
		})
		resets := int(fired.Load())
		b, _ := json.Marshal(plan)
		k.Key(b)
		k.SetNonTrivial(nc >= 2 && nTimeout+nCancel > 0 && resets > 0 && nOK+nOwnErr > 0)
		k.LabelIf(nOK > 0, "stack: calls answered with own response")
		k.LabelIf(nOwnErr > 0, "stack: own handler error returned")
		k.LabelIf(nSvcTimeout > 0, "stack: service timeout reported")
		k.LabelIf(nBusy > 0, "stack: service busy reported")
		k.LabelIf(nNotFound > 0, "stack: service not found reported")
		k.LabelIf(nTimeout > 0, "stack: caller timeout")
		k.LabelIf(nCancel > 0, "stack: caller cancellation")
		k.LabelIf(nLost > 0, "stack: calls failed by connection loss / stop")
		k.LabelIf(resets > 0, "stack: connection reset or half-closed")
		k.LabelIf(resets > 0 && nOK > 0 && nLost > 0, "stack: reset while other calls were in flight")
		k.LabelIf(int(dialN.Load()) > plan.PoolSize, "stack: reconnected after a reset")
		k.LabelIf(plan.ClosePeerAt > 0, "stack: ClosePeer during the run")
		col.AddExtra("stack_calls", int64(len(all)))
		k.Sample(func() any {
			return fmt.Sprintf("stack pool=%d callers=%d calls=%d ok=%d ownErr=%d svcTimeout=%d busy=%d timeout=%d cancel=%d lost=%d resets=%d dials=%d",
				plan.PoolSize, nc, len(all), nOK, nOwnErr, nSvcTimeout, nBusy, nTimeout, nCancel, nLost, resets, dialN.Load())
		})
	})
}

func verifC26SMustHex(s string) []byte {
	b, _ := hex.DecodeString(s)
	return b
}

func verifC26STrunc(b []byte) []byte {
	if len(b) > 32 {
		return b[:32]
	}
	return b
}
