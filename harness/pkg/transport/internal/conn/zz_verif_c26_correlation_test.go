package conn

import (
	"bytes"
	"context"
	"encoding/binary"
	"encoding/hex"
	"encoding/json"
	"errors"
	"fmt"
	"net"
	"runtime"
	"sync"
	"sync/atomic"
	"testing"
	"time"

	"github.com/WuKongIM/WuKongIM/pkg/transport/internal/core"
	"github.com/WuKongIM/WuKongIM/pkg/transport/wire"
	"pgregory.net/rapid"
	"verif.local/kit"
)

// C26 part 2b — RPC correlation on one connection pair. A client Conn and a
// server Conn (real read/write loops, real scheduler and pending table) talk
// over loopback TCP or net.Pipe through a generated fault wrapper. Generated
// concurrent Calls carry a unique token; the peer answers after a generated
// delay, with an error, twice, not at all, or additionally for an id that was
// never issued. Each Call must return its own answer or an error; when every
// Call has returned the pending table must be empty.

type verifC26CallPlan struct {
	Priority int
	Pad      int
	Ctx      int // 0 long, 1 timeout, 2 cancel later, 3 already cancelled
	CtxUs    int
	DelayUs  int
	Flags    byte // bit0: answer with error, bit1: never answer, bit2: answer twice, bit3: extra answer for an unknown id
}

const (
	verifC26FlagErr   = 1
	verifC26FlagDrop  = 2
	verifC26FlagDup   = 4
	verifC26FlagBogus = 8
)

type verifC26Fault struct {
	ResetAfterWrite int // close the link after this many bytes written (0: never)
	ResetAfterRead  int
	HalfClose       bool // TCP only: CloseWrite instead of Close on the write budget
	Chunk           int  // split writes into pieces of this size (0: whole)
	StallUs         int
}

type verifC26ConnPlan struct {
	Net         string
	MaxItems    int
	MaxBytes    int
	BatchBytes  int
	BatchFrames int
	BatchWaitUs int
	Client      verifC26Fault
	Server      verifC26Fault
	Callers     [][]verifC26CallPlan
	Burst       bool // many callers x many immediate calls on a healthy link (request-id contention)
}

type verifC26FaultConn struct {
	net.Conn
	f       verifC26Fault
	written atomic.Int64
	read    atomic.Int64
	fired   atomic.Bool
}

func (c *verifC26FaultConn) fire() {
	if c.fired.CompareAndSwap(false, true) {
		if c.f.HalfClose {
			if tc, ok := c.Conn.(*net.TCPConn); ok {
				_ = tc.CloseWrite()
				return
			}
		}
		_ = c.Conn.Close()
	}
}

func (c *verifC26FaultConn) Write(p []byte) (int, error) {
	if c.f.StallUs > 0 {
		time.Sleep(time.Duration(c.f.StallUs) * time.Microsecond)
	}
	total := 0
	for len(p) > 0 {
		piece := p
		if c.f.Chunk > 0 && len(piece) > c.f.Chunk {
			piece = piece[:c.f.Chunk]
		}
		if c.f.ResetAfterWrite > 0 {
			left := int64(c.f.ResetAfterWrite) - c.written.Load()
			if left <= 0 {
				c.fire()
				return total, errors.New("verif: link reset (write budget)")
			}
			if int64(len(piece)) > left {
				piece = piece[:left]
			}
		}
		n, err := c.Conn.Write(piece)
		total += n
		c.written.Add(int64(n))
		if err != nil {
			return total, err
		}
		p = p[n:]
	}
	return total, nil
}

func (c *verifC26FaultConn) Read(p []byte) (int, error) {
	n, err := c.Conn.Read(p)
	if c.f.ResetAfterRead > 0 && c.read.Add(int64(n)) >= int64(c.f.ResetAfterRead) {
		c.fire()
	}
	return n, err
}

func verifC26DrawFault(rt *rapid.T, name string) verifC26Fault {
	var f verifC26Fault
	switch rapid.IntRange(0, 5).Draw(rt, name+"Kind") {
	case 0, 1:
		f.ResetAfterWrite = rapid.IntRange(1, 6000).Draw(rt, name+"ResetW")
		f.HalfClose = rapid.IntRange(0, 3).Draw(rt, name+"Half") == 0
	case 2:
		f.ResetAfterRead = rapid.IntRange(1, 6000).Draw(rt, name+"ResetR")
	}
	if rapid.IntRange(0, 2).Draw(rt, name+"Chunked") == 0 {
		f.Chunk = rapid.IntRange(1, 64).Draw(rt, name+"Chunk")
	}
	if rapid.IntRange(0, 4).Draw(rt, name+"Stalled") == 0 {
		f.StallUs = rapid.IntRange(1, 300).Draw(rt, name+"Stall")
	}
	return f
}

func verifC26Request(token uint64, cp verifC26CallPlan) []byte {
	b := make([]byte, 16+cp.Pad)
	binary.BigEndian.PutUint64(b, token)
	b[8] = cp.Flags
	binary.BigEndian.PutUint32(b[9:], uint32(cp.DelayUs))
	for i := 16; i < len(b); i++ {
		b[i] = byte(token>>uint(8*(i%8))) ^ byte(i)
	}
	return b
}

// the answer is a function of the whole request, so a swapped answer is visible
func verifC26Answer(req []byte) []byte {
	out := make([]byte, 0, len(req)+1)
	out = append(out, 'R')
	for i := len(req) - 1; i >= 0; i-- {
		out = append(out, req[i])
	}
	return out
}

type verifC26Outcome struct {
	Caller  int    `json:"caller"`
	Index   int    `json:"index"`
	Token   string `json:"token"`
	Flags   byte   `json:"flags"`
	Ctx     int    `json:"ctx"`
	Err     string `json:"err,omitempty"`
	Remote  bool   `json:"remote,omitempty"`
	Payload string `json:"payload,omitempty"`
	Verdict string `json:"verdict,omitempty"`
}

var verifC26Saved atomic.Int32
var verifC26Nonce atomic.Uint64

func verifC26Pair(network string) (net.Conn, net.Conn, error) {
	if network == "pipe" {
		a, b := net.Pipe()
		return a, b, nil
	}
	ln, err := net.Listen("tcp", "127.0.0.1:0")
	if err != nil {
		return nil, nil, err
	}
	defer ln.Close()
	type acc struct {
		c   net.Conn
		err error
	}
	ch := make(chan acc, 1)
	go func() { c, err := ln.Accept(); ch <- acc{c, err} }()
	a, err := net.DialTimeout("tcp", ln.Addr().String(), 10*time.Second)
	if err != nil {
		return nil, nil, err
	}
	b := <-ch
	if b.err != nil {
		a.Close()
		return nil, nil, b.err
	}
	return a, b.c, nil
}

func TestVerifC26ConnCorrelation(t *testing.T) {
	col := kit.For(t, "C26")
	kit.Check(t, "C26", func(rt *rapid.T, k *kit.Case) {
		plan := verifC26ConnPlan{
			Net:         rapid.SampledFrom([]string{"tcp", "tcp", "pipe"}).Draw(rt, "net"),
			MaxItems:    rapid.SampledFrom([]int{2, 8, 64, 4096}).Draw(rt, "maxItems"),
			MaxBytes:    rapid.SampledFrom([]int{4096, 65536, 1 << 20}).Draw(rt, "maxBytes"),
			BatchBytes:  rapid.SampledFrom([]int{64, 1024, 16384}).Draw(rt, "batchBytes"),
			BatchFrames: rapid.SampledFrom([]int{1, 2, 8, 64}).Draw(rt, "batchFrames"),
			BatchWaitUs: rapid.SampledFrom([]int{0, 0, 50}).Draw(rt, "batchWaitUs"),
		}
		plan.Burst = rapid.IntRange(0, 7).Draw(rt, "burst") == 0
		if !plan.Burst {
			plan.Client = verifC26DrawFault(rt, "client")
			if rapid.IntRange(0, 2).Draw(rt, "serverFaulty") == 0 {
				plan.Server = verifC26DrawFault(rt, "server")
			}
		} else {
			plan.MaxItems, plan.MaxBytes = 4096, 1<<20
		}
		var nc int
		if plan.Burst {
			nc = rapid.IntRange(32, 64).Draw(rt, "burstCallers")
		} else if rapid.Bool().Draw(rt, "many") {
			nc = rapid.IntRange(8, 48).Draw(rt, "callers")
		} else {
			nc = rapid.IntRange(2, 8).Draw(rt, "callers")
		}
		for c := 0; c < nc; c++ {
			if plan.Burst {
				n := rapid.IntRange(40, 120).Draw(rt, "burstCalls")
				calls := make([]verifC26CallPlan, n)
				pri := rapid.IntRange(1, 4).Draw(rt, "burstPri")
				for i := range calls {
					calls[i] = verifC26CallPlan{Priority: pri, Pad: i % 17}
				}
				plan.Callers = append(plan.Callers, calls)
				continue
			}
			n := rapid.IntRange(1, 4).Draw(rt, "ncalls")
			calls := make([]verifC26CallPlan, n)
			for i := range calls {
				cp := verifC26CallPlan{Priority: rapid.IntRange(1, 4).Draw(rt, "pri")}
				switch rapid.IntRange(0, 9).Draw(rt, "padKind") {
				case 0:
					cp.Pad = rapid.IntRange(0, 3000).Draw(rt, "padBig")
				case 1:
					cp.Pad = 20000 // above the frame limit used here: refused locally
				default:
					cp.Pad = rapid.IntRange(0, 64).Draw(rt, "pad")
				}
				switch rapid.IntRange(0, 9).Draw(rt, "ctxKind") {
				case 0, 1:
					cp.Ctx, cp.CtxUs = 1, rapid.IntRange(1, 3000).Draw(rt, "timeoutUs")
				case 2, 3:
					cp.Ctx, cp.CtxUs = 2, rapid.IntRange(1, 3000).Draw(rt, "cancelUs")
				case 4:
					cp.Ctx = 3
				}
				cp.DelayUs = rapid.SampledFrom([]int{0, 0, 0, 50, 300, 1500}).Draw(rt, "delayUs")
				if rapid.IntRange(0, 4).Draw(rt, "asErr") == 0 {
					cp.Flags |= verifC26FlagErr
				}
				if cp.Ctx != 0 && rapid.IntRange(0, 5).Draw(rt, "drop") == 0 {
					cp.Flags |= verifC26FlagDrop
				}
				if rapid.IntRange(0, 5).Draw(rt, "dup") == 0 {
					cp.Flags |= verifC26FlagDup
				}
				if rapid.IntRange(0, 7).Draw(rt, "bogus") == 0 {
					cp.Flags |= verifC26FlagBogus
				}
				calls[i] = cp
			}
			plan.Callers = append(plan.Callers, calls)
		}

		rawC, rawS, err := verifC26Pair(plan.Net)
		if err != nil {
			col.Inconclusive("cannot create link: " + err.Error())
			rt.Skip("no link")
		}
		limits := core.Limits{MaxFrameBodyBytes: 16384, MaxQueuedBytesPerConn: int64(plan.MaxBytes), MaxQueuedItemsPerConn: plan.MaxItems,
			MaxBatchBytes: plan.BatchBytes, MaxBatchFrames: plan.BatchFrames, WriteBatchMaxWait: time.Duration(plan.BatchWaitUs) * time.Microsecond,
			WriteTimeout: 10 * time.Second}
		fcC := &verifC26FaultConn{Conn: rawC, f: plan.Client}
		fcS := &verifC26FaultConn{Conn: rawS, f: plan.Server}
		var responders sync.WaitGroup
		var served sync.Map // token -> *atomic.Int32
		var seenIDs sync.Map // request id -> token (ids must be unique on one connection)
		var dupID atomic.Uint64
		serverLimits := limits
		serverLimits.MaxQueuedItemsPerConn = 1 << 16
		serverLimits.MaxQueuedBytesPerConn = 1 << 30
		server := New(fcS, Config{Limits: serverLimits, NodeID: 2}, DispatchFunc(func(ctx context.Context, in Inbound) {
			req := append([]byte(nil), in.Payload.Bytes()...)
			in.Payload.Release()
			if in.Kind != core.FrameKindRPCRequest || len(req) < 16 {
				return
			}
			token := binary.BigEndian.Uint64(req)
			cnt, _ := served.LoadOrStore(token, new(atomic.Int32))
			cnt.(*atomic.Int32).Add(1)
			if prev, dup := seenIDs.LoadOrStore(in.RequestID, token); dup && prev.(uint64) != token {
				dupID.CompareAndSwap(0, in.RequestID)
			}
			flags := req[8]
			delay := time.Duration(binary.BigEndian.Uint32(req[9:])) * time.Microsecond
			responders.Add(1)
			go func() {
				defer responders.Done()
				if delay > 0 {
					time.Sleep(delay)
				}
				send := func(id uint64, status uint8, body []byte) {
					_ = in.Conn.Send(ctx, Outbound{Kind: core.FrameKindRPCResponse, Priority: in.Priority, ServiceID: in.ServiceID, RequestID: id,
						Payload: EncodeRPCResponse(status, body)})
				}
				if flags&verifC26FlagBogus != 0 {
					send(in.RequestID+(1<<40), wire.ResponseOK, []byte("BOGUS-ANSWER-FOR-AN-ID-NEVER-ISSUED"))
				}
				if flags&verifC26FlagDrop != 0 {
					return
				}
				status, body := wire.ResponseOK, verifC26Answer(req)
				if flags&verifC26FlagErr != 0 {
					status, body = wire.ResponseErr, []byte("E:"+hex.EncodeToString(req[:8]))
				}
				send(in.RequestID, status, body)
				if flags&verifC26FlagDup != 0 {
					send(in.RequestID, wire.ResponseOK, []byte("DUPLICATE-ANSWER"))
				}
			}()
		}))
		client := New(fcC, Config{Limits: limits, NodeID: 1}, nil)
		server.Start()
		client.Start()

		nonce := verifC26Nonce.Add(1) << 24
		outcomes := make([][]verifC26Outcome, nc)
		var callers sync.WaitGroup
		var ready atomic.Int32
		startCh := make(chan struct{})
		for c := 0; c < nc; c++ {
			c := c
			callers.Add(1)
			go func() {
				defer callers.Done()
				<-startCh
				// spin barrier so that the first calls really start together
				ready.Add(1)
				for spins := 0; int(ready.Load()) < nc && spins < 5000; spins++ {
					runtime.Gosched()
				}
				for i, cp := range plan.Callers[c] {
					token := nonce | uint64(c)<<8 | uint64(i)
					req := verifC26Request(token, cp)
					long := 30 * time.Second
					if plan.Burst {
						long = 8 * time.Second
					}
					ctx, cancel := context.WithTimeout(context.Background(), long)
					switch cp.Ctx {
					case 1:
						cancel()
						ctx, cancel = context.WithTimeout(context.Background(), time.Duration(cp.CtxUs)*time.Microsecond)
					case 2:
						tm := time.AfterFunc(time.Duration(cp.CtxUs)*time.Microsecond, cancel)
						defer tm.Stop()
					case 3:
						cancel()
					}
					payload, err := client.Call(ctx, Outbound{Priority: core.Priority(cp.Priority), ServiceID: 7, Payload: core.CopyOwnedBuffer(req)})
					longExpired := cp.Ctx == 0 && ctx.Err() != nil
					cancel()
					o := verifC26Outcome{Caller: c, Index: i, Token: hex.EncodeToString(req[:8]), Flags: cp.Flags, Ctx: cp.Ctx}
					var re core.RemoteError
					switch {
					case err == nil:
						o.Payload = fmt.Sprintf("%d bytes", len(payload))
						switch {
						case !bytes.Equal(payload, verifC26Answer(req)):
							o.Verdict = fmt.Sprintf("received an answer that is not its own: %q", verifC26Trunc(payload))
						case cp.Flags&(verifC26FlagErr|verifC26FlagDrop) != 0:
							o.Verdict = "received a success although the peer never sent one for this request"
						case cp.Ctx == 3:
							o.Verdict = "a call with an already cancelled context was sent and answered"
						case cp.Pad > 16384-16:
							o.Verdict = "a request above the frame limit was sent"
						}
					case errors.As(err, &re):
						o.Remote, o.Err = true, err.Error()
						if re.Message != "E:"+o.Token {
							o.Verdict = fmt.Sprintf("received a remote error that is not its own: %q", re.Message)
						} else if cp.Flags&verifC26FlagErr == 0 {
							o.Verdict = "received a remote error although the peer sent a success"
						}
					default:
						o.Err = err.Error()
						if longExpired {
							o.Verdict = "INCONCLUSIVE"
						}
					}
					outcomes[c] = append(outcomes[c], o)
				}
			}()
		}
		close(startCh)
		joined := make(chan struct{})
		go func() { callers.Wait(); close(joined) }()
		select {
		case <-joined:
		case <-time.After(90 * time.Second):
			client.shutdown(nil)
			server.shutdown(nil)
			col.Inconclusive("calls not joined within 90s")
			rt.Skip("inconclusive")
		}
		// quiescent point 1: every Call returned
		clientAlive := true
		select {
		case <-client.Done():
			clientAlive = false
		default:
		}
		pendingLive := -1
		if clientAlive {
			pendingLive = client.pending.Len()
			select {
			case <-client.Done(): // the link died while we looked: FailAll may be in progress
				pendingLive = -1
			default:
			}
		}
		client.Close(nil)
		server.Close(nil)
		responders.Wait()
		pendingClosed := client.pending.Len()

		var all []verifC26Outcome
		for _, os := range outcomes {
			all = append(all, os...)
		}
		fail := func(format string, args ...any) {
			msg := fmt.Sprintf(format, args...)
			if verifC26Saved.Add(1) <= 3 {
				b, _ := json.MarshalIndent(map[string]any{"violation": msg, "plan": plan, "outcomes": all}, "", " ")
				rt.Logf("history saved to %s", kit.SaveReplay("C26", "TestVerifC26ConnCorrelation", "json", b))
			}
			rt.Fatalf("VERIF-VIOLATION C26: %s", msg)
		}
		var nOK, nRemote, nTimeout, nCancel, nStopped, nOther, nDup, nBogus int
		if id := dupID.Load(); id != 0 {
			fail("two different requests were sent with request id %d on one connection", id)
		}
		for _, o := range all {
			if o.Verdict != "" && o.Verdict != "INCONCLUSIVE" {
				fail("call %d/%d (token %s, flags %#x): %s", o.Caller, o.Index, o.Token, o.Flags, o.Verdict)
			}
		}
		for _, o := range all {
			if o.Verdict == "INCONCLUSIVE" {
				col.Inconclusive("a generous call deadline expired")
				rt.Skip("inconclusive")
			}
			switch {
			case o.Err == "":
				nOK++
				if o.Flags&verifC26FlagDup != 0 {
					nDup++
				}
				if o.Flags&verifC26FlagBogus != 0 {
					nBogus++
				}
			case o.Remote:
				nRemote++
			case o.Err == context.DeadlineExceeded.Error():
				nTimeout++
			case o.Err == core.ErrCanceled.Error():
				nCancel++
			case o.Err == core.ErrStopped.Error():
				nStopped++
			default:
				nOther++
			}
		}
		served.Range(func(key, v any) bool {
			if n := v.(*atomic.Int32).Load(); n > 1 {
				fail("request with token %016x reached the peer %d times", key.(uint64), n)
			}
			return true
		})
		if pendingLive > 0 {
			fail("every Call returned and the connection is alive, but the pending table still holds %d entries", pendingLive)
		}
		if pendingClosed != 0 {
			fail("pending table holds %d entries after Close", pendingClosed)
		}
		linkDied := fcC.fired.Load() || fcS.fired.Load() || !clientAlive
		b, _ := json.Marshal(plan)
		k.Key(b)
		k.SetNonTrivial(nc >= 2 && ((nTimeout+nCancel > 0 && linkDied && nOK+nRemote > 0) || (plan.Burst && nOK > 1000)))
		k.LabelIf(nOK > 0, "conn: calls answered with own response")
		k.LabelIf(nRemote > 0, "conn: own remote error returned")
		k.LabelIf(nTimeout > 0, "conn: caller timeout")
		k.LabelIf(nCancel > 0, "conn: caller cancellation")
		k.LabelIf(nStopped+nOther > 0, "conn: calls failed by connection loss / queue limits")
		k.LabelIf(linkDied, "conn: link reset or half-closed during the run")
		k.LabelIf(linkDied && nOK > 0 && nStopped+nOther > 0, "conn: reset while other calls were in flight")
		k.LabelIf(nDup > 0, "conn: duplicate answer sent for an answered call")
		k.LabelIf(nBogus > 0, "conn: answer for a never-issued id injected")
		k.LabelIf(pendingLive == 0, "conn: pending table checked empty on a live connection")
		k.Label("conn: link " + plan.Net)
		k.LabelIf(plan.Burst, "conn: burst of immediate calls (request-id contention)")
		col.AddExtra("conn_calls", int64(len(all)))
		k.Sample(func() any {
			return fmt.Sprintf("conn %s callers=%d calls=%d ok=%d remoteErr=%d timeout=%d cancel=%d stopped=%d other=%d linkDied=%v", plan.Net, nc, len(all), nOK, nRemote, nTimeout, nCancel, nStopped, nOther, linkDied)
		})
	})
}

func verifC26Trunc(b []byte) []byte {
	if len(b) > 48 {
		return b[:48]
	}
	return b
}
