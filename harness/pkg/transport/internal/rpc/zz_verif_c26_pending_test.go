package rpc

import (
	"errors"
	"fmt"
	"sync"
	"testing"

	"pgregory.net/rapid"
	"verif.local/kit"
)

// C26 part 2a — the pending request table: sequential model-based check.
// Model: map id -> channel (each id has its own buffered channel, as conn.Call
// creates them); Store/Complete/Delete/FailAll must behave like that map, a
// response is delivered only to the channel registered under its id, at most
// once, FailAll fails exactly the pending ones and closes the table.

type verifC26Resp struct {
	token uint64
	err   string
}

func verifC26Drain(ch chan Response) []Response {
	var out []Response
	for {
		select {
		case r := <-ch:
			out = append(out, r)
		default:
			return out
		}
	}
}

func TestVerifC26PendingModel(t *testing.T) {
	kit.Check(t, "C26", func(rt *rapid.T, k *kit.Case) {
		shards := rapid.SampledFrom([]int{0, 1, 2, 3, 4, 16, 64}).Draw(rt, "shards")
		p := NewPendingTable(shards)
		type entry struct {
			ch      chan Response
			want    []Response // what must be readable from ch, in order
			pending bool
		}
		model := map[uint64]*entry{}
		pendingN := 0
		closed := false
		var closeErr error
		idGen := rapid.Custom(func(t *rapid.T) uint64 {
			if rapid.IntRange(0, 4).Draw(t, "idKind") == 0 {
				return kit.Uint64Edge().Draw(t, "idEdge")
			}
			return uint64(rapid.IntRange(0, 40).Draw(t, "id"))
		})
		token := uint64(0)
		var sawFail, sawLate, sawStale, sawDropped bool
		check := func() {
			if got := p.Len(); got != pendingN {
				rt.Fatalf("Len()=%d, model has %d pending", got, pendingN)
			}
		}
		verifyChans := func() {
			for id, e := range model {
				got := verifC26Drain(e.ch)
				if len(got) != len(e.want) {
					rt.Fatalf("id %d: channel holds %d responses, want %d (%v vs %v)", id, len(got), len(e.want), got, e.want)
				}
				for i := range got {
					if string(got[i].Payload) != string(e.want[i].Payload) || !errors.Is(got[i].Err, e.want[i].Err) || (got[i].Err == nil) != (e.want[i].Err == nil) {
						rt.Fatalf("id %d: response #%d is %q/%v, want %q/%v", id, i, got[i].Payload, got[i].Err, e.want[i].Payload, e.want[i].Err)
					}
				}
				e.want = nil
			}
		}
		rt.Repeat(map[string]func(*rapid.T){
			"store": func(t *rapid.T) {
				id := idGen.Draw(t, "id")
				if e := model[id]; e != nil && e.pending {
					t.Skip() // callers never register an id twice
				}
				c := rapid.SampledFrom([]int{1, 1, 1, 2}).Draw(t, "cap")
				e := model[id]
				if e == nil || rapid.Bool().Draw(t, "freshChan") {
					if e != nil {
						// a new channel for a re-used id: settle the old one first
						got := verifC26Drain(e.ch)
						if len(got) != len(e.want) {
							t.Fatalf("id %d: old channel holds %d responses, want %d", id, len(got), len(e.want))
						}
					}
					e = &entry{ch: make(chan Response, c)}
					model[id] = e
				}
				p.Store(id, e.ch)
				if closed {
					sawLate = true
					if len(e.want) < cap(e.ch) {
						e.want = append(e.want, Response{Err: closeErr})
					} else {
						sawDropped = true
					}
				} else {
					e.pending = true
					pendingN++
				}
			},
			"complete": func(t *rapid.T) {
				id := idGen.Draw(t, "id")
				token++
				resp := Response{Payload: []byte(fmt.Sprintf("tok-%d-%d", id, token))}
				if rapid.IntRange(0, 3).Draw(t, "asErr") == 0 {
					resp = Response{Err: fmt.Errorf("remote-%d-%d", id, token)}
				}
				e := model[id]
				wasPending := e != nil && e.pending
				if got := p.Complete(id, resp); got != wasPending {
					t.Fatalf("Complete(%d) = %v, model pending = %v", id, got, wasPending)
				}
				if wasPending {
					e.pending = false
					pendingN--
					if len(e.want) < cap(e.ch) {
						e.want = append(e.want, resp)
					} else {
						sawDropped = true
					}
				} else {
					sawStale = true
				}
			},
			"delete": func(t *rapid.T) {
				id := idGen.Draw(t, "id")
				p.Delete(id)
				if e := model[id]; e != nil && e.pending {
					e.pending = false
					pendingN--
				}
			},
			"failAll": func(t *rapid.T) {
				err := fmt.Errorf("conn lost %d", token)
				p.FailAll(err)
				sawFail = true
				if !closed {
					closed = true
					closeErr = err
				}
				for _, e := range model {
					if e.pending {
						e.pending = false
						if len(e.want) < cap(e.ch) {
							e.want = append(e.want, Response{Err: err})
						} else {
							sawDropped = true
						}
					}
				}
				pendingN = 0
			},
			"readChannels": func(t *rapid.T) { verifyChans() },
			"":             func(t *rapid.T) { check() },
		})
		verifyChans()
		check()
		k.Key("pending-model", shards, token, len(model), sawFail, sawLate, sawStale)
		k.SetNonTrivial(len(model) >= 2 && token >= 1)
		k.LabelIf(sawFail, "pending model: FailAll")
		k.LabelIf(sawLate, "pending model: Store after FailAll")
		k.LabelIf(sawStale, "pending model: Complete for an id that is not pending")
		k.LabelIf(sawDropped, "pending model: delivery dropped on a full channel")
	})
}

// TestVerifC26PendingConcurrent: callers (each owning distinct ids, one
// buffered channel per id, as conn.Call does) race a responder and a FailAll.
// Every caller must get exactly its own token or the table's terminal error,
// exactly once, and the table must be empty afterwards.
func TestVerifC26PendingConcurrent(t *testing.T) {
	kit.Check(t, "C26", func(rt *rapid.T, k *kit.Case) {
		callers := rapid.IntRange(2, 16).Draw(rt, "callers")
		per := rapid.IntRange(1, 20).Draw(rt, "perCaller")
		failAt := rapid.IntRange(0, callers*per+5).Draw(rt, "failAt") // FailAll after this many completions (beyond total: never)
		dupe := rapid.IntRange(0, 3).Draw(rt, "dupe")                   // responder also sends duplicate / unknown-id responses
		p := NewPendingTable(rapid.SampledFrom([]int{1, 4, 16}).Draw(rt, "shards"))
		terminal := errors.New("terminal")
		type req struct {
			id uint64
		}
		reqs := make(chan req, callers*per)
		type outcome struct {
			id      uint64
			payload string
			err     error
			extra   int
		}
		results := make([][]outcome, callers)
		var wg sync.WaitGroup
		for c := 0; c < callers; c++ {
			c := c
			wg.Add(1)
			go func() {
				defer wg.Done()
				for i := 0; i < per; i++ {
					id := uint64(c*1000 + i + 1)
					ch := make(chan Response, 1)
					p.Store(id, ch)
					reqs <- req{id: id}
					r := <-ch // every registered call is answered: by the responder or by FailAll / closed Store
					o := outcome{id: id, payload: string(r.Payload), err: r.Err}
					select {
					case <-ch:
						o.extra++
					default:
					}
					results[c] = append(results[c], o)
				}
			}()
		}
		var respWG sync.WaitGroup
		respWG.Add(1)
		completed := 0
		failed := false
		go func() {
			defer respWG.Done()
			for r := range reqs {
				if completed == failAt && !failed {
					p.FailAll(terminal)
					failed = true
				}
				p.Complete(r.id, Response{Payload: []byte(fmt.Sprintf("tok-%d", r.id))})
				completed++
				if dupe > 0 && completed%dupe == 0 {
					p.Complete(r.id, Response{Payload: []byte("DUPLICATE")})
					p.Complete(r.id+500, Response{Payload: []byte("UNKNOWN")})
				}
			}
		}()
		wg.Wait()
		close(reqs)
		respWG.Wait()
		nTerminal := 0
		for c, rs := range results {
			if len(rs) != per {
				rt.Fatalf("caller %d finished %d of %d calls", c, len(rs), per)
			}
			for _, o := range rs {
				if o.extra != 0 {
					rt.Fatalf("call %d received a second response", o.id)
				}
				if o.err != nil {
					if !errors.Is(o.err, terminal) {
						rt.Fatalf("call %d got foreign error %v", o.id, o.err)
					}
					nTerminal++
					continue
				}
				if want := fmt.Sprintf("tok-%d", o.id); o.payload != want {
					rt.Fatalf("call %d received %q, want %q", o.id, o.payload, want)
				}
			}
		}
		if n := p.Len(); n != 0 {
			rt.Fatalf("pending table holds %d entries after every call returned", n)
		}
		k.Key("pending-conc", callers, per, failAt, dupe)
		k.SetNonTrivial(callers >= 2 && (nTerminal > 0 || dupe > 0))
		k.LabelIf(nTerminal > 0, "pending concurrent: calls failed by FailAll")
		k.LabelIf(failed && nTerminal < callers*per, "pending concurrent: FailAll raced completions")
		k.LabelIf(dupe > 0, "pending concurrent: duplicate/unknown responses injected")
	})
}
