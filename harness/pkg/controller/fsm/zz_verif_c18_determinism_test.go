package fsm

import (
	"bytes"
	"context"
	"encoding/json"
	"errors"
	"fmt"
	"os"
	"path/filepath"
	"sort"
	"strings"
	"testing"
	"time"

	"github.com/WuKongIM/WuKongIM/pkg/controller/command"
	"github.com/WuKongIM/WuKongIM/pkg/controller/state"
	"github.com/WuKongIM/WuKongIM/pkg/controller/statefile"
	"pgregory.net/rapid"
	"verif.local/kit"
)

// ---------------------------------------------------------------------------
// stores: every state handed to Save is checked (validates, checksum matches,
// never goes backwards). "raw" keeps the struct (a replica that never
// restarts); otherwise the state goes through the durable encoding, like the
// state file does.
// ---------------------------------------------------------------------------

type verifC18Store struct {
	raw      bool
	file     *statefile.Store
	st       *state.ClusterState
	data     []byte
	saves    int
	failNext bool
	lastRev  uint64
	lastIdx  uint64
	problems []string
}

var errVerifC18InjectedSave = errors.New("verif: injected save failure")

func (s *verifC18Store) Load(ctx context.Context) (state.ClusterState, error) {
	switch {
	case s.file != nil:
		return s.file.Load(ctx)
	case s.raw:
		if s.st == nil {
			return state.ClusterState{}, fmt.Errorf("verif store: %w", os.ErrNotExist)
		}
		return s.st.Clone(), nil
	default:
		if s.data == nil {
			return state.ClusterState{}, fmt.Errorf("verif store: %w", os.ErrNotExist)
		}
		return state.Decode(s.data)
	}
}

func (s *verifC18Store) Save(ctx context.Context, st state.ClusterState) error {
	s.saves++
	if err := st.Validate(); err != nil {
		s.problems = append(s.problems, fmt.Sprintf("state handed to Save does not validate: %v", err))
	}
	if sum, err := state.Checksum(st); err != nil || sum != st.Checksum {
		s.problems = append(s.problems, fmt.Sprintf("state handed to Save has checksum %q, recomputed %q (%v)", st.Checksum, sum, err))
	}
	if st.Revision == 0 {
		s.problems = append(s.problems, "state with revision 0 handed to Save")
	}
	if st.Revision < s.lastRev || st.AppliedRaftIndex < s.lastIdx {
		s.problems = append(s.problems, fmt.Sprintf("saved state went backwards: revision %d->%d applied %d->%d", s.lastRev, st.Revision, s.lastIdx, st.AppliedRaftIndex))
	}
	if s.failNext {
		s.failNext = false
		return errVerifC18InjectedSave
	}
	s.lastRev, s.lastIdx = st.Revision, st.AppliedRaftIndex
	switch {
	case s.file != nil:
		return s.file.Save(ctx, st)
	case s.raw:
		c := st.Clone()
		s.st = &c
	default:
		b, err := state.Encode(st)
		if err != nil {
			s.problems = append(s.problems, fmt.Sprintf("state handed to Save cannot be encoded: %v", err))
			return err
		}
		s.data = b
	}
	return nil
}

// canonical, comparable form of a published state ("uninit" before init)
func verifC18Canon(fail func(string, ...any), st state.ClusterState, what string) string {
	if st.Revision == 0 {
		return "uninit"
	}
	if err := st.Validate(); err != nil {
		fail("%s does not pass cluster-state validation: %v", what, err)
	}
	sum, err := state.Checksum(st)
	if err != nil || sum != st.Checksum {
		fail("%s carries checksum %q but its content hashes to %q (%v)", what, st.Checksum, sum, err)
	}
	b, err := state.Encode(st)
	if err != nil {
		fail("%s cannot be encoded: %v", what, err)
	}
	return string(b)
}

// logical content: everything except the applied index, checksum (and
// optionally the health reports, which Updated results may change)
func verifC18Logical(st state.ClusterState, dropHealth bool) string {
	c := st.Clone()
	c.AppliedRaftIndex = 0
	c.Checksum = ""
	if dropHealth {
		c.NodeHealthReports = nil
	}
	c.Normalize()
	b, _ := json.Marshal(c)
	return string(b)
}

type verifC18Entry struct {
	Index uint64
	Term  uint64
	Data  []byte
	Kind  command.Kind
	Tag   string
}

func verifC18Decode(fail func(string, ...any), es []verifC18Entry) []AppliedCommand {
	out := make([]AppliedCommand, 0, len(es))
	for _, e := range es {
		cmd, err := command.Decode(e.Data)
		if err != nil {
			fail("command.Decode(Encode(cmd)) failed for %s: %v", e.Tag, err)
		}
		out = append(out, AppliedCommand{Index: e.Index, Term: e.Term, Command: cmd})
	}
	return out
}

func verifC18ResultString(r ApplyResult) string {
	tt, _ := json.Marshal(r.TaskTransitions)
	return fmt.Sprintf("changed=%v updated=%v noop=%v rejected=%v reason=%q rev=%d applied=%d transitions=%s", r.Changed, r.Updated, r.Noop, r.Rejected, r.Reason, r.Revision, r.AppliedRaftIndex, tt)
}

// ---------------------------------------------------------------------------
// state-aware command generator
// ---------------------------------------------------------------------------

type verifC18Gen struct {
	rt     *rapid.T
	cur    state.ClusterState
	seq    int
	script []string // forced, defect-free opening moves (reach the replica-move workflow quickly)
	last   []byte   // previous command, encoded (proposers retry: the same command may be committed twice)
	lastTag string
}

// scripted returns a clean command for one opening move.
func (g *verifC18Gen) scripted(step string) (cmd command.Command, tag string, ok bool) {
	cur := g.cur
	cmd.IssuedAt = g.issuedAt()
	switch step {
	case "init":
		if cur.Revision != 0 {
			return cmd, "", false
		}
		init := &command.InitClusterState{ClusterID: "wk-scripted", Config: state.ClusterConfig{SlotCount: 2, HashSlotCount: 16, ReplicaCount: uint16(rapid.IntRange(1, 3).Draw(g.rt, "scriptReplicas"))}}
		for i := uint64(1); i <= 5; i++ {
			n := state.Node{NodeID: i, Name: fmt.Sprintf("node-%d", i), Addr: fmt.Sprintf("n%d:7000", i), Roles: []state.NodeRole{state.NodeRoleData}, JoinState: state.NodeJoinStateActive, Status: state.NodeStatusAlive, CapacityWeight: 1}
			if i <= 2 {
				n.Roles = []state.NodeRole{state.NodeRoleControllerVoter, state.NodeRoleData}
				init.Controllers = append(init.Controllers, state.ControllerVoter{NodeID: i, Addr: n.Addr, Role: state.ControllerRoleVoter})
			}
			init.Nodes = append(init.Nodes, n)
		}
		cmd.Kind, cmd.Init = command.KindInitClusterState, init
		return cmd, "script/init", true
	case "bootstrap":
		pool := g.dataNodes(true)
		rc := int(cur.Config.ReplicaCount)
		if cur.Revision == 0 || len(pool) < rc || len(cur.Slots) > 0 {
			return cmd, "", false
		}
		peers := append([]uint64(nil), pool[:rc]...)
		a := &state.SlotAssignment{SlotID: 1, DesiredPeers: peers, ConfigEpoch: 1, PreferredLeader: peers[0]}
		t := &state.ReconcileTask{TaskID: "slot-1-bootstrap-1", SlotID: 1, Kind: state.TaskKindBootstrap, Step: state.TaskStepCreateSlot, TargetNode: peers[0], TargetPeers: verifC18Sorted(peers), ConfigEpoch: 1, Status: state.TaskStatusPending}
		cmd.Kind, cmd.Assignment, cmd.Task = command.KindUpsertSlotAssignmentAndTask, a, t
		return cmd, "script/bootstrap", true
	case "complete":
		if len(cur.Tasks) != 1 {
			return cmd, "", false
		}
		t := cur.Tasks[0]
		cmd.Kind = command.KindCompleteTask
		cmd.TaskResult = &command.TaskResult{TaskID: t.TaskID, SlotID: t.SlotID, TaskKind: t.Kind, ConfigEpoch: t.ConfigEpoch, Attempt: t.Attempt}
		return cmd, "script/complete", true
	case "move":
		if len(cur.Slots) == 0 || len(cur.Tasks) != 0 {
			return cmd, "", false
		}
		a := cur.Slots[0]
		src := a.DesiredPeers[g.pick("scriptSrc", len(a.DesiredPeers))]
		var dst uint64
		for _, id := range g.dataNodes(true) {
			if !verifC18Contains(a.DesiredPeers, id) {
				dst = id
			}
		}
		if dst == 0 {
			return cmd, "", false
		}
		tp := append([]uint64(nil), a.DesiredPeers...)
		for i := range tp {
			if tp[i] == src {
				tp[i] = dst
			}
		}
		t := state.ReconcileTask{TaskID: "slot-1-move-s", SlotID: a.SlotID, Kind: state.TaskKindSlotReplicaMove, Step: state.TaskStepOpenLearner, SourceNode: src, TargetNode: dst,
			TargetPeers: verifC18Sorted(tp), ConfigEpoch: a.ConfigEpoch, Status: state.TaskStatusPending, CompletionPolicy: state.TaskCompletionPolicySingleObserver}
		cmd.Kind, cmd.Task = command.KindUpsertSlotReplicaMoveTask, &t
		return cmd, "script/move", true
	}
	return cmd, "", false
}

func (g *verifC18Gen) pick(label string, n int) int { return rapid.IntRange(0, n-1).Draw(g.rt, label) }
func (g *verifC18Gen) chance(label string, oneIn int) bool {
	return rapid.IntRange(0, oneIn-1).Draw(g.rt, label) == 0
}

func (g *verifC18Gen) nodeIDs() []uint64 {
	var out []uint64
	for _, n := range g.cur.Nodes {
		out = append(out, n.NodeID)
	}
	return out
}

func (g *verifC18Gen) dataNodes(activeOnly bool) []uint64 {
	var out []uint64
	for _, n := range g.cur.Nodes {
		if !n.HasRole(state.NodeRoleData) {
			continue
		}
		if n.JoinState == state.NodeJoinStateActive || (!activeOnly && n.JoinState == state.NodeJoinStateLeaving) {
			out = append(out, n.NodeID)
		}
	}
	return out
}

func (g *verifC18Gen) someNodeID(label string) uint64 {
	ids := g.nodeIDs()
	if len(ids) == 0 || g.chance(label+"Unknown", 12) {
		return uint64(rapid.IntRange(0, 12).Draw(g.rt, label+"Any"))
	}
	return ids[g.pick(label, len(ids))]
}

func verifC18Sorted(in []uint64) []uint64 {
	out := append([]uint64(nil), in...)
	sort.Slice(out, func(i, j int) bool { return out[i] < out[j] })
	return out
}

func verifC18Contains(xs []uint64, x uint64) bool {
	for _, y := range xs {
		if y == x {
			return true
		}
	}
	return false
}

func (g *verifC18Gen) issuedAt() time.Time {
	if g.chance("zeroTime", 4) {
		return time.Time{}
	}
	sec := int64(rapid.IntRange(1_600_000_000, 1_900_000_000).Draw(g.rt, "issuedSec"))
	nsec := int64(rapid.SampledFrom([]int{0, 0, 1, 999_999_999, 123_456_789}).Draw(g.rt, "issuedNsec"))
	off := rapid.SampledFrom([]int{0, 0, 8 * 3600, -5 * 3600}).Draw(g.rt, "issuedTZ")
	return time.Unix(sec, nsec).In(time.FixedZone("", off))
}

func (g *verifC18Gen) node(id uint64) state.Node {
	roles := [][]state.NodeRole{
		{state.NodeRoleData, state.NodeRoleControllerVoter},
		{state.NodeRoleControllerVoter, state.NodeRoleData},
		{state.NodeRoleData},
		{state.NodeRoleControllerVoter},
	}[g.pick("roles", 4)]
	return state.Node{
		NodeID: id, Name: fmt.Sprintf("node-%d", id), Addr: fmt.Sprintf("n%d:7000", id), Roles: roles,
		JoinState:      rapid.SampledFrom([]state.NodeJoinState{state.NodeJoinStateActive, state.NodeJoinStateActive, state.NodeJoinStateActive, state.NodeJoinStateJoining}).Draw(g.rt, "join"),
		Status:         rapid.SampledFrom([]state.NodeStatus{state.NodeStatusAlive, state.NodeStatusAlive, state.NodeStatusSuspect}).Draw(g.rt, "status"),
		CapacityWeight: uint32(rapid.IntRange(0, 3).Draw(g.rt, "weight")),
	}
}

func (g *verifC18Gen) initCommand() (command.Command, string) {
	n := rapid.IntRange(1, 6).Draw(g.rt, "initNodes")
	init := &command.InitClusterState{ClusterID: rapid.SampledFrom([]string{"wk", "cluster-α", "c\"1"}).Draw(g.rt, "clusterID")}
	var data int
	for i := 1; i <= n; i++ {
		nd := g.node(uint64(i))
		if i == 1 {
			nd.Roles = []state.NodeRole{state.NodeRoleControllerVoter, state.NodeRoleData}
			nd.JoinState = state.NodeJoinStateActive
		}
		if nd.HasRole(state.NodeRoleData) && nd.JoinState == state.NodeJoinStateActive {
			data++
		}
		if nd.HasRole(state.NodeRoleControllerVoter) && nd.JoinState == state.NodeJoinStateActive && (i == 1 || rapid.Bool().Draw(g.rt, "voter")) {
			init.Controllers = append(init.Controllers, state.ControllerVoter{NodeID: nd.NodeID, Addr: nd.Addr, Role: state.ControllerRoleVoter})
		}
		init.Nodes = append(init.Nodes, nd)
	}
	h := rapid.SampledFrom([]int{4, 16, 256}).Draw(g.rt, "hashSlots")
	rc := rapid.IntRange(1, 3).Draw(g.rt, "replicas")
	if rc > data {
		rc = data
	}
	init.Config = state.ClusterConfig{SlotCount: uint32(rapid.IntRange(1, 4).Draw(g.rt, "slots")), HashSlotCount: uint16(h), ReplicaCount: uint16(rc),
		DefaultCapacityWeight: uint32(rapid.IntRange(0, 2).Draw(g.rt, "defWeight"))}
	tag := "init/valid"
	switch rapid.IntRange(0, 11).Draw(g.rt, "initDefect") {
	case 0:
		init.Config.SlotCount = uint32(h) + 1
		tag = "init/invalid"
	case 1:
		init.Controllers = nil
		tag = "init/invalid"
	case 2:
		init.Nodes = append(init.Nodes, init.Nodes[0])
		tag = "init/invalid"
	}
	cmd := command.Command{Kind: command.KindInitClusterState, IssuedAt: g.issuedAt(), Init: init}
	if g.chance("initNil", 15) {
		cmd.Init = nil
		tag = "init/nil"
	}
	return cmd, tag
}

func (g *verifC18Gen) taskResultFor(t state.ReconcileTask) (*command.TaskResult, string) {
	r := &command.TaskResult{TaskID: t.TaskID, SlotID: t.SlotID, TaskKind: t.Kind, ConfigEpoch: t.ConfigEpoch, Attempt: t.Attempt}
	tag := "valid"
	switch rapid.IntRange(0, 13).Draw(g.rt, "resultStale") {
	case 0:
		r.Attempt++
		tag = "stale_attempt"
	case 1:
		if r.Attempt > 0 {
			r.Attempt--
			tag = "stale_attempt"
		}
	case 2:
		r.ConfigEpoch++
		tag = "stale_epoch"
	case 3:
		r.TaskKind = state.TaskKindLeaderTransfer
		if t.Kind == state.TaskKindLeaderTransfer {
			r.TaskKind = state.TaskKindBootstrap
		}
		tag = "wrong_kind"
	case 4:
		r.SlotID = t.SlotID%4 + 1
		tag = "wrong_slot"
	case 5:
		r.SlotID = 0
		tag = "invalid"
	case 6:
		r.TaskID = t.TaskID + "-gone"
		tag = "missing_task"
	}
	return r, tag
}

// next draws one command for the current state; tag describes the intent.
func (g *verifC18Gen) next() (cmd command.Command, tag string) {
	g.seq++
	cur := g.cur
	for len(g.script) > 0 {
		step := g.script[0]
		g.script = g.script[1:]
		if c, t, ok := g.scripted(step); ok {
			return c, t
		}
	}
	if g.last != nil && g.chance("retryPrevious", 8) {
		if c, err := command.Decode(g.last); err == nil {
			if c.ExpectedRevision != nil && rapid.Bool().Draw(g.rt, "retryDropsGuard") {
				c.ExpectedRevision = nil
			}
			return c, "retry:" + g.lastTag
		}
	}
	if cur.Revision == 0 {
		if !g.chance("preInitOther", 5) {
			return g.initCommand()
		}
	}
	defer func() {
		cmd.IssuedAt = g.issuedAt()
		if cmd.Kind == command.KindInitClusterState {
			return
		}
		switch rapid.IntRange(0, 9).Draw(g.rt, "expRev") {
		case 0, 1, 2, 3:
		case 4, 5, 6:
			v := cur.Revision
			cmd.ExpectedRevision = &v
		case 7:
			v := cur.Revision + 1
			cmd.ExpectedRevision = &v
			tag += "+exprev_ahead"
		case 8:
			v := cur.Revision - 1
			if cur.Revision == 0 {
				v = 3
			}
			cmd.ExpectedRevision = &v
			tag += "+exprev_behind"
		default:
			v := uint64(0)
			if cur.Revision == 0 {
				v = 1
			}
			cmd.ExpectedRevision = &v
			tag += "+exprev_zero"
		}
	}()

	var moveTasks, bootTasks, anyTasks []state.ReconcileTask
	taskSlots := map[uint32]bool{}
	for _, t := range cur.Tasks {
		anyTasks = append(anyTasks, t)
		taskSlots[t.SlotID] = true
		switch t.Kind {
		case state.TaskKindSlotReplicaMove:
			moveTasks = append(moveTasks, t)
		case state.TaskKindBootstrap:
			bootTasks = append(bootTasks, t)
		}
	}
	assigned := map[uint32]state.SlotAssignment{}
	for _, a := range cur.Slots {
		assigned[a.SlotID] = a
	}

	// commands that can make progress in the current state are preferred, so
	// that histories reach the deep task workflows; the rest of the time any
	// kind is drawn (missing tasks, pre-init, unknown kinds ...).
	kinds := []string{"node", "node", "voters", "promote", "health", "health", "hashslots", "backup", "mcp"}
	freeSlot, idleSlot, spareNode := false, false, false
	for s := uint32(1); s <= cur.Config.SlotCount; s++ {
		a, ok := assigned[s]
		if !ok {
			freeSlot = true
		} else if !taskSlots[s] {
			idleSlot = true
			for _, id := range g.dataNodes(true) {
				if !verifC18Contains(a.DesiredPeers, id) {
					spareNode = true
				}
			}
		}
	}
	if freeSlot && len(g.dataNodes(false)) >= int(cur.Config.ReplicaCount) {
		kinds = append(kinds, "bootstrap", "bootstrap", "bootstrap")
	}
	if idleSlot && cur.Config.ReplicaCount >= 2 {
		kinds = append(kinds, "leader", "leader")
	}
	if idleSlot && spareNode {
		kinds = append(kinds, "move", "move", "move", "move")
	}
	for _, m := range moveTasks {
		if m.Step == state.TaskStepCommitAssignment {
			kinds = append(kinds, "commit", "commit", "commit", "commit", "commit", "commit", "advance")
		} else {
			kinds = append(kinds, "advance", "advance", "advance", "advance", "advance", "advance", "advance", "advance", "commit")
		}
	}
	if len(anyTasks) > 0 {
		kinds = append(kinds, "complete", "complete", "fail")
	}
	if len(bootTasks) > 0 {
		kinds = append(kinds, "progress", "progress", "progress")
	}
	if cur.Revision == 0 || g.chance("anyKind", 5) {
		kinds = []string{"node", "voters", "promote", "bootstrap", "leader", "move", "advance", "commit", "complete", "fail", "progress", "health", "hashslots", "backup", "mcp", "reinit", "reinit", "unknown"}
	}
	switch kinds[g.pick("kind", len(kinds))] {
	case "node":
		cmd.Kind = command.KindUpsertNode
		ids := g.nodeIDs()
		switch v := rapid.IntRange(0, 9).Draw(g.rt, "nodeVariant"); {
		case v <= 2 || len(ids) == 0:
			id := uint64(len(ids) + 1)
			if g.chance("nodeWildID", 6) {
				id = uint64(rapid.IntRange(7, 40).Draw(g.rt, "nodeIDBig"))
			}
			n := g.node(id)
			cmd.Node, tag = &n, "upsert_node/new"
		case v <= 6:
			n := cur.Nodes[g.pick("nodeIdx", len(cur.Nodes))]
			n.Roles = append([]state.NodeRole(nil), n.Roles...)
			switch rapid.IntRange(0, 5).Draw(g.rt, "nodeField") {
			case 0:
				n.Status = rapid.SampledFrom([]state.NodeStatus{state.NodeStatusAlive, state.NodeStatusSuspect, state.NodeStatusDown}).Draw(g.rt, "st")
			case 1:
				n.CapacityWeight = uint32(rapid.IntRange(0, 5).Draw(g.rt, "w"))
			case 2:
				n.JoinState = rapid.SampledFrom([]state.NodeJoinState{state.NodeJoinStateActive, state.NodeJoinStateJoining, state.NodeJoinStateLeaving, state.NodeJoinStateRemoved}).Draw(g.rt, "js")
			case 3:
				n.Roles = g.node(n.NodeID).Roles
			case 4:
				n.Addr = fmt.Sprintf("n%d:%d", n.NodeID, 7000+g.pick("port", 3))
			default:
				n.Name = fmt.Sprintf("renamed-%d", g.seq)
			}
			cmd.Node, tag = &n, "upsert_node/modify"
		case v == 7:
			n := cur.Nodes[g.pick("nodeIdx", len(cur.Nodes))]
			n.Roles = append([]state.NodeRole(nil), n.Roles...)
			if len(n.Roles) == 2 {
				n.Roles[0], n.Roles[1] = n.Roles[1], n.Roles[0]
			}
			cmd.Node, tag = &n, "upsert_node/same"
		default:
			n := g.node(uint64(len(ids) + 1))
			switch rapid.IntRange(0, 4).Draw(g.rt, "nodeDefect") {
			case 0:
				cmd.Node, tag = nil, "upsert_node/nil"
				return
			case 1:
				n.NodeID = 0
			case 2:
				n.Addr = ""
			case 3:
				n.JoinState = "bogus"
			default:
				n.Roles = []state.NodeRole{state.NodeRoleData, state.NodeRoleData}
			}
			cmd.Node, tag = &n, "upsert_node/invalid"
		}
	case "voters":
		cmd.Kind = command.KindUpdateControllerVoters
		tag = "update_voters"
		for _, n := range cur.Nodes {
			if rapid.Bool().Draw(g.rt, "inVoters") {
				cmd.Controllers = append(cmd.Controllers, state.ControllerVoter{NodeID: n.NodeID, Addr: n.Addr, Role: state.ControllerRoleVoter})
			}
		}
		if len(cmd.Controllers) > 1 {
			cmd.Controllers = rapid.Permutation(cmd.Controllers).Draw(g.rt, "voterOrder")
		}
		if g.chance("votersDefect", 8) && len(cmd.Controllers) > 0 {
			cmd.Controllers = append(cmd.Controllers, cmd.Controllers[0])
			tag = "update_voters/invalid"
		}
	case "promote":
		cmd.Kind = command.KindPromoteControllerVoter
		tag = "promote_voter"
		target := g.someNodeID("promoteTarget")
		p := &command.ControllerVoterPromotion{TargetNodeID: target, TargetAddr: fmt.Sprintf("n%d:7000", target), ObservedConfigIndex: uint64(rapid.IntRange(0, 50).Draw(g.rt, "cfgIdx"))}
		for _, n := range cur.Nodes {
			if n.NodeID == target {
				p.TargetAddr = n.Addr
			}
		}
		curVoters := controllerVoterNodeIDs(cur.Controllers)
		p.ObservedVoters = append([]uint64(nil), curVoters...)
		if !verifC18Contains(curVoters, target) {
			p.ObservedVoters = append(p.ObservedVoters, target)
		}
		switch rapid.IntRange(0, 5).Draw(g.rt, "prevVoters") {
		case 0, 1:
			p.ExpectedPreviousVoters = append([]uint64{}, curVoters...)
		case 2:
			p.ExpectedPreviousVoters = append([]uint64{99}, curVoters...)
			tag = "promote_voter/stale_set"
		}
		if g.chance("promoteNoProof", 8) {
			p.ObservedVoters = curVoters
			tag = "promote_voter/no_proof"
		}
		cmd.ControllerVoterPromotion = p
	case "bootstrap":
		cmd.Kind = command.KindUpsertSlotAssignmentAndTask
		slot := uint32(rapid.IntRange(1, int(cur.Config.SlotCount)+1).Draw(g.rt, "slot"))
		if cur.Config.SlotCount == 0 {
			slot = 1
		}
		// prefer a slot that is not assigned yet
		for s := uint32(1); s <= cur.Config.SlotCount; s++ {
			if _, ok := assigned[s]; !ok && rapid.Bool().Draw(g.rt, "preferFree") {
				slot = s
				break
			}
		}
		pool := g.dataNodes(false)
		rc := int(cur.Config.ReplicaCount)
		if g.chance("wrongReplicaCount", 10) {
			rc++
		}
		var peers []uint64
		if len(pool) > 0 {
			perm := rapid.Permutation(pool).Draw(g.rt, "peers")
			if rc > len(perm) {
				rc = len(perm)
			}
			peers = append(peers, perm[:rc]...)
		}
		epoch := uint64(rapid.IntRange(1, 3).Draw(g.rt, "epoch"))
		a := &state.SlotAssignment{SlotID: slot, DesiredPeers: peers, ConfigEpoch: epoch}
		if len(peers) > 0 && !g.chance("noLeader", 4) {
			a.PreferredLeader = peers[g.pick("leader", len(peers))]
		}
		t := &state.ReconcileTask{TaskID: fmt.Sprintf("slot-%d-bootstrap-%d", slot, epoch), SlotID: slot, Kind: state.TaskKindBootstrap, Step: state.TaskStepCreateSlot,
			TargetNode: a.PreferredLeader, TargetPeers: verifC18Sorted(peers), ConfigEpoch: epoch, Status: state.TaskStatusPending}
		if rapid.Bool().Draw(g.rt, "explicitPolicy") {
			t.CompletionPolicy = state.TaskCompletionPolicyAllTargetPeers
		}
		tag = "bootstrap"
		if _, ok := assigned[slot]; ok {
			tag = "bootstrap/slot_already_assigned"
		}
		switch rapid.IntRange(0, 14).Draw(g.rt, "bootDefect") {
		case 0:
			t.SlotID = slot + 1
			tag = "bootstrap/slot_mismatch"
		case 1:
			cmd.Assignment = a
			tag = "bootstrap/nil_task"
			return
		case 2:
			t.ConfigEpoch++
			tag = "bootstrap/epoch_mismatch"
		}
		cmd.Assignment, cmd.Task = a, t
	case "leader":
		cmd.Kind = command.KindUpsertSlotAssignmentAndTask
		tag = "leader_transfer"
		var cands []state.SlotAssignment
		for _, a := range cur.Slots {
			if len(a.DesiredPeers) >= 2 && (!taskSlots[a.SlotID] || g.chance("leaderBusy", 6)) {
				cands = append(cands, a)
			}
		}
		if len(cands) == 0 {
			tag = "leader_transfer/nothing"
			a := state.SlotAssignment{SlotID: 1, DesiredPeers: []uint64{1}, ConfigEpoch: 1, PreferredLeader: 1}
			t := state.ReconcileTask{TaskID: "slot-1-leader-x", SlotID: 1, Kind: state.TaskKindLeaderTransfer, Step: state.TaskStepTransferLeader, SourceNode: 1, TargetNode: 2, TargetPeers: []uint64{1}, ConfigEpoch: 1, Status: state.TaskStatusPending}
			cmd.Assignment, cmd.Task = &a, &t
			return
		}
		a := cands[g.pick("ltSlot", len(cands))]
		a.DesiredPeers = append([]uint64(nil), a.DesiredPeers...)
		src := a.DesiredPeers[0]
		if a.PreferredLeader != 0 {
			src = a.PreferredLeader
		}
		var dst uint64
		for _, p := range a.DesiredPeers {
			if p != src {
				dst = p
			}
		}
		a.PreferredLeader = dst
		t := state.ReconcileTask{TaskID: fmt.Sprintf("slot-%d-leader-%d", a.SlotID, g.seq), SlotID: a.SlotID, Kind: state.TaskKindLeaderTransfer, Step: state.TaskStepTransferLeader,
			SourceNode: src, TargetNode: dst, TargetPeers: verifC18Sorted(a.DesiredPeers), ConfigEpoch: a.ConfigEpoch, Status: state.TaskStatusPending}
		cmd.Assignment, cmd.Task = &a, &t
	case "move":
		cmd.Kind = command.KindUpsertSlotReplicaMoveTask
		tag = "move_task"
		var cands []state.SlotAssignment
		for _, a := range cur.Slots {
			if !taskSlots[a.SlotID] || g.chance("moveBusy", 8) {
				cands = append(cands, a)
			}
		}
		if len(cands) == 0 || g.chance("moveNil", 15) {
			tag = "move_task/nil"
			return
		}
		a := cands[g.pick("mvSlot", len(cands))]
		src := a.DesiredPeers[g.pick("mvSrc", len(a.DesiredPeers))]
		var dst uint64
		for _, id := range g.dataNodes(true) {
			if !verifC18Contains(a.DesiredPeers, id) {
				dst = id
			}
		}
		if dst == 0 {
			dst = src + 100
			tag = "move_task/no_target"
		}
		tp := append([]uint64(nil), a.DesiredPeers...)
		for i := range tp {
			if tp[i] == src {
				tp[i] = dst
			}
		}
		t := state.ReconcileTask{TaskID: fmt.Sprintf("slot-%d-move-%d", a.SlotID, g.seq), SlotID: a.SlotID, Kind: state.TaskKindSlotReplicaMove, Step: state.TaskStepOpenLearner,
			SourceNode: src, TargetNode: dst, TargetPeers: verifC18Sorted(tp), ConfigEpoch: a.ConfigEpoch, Status: state.TaskStatusPending}
		if rapid.Bool().Draw(g.rt, "explicitPolicy") {
			t.CompletionPolicy = state.TaskCompletionPolicySingleObserver
		}
		if g.chance("moveWrongKind", 12) {
			t.Kind = state.TaskKindBootstrap
			tag = "move_task/wrong_kind"
		}
		cmd.Task = &t
	case "advance":
		cmd.Kind = command.KindAdvanceSlotReplicaMovePhase
		tag = "advance"
		if len(moveTasks) == 0 {
			cmd.SlotReplicaMovePhase = &command.SlotReplicaMovePhaseAdvance{TaskID: "slot-1-move-none", SlotID: 1, ConfigEpoch: 1, NextStep: state.TaskStepAddLearner}
			tag = "advance/missing_task"
			if g.chance("advanceNil", 4) {
				cmd.SlotReplicaMovePhase = nil
				tag = "advance/nil"
			}
			return
		}
		t := moveTasks[g.pick("advTask", len(moveTasks))]
		for _, m := range moveTasks {
			if m.Step != state.TaskStepCommitAssignment && !g.chance("advAtCommit", 8) {
				t = m
			}
		}
		p := &command.SlotReplicaMovePhaseAdvance{TaskID: t.TaskID, SlotID: t.SlotID, ConfigEpoch: t.ConfigEpoch, Attempt: t.Attempt, ExpectedPhaseIndex: t.PhaseIndex,
			ObservedConfigIndex: uint64(rapid.IntRange(1, 1000).Draw(g.rt, "obsIdx"))}
		srcPeers := append([]uint64(nil), t.TargetPeers...)
		for i := range srcPeers {
			if srcPeers[i] == t.TargetNode {
				srcPeers[i] = t.SourceNode
			}
		}
		both := append(append([]uint64(nil), srcPeers...), t.TargetNode)
		switch t.Step {
		case state.TaskStepOpenLearner:
			p.NextStep = state.TaskStepAddLearner
		case state.TaskStepAddLearner:
			if rapid.Bool().Draw(g.rt, "viaPromote") {
				p.NextStep, p.ObservedVoters, p.ObservedLearners = state.TaskStepPromoteLearner, srcPeers, []uint64{t.TargetNode}
			} else {
				p.NextStep, p.ObservedVoters = state.TaskStepRemoveVoter, both
			}
		case state.TaskStepPromoteLearner:
			p.NextStep, p.ObservedVoters = state.TaskStepRemoveVoter, both
		case state.TaskStepRemoveVoter:
			if rapid.IntRange(0, 3).Draw(g.rt, "stayRemove") == 0 {
				p.NextStep, p.ObservedVoters = state.TaskStepRemoveVoter, both
			} else {
				p.NextStep, p.ObservedVoters = state.TaskStepCommitAssignment, append([]uint64(nil), t.TargetPeers...)
			}
		default:
			p.NextStep = state.TaskStepCommitAssignment
			tag = "advance/already_at_commit"
		}
		switch rapid.IntRange(0, 23).Draw(g.rt, "advStale") {
		case 0:
			p.Attempt++
			tag = "advance/stale_attempt"
		case 1:
			p.ConfigEpoch++
			tag = "advance/stale_epoch"
		case 2:
			p.ExpectedPhaseIndex++
			tag = "advance/stale_phase"
		case 3:
			if p.ExpectedPhaseIndex > 0 {
				p.ExpectedPhaseIndex--
				tag = "advance/stale_phase"
			}
		case 4:
			p.SlotID = t.SlotID%4 + 1
			tag = "advance/wrong_slot"
		case 5:
			p.ObservedConfigIndex = 0
			tag = "advance/no_config_index"
		case 6:
			p.ObservedVoters = []uint64{77}
			tag = "advance/wrong_voters"
		case 7:
			p.NextStep = state.TaskStepOpenLearner
			tag = "advance/wrong_step"
		}
		cmd.SlotReplicaMovePhase = p
	case "commit":
		cmd.Kind = command.KindCommitSlotReplicaMove
		tag = "commit"
		if len(moveTasks) == 0 {
			cmd.SlotReplicaMoveCommit = &command.SlotReplicaMoveCommit{TaskID: "slot-1-move-none", SlotID: 1, ConfigEpoch: 1, ObservedConfigIndex: 1}
			tag = "commit/missing_task"
			return
		}
		// prefer a task that is ready to commit
		t := moveTasks[g.pick("cmTask", len(moveTasks))]
		for _, m := range moveTasks {
			if m.Step == state.TaskStepCommitAssignment {
				t = m
			}
		}
		c := &command.SlotReplicaMoveCommit{TaskID: t.TaskID, SlotID: t.SlotID, ConfigEpoch: t.ConfigEpoch, Attempt: t.Attempt,
			ObservedConfigIndex: uint64(rapid.IntRange(1, 1000).Draw(g.rt, "obsIdx")), ObservedVoters: append([]uint64(nil), t.TargetPeers...)}
		if t.Step != state.TaskStepCommitAssignment {
			tag = "commit/too_early"
		}
		switch rapid.IntRange(0, 11).Draw(g.rt, "cmStale") {
		case 0:
			c.Attempt++
			tag = "commit/stale_attempt"
		case 1:
			c.ConfigEpoch++
			tag = "commit/stale_epoch"
		case 2:
			c.ObservedVoters = []uint64{77}
			tag = "commit/wrong_voters"
		case 3:
			c.ObservedConfigIndex = 0
			tag = "commit/no_config_index"
		}
		cmd.SlotReplicaMoveCommit = c
	case "complete", "fail":
		cmd.Kind = command.KindCompleteTask
		tag = "complete"
		if rapid.IntRange(0, 3).Draw(g.rt, "failInstead") == 0 {
			cmd.Kind = command.KindFailTask
			tag = "fail"
		}
		// a staged replica move is finished by commit, not by complete: keep those alive mostly
		if len(moveTasks) > 0 && len(anyTasks) > len(moveTasks) && !g.chance("completeMove", 4) {
			anyTasks = anyTasks[:0]
			for _, t := range cur.Tasks {
				if t.Kind != state.TaskKindSlotReplicaMove {
					anyTasks = append(anyTasks, t)
				}
			}
		}
		if len(anyTasks) == 0 {
			cmd.TaskResult = &command.TaskResult{TaskID: "slot-9-none", SlotID: 1, TaskKind: state.TaskKindBootstrap, ConfigEpoch: 1}
			tag += "/missing_task"
			if g.chance("resultNil", 4) {
				cmd.TaskResult = nil
				tag += "/nil"
			}
			return
		}
		r, v := g.taskResultFor(anyTasks[g.pick("task", len(anyTasks))])
		if cmd.Kind == command.KindFailTask {
			r.Err = rapid.SampledFrom([]string{"", "boom", strings.Repeat("é", 600), strings.Repeat("x", 1023) + "频道"}).Draw(g.rt, "err")
		}
		cmd.TaskResult = r
		tag += "/" + v
	case "progress":
		cmd.Kind = command.KindReportTaskProgress
		tag = "progress"
		if len(anyTasks) == 0 {
			cmd.TaskProgress = &command.TaskProgress{TaskID: "slot-9-none", SlotID: 1, TaskKind: state.TaskKindBootstrap, ConfigEpoch: 1, ParticipantNodeID: 1, Status: state.TaskParticipantStatusDone}
			tag = "progress/missing_task"
			return
		}
		t := anyTasks[g.pick("task", len(anyTasks))]
		if len(bootTasks) > 0 && !g.chance("progressAnyTask", 5) {
			t = bootTasks[g.pick("bootTask", len(bootTasks))]
		}
		p := &command.TaskProgress{TaskID: t.TaskID, SlotID: t.SlotID, TaskKind: t.Kind, ConfigEpoch: t.ConfigEpoch, TaskAttempt: t.Attempt,
			Status: rapid.SampledFrom([]state.TaskParticipantStatus{state.TaskParticipantStatusDone, state.TaskParticipantStatusDone, state.TaskParticipantStatusFailed, state.TaskParticipantStatusPending}).Draw(g.rt, "pStatus")}
		if len(t.ParticipantProgress) > 0 {
			pp := t.ParticipantProgress[g.pick("participant", len(t.ParticipantProgress))]
			p.ParticipantNodeID, p.ParticipantAttempt = pp.NodeID, pp.Attempt
		} else {
			p.ParticipantNodeID = g.someNodeID("participantAny")
			tag = "progress/no_participants"
		}
		if p.Status == state.TaskParticipantStatusFailed {
			p.Err = rapid.SampledFrom([]string{"disk", strings.Repeat("道", 400)}).Draw(g.rt, "pErr")
		}
		switch rapid.IntRange(0, 13).Draw(g.rt, "pStale") {
		case 0:
			p.TaskAttempt++
			tag = "progress/stale_attempt"
		case 1:
			p.ConfigEpoch++
			tag = "progress/stale_epoch"
		case 2:
			if p.ParticipantAttempt > 0 {
				p.ParticipantAttempt--
				tag = "progress/stale_participant_attempt"
			}
		case 3:
			p.ParticipantNodeID = 97
			tag = "progress/unexpected_participant"
		case 4:
			p.Status = "bogus"
			tag = "progress/invalid"
		case 5:
			p.ParticipantAttempt += 2
			tag = "progress/future_participant_attempt"
		}
		cmd.TaskProgress = p
	case "health":
		cmd.Kind = command.KindReportNodeHealth
		tag = "health"
		h := &state.NodeHealthReport{NodeID: g.someNodeID("healthNode"),
			Status:                  rapid.SampledFrom([]state.NodeStatus{state.NodeStatusAlive, state.NodeStatusAlive, state.NodeStatusSuspect, state.NodeStatusDown}).Draw(g.rt, "hStatus"),
			RuntimeReady:            rapid.Bool().Draw(g.rt, "ready"),
			ObservedControlRevision: cur.Revision, ReportSeq: uint64(rapid.IntRange(0, 3).Draw(g.rt, "hSeq")),
			ReportedAtUnixMilli: int64(rapid.IntRange(0, 2).Draw(g.rt, "hAt")) * 1000}
		switch rapid.IntRange(0, 11).Draw(g.rt, "hDefect") {
		case 0:
			h.Status = "bogus"
			tag = "health/invalid"
		case 1:
			h.ErrorCode = strings.Repeat("e", 129)
			tag = "health/invalid"
		case 2:
			cmd.NodeHealth = nil
			tag = "health/nil"
			return
		case 3:
			// repeat the stored report: nothing to update
			for _, r := range cur.NodeHealthReports {
				if r.NodeID == h.NodeID {
					c := r
					c.AppliedRaftIndex = 0
					h = &c
					tag = "health/same"
				}
			}
		}
		cmd.NodeHealth = h
	case "hashslots":
		cmd.Kind = command.KindReplaceHashSlotTable
		tag = "hashslots"
		hcount := int(cur.Config.HashSlotCount)
		if hcount == 0 {
			hcount = 4
		}
		sc := int(cur.Config.SlotCount)
		if sc == 0 {
			sc = 1
		}
		tbl := &state.HashSlotTable{Version: state.CurrentHashSlotTableVersion, SlotCount: uint16(hcount)}
		from := 0
		for x := 1; x <= hcount; x++ {
			if x == hcount || rapid.IntRange(0, hcount/3+1).Draw(g.rt, "cut") == 0 {
				tbl.Ranges = append(tbl.Ranges, state.HashSlotRange{From: uint16(from), To: uint16(x - 1), SlotID: uint32(rapid.IntRange(1, sc).Draw(g.rt, "owner"))})
				from = x
			}
		}
		if len(tbl.Ranges) > 1 && rapid.Bool().Draw(g.rt, "shuffleRanges") {
			tbl.Ranges = rapid.Permutation(tbl.Ranges).Draw(g.rt, "rangeOrder")
		}
		switch rapid.IntRange(0, 9).Draw(g.rt, "hsDefect") {
		case 0:
			tbl.Ranges[0].SlotID = uint32(sc) + 1
			tag = "hashslots/invalid"
		case 1:
			tbl.Ranges = tbl.Ranges[1:]
			tag = "hashslots/invalid"
		case 2:
			cmd.HashSlots = nil
			tag = "hashslots/nil"
			return
		case 3:
			c := cur.HashSlots
			c.Ranges = append([]state.HashSlotRange(nil), c.Ranges...)
			tbl = &c
			tag = "hashslots/same"
		}
		cmd.HashSlots = tbl
	case "backup":
		cmd.Kind = command.KindReplaceScheduledBackupState
		tag = "backup"
		rev := uint64(1)
		if cur.ScheduledBackup != nil {
			rev = cur.ScheduledBackup.Revision + uint64(rapid.IntRange(0, 1).Draw(g.rt, "bRevStep"))
		}
		created := int64(1_700_000_000_000)
		b := &state.ScheduledBackupState{Revision: rev, ManagerSessionEpoch: uint64(rapid.IntRange(0, 3).Draw(g.rt, "mgrEpoch")),
			Plan: &state.BackupPlan{Revision: rev, Enabled: rapid.Bool().Draw(g.rt, "planEnabled"), Store: state.BackupStoreConfig{Kind: state.BackupStoreKindFile},
				Cron: "0 3 * * *", TimeZone: "UTC", RetentionCount: rapid.IntRange(1, 5).Draw(g.rt, "retention"), RateBytesPerSec: 1 << 20, WorkersPerNode: 1,
				MaxDurationMillis: 2 * 60 * 60 * 1000, ScheduleCursorUnixMillis: created, CreatedUnixMillis: created, UpdatedUnixMillis: created}}
		if rapid.Bool().Draw(g.rt, "s3") {
			b.Plan.Store = state.BackupStoreConfig{Kind: state.BackupStoreKindS3, Endpoint: "http://s3:9000", Bucket: "wk", Prefix: "p", PathStyle: true,
				CredentialCiphertext: []byte(rapid.SampledFrom([]string{"", "secret", "\x00\xff"}).Draw(g.rt, "cred"))}
		}
		if rapid.Bool().Draw(g.rt, "history") {
			b.History = []state.BackupTaskRecord{{ID: "b1", Kind: "backup", Status: "succeeded", StartedUnixMillis: created, CompletedUnixMillis: created + 5}}
		}
		switch rapid.IntRange(0, 9).Draw(g.rt, "bDefect") {
		case 0:
			b.Revision = 0
			tag = "backup/invalid"
		case 1:
			b.Plan.WorkersPerNode = 9
			tag = "backup/invalid"
		case 2:
			cmd.ScheduledBackup = nil
			tag = "backup/nil"
			return
		case 3:
			// an active backup job is only valid while no Controller task exists
			job := &state.ScheduledBackupJob{ID: "job-1", Trigger: state.BackupTriggerManual, Status: state.BackupJobStatusExporting, PlanRevision: rev,
				StartedAtUnixMillis: created, DeadlineUnixMillis: created + 1000, UpdatedUnixMillis: created}
			for i := 0; i < state.BackupHashSlotCount; i++ {
				job.Slots = append(job.Slots, state.BackupSlotProgress{HashSlot: uint16(i), Status: state.BackupSlotStatusPending})
			}
			b.ActiveBackup = job
			tag = "backup/active_job"
		}
		cmd.ScheduledBackup = b
	case "mcp":
		cmd.Kind = command.KindReplaceOpsMCPState
		tag = "mcp"
		m := &state.OpsMCPState{}
		for i, n := 0, rapid.IntRange(0, 3).Draw(g.rt, "nCred"); i < n; i++ {
			m.Credentials = append(m.Credentials, state.OpsMCPCredential{ID: fmt.Sprintf("tok-%d", (i+g.pick("credShift", 2))%4), DigestSHA256: strings.Repeat(string(rune('a'+i)), 64), CreatedAtUnixMillis: 1_710_000_000_000 + int64(i)})
		}
		if rapid.Bool().Draw(g.rt, "mcpEnabled") {
			m.Enabled = true
		}
		if rapid.IntRange(0, 3).Draw(g.rt, "mcpOwner") != 0 {
			m.OwnerNodeID = g.someNodeID("mcpOwnerNode")
		}
		if g.chance("mcpNil", 12) {
			tag = "mcp/nil"
			return
		}
		cmd.OpsMCP = m
	case "reinit":
		c, t := g.initCommand()
		if cur.Revision != 0 && rapid.Bool().Draw(g.rt, "equivalentInit") {
			// the same init again (e.g. a retried bootstrap proposal)
			c.Init = &command.InitClusterState{ClusterID: cur.ClusterID, Config: cur.Config, Controllers: cur.Controllers, Nodes: cur.Nodes}
			t = "init/repeat"
		}
		return c, "re" + t
	default:
		cmd.Kind = command.Kind("verif_unknown_kind")
		tag = "unknown_kind"
	}
	return cmd, tag
}

var verifC18StaleReasons = map[string]bool{
	ReasonExpectedRevisionMismatch: true, ReasonStaleBootstrapObsolete: true, ReasonStaleBootstrapMissingSlot: true, ReasonTaskEpochMismatch: true,
	ReasonTaskAttemptMismatch: true, ReasonTaskParticipantAttemptStale: true, ReasonTaskPhaseMismatch: true, ReasonControllerVoterSetMismatch: true,
	ReasonTaskMissing: true,
}

// TestVerifC18Determinism: a generated command log is applied entry by entry
// on a replica that never restarts, then re-applied on replicas that use
// generated batch partitions, restarts from the persisted state (with replay
// of already-applied entries) and failed saves. Per-command results, every
// published snapshot and the final state must agree.
func TestVerifC18Determinism(t *testing.T) {
	kit.Check(t, "C18", func(rt *rapid.T, k *kit.Case) {
		fail := func(f string, a ...any) { rt.Helper(); rt.Fatalf(f, a...) }
		ctx := context.Background()

		// ---- replica A: one entry per batch, never restarted, raw store
		storeA := &verifC18Store{raw: true}
		smA, err := New(storeA)
		if err != nil {
			fail("New: %v", err)
		}
		if err := smA.Load(ctx); err != nil {
			fail("Load on an empty store: %v", err)
		}
		g := &verifC18Gen{rt: rt}
		switch rapid.IntRange(0, 3).Draw(rt, "opening") {
		case 0:
			g.script = []string{"init", "bootstrap", "complete", "move"}
		case 1:
			g.script = []string{"init", "bootstrap"}
		}
		nEntries := rapid.IntRange(4, 64).Draw(rt, "nEntries")
		index := uint64(rapid.IntRange(0, 20).Draw(rt, "firstIndex"))
		term := uint64(1)
		var log []verifC18Entry
		var resA []ApplyResult
		var canonA []string
		var revA []uint64
		changedN, staleN, rejectedN, noopN, updatedN := 0, 0, 0, 0, 0
		labels := map[string]bool{}
		for i := 0; i < nEntries; i++ {
			pre := smA.Snapshot(ctx)
			g.cur = pre
			cmd, tag := g.next()
			data, err := command.Encode(cmd)
			if err != nil {
				fail("command.Encode(%s): %v", tag, err)
			}
			if !strings.HasPrefix(tag, "retry:") {
				g.last, g.lastTag = data, tag
			}
			index += uint64(rapid.IntRange(1, 3).Draw(rt, "indexGap"))
			if rapid.IntRange(0, 9).Draw(rt, "termBump") == 0 {
				term++
			}
			e := verifC18Entry{Index: index, Term: term, Data: data, Kind: cmd.Kind, Tag: tag}
			log = append(log, e)
			savesBefore := storeA.saves
			out, err := smA.ApplyBatch(ctx, verifC18Decode(fail, []verifC18Entry{e}))
			if err != nil {
				fail("ApplyBatch(%s @%d) failed on an accepting store: %v", tag, index, err)
			}
			if len(out.Results) != 1 {
				fail("ApplyBatch returned %d results for 1 entry", len(out.Results))
			}
			r := out.Results[0]
			post := smA.Snapshot(ctx)
			postCanon := verifC18Canon(fail, post, fmt.Sprintf("snapshot published after %s @%d", tag, index))
			if fc := verifC18Canon(fail, out.FinalState, "BatchApplyResult.FinalState"); fc != postCanon {
				fail("FinalState differs from the published snapshot after %s @%d", tag, index)
			}
			flags := 0
			for _, b := range []bool{r.Changed, r.Updated, r.Noop, r.Rejected} {
				if b {
					flags++
				}
			}
			if flags != 1 {
				fail("%s @%d: result must be exactly one of changed/updated/noop/rejected: %s", tag, index, verifC18ResultString(r))
			}
			if (r.Noop || r.Rejected) && r.Reason == "" {
				fail("%s @%d: noop/rejected without a reason", tag, index)
			}
			if r.Revision != post.Revision {
				fail("%s @%d: result revision %d but published revision %d", tag, index, r.Revision, post.Revision)
			}
			switch {
			case pre.Revision == 0 && r.Changed:
				if cmd.Kind != command.KindInitClusterState || post.Revision != 1 {
					fail("%s @%d changed an uninitialised state machine to revision %d", tag, index, post.Revision)
				}
			case pre.Revision == 0:
				if post.Revision != 0 || storeA.saves != savesBefore {
					fail("%s @%d (%s) touched the state before init", tag, index, verifC18ResultString(r))
				}
			default:
				if post.AppliedRaftIndex != index || r.AppliedRaftIndex != index {
					fail("%s @%d: applied index result=%d published=%d", tag, index, r.AppliedRaftIndex, post.AppliedRaftIndex)
				}
				if r.Changed {
					if post.Revision != pre.Revision+1 {
						fail("%s @%d changed the state but revision went %d -> %d", tag, index, pre.Revision, post.Revision)
					}
				} else {
					if post.Revision != pre.Revision {
						fail("%s @%d (%s) moved the revision %d -> %d", tag, index, verifC18ResultString(r), pre.Revision, post.Revision)
					}
					if verifC18Logical(pre, r.Updated) != verifC18Logical(post, r.Updated) {
						fail("%s @%d (%s) modified the state:\nbefore %s\nafter  %s", tag, index, verifC18ResultString(r), verifC18Logical(pre, r.Updated), verifC18Logical(post, r.Updated))
					}
				}
				if cmd.ExpectedRevision != nil && *cmd.ExpectedRevision != pre.Revision && cmd.Kind != command.KindInitClusterState && (r.Changed || r.Updated) {
					fail("%s @%d took effect although expected revision %d != current %d", tag, index, *cmd.ExpectedRevision, pre.Revision)
				}
			}
			if post.Revision != 0 {
				if storeA.saves != savesBefore+1 {
					fail("%s @%d: batch saved %d times (want once)", tag, index, storeA.saves-savesBefore)
				}
				if verifC18Canon(fail, *storeA.st, "persisted state") != postCanon {
					fail("%s @%d: persisted state differs from the published snapshot", tag, index)
				}
			}
			resA = append(resA, r)
			canonA = append(canonA, postCanon)
			revA = append(revA, post.Revision)
			switch {
			case r.Changed:
				changedN++
				labels["changed: "+string(cmd.Kind)] = true
			case r.Updated:
				updatedN++
			case r.Noop:
				noopN++
				labels["noop reason: "+r.Reason] = true
			default:
				rejectedN++
				labels["rejected reason: "+r.Reason] = true
			}
			if (r.Noop || r.Rejected) && verifC18StaleReasons[r.Reason] && post.Revision != 0 {
				staleN++
			}
		}
		if len(storeA.problems) > 0 {
			fail("replica A: %s", storeA.problems[0])
		}

		// ---- replica B: generated batch partition, restarts, replays, failed saves
		dir, cleanup := kit.TempDir()
		defer cleanup()
		multiBatch, restarts, replays, failedSaves := 0, 0, 0, 0
		runReplica := func(name string, store *verifC18Store, chaos bool, maxBatch int, restartEvery bool) string {
			sm, err := New(store)
			if err != nil {
				fail("New: %v", err)
			}
			if err := sm.Load(ctx); err != nil {
				fail("%s: Load: %v", name, err)
			}
			pos, hw := 0, -1
			for pos < len(log) {
				n := rapid.IntRange(1, maxBatch).Draw(rt, name+"Batch")
				if pos+n > len(log) {
					n = len(log) - pos
				}
				batch := log[pos : pos+n]
				before := sm.Snapshot(ctx)
				failing := chaos && rapid.IntRange(0, 9).Draw(rt, name+"FailSave") == 0
				store.failNext = failing
				savesBefore := store.saves
				out, err := sm.ApplyBatch(ctx, verifC18Decode(fail, batch))
				store.failNext = false
				if failing && store.saves > savesBefore {
					// the save was attempted and refused: nothing may be published
					failedSaves++
					if err == nil {
						fail("%s: ApplyBatch succeeded although Save failed", name)
					}
					if !sm.IsDegraded() {
						fail("%s: state machine not degraded after a failed save", name)
					}
					if verifC18Canon(fail, sm.Snapshot(ctx), "snapshot after failed save") != verifC18Canon(fail, before, "snapshot before failed save") {
						fail("%s: a state was published although it could not be saved", name)
					}
					// the process restarts and the batch is delivered again
					sm, _ = New(store)
					if err := sm.Load(ctx); err != nil {
						fail("%s: Load after failed save: %v", name, err)
					}
					restarts++
					continue
				}
				if err != nil {
					fail("%s: ApplyBatch failed: %v", name, err)
				}
				if len(out.Results) != len(batch) {
					fail("%s: %d results for %d entries", name, len(out.Results), len(batch))
				}
				if n > 1 {
					multiBatch++
				}
				curRev, curApplied := before.Revision, before.AppliedRaftIndex
				for j, e := range batch {
					p := pos + j
					got := out.Results[j]
					var want ApplyResult
					if curRev != 0 && e.Index <= curApplied {
						want = ApplyResult{Noop: true, Reason: ReasonAlreadyApplied, Revision: curRev, AppliedRaftIndex: curApplied}
					} else {
						want = resA[p]
						curRev = resA[p].Revision
						if curRev != 0 {
							curApplied = e.Index
						}
					}
					if verifC18ResultString(got) != verifC18ResultString(want) {
						fail("%s: entry %d (%s @%d) in a batch of %d starting at %d:\n got  %s\n want %s (entry-by-entry replica)", name, p, e.Tag, e.Index, n, pos, verifC18ResultString(got), verifC18ResultString(want))
					}
				}
				if pos+n-1 > hw {
					hw = pos + n - 1
				}
				snap := sm.Snapshot(ctx)
				if c := verifC18Canon(fail, snap, name+" snapshot"); c != canonA[hw] {
					fail("%s: snapshot after entries ..%d (batch of %d from %d) differs from the entry-by-entry replica:\n got  %s\n want %s", name, hw, n, pos, c, canonA[hw])
				}
				if fc := verifC18Canon(fail, out.FinalState, name+" FinalState"); fc != canonA[hw] {
					fail("%s: FinalState differs from the published snapshot", name)
				}
				pos += n
				if restartEvery {
					// always continue from the persisted (decoded) state, never from memory
					sm, _ = New(store)
					if err := sm.Load(ctx); err != nil {
						fail("%s: Load after restart: %v", name, err)
					}
					if c := verifC18Canon(fail, sm.Snapshot(ctx), name+" reloaded snapshot"); c != canonA[hw] {
						fail("%s: state loaded after restart differs from the state published before it", name)
					}
				}
				if chaos && rapid.IntRange(0, 3).Draw(rt, name+"Restart") == 0 {
					// restart from the persisted state, then re-deliver some already-applied entries
					sm, _ = New(store)
					if err := sm.Load(ctx); err != nil {
						fail("%s: Load after restart: %v", name, err)
					}
					restarts++
					if c := verifC18Canon(fail, sm.Snapshot(ctx), name+" reloaded snapshot"); c != canonA[hw] {
						fail("%s: state loaded after restart differs from the state published before it", name)
					}
					back := rapid.IntRange(0, 6).Draw(rt, name+"Rewind")
					if back > pos {
						back = pos
					}
					if back > 0 {
						replays++
					}
					pos -= back
				}
			}
			if len(store.problems) > 0 {
				fail("%s: %s", name, store.problems[0])
			}
			final := sm.Snapshot(ctx)
			// replaying the whole log once more changes nothing
			if final.Revision != 0 {
				out, err := sm.ApplyBatch(ctx, verifC18Decode(fail, log))
				if err != nil {
					fail("%s: full replay failed: %v", name, err)
				}
				for j, r := range out.Results {
					// every index in the log is <= the applied index of an initialised replica
					if !r.Noop || r.Reason != ReasonAlreadyApplied || r.Revision != final.Revision || r.AppliedRaftIndex != final.AppliedRaftIndex {
						fail("%s: replay of applied entry %d (%s @%d) returned %s", name, j, log[j].Tag, log[j].Index, verifC18ResultString(r))
					}
				}
				if c := verifC18Canon(fail, sm.Snapshot(ctx), name+" snapshot after full replay"); c != canonA[len(log)-1] {
					fail("%s: replaying already-applied entries changed the state", name)
				}
			}
			return verifC18Canon(fail, final, name+" final snapshot")
		}
		finalB := runReplica("replicaB", &verifC18Store{}, true, rapid.SampledFrom([]int{2, 4, 8, 48, 128}).Draw(rt, "maxBatchB"), false)
		storeC := &verifC18Store{}
		onDisk := rapid.IntRange(0, 11).Draw(rt, "onDisk") == 0
		if onDisk {
			storeC.file = statefile.New(filepath.Join(dir, "cluster-state.json"))
		}
		finalC := runReplica("replicaC", storeC, false, 1, true)
		if finalB != canonA[len(log)-1] || finalC != canonA[len(log)-1] {
			fail("final states differ between replicas")
		}

		k.Key(fmt.Sprint(len(log)), bytes.Join(func() [][]byte {
			var parts [][]byte
			for _, e := range log {
				parts = append(parts, e.Data)
			}
			return parts
		}(), []byte{0}))
		k.SetNonTrivial(changedN >= 1 && staleN >= 1 && multiBatch >= 1)
		for l := range labels {
			k.Label(l)
		}
		k.LabelIf(updatedN > 0, "updated (health report)")
		k.LabelIf(restarts > 0, "restart from persisted state")
		k.LabelIf(replays > 0, "already-applied entries re-delivered after restart")
		k.LabelIf(failedSaves > 0, "save failed, batch re-delivered after restart")
		k.LabelIf(onDisk, "replica on a real state file")
		k.LabelIf(changedN >= 8, ">=8 changed commands")
		k.LabelIf(revA[len(revA)-1] == 0, "log never initialised the cluster")
		k.Sample(func() any {
			var tags []string
			for i, e := range log {
				if i >= 16 {
					tags = append(tags, "…")
					break
				}
				tags = append(tags, e.Tag)
			}
			return fmt.Sprintf("entries=%d changed=%d noop=%d rejected=%d updated=%d stale=%d restarts=%d replays=%d failedSaves=%d log=%v", len(log), changedN, noopN, rejectedN, updatedN, staleN, restarts, replays, failedSaves, tags)
		})
	})
}
