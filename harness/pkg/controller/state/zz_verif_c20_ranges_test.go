package state

import (
	"fmt"
	"reflect"
	"testing"
	"time"

	"pgregory.net/rapid"
	"verif.local/kit"
)

// verifC20MinimalState is the smallest state that passes Validate apart from
// its hash-slot table, which the tests plug in.
func verifC20MinimalState(slotCount uint32, h uint16, table HashSlotTable) ClusterState {
	return ClusterState{
		SchemaVersion: CurrentSchemaVersion,
		ClusterID:     "verif-c20",
		Revision:      1,
		UpdatedAt:     time.Unix(1700000000, 0).UTC(),
		Config:        ClusterConfig{SlotCount: slotCount, HashSlotCount: h, ReplicaCount: 1},
		Controllers:   []ControllerVoter{{NodeID: 1, Addr: "n1:1", Role: ControllerRoleVoter}},
		Nodes: []Node{{NodeID: 1, Addr: "n1:1", Roles: []NodeRole{NodeRoleControllerVoter, NodeRoleData},
			JoinState: NodeJoinStateActive, Status: NodeStatusAlive, CapacityWeight: 1}},
		Slots:     []SlotAssignment{},
		HashSlots: table,
		Tasks:     []ReconcileTask{},
	}
}

// verifC20ExactPartition is the independent oracle: every hash slot in [0,h)
// is covered by exactly one well-formed range that targets a slot 1..slotCount.
func verifC20ExactPartition(slotCount uint32, h uint16, table HashSlotTable) (bool, string) {
	if table.Version != CurrentHashSlotTableVersion {
		return false, "table version"
	}
	if table.SlotCount != h {
		return false, "table slot_count"
	}
	covered := make([]int, int(h))
	for _, r := range table.Ranges {
		if r.SlotID == 0 || r.SlotID > slotCount {
			return false, "range target out of 1..slotCount"
		}
		if r.From > r.To {
			return false, "range from > to"
		}
		for x := int(r.From); x <= int(r.To); x++ {
			if x >= int(h) {
				return false, "range beyond hash slot count"
			}
			covered[x]++
		}
	}
	for x, c := range covered {
		if c != 1 {
			return false, fmt.Sprintf("hash slot %d covered %d times", x, c)
		}
	}
	return true, ""
}

func verifC20HashSlotCount() *rapid.Generator[int] {
	return rapid.Custom(func(t *rapid.T) int {
		switch rapid.IntRange(0, 9).Draw(t, "hKind") {
		case 0, 1, 2, 3, 4:
			return rapid.IntRange(1, 64).Draw(t, "hSmall")
		case 5:
			return 256
		case 6:
			return rapid.SampledFrom([]int{1, 2, 63, 64, 65, 255, 257, 1024, 4095, 4096}).Draw(t, "hEdge")
		case 7, 8:
			return rapid.IntRange(65, 512).Draw(t, "hMid")
		default:
			return rapid.IntRange(513, 4096).Draw(t, "hBig")
		}
	})
}

// TestVerifC20InitialRanges: the initial controller hash-slot table covers
// every hash slot exactly once, gives every slot a share within one of the
// ideal, validates, and survives state encode/decode unchanged.
func TestVerifC20InitialRanges(t *testing.T) {
	kit.Check(t, "C20", func(rt *rapid.T, k *kit.Case) {
		h := verifC20HashSlotCount().Draw(rt, "h")
		var s int
		if rapid.IntRange(0, 9).Draw(rt, "sInvalid") == 0 {
			s = rapid.SampledFrom([]int{0, h + 1, h + 2, 4097, 70000}).Draw(rt, "sBad")
		} else {
			maxS := h
			if maxS > 64 {
				maxS = 64
			}
			s = rapid.IntRange(1, maxS).Draw(rt, "s")
		}
		table, err := BuildInitialHashSlotTable(uint32(s), uint16(h))
		if s == 0 || s > h {
			// more physical slots than hash slots cannot give every slot a hash slot
			if err == nil {
				if ok, why := verifC20ExactPartition(uint32(s), uint16(h), table); !ok || s == 0 {
					rt.Fatalf("BuildInitialHashSlotTable(%d,%d) accepted but table is not an exact partition: %s", s, h, why)
				}
			}
			k.Key("invalid", h, s)
			k.Label("invalid slot/hash-slot counts")
			return
		}
		if err != nil {
			rt.Fatalf("BuildInitialHashSlotTable(%d,%d): %v", s, h, err)
		}
		if ok, why := verifC20ExactPartition(uint32(s), uint16(h), table); !ok {
			rt.Fatalf("initial table (s=%d,h=%d) is not an exact partition: %s: %+v", s, h, why, table)
		}
		share := map[uint32]int{}
		for _, r := range table.Ranges {
			share[r.SlotID] += int(r.To) - int(r.From) + 1
		}
		lo, hi := h/s, (h+s-1)/s
		for id := uint32(1); id <= uint32(s); id++ {
			if share[id] < lo || share[id] > hi {
				rt.Fatalf("initial table (s=%d,h=%d): slot %d owns %d hash slots, ideal %d..%d", s, h, id, share[id], lo, hi)
			}
		}
		again, _ := BuildInitialHashSlotTable(uint32(s), uint16(h))
		if !reflect.DeepEqual(again, table) {
			rt.Fatalf("BuildInitialHashSlotTable not deterministic")
		}
		st := verifC20MinimalState(uint32(s), uint16(h), table)
		if err := st.Validate(); err != nil {
			rt.Fatalf("state with initial table (s=%d,h=%d) does not validate: %v", s, h, err)
		}
		enc, err := Encode(st)
		if err != nil {
			rt.Fatalf("Encode: %v", err)
		}
		dec, err := Decode(enc)
		if err != nil {
			rt.Fatalf("Decode(Encode): %v", err)
		}
		if !reflect.DeepEqual(dec.HashSlots, table) {
			rt.Fatalf("hash-slot table changed across encode/decode: %+v vs %+v", dec.HashSlots, table)
		}
		k.Key("initial", h, s)
		k.SetNonTrivial(s > 1 && h > s)
		k.LabelIf(h%s != 0, "uneven split")
		k.LabelIf(h == s, "one hash slot per slot")
		k.Sample(func() any { return fmt.Sprintf("initial ranges h=%d s=%d", h, s) })
	})
}

// TestVerifC20RangeValidation: a range table is accepted by cluster-state
// validation exactly when it assigns every hash slot to exactly one slot.
// Tables are generated as valid partitions with 0..2 generated defects.
func TestVerifC20RangeValidation(t *testing.T) {
	kit.Check(t, "C20", func(rt *rapid.T, k *kit.Case) {
		h := verifC20HashSlotCount().Draw(rt, "h")
		maxS := h
		if maxS > 64 {
			maxS = 64
		}
		s := rapid.IntRange(1, maxS).Draw(rt, "s")
		// a valid partition from generated cut points
		nCuts := rapid.IntRange(0, 12).Draw(rt, "nCuts")
		cutSet := map[int]bool{}
		for i := 0; i < nCuts && h > 1; i++ {
			cutSet[rapid.IntRange(1, h-1).Draw(rt, "cut")] = true
		}
		table := HashSlotTable{Version: CurrentHashSlotTableVersion, SlotCount: uint16(h)}
		from := 0
		for x := 1; x <= h; x++ {
			if x == h || cutSet[x] {
				table.Ranges = append(table.Ranges, HashSlotRange{From: uint16(from), To: uint16(x - 1), SlotID: uint32(rapid.IntRange(1, s).Draw(rt, "slot"))})
				from = x
			}
		}
		// shuffle order: Validate normalizes ordering first
		if rapid.Bool().Draw(rt, "shuffle") && len(table.Ranges) > 1 {
			perm := rapid.Permutation(table.Ranges).Draw(rt, "perm")
			table.Ranges = perm
		}
		nDefects := rapid.IntRange(0, 2).Draw(rt, "nDefects")
		var defects []string
		for d := 0; d < nDefects; d++ {
			i := 0
			if len(table.Ranges) > 1 {
				i = rapid.IntRange(0, len(table.Ranges)-1).Draw(rt, "at")
			}
			kind := rapid.SampledFrom([]string{"from+1", "from-1", "to+1", "to-1", "drop", "dup", "slot0", "slotHigh", "count+1", "count-1", "version", "swap", "tail"}).Draw(rt, "defect")
			defects = append(defects, kind)
			switch kind {
			case "from+1":
				table.Ranges[i].From++
			case "from-1":
				table.Ranges[i].From--
			case "to+1":
				table.Ranges[i].To++
			case "to-1":
				table.Ranges[i].To--
			case "drop":
				table.Ranges = append(append([]HashSlotRange(nil), table.Ranges[:i]...), table.Ranges[i+1:]...)
				if len(table.Ranges) == 0 {
					table.Ranges = nil
				}
			case "dup":
				table.Ranges = append(table.Ranges, table.Ranges[i])
			case "slot0":
				table.Ranges[i].SlotID = 0
			case "slotHigh":
				table.Ranges[i].SlotID = uint32(s) + uint32(rapid.IntRange(1, 3).Draw(rt, "over"))
			case "count+1":
				table.SlotCount++
			case "count-1":
				table.SlotCount--
			case "version":
				table.Version = uint32(rapid.SampledFrom([]int{0, 2, 7}).Draw(rt, "ver"))
			case "swap":
				table.Ranges[i].From, table.Ranges[i].To = table.Ranges[i].To, table.Ranges[i].From
			case "tail":
				last := uint16(h - 1)
				table.Ranges = append(table.Ranges, HashSlotRange{From: last + 1, To: last + uint16(rapid.IntRange(1, 3).Draw(rt, "tailLen")), SlotID: 1})
			}
			if len(table.Ranges) == 0 {
				break
			}
		}
		want, why := verifC20ExactPartition(uint32(s), uint16(h), table)
		st := verifC20MinimalState(uint32(s), uint16(h), table)
		err := st.Validate()
		if want && err != nil {
			rt.Fatalf("valid partition rejected (h=%d s=%d defects=%v): %v\n%+v", h, s, defects, err, table)
		}
		if !want && err == nil {
			rt.Fatalf("table accepted although %s (h=%d s=%d defects=%v)\n%+v", why, h, s, defects, table)
		}
		if _, encErr := Encode(st); (encErr == nil) != want {
			rt.Fatalf("Encode accepted=%v but exact partition=%v (%s)", encErr == nil, want, why)
		}
		k.Key("validate", h, s, fmt.Sprint(table))
		k.SetNonTrivial(len(table.Ranges) > 1)
		k.LabelIf(want, "accepted exact partition")
		k.LabelIf(!want, "rejected: not an exact partition")
		k.LabelIf(want && nDefects > 0, "defects cancelled out / harmless")
		k.Sample(func() any { return fmt.Sprintf("h=%d s=%d ranges=%d defects=%v accepted=%v", h, s, len(table.Ranges), defects, want) })
	})
}
