package raft

import (
	"context"
	"encoding/json"
	"errors"
	"fmt"
	"os"
	"path/filepath"
	"reflect"
	"sort"
	"strings"
	"sync"
	"testing"
	"time"

	"github.com/WuKongIM/WuKongIM/pkg/controller/command"
	"github.com/WuKongIM/WuKongIM/pkg/controller/fsm"
	"github.com/WuKongIM/WuKongIM/pkg/controller/state"
	"github.com/WuKongIM/WuKongIM/pkg/controller/statefile"
	"go.etcd.io/raft/v3/raftpb"
	"pgregory.net/rapid"
	"verif.local/kit"
)

// C18 (scheduler part): the real applyScheduler turns a committed Controller
// Raft log (commands, empty leader/probe entries, conf changes, one optional
// snapshot) into fsm.ApplyBatch calls on a real fsm.StateMachine. A second real
// state machine that gets the same decoded commands ONE AT A TIME is the
// reference. Every callback of the scheduler (ApplyBatch, Restore,
// MarkAppliedBatch, onApplied, task transitions, completions, conf-change
// requests) is recorded as an event and the event history is judged.

// ---------------------------------------------------------------------------
// state store (what statefile.Store is in production); optional real file
// ---------------------------------------------------------------------------

var errVerifC18sInjected = errors.New("verif: injected failure")

type verifC18sStore struct {
	mu       sync.Mutex
	file     *statefile.Store
	data     []byte
	failNext bool
	saves    int
}

func (s *verifC18sStore) Load(ctx context.Context) (state.ClusterState, error) {
	s.mu.Lock()
	defer s.mu.Unlock()
	if s.file != nil {
		return s.file.Load(ctx)
	}
	if s.data == nil {
		return state.ClusterState{}, fmt.Errorf("verif store: %w", os.ErrNotExist)
	}
	return state.Decode(s.data)
}

func (s *verifC18sStore) Save(ctx context.Context, st state.ClusterState) error {
	s.mu.Lock()
	defer s.mu.Unlock()
	s.saves++
	if s.failNext {
		s.failNext = false
		return errVerifC18sInjected
	}
	if s.file != nil {
		return s.file.Save(ctx, st)
	}
	b, err := state.Encode(st)
	if err != nil {
		return err
	}
	s.data = b
	return nil
}

// ---------------------------------------------------------------------------
// event recorder: applied marker, completion callbacks, conf-change owner
// ---------------------------------------------------------------------------

type verifC18sEvent struct {
	kind    string // apply restore mark applied transitions complete member confreq recover endrecover
	index   uint64
	err     error
	cmds    []fsm.AppliedCommand
	results []fsm.ApplyResult
	snap    state.ClusterState // state published by the scheduler's state machine when the event happened
	pres    ProposalResult
	mres    MembershipChangeResult
	trans   []fsm.TaskTransition
	lo, hi  int // recover: replayed log positions
}

type verifC18sRecorder struct {
	mu         sync.Mutex
	events     []verifC18sEvent
	sm         *fsm.StateMachine
	max        uint64 // what raftstore.Store.AppliedIndex would report
	markFailIn int    // >0: the n-th next MarkAppliedBatch fails
	sentinel   uint64
	sentinelC  chan struct{}
	once       sync.Once
	voters     map[uint64]bool
	learners   map[uint64]bool
}

func (r *verifC18sRecorder) add(e verifC18sEvent) {
	r.events = append(r.events, e)
}

func (r *verifC18sRecorder) signal(index uint64) {
	if r.sentinelC != nil && index == r.sentinel {
		r.once.Do(func() { close(r.sentinelC) })
	}
}

func (r *verifC18sRecorder) MarkAppliedBatch(ctx context.Context, index uint64) error {
	r.mu.Lock()
	defer r.mu.Unlock()
	if r.markFailIn > 0 {
		r.markFailIn--
		if r.markFailIn == 0 {
			r.add(verifC18sEvent{kind: "mark", index: index, err: errVerifC18sInjected})
			return errVerifC18sInjected
		}
	}
	r.add(verifC18sEvent{kind: "mark", index: index, snap: r.sm.Snapshot(ctx)})
	if index > r.max { // raftstore.Store.MarkAppliedBatch ignores indexes that do not advance
		r.max = index
	}
	r.signal(index)
	return nil
}

func (r *verifC18sRecorder) onApplied(ctx context.Context, index uint64) error {
	r.mu.Lock()
	defer r.mu.Unlock()
	r.add(verifC18sEvent{kind: "applied", index: index, snap: r.sm.Snapshot(ctx)})
	return nil
}

func (r *verifC18sRecorder) onTransitions(items []fsm.TaskTransition) {
	r.mu.Lock()
	defer r.mu.Unlock()
	r.add(verifC18sEvent{kind: "transitions", trans: append([]fsm.TaskTransition(nil), items...)})
}

func (r *verifC18sRecorder) complete(index uint64, res ProposalResult, err error) {
	r.mu.Lock()
	defer r.mu.Unlock()
	r.add(verifC18sEvent{kind: "complete", index: index, pres: res, err: err})
	r.signal(index)
}

func (r *verifC18sRecorder) completeMembership(index uint64, res MembershipChangeResult, err error) {
	r.mu.Lock()
	defer r.mu.Unlock()
	r.add(verifC18sEvent{kind: "member", index: index, mres: res, err: err})
}

// serve answers one conf-change request the way the owner of the RawNode does
// (Service.run -> applyConfChange): decode by entry type, apply, answer with the
// resulting ConfState. The membership model is a plain voter/learner set.
func (r *verifC18sRecorder) serve(req confChangeRequest) {
	r.mu.Lock()
	defer r.mu.Unlock()
	var changes []raftpb.ConfChangeSingle
	var err error
	switch req.entry.Type {
	case raftpb.EntryConfChange:
		var cc raftpb.ConfChange
		if err = cc.Unmarshal(req.entry.Data); err == nil {
			changes = []raftpb.ConfChangeSingle{{Type: cc.Type, NodeID: cc.NodeID}}
		}
	case raftpb.EntryConfChangeV2:
		var cc raftpb.ConfChangeV2
		if err = cc.Unmarshal(req.entry.Data); err == nil {
			changes = cc.Changes
		}
	}
	for _, c := range changes {
		switch c.Type {
		case raftpb.ConfChangeAddNode:
			delete(r.learners, c.NodeID)
			r.voters[c.NodeID] = true
		case raftpb.ConfChangeAddLearnerNode:
			if !r.voters[c.NodeID] {
				r.learners[c.NodeID] = true
			}
		case raftpb.ConfChangeRemoveNode:
			delete(r.voters, c.NodeID)
			delete(r.learners, c.NodeID)
		}
	}
	cs := raftpb.ConfState{Voters: verifC18sKeys(r.voters), Learners: verifC18sKeys(r.learners)}
	r.add(verifC18sEvent{kind: "confreq", index: req.entry.Index, err: err, mres: MembershipChangeResult{Index: req.entry.Index, ConfState: cs},
		cmds: []fsm.AppliedCommand{{Index: req.entry.Index, Term: req.entry.Term}}})
	req.resp <- confChangeResult{state: cs, err: err}
}

func verifC18sKeys(m map[uint64]bool) []uint64 {
	var out []uint64
	for k := range m {
		out = append(out, k)
	}
	sort.Slice(out, func(i, j int) bool { return out[i] < out[j] })
	return out
}

// applier wraps the real state machine and records what the scheduler hands it.
type verifC18sApplier struct {
	rec *verifC18sRecorder
	sm  *fsm.StateMachine
}

func (a *verifC18sApplier) ApplyBatch(ctx context.Context, cmds []fsm.AppliedCommand) (fsm.BatchApplyResult, error) {
	out, err := a.sm.ApplyBatch(ctx, cmds)
	a.rec.mu.Lock()
	a.rec.add(verifC18sEvent{kind: "apply", err: err, cmds: append([]fsm.AppliedCommand(nil), cmds...), results: append([]fsm.ApplyResult(nil), out.Results...), snap: a.sm.Snapshot(ctx)})
	a.rec.mu.Unlock()
	return out, err
}

func (a *verifC18sApplier) Restore(ctx context.Context, st state.ClusterState) error {
	err := a.sm.Restore(ctx, st)
	a.rec.mu.Lock()
	a.rec.add(verifC18sEvent{kind: "restore", err: err, snap: a.sm.Snapshot(ctx)})
	a.rec.mu.Unlock()
	return err
}

// ---------------------------------------------------------------------------
// the committed log and the reference run
// ---------------------------------------------------------------------------

const (
	verifC18sCommand = iota
	verifC18sEmpty
	verifC18sConf
)

type verifC18sLogEntry struct {
	ent  raftpb.Entry
	kind int
	cmd  command.Command // decoded from ent.Data
	tag  string
	res  fsm.ApplyResult    // result of the one-at-a-time reference run
	st   state.ClusterState // reference state after this log position
}

// canonical comparable form of a published state. The applied index is compared
// separately (a restored snapshot carries the snapshot index, see judge.expect).
func verifC18sCanon(st state.ClusterState, applied uint64) (string, error) {
	if st.Revision == 0 {
		return "uninit", nil
	}
	c := st.Clone()
	c.AppliedRaftIndex = applied
	b, err := state.Encode(c)
	return string(b), err
}

func verifC18sResultString(r fsm.ApplyResult) string {
	tt, _ := json.Marshal(r.TaskTransitions)
	return fmt.Sprintf("changed=%v updated=%v noop=%v rejected=%v reason=%q rev=%d applied=%d transitions=%s", r.Changed, r.Updated, r.Noop, r.Rejected, r.Reason, r.Revision, r.AppliedRaftIndex, tt)
}

// ---------------------------------------------------------------------------
// judge: linear scan over the recorded events
// ---------------------------------------------------------------------------

type verifC18sJudge struct {
	fail       func(string, ...any)
	log        []verifC18sLogEntry
	first      uint64
	offerOf    []int // log position -> number of the toApply job that carried it (-1: skipped by the snapshot)
	maxEntries int
	maxBytes   uint64
	snapPos    int // log position of the snapshot job, -1 if none
	hasObs     bool

	pos          int // next log position the scheduler has to process
	scanned      int // events judged so far
	failed       bool
	inRecovery   bool
	recLo, recHi int
	recID        int
	runMarkPrev  uint64
	markerMax    uint64
	awaiting     []uint64 // processed entries whose completion is outstanding
	awaitWant    map[uint64]fsm.ApplyResult
	canonCache   map[[2]uint64]string
	hw           int // highest log position whose effect is in the scheduler's state machine (-1: none)
	redelivered  int
	lastDone     uint64
	batch        *verifC18sEvent
	batchMarked  bool
	batchTrans   bool
	restorePend  bool
	snapDone     bool
	confServed   map[uint64]raftpb.ConfState
	prev         *verifC18sEvent

	applyCalls, multiCmd, forced, completions, members, marks int
	causes                                                    map[string]bool
}

func (j *verifC18sJudge) posOf(index uint64) int {
	if index < j.first || index >= j.first+uint64(len(j.log)) {
		return -1
	}
	return int(index - j.first)
}

func (j *verifC18sJudge) offer(p int) int {
	if j.inRecovery && p >= j.recLo && p <= j.recHi {
		return j.recID
	}
	return j.offerOf[p]
}

// expect compares a state published by the scheduler's state machine with the
// reference state after log position p.
func (j *verifC18sJudge) expect(got state.ClusterState, p int, what string) {
	var want state.ClusterState
	if j.hw > p {
		p = j.hw // entries delivered again after a restart do not take the state back
	}
	if p >= 0 {
		want = j.log[p].st
	}
	if (got.Revision == 0) != (want.Revision == 0) {
		j.fail("%s: scheduler state has revision %d, one-at-a-time reference has revision %d", what, got.Revision, want.Revision)
	}
	if want.Revision == 0 {
		return
	}
	applied := j.expApplied(p)
	if got.AppliedRaftIndex != applied {
		j.fail("%s: scheduler state has applied raft index %d, expected %d", what, got.AppliedRaftIndex, applied)
	}
	g, err := verifC18sCanon(got, applied)
	if err != nil {
		j.fail("%s: scheduler state cannot be encoded / does not validate: %v", what, err)
	}
	if sum, err := state.Checksum(got); err != nil || sum != got.Checksum {
		j.fail("%s: scheduler state carries checksum %q, content hashes to %q (%v)", what, got.Checksum, sum, err)
	}
	ck := [2]uint64{uint64(p), applied}
	w, ok := j.canonCache[ck]
	if !ok {
		if w, err = verifC18sCanon(want, applied); err != nil {
			j.fail("reference state cannot be encoded: %v", err)
		}
		j.canonCache[ck] = w
	}
	if g != w {
		j.fail("%s: scheduler state differs from the one-at-a-time reference after index %d:\n got  %s\n want %s", what, j.log[p].ent.Index, g, w)
	}
}

// expApplied: applied raft index the scheduler's state must carry once log position p is applied
func (j *verifC18sJudge) expApplied(p int) uint64 {
	if p < 0 || j.log[p].st.Revision == 0 {
		return 0
	}
	applied := j.log[p].st.AppliedRaftIndex
	if j.snapDone && j.snapPos >= 0 && j.log[j.snapPos].ent.Index > applied {
		applied = j.log[j.snapPos].ent.Index
	}
	return applied
}

func (j *verifC18sJudge) settleBatch() {
	if j.batch == nil {
		return
	}
	last := j.batch.cmds[len(j.batch.cmds)-1].Index
	if !j.batchMarked {
		j.fail("ApplyBatch(..%d) succeeded but the scheduler went on without MarkAppliedBatch(%d)", last, last)
	}
	if j.hasObs && !j.batchTrans {
		var want []fsm.TaskTransition
		for _, r := range j.batch.results {
			want = append(want, r.TaskTransitions...)
		}
		if len(want) > 0 {
			j.fail("batch ..%d produced %d task transitions but the observer was not told", last, len(want))
		}
	}
	j.batch = nil
}

// startEntry: the scheduler begins to process log position p.
func (j *verifC18sJudge) startEntry(p int, what string) {
	j.settleBatch()
	for _, idx := range j.awaiting {
		if j.offer(j.posOf(idx)) != j.offer(p) {
			j.fail("%s: entry %d of an earlier job was applied but its completion was never delivered", what, idx)
		}
	}
}

func (j *verifC18sJudge) scan(events []verifC18sEvent) {
	for ; j.scanned < len(events); j.scanned++ {
		e := &events[j.scanned]
		prev := j.prev
		j.prev = e
		if j.failed && e.kind == "member" && prev != nil && prev.kind == "mark" && prev.err != nil && prev.index == e.index && errors.Is(e.err, errVerifC18sInjected) {
			// a conf change whose applied mark failed is reported to the proposer with that error
			continue
		}
		if j.failed && e.kind != "recover" {
			j.fail("event %s(%d) after the scheduler reported a failure", e.kind, e.index)
		}
		switch e.kind {
		case "recover":
			j.settleBatch()
			j.failed, j.inRecovery = false, true
			j.recLo, j.recHi = e.lo, e.hi
			j.recID--
			j.pos = e.lo
			j.runMarkPrev = 0
			j.awaiting = nil
			j.restorePend = false
		case "endrecover":
			j.settleBatch()
			if j.pos != j.recHi+1 && j.recLo <= j.recHi {
				j.fail("startup replay of entries %d..%d stopped at position %d", j.log[j.recLo].ent.Index, j.log[j.recHi].ent.Index, j.pos)
			}
			j.inRecovery = false
			j.runMarkPrev = 0
			j.pos = e.lo // raft delivers committed entries again from the persisted applied index
		case "apply":
			if len(e.cmds) == 0 {
				j.fail("ApplyBatch called with an empty batch")
			}
			if j.restorePend {
				j.fail("ApplyBatch before the restored snapshot was marked applied")
			}
			if j.pos >= len(j.log) {
				j.fail("ApplyBatch(%d..) beyond the end of the log", e.cmds[0].Index)
			}
			j.startEntry(j.pos, "ApplyBatch")
			j.applyCalls++
			var size uint64
			for i, c := range e.cmds {
				p := j.pos + i
				if p >= len(j.log) || c.Index != j.log[p].ent.Index {
					want := "nothing"
					if p < len(j.log) {
						want = fmt.Sprint(j.log[p].ent.Index)
					}
					j.fail("ApplyBatch was handed index %d (batch %v) where the next unapplied committed entry is %s: entries are skipped, repeated or out of order", c.Index, verifC18sIndexes(e.cmds), want)
				}
				le := j.log[p]
				if le.kind != verifC18sCommand {
					j.fail("ApplyBatch was handed index %d which is not a command entry", c.Index)
				}
				if j.offer(p) != j.offer(j.pos) {
					j.fail("ApplyBatch %v spans two toApply jobs", verifC18sIndexes(e.cmds))
				}
				if c.Term != le.ent.Term || !reflect.DeepEqual(c.Command, le.cmd) {
					j.fail("ApplyBatch got a different command/term for index %d than the committed entry carries", c.Index)
				}
				size += uint64(len(le.ent.Data))
			}
			if len(e.cmds) > j.maxEntries {
				j.fail("ApplyBatch got %d commands %v, MaxApplyBatchEntries is %d", len(e.cmds), verifC18sIndexes(e.cmds), j.maxEntries)
			}
			if len(e.cmds) > 1 && size > j.maxBytes {
				j.fail("ApplyBatch got %d commands with %d encoded bytes, MaxApplyBatchBytes is %d", len(e.cmds), size, j.maxBytes)
			}
			if e.err != nil {
				if !errors.Is(e.err, errVerifC18sInjected) {
					j.fail("ApplyBatch %v failed on an accepting store: %v", verifC18sIndexes(e.cmds), e.err)
				}
				j.failed, j.batch = true, nil
				j.awaiting = nil
				continue
			}
			if len(e.results) != len(e.cmds) {
				j.fail("ApplyBatch returned %d results for %d commands", len(e.results), len(e.cmds))
			}
			for i := range e.cmds {
				le := j.log[j.pos+i]
				want, ref := le.res, "one-at-a-time reference"
				if applied := j.expApplied(j.hw); applied != 0 && le.ent.Index <= applied {
					// delivered again after a restart: the state machine already contains it
					want, ref = fsm.ApplyResult{Noop: true, Reason: fsm.ReasonAlreadyApplied, Revision: j.log[j.hw].st.Revision, AppliedRaftIndex: applied}, "already applied before the restart"
					j.redelivered++
				} else if j.pos+i > j.hw {
					j.hw = j.pos + i
				}
				if got, want := verifC18sResultString(e.results[i]), verifC18sResultString(want); got != want {
					j.fail("entry %d (%s) applied in batch %v:\n got  %s\n want %s (%s)", le.ent.Index, le.tag, verifC18sIndexes(e.cmds), got, want, ref)
				}
				if !j.inRecovery {
					j.awaiting = append(j.awaiting, le.ent.Index)
					j.awaitWant[le.ent.Index] = want
				}
			}
			if len(e.cmds) >= 2 {
				j.multiCmd++
			}
			endPos := j.pos + len(e.cmds) - 1
			if endPos+1 < len(j.log) && j.offer(endPos+1) == j.offer(endPos) {
				j.forced++
				switch nx := j.log[endPos+1]; {
				case nx.kind == verifC18sEmpty:
					j.causes["flush forced by an empty entry"] = true
				case nx.kind == verifC18sConf:
					j.causes["flush forced by a conf change"] = true
				case len(e.cmds) == j.maxEntries:
					j.causes["flush forced by MaxEntries"] = true
				default:
					j.causes["flush forced by MaxBytes"] = true
					if size+uint64(len(nx.ent.Data)) <= j.maxBytes {
						// not a violation of the property: batch sizes below the limits are not promised
						j.causes["flush without a visible reason"] = true
					}
				}
			}
			j.expect(e.snap, endPos, fmt.Sprintf("after ApplyBatch %v", verifC18sIndexes(e.cmds)))
			j.pos = endPos + 1
			j.batch, j.batchMarked, j.batchTrans = e, false, false
		case "restore":
			if j.inRecovery || j.snapPos < 0 || j.snapDone || j.pos > j.snapPos {
				j.fail("unexpected snapshot restore")
			}
			j.startEntry(j.snapPos, "Restore")
			if e.err != nil {
				j.fail("Restore failed on an accepting store: %v", e.err)
			}
			j.snapDone, j.restorePend = true, true
			j.pos = j.snapPos + 1
			if j.snapPos > j.hw {
				j.hw = j.snapPos
			}
			j.expect(e.snap, j.snapPos, "after snapshot restore")
		case "mark":
			j.marks++
			p := j.posOf(e.index)
			switch {
			case j.batch != nil && !j.batchMarked:
				if last := j.batch.cmds[len(j.batch.cmds)-1].Index; e.index != last {
					j.fail("MarkAppliedBatch(%d) after ApplyBatch %v, want %d", e.index, verifC18sIndexes(j.batch.cmds), last)
				}
				if e.err == nil {
					j.batchMarked = true
				}
			case j.restorePend:
				if e.index != j.log[j.snapPos].ent.Index {
					j.fail("MarkAppliedBatch(%d) after restoring the snapshot at %d", e.index, j.log[j.snapPos].ent.Index)
				}
				if e.err == nil {
					j.restorePend = false
				}
			default:
				if p < 0 || p != j.pos {
					next := "the end of the log"
					if j.pos < len(j.log) {
						next = fmt.Sprintf("entry %d (%s)", j.log[j.pos].ent.Index, j.log[j.pos].tag)
					}
					j.fail("MarkAppliedBatch(%d) while the next entry that is not applied yet is %s: the applied marker runs ahead of (or behind) the state machine", e.index, next)
				}
				le := j.log[p]
				if le.kind == verifC18sCommand {
					j.fail("MarkAppliedBatch(%d) for a command entry (%s) that was not handed to ApplyBatch", e.index, le.tag)
				}
				j.startEntry(p, "MarkAppliedBatch")
				if le.kind == verifC18sConf && !j.inRecovery {
					if _, ok := j.confServed[e.index]; !ok {
						j.fail("conf change %d marked applied before its owner was asked to apply it", e.index)
					}
				}
				if e.err == nil {
					j.pos = p + 1
					if !j.inRecovery {
						j.awaiting = append(j.awaiting, e.index)
					}
				}
			}
			if e.err != nil {
				if !errors.Is(e.err, errVerifC18sInjected) {
					j.fail("MarkAppliedBatch(%d) failed: %v", e.index, e.err)
				}
				j.failed, j.batch = true, nil
				j.awaiting = nil
				continue
			}
			if e.index <= j.runMarkPrev {
				j.fail("MarkAppliedBatch(%d) after MarkAppliedBatch(%d): not strictly increasing", e.index, j.runMarkPrev)
			}
			j.runMarkPrev = e.index
			if e.index > j.markerMax {
				j.markerMax = e.index
			}
			j.expect(e.snap, p, fmt.Sprintf("at MarkAppliedBatch(%d)", e.index))
		case "applied":
			if prev == nil || prev.kind != "mark" || prev.err != nil || prev.index != e.index {
				j.fail("onApplied(%d) does not follow a successful MarkAppliedBatch(%d)", e.index, e.index)
			}
			if e.snap.Checksum != prev.snap.Checksum || e.snap.Revision != prev.snap.Revision || e.snap.AppliedRaftIndex != prev.snap.AppliedRaftIndex {
				// (otherwise it is the state already judged at the mark)
				j.expect(e.snap, j.posOf(e.index), fmt.Sprintf("at onApplied(%d)", e.index))
			}
		case "transitions":
			if j.batch == nil || !j.batchMarked || j.batchTrans {
				j.fail("task transitions delivered outside of an applied and marked batch")
			}
			var want []fsm.TaskTransition
			for _, r := range j.batch.results {
				want = append(want, r.TaskTransitions...)
			}
			g, _ := json.Marshal(e.trans)
			w, _ := json.Marshal(want)
			if string(g) != string(w) || len(e.trans) == 0 {
				j.fail("task transitions delivered for batch %v:\n got  %s\n want %s", verifC18sIndexes(j.batch.cmds), g, w)
			}
			for _, t := range e.trans {
				if t.AppliedRaftIndex > j.markerMax {
					j.fail("task transition of index %d observed before the applied marker reached it (%d)", t.AppliedRaftIndex, j.markerMax)
				}
			}
			j.batchTrans = true
		case "complete", "member":
			if len(j.awaiting) == 0 || j.awaiting[0] != e.index {
				j.fail("%s(%d): not the next processed entry awaiting completion (awaiting %v): completions must come exactly once, in index order, after the entry was applied", e.kind, e.index, j.awaiting)
			}
			j.awaiting = j.awaiting[1:]
			if e.index <= j.lastDone {
				j.fail("%s(%d) after completion of %d", e.kind, e.index, j.lastDone)
			}
			j.lastDone = e.index
			le := j.log[j.posOf(e.index)]
			if e.kind == "member" {
				j.members++
				if le.kind != verifC18sConf {
					j.fail("completeMembership(%d) for an entry that is not a conf change", e.index)
				}
				if e.err != nil || e.mres.Index != e.index || !reflect.DeepEqual(e.mres.ConfState, j.confServed[e.index]) {
					j.fail("completeMembership(%d) = %+v, %v; the owner answered %+v", e.index, e.mres, e.err, j.confServed[e.index])
				}
				continue
			}
			j.completions++
			switch le.kind {
			case verifC18sConf:
				j.fail("complete(%d) for a conf change entry", e.index)
			case verifC18sEmpty:
				if e.err != nil || e.pres != (ProposalResult{Noop: true, AppliedRaftIndex: e.index}) {
					j.fail("empty entry %d completed with %+v, %v; want a plain no-op", e.index, e.pres, e.err)
				}
			default:
				res := j.awaitWant[e.index]
				want := ProposalResult{Changed: res.Changed, Updated: res.Updated, Noop: res.Noop, Rejected: res.Rejected, Reason: res.Reason, Revision: res.Revision, AppliedRaftIndex: res.AppliedRaftIndex}
				if e.pres != want {
					j.fail("entry %d (%s) completed with %+v, one-at-a-time reference gives %+v", e.index, le.tag, e.pres, want)
				}
				var rej ProposalRejectedError
				isRej := errors.As(e.err, &rej)
				switch {
				case want.Rejected && (!isRej || rej.Index != e.index || rej.Reason != want.Reason || !errors.Is(e.err, ErrProposalRejected)):
					j.fail("rejected entry %d (%s) completed with error %v", e.index, want.Reason, e.err)
				case !want.Rejected && e.err != nil:
					j.fail("entry %d (%s) completed with error %v although it was not rejected", e.index, le.tag, e.err)
				}
			}
		case "confreq":
			p := j.posOf(e.index)
			if j.inRecovery || p < 0 || p != j.pos || j.log[p].kind != verifC18sConf {
				j.fail("conf change request for index %d while the next unprocessed entry is at position %d", e.index, j.pos)
			}
			j.startEntry(p, "conf change")
			if e.err != nil {
				j.fail("conf change entry %d handed to the owner does not decode: %v", e.index, e.err)
			}
			if e.cmds[0].Term != j.log[p].ent.Term {
				j.fail("conf change request %d carries a different entry", e.index)
			}
			if _, dup := j.confServed[e.index]; dup {
				j.fail("conf change %d handed to its owner twice", e.index)
			}
			j.confServed[e.index] = e.mres.ConfState
		default:
			j.fail("unknown event %q", e.kind)
		}
	}
}

// quiescent: nothing may be outstanding once an applyJob / a replay returned nil
func (j *verifC18sJudge) quiescent(what string, wantPos int) {
	j.settleBatch()
	if j.failed {
		j.fail("%s: returned nil after a failed ApplyBatch/MarkAppliedBatch", what)
	}
	if j.restorePend {
		j.fail("%s: snapshot restored but never marked applied", what)
	}
	if j.pos != wantPos {
		at := "the end of the log"
		if j.pos < len(j.log) {
			at = fmt.Sprintf("entry %d (%s)", j.log[j.pos].ent.Index, j.log[j.pos].tag)
		}
		j.fail("%s: returned nil but the scheduler stopped at %s; %d entries of the job were never applied", what, at, wantPos-j.pos)
	}
	if len(j.awaiting) > 0 {
		j.fail("%s: entries %v were applied but never completed", what, j.awaiting)
	}
}

func verifC18sIndexes(cmds []fsm.AppliedCommand) []uint64 {
	out := make([]uint64, 0, len(cmds))
	for _, c := range cmds {
		out = append(out, c.Index)
	}
	return out
}

func verifC18sVoterIDs(cs []state.ControllerVoter) []uint64 {
	out := make([]uint64, 0, len(cs))
	for _, c := range cs {
		out = append(out, c.NodeID)
	}
	return out
}

// ---------------------------------------------------------------------------
// the test
// ---------------------------------------------------------------------------

type verifC18sJob struct {
	lo, hi  int // log positions [lo,hi] of the entries (hi<lo: none)
	snapPos int // >=0: Ready carried a snapshot taken at this log position (then no entries)
}

func TestVerifC18Scheduler(t *testing.T) {
	kit.Check(t, "C18", func(rt *rapid.T, k *kit.Case) {
		fail := func(f string, a ...any) { rt.Helper(); rt.Fatalf(f, a...) }
		ctx := context.Background()

		// ---- the committed log, generated against the one-at-a-time reference
		refStore := &verifC18sStore{}
		ref, err := fsm.New(refStore)
		if err != nil {
			fail("fsm.New: %v", err)
		}
		if err := ref.Load(ctx); err != nil {
			fail("Load on an empty store: %v", err)
		}
		async := rapid.IntRange(0, 2).Draw(rt, "asyncMode") == 0
		g := &verifC18sGen{rt: rt}
		switch rapid.IntRange(0, 3).Draw(rt, "opening") {
		case 0:
			g.script = []string{"init", "bootstrap", "complete", "move"}
		case 1, 2:
			g.script = []string{"init", "bootstrap"}
		}
		n := rapid.IntRange(4, 40).Draw(rt, "nEntries")
		first := uint64(rapid.SampledFrom([]int{1, 1, 1, 2, 4, 17}).Draw(rt, "firstIndex"))
		term := uint64(rapid.IntRange(1, 3).Draw(rt, "firstTerm"))
		var log []verifC18sLogEntry
		var changedN, noopN, rejectedN, updatedN, emptyN, confN int
		labels := map[string]bool{}
		run := 0 // remaining forced command run (so that multi-command batches are common)
		for i := 0; i < n; i++ {
			if rapid.IntRange(0, 11).Draw(rt, "termBump") == 0 {
				term++
			}
			le := verifC18sLogEntry{ent: raftpb.Entry{Index: first + uint64(i), Term: term}}
			what := 0
			if run > 0 {
				run--
			} else {
				what = rapid.IntRange(0, 13).Draw(rt, "entryKind")
				if what <= 3 {
					run = rapid.IntRange(2, 6).Draw(rt, "commandRun")
				}
			}
			switch {
			case what == 13 || what == 12:
				le.kind, le.tag = verifC18sEmpty, "empty"
				emptyN++
			case what == 11 || (what == 10 && i < 3):
				le.kind = verifC18sConf
				confN++
				node := uint64(rapid.IntRange(1, 6).Draw(rt, "confNode"))
				typ := rapid.SampledFrom([]raftpb.ConfChangeType{raftpb.ConfChangeAddNode, raftpb.ConfChangeAddLearnerNode, raftpb.ConfChangeRemoveNode}).Draw(rt, "confType")
				if rapid.Bool().Draw(rt, "confV2") {
					cc := raftpb.ConfChangeV2{Changes: []raftpb.ConfChangeSingle{{Type: typ, NodeID: node}}}
					if rapid.Bool().Draw(rt, "confV2Two") {
						cc.Changes = append(cc.Changes, raftpb.ConfChangeSingle{Type: raftpb.ConfChangeAddLearnerNode, NodeID: node%6 + 1})
					}
					le.ent.Type, le.tag = raftpb.EntryConfChangeV2, "confchange_v2"
					le.ent.Data, err = cc.Marshal()
				} else {
					cc := raftpb.ConfChange{Type: typ, NodeID: node}
					le.ent.Type, le.tag = raftpb.EntryConfChange, "confchange"
					le.ent.Data, err = cc.Marshal()
				}
				if err != nil {
					fail("marshal conf change: %v", err)
				}
			default:
				le.kind = verifC18sCommand
				g.cur = ref.Snapshot(ctx)
				cmd, tag := g.next()
				data, err := command.Encode(cmd)
				if err != nil {
					fail("command.Encode(%s): %v", tag, err)
				}
				if !strings.HasPrefix(tag, "retry:") {
					g.last, g.lastTag = data, tag
				}
				le.ent.Data, le.tag = data, tag
				if le.cmd, err = command.Decode(data); err != nil {
					fail("command.Decode(Encode(%s)): %v", tag, err)
				}
				out, err := ref.ApplyBatch(ctx, []fsm.AppliedCommand{{Index: le.ent.Index, Term: le.ent.Term, Command: le.cmd}})
				if err != nil || len(out.Results) != 1 {
					fail("reference ApplyBatch(%s @%d): %d results, %v", tag, le.ent.Index, len(out.Results), err)
				}
				le.res = out.Results[0]
				switch {
				case le.res.Changed:
					changedN++
				case le.res.Updated:
					updatedN++
				case le.res.Noop:
					noopN++
					labels["noop reason: "+le.res.Reason] = true
				case le.res.Rejected:
					rejectedN++
					labels["rejected reason: "+le.res.Reason] = true
				}
			}
			le.st = ref.Snapshot(ctx)
			log = append(log, le)
		}
		if async {
			// a probe proposal (empty normal entry) ends the log; its completion tells the harness that the queue is drained
			log = append(log, verifC18sLogEntry{ent: raftpb.Entry{Index: first + uint64(n), Term: term}, kind: verifC18sEmpty, tag: "empty(final probe)", st: ref.Snapshot(ctx)})
			emptyN++
		}

		// ---- cut into Ready-shaped jobs: committed entries OR a snapshot (raft never returns both in one Ready)
		maxJob := rapid.SampledFrom([]int{8, 16, 5, 64, 3, 8, 1}).Draw(rt, "maxJob")
		var jobs []verifC18sJob
		offerOf := make([]int, len(log))
		snapPos, snapLo := -1, -1
		wantSnap := rapid.IntRange(0, 3).Draw(rt, "withSnapshot") == 0
		// Service.compactLogAt lifts the applied index of the snapshotted state to the snapshot index; the scheduler
		// (and recoverStartup) also accept a state that still carries the index of its last command
		snapBumped, rawSnapshot := rapid.Bool().Draw(rt, "snapshotAppliedLifted"), false
		for p := 0; p < n; {
			switch c := rapid.IntRange(0, 11).Draw(rt, "jobKind"); {
			case c == 0:
				jobs = append(jobs, verifC18sJob{lo: p, hi: p - 1, snapPos: -1}) // Ready without committed entries
				continue
			case c <= 3 && wantSnap && snapPos < 0 && p < n-1:
				sp := rapid.IntRange(p, min(n-2, p+6)).Draw(rt, "snapshotAt")
				if !snapBumped {
					// prefer a snapshot index that is not a command: there the state's own applied index is below it
					for q := sp; q <= min(n-2, p+6); q++ {
						if log[q].kind != verifC18sCommand {
							sp = q
							break
						}
					}
				}
				if log[sp].st.Revision != 0 { // only a materialized state is ever snapshotted
					for q := p; q <= sp; q++ {
						offerOf[q] = -1
					}
					snapPos, snapLo = sp, p
					jobs = append(jobs, verifC18sJob{lo: sp + 1, hi: sp, snapPos: sp})
					p = sp + 1
					continue
				}
			}
			size := rapid.IntRange(1, maxJob).Draw(rt, "jobSize")
			if rapid.IntRange(0, 2).Draw(rt, "jobFull") == 0 {
				size = maxJob
			}
			if p+size > n {
				size = n - p
			}
			for q := p; q < p+size; q++ {
				offerOf[q] = len(jobs)
			}
			jobs = append(jobs, verifC18sJob{lo: p, hi: p + size - 1, snapPos: -1})
			p += size
		}
		if async {
			offerOf[n] = len(jobs)
			jobs = append(jobs, verifC18sJob{lo: n, hi: n, snapPos: -1})
		}

		// ---- scheduler configuration
		var sizes []int
		total := 0
		for _, e := range log {
			if e.kind == verifC18sCommand {
				sizes = append(sizes, len(e.ent.Data))
				total += len(e.ent.Data)
			}
		}
		sort.Ints(sizes)
		median, largest := 300, 300
		if len(sizes) > 0 {
			median, largest = sizes[len(sizes)/2], sizes[len(sizes)-1]
		}
		cfg := applySchedulerConfig{
			MaxEntries: rapid.SampledFrom([]int{3, 4, 2, 5, 3, 6, 2, 4, 0, 1}).Draw(rt, "maxEntries"),
			MaxBytes:   uint64(rapid.SampledFrom([]int{largest + median, 3*median + 50, 2 * median, 1 << 20, total/2 + 1, 2*median + 1, largest, 3 * median, 0, median, 1}).Draw(rt, "maxBytes")),
			MaxDelay:   time.Duration(rapid.SampledFrom([]int{0, 1, 1000}).Draw(rt, "maxDelayMs")) * time.Millisecond,
		}
		effEntries, effBytes := cfg.MaxEntries, cfg.MaxBytes
		if effEntries <= 0 {
			effEntries = defaultMaxApplyBatchEntries
		}
		if effBytes == 0 {
			effBytes = defaultMaxApplyBatchBytes
		}

		// ---- system under test
		store := &verifC18sStore{}
		onDisk := rapid.IntRange(0, 9).Draw(rt, "onDisk") == 0
		if onDisk {
			dir, cleanup := kit.TempDir()
			defer cleanup()
			store.file = statefile.New(filepath.Join(dir, "cluster-state.json"))
		}
		sm, err := fsm.New(store)
		if err != nil {
			fail("fsm.New: %v", err)
		}
		if err := sm.Load(ctx); err != nil {
			fail("Load on an empty store: %v", err)
		}
		rec := &verifC18sRecorder{sm: sm, max: first - 1, voters: map[uint64]bool{1: true}, learners: map[uint64]bool{}}
		judge := &verifC18sJudge{fail: fail, log: log, first: first, offerOf: offerOf, maxEntries: effEntries, maxBytes: effBytes, snapPos: snapPos, hasObs: true,
			markerMax: first - 1, confServed: map[uint64]raftpb.ConfState{}, causes: map[string]bool{}, recID: -1, hw: -1, awaitWant: map[uint64]fsm.ApplyResult{}, canonCache: map[[2]uint64]string{}}
		newSched := func(sm *fsm.StateMachine, live bool) *applyScheduler {
			var complete applyCompletion
			if live {
				complete = rec.complete
			}
			s := newApplyScheduler(cfg, &verifC18sApplier{rec: rec, sm: sm}, rec, complete)
			s.onTaskTransitions = rec.onTransitions
			if live {
				s.completeMembership = rec.completeMembership
				s.onApplied = rec.onApplied
			}
			return s
		}
		mkJob := func(jb verifC18sJob) (toApply, int) {
			var tj toApply
			confCount := 0
			for p := jb.lo; p <= jb.hi; p++ {
				tj.entries = append(tj.entries, log[p].ent)
				if log[p].kind == verifC18sConf {
					confCount++
				}
			}
			if jb.snapPos >= 0 {
				// what Service.compactLogAt stores and a lagging follower later receives
				st := log[jb.snapPos].st.Clone()
				idx := log[jb.snapPos].ent.Index
				if st.AppliedRaftIndex < idx && snapBumped {
					st.AppliedRaftIndex = idx
				} else if st.AppliedRaftIndex < idx {
					rawSnapshot = true
				}
				data, err := state.Encode(st)
				if err != nil {
					fail("state.Encode of the reference state: %v", err)
				}
				tj.snapshot = raftpb.Snapshot{Data: data, Metadata: raftpb.SnapshotMetadata{Index: idx, Term: log[jb.snapPos].ent.Term, ConfState: raftpb.ConfState{Voters: []uint64{1}}}}
			}
			if confCount > 0 {
				tj.confChangeC = make(chan confChangeRequest, confCount)
			}
			return tj, confCount
		}
		events := func() []verifC18sEvent {
			rec.mu.Lock()
			defer rec.mu.Unlock()
			return rec.events[:len(rec.events):len(rec.events)]
		}

		restarts, injected, injectedHit := 0, 0, 0
		if async {
			// ---- mode 2: through the goroutine, fed the way Service.run feeds it
			rec.sentinel, rec.sentinelC = log[n].ent.Index, make(chan struct{})
			sched := newSched(sm, true)
			sched.start(ctx)
			dead := false
			for _, jb := range jobs {
				tj, confCount := mkJob(jb)
				if err := sched.enqueue(ctx, tj); err != nil {
					dead = true
					break
				}
				for i := 0; i < confCount && !dead; i++ {
					select {
					case req := <-tj.confChangeC:
						rec.serve(req)
					case <-sched.done:
						dead = true
					}
				}
				if dead {
					break
				}
			}
			if !dead {
				select {
				case <-rec.sentinelC:
				case <-sched.done:
				}
			}
			stopErr := sched.stop() // joins the goroutine
			judge.scan(events())
			if !errors.Is(stopErr, ErrStopped) && !errors.Is(stopErr, context.Canceled) {
				fail("apply scheduler died: %v", stopErr)
			}
			judge.quiescent("queue drained", len(log))
		} else {
			// ---- mode 1: applyJob synchronously, with optional failures and restarts
			chaos := rapid.Bool().Draw(rt, "chaos")
			sched := newSched(sm, true)
			offeredHW := -1 // highest log position ever handed to the scheduler or replayed (committed and in the WAL)
			recoverFrom := func() int {
				// Service.recoverStartup: load the state file, replay committed entries after it without completions
				restarts++
				store.mu.Lock()
				store.failNext = false
				store.mu.Unlock()
				rec.mu.Lock()
				rec.markFailIn = 0
				rec.mu.Unlock()
				sm2, err := fsm.New(store)
				if err != nil {
					fail("fsm.New: %v", err)
				}
				if err := sm2.Load(ctx); err != nil {
					fail("Load after restart: %v", err)
				}
				snap := sm2.Snapshot(ctx)
				rec.mu.Lock()
				rec.sm = sm2
				replayFrom := rec.max + 1
				rec.mu.Unlock()
				if snap.Revision != 0 {
					replayFrom = snap.AppliedRaftIndex + 1
				}
				commit := offeredHW + rapid.IntRange(0, 3).Draw(rt, "committedNotYetApplied")
				if commit > n-1 {
					commit = n - 1
				}
				if snapPos >= 0 && !judge.snapDone && commit >= snapLo {
					// a follower that is going to need a snapshot does not have these entries
					commit = snapLo - 1
				}
				lo := int(replayFrom - first)
				if snapPos >= 0 && judge.snapDone && lo <= snapPos {
					fail("after restart the state file is at applied index %d, behind the installed snapshot %d", replayFrom-1, log[snapPos].ent.Index)
				}
				rec.mu.Lock()
				rec.add(verifC18sEvent{kind: "recover", lo: lo, hi: commit})
				rec.mu.Unlock()
				if lo <= commit {
					var entries []raftpb.Entry
					for p := lo; p <= commit; p++ {
						entries = append(entries, log[p].ent)
					}
					replayer := newSched(sm2, false)
					if err := replayer.applyEntries(ctx, entries, nil); err != nil {
						judge.scan(events())
						fail("startup replay of %d..%d failed: %v", log[lo].ent.Index, log[commit].ent.Index, err)
					}
				}
				rec.mu.Lock()
				next := int(rec.max + 1 - first) // RawNode restarts with Applied = store.AppliedIndex(): everything after it is delivered (again)
				rec.add(verifC18sEvent{kind: "endrecover", lo: next})
				rec.mu.Unlock()
				judge.scan(events())
				if lo <= commit {
					if next != commit+1 {
						fail("startup replay of %d..%d left the applied marker at %d", log[lo].ent.Index, log[commit].ent.Index, first+uint64(next)-1)
					}
					judge.quiescent("startup replay", next)
				}
				judge.expect(sm2.Snapshot(ctx), commit, "after startup replay")
				if commit > offeredHW {
					offeredHW = commit
				}
				sm = sm2
				sched = newSched(sm2, true)
				return next
			}
			cursor := 0 // next log position raft has to deliver
			runJob := func(jb verifC18sJob, id int, mayFail bool) {
				for p := jb.lo; p <= jb.hi; p++ {
					offerOf[p] = id
				}
				armed := false
				if mayFail && jb.hi >= jb.lo && rapid.IntRange(0, 5).Draw(rt, "inject") == 0 {
					armed = true
					injected++
					if rapid.Bool().Draw(rt, "injectSave") {
						store.mu.Lock()
						store.failNext = true
						store.mu.Unlock()
					} else {
						rec.mu.Lock()
						rec.markFailIn = rapid.IntRange(1, 3).Draw(rt, "injectMarkNth")
						rec.mu.Unlock()
					}
				}
				tj, confCount := mkJob(jb)
				var wg sync.WaitGroup
				quit := make(chan struct{})
				if confCount > 0 {
					wg.Add(1)
					go func() {
						defer wg.Done()
						for i := 0; i < confCount; i++ {
							select {
							case req := <-tj.confChangeC:
								rec.serve(req)
							case <-quit:
								return
							}
						}
					}()
				}
				jobErr := sched.applyJob(ctx, tj)
				close(quit)
				wg.Wait()
				store.mu.Lock()
				store.failNext = false
				store.mu.Unlock()
				rec.mu.Lock()
				rec.markFailIn = 0
				rec.mu.Unlock()
				judge.scan(events())
				end := jb.hi
				if jb.snapPos >= 0 {
					end = jb.snapPos
				}
				if end > offeredHW {
					offeredHW = end
				}
				if jobErr != nil {
					if !armed || !errors.Is(jobErr, errVerifC18sInjected) {
						fail("applyJob %+v failed: %v", jb, jobErr)
					}
					if !judge.failed {
						fail("applyJob returned the injected error but no ApplyBatch/MarkAppliedBatch call failed")
					}
					injectedHit++
					// the run loop stops the service; the next start recovers
					cursor = recoverFrom()
					return
				}
				judge.quiescent(fmt.Sprintf("applyJob %+v", jb), end+1)
				judge.expect(sm.Snapshot(ctx), end, fmt.Sprintf("after applyJob %+v", jb))
				cursor = end + 1
				if mayFail && rapid.IntRange(0, 7).Draw(rt, "restart") == 0 {
					cursor = recoverFrom()
				}
			}
			for ji, jb := range jobs {
				if jb.snapPos >= 0 {
					if cursor < snapLo {
						// entries the follower still has are delivered before it falls behind
						runJob(verifC18sJob{lo: cursor, hi: snapLo - 1, snapPos: -1}, 1000+ji, false)
					}
					if cursor != snapLo {
						fail("harness: snapshot job at position %d but the cursor is at %d", snapLo, cursor)
					}
					runJob(jb, ji, false)
					continue
				}
				if jb.hi >= jb.lo && jb.hi < cursor {
					continue // already applied by a startup replay
				}
				jb.lo = cursor // after a restart raft delivers from the persisted applied index
				if jb.hi < cursor-1 {
					jb.hi = cursor - 1
				}
				runJob(jb, ji, chaos)
			}
			for extra := 0; cursor < n; extra++ {
				runJob(verifC18sJob{lo: cursor, hi: n - 1, snapPos: -1}, 2000+extra, false)
			}
			judge.quiescent("all jobs", len(log))
		}

		// ---- final verdicts
		final := sm.Snapshot(ctx)
		judge.expect(final, len(log)-1, "final state")
		if final.Revision != 0 {
			persisted, err := store.Load(ctx)
			if err != nil {
				fail("state file cannot be loaded at the end: %v", err)
			}
			judge.expect(persisted, len(log)-1, "persisted final state")
		}
		if judge.markerMax != log[len(log)-1].ent.Index {
			fail("applied marker ends at %d, the committed log ends at %d", judge.markerMax, log[len(log)-1].ent.Index)
		}

		var parts []any
		parts = append(parts, async, cfg.MaxEntries, cfg.MaxBytes, fmt.Sprint(jobs), restarts, injectedHit)
		for _, e := range log {
			parts = append(parts, int(e.ent.Type), e.ent.Data)
		}
		k.Key(parts...)
		k.SetNonTrivial(judge.multiCmd >= 1 && judge.forced >= 1 && changedN >= 1 && (rejectedN >= 1 || noopN >= 1))
		for l := range labels {
			k.Label(l)
		}
		for l := range judge.causes {
			k.Label(l)
		}
		k.LabelIf(async, "mode: start/enqueue/stop through the goroutine")
		k.LabelIf(!async, "mode: applyJob synchronously")
		k.LabelIf(changedN > 0, "result: changed")
		k.LabelIf(updatedN > 0, "result: updated")
		k.LabelIf(noopN > 0, "result: noop")
		k.LabelIf(rejectedN > 0, "result: rejected")
		k.LabelIf(emptyN > 0, "log has empty normal entries")
		k.LabelIf(confN > 0, "log has conf changes")
		k.LabelIf(judge.snapDone, "snapshot job restored")
		k.LabelIf(judge.snapDone && rawSnapshot, "snapshot state carried an applied index below the snapshot index")
		k.LabelIf(restarts > 0, "restart + startup replay")
		k.LabelIf(judge.redelivered > 0, "applied entries delivered again after a restart (marker behind the state)")
		k.LabelIf(injectedHit > 0, "injected Save/MarkAppliedBatch failure hit")
		k.LabelIf(onDisk, "state machine on a real state file")
		k.LabelIf(cfg.MaxEntries == 0, "default MaxEntries")
		k.LabelIf(judge.multiCmd > 0, "ApplyBatch with >=2 commands")
		k.LabelIf(final.Revision == 0, "log never initialised the cluster")
		k.Sample(func() any {
			var tags []string
			for i, e := range log {
				if i >= 14 {
					tags = append(tags, "…")
					break
				}
				tags = append(tags, e.tag)
			}
			return fmt.Sprintf("async=%v entries=%d jobs=%d cfg={%d,%d} applyCalls=%d multi=%d forced=%d marks=%d completions=%d members=%d changed=%d noop=%d rejected=%d updated=%d restarts=%d injected=%d/%d log=%v",
				async, len(log), len(jobs), cfg.MaxEntries, cfg.MaxBytes, judge.applyCalls, judge.multiCmd, judge.forced, judge.marks, judge.completions, judge.members, changedN, noopN, rejectedN, updatedN, restarts, injectedHit, injected, tags)
		})
	})
}

// ---------------------------------------------------------------------------
// state-aware command generator (ported from the fsm harness of C18)
// ---------------------------------------------------------------------------

type verifC18sGen struct {
	rt      *rapid.T
	cur     state.ClusterState
	seq     int
	script  []string // forced, defect-free opening moves (reach the replica-move workflow quickly)
	last    []byte   // previous command, encoded (proposers retry: the same command may be committed twice)
	lastTag string
}

// scripted returns a clean command for one opening move.
func (g *verifC18sGen) scripted(step string) (cmd command.Command, tag string, ok bool) {
	cur := g.cur
	cmd.IssuedAt = g.issuedAt()
	switch step {
	case "init":
		if cur.Revision != 0 {
			return cmd, "", false
		}
		init := &command.InitClusterState{ClusterID: "wk-scripted", Config: state.ClusterConfig{SlotCount: 2, HashSlotCount: 16, ReplicaCount: uint16(rapid.IntRange(1, 3).Draw(g.rt, "scriptReplicas"))}}
		for i := uint64(1); i <= 5; i++ {
			n := state.Node{NodeID: i, Name: fmt.Sprintf("node-%d", i), Addr: fmt.Sprintf("n%d:7000", i), Roles: []state.NodeRole{state.NodeRoleData}, JoinState: state.NodeJoinStateActive, Status: state.NodeStatusAlive, CapacityWeight: 1}
			if i <= 2 {
				n.Roles = []state.NodeRole{state.NodeRoleControllerVoter, state.NodeRoleData}
				init.Controllers = append(init.Controllers, state.ControllerVoter{NodeID: i, Addr: n.Addr, Role: state.ControllerRoleVoter})
			}
			init.Nodes = append(init.Nodes, n)
		}
		cmd.Kind, cmd.Init = command.KindInitClusterState, init
		return cmd, "script/init", true
	case "bootstrap":
		pool := g.dataNodes(true)
		rc := int(cur.Config.ReplicaCount)
		if cur.Revision == 0 || len(pool) < rc || len(cur.Slots) > 0 {
			return cmd, "", false
		}
		peers := append([]uint64(nil), pool[:rc]...)
		a := &state.SlotAssignment{SlotID: 1, DesiredPeers: peers, ConfigEpoch: 1, PreferredLeader: peers[0]}
		t := &state.ReconcileTask{TaskID: "slot-1-bootstrap-1", SlotID: 1, Kind: state.TaskKindBootstrap, Step: state.TaskStepCreateSlot, TargetNode: peers[0], TargetPeers: verifC18sSorted(peers), ConfigEpoch: 1, Status: state.TaskStatusPending}
		cmd.Kind, cmd.Assignment, cmd.Task = command.KindUpsertSlotAssignmentAndTask, a, t
		return cmd, "script/bootstrap", true
	case "complete":
		if len(cur.Tasks) != 1 {
			return cmd, "", false
		}
		t := cur.Tasks[0]
		cmd.Kind = command.KindCompleteTask
		cmd.TaskResult = &command.TaskResult{TaskID: t.TaskID, SlotID: t.SlotID, TaskKind: t.Kind, ConfigEpoch: t.ConfigEpoch, Attempt: t.Attempt}
		return cmd, "script/complete", true
	case "move":
		if len(cur.Slots) == 0 || len(cur.Tasks) != 0 {
			return cmd, "", false
		}
		a := cur.Slots[0]
		src := a.DesiredPeers[g.pick("scriptSrc", len(a.DesiredPeers))]
		var dst uint64
		for _, id := range g.dataNodes(true) {
			if !verifC18sContains(a.DesiredPeers, id) {
				dst = id
			}
		}
		if dst == 0 {
			return cmd, "", false
		}
		tp := append([]uint64(nil), a.DesiredPeers...)
		for i := range tp {
			if tp[i] == src {
				tp[i] = dst
			}
		}
		t := state.ReconcileTask{TaskID: "slot-1-move-s", SlotID: a.SlotID, Kind: state.TaskKindSlotReplicaMove, Step: state.TaskStepOpenLearner, SourceNode: src, TargetNode: dst,
			TargetPeers: verifC18sSorted(tp), ConfigEpoch: a.ConfigEpoch, Status: state.TaskStatusPending, CompletionPolicy: state.TaskCompletionPolicySingleObserver}
		cmd.Kind, cmd.Task = command.KindUpsertSlotReplicaMoveTask, &t
		return cmd, "script/move", true
	}
	return cmd, "", false
}

func (g *verifC18sGen) pick(label string, n int) int { return rapid.IntRange(0, n-1).Draw(g.rt, label) }
func (g *verifC18sGen) chance(label string, oneIn int) bool {
	return rapid.IntRange(0, oneIn-1).Draw(g.rt, label) == 0
}

func (g *verifC18sGen) nodeIDs() []uint64 {
	var out []uint64
	for _, n := range g.cur.Nodes {
		out = append(out, n.NodeID)
	}
	return out
}

func (g *verifC18sGen) dataNodes(activeOnly bool) []uint64 {
	var out []uint64
	for _, n := range g.cur.Nodes {
		if !n.HasRole(state.NodeRoleData) {
			continue
		}
		if n.JoinState == state.NodeJoinStateActive || (!activeOnly && n.JoinState == state.NodeJoinStateLeaving) {
			out = append(out, n.NodeID)
		}
	}
	return out
}

func (g *verifC18sGen) someNodeID(label string) uint64 {
	ids := g.nodeIDs()
	if len(ids) == 0 || g.chance(label+"Unknown", 12) {
		return uint64(rapid.IntRange(0, 12).Draw(g.rt, label+"Any"))
	}
	return ids[g.pick(label, len(ids))]
}

func verifC18sSorted(in []uint64) []uint64 {
	out := append([]uint64(nil), in...)
	sort.Slice(out, func(i, j int) bool { return out[i] < out[j] })
	return out
}

func verifC18sContains(xs []uint64, x uint64) bool {
	for _, y := range xs {
		if y == x {
			return true
		}
	}
	return false
}

func (g *verifC18sGen) issuedAt() time.Time {
	if g.chance("zeroTime", 4) {
		return time.Time{}
	}
	sec := int64(rapid.IntRange(1_600_000_000, 1_900_000_000).Draw(g.rt, "issuedSec"))
	nsec := int64(rapid.SampledFrom([]int{0, 0, 1, 999_999_999, 123_456_789}).Draw(g.rt, "issuedNsec"))
	off := rapid.SampledFrom([]int{0, 0, 8 * 3600, -5 * 3600}).Draw(g.rt, "issuedTZ")
	return time.Unix(sec, nsec).In(time.FixedZone("", off))
}

func (g *verifC18sGen) node(id uint64) state.Node {
	roles := [][]state.NodeRole{
		{state.NodeRoleData, state.NodeRoleControllerVoter},
		{state.NodeRoleControllerVoter, state.NodeRoleData},
		{state.NodeRoleData},
		{state.NodeRoleControllerVoter},
	}[g.pick("roles", 4)]
	return state.Node{
		NodeID: id, Name: fmt.Sprintf("node-%d", id), Addr: fmt.Sprintf("n%d:7000", id), Roles: roles,
		JoinState:      rapid.SampledFrom([]state.NodeJoinState{state.NodeJoinStateActive, state.NodeJoinStateActive, state.NodeJoinStateActive, state.NodeJoinStateJoining}).Draw(g.rt, "join"),
		Status:         rapid.SampledFrom([]state.NodeStatus{state.NodeStatusAlive, state.NodeStatusAlive, state.NodeStatusSuspect}).Draw(g.rt, "status"),
		CapacityWeight: uint32(rapid.IntRange(0, 3).Draw(g.rt, "weight")),
	}
}

func (g *verifC18sGen) initCommand() (command.Command, string) {
	n := rapid.IntRange(1, 6).Draw(g.rt, "initNodes")
	init := &command.InitClusterState{ClusterID: rapid.SampledFrom([]string{"wk", "cluster-α", "c\"1"}).Draw(g.rt, "clusterID")}
	var data int
	for i := 1; i <= n; i++ {
		nd := g.node(uint64(i))
		if i == 1 {
			nd.Roles = []state.NodeRole{state.NodeRoleControllerVoter, state.NodeRoleData}
			nd.JoinState = state.NodeJoinStateActive
		}
		if nd.HasRole(state.NodeRoleData) && nd.JoinState == state.NodeJoinStateActive {
			data++
		}
		if nd.HasRole(state.NodeRoleControllerVoter) && nd.JoinState == state.NodeJoinStateActive && (i == 1 || rapid.Bool().Draw(g.rt, "voter")) {
			init.Controllers = append(init.Controllers, state.ControllerVoter{NodeID: nd.NodeID, Addr: nd.Addr, Role: state.ControllerRoleVoter})
		}
		init.Nodes = append(init.Nodes, nd)
	}
	h := rapid.SampledFrom([]int{4, 16, 256}).Draw(g.rt, "hashSlots")
	rc := rapid.IntRange(1, 3).Draw(g.rt, "replicas")
	if rc > data {
		rc = data
	}
	init.Config = state.ClusterConfig{SlotCount: uint32(rapid.IntRange(1, 4).Draw(g.rt, "slots")), HashSlotCount: uint16(h), ReplicaCount: uint16(rc),
		DefaultCapacityWeight: uint32(rapid.IntRange(0, 2).Draw(g.rt, "defWeight"))}
	tag := "init/valid"
	switch rapid.IntRange(0, 11).Draw(g.rt, "initDefect") {
	case 0:
		init.Config.SlotCount = uint32(h) + 1
		tag = "init/invalid"
	case 1:
		init.Controllers = nil
		tag = "init/invalid"
	case 2:
		init.Nodes = append(init.Nodes, init.Nodes[0])
		tag = "init/invalid"
	}
	cmd := command.Command{Kind: command.KindInitClusterState, IssuedAt: g.issuedAt(), Init: init}
	if g.chance("initNil", 15) {
		cmd.Init = nil
		tag = "init/nil"
	}
	return cmd, tag
}

func (g *verifC18sGen) taskResultFor(t state.ReconcileTask) (*command.TaskResult, string) {
	r := &command.TaskResult{TaskID: t.TaskID, SlotID: t.SlotID, TaskKind: t.Kind, ConfigEpoch: t.ConfigEpoch, Attempt: t.Attempt}
	tag := "valid"
	switch rapid.IntRange(0, 13).Draw(g.rt, "resultStale") {
	case 0:
		r.Attempt++
		tag = "stale_attempt"
	case 1:
		if r.Attempt > 0 {
			r.Attempt--
			tag = "stale_attempt"
		}
	case 2:
		r.ConfigEpoch++
		tag = "stale_epoch"
	case 3:
		r.TaskKind = state.TaskKindLeaderTransfer
		if t.Kind == state.TaskKindLeaderTransfer {
			r.TaskKind = state.TaskKindBootstrap
		}
		tag = "wrong_kind"
	case 4:
		r.SlotID = t.SlotID%4 + 1
		tag = "wrong_slot"
	case 5:
		r.SlotID = 0
		tag = "invalid"
	case 6:
		r.TaskID = t.TaskID + "-gone"
		tag = "missing_task"
	}
	return r, tag
}

// next draws one command for the current state; tag describes the intent.
func (g *verifC18sGen) next() (cmd command.Command, tag string) {
	g.seq++
	cur := g.cur
	for len(g.script) > 0 {
		step := g.script[0]
		g.script = g.script[1:]
		if c, t, ok := g.scripted(step); ok {
			return c, t
		}
	}
	if g.last != nil && g.chance("retryPrevious", 8) {
		if c, err := command.Decode(g.last); err == nil {
			if c.ExpectedRevision != nil && rapid.Bool().Draw(g.rt, "retryDropsGuard") {
				c.ExpectedRevision = nil
			}
			return c, "retry:" + g.lastTag
		}
	}
	if cur.Revision == 0 {
		if !g.chance("preInitOther", 5) {
			return g.initCommand()
		}
	}
	defer func() {
		cmd.IssuedAt = g.issuedAt()
		if cmd.Kind == command.KindInitClusterState {
			return
		}
		switch rapid.IntRange(0, 9).Draw(g.rt, "expRev") {
		case 0, 1, 2, 3:
		case 4, 5, 6:
			v := cur.Revision
			cmd.ExpectedRevision = &v
		case 7:
			v := cur.Revision + 1
			cmd.ExpectedRevision = &v
			tag += "+exprev_ahead"
		case 8:
			v := cur.Revision - 1
			if cur.Revision == 0 {
				v = 3
			}
			cmd.ExpectedRevision = &v
			tag += "+exprev_behind"
		default:
			v := uint64(0)
			if cur.Revision == 0 {
				v = 1
			}
			cmd.ExpectedRevision = &v
			tag += "+exprev_zero"
		}
	}()

	var moveTasks, bootTasks, anyTasks []state.ReconcileTask
	taskSlots := map[uint32]bool{}
	for _, t := range cur.Tasks {
		anyTasks = append(anyTasks, t)
		taskSlots[t.SlotID] = true
		switch t.Kind {
		case state.TaskKindSlotReplicaMove:
			moveTasks = append(moveTasks, t)
		case state.TaskKindBootstrap:
			bootTasks = append(bootTasks, t)
		}
	}
	assigned := map[uint32]state.SlotAssignment{}
	for _, a := range cur.Slots {
		assigned[a.SlotID] = a
	}

	// commands that can make progress in the current state are preferred, so
	// that histories reach the deep task workflows; the rest of the time any
	// kind is drawn (missing tasks, pre-init, unknown kinds ...).
	kinds := []string{"node", "node", "voters", "promote", "health", "health", "hashslots", "backup", "mcp"}
	freeSlot, idleSlot, spareNode := false, false, false
	for s := uint32(1); s <= cur.Config.SlotCount; s++ {
		a, ok := assigned[s]
		if !ok {
			freeSlot = true
		} else if !taskSlots[s] {
			idleSlot = true
			for _, id := range g.dataNodes(true) {
				if !verifC18sContains(a.DesiredPeers, id) {
					spareNode = true
				}
			}
		}
	}
	if freeSlot && len(g.dataNodes(false)) >= int(cur.Config.ReplicaCount) {
		kinds = append(kinds, "bootstrap", "bootstrap", "bootstrap")
	}
	if idleSlot && cur.Config.ReplicaCount >= 2 {
		kinds = append(kinds, "leader", "leader")
	}
	if idleSlot && spareNode {
		kinds = append(kinds, "move", "move", "move", "move")
	}
	for _, m := range moveTasks {
		if m.Step == state.TaskStepCommitAssignment {
			kinds = append(kinds, "commit", "commit", "commit", "commit", "commit", "commit", "advance")
		} else {
			kinds = append(kinds, "advance", "advance", "advance", "advance", "advance", "advance", "advance", "advance", "commit")
		}
	}
	if len(anyTasks) > 0 {
		kinds = append(kinds, "complete", "complete", "fail")
	}
	if len(bootTasks) > 0 {
		kinds = append(kinds, "progress", "progress", "progress")
	}
	if cur.Revision == 0 || g.chance("anyKind", 5) {
		kinds = []string{"node", "voters", "promote", "bootstrap", "leader", "move", "advance", "commit", "complete", "fail", "progress", "health", "hashslots", "backup", "mcp", "reinit", "reinit", "unknown"}
	}
	switch kinds[g.pick("kind", len(kinds))] {
	case "node":
		cmd.Kind = command.KindUpsertNode
		ids := g.nodeIDs()
		switch v := rapid.IntRange(0, 9).Draw(g.rt, "nodeVariant"); {
		case v <= 2 || len(ids) == 0:
			id := uint64(len(ids) + 1)
			if g.chance("nodeWildID", 6) {
				id = uint64(rapid.IntRange(7, 40).Draw(g.rt, "nodeIDBig"))
			}
			n := g.node(id)
			cmd.Node, tag = &n, "upsert_node/new"
		case v <= 6:
			n := cur.Nodes[g.pick("nodeIdx", len(cur.Nodes))]
			n.Roles = append([]state.NodeRole(nil), n.Roles...)
			switch rapid.IntRange(0, 5).Draw(g.rt, "nodeField") {
			case 0:
				n.Status = rapid.SampledFrom([]state.NodeStatus{state.NodeStatusAlive, state.NodeStatusSuspect, state.NodeStatusDown}).Draw(g.rt, "st")
			case 1:
				n.CapacityWeight = uint32(rapid.IntRange(0, 5).Draw(g.rt, "w"))
			case 2:
				n.JoinState = rapid.SampledFrom([]state.NodeJoinState{state.NodeJoinStateActive, state.NodeJoinStateJoining, state.NodeJoinStateLeaving, state.NodeJoinStateRemoved}).Draw(g.rt, "js")
			case 3:
				n.Roles = g.node(n.NodeID).Roles
			case 4:
				n.Addr = fmt.Sprintf("n%d:%d", n.NodeID, 7000+g.pick("port", 3))
			default:
				n.Name = fmt.Sprintf("renamed-%d", g.seq)
			}
			cmd.Node, tag = &n, "upsert_node/modify"
		case v == 7:
			n := cur.Nodes[g.pick("nodeIdx", len(cur.Nodes))]
			n.Roles = append([]state.NodeRole(nil), n.Roles...)
			if len(n.Roles) == 2 {
				n.Roles[0], n.Roles[1] = n.Roles[1], n.Roles[0]
			}
			cmd.Node, tag = &n, "upsert_node/same"
		default:
			n := g.node(uint64(len(ids) + 1))
			switch rapid.IntRange(0, 4).Draw(g.rt, "nodeDefect") {
			case 0:
				cmd.Node, tag = nil, "upsert_node/nil"
				return
			case 1:
				n.NodeID = 0
			case 2:
				n.Addr = ""
			case 3:
				n.JoinState = "bogus"
			default:
				n.Roles = []state.NodeRole{state.NodeRoleData, state.NodeRoleData}
			}
			cmd.Node, tag = &n, "upsert_node/invalid"
		}
	case "voters":
		cmd.Kind = command.KindUpdateControllerVoters
		tag = "update_voters"
		for _, n := range cur.Nodes {
			if rapid.Bool().Draw(g.rt, "inVoters") {
				cmd.Controllers = append(cmd.Controllers, state.ControllerVoter{NodeID: n.NodeID, Addr: n.Addr, Role: state.ControllerRoleVoter})
			}
		}
		if len(cmd.Controllers) > 1 {
			cmd.Controllers = rapid.Permutation(cmd.Controllers).Draw(g.rt, "voterOrder")
		}
		if g.chance("votersDefect", 8) && len(cmd.Controllers) > 0 {
			cmd.Controllers = append(cmd.Controllers, cmd.Controllers[0])
			tag = "update_voters/invalid"
		}
	case "promote":
		cmd.Kind = command.KindPromoteControllerVoter
		tag = "promote_voter"
		target := g.someNodeID("promoteTarget")
		p := &command.ControllerVoterPromotion{TargetNodeID: target, TargetAddr: fmt.Sprintf("n%d:7000", target), ObservedConfigIndex: uint64(rapid.IntRange(0, 50).Draw(g.rt, "cfgIdx"))}
		for _, n := range cur.Nodes {
			if n.NodeID == target {
				p.TargetAddr = n.Addr
			}
		}
		curVoters := verifC18sVoterIDs(cur.Controllers)
		p.ObservedVoters = append([]uint64(nil), curVoters...)
		if !verifC18sContains(curVoters, target) {
			p.ObservedVoters = append(p.ObservedVoters, target)
		}
		switch rapid.IntRange(0, 5).Draw(g.rt, "prevVoters") {
		case 0, 1:
			p.ExpectedPreviousVoters = append([]uint64{}, curVoters...)
		case 2:
			p.ExpectedPreviousVoters = append([]uint64{99}, curVoters...)
			tag = "promote_voter/stale_set"
		}
		if g.chance("promoteNoProof", 8) {
			p.ObservedVoters = curVoters
			tag = "promote_voter/no_proof"
		}
		cmd.ControllerVoterPromotion = p
	case "bootstrap":
		cmd.Kind = command.KindUpsertSlotAssignmentAndTask
		slot := uint32(rapid.IntRange(1, int(cur.Config.SlotCount)+1).Draw(g.rt, "slot"))
		if cur.Config.SlotCount == 0 {
			slot = 1
		}
		// prefer a slot that is not assigned yet
		for s := uint32(1); s <= cur.Config.SlotCount; s++ {
			if _, ok := assigned[s]; !ok && rapid.Bool().Draw(g.rt, "preferFree") {
				slot = s
				break
			}
		}
		pool := g.dataNodes(false)
		rc := int(cur.Config.ReplicaCount)
		if g.chance("wrongReplicaCount", 10) {
			rc++
		}
		var peers []uint64
		if len(pool) > 0 {
			perm := rapid.Permutation(pool).Draw(g.rt, "peers")
			if rc > len(perm) {
				rc = len(perm)
			}
			peers = append(peers, perm[:rc]...)
		}
		epoch := uint64(rapid.IntRange(1, 3).Draw(g.rt, "epoch"))
		a := &state.SlotAssignment{SlotID: slot, DesiredPeers: peers, ConfigEpoch: epoch}
		if len(peers) > 0 && !g.chance("noLeader", 4) {
			a.PreferredLeader = peers[g.pick("leader", len(peers))]
		}
		t := &state.ReconcileTask{TaskID: fmt.Sprintf("slot-%d-bootstrap-%d", slot, epoch), SlotID: slot, Kind: state.TaskKindBootstrap, Step: state.TaskStepCreateSlot,
			TargetNode: a.PreferredLeader, TargetPeers: verifC18sSorted(peers), ConfigEpoch: epoch, Status: state.TaskStatusPending}
		if rapid.Bool().Draw(g.rt, "explicitPolicy") {
			t.CompletionPolicy = state.TaskCompletionPolicyAllTargetPeers
		}
		tag = "bootstrap"
		if _, ok := assigned[slot]; ok {
			tag = "bootstrap/slot_already_assigned"
		}
		switch rapid.IntRange(0, 14).Draw(g.rt, "bootDefect") {
		case 0:
			t.SlotID = slot + 1
			tag = "bootstrap/slot_mismatch"
		case 1:
			cmd.Assignment = a
			tag = "bootstrap/nil_task"
			return
		case 2:
			t.ConfigEpoch++
			tag = "bootstrap/epoch_mismatch"
		}
		cmd.Assignment, cmd.Task = a, t
	case "leader":
		cmd.Kind = command.KindUpsertSlotAssignmentAndTask
		tag = "leader_transfer"
		var cands []state.SlotAssignment
		for _, a := range cur.Slots {
			if len(a.DesiredPeers) >= 2 && (!taskSlots[a.SlotID] || g.chance("leaderBusy", 6)) {
				cands = append(cands, a)
			}
		}
		if len(cands) == 0 {
			tag = "leader_transfer/nothing"
			a := state.SlotAssignment{SlotID: 1, DesiredPeers: []uint64{1}, ConfigEpoch: 1, PreferredLeader: 1}
			t := state.ReconcileTask{TaskID: "slot-1-leader-x", SlotID: 1, Kind: state.TaskKindLeaderTransfer, Step: state.TaskStepTransferLeader, SourceNode: 1, TargetNode: 2, TargetPeers: []uint64{1}, ConfigEpoch: 1, Status: state.TaskStatusPending}
			cmd.Assignment, cmd.Task = &a, &t
			return
		}
		a := cands[g.pick("ltSlot", len(cands))]
		a.DesiredPeers = append([]uint64(nil), a.DesiredPeers...)
		src := a.DesiredPeers[0]
		if a.PreferredLeader != 0 {
			src = a.PreferredLeader
		}
		var dst uint64
		for _, p := range a.DesiredPeers {
			if p != src {
				dst = p
			}
		}
		a.PreferredLeader = dst
		t := state.ReconcileTask{TaskID: fmt.Sprintf("slot-%d-leader-%d", a.SlotID, g.seq), SlotID: a.SlotID, Kind: state.TaskKindLeaderTransfer, Step: state.TaskStepTransferLeader,
			SourceNode: src, TargetNode: dst, TargetPeers: verifC18sSorted(a.DesiredPeers), ConfigEpoch: a.ConfigEpoch, Status: state.TaskStatusPending}
		cmd.Assignment, cmd.Task = &a, &t
	case "move":
		cmd.Kind = command.KindUpsertSlotReplicaMoveTask
		tag = "move_task"
		var cands []state.SlotAssignment
		for _, a := range cur.Slots {
			if !taskSlots[a.SlotID] || g.chance("moveBusy", 8) {
				cands = append(cands, a)
			}
		}
		if len(cands) == 0 || g.chance("moveNil", 15) {
			tag = "move_task/nil"
			return
		}
		a := cands[g.pick("mvSlot", len(cands))]
		src := a.DesiredPeers[g.pick("mvSrc", len(a.DesiredPeers))]
		var dst uint64
		for _, id := range g.dataNodes(true) {
			if !verifC18sContains(a.DesiredPeers, id) {
				dst = id
			}
		}
		if dst == 0 {
			dst = src + 100
			tag = "move_task/no_target"
		}
		tp := append([]uint64(nil), a.DesiredPeers...)
		for i := range tp {
			if tp[i] == src {
				tp[i] = dst
			}
		}
		t := state.ReconcileTask{TaskID: fmt.Sprintf("slot-%d-move-%d", a.SlotID, g.seq), SlotID: a.SlotID, Kind: state.TaskKindSlotReplicaMove, Step: state.TaskStepOpenLearner,
			SourceNode: src, TargetNode: dst, TargetPeers: verifC18sSorted(tp), ConfigEpoch: a.ConfigEpoch, Status: state.TaskStatusPending}
		if rapid.Bool().Draw(g.rt, "explicitPolicy") {
			t.CompletionPolicy = state.TaskCompletionPolicySingleObserver
		}
		if g.chance("moveWrongKind", 12) {
			t.Kind = state.TaskKindBootstrap
			tag = "move_task/wrong_kind"
		}
		cmd.Task = &t
	case "advance":
		cmd.Kind = command.KindAdvanceSlotReplicaMovePhase
		tag = "advance"
		if len(moveTasks) == 0 {
			cmd.SlotReplicaMovePhase = &command.SlotReplicaMovePhaseAdvance{TaskID: "slot-1-move-none", SlotID: 1, ConfigEpoch: 1, NextStep: state.TaskStepAddLearner}
			tag = "advance/missing_task"
			if g.chance("advanceNil", 4) {
				cmd.SlotReplicaMovePhase = nil
				tag = "advance/nil"
			}
			return
		}
		t := moveTasks[g.pick("advTask", len(moveTasks))]
		for _, m := range moveTasks {
			if m.Step != state.TaskStepCommitAssignment && !g.chance("advAtCommit", 8) {
				t = m
			}
		}
		p := &command.SlotReplicaMovePhaseAdvance{TaskID: t.TaskID, SlotID: t.SlotID, ConfigEpoch: t.ConfigEpoch, Attempt: t.Attempt, ExpectedPhaseIndex: t.PhaseIndex,
			ObservedConfigIndex: uint64(rapid.IntRange(1, 1000).Draw(g.rt, "obsIdx"))}
		srcPeers := append([]uint64(nil), t.TargetPeers...)
		for i := range srcPeers {
			if srcPeers[i] == t.TargetNode {
				srcPeers[i] = t.SourceNode
			}
		}
		both := append(append([]uint64(nil), srcPeers...), t.TargetNode)
		switch t.Step {
		case state.TaskStepOpenLearner:
			p.NextStep = state.TaskStepAddLearner
		case state.TaskStepAddLearner:
			if rapid.Bool().Draw(g.rt, "viaPromote") {
				p.NextStep, p.ObservedVoters, p.ObservedLearners = state.TaskStepPromoteLearner, srcPeers, []uint64{t.TargetNode}
			} else {
				p.NextStep, p.ObservedVoters = state.TaskStepRemoveVoter, both
			}
		case state.TaskStepPromoteLearner:
			p.NextStep, p.ObservedVoters = state.TaskStepRemoveVoter, both
		case state.TaskStepRemoveVoter:
			if rapid.IntRange(0, 3).Draw(g.rt, "stayRemove") == 0 {
				p.NextStep, p.ObservedVoters = state.TaskStepRemoveVoter, both
			} else {
				p.NextStep, p.ObservedVoters = state.TaskStepCommitAssignment, append([]uint64(nil), t.TargetPeers...)
			}
		default:
			p.NextStep = state.TaskStepCommitAssignment
			tag = "advance/already_at_commit"
		}
		switch rapid.IntRange(0, 23).Draw(g.rt, "advStale") {
		case 0:
			p.Attempt++
			tag = "advance/stale_attempt"
		case 1:
			p.ConfigEpoch++
			tag = "advance/stale_epoch"
		case 2:
			p.ExpectedPhaseIndex++
			tag = "advance/stale_phase"
		case 3:
			if p.ExpectedPhaseIndex > 0 {
				p.ExpectedPhaseIndex--
				tag = "advance/stale_phase"
			}
		case 4:
			p.SlotID = t.SlotID%4 + 1
			tag = "advance/wrong_slot"
		case 5:
			p.ObservedConfigIndex = 0
			tag = "advance/no_config_index"
		case 6:
			p.ObservedVoters = []uint64{77}
			tag = "advance/wrong_voters"
		case 7:
			p.NextStep = state.TaskStepOpenLearner
			tag = "advance/wrong_step"
		}
		cmd.SlotReplicaMovePhase = p
	case "commit":
		cmd.Kind = command.KindCommitSlotReplicaMove
		tag = "commit"
		if len(moveTasks) == 0 {
			cmd.SlotReplicaMoveCommit = &command.SlotReplicaMoveCommit{TaskID: "slot-1-move-none", SlotID: 1, ConfigEpoch: 1, ObservedConfigIndex: 1}
			tag = "commit/missing_task"
			return
		}
		// prefer a task that is ready to commit
		t := moveTasks[g.pick("cmTask", len(moveTasks))]
		for _, m := range moveTasks {
			if m.Step == state.TaskStepCommitAssignment {
				t = m
			}
		}
		c := &command.SlotReplicaMoveCommit{TaskID: t.TaskID, SlotID: t.SlotID, ConfigEpoch: t.ConfigEpoch, Attempt: t.Attempt,
			ObservedConfigIndex: uint64(rapid.IntRange(1, 1000).Draw(g.rt, "obsIdx")), ObservedVoters: append([]uint64(nil), t.TargetPeers...)}
		if t.Step != state.TaskStepCommitAssignment {
			tag = "commit/too_early"
		}
		switch rapid.IntRange(0, 11).Draw(g.rt, "cmStale") {
		case 0:
			c.Attempt++
			tag = "commit/stale_attempt"
		case 1:
			c.ConfigEpoch++
			tag = "commit/stale_epoch"
		case 2:
			c.ObservedVoters = []uint64{77}
			tag = "commit/wrong_voters"
		case 3:
			c.ObservedConfigIndex = 0
			tag = "commit/no_config_index"
		}
		cmd.SlotReplicaMoveCommit = c
	case "complete", "fail":
		cmd.Kind = command.KindCompleteTask
		tag = "complete"
		if rapid.IntRange(0, 3).Draw(g.rt, "failInstead") == 0 {
			cmd.Kind = command.KindFailTask
			tag = "fail"
		}
		// a staged replica move is finished by commit, not by complete: keep those alive mostly
		if len(moveTasks) > 0 && len(anyTasks) > len(moveTasks) && !g.chance("completeMove", 4) {
			anyTasks = anyTasks[:0]
			for _, t := range cur.Tasks {
				if t.Kind != state.TaskKindSlotReplicaMove {
					anyTasks = append(anyTasks, t)
				}
			}
		}
		if len(anyTasks) == 0 {
			cmd.TaskResult = &command.TaskResult{TaskID: "slot-9-none", SlotID: 1, TaskKind: state.TaskKindBootstrap, ConfigEpoch: 1}
			tag += "/missing_task"
			if g.chance("resultNil", 4) {
				cmd.TaskResult = nil
				tag += "/nil"
			}
			return
		}
		r, v := g.taskResultFor(anyTasks[g.pick("task", len(anyTasks))])
		if cmd.Kind == command.KindFailTask {
			r.Err = rapid.SampledFrom([]string{"", "boom", strings.Repeat("é", 600), strings.Repeat("x", 1023) + "频道"}).Draw(g.rt, "err")
		}
		cmd.TaskResult = r
		tag += "/" + v
	case "progress":
		cmd.Kind = command.KindReportTaskProgress
		tag = "progress"
		if len(anyTasks) == 0 {
			cmd.TaskProgress = &command.TaskProgress{TaskID: "slot-9-none", SlotID: 1, TaskKind: state.TaskKindBootstrap, ConfigEpoch: 1, ParticipantNodeID: 1, Status: state.TaskParticipantStatusDone}
			tag = "progress/missing_task"
			return
		}
		t := anyTasks[g.pick("task", len(anyTasks))]
		if len(bootTasks) > 0 && !g.chance("progressAnyTask", 5) {
			t = bootTasks[g.pick("bootTask", len(bootTasks))]
		}
		p := &command.TaskProgress{TaskID: t.TaskID, SlotID: t.SlotID, TaskKind: t.Kind, ConfigEpoch: t.ConfigEpoch, TaskAttempt: t.Attempt,
			Status: rapid.SampledFrom([]state.TaskParticipantStatus{state.TaskParticipantStatusDone, state.TaskParticipantStatusDone, state.TaskParticipantStatusFailed, state.TaskParticipantStatusPending}).Draw(g.rt, "pStatus")}
		if len(t.ParticipantProgress) > 0 {
			pp := t.ParticipantProgress[g.pick("participant", len(t.ParticipantProgress))]
			p.ParticipantNodeID, p.ParticipantAttempt = pp.NodeID, pp.Attempt
		} else {
			p.ParticipantNodeID = g.someNodeID("participantAny")
			tag = "progress/no_participants"
		}
		if p.Status == state.TaskParticipantStatusFailed {
			p.Err = rapid.SampledFrom([]string{"disk", strings.Repeat("道", 400)}).Draw(g.rt, "pErr")
		}
		switch rapid.IntRange(0, 13).Draw(g.rt, "pStale") {
		case 0:
			p.TaskAttempt++
			tag = "progress/stale_attempt"
		case 1:
			p.ConfigEpoch++
			tag = "progress/stale_epoch"
		case 2:
			if p.ParticipantAttempt > 0 {
				p.ParticipantAttempt--
				tag = "progress/stale_participant_attempt"
			}
		case 3:
			p.ParticipantNodeID = 97
			tag = "progress/unexpected_participant"
		case 4:
			p.Status = "bogus"
			tag = "progress/invalid"
		case 5:
			p.ParticipantAttempt += 2
			tag = "progress/future_participant_attempt"
		}
		cmd.TaskProgress = p
	case "health":
		cmd.Kind = command.KindReportNodeHealth
		tag = "health"
		h := &state.NodeHealthReport{NodeID: g.someNodeID("healthNode"),
			Status:                  rapid.SampledFrom([]state.NodeStatus{state.NodeStatusAlive, state.NodeStatusAlive, state.NodeStatusSuspect, state.NodeStatusDown}).Draw(g.rt, "hStatus"),
			RuntimeReady:            rapid.Bool().Draw(g.rt, "ready"),
			ObservedControlRevision: cur.Revision, ReportSeq: uint64(rapid.IntRange(0, 3).Draw(g.rt, "hSeq")),
			ReportedAtUnixMilli: int64(rapid.IntRange(0, 2).Draw(g.rt, "hAt")) * 1000}
		switch rapid.IntRange(0, 11).Draw(g.rt, "hDefect") {
		case 0:
			h.Status = "bogus"
			tag = "health/invalid"
		case 1:
			h.ErrorCode = strings.Repeat("e", 129)
			tag = "health/invalid"
		case 2:
			cmd.NodeHealth = nil
			tag = "health/nil"
			return
		case 3:
			// repeat the stored report: nothing to update
			for _, r := range cur.NodeHealthReports {
				if r.NodeID == h.NodeID {
					c := r
					c.AppliedRaftIndex = 0
					h = &c
					tag = "health/same"
				}
			}
		}
		cmd.NodeHealth = h
	case "hashslots":
		cmd.Kind = command.KindReplaceHashSlotTable
		tag = "hashslots"
		hcount := int(cur.Config.HashSlotCount)
		if hcount == 0 {
			hcount = 4
		}
		sc := int(cur.Config.SlotCount)
		if sc == 0 {
			sc = 1
		}
		tbl := &state.HashSlotTable{Version: state.CurrentHashSlotTableVersion, SlotCount: uint16(hcount)}
		from := 0
		for x := 1; x <= hcount; x++ {
			if x == hcount || rapid.IntRange(0, hcount/3+1).Draw(g.rt, "cut") == 0 {
				tbl.Ranges = append(tbl.Ranges, state.HashSlotRange{From: uint16(from), To: uint16(x - 1), SlotID: uint32(rapid.IntRange(1, sc).Draw(g.rt, "owner"))})
				from = x
			}
		}
		if len(tbl.Ranges) > 1 && rapid.Bool().Draw(g.rt, "shuffleRanges") {
			tbl.Ranges = rapid.Permutation(tbl.Ranges).Draw(g.rt, "rangeOrder")
		}
		switch rapid.IntRange(0, 9).Draw(g.rt, "hsDefect") {
		case 0:
			tbl.Ranges[0].SlotID = uint32(sc) + 1
			tag = "hashslots/invalid"
		case 1:
			tbl.Ranges = tbl.Ranges[1:]
			tag = "hashslots/invalid"
		case 2:
			cmd.HashSlots = nil
			tag = "hashslots/nil"
			return
		case 3:
			c := cur.HashSlots
			c.Ranges = append([]state.HashSlotRange(nil), c.Ranges...)
			tbl = &c
			tag = "hashslots/same"
		}
		cmd.HashSlots = tbl
	case "backup":
		cmd.Kind = command.KindReplaceScheduledBackupState
		tag = "backup"
		rev := uint64(1)
		if cur.ScheduledBackup != nil {
			rev = cur.ScheduledBackup.Revision + uint64(rapid.IntRange(0, 1).Draw(g.rt, "bRevStep"))
		}
		created := int64(1_700_000_000_000)
		b := &state.ScheduledBackupState{Revision: rev, ManagerSessionEpoch: uint64(rapid.IntRange(0, 3).Draw(g.rt, "mgrEpoch")),
			Plan: &state.BackupPlan{Revision: rev, Enabled: rapid.Bool().Draw(g.rt, "planEnabled"), Store: state.BackupStoreConfig{Kind: state.BackupStoreKindFile},
				Cron: "0 3 * * *", TimeZone: "UTC", RetentionCount: rapid.IntRange(1, 5).Draw(g.rt, "retention"), RateBytesPerSec: 1 << 20, WorkersPerNode: 1,
				MaxDurationMillis: 2 * 60 * 60 * 1000, ScheduleCursorUnixMillis: created, CreatedUnixMillis: created, UpdatedUnixMillis: created}}
		if rapid.Bool().Draw(g.rt, "s3") {
			b.Plan.Store = state.BackupStoreConfig{Kind: state.BackupStoreKindS3, Endpoint: "http://s3:9000", Bucket: "wk", Prefix: "p", PathStyle: true,
				CredentialCiphertext: []byte(rapid.SampledFrom([]string{"", "secret", "\x00\xff"}).Draw(g.rt, "cred"))}
		}
		if rapid.Bool().Draw(g.rt, "history") {
			b.History = []state.BackupTaskRecord{{ID: "b1", Kind: "backup", Status: "succeeded", StartedUnixMillis: created, CompletedUnixMillis: created + 5}}
		}
		switch rapid.IntRange(0, 9).Draw(g.rt, "bDefect") {
		case 0:
			b.Revision = 0
			tag = "backup/invalid"
		case 1:
			b.Plan.WorkersPerNode = 9
			tag = "backup/invalid"
		case 2:
			cmd.ScheduledBackup = nil
			tag = "backup/nil"
			return
		case 3:
			// an active backup job is only valid while no Controller task exists
			job := &state.ScheduledBackupJob{ID: "job-1", Trigger: state.BackupTriggerManual, Status: state.BackupJobStatusExporting, PlanRevision: rev,
				StartedAtUnixMillis: created, DeadlineUnixMillis: created + 1000, UpdatedUnixMillis: created}
			for i := 0; i < state.BackupHashSlotCount; i++ {
				job.Slots = append(job.Slots, state.BackupSlotProgress{HashSlot: uint16(i), Status: state.BackupSlotStatusPending})
			}
			b.ActiveBackup = job
			tag = "backup/active_job"
		}
		cmd.ScheduledBackup = b
	case "mcp":
		cmd.Kind = command.KindReplaceOpsMCPState
		tag = "mcp"
		m := &state.OpsMCPState{}
		for i, n := 0, rapid.IntRange(0, 3).Draw(g.rt, "nCred"); i < n; i++ {
			m.Credentials = append(m.Credentials, state.OpsMCPCredential{ID: fmt.Sprintf("tok-%d", (i+g.pick("credShift", 2))%4), DigestSHA256: strings.Repeat(string(rune('a'+i)), 64), CreatedAtUnixMillis: 1_710_000_000_000 + int64(i)})
		}
		if rapid.Bool().Draw(g.rt, "mcpEnabled") {
			m.Enabled = true
		}
		if rapid.IntRange(0, 3).Draw(g.rt, "mcpOwner") != 0 {
			m.OwnerNodeID = g.someNodeID("mcpOwnerNode")
		}
		if g.chance("mcpNil", 12) {
			tag = "mcp/nil"
			return
		}
		cmd.OpsMCP = m
	case "reinit":
		c, t := g.initCommand()
		if cur.Revision != 0 && rapid.Bool().Draw(g.rt, "equivalentInit") {
			// the same init again (e.g. a retried bootstrap proposal)
			c.Init = &command.InitClusterState{ClusterID: cur.ClusterID, Config: cur.Config, Controllers: cur.Controllers, Nodes: cur.Nodes}
			t = "init/repeat"
		}
		return c, "re" + t
	default:
		cmd.Kind = command.Kind("verif_unknown_kind")
		tag = "unknown_kind"
	}
	return cmd, tag
}
