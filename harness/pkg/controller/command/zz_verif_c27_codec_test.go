package command

import (
	"bytes"
	"encoding/json"
	"errors"
	"fmt"
	"reflect"
	"runtime"
	"sync"
	"testing"
	"time"

	"github.com/WuKongIM/WuKongIM/pkg/controller/state"
	"pgregory.net/rapid"
	"verif.local/kit"
)

var verifC27Once sync.Once

func verifC27Flag(codec, what string) {
	verifC27Once.Do(func() { fmt.Printf("VERIF-VIOLATION C27 %s: %s\n", codec, what) })
}

func verifC27Trunc(b []byte) []byte {
	if len(b) > 160 {
		return b[:160]
	}
	return b
}

// verifC27Decode runs Decode under a panic guard and an allocation bound. JSON
// has no declared element bounds, so the bound is a generous linear one.
func verifC27Decode(rt *rapid.T, what string, in []byte) (cmd Command, err error) {
	bound := uint64(1<<20) + 2048*uint64(len(in))
	var before, after runtime.MemStats
	runtime.ReadMemStats(&before)
	func() {
		defer func() {
			if r := recover(); r != nil {
				verifC27Flag("controller/command.Decode", "decoder panicked")
				rt.Fatalf("VERIF-VIOLATION controller/command.Decode(%s) panicked on %q: %v", what, verifC27Trunc(in), r)
			}
		}()
		cmd, err = Decode(in)
	}()
	runtime.ReadMemStats(&after)
	if d := after.TotalAlloc - before.TotalAlloc; d > bound {
		verifC27Flag("controller/command.Decode", "allocation beyond bound")
		rt.Fatalf("VERIF-VIOLATION controller/command.Decode(%s) of %d bytes allocated %d (bound %d)", what, len(in), d, bound)
	}
	return cmd, err
}

func verifC27Cuts(n int) []int {
	var cuts []int
	if n <= 200 {
		for c := 0; c < n; c++ {
			cuts = append(cuts, c)
		}
		return cuts
	}
	for c := 0; c < 40; c++ {
		cuts = append(cuts, c)
	}
	step := (n - 80) / 80
	if step < 1 {
		step = 1
	}
	for c := 40; c < n-40; c += step {
		cuts = append(cuts, c)
	}
	for c := n - 40; c < n; c++ {
		cuts = append(cuts, c)
	}
	return cuts
}

// verifC27Normalize maps a value to the representative of its codec-equality
// class: encoding/json does not distinguish nil from empty slices under
// omitempty and carries instants, not Location pointers / monotonic readings.
func verifC27Normalize(v reflect.Value) {
	switch v.Kind() {
	case reflect.Pointer:
		if !v.IsNil() {
			verifC27Normalize(v.Elem())
		}
	case reflect.Struct:
		if v.Type() == reflect.TypeOf(time.Time{}) {
			t := v.Interface().(time.Time)
			v.Set(reflect.ValueOf(t.Round(0).UTC()))
			return
		}
		for i := 0; i < v.NumField(); i++ {
			if v.Field(i).CanSet() {
				verifC27Normalize(v.Field(i))
			}
		}
	case reflect.Slice:
		if v.Len() == 0 {
			v.Set(reflect.Zero(v.Type()))
			return
		}
		for i := 0; i < v.Len(); i++ {
			verifC27Normalize(v.Index(i))
		}
	}
}

func verifC27Time() *rapid.Generator[time.Time] {
	return rapid.Custom(func(t *rapid.T) time.Time {
		switch rapid.IntRange(0, 7).Draw(t, "timeKind") {
		case 0:
			return time.Time{}
		case 1:
			return time.Unix(rapid.SampledFrom([]int64{-62135596800, 0, 1, 253402300799}).Draw(t, "edgeSec"), 0).UTC()
		case 2:
			// a proposer in a non-UTC zone (RFC 3339 carries whole-minute offsets only,
			// as every zone in use has)
			zone := time.FixedZone("", 900*rapid.IntRange(-48, 56).Draw(t, "zoneQuarterHours"))
			return time.Unix(rapid.Int64Range(0, 7e9).Draw(t, "sec"), int64(rapid.IntRange(0, 999999999).Draw(t, "nsec"))).In(zone)
		default:
			return time.Unix(rapid.Int64Range(0, 7e9).Draw(t, "sec"), int64(rapid.IntRange(0, 999999999).Draw(t, "nsec"))).UTC()
		}
	})
}

func verifC27Config() rapid.MakeConfig {
	return rapid.MakeConfig{
		Types: map[reflect.Type]*rapid.Generator[any]{
			reflect.TypeOf(time.Time{}): verifC27Time().AsAny(),
			reflect.TypeOf(""): rapid.OneOf(
				rapid.StringMatching(`[a-z0-9:_\-\.]{0,24}`),
				rapid.StringN(0, 12, 64),
				rapid.SampledFrom([]string{"", " <&>\"\\", "a\x00b", "名字", "\U0001F600"}),
			).AsAny(),
		},
		Kinds: map[reflect.Kind]*rapid.Generator[any]{
			reflect.Uint64: kit.Uint64Edge().AsAny(),
		},
	}
}

var verifC27Kinds = []Kind{
	KindInitClusterState, KindUpsertNode, KindUpdateControllerVoters, KindPromoteControllerVoter,
	KindUpsertSlotAssignmentAndTask, KindUpsertSlotReplicaMoveTask, KindAdvanceSlotReplicaMovePhase,
	KindCommitSlotReplicaMove, KindCompleteTask, KindFailTask, KindReportTaskProgress, KindReportNodeHealth,
	KindReplaceHashSlotTable, KindReplaceScheduledBackupState, KindReplaceOpsMCPState,
}

func verifC27Draw[T any](t *rapid.T, label string) *T {
	v := rapid.MakeCustom[T](verifC27Config()).Draw(t, label)
	return &v
}

// verifC27Command draws either a proposer-shaped command (Kind plus exactly the
// payload that Kind carries) or a fully random one (any combination of fields).
func verifC27Command() *rapid.Generator[Command] {
	return rapid.Custom(func(t *rapid.T) Command {
		if rapid.IntRange(0, 3).Draw(t, "shape") == 0 {
			return rapid.MakeCustom[Command](verifC27Config()).Draw(t, "anyCommand")
		}
		cmd := Command{Kind: rapid.SampledFrom(verifC27Kinds).Draw(t, "kind"), IssuedAt: verifC27Time().Draw(t, "issuedAt")}
		if rapid.Bool().Draw(t, "hasExpectedRevision") {
			r := kit.Uint64Edge().Draw(t, "expectedRevision")
			cmd.ExpectedRevision = &r
		}
		switch cmd.Kind {
		case KindInitClusterState:
			cmd.Init = verifC27Draw[InitClusterState](t, "init")
			cmd.HashSlots = verifC27Draw[state.HashSlotTable](t, "hashSlots")
		case KindUpsertNode:
			cmd.Node = verifC27Draw[state.Node](t, "node")
		case KindUpdateControllerVoters:
			cmd.Controllers = rapid.SliceOfN(rapid.MakeCustom[state.ControllerVoter](verifC27Config()), 0, 5).Draw(t, "controllers")
		case KindPromoteControllerVoter:
			cmd.ControllerVoterPromotion = verifC27Draw[ControllerVoterPromotion](t, "promotion")
		case KindUpsertSlotAssignmentAndTask, KindUpsertSlotReplicaMoveTask:
			cmd.Assignment = verifC27Draw[state.SlotAssignment](t, "assignment")
			cmd.Task = verifC27Draw[state.ReconcileTask](t, "task")
		case KindAdvanceSlotReplicaMovePhase:
			cmd.SlotReplicaMovePhase = verifC27Draw[SlotReplicaMovePhaseAdvance](t, "phase")
		case KindCommitSlotReplicaMove:
			cmd.SlotReplicaMoveCommit = verifC27Draw[SlotReplicaMoveCommit](t, "commit")
			cmd.Assignment = verifC27Draw[state.SlotAssignment](t, "assignment")
		case KindCompleteTask, KindFailTask:
			cmd.TaskResult = verifC27Draw[TaskResult](t, "taskResult")
		case KindReportTaskProgress:
			cmd.TaskProgress = verifC27Draw[TaskProgress](t, "taskProgress")
		case KindReportNodeHealth:
			cmd.NodeHealth = verifC27Draw[state.NodeHealthReport](t, "nodeHealth")
		case KindReplaceHashSlotTable:
			cmd.HashSlots = verifC27Draw[state.HashSlotTable](t, "hashSlots")
		case KindReplaceScheduledBackupState:
			cmd.ScheduledBackup = verifC27Draw[state.ScheduledBackupState](t, "backup")
		case KindReplaceOpsMCPState:
			cmd.OpsMCP = verifC27Draw[state.OpsMCPState](t, "opsMCP")
		}
		return cmd
	})
}

func verifC27Fields(cmd Command) int {
	n := 0
	v := reflect.ValueOf(cmd)
	for i := 0; i < v.NumField(); i++ {
		f := v.Field(i)
		if (f.Kind() == reflect.Pointer || f.Kind() == reflect.Slice) && !f.IsNil() {
			n++
		}
	}
	return n
}

// TestVerifC27ControllerCommand: Decode(Encode(cmd)) equals cmd (up to the
// JSON-equality classes), every strict prefix is rejected, unknown fields /
// wrong version / trailing tokens are rejected.
func TestVerifC27ControllerCommand(t *testing.T) {
	kit.Check(t, "C27", func(rt *rapid.T, k *kit.Case) {
		cmd := verifC27Command().Draw(rt, "cmd")
		enc, err := Encode(cmd)
		if err != nil {
			rt.Fatalf("Encode(%+v): %v", cmd, err)
		}
		got, err := verifC27Decode(rt, "valid", enc)
		if err != nil {
			rt.Fatalf("Decode(Encode(cmd)) error %v for %s", err, verifC27Trunc(enc))
		}
		// deterministic encoding
		if again, err := Encode(cmd); err != nil || !bytes.Equal(again, enc) {
			rt.Fatalf("Encode is not deterministic (%v)", err)
		}
		inner, err := json.Marshal(cmd)
		if err != nil {
			rt.Fatalf("marshal command: %v", err)
		}
		fields := verifC27Fields(cmd)
		// from here on cmd is only used through its normalised form (normalising
		// rewrites the structures cmd points to)
		want := cmd
		verifC27Normalize(reflect.ValueOf(&want).Elem())
		verifC27Normalize(reflect.ValueOf(&got).Elem())
		if !reflect.DeepEqual(got, want) {
			rt.Fatalf("controller command round trip differs:\n got  %+v\n want %+v\n json %s", got, want, verifC27Trunc(enc))
		}
		// strict prefixes of a JSON object are never a valid envelope
		cuts := verifC27Cuts(len(enc))
		for _, cut := range cuts {
			if _, err := Decode(enc[:cut]); err == nil {
				rt.Fatalf("Decode accepted strict prefix %d/%d: %s", cut, len(enc), verifC27Trunc(enc[:cut]))
			}
		}
		// envelope strictness
		badVersion := uint32(rapid.SampledFrom([]uint32{0, 2, 3, 1 << 31}).Draw(rt, "badVersion"))
		frame := []byte(fmt.Sprintf(`{"version":%d,"command":%s}`, badVersion, inner))
		if _, err := verifC27Decode(rt, "bad version", frame); !errors.Is(err, ErrUnsupportedVersion) {
			rt.Fatalf("Decode accepted envelope version %d (err=%v)", badVersion, err)
		}
		frame = []byte(fmt.Sprintf(`{"version":1,"command":%s,"extra":1}`, inner))
		if _, err := verifC27Decode(rt, "unknown envelope field", frame); err == nil {
			rt.Fatalf("Decode accepted an unknown envelope field")
		}
		frame = []byte(fmt.Sprintf(`{"version":1,"command":{"kind":%q,"issued_at":"2026-01-01T00:00:00Z","no_such_field":true}}`, string(cmd.Kind)))
		if _, err := verifC27Decode(rt, "unknown command field", frame); err == nil {
			rt.Fatalf("Decode accepted an unknown command field")
		}
		trailer := rapid.SampledFrom([]string{"{}", " 1", "\n[]", "null", `"x"`, "}"}).Draw(rt, "trailer")
		if _, err := verifC27Decode(rt, "trailing token", append(append([]byte(nil), enc...), trailer...)); err == nil {
			rt.Fatalf("Decode accepted trailing %q after the envelope", trailer)
		}
		if back, err := verifC27Decode(rt, "trailing whitespace", append(append([]byte(nil), enc...), " \n\t"...)); err != nil {
			rt.Fatalf("Decode rejected trailing whitespace: %v", err)
		} else {
			verifC27Normalize(reflect.ValueOf(&back).Elem())
			if !reflect.DeepEqual(back, want) {
				rt.Fatalf("trailing whitespace changed the decoded value")
			}
		}
		// generated byte-level mutation: error or value, never a panic
		mut, m := kit.Mutate(rt, enc)
		mutCmd, errMut := verifC27Decode(rt, "mutated", mut)
		if errMut == nil {
			if _, err := Encode(mutCmd); err != nil {
				rt.Fatalf("accepted mutated envelope decodes to an unencodable command: %v", err)
			}
		}
		k.Key(enc, m.Kind, m.Pos, m.Val)
		k.SetNonTrivial(fields > 0 && len(cuts) > 0)
		k.Label("codec=controller/command")
		kindLabel := "(arbitrary string)"
		for _, known := range verifC27Kinds {
			if cmd.Kind == known {
				kindLabel = string(known)
			}
		}
		k.Label("controller/command: kind=" + kindLabel)
		k.LabelIf(fields > 3, "controller/command: >3 payload fields set")
		k.LabelIf(errMut == nil, "controller/command: mutated envelope accepted")
		k.LabelIf(errMut != nil, "controller/command: mutated envelope rejected")
		k.Sample(func() any {
			return fmt.Sprintf("kind=%s payloadFields=%d json=%dB prefixes=%d mutation=%s@%d accepted=%v", cmd.Kind, fields, len(enc), len(cuts), m.Kind, m.Pos, errMut == nil)
		})
	})
}

// TestVerifC27ControllerGarbage: arbitrary bytes and JSON-shaped garbage.
func TestVerifC27ControllerGarbage(t *testing.T) {
	kit.Check(t, "C27", func(rt *rapid.T, k *kit.Case) {
		var raw []byte
		kind := rapid.IntRange(0, 3).Draw(rt, "garbageKind")
		switch kind {
		case 0:
			raw = kit.Bytes(1024).Draw(rt, "raw")
		case 1:
			// deep nesting / repeated brackets
			open := rapid.SampledFrom([]string{"[", "{\"a\":", "{\"command\":", "[[", "{\"version\":1,\"command\":{\"task\":{\"target_peers\":["}).Draw(rt, "open")
			raw = bytes.Repeat([]byte(open), rapid.IntRange(1, 3000).Draw(rt, "depth"))
		case 2:
			// well-formed JSON of the wrong shape
			raw = []byte(rapid.SampledFrom([]string{`null`, `1`, `"x"`, `[]`, `{}`, `{"version":1}`, `{"version":1,"command":null}`, `{"version":"1","command":{}}`, `{"version":1,"command":{"kind":7}}`, `{"version":1,"command":{"controllers":{}}}`, `{"version":-1,"command":{}}`, `{"version":1.5,"command":{}}`, `{"version":4294967296,"command":{}}`, `{"Version":1,"Command":{"Kind":"x"}}`}).Draw(rt, "shape"))
		default:
			// huge numeric / array bodies for typed fields
			n := rapid.IntRange(1, 4000).Draw(rt, "n")
			raw = []byte(`{"version":1,"command":{"kind":"x","issued_at":"2026-01-01T00:00:00Z","controllers":[` + string(bytes.TrimSuffix(bytes.Repeat([]byte(`{},`), n), []byte(","))) + `]}}`)
		}
		cmd, err := verifC27Decode(rt, "garbage", raw)
		if err == nil {
			// whatever is accepted must be a value the codec can carry again
			re, err := Encode(cmd)
			if err != nil {
				rt.Fatalf("accepted garbage decodes to an unencodable command: %v", err)
			}
			back, err := Decode(re)
			if err != nil {
				rt.Fatalf("re-encoded accepted value does not decode: %v", err)
			}
			verifC27Normalize(reflect.ValueOf(&back).Elem())
			verifC27Normalize(reflect.ValueOf(&cmd).Elem())
			if !reflect.DeepEqual(back, cmd) {
				rt.Fatalf("accepted garbage is not a fixed point of the codec: %+v vs %+v", back, cmd)
			}
		}
		k.Key("garbage", raw)
		k.SetNonTrivial(len(raw) > 0)
		k.Label("codec=controller/command garbage")
		k.Label(fmt.Sprintf("controller/command garbage: class %d accepted=%v", kind, err == nil))
		k.Sample(func() any { return fmt.Sprintf("garbage class=%d %dB %q err=%v", kind, len(raw), verifC27Trunc(raw), err) })
	})
}
