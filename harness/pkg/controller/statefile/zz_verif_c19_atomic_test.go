package statefile

import (
	"bufio"
	"bytes"
	"context"
	"encoding/json"
	"errors"
	"fmt"
	"io"
	"io/fs"
	"os"
	"os/exec"
	"path/filepath"
	"regexp"
	"runtime"
	"sort"
	"strconv"
	"strings"
	"syscall"
	"testing"
	"time"

	"github.com/WuKongIM/WuKongIM/pkg/controller/state"
	"pgregory.net/rapid"
	"verif.local/kit"
)

// ---------------------------------------------------------------------------
// generated valid cluster states
// ---------------------------------------------------------------------------

func verifC19Text(label string, t *rapid.T) string {
	switch rapid.IntRange(0, 3).Draw(t, label+"Kind") {
	case 0:
		return rapid.StringMatching(`[a-z0-9\-\.:]{1,16}`).Draw(t, label)
	case 1:
		// characters the JSON encoder escapes, multi-byte runes
		return rapid.StringOfN(rapid.SampledFrom([]rune{'a', 'Z', '0', ' ', '"', '\\', '/', '<', '>', '&', '\n', '\t', ' ', 'é', '频', '道', '😀', '{', '}', '[', ']', ',', ':'}), 1, 24, -1).Draw(t, label)
	default:
		return "n" + strconv.Itoa(rapid.IntRange(0, 999).Draw(t, label))
	}
}

// verifC19State draws a cluster state that passes state.Validate.
func verifC19State(t *rapid.T, revision uint64) state.ClusterState {
	nNodes := rapid.IntRange(1, 7).Draw(t, "nNodes")
	if rapid.IntRange(0, 19).Draw(t, "manyNodes") == 0 {
		nNodes = rapid.IntRange(30, 120).Draw(t, "nNodesBig")
	}
	st := state.ClusterState{
		SchemaVersion:    state.CurrentSchemaVersion,
		ClusterID:        verifC19Text("clusterID", t),
		Revision:         revision,
		AppliedRaftIndex: revision + uint64(rapid.IntRange(0, 1000).Draw(t, "raftGap")),
		UpdatedAt: time.Unix(int64(rapid.IntRange(0, 4_000_000_000).Draw(t, "sec")), int64(rapid.IntRange(0, 999_999_999).Draw(t, "nsec"))).
			In(time.FixedZone("z", rapid.SampledFrom([]int{0, 0, 3600, -7 * 3600, 8 * 3600, 5*3600 + 1800}).Draw(t, "tz"))),
	}
	var dataNodes, activeData, voters []uint64
	ids := map[uint64]bool{}
	for i := 0; i < nNodes; i++ {
		id := uint64(i + 1)
		if rapid.IntRange(0, 9).Draw(t, "wildID") == 0 {
			id = kit.Uint64Edge().Filter(func(v uint64) bool { return v != 0 }).Draw(t, "nodeID")
		}
		if ids[id] {
			continue
		}
		ids[id] = true
		n := state.Node{NodeID: id, Name: verifC19Text("name", t), Addr: verifC19Text("addr", t),
			CapacityWeight: uint32(rapid.IntRange(0, 200).Draw(t, "weight")),
			Status:         rapid.SampledFrom([]state.NodeStatus{state.NodeStatusAlive, state.NodeStatusAlive, state.NodeStatusSuspect, state.NodeStatusDown}).Draw(t, "status"),
			JoinState:      rapid.SampledFrom([]state.NodeJoinState{state.NodeJoinStateActive, state.NodeJoinStateActive, state.NodeJoinStateActive, state.NodeJoinStateJoining, state.NodeJoinStateLeaving, state.NodeJoinStateRemoved}).Draw(t, "join"),
		}
		if i == 0 {
			n.JoinState = state.NodeJoinStateActive
		}
		switch role := rapid.IntRange(0, 2).Draw(t, "roles"); {
		case i == 0 || role == 0:
			n.Roles = []state.NodeRole{state.NodeRoleData, state.NodeRoleControllerVoter}
		case role == 1:
			n.Roles = []state.NodeRole{state.NodeRoleData}
		default:
			n.Roles = []state.NodeRole{state.NodeRoleControllerVoter}
		}
		if n.HasRole(state.NodeRoleData) && (n.JoinState == state.NodeJoinStateActive || n.JoinState == state.NodeJoinStateLeaving) {
			dataNodes = append(dataNodes, id)
			if n.JoinState == state.NodeJoinStateActive {
				activeData = append(activeData, id)
			}
		}
		if n.HasRole(state.NodeRoleControllerVoter) && n.JoinState == state.NodeJoinStateActive {
			if len(voters) == 0 || rapid.Bool().Draw(t, "isVoter") {
				voters = append(voters, id)
				st.Controllers = append(st.Controllers, state.ControllerVoter{NodeID: id, Addr: n.Addr, Role: state.ControllerRoleVoter})
			}
		}
		st.Nodes = append(st.Nodes, n)
		if rapid.IntRange(0, 2).Draw(t, "hasReport") == 0 {
			st.NodeHealthReports = append(st.NodeHealthReports, state.NodeHealthReport{
				NodeID: id, Status: n.Status, RuntimeReady: rapid.Bool().Draw(t, "ready"),
				ObservedControlRevision: kit.Uint64Edge().Draw(t, "obsRev"),
				ReportSeq:               uint64(rapid.IntRange(0, 1<<30).Draw(t, "seq")),
				ReportedAtUnixMilli:     int64(rapid.IntRange(0, 1<<40).Draw(t, "reportedAt")),
				ErrorCode:               rapid.StringMatching(`[a-z_]{0,40}`).Draw(t, "errCode"),
			})
		}
	}
	replicas := rapid.IntRange(1, 3).Draw(t, "replicas")
	if replicas > len(dataNodes) {
		replicas = len(dataNodes)
	}
	h := rapid.SampledFrom([]int{1, 2, 16, 64, 256, 256, 1024, 4096}).Draw(t, "hashSlots")
	slotCount := rapid.IntRange(1, 12).Draw(t, "slotCount")
	if slotCount > h {
		slotCount = h
	}
	st.Config = state.ClusterConfig{SlotCount: uint32(slotCount), HashSlotCount: uint16(h), ReplicaCount: uint16(replicas),
		DefaultCapacityWeight: uint32(rapid.IntRange(0, 3).Draw(t, "defWeight"))}
	table, err := state.BuildInitialHashSlotTable(uint32(slotCount), uint16(h))
	if err != nil {
		t.Fatalf("generator: initial hash slot table: %v", err)
	}
	st.HashSlots = table
	if rapid.Bool().Draw(t, "splitRanges") && len(table.Ranges) > 0 {
		// an equivalent finer partition (ranges split, owners permuted)
		var out []state.HashSlotRange
		for _, r := range table.Ranges {
			if r.To > r.From && rapid.Bool().Draw(t, "split") {
				mid := r.From + (r.To-r.From)/2
				out = append(out, state.HashSlotRange{From: r.From, To: mid, SlotID: r.SlotID},
					state.HashSlotRange{From: mid + 1, To: r.To, SlotID: uint32(rapid.IntRange(1, slotCount).Draw(t, "owner"))})
			} else {
				out = append(out, r)
			}
		}
		st.HashSlots.Ranges = out
	}
	if replicas > 0 {
		for sid := 1; sid <= slotCount; sid++ {
			if rapid.IntRange(0, 4).Draw(t, "slotAssigned") == 0 {
				continue
			}
			perm := rapid.Permutation(dataNodes).Draw(t, "peers")
			peers := append([]uint64(nil), perm[:replicas]...)
			a := state.SlotAssignment{SlotID: uint32(sid), DesiredPeers: peers, ConfigEpoch: uint64(rapid.IntRange(1, 50).Draw(t, "epoch"))}
			if rapid.Bool().Draw(t, "hasLeader") {
				a.PreferredLeader = peers[rapid.IntRange(0, len(peers)-1).Draw(t, "leaderIdx")]
			}
			st.Slots = append(st.Slots, a)
			sorted := append([]uint64(nil), peers...)
			sort.Slice(sorted, func(i, j int) bool { return sorted[i] < sorted[j] })
			switch rapid.IntRange(0, 5).Draw(t, "task") {
			case 0:
				st.Tasks = append(st.Tasks, state.ReconcileTask{
					TaskID: fmt.Sprintf("slot-%d-bootstrap-%d", sid, a.ConfigEpoch), SlotID: uint32(sid), Kind: state.TaskKindBootstrap,
					Step: state.TaskStepCreateSlot, TargetNode: a.PreferredLeader, TargetPeers: sorted, ConfigEpoch: a.ConfigEpoch,
					Attempt: uint32(rapid.IntRange(0, 9).Draw(t, "attempt")),
					Status:  rapid.SampledFrom([]state.TaskStatus{state.TaskStatusPending, state.TaskStatusRunning, state.TaskStatusFailed}).Draw(t, "taskStatus"),
					LastError: verifC19Text("lastErr", t)})
			case 1:
				// replica move to an active data node that is not yet a peer
				var target uint64
				for _, id := range activeData {
					in := false
					for _, p := range peers {
						if p == id {
							in = true
						}
					}
					if !in {
						target = id
						break
					}
				}
				if target == 0 {
					break
				}
				src := peers[0]
				tp := append([]uint64(nil), peers...)
				tp[0] = target
				sort.Slice(tp, func(i, j int) bool { return tp[i] < tp[j] })
				st.Tasks = append(st.Tasks, state.ReconcileTask{
					TaskID: fmt.Sprintf("slot-%d-move-%d", sid, a.ConfigEpoch), SlotID: uint32(sid), Kind: state.TaskKindSlotReplicaMove,
					Step: rapid.SampledFrom([]state.TaskStep{state.TaskStepOpenLearner, state.TaskStepAddLearner, state.TaskStepPromoteLearner, state.TaskStepRemoveVoter, state.TaskStepCommitAssignment}).Draw(t, "step"),
					SourceNode: src, TargetNode: target, TargetPeers: tp, ConfigEpoch: a.ConfigEpoch, Status: state.TaskStatusRunning,
					PhaseIndex: uint32(rapid.IntRange(0, 4).Draw(t, "phase")), ObservedConfigIndex: kit.Uint64Edge().Draw(t, "obsIdx"),
					ObservedVoters: append([]uint64(nil), sorted...)})
			}
		}
	}
	if rapid.IntRange(0, 3).Draw(t, "opsMCP") == 0 {
		m := &state.OpsMCPState{}
		nCred := rapid.IntRange(0, 2).Draw(t, "nCred")
		for i := 0; i < nCred; i++ {
			m.Credentials = append(m.Credentials, state.OpsMCPCredential{
				ID:                  fmt.Sprintf("c%d-%s", i, rapid.StringMatching(`[a-z0-9_\-]{0,20}`).Draw(t, "credID")),
				DigestSHA256:        rapid.StringMatching(`[0-9a-f]{64}`).Draw(t, "digest"),
				CreatedAtUnixMillis: int64(rapid.IntRange(1, 1<<40).Draw(t, "credAt"))})
		}
		if nCred > 0 && rapid.Bool().Draw(t, "mcpEnabled") {
			m.Enabled = true
			m.OwnerNodeID = st.Nodes[0].NodeID
		}
		st.OpsMCP = m
	}
	if err := st.Validate(); err != nil {
		t.Fatalf("generator produced an invalid state: %v", err)
	}
	return st
}

// canonical form used to compare states: the normalized encoding.
func verifC19Canon(st state.ClusterState) []byte {
	b, err := state.Encode(st)
	if err != nil {
		panic(fmt.Sprintf("verifC19Canon: %v", err))
	}
	return b
}

// verifC19CheckLoaded: a loaded state is complete and carries a valid checksum.
func verifC19CheckLoaded(fail func(string, ...any), got state.ClusterState) {
	if err := got.Validate(); err != nil {
		fail("loaded state does not validate: %v", err)
	}
	sum, err := state.Checksum(got)
	if err != nil || sum != got.Checksum || sum == "" {
		fail("loaded state checksum %q, recomputed %q (err %v)", got.Checksum, sum, err)
	}
}

func verifC19Leftovers(dir string) []string {
	var out []string
	ents, _ := os.ReadDir(dir)
	for _, e := range ents {
		if strings.HasSuffix(e.Name(), ".tmp") {
			out = append(out, e.Name())
		}
	}
	return out
}

// ---------------------------------------------------------------------------
// child process: performs the saves; the parent kills it at a generated point
// ---------------------------------------------------------------------------

type verifC19ChildSpec struct {
	Path   string            `json:"path"`
	States []json.RawMessage `json:"states"`
	// HookAt >= 0: save number HookAt (0-based) runs with an after-temp-write hook.
	HookAt   int    `json:"hook_at"`
	HookMode string `json:"hook_mode"` // error | kill | cancel
}

func verifC19Ack(s string) {
	b := []byte(s)
	for len(b) > 0 {
		n, err := syscall.Write(1, b)
		if err != nil {
			os.Exit(97)
		}
		b = b[n:]
	}
}

// TestVerifC19Child is not a check: it is the body of the re-executed child.
func TestVerifC19Child(t *testing.T) {
	specPath := os.Getenv("VERIF_C19_CHILD")
	if specPath == "" {
		t.Skip("child body; run by TestVerifC19 parents only")
	}
	raw, err := os.ReadFile(specPath)
	if err != nil {
		verifC19Ack("VERIF-C19 childerror read spec\n")
		os.Exit(98)
	}
	var spec verifC19ChildSpec
	if err := json.Unmarshal(raw, &spec); err != nil {
		verifC19Ack("VERIF-C19 childerror spec json\n")
		os.Exit(98)
	}
	states := make([]state.ClusterState, len(spec.States))
	for i, r := range spec.States {
		st, err := state.Decode(r)
		if err != nil {
			verifC19Ack("VERIF-C19 childerror decode\n")
			os.Exit(98)
		}
		states[i] = st
	}
	runtime.LockOSThread() // all syscalls of the saves come from this one thread
	if os.Getenv("VERIF_C19_WAIT") != "" {
		// the parent attaches strace now and then releases us through stdin
		verifC19Ack(fmt.Sprintf("VERIF-C19 ready %d\n", os.Getpid()))
		var one [1]byte
		for {
			n, err := syscall.Read(0, one[:])
			if err == syscall.EINTR {
				continue
			}
			if n != 1 || err != nil {
				os.Exit(96)
			}
			break
		}
	}
	verifC19Ack("VERIF-C19 begin\n")
	for i, st := range states {
		ctx, cancel := context.WithCancel(context.Background())
		var opts []Option
		if i == spec.HookAt {
			switch spec.HookMode {
			case "error":
				opts = append(opts, WithAfterTempWriteHook(func() error { return errors.New("verif: injected failure after temp write") }))
			case "kill":
				opts = append(opts, WithAfterTempWriteHook(func() error {
					_ = syscall.Kill(os.Getpid(), syscall.SIGKILL)
					select {}
				}))
			case "cancel":
				opts = append(opts, WithAfterTempWriteHook(func() error { cancel(); return nil }))
			}
		}
		err := New(spec.Path, opts...).Save(ctx, st)
		cancel()
		if err != nil {
			verifC19Ack(fmt.Sprintf("VERIF-C19 failed %d\n", i))
		} else {
			verifC19Ack(fmt.Sprintf("VERIF-C19 saved %d\n", i))
		}
	}
	verifC19Ack("VERIF-C19 end\n")
}

const verifC19Traced = "openat,write,fsync,fdatasync,close,rename,renameat,renameat2,unlink,unlinkat"

type verifC19Run struct {
	acks      []string // "saved i" / "failed i" in order
	began     bool
	ended     bool
	killed    bool
	trace     []string // traced syscalls of the saving thread after the begin marker
	steps     []string // the same, classified as steps of Save
	killedAt  string   // step at which the kill landed ("" if not killed)
	killIndex int      // ordinal of that step within the window
	exitErr   error
}

var (
	verifC19LineRe    = regexp.MustCompile(`^(\d+)\s+([a-z0-9_]+)\((.*)$`)
	verifC19ResumedRe = regexp.MustCompile(`^(\d+)\s+<\.\.\. ([a-z0-9_]+) resumed>(.*)$`)
)

var errVerifC19Machinery = errors.New("machinery")

// verifC19RunChild starts the child, lets it get ready (thread locked, blocked
// on stdin), attaches strace to it and releases it. inject == "" only records
// the trace; otherwise inject is "<syscall>:<when>" and strace delivers SIGKILL
// when the saving thread enters its <when>-th call of <syscall> after attach.
// mode "plain" runs the child without strace (used with the kill hook).
func verifC19RunChild(dir string, spec verifC19ChildSpec, inject string, mode string) (*verifC19Run, error) {
	specPath := filepath.Join(dir, "spec.json")
	b, _ := json.Marshal(spec)
	if err := os.WriteFile(specPath, b, 0o600); err != nil {
		return nil, err
	}
	tracePath := filepath.Join(dir, "trace.txt")
	_ = os.Remove(tracePath)
	bin := os.Getenv("VERIF_TEST_BIN")
	if bin == "" {
		bin = os.Args[0]
	}
	if !filepath.IsAbs(bin) {
		if abs, err := filepath.Abs(bin); err == nil {
			bin = abs
		}
	}
	child := exec.Command(bin, "-test.run", "^TestVerifC19Child$", "-test.count=1", "-test.timeout", "120s")
	child.Dir = dir
	child.Env = append(os.Environ(), "VERIF_C19_CHILD="+specPath, "VERIF_C19_WAIT=1", "VERIF_STATS_DIR=", "VERIF_DEADLINE_UNIX=", "GOMAXPROCS=2")
	stdin, err := child.StdinPipe()
	if err != nil {
		return nil, err
	}
	stdout, err := child.StdoutPipe()
	if err != nil {
		return nil, err
	}
	child.Stderr = nil
	if err := child.Start(); err != nil {
		return nil, fmt.Errorf("%w: start child: %v", errVerifC19Machinery, err)
	}
	deadline := time.AfterFunc(120*time.Second, func() { _ = child.Process.Kill() })
	defer deadline.Stop()
	out := bufio.NewReader(stdout)
	first, err := out.ReadString('\n')
	if err != nil || !strings.HasPrefix(first, "VERIF-C19 ready") {
		_ = child.Process.Kill()
		_ = child.Wait()
		return nil, fmt.Errorf("%w: child not ready: %q %v", errVerifC19Machinery, first, err)
	}
	var strace *exec.Cmd
	if mode != "plain" {
		args := []string{"-f", "-s", "64", "-o", tracePath, "-e", "trace=" + verifC19Traced}
		if inject != "" {
			parts := strings.SplitN(inject, ":", 2)
			args = append(args, "-e", fmt.Sprintf("inject=%s:signal=SIGKILL:when=%s", parts[0], parts[1]))
		}
		args = append(args, "-p", strconv.Itoa(child.Process.Pid))
		strace = exec.Command("strace", args...)
		strace.Dir = dir
		serr, err := strace.StderrPipe()
		if err != nil {
			_ = child.Process.Kill()
			_ = child.Wait()
			return nil, err
		}
		if err := strace.Start(); err != nil {
			_ = child.Process.Kill()
			_ = child.Wait()
			return nil, fmt.Errorf("%w: start strace: %v", errVerifC19Machinery, err)
		}
		sr := bufio.NewReader(serr)
		attached := false
		var said []string
		for {
			line, err := sr.ReadString('\n')
			said = append(said, strings.TrimSpace(line))
			if strings.Contains(line, "attached") {
				attached = true
				break
			}
			if err != nil {
				break
			}
		}
		if !attached {
			_ = child.Process.Kill()
			_ = child.Wait()
			_ = strace.Wait()
			return nil, fmt.Errorf("%w: strace did not attach: %v", errVerifC19Machinery, said)
		}
		go func() { _, _ = io.Copy(io.Discard, sr) }()
	}
	if _, err := stdin.Write([]byte("g")); err != nil {
		_ = child.Process.Kill()
	}
	rest, _ := io.ReadAll(out)
	run := &verifC19Run{}
	run.exitErr = child.Wait()
	if strace != nil {
		_ = strace.Wait()
	}
	if ee, ok := run.exitErr.(*exec.ExitError); ok {
		if ws, ok := ee.Sys().(syscall.WaitStatus); ok && ws.Signaled() && ws.Signal() == syscall.SIGKILL {
			run.killed = true
		}
	}
	for _, line := range strings.Split(string(rest), "\n") {
		line = strings.TrimSpace(line)
		switch {
		case line == "VERIF-C19 begin":
			run.began = true
		case line == "VERIF-C19 end":
			run.ended = true
		case strings.HasPrefix(line, "VERIF-C19 saved "), strings.HasPrefix(line, "VERIF-C19 failed "):
			run.acks = append(run.acks, strings.TrimPrefix(line, "VERIF-C19 "))
		case strings.HasPrefix(line, "VERIF-C19 childerror"):
			return nil, fmt.Errorf("%w: child: %s", errVerifC19Machinery, line)
		}
	}
	if strace != nil {
		traceData, _ := os.ReadFile(tracePath)
		lines := strings.Split(string(traceData), "\n")
		// the saving thread is the one that wrote the begin marker
		tid, start := "", -1
		for i, l := range lines {
			if strings.Contains(l, `"VERIF-C19 begin`) {
				if m := verifC19LineRe.FindStringSubmatch(l); m != nil {
					tid, start = m[1], i
					break
				}
			}
		}
		if tid != "" {
			for _, l := range lines[start+1:] {
				if r := verifC19ResumedRe.FindStringSubmatch(l); r != nil && r[1] == tid && len(run.trace) > 0 {
					// second half of a call that was interleaved with another thread's output
					last := run.trace[len(run.trace)-1]
					if strings.HasSuffix(last, " <unfinished ...>") && strings.HasPrefix(last, r[2]+"(") {
						run.trace[len(run.trace)-1] = strings.TrimSuffix(last, " <unfinished ...>") + r[3]
					}
					continue
				}
				m := verifC19LineRe.FindStringSubmatch(l)
				if m == nil || m[1] != tid {
					continue
				}
				run.trace = append(run.trace, m[2]+"("+m[3])
			}
		}
		run.steps = verifC19Steps(run.trace, spec.Path)
		if run.killed {
			if len(run.steps) > 0 {
				run.killedAt = run.steps[len(run.steps)-1]
				run.killIndex = len(run.steps)
			} else {
				run.killedAt = "begin-marker"
			}
		}
	} else if run.killed {
		run.killedAt = "after-temp-write-hook"
	}
	return run, nil
}

// verifC19Classify names the step of Save a traced syscall belongs to.
func verifC19Classify(call string, mainPath string) string {
	name := call[:strings.Index(call, "(")]
	base := filepath.Base(mainPath)
	switch {
	case name == "openat" && strings.Contains(call, base+".") && strings.Contains(call, "O_CREAT"):
		return "create-temp"
	case name == "openat":
		return "open-dir"
	case name == "write" && strings.HasPrefix(call, "write(1,"):
		return "ack"
	case name == "write":
		return "write-temp"
	case name == "fsync" || name == "fdatasync":
		return "fsync"
	case strings.HasPrefix(name, "rename"):
		return "rename"
	case strings.HasPrefix(name, "unlink"):
		return "remove-temp"
	case name == "close":
		return "close"
	}
	return name
}

// verifC19Steps turns the window trace into the sequence of Save steps with
// fsync/close disambiguated (temp file vs directory).
func verifC19Steps(trace []string, mainPath string) []string {
	out := make([]string, 0, len(trace))
	renamed := false
	for _, c := range trace {
		s := verifC19Classify(c, mainPath)
		switch s {
		case "create-temp":
			renamed = false
		case "rename":
			renamed = true
		case "fsync":
			if renamed {
				s = "fsync-dir"
			} else {
				s = "fsync-temp"
			}
		case "close":
			if renamed {
				s = "close-dir"
			} else {
				s = "close-temp"
			}
		}
		out = append(out, s)
	}
	return out
}

// steps between the creation of the temp file and the directory fsync
func verifC19InWindow(step string) bool {
	switch step {
	case "write-temp", "fsync-temp", "close-temp", "rename", "open-dir", "fsync-dir", "remove-temp", "after-temp-write-hook":
		return true
	}
	return false
}

func verifC19NeedStrace(t *testing.T) {
	if _, err := exec.LookPath("strace"); err != nil {
		t.Fatalf("VERIF-MACHINERY: strace not available: %v", err)
	}
}

type verifC19Plan struct {
	pre      bool // a previous state file exists before the child starts
	n        int
	hookAt   int
	hookMode string
}

// verifC19Judge applies the oracle after a (possibly killed) child run: Load
// returns the last acknowledged state or the one in flight, complete and with
// a valid checksum. It returns which state was loaded (-1 previous, -2 none).
func verifC19Judge(fail func(string, ...any), dir, path string, pre *state.ClusterState, states []state.ClusterState, plan verifC19Plan, run *verifC19Run) (loadedIdx int) {
	cur := -1 // index of the last acknowledged successful save (-1: previous state / nothing)
	attempted := -1
	for _, a := range run.acks {
		var i int
		if _, err := fmt.Sscanf(a, "saved %d", &i); err == nil {
			cur, attempted = i, i
			if i == plan.hookAt && (plan.hookMode == "error" || plan.hookMode == "kill") {
				fail("save %d reported success although its after-temp-write hook aborted it (%s)", i, plan.hookMode)
			}
			continue
		}
		if _, err := fmt.Sscanf(a, "failed %d", &i); err == nil {
			attempted = i
			if !(i == plan.hookAt && (plan.hookMode == "error" || plan.hookMode == "cancel")) {
				fail("save %d failed in the child although no failure was injected", i)
			}
		}
	}
	if !run.killed && !run.ended {
		fail("child neither finished nor was killed (exit %v); acks=%v", run.exitErr, run.acks)
	}
	if !run.killed && attempted != len(states)-1 {
		fail("child finished but acknowledged only %d of %d saves", attempted+1, len(states))
	}
	cands := []int{cur}
	inflight := attempted + 1
	if run.killed && inflight < len(states) && !(inflight == plan.hookAt && (plan.hookMode == "error" || plan.hookMode == "kill")) {
		cands = append(cands, inflight)
	}
	got, err := New(path).Load(context.Background())
	if err != nil {
		if errors.Is(err, fs.ErrNotExist) && !plan.pre && cur == -1 {
			return -2 // nothing was ever completely saved
		}
		fail("Load after crash failed: %v (acks=%v killedAt=%s leftovers=%v)", err, run.acks, run.killedAt, verifC19Leftovers(dir))
	}
	verifC19CheckLoaded(fail, got)
	gc := verifC19Canon(got)
	for _, c := range cands {
		var want []byte
		if c == -1 {
			if pre == nil {
				continue
			}
			want = verifC19Canon(*pre)
		} else {
			want = verifC19Canon(states[c])
		}
		if bytes.Equal(gc, want) {
			return c
		}
	}
	fail("Load after crash returned revision %d, which is neither the last acknowledged state nor the one in flight (candidates %v, acks=%v, killedAt=%s)", got.Revision, cands, run.acks, run.killedAt)
	return -3
}

func verifC19SetupCase(rt *rapid.T, dir string) (path string, pre *state.ClusterState, states []state.ClusterState, spec verifC19ChildSpec, plan verifC19Plan) {
	path = filepath.Join(dir, "cluster-state.json")
	plan.pre = rapid.IntRange(0, 3).Draw(rt, "hasPrevious") != 0
	rev := uint64(rapid.IntRange(1, 1000).Draw(rt, "rev0"))
	if plan.pre {
		p := verifC19State(rt, rev)
		pre = &p
		if err := New(path).Save(context.Background(), p); err != nil {
			rt.Fatalf("saving the previous state: %v", err)
		}
	}
	plan.n = rapid.IntRange(1, 3).Draw(rt, "nSaves")
	for i := 0; i < plan.n; i++ {
		rev += uint64(rapid.IntRange(1, 3).Draw(rt, "revStep"))
		states = append(states, verifC19State(rt, rev))
	}
	spec = verifC19ChildSpec{Path: path, HookAt: -1}
	for _, s := range states {
		spec.States = append(spec.States, json.RawMessage(verifC19Canon(s)))
	}
	plan.hookAt = -1
	return
}

// verifC19AfterCrash: the store keeps working after the crash; leftover temp
// files do not disturb a new Save/Load.
func verifC19AfterCrash(fail func(string, ...any), path string, final state.ClusterState) {
	if err := New(path).Save(context.Background(), final); err != nil {
		fail("Save after crash failed: %v", err)
	}
	again, err := New(path).Load(context.Background())
	if err != nil || !bytes.Equal(verifC19Canon(again), verifC19Canon(final)) {
		fail("Load after post-crash Save: err=%v revision=%d want %d", err, again.Revision, final.Revision)
	}
}

// TestVerifC19KillDuringSave: the child saves 1..3 generated states and is
// killed at a generated point: SIGKILL injected by strace when the saving
// thread enters a generated syscall (kind x ordinal), or a self-kill from the
// exported after-temp-write hook. Load must then return the last acknowledged
// state or the one in flight, complete and with a valid checksum.
func TestVerifC19KillDuringSave(t *testing.T) {
	verifC19NeedStrace(t)
	col := kit.For(t, "C19")
	kit.Check(t, "C19", func(rt *rapid.T, k *kit.Case) {
		fail := func(f string, a ...any) { rt.Helper(); rt.Fatalf(f, a...) }
		dir, cleanup := kit.TempDir()
		if os.Getenv("VERIF_C19_KEEP") == "" {
			defer cleanup()
		}
		path, pre, states, spec, plan := verifC19SetupCase(rt, dir)
		// stale temp files from earlier crashes must be ignored
		nJunk := rapid.IntRange(0, 2).Draw(rt, "nJunk")
		for j := 0; j < nJunk; j++ {
			junk := kit.Bytes(256).Draw(rt, "junk")
			_ = os.WriteFile(filepath.Join(dir, fmt.Sprintf("cluster-state.json.%d.tmp", 1000+j)), junk, 0o600)
		}
		mode, inject := "strace", ""
		switch rapid.IntRange(0, 9).Draw(rt, "crashKind") {
		case 0:
			// crash exactly after the temp file is durable, before the rename
			mode = "plain"
			plan.hookAt = rapid.IntRange(0, plan.n-1).Draw(rt, "hookAt")
			plan.hookMode = "kill"
		case 1, 2:
			// a save that fails (hook error / cancelled context) somewhere in the history
			plan.hookAt = rapid.IntRange(0, plan.n-1).Draw(rt, "hookAt")
			plan.hookMode = rapid.SampledFrom([]string{"error", "cancel"}).Draw(rt, "hookMode")
		}
		spec.HookAt, spec.HookMode = plan.hookAt, plan.hookMode
		if mode == "strace" {
			// kill point: syscall kind + ordinal among the saving thread's calls of that kind
			kind := rapid.SampledFrom([]string{"openat", "openat", "write", "write", "fsync", "fsync", "renameat", "renameat", "close", "close", "unlinkat"}).Draw(rt, "killKind")
			max := 2 * plan.n
			switch kind {
			case "renameat":
				max = plan.n
			case "write":
				max = 2*plan.n + 1 // + begin marker
			case "unlinkat":
				max = 1
			}
			inject = fmt.Sprintf("%s:%d", kind, rapid.IntRange(1, max).Draw(rt, "killOrdinal"))
		}
		run, err := verifC19RunChild(dir, spec, inject, mode)
		if err != nil {
			col.Inconclusive("child run failed")
			rt.Logf("child run: %v", err)
			rt.Skip()
		}
		got := verifC19Judge(fail, dir, path, pre, states, plan, run)
		leftovers := verifC19Leftovers(dir)
		verifC19AfterCrash(fail, path, verifC19State(rt, states[len(states)-1].Revision+1))

		k.Key("kill", plan.pre, plan.n, plan.hookAt, plan.hookMode, run.killedAt, run.killIndex, len(run.acks), fmt.Sprint(spec.States))
		k.SetNonTrivial(run.killed && verifC19InWindow(run.killedAt))
		if run.killed {
			k.Label("killed at " + run.killedAt)
		} else {
			k.Label("kill point not reached (child finished)")
		}
		k.LabelIf(run.killed && got >= 0 && got == len(run.acks), "in-flight state became visible")
		k.LabelIf(got == -2, "no state file yet")
		k.LabelIf(got == -1, "previous state survived")
		k.LabelIf(len(leftovers) > nJunk, "crash left a temp file behind")
		k.LabelIf(nJunk > 0, "stale temp files present")
		k.LabelIf(plan.hookMode == "error" || plan.hookMode == "cancel", "history has a save aborted after temp write")
		k.Sample(func() any {
			return fmt.Sprintf("previous=%v saves=%d hook=%d/%s inject=%s killedAt=%s#%d acks=%v loaded=%d", plan.pre, plan.n, plan.hookAt, plan.hookMode, inject, run.killedAt, run.killIndex, run.acks, got)
		})
	})
}

// TestVerifC19KillEnumerate: one generated run (previous state + 1 save in the
// quick tier, + 3 saves in the thorough tier, one of them with an aborting
// hook in a second pass) is traced once; then the child is re-run and killed
// at EVERY traced syscall of the saving thread (every kind x every ordinal
// seen in the trace). Exhaustive over the syscall boundaries of that run.
func TestVerifC19KillEnumerate(t *testing.T) {
	verifC19NeedStrace(t)
	col := kit.For(t, "C19")
	fail := func(f string, a ...any) { t.Helper(); t.Fatalf("VERIF-VIOLATION "+f, a...) }
	nSaves := kit.Scale("C19_ENUM_SAVES", 1, 3)
	passes := []string{""}
	if kit.Thorough() {
		passes = append(passes, "error")
	}
	gen := rapid.Custom(func(rt *rapid.T) []state.ClusterState {
		rev := uint64(rapid.IntRange(1, 1000).Draw(rt, "rev0"))
		out := []state.ClusterState{verifC19State(rt, rev)}
		for i := 0; i < nSaves; i++ {
			rev += uint64(rapid.IntRange(1, 3).Draw(rt, "revStep"))
			out = append(out, verifC19State(rt, rev))
		}
		return out
	})
	all := gen.Example(int(kit.Seed() % (1 << 31)))
	pre, states := all[0], all[1:]
	points := 0
	for _, hookMode := range passes {
		plan := verifC19Plan{pre: true, n: len(states), hookAt: -1}
		if hookMode != "" {
			plan.hookAt, plan.hookMode = len(states)/2, hookMode
		}
		setup := func() (string, string, verifC19ChildSpec, func()) {
			dir, cleanup := kit.TempDir()
			path := filepath.Join(dir, "cluster-state.json")
			if err := New(path).Save(context.Background(), pre); err != nil {
				t.Fatalf("VERIF-MACHINERY: saving previous state: %v", err)
			}
			spec := verifC19ChildSpec{Path: path, HookAt: plan.hookAt, HookMode: plan.hookMode}
			for _, s := range states {
				spec.States = append(spec.States, json.RawMessage(verifC19Canon(s)))
			}
			return dir, path, spec, cleanup
		}
		// reference trace
		dir, path, spec, cleanup := setup()
		ref, err := verifC19RunChild(dir, spec, "", "strace")
		if err != nil || !ref.ended || len(ref.trace) == 0 {
			cleanup()
			col.Inconclusive("reference trace failed")
			t.Fatalf("VERIF-MACHINERY: reference trace: %v", err)
		}
		verifC19Judge(fail, dir, path, &pre, states, plan, ref)
		cleanup()
		counts := map[string]int{"write": 1} // the begin marker is write #1 of the thread after attach
		for _, c := range ref.trace {
			counts[c[:strings.Index(c, "(")]]++
		}
		kinds := make([]string, 0, len(counts))
		for kind := range counts {
			kinds = append(kinds, kind)
		}
		sort.Strings(kinds)
		type verifC19Point struct {
			inject, dir, path string
			spec              verifC19ChildSpec
			cleanup           func()
			run               *verifC19Run
			err               error
		}
		var pts []*verifC19Point
		for _, kind := range kinds {
			for ord := 1; ord <= counts[kind]; ord++ {
				pts = append(pts, &verifC19Point{inject: fmt.Sprintf("%s:%d", kind, ord)})
			}
		}
		// the kill runs are independent processes in their own directories; run a few at a time
		sem := make(chan struct{}, kit.Scale("C19_ENUM_PAR", 4, 6))
		done := make(chan *verifC19Point, len(pts))
		for _, p := range pts {
			p := p
			go func() {
				sem <- struct{}{}
				defer func() { <-sem; done <- p }()
				if col.Exhausted() {
					p.err = errors.New("budget exhausted")
					return
				}
				p.dir, p.path, p.spec, p.cleanup = setup()
				p.run, p.err = verifC19RunChild(p.dir, p.spec, p.inject, "strace")
			}()
		}
		for range pts {
			<-done
		}
		for _, p := range pts {
			if p.err != nil {
				if p.cleanup != nil {
					p.cleanup()
				}
				col.Inconclusive("child run failed")
				continue
			}
			run := p.run
			if !run.killed {
				p.cleanup()
				fail("kill point %s of the reference trace was not reached (acks=%v)", p.inject, run.acks)
			}
			got := verifC19Judge(fail, p.dir, p.path, &pre, states, plan, run)
			final := states[len(states)-1]
			final.Revision += 7
			verifC19AfterCrash(fail, p.path, final)
			p.cleanup()
			points++
			k := col.NewCase()
			k.Key("enum", hookMode, p.inject, fmt.Sprint(p.spec.States))
			k.SetNonTrivial(verifC19InWindow(run.killedAt))
			k.Label("enumerated: killed at " + run.killedAt)
			k.LabelIf(got >= 0 && got == len(run.acks), "in-flight state became visible")
			k.LabelIf(got == -1, "previous state survived")
			inj, at, idx, acks := p.inject, run.killedAt, run.killIndex, run.acks
			k.Sample(func() any {
				return fmt.Sprintf("enumeration saves=%d hook=%s inject=%s killedAt=%s#%d acks=%v loaded=%d", len(states), hookMode, inj, at, idx, acks, got)
			})
			col.Commit(k)
		}
		col.AddExtra("enumerated_kill_points", int64(points))
		col.AddExtra("enumerated_reference_trace_syscalls", int64(len(ref.trace)+1))
		points = 0
	}
}

// TestVerifC19DurabilityOrder: the syscall trace of generated saves shows, for
// every save, the order that makes the replacement safe under power loss: the
// temp file is fsynced after its last write and before the rename onto the
// main path, and the directory is fsynced after the rename and before Save
// returns.
func TestVerifC19DurabilityOrder(t *testing.T) {
	verifC19NeedStrace(t)
	col := kit.For(t, "C19")
	fdRe := regexp.MustCompile(`^[a-z0-9_]+\((\d+)`)
	retRe := regexp.MustCompile(`=\s*(-?\d+)`)
	kit.Check(t, "C19", func(rt *rapid.T, k *kit.Case) {
		fail := func(f string, a ...any) { rt.Helper(); rt.Fatalf(f, a...) }
		dir, cleanup := kit.TempDir()
		defer cleanup()
		path, pre, states, spec, plan := verifC19SetupCase(rt, dir)
		run, err := verifC19RunChild(dir, spec, "", "strace")
		if err != nil || !run.ended {
			col.Inconclusive("trace run failed")
			rt.Skip()
		}
		verifC19Judge(fail, dir, path, pre, states, plan, run)
		// walk the trace save by save
		save, tempFD, dirFD := 0, "", ""
		tempPath := ""
		wrote, tempSynced, renamed, dirSynced := false, false, false, false
		for i, c := range run.trace {
			step := run.steps[i]
			fd := ""
			if m := fdRe.FindStringSubmatch(c); m != nil {
				fd = m[1]
			}
			switch step {
			case "create-temp":
				tempFD, dirFD, wrote, tempSynced, renamed, dirSynced = "", "", false, false, false, false
				if m := retRe.FindStringSubmatch(c[strings.LastIndex(c, ")"):]); m != nil {
					tempFD = m[1]
				}
				if q := strings.Split(c, `"`); len(q) >= 2 {
					tempPath = q[1]
				}
				if filepath.Dir(tempPath) != dir {
					fail("save %d: temp file %q is not created in the directory of the state file", save, tempPath)
				}
			case "write-temp":
				if fd == tempFD {
					wrote = true
					tempSynced = false
				}
			case "fsync-temp":
				if fd == tempFD && wrote {
					tempSynced = true
				}
			case "rename":
				if !wrote || !tempSynced {
					fail("save %d: rename before the temp file was written and fsynced (wrote=%v synced=%v): %v", save, wrote, tempSynced, run.trace)
				}
				if !strings.Contains(c, `"`+tempPath+`"`) || !strings.Contains(c, `"`+path+`"`) {
					fail("save %d: rename does not move the temp file onto the state file: %s", save, c)
				}
				renamed = true
			case "open-dir":
				if renamed && strings.Contains(c, `"`+dir+`"`) {
					if m := retRe.FindStringSubmatch(c[strings.LastIndex(c, ")"):]); m != nil {
						dirFD = m[1]
					}
				}
			case "fsync-dir":
				if renamed && fd == dirFD && dirFD != "" {
					dirSynced = true
				}
			case "ack":
				if !strings.Contains(c, "VERIF-C19 saved") && !strings.Contains(c, "VERIF-C19 failed") {
					continue
				}
				if strings.Contains(c, "saved") {
					if !renamed || !dirSynced {
						fail("save %d acknowledged without rename + directory fsync (renamed=%v dirSynced=%v): %v", save, renamed, dirSynced, run.trace)
					}
				}
				save++
				renamed, dirSynced = false, false
			}
		}
		if save != len(states) {
			fail("trace shows %d saves, want %d: %v", save, len(states), run.trace)
		}
		k.Key("order", fmt.Sprint(spec.States))
		k.SetNonTrivial(save >= 1)
		k.Label("syscall order of a traced run checked")
		k.Sample(func() any { return fmt.Sprintf("saves=%d steps=%v", len(states), run.steps) })
	})
}

// TestVerifC19HookAbort (in-process): histories of saves where a generated
// subset is aborted after the temp write (hook error, context cancelled in the
// hook, hook panic). Load always returns the last successful state.
func TestVerifC19HookAbort(t *testing.T) {
	kit.Check(t, "C19", func(rt *rapid.T, k *kit.Case) {
		fail := func(f string, a ...any) { rt.Helper(); rt.Fatalf(f, a...) }
		dir, cleanup := kit.TempDir()
		defer cleanup()
		path := filepath.Join(dir, "cluster-state.json")
		n := rapid.IntRange(1, 6).Draw(rt, "nSaves")
		rev := uint64(rapid.IntRange(1, 100).Draw(rt, "rev0"))
		var last *state.ClusterState
		aborted, okSaves, leftoverSeen := 0, 0, false
		var trace []string
		for i := 0; i < n; i++ {
			rev += uint64(rapid.IntRange(1, 3).Draw(rt, "revStep"))
			st := verifC19State(rt, rev)
			mode := rapid.SampledFrom([]string{"ok", "ok", "error", "cancel", "panic", "precancelled"}).Draw(rt, "mode")
			trace = append(trace, mode)
			ctx, cancel := context.WithCancel(context.Background())
			boom := errors.New("verif boom")
			var opts []Option
			switch mode {
			case "error":
				opts = append(opts, WithAfterTempWriteHook(func() error { return boom }))
			case "cancel":
				opts = append(opts, WithAfterTempWriteHook(func() error { cancel(); return nil }))
			case "panic":
				opts = append(opts, WithAfterTempWriteHook(func() error { panic("verif panic in hook") }))
			case "precancelled":
				cancel()
			}
			var err error
			func() {
				defer func() {
					if r := recover(); r != nil {
						err = fmt.Errorf("panic: %v", r)
					}
				}()
				err = New(path, opts...).Save(ctx, st)
			}()
			cancel()
			switch {
			case mode == "ok":
				if err != nil {
					fail("Save %d failed: %v", i, err)
				}
				s := st
				last = &s
				okSaves++
			case (mode == "cancel" || mode == "precancelled") && err == nil:
				// a cancelled context may or may not stop the save; a save that
				// reports success must be visible
				s := st
				last = &s
				okSaves++
			default:
				aborted++
				if err == nil {
					fail("Save %d (%s) reported success although it was aborted before the rename", i, mode)
				}
				if mode == "error" && !errors.Is(err, boom) {
					fail("Save %d: hook error not returned: %v", i, err)
				}
			}
			if len(verifC19Leftovers(dir)) > 0 {
				leftoverSeen = true
			}
			got, lerr := New(path).Load(context.Background())
			if last == nil {
				if lerr == nil {
					fail("Load succeeded (revision %d) although no save completed (history %v)", got.Revision, trace)
				}
				if !errors.Is(lerr, fs.ErrNotExist) {
					fail("Load before the first completed save: %v", lerr)
				}
				continue
			}
			if lerr != nil {
				fail("Load after %v failed: %v", trace, lerr)
			}
			verifC19CheckLoaded(fail, got)
			if !bytes.Equal(verifC19Canon(got), verifC19Canon(*last)) {
				fail("Load after %v returned revision %d, want the last successful save (revision %d)", trace, got.Revision, last.Revision)
			}
		}
		k.Key("hook", fmt.Sprint(trace), rev)
		k.SetNonTrivial(aborted > 0 && okSaves > 0)
		k.LabelIf(aborted > 0, "history has aborted saves")
		k.LabelIf(leftoverSeen, "aborted save left a temp file (panic path)")
		k.Sample(func() any { return fmt.Sprintf("in-process saves %v", trace) })
	})
}

// TestVerifC19Corruption: arbitrary corruption of a saved file is rejected by
// Load, unless the bytes still decode to the very same state.
func TestVerifC19Corruption(t *testing.T) {
	kit.Check(t, "C19", func(rt *rapid.T, k *kit.Case) {
		fail := func(f string, a ...any) { rt.Helper(); rt.Fatalf(f, a...) }
		dir, cleanup := kit.TempDir()
		defer cleanup()
		path := filepath.Join(dir, "cluster-state.json")
		st := verifC19State(rt, uint64(rapid.IntRange(1, 1_000_000).Draw(rt, "rev")))
		// A saved file holds exactly state.Encode(st). Going through Save costs two
		// fsyncs, so only a generated fraction of the cases does; those also
		// confirm that the file content is the encoding.
		viaSave := rapid.IntRange(0, 15).Draw(rt, "viaSave") == 0
		if viaSave {
			if err := New(path).Save(context.Background(), st); err != nil {
				fail("Save: %v", err)
			}
		} else if err := os.WriteFile(path, verifC19Canon(st), 0o600); err != nil {
			fail("write: %v", err)
		}
		orig, err := os.ReadFile(path)
		if err != nil {
			fail("read saved file: %v", err)
		}
		if viaSave && !bytes.Equal(orig, verifC19Canon(st)) {
			fail("saved file is not the canonical encoding of the state")
		}
		// A long-lived Store (the sync client loads through one instance on every
		// tick) has already loaded the intact file when the corruption happens.
		longLived := New(path)
		if got, err := longLived.Load(context.Background()); err != nil || !bytes.Equal(verifC19Canon(got), verifC19Canon(st)) {
			fail("Load of the untouched file: err=%v", err)
		}
		sameStore := rapid.Bool().Draw(rt, "loadThroughTheSameStore")
		keepMtime := rapid.Bool().Draw(rt, "corruptionKeepsModTime")
		before, statErr := os.Stat(path)
		if statErr != nil {
			fail("stat: %v", statErr)
		}
		data := append([]byte(nil), orig...)
		var desc []string
		nMut := rapid.IntRange(1, 3).Draw(rt, "nMut")
		for i := 0; i < nMut; i++ {
			kind := rapid.SampledFrom([]string{"bytes", "bytes", "digit", "digit", "letter", "letter", "truncate", "garbage", "checksum", "otherChecksum", "dropField", "case", "empty"}).Draw(rt, "kind")
			switch kind {
			case "bytes":
				var m kit.Mutation
				data, m = kit.Mutate(rt, data)
				kind = "bytes:" + m.Kind
			case "digit", "letter":
				// replace one digit by another digit / one letter by another letter: JSON usually stays well-formed
				var idx []int
				for j, c := range data {
					if (kind == "digit" && c >= '0' && c <= '9') || (kind == "letter" && c >= 'a' && c <= 'z') {
						idx = append(idx, j)
					}
				}
				if len(idx) == 0 {
					continue
				}
				j := idx[rapid.IntRange(0, len(idx)-1).Draw(rt, "at")]
				if kind == "digit" {
					data[j] = '0' + (data[j]-'0'+byte(rapid.IntRange(1, 9).Draw(rt, "delta")))%10
				} else {
					data[j] = 'a' + (data[j]-'a'+byte(rapid.IntRange(1, 25).Draw(rt, "delta")))%26
				}
			case "truncate":
				if len(data) > 0 {
					data = data[:rapid.IntRange(0, len(data)-1).Draw(rt, "cut")]
				}
			case "garbage":
				data = append(data, rapid.SampledFrom([][]byte{[]byte("x"), []byte("{}"), []byte("\x00"), []byte(" 1"), []byte("null"), data}).Draw(rt, "tail")...)
			case "checksum":
				// a different, well-formed checksum value
				if j := bytes.Index(data, []byte(`"checksum":"crc32c:`)); j >= 0 && j+19+8 <= len(data) {
					p := j + 19 + rapid.IntRange(0, 7).Draw(rt, "hexAt")
					hex := "0123456789abcdef"
					c := hex[rapid.IntRange(0, 15).Draw(rt, "hex")]
					if data[p] == c {
						c = hex[(strings.IndexByte(hex, c)+1)%16]
					}
					data[p] = c
				}
			case "otherChecksum":
				// the checksum of another valid state (e.g. a file stitched together from two saves)
				other := verifC19State(rt, st.Revision+1)
				sum, _ := state.Checksum(other)
				if j := bytes.Index(data, []byte(`"checksum":"crc32c:`)); j >= 0 && j+12+len(sum) <= len(data) {
					copy(data[j+12:], sum)
				}
			case "dropField":
				// remove one `"key":value,` member at top level where the value is a number
				re := regexp.MustCompile(`"(revision|applied_raft_index|schema_version)":\d+,`)
				locs := re.FindAllIndex(data, -1)
				if len(locs) > 0 {
					l := locs[rapid.IntRange(0, len(locs)-1).Draw(rt, "field")]
					data = append(append([]byte(nil), data[:l[0]]...), data[l[1]:]...)
				}
			case "case":
				// encoding/json matches keys case-insensitively: a harmless edit
				if j := bytes.Index(data, []byte(`"revision"`)); j >= 0 {
					data[j+1] = 'R'
				}
			case "empty":
				data = nil
			}
			desc = append(desc, kind)
		}
		if bytes.Equal(data, orig) {
			k.Key("corrupt-noop", fmt.Sprint(desc))
			k.Label("mutations cancelled out")
			return
		}
		if err := os.WriteFile(path, data, 0o600); err != nil {
			fail("write corrupted file: %v", err)
		}
		if keepMtime {
			// in-place damage (bit rot, a stray write) does not announce itself
			// through the modification time
			if err := os.Chtimes(path, before.ModTime(), before.ModTime()); err != nil {
				fail("chtimes: %v", err)
			}
		}
		loader := New(path)
		if sameStore {
			loader = longLived
		}
		got, err := loader.Load(context.Background())
		wellFormed := json.Valid(data)
		// Load is "read the file, validate, decode": whatever the validator refuses
		// for the bytes that are in the file now, Load must refuse too — also when
		// this Store has loaded an earlier content of the file before.
		if _, refErr := state.Decode(data); refErr != nil && err == nil {
			fail("corrupted file (%v; same store=%v, modification time kept=%v, length %d->%d) was loaded without error although its current content is refused by state.Decode (%v)", desc, sameStore, keepMtime, len(orig), len(data), refErr)
		}
		if err == nil {
			verifC19CheckLoaded(fail, got)
			if !bytes.Equal(verifC19Canon(got), verifC19Canon(st)) {
				fail("corrupted file (%v) was loaded as a different state: revision %d (saved %d), cluster %q (saved %q)", desc, got.Revision, st.Revision, got.ClusterID, st.ClusterID)
			}
		}
		k.Key("corrupt", fmt.Sprint(desc), data, sameStore, keepMtime)
		k.SetNonTrivial(wellFormed)
		k.LabelIf(viaSave, "file produced by Store.Save")
		k.LabelIf(sameStore, "loaded through the Store that had loaded the intact file")
		k.LabelIf(sameStore && keepMtime && len(data) == len(orig), "same-length damage, modification time kept, same Store")
		k.LabelIf(err == nil, "accepted: decodes to the very same state")
		k.LabelIf(err != nil && !wellFormed, "rejected: not well-formed JSON")
		k.LabelIf(err != nil && wellFormed && errors.Is(err, state.ErrChecksumMismatch), "rejected: checksum mismatch")
		k.LabelIf(err != nil && wellFormed && errors.Is(err, state.ErrInvalidState), "rejected: invalid state")
		k.LabelIf(err != nil && wellFormed && errors.Is(err, state.ErrUnsupportedSchema), "rejected: schema")
		k.LabelIf(err != nil && wellFormed && !errors.Is(err, state.ErrChecksumMismatch) && !errors.Is(err, state.ErrInvalidState) && !errors.Is(err, state.ErrUnsupportedSchema), "rejected: JSON type/field error")
		k.Sample(func() any { return fmt.Sprintf("mutations=%v len %d->%d err=%v", desc, len(orig), len(data), err) })
	})
}
