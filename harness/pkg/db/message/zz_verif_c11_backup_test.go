package message

// C11 (message side) — backup and restore reproduce committed data exactly.
//
// Source stores are built by the C09 history generator (exact proposals,
// legacy appends, uncommitted suffixes above the checkpoint, retention trims,
// truncations, suffix replacements, epoch points). The cluster-selected cut of
// every channel is its committed watermark. Checked: export -> import into a
// fresh store -> re-export is byte-identical; the restored store holds exactly
// the committed rows with identity / idempotency data and nothing above the
// exported watermark; a re-import is idempotent; corrupted / truncated /
// spliced streams are rejected without touching the target; an import
// interrupted by power loss converges when the restore is run again.
//
// Reuses the C09 harness files of this package (spec file_tags: ["C09"]).

import (
	"bytes"
	"context"
	"encoding/binary"
	"errors"
	"fmt"
	"hash/crc32"
	"io"
	"path/filepath"
	"strings"
	"testing"

	"github.com/WuKongIM/WuKongIM/pkg/db/internal/engine"
	channel "github.com/WuKongIM/WuKongIM/pkg/db/message/channelcompat"
	"github.com/cockroachdb/pebble/v2"
	"github.com/cockroachdb/pebble/v2/vfs"
	"github.com/cockroachdb/pebble/v2/vfs/errorfs"
	"pgregory.net/rapid"
	"verif.local/kit"
)

// verifC11Source is a source store content (the model after a history) with
// the channel cuts the cluster layer would select.
type verifC11Source struct {
	H      *verifC09History
	Final  []*verifC09Chan
	Cuts   []BackupChannelCut
	CutOf  map[int]uint64 // channel index -> exported watermark
	Slot   uint16
	Stream []byte
}

// verifC11Cut picks the exported watermark of a channel: its committed
// watermark (exact channels: the last proposal boundary at or below it, since
// quorum commit advances by whole proposals), never below the adopted
// retention boundary. ok=false when no such boundary exists.
func verifC11Cut(c *verifC09Chan) (uint64, bool) {
	if !c.Exact {
		return c.HW, true
	}
	best, found := uint64(0), c.Adopted == 0
	for _, p := range c.Props {
		if p.M.LastOffset <= c.HW && p.M.LastOffset >= c.Adopted && p.M.LastOffset >= best {
			best, found = p.M.LastOffset, true
		}
	}
	return best, found
}

func verifC11Export(eng *Engine, slot uint16, cuts []BackupChannelCut, withStats bool) ([]byte, BackupSnapshotStats, error) {
	ctx := context.Background()
	var (
		r     io.ReadCloser
		stats BackupSnapshotStats
		err   error
	)
	req := BackupSnapshotRequest{HashSlot: slot, Channels: cuts}
	if withStats {
		r, stats, err = eng.OpenBackupSnapshotWithStats(ctx, req)
	} else {
		r, err = eng.OpenBackupSnapshot(ctx, req)
	}
	if err != nil {
		return nil, stats, err
	}
	data, err := io.ReadAll(r)
	if cerr := r.Close(); err == nil {
		err = cerr
	}
	return data, stats, err
}

// ------------------------------------------------ history generator ----
//
// The C09 generator draws leader-epoch points rarely and only at whatever log
// end the random walk happens to be at. A backup cut is a statement about the
// committed watermark, so the relation between an epoch's first offset and the
// watermark matters: verifC11GenHistory wraps the C09 world and adds what a
// cluster does around a leader change - the first leader records its epoch at
// offset 0, a new leader records its epoch at its log end (BeginEpoch, or
// AppendHistory on the follower side) after the old log was either fully
// committed or not, and then appends proposals that are not committed yet.
// Where the epoch points end up relative to the cut is measured by labels.

const verifC11AppendHistoryKind = "c11-appendhistory"

// verifC11EpochStep records a leader-epoch point at the current log end of an
// exact channel. bump=false is only used for the first point of a channel (the
// epoch the channel was created with).
func verifC11EpochStep(rt *rapid.T, w *verifC09World, ci int, bump bool) verifC09Step {
	c := w.Chans[ci]
	if bump {
		c.Epoch++
	}
	c.Points = append(c.Points, EpochPoint{Epoch: c.Epoch, StartOffset: c.LEO})
	if rapid.IntRange(0, 2).Draw(rt, "viaAppendHistory") == 0 {
		return verifC09Step{Kind: fmt.Sprintf("%s ch%d epoch=%d start=%d", verifC11AppendHistoryKind, ci, c.Epoch, c.LEO), Ch: ci, Epoch: c.Epoch, To: c.LEO}
	}
	return verifC09Step{Kind: "epoch", Ch: ci, Epoch: c.Epoch}
}

// verifC11UncommittedAppend appends one exact proposal without advancing the
// committed watermark (a leader's proposal that has not reached quorum).
func verifC11UncommittedAppend(rt *rapid.T, w *verifC09World, ci int) verifC09Step {
	c := w.Chans[ci]
	prev, _ := c.tail()
	p := w.genProposal(rt, ci, c.LEO, prev, 3)
	app := verifC09App{Ch: ci, Recs: p.Recs, M: p.M, Base: c.LEO, ServerAlloc: rapid.Bool().Draw(rt, "serverAlloc")}
	c.addRecords(p.Recs)
	c.Props = append(c.Props, p)
	return verifC09Step{Kind: "append", Ch: ci, Class: uint8(rapid.IntRange(0, 2).Draw(rt, "class")), Apps: []verifC09App{app}}
}

// verifC11LeaderChange draws the steps of one leader change of an exact
// channel: optionally the old log is fully committed first, the new epoch is
// recorded at the log end, optionally the new leader appends proposals that
// stay uncommitted.
func verifC11LeaderChange(rt *rapid.T, w *verifC09World, ci int, push func(verifC09Step)) {
	c := w.Chans[ci]
	if c.LEO > c.HW && rapid.IntRange(0, 2).Draw(rt, "commitAllBeforeChange") > 0 {
		c.HW, c.HasCP = c.LEO, true
		push(verifC09Step{Kind: "checkpoint", Ch: ci, HWs: []verifC09HW{{Ch: ci, HW: c.LEO}}})
	}
	push(verifC11EpochStep(rt, w, ci, true))
	for n := rapid.IntRange(0, 2).Draw(rt, "uncommittedAfterChange"); n > 0; n-- {
		push(verifC11UncommittedAppend(rt, w, ci))
	}
}

func verifC11GenHistory(rt *rapid.T, minSteps, maxSteps, reopenPct int) *verifC09History {
	w := verifC09NewWorld(rt)
	h := &verifC09History{}
	n := maxSteps - rapid.IntRange(0, maxSteps-minSteps).Draw(rt, "nStepsBelowMax")
	h.States = append(h.States, w.snapshot())
	var exact []int
	for ci, c := range w.Chans {
		if c.Exact {
			exact = append(exact, ci)
		}
	}
	push := func(st verifC09Step) {
		h.Steps = append(h.Steps, st)
		h.States = append(h.States, w.snapshot())
	}
	pushChange := func(ci int) { verifC11LeaderChange(rt, w, ci, push) }
	for _, ci := range exact {
		if rapid.IntRange(0, 3).Draw(rt, "firstEpochPoint") > 0 {
			push(verifC11EpochStep(rt, w, ci, false))
		}
	}
	var warm []string
	warmCh := 0
	if rapid.Bool().Draw(rt, "warmUp") {
		warm = []string{"append", "append", "checkpoint", "adopt"}
		warmCh = rapid.IntRange(0, len(w.Chans)-1).Draw(rt, "warmChannel")
	}
	// n counts the C09 steps; leader changes are extra, so the C09 step mix
	// (retention trims need a long append/commit/adopt chain) is not diluted
	for i := 0; i < n; i++ {
		if i < len(warm) {
			push(w.genChanStep(rt, warmCh, false, warm[i]))
			continue
		}
		if rapid.IntRange(0, 99).Draw(rt, "leaderChange") >= 90 {
			pushChange(rapid.SampledFrom(exact).Draw(rt, "changeChannel"))
		}
		push(w.genStep(rt, reopenPct))
	}
	if rapid.Bool().Draw(rt, "finalLeaderChange") {
		pushChange(rapid.SampledFrom(exact).Draw(rt, "changeChannel"))
	}
	h.Chans = w.snapshot()
	h.Uni = w.Uni
	return h
}

// verifC11RunStep executes one step: the C11-only AppendHistory step here,
// everything else through the C09 executor.
func verifC11RunStep(eng *Engine, path string, h *verifC09History, i int) (*Engine, string) {
	st := &h.Steps[i]
	if !strings.HasPrefix(st.Kind, verifC11AppendHistoryKind) {
		return verifC09RunStep(eng, path, h, i)
	}
	s, err := verifC09Store(eng, h.Chans[st.Ch])
	if err != nil {
		return eng, fmt.Sprintf("step %s: ForChannel: %v", st.Kind, err)
	}
	defer s.Close()
	leo, err := s.LEOWithError()
	if err != nil || leo != st.To {
		return eng, fmt.Sprintf("step %s: log end %d (%v), model %d", st.Kind, leo, err, st.To)
	}
	if err := s.AppendHistory(channel.EpochPoint{Epoch: st.Epoch, StartOffset: st.To}); err != nil {
		return eng, fmt.Sprintf("step %s: caller-valid mutation refused: %v", st.Kind, err)
	}
	return eng, ""
}

// verifC11HistoryThrough is the reference epoch history of a log cut at hw:
// every point whose first offset is at or below hw. This is what the store
// itself leaves when a log is truncated to hw (TruncateLogAndHistory,
// TruncateHistoryTo: "removes history points after leo"): an epoch that begins
// exactly at the log end is part of the log - it is the epoch of the cut's
// checkpoint when the leader changed with nothing newer committed since.
func verifC11HistoryThrough(points []EpochPoint, hw uint64) []channel.EpochPoint {
	var out []channel.EpochPoint
	for _, p := range points {
		if p.StartOffset <= hw {
			out = append(out, channel.EpochPoint{Epoch: p.Epoch, StartOffset: p.StartOffset})
		}
	}
	return out
}

// verifC11CheckHistory compares the epoch history of a store with want.
func verifC11CheckHistory(s *ChannelStore, want []channel.EpochPoint) string {
	got, err := s.LoadHistory()
	if len(want) == 0 {
		if err == nil || !errors.Is(err, channel.ErrEmptyState) {
			return fmt.Sprintf("epoch history %+v (%v), want none", got, err)
		}
		return ""
	}
	if err != nil {
		return fmt.Sprintf("epoch history: %v, want %+v", err, want)
	}
	if len(got) != len(want) {
		return fmt.Sprintf("epoch history %+v, want %+v", got, want)
	}
	for i := range got {
		if got[i] != want[i] {
			return fmt.Sprintf("epoch history %+v, want %+v", got, want)
		}
	}
	return ""
}

// verifC11BuildSource runs a generated history on a fresh in-memory store and
// exports it.
func verifC11BuildSource(rt *rapid.T, dir string, maxSteps int) (*verifC11Source, func()) {
	mem := vfs.NewMem()
	engine.VerifPebbleOptions = func(o *pebble.Options) {
		o.Logger = verifC09QuietLogger{}
		o.FS = mem
	}
	h := verifC11GenHistory(rt, 6, maxSteps, 3)
	path := filepath.Join(dir, "src")
	eng, err := verifC09OpenEngine(path, nil)
	if err != nil {
		rt.Fatalf("open source: %v", err)
	}
	closeSrc := func() {
		if eng != nil {
			_ = eng.Close()
			eng = nil
		}
	}
	for i := range h.Steps {
		var s string
		eng, s = verifC11RunStep(eng, path, h, i)
		if s != "" {
			closeSrc()
			rt.Fatalf("source history: %s\n%s", s, h.trace(i+1))
		}
	}
	// the reference epoch history is the model's: make sure the source store
	// really holds it before anything is exported
	for _, c := range h.States[len(h.Steps)] {
		s, err := verifC09Store(eng, c)
		if err != nil {
			closeSrc()
			rt.Fatalf("source history: %v", err)
		}
		msg := verifC11CheckHistory(s, verifC11HistoryThrough(c.Points, ^uint64(0)))
		s.Close()
		if msg != "" {
			closeSrc()
			rt.Fatalf("source history: channel %s: %s (model of the source store)\n%s", c.Key, msg, h.trace(len(h.Steps)))
		}
	}
	src := &verifC11Source{H: h, Final: h.States[len(h.Steps)], CutOf: map[int]uint64{}, Slot: uint16(rapid.IntRange(0, 1023).Draw(rt, "hashSlot"))}
	for ci, c := range src.Final {
		hw, ok := verifC11Cut(c)
		if !ok {
			continue
		}
		src.CutOf[ci] = hw
		src.Cuts = append(src.Cuts, BackupChannelCut{Key: ChannelKey(c.Key), ID: ChannelID{ID: c.ID.ID, Type: c.ID.Type},
			Checkpoint: Checkpoint{Epoch: c.Epoch, HW: hw}})
	}
	if len(src.Cuts) == 0 {
		closeSrc()
		rt.Skip("no channel with an exportable cut")
	}
	withStats := rapid.Bool().Draw(rt, "exportWithStats")
	data, stats, err := verifC11Export(eng, src.Slot, src.Cuts, withStats)
	if err != nil {
		closeSrc()
		rt.Fatalf("export of a consistent source store failed: %v\nhistory:\n%s", err, h.trace(len(h.Steps)))
	}
	if withStats {
		var wantCount, wantMax uint64
		for ci, hw := range src.CutOf {
			for seq, row := range src.Final[ci].Rows {
				if seq <= hw {
					wantCount++
					if row.ID > wantMax {
						wantMax = row.ID
					}
				}
			}
		}
		if stats.HashSlot != src.Slot || stats.ChannelCount != uint64(len(src.Cuts)) || stats.MessageCount != wantCount || stats.MaxMessageID != wantMax {
			closeSrc()
			rt.Fatalf("export stats %+v, want slot %d channels %d messages %d max id %d", stats, src.Slot, len(src.Cuts), wantCount, wantMax)
		}
	}
	src.Stream = data
	return src, closeSrc
}

// verifC11CheckRestored compares a restored store with the model restricted to
// the exported watermark.
func verifC11CheckRestored(eng *Engine, src *verifC11Source) string {
	ctx := context.Background()
	for ci, c := range src.Final {
		hw, exported := src.CutOf[ci]
		s, err := verifC09Store(eng, c)
		if err != nil {
			return err.Error()
		}
		rows, err := s.log.readRows(ctx, 1, 0, ReadOptions{})
		if err != nil {
			s.Close()
			return fmt.Sprintf("channel %s: read rows: %v", c.Key, err)
		}
		want := map[uint64]verifC09Row{}
		if exported {
			for seq, row := range c.Rows {
				if seq <= hw {
					want[seq] = row
				}
			}
		}
		if len(rows) != len(want) {
			s.Close()
			return fmt.Sprintf("channel %s: restored %d rows, want the %d committed retained rows through %d", c.Key, len(rows), len(want), hw)
		}
		for _, r := range rows {
			m, ok := want[r.MessageSeq]
			if !ok || m.ID != r.MessageID || m.From != r.FromUID || m.CNo != r.ClientMsgNo || !bytes.Equal(m.Payload, r.Payload) {
				s.Close()
				return fmt.Sprintf("channel %s: restored row %d (id %d) is not the committed source row", c.Key, r.MessageSeq, r.MessageID)
			}
			if r.MessageSeq > hw {
				s.Close()
				return fmt.Sprintf("channel %s: restored row %d above the exported watermark %d", c.Key, r.MessageSeq, hw)
			}
		}
		// identity and idempotency data of every committed row; nothing else
		for seq, row := range c.Rows {
			_, in := want[seq]
			msg, ok, err := s.GetMessageByMessageID(row.ID)
			if err != nil || ok != in || (ok && msg.MessageSeq != seq) {
				s.Close()
				return fmt.Sprintf("channel %s: message id %d (seq %d, exported=%v): lookup found=%v seq=%d err=%v", c.Key, row.ID, seq, in, ok, msg.MessageSeq, err)
			}
			if row.From != "" && row.CNo != "" {
				ent, _, ok, err := s.LookupIdempotency(channel.IdempotencyKey{ChannelID: c.ID, FromUID: row.From, ClientMsgNo: row.CNo})
				if err != nil || ok != in || (ok && (ent.MessageSeq != seq || ent.MessageID != row.ID)) {
					s.Close()
					return fmt.Sprintf("channel %s: idempotency key %s/%s (seq %d, exported=%v): found=%v entry=%+v err=%v", c.Key, row.From, row.CNo, seq, in, ok, ent, err)
				}
			}
		}
		// epoch history: the source history of the log cut at the exported
		// watermark (nothing for a channel that was not exported)
		var wantHist []channel.EpochPoint
		if exported {
			wantHist = verifC11HistoryThrough(c.Points, hw)
		}
		if msg := verifC11CheckHistory(s, wantHist); msg != "" {
			s.Close()
			return fmt.Sprintf("channel %s: restored %s (source history %+v truncated to the exported watermark %d, exported=%v)", c.Key, msg, c.Points, hw, exported)
		}
		if exported {
			cp, err := s.LoadCheckpoint()
			if err != nil || cp.HW != hw || cp.Epoch != c.Epoch {
				s.Close()
				return fmt.Sprintf("channel %s: restored checkpoint %+v (%v), want HW %d epoch %d", c.Key, cp, err, hw, c.Epoch)
			}
			leo, err := s.LEOWithError()
			if err != nil || leo != hw {
				s.Close()
				return fmt.Sprintf("channel %s: restored log end %d (%v): nothing may exist above the exported watermark %d", c.Key, leo, err, hw)
			}
			if c.Exact {
				fr, err := s.LoadDurableFrontier(ctx)
				if err != nil {
					s.Close()
					return fmt.Sprintf("channel %s: restored exact frontier: %v", c.Key, err)
				}
				wantTail, _ := c.tailAt(hw)
				if fr.LEO != hw || fr.Committed != hw || (hw > 0 && fr.TailIdentity != wantTail) {
					s.Close()
					return fmt.Sprintf("channel %s: restored frontier %+v, want log end/committed %d with the source tail identity", c.Key, fr, hw)
				}
			}
		}
		s.Close()
	}
	return ""
}

func verifC11FreshTarget(dir, name string) (*Engine, string, vfs.FS) {
	mem := vfs.NewMem()
	engine.VerifPebbleOptions = func(o *pebble.Options) {
		o.Logger = verifC09QuietLogger{}
		o.FS = mem
	}
	path := filepath.Join(dir, name)
	eng, err := verifC09OpenEngine(path, nil)
	if err != nil {
		panic(err)
	}
	return eng, path, mem
}

func verifC11Import(eng *Engine, data []byte, viaReader bool) (BackupSnapshotStats, error) {
	if viaReader {
		return eng.ImportBackupSnapshotReader(context.Background(), bytes.NewReader(data), int64(len(data)))
	}
	return eng.ImportBackupSnapshot(context.Background(), data)
}

// verifC11DiscardAll is the documented cleanup of a failed restore
// (MessageDBFactory.DiscardChannelsForRestore).
func verifC11DiscardAll(eng *Engine, src *verifC11Source) string {
	for ci := range src.CutOf {
		s, err := verifC09Store(eng, src.Final[ci])
		if err != nil {
			return err.Error()
		}
		err = s.DiscardForRestore(context.Background())
		s.Close()
		if err != nil {
			return fmt.Sprintf("DiscardForRestore(%s): %v", src.Final[ci].Key, err)
		}
	}
	return ""
}

func verifC11Labels(k *kit.Case, src *verifC11Source) (trimmed, suffix bool) {
	for ci, hw := range src.CutOf {
		c := src.Final[ci]
		if c.Physical > 0 {
			trimmed = true
		}
		if c.LEO > hw {
			suffix = true
		}
	}
	var at, atZero, atPos, below, above, cpEpochAt, none bool
	for ci, hw := range src.CutOf {
		c := src.Final[ci]
		if len(c.Points) == 0 {
			none = true
		}
		for _, p := range c.Points {
			switch {
			case p.StartOffset == hw:
				at = true
				atZero = atZero || hw == 0
				atPos = atPos || hw > 0
				cpEpochAt = cpEpochAt || p.Epoch == c.Epoch
			case p.StartOffset < hw:
				below = true
			default:
				above = true
			}
		}
	}
	k.LabelIf(at, "backup history: an epoch point exactly at the cut")
	k.LabelIf(atZero, "backup history: an epoch point exactly at the cut, hw=0")
	k.LabelIf(atPos, "backup history: an epoch point exactly at the cut, hw>0")
	k.LabelIf(cpEpochAt, "backup history: the checkpoint's epoch begins exactly at the cut")
	k.LabelIf(below, "backup history: an epoch point strictly below the cut")
	k.LabelIf(above, "backup history: an epoch point above the cut (not exported)")
	k.LabelIf(at && below && above, "backup history: points below, at and above a cut in one stream")
	k.LabelIf(none, "backup history: an exported channel without epoch points")
	k.LabelIf(trimmed, "backup: stream contains a retention-trimmed channel")
	k.LabelIf(suffix, "backup: source has an uncommitted suffix above the cut")
	k.LabelIf(len(src.CutOf) > 1, "backup: multi-channel stream")
	return
}

// TestVerifC11MessageRoundTrip: export / import / re-export identity, restored
// content, idempotent re-import.
func TestVerifC11MessageRoundTrip(t *testing.T) {
	maxSteps := kit.Scale("C11_STEPS", 30, 60)
	kit.Check(t, "C11", func(rt *rapid.T, k *kit.Case) {
		dir, clean := kit.TempDir()
		defer clean()
		defer func() { engine.VerifPebbleOptions = nil }()
		src, closeSrc := verifC11BuildSource(rt, dir, maxSteps)
		defer closeSrc()
		viaReader := rapid.IntRange(0, 3).Draw(rt, "viaReader") > 0
		dst, _, _ := verifC11FreshTarget(dir, "dst")
		defer dst.Close()
		stats, err := verifC11Import(dst, src.Stream, viaReader)
		if err != nil {
			rt.Fatalf("import of a pristine export failed: %v\nhistory:\n%s", err, src.H.trace(len(src.H.Steps)))
		}
		if stats.HashSlot != src.Slot || stats.ChannelCount != uint64(len(src.Cuts)) {
			rt.Fatalf("import stats %+v, want slot %d and %d channels", stats, src.Slot, len(src.Cuts))
		}
		if s := verifC11CheckRestored(dst, src); s != "" {
			rt.Fatalf("%s\nhistory:\n%s", s, src.H.trace(len(src.H.Steps)))
		}
		again, _, err := verifC11Export(dst, src.Slot, src.Cuts, false)
		if err != nil {
			rt.Fatalf("re-export of the restored store failed: %v\nhistory:\n%s", err, src.H.trace(len(src.H.Steps)))
		}
		if !bytes.Equal(again, src.Stream) {
			rt.Fatalf("re-export of the restored store differs from the export (%d vs %d bytes, first difference at %d)\nhistory:\n%s", len(again), len(src.Stream), verifC11FirstDiff(again, src.Stream), src.H.trace(len(src.H.Steps)))
		}
		// an exact retry is idempotent
		before, err := verifC09DumpAll(dst, src.H)
		if err != nil {
			rt.Fatalf("dump: %v", err)
		}
		if _, err := verifC11Import(dst, src.Stream, !viaReader); err != nil {
			rt.Fatalf("repeated import of the same snapshot failed: %v", err)
		}
		after, err := verifC09DumpAll(dst, src.H)
		if err != nil {
			rt.Fatalf("dump: %v", err)
		}
		for ci := range after {
			if after[ci] != before[ci] {
				rt.Fatalf("channel %s: repeated import changed the restored state: %s", src.Final[ci].Key, verifC09DiffLine(after[ci], before[ci]))
			}
		}
		trimmed, suffix := verifC11Labels(k, src)
		k.Key("roundtrip", src.H.trace(len(src.H.Steps)), fmt.Sprint(src.CutOf), viaReader)
		k.SetNonTrivial(trimmed && suffix)
		k.LabelIf(viaReader, "backup: imported through the seekable reader")
		k.LabelIf(!viaReader, "backup: imported from bytes")
		k.Sample(func() any {
			return fmt.Sprintf("cuts %v stream %d bytes; history: %s", src.CutOf, len(src.Stream), strings.ReplaceAll(src.H.trace(len(src.H.Steps)), "\n", " ; "))
		})
	})
}

func verifC11FirstDiff(a, b []byte) int {
	n := len(a)
	if len(b) < n {
		n = len(b)
	}
	for i := 0; i < n; i++ {
		if a[i] != b[i] {
			return i
		}
	}
	return n
}

func verifC11FixCRC(data []byte) []byte {
	if len(data) < 4 {
		return data
	}
	out := append([]byte(nil), data...)
	binary.BigEndian.PutUint32(out[len(out)-4:], crc32.ChecksumIEEE(out[:len(out)-4]))
	return out
}

// TestVerifC11MessageCorruption: one generated mutation of a valid stream
// (bit flip, byte set/insert/delete/duplicate/zero, truncation, splice of two
// streams, a field edit with the checksum recomputed) must be rejected and
// must leave the target untouched; after the documented cleanup the pristine
// stream restores the exact state.
func TestVerifC11MessageCorruption(t *testing.T) {
	maxSteps := kit.Scale("C11_CORRUPT_STEPS", 18, 40)
	kit.Check(t, "C11", func(rt *rapid.T, k *kit.Case) {
		dir, clean := kit.TempDir()
		defer clean()
		defer func() { engine.VerifPebbleOptions = nil }()
		src, closeSrc := verifC11BuildSource(rt, dir, maxSteps)
		closeSrc()
		kind := rapid.SampledFrom([]string{"byte", "byte", "byte", "truncate", "splice", "semantic", "semantic"}).Draw(rt, "corruption")
		var bad []byte
		crcValid := false
		pos := 0
		switch kind {
		case "byte":
			var m kit.Mutation
			bad, m = kit.Mutate(rt, src.Stream)
			pos = m.Pos
		case "truncate":
			pos = rapid.IntRange(0, len(src.Stream)-1).Draw(rt, "cutAt")
			bad = append([]byte(nil), src.Stream[:pos]...)
		case "splice":
			// head of this stream + tail of another valid stream
			other, closeOther := verifC11BuildSource(rt, dir, 12)
			closeOther()
			pos = rapid.IntRange(1, len(src.Stream)-1).Draw(rt, "spliceAt")
			at := rapid.IntRange(0, len(other.Stream)-1).Draw(rt, "spliceFrom")
			bad = append(append([]byte(nil), src.Stream[:pos]...), other.Stream[at:]...)
			if bytes.Equal(bad, other.Stream) {
				rt.Skip("splice reproduced the other valid stream")
			}
		case "semantic":
			// a field edit that keeps the checksum valid: only semantic validation can refuse it
			var m kit.Mutation
			bad, m = kit.Mutate(rt, src.Stream[:len(src.Stream)-4])
			pos = m.Pos
			bad = verifC11FixCRC(append(bad, 0, 0, 0, 0))
			crcValid = true
		}
		if bytes.Equal(bad, src.Stream) {
			rt.Skip("mutation reproduced the original stream")
		}
		viaReader := crcValid || rapid.IntRange(0, 3).Draw(rt, "viaReader") > 0
		dst, _, _ := verifC11FreshTarget(dir, "dst")
		defer dst.Close()
		empty, err := verifC09DumpAll(dst, src.H)
		if err != nil {
			rt.Fatalf("dump: %v", err)
		}
		_, ierr := verifC11Import(dst, bad, viaReader)
		after, err := verifC09DumpAll(dst, src.H)
		if err != nil {
			rt.Fatalf("dump: %v", err)
		}
		switch {
		case ierr == nil && !crcValid:
			rt.Fatalf("a corrupted stream (%s at byte %d of %d) was accepted\nhistory:\n%s", kind, pos, len(src.Stream), src.H.trace(len(src.H.Steps)))
		case ierr == nil:
			// A checksum-preserving edit that passes every validation of the
			// importer is another stream, outside the property: the importer may
			// normalise it (it bounds the retention row and cursors by the
			// watermark) and the exporter may refuse an edited checkpoint as a
			// cut, so nothing is asserted beyond "no error, no panic".
			k.Label("corruption: checksum-valid edit yielded a stream the importer accepts")
		default:
			for ci := range after {
				if after[ci] != empty[ci] {
					rt.Fatalf("channel %s: a rejected stream (%s at byte %d of %d, error %v) was partially applied: %s\nhistory:\n%s", src.Final[ci].Key, kind, pos, len(src.Stream), ierr,
						verifC09DiffLine(after[ci], empty[ci]), src.H.trace(len(src.H.Steps)))
				}
			}
		}
		if ierr != nil {
			// cleanup + pristine restore
			if s := verifC11DiscardAll(dst, src); s != "" {
				rt.Fatalf("cleanup after the rejected stream: %s", s)
			}
			if _, err := verifC11Import(dst, src.Stream, true); err != nil {
				rt.Fatalf("pristine stream after a rejected one: %v", err)
			}
			if s := verifC11CheckRestored(dst, src); s != "" {
				rt.Fatalf("after a rejected stream and cleanup: %s", s)
			}
			again, _, err := verifC11Export(dst, src.Slot, src.Cuts, false)
			if err != nil || !bytes.Equal(again, src.Stream) {
				rt.Fatalf("after a rejected stream and cleanup the re-export differs (err %v)", err)
			}
		}
		verifC11Labels(k, src)
		k.Key("corrupt", kind, pos, len(src.Stream), src.H.trace(len(src.H.Steps)))
		k.SetNonTrivial(pos >= 12)
		k.Label("corruption: " + kind)
		k.LabelIf(pos >= 12, "corruption: beyond the stream header")
		k.LabelIf(ierr != nil && crcValid, "corruption: checksum-valid edit refused by semantic validation")
		k.Sample(func() any { return fmt.Sprintf("%s at byte %d of %d -> %v", kind, pos, len(src.Stream), ierr) })
	})
}

// verifC11CutsOfStream reads the channel cuts a (valid) stream declares.
func verifC11CutsOfStream(data []byte) ([]BackupChannelCut, error) {
	var cuts []BackupChannelCut
	_, err := ReplayBackupSnapshotReader(context.Background(), bytes.NewReader(data), int64(len(data)),
		func(b BackupSnapshotBoundary) error {
			cuts = append(cuts, BackupChannelCut{Key: ChannelKey(b.ChannelKey), ID: ChannelID{ID: b.ChannelID, Type: b.ChannelType},
				Checkpoint: Checkpoint{Epoch: b.Epoch, LogStartOffset: b.LogStartOffset, HW: b.HW}})
			return nil
		}, func(BackupSnapshotRecord) error { return nil })
	return cuts, err
}

// TestVerifC11MessageCrashRetry: the import runs on CrashableMem; a crash image
// is taken before the durability FS calls of the import (generated stride);
// every image is reopened and the restore is run again (production order:
// discard the partition's channels, import) or re-imported directly; the
// result must be the state of an uninterrupted restore.
func TestVerifC11MessageCrashRetry(t *testing.T) {
	maxSteps := kit.Scale("C11_CRASH_STEPS", 24, 50)
	col := kit.For(t, "C11")
	kit.Check(t, "C11", func(rt *rapid.T, k *kit.Case) {
		dir, clean := kit.TempDir()
		defer clean()
		defer func() { engine.VerifPebbleOptions = nil }()
		src, closeSrc := verifC11BuildSource(rt, dir, maxSteps)
		closeSrc()
		// reference: an uninterrupted restore
		refEng, _, _ := verifC11FreshTarget(dir, "ref")
		if _, err := verifC11Import(refEng, src.Stream, true); err != nil {
			refEng.Close()
			rt.Fatalf("reference import: %v", err)
		}
		want, err := verifC09DumpAll(refEng, src.H)
		refEng.Close()
		if err != nil {
			rt.Fatalf("dump: %v", err)
		}

		const maxImages = 6
		ctl := &verifC09CrashCtl{stride: rapid.IntRange(1, 3).Draw(rt, "stride")}
		ctl.first = rapid.IntRange(0, ctl.stride).Draw(rt, "first")
		for i := 0; i < maxImages; i++ {
			ctl.pcts = append(ctl.pcts, rapid.SampledFrom([]int{0, 0, 50, 50, 100}).Draw(rt, "unsyncedPercent"))
			ctl.seeds = append(ctl.seeds, rapid.Uint64().Draw(rt, "cloneSeed"))
		}
		mem := vfs.NewCrashableMem()
		ctl.mem = mem
		var fs vfs.FS = errorfs.Wrap(mem, errorfs.InjectorFunc(ctl.onOp))
		engine.VerifPebbleOptions = func(o *pebble.Options) {
			o.Logger = verifC09QuietLogger{}
			o.FS = fs
		}
		path := filepath.Join(dir, "dst")
		eng, err := verifC09OpenEngine(path, nil)
		if err != nil {
			rt.Fatalf("open: %v", err)
		}
		ctl.mu.Lock()
		ctl.armed = true
		ctl.mu.Unlock()
		_, ierr := verifC11Import(eng, src.Stream, true)
		ctl.mu.Lock()
		ctl.armed = false
		images, calls := ctl.images, ctl.calls
		ctl.mu.Unlock()
		_ = eng.Close()
		if ierr != nil {
			rt.Fatalf("import: %v", ierr)
		}
		direct := rapid.Bool().Draw(rt, "retryWithoutDiscard")
		partial := 0
		for _, img := range images {
			fs = img.FS
			where := fmt.Sprintf("power loss before durability FS call #%d of %d of the import, %d%% unsynced kept", img.Call, calls, img.Pct)
			eng, err := verifC09OpenEngine(path, nil)
			if err != nil {
				rt.Fatalf("%s: store does not open: %v", where, err)
			}
			got, err := verifC09DumpAll(eng, src.H)
			if err != nil {
				eng.Close()
				rt.Fatalf("%s: dump: %v", where, err)
			}
			same := true
			for ci := range got {
				same = same && got[ci] == want[ci]
			}
			if !same {
				partial++
			}
			if !direct {
				if s := verifC11DiscardAll(eng, src); s != "" {
					eng.Close()
					rt.Fatalf("%s: %s", where, s)
				}
			}
			if _, err := verifC11Import(eng, src.Stream, true); err != nil {
				eng.Close()
				rt.Fatalf("%s: retried restore (discard first: %v) failed: %v\nhistory:\n%s", where, !direct, err, src.H.trace(len(src.H.Steps)))
			}
			got, err = verifC09DumpAll(eng, src.H)
			if err != nil {
				eng.Close()
				rt.Fatalf("%s: dump: %v", where, err)
			}
			for ci := range got {
				if got[ci] != want[ci] {
					eng.Close()
					rt.Fatalf("%s: retried restore (discard first: %v) does not converge on channel %s: %s\nhistory:\n%s", where, !direct, src.Final[ci].Key,
						verifC09DiffLine(got[ci], want[ci]), src.H.trace(len(src.H.Steps)))
				}
			}
			again, _, err := verifC11Export(eng, src.Slot, src.Cuts, false)
			eng.Close()
			if err != nil || !bytes.Equal(again, src.Stream) {
				rt.Fatalf("%s: re-export after the retried restore differs from the export (err %v)", where, err)
			}
		}
		col.AddExtra("crashretry_images", int64(len(images)))
		verifC11Labels(k, src)
		k.Key("crashretry", ctl.first, ctl.stride, fmt.Sprint(ctl.pcts), src.H.trace(len(src.H.Steps)))
		k.SetNonTrivial(partial > 0)
		k.LabelIf(partial > 0, "crashretry: an image held a partially imported snapshot")
		k.LabelIf(direct, "crashretry: retried by direct re-import")
		k.LabelIf(!direct, "crashretry: retried by discard + import (production order)")
		k.Sample(func() any {
			return fmt.Sprintf("import made %d durability FS calls, %d images, %d partial; stream %d bytes", calls, len(images), partial, len(src.Stream))
		})
	})
}
