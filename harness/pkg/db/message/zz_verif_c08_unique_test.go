package message

// C08 — within a channel a (sender, client message number) pair maps to at
// most one stored message; a message id is stored at most once per node.
// Reuses the C07 reference model / driver (file_tags: c07) with a generator
// biased to collisions: 6x6 key pool, 30-id pool, duplicates inside a batch,
// across batches, across channels (ids), after truncation / trim of the
// holder, after lease reclamation (warm and evicted filter state), after
// whole-DB reopen, and behind a saturated negative membership filter.
//
// Exact re-submissions: a record whose (sender, client number) AND message id
// (and payload) equal those of a row that is still stored — the retry of a
// sequenced proposal — is appended again in allocator-issued-id mode (and in
// strict mode), alone or inside a multi-record batch, right away, after lease
// reclamation, after a whole-DB reopen and behind a saturated filter. The
// message-id lookup is skipped in that mode by design, so the refusal has to
// come from the idempotency path; "a retry never creates a second message".
// A truncated tail is also re-applied verbatim at the same sequences (the
// follower replay after a divergent-tail cut), which must be accepted and
// leave exactly one copy.

import (
	"fmt"
	"strings"
	"testing"

	"pgregory.net/rapid"
	"verif.local/kit"
)

var (
	verifC08Senders = []string{"a", "b", "c", "d", "e", "ab"}
	verifC08Numbers = []string{"1", "2", "3", "4", "5", "12"}
)

type verifC08State struct {
	h         *verifC07H
	idBase    uint64
	fresh     uint64
	saturated map[int]bool
	trace     int

	// measured
	dupRejAfterReload, dupRejAfterSaturation, dupRejInBatch, dupRejAcrossBatch, dupRejID, dupRejIDCross bool
	acceptAfterFree                                                                                    bool
	freed                                                                                               map[int]map[IdempotencyKey]bool
	nRejected, nAccepted                                                                                int

	// reloads per channel: log end at the last reload (rows at or below it were
	// stored before the filter state was reclaimed) and whether it was cold
	reloadLEO  map[int]uint64
	reloadCold map[int]bool
	removed    map[int][]verifC07Row // rows cut off by truncateTail / reapplyTail

	resubSA, resubSAReloadCold, resubSAReloadWarm, resubSAMulti, resubSANotFirst, resubSASaturated bool
	resubStrict, resubRemovedAccepted, resubRemovedRejected                                        bool
	reapplyFetch, reapplyTrusted, reapplyValidating, reapplyAfterReload                            bool
	nResubSA                                                                                       int
}

// verifC08RowRecord is the record a caller holds for a stored row: the exact
// re-submission of that message.
func verifC08RowRecord(r verifC07Row) Record {
	return Record{ID: r.ID, FromUID: r.FromUID, ClientMsgNo: r.ClientMsgNo, ServerTimestampMS: r.TS,
		Payload: append([]byte(nil), r.Payload...)}
}

func verifC08Keyed(r verifC07Row) bool { return r.FromUID != "" && r.ClientMsgNo != "" }

// closeLeases / reopen wrap the driver and remember which rows predate the
// reload of the channel's filter state.
func (s *verifC08State) closeLeases(ci int) {
	h := s.h
	if len(h.s.leases[ci]) == 0 {
		h.acquire(ci)
	}
	cold := h.nColdReclaim
	h.closeLeases(ci)
	s.reloadLEO[ci] = h.m.chans[ci].leo
	s.reloadCold[ci] = h.nColdReclaim > cold
}

func (s *verifC08State) reopen(closeLeasesFirst bool) {
	s.h.reopen(closeLeasesFirst)
	for ci, c := range s.h.m.chans {
		s.reloadLEO[ci] = c.leo
		s.reloadCold[ci] = true
	}
}

// truncated: sequences above the new log end will be assigned again.
func (s *verifC08State) truncated(ci int) {
	if leo := s.h.m.chans[ci].leo; s.reloadLEO[ci] > leo {
		s.reloadLEO[ci] = leo
	}
}

// exactOf returns the stored row of ci that r re-submits exactly (same pair and
// same id), if any.
func (s *verifC08State) exactOf(ci int, r Record) (verifC07Row, bool) {
	if r.FromUID == "" || r.ClientMsgNo == "" {
		return verifC07Row{}, false
	}
	c := s.h.m.chans[ci]
	seq, live := c.keys[IdempotencyKey{FromUID: r.FromUID, ClientMsgNo: r.ClientMsgNo}]
	if !live {
		return verifC07Row{}, false
	}
	i, ok := c.find(seq)
	if !ok || c.rows[i].ID != r.ID {
		return verifC07Row{}, false
	}
	return c.rows[i], true
}

// firstCopyOnly: after a refused re-submission the pair and the id are still
// stored once, at the original sequence, and both lookups point there. Asked
// from the store directly, not through the reference maps.
func (s *verifC08State) firstCopyOnly(ci int, orig verifC07Row) {
	h := s.h
	c := h.m.chans[ci]
	k := IdempotencyKey{FromUID: orig.FromUID, ClientMsgNo: orig.ClientMsgNo}
	hit, ok, err := h.log(ci).LookupIdempotency(h.ctx, k)
	if err != nil || !ok || hit.MessageSeq != orig.Seq || hit.MessageID != orig.ID {
		h.fail("after a refused re-submission of %q seq %d (id %d, %q/%q) LookupIdempotency = %+v ok=%v err=%v, want the first copy", c.key, orig.Seq, orig.ID, k.FromUID, k.ClientMsgNo, hit, ok, err)
	}
	msg, ok, err := h.log(ci).GetByMessageID(h.ctx, orig.ID)
	if err != nil || !ok || msg.MessageSeq != orig.Seq {
		h.fail("after a refused re-submission of %q seq %d (id %d) GetByMessageID = seq %d ok=%v err=%v, want the first copy", c.key, orig.Seq, orig.ID, msg.MessageSeq, ok, err)
	}
	if len(c.rows) > 256 {
		return // the log end and the tail were compared already; the final scan reads everything
	}
	msgs, err := h.log(ci).Read(h.ctx, 1, ReadOptions{})
	if err != nil {
		h.fail("Read(%q): %v", c.key, err)
	}
	var pairAt, idAt []uint64
	for _, m := range msgs {
		if m.FromUID == orig.FromUID && m.ClientMsgNo == orig.ClientMsgNo {
			pairAt = append(pairAt, m.MessageSeq)
		}
		if m.MessageID == orig.ID {
			idAt = append(idAt, m.MessageSeq)
		}
	}
	if len(pairAt) != 1 || pairAt[0] != orig.Seq || len(idAt) != 1 || idAt[0] != orig.Seq {
		h.fail("after a refused re-submission %q stores (%q,%q) at seqs %v and id %d at seqs %v, want only seq %d", c.key, orig.FromUID, orig.ClientMsgNo, pairAt, orig.ID, idAt, orig.Seq)
	}
}

func (s *verifC08State) poolKey(rt *rapid.T) (string, string) {
	switch rapid.IntRange(0, 11).Draw(rt, "keyKind") {
	case 0:
		return "", rapid.SampledFrom(verifC08Numbers).Draw(rt, "no")
	case 1:
		return rapid.SampledFrom(verifC08Senders).Draw(rt, "uid"), ""
	default:
		return rapid.SampledFrom(verifC08Senders).Draw(rt, "uid"), rapid.SampledFrom(verifC08Numbers).Draw(rt, "no")
	}
}

func (s *verifC08State) freshID() uint64 {
	s.fresh++
	return s.idBase + 1000 + s.fresh
}

func (s *verifC08State) record(rt *rapid.T, poolIDs bool) Record {
	uid, no := s.poolKey(rt)
	r := Record{FromUID: uid, ClientMsgNo: no, ServerTimestampMS: 1 + int64(rapid.IntRange(0, 1000).Draw(rt, "ts")),
		Payload: []byte{byte(rapid.IntRange(0, 255).Draw(rt, "payload")), 1}}
	if poolIDs && rapid.Bool().Draw(rt, "poolID") {
		r.ID = s.idBase + uint64(rapid.IntRange(1, 30).Draw(rt, "id"))
	} else {
		r.ID = s.freshID()
	}
	return r
}

// validBatch draws a batch a validating leader would have produced for ci:
// fresh ids, keys from the pool that are currently free (or key-less rows).
func (s *verifC08State) validBatch(rt *rapid.T, ci int, n int) []Record {
	c := s.h.m.chans[ci]
	used := map[IdempotencyKey]bool{}
	var recs []Record
	for i := 0; i < n; i++ {
		r := s.record(rt, false)
		k := IdempotencyKey{FromUID: r.FromUID, ClientMsgNo: r.ClientMsgNo}
		if k.FromUID != "" && k.ClientMsgNo != "" {
			if _, live := c.keys[k]; live || used[k] {
				// the leader rejected this one; replicate a unique number instead
				r.ClientMsgNo = fmt.Sprintf("u%d", r.ID)
				k.ClientMsgNo = r.ClientMsgNo
			}
			used[k] = true
		}
		recs = append(recs, r)
	}
	return recs
}

// classify tells which kind of duplicate makes the model reject the batch.
func (s *verifC08State) classify(ci int, recs []Record, mode AppendMode) (inBatchKey, storedKey, inBatchID, storedID, storedIDOther bool) {
	c := s.h.m.chans[ci]
	seenK := map[IdempotencyKey]bool{}
	seenID := map[uint64]bool{}
	for _, r := range recs {
		if seenID[r.ID] {
			inBatchID = true
		}
		seenID[r.ID] = true
		if loc, live := s.h.m.ids[r.ID]; live && mode == AppendStrict {
			storedID = true
			if loc.ch != ci {
				storedIDOther = true
			}
		}
		if r.FromUID == "" || r.ClientMsgNo == "" {
			continue
		}
		k := IdempotencyKey{FromUID: r.FromUID, ClientMsgNo: r.ClientMsgNo}
		if seenK[k] {
			inBatchKey = true
		}
		seenK[k] = true
		if _, live := c.keys[k]; live && mode != AppendTrustedContiguous {
			storedKey = true
		}
	}
	return
}

// after: on rejection nothing changed; on acceptance the mapping is as
// assigned. Looks at the log end, the tail of the log and, for every record of
// the batch, the id on every channel and the key on its channel.
func (s *verifC08State) after(ci int, recs []Record) {
	h := s.h
	c := h.m.chans[ci]
	h.checkLEO(ci)
	from := uint64(0)
	if c.leo > 64 {
		from = c.leo - 64
	}
	h.checkRead(ci, from, ReadOptions{})
	for _, r := range recs {
		if r.ID != 0 {
			for cj := range h.m.chans {
				h.checkByID(cj, r.ID)
			}
		}
		if r.FromUID != "" && r.ClientMsgNo != "" {
			h.checkIdempotency(ci, IdempotencyKey{FromUID: r.FromUID, ClientMsgNo: r.ClientMsgNo})
		}
	}
}

func (s *verifC08State) append(rt *rapid.T, ci int, recs []Record, mode AppendMode) {
	h := s.h
	c := h.m.chans[ci]
	verdict, _ := h.m.appendVerdict(c, recs, mode, 0)
	inBatchKey, storedKey, inBatchID, storedID, storedIDOther := s.classify(ci, recs, mode)
	reloaded := h.nReopen+h.nReclaim > 0
	freedHit := false
	for _, r := range recs {
		if s.freed[ci][IdempotencyKey{FromUID: r.FromUID, ClientMsgNo: r.ClientMsgNo}] {
			freedHit = true
		}
	}
	var origs []verifC07Row
	origFirst := false
	for i, r := range recs {
		if o, ok := s.exactOf(ci, r); ok && mode != AppendTrustedContiguous {
			origs = append(origs, o)
			origFirst = origFirst || i == 0
		}
	}
	accepted := h.doAppend(ci, recs, mode, 0)
	s.after(ci, recs)
	if len(origs) > 0 {
		if accepted {
			h.fail("append to %q in mode %d accepted a batch that re-submits the stored message seq %d (id %d, %q/%q)", c.key, mode, origs[0].Seq, origs[0].ID, origs[0].FromUID, origs[0].ClientMsgNo)
		}
		for _, o := range origs {
			s.firstCopyOnly(ci, o)
		}
		if mode == AppendStrict {
			s.resubStrict = true
		} else {
			s.resubSA = true
			s.nResubSA++
			s.resubSAMulti = s.resubSAMulti || len(recs) > 1
			s.resubSANotFirst = s.resubSANotFirst || !origFirst
			s.resubSASaturated = s.resubSASaturated || s.saturated[ci]
			for _, o := range origs {
				if at, re := s.reloadLEO[ci]; re && o.Seq <= at {
					if s.reloadCold[ci] {
						s.resubSAReloadCold = true
					} else {
						s.resubSAReloadWarm = true
					}
				}
			}
		}
	}
	if accepted {
		s.nAccepted++
		if freedHit {
			s.acceptAfterFree = true
		}
		for _, r := range recs {
			delete(s.freed[ci], IdempotencyKey{FromUID: r.FromUID, ClientMsgNo: r.ClientMsgNo})
		}
		return
	}
	if verdict != verifC07Conflict {
		return
	}
	s.nRejected++
	s.dupRejInBatch = s.dupRejInBatch || inBatchKey || inBatchID
	s.dupRejAcrossBatch = s.dupRejAcrossBatch || storedKey
	s.dupRejID = s.dupRejID || storedID
	s.dupRejIDCross = s.dupRejIDCross || storedIDOther
	if storedKey || storedID {
		if reloaded {
			s.dupRejAfterReload = true
		}
		if s.saturated[ci] && storedKey {
			s.dupRejAfterSaturation = true
		}
	}
}

// markFreed remembers which keys lost their holder (truncate / trim).
func (s *verifC08State) markFreed(ci int, before map[IdempotencyKey]uint64) {
	c := s.h.m.chans[ci]
	for k := range before {
		if _, live := c.keys[k]; !live {
			if s.freed[ci] == nil {
				s.freed[ci] = map[IdempotencyKey]bool{}
			}
			s.freed[ci][k] = true
		}
	}
}

func verifC08CopyKeys(m map[IdempotencyKey]uint64) map[IdempotencyKey]uint64 {
	out := make(map[IdempotencyKey]uint64, len(m))
	for k, v := range m {
		out[k] = v
	}
	return out
}

// scanUnique reads every channel back and counts, independently of the
// model's maps, how often each id and each (sender, number) pair is stored.
func (s *verifC08State) scanUnique() {
	h := s.h
	ids := map[uint64]string{}
	for ci, c := range h.m.chans {
		msgs, err := h.log(ci).Read(h.ctx, 1, ReadOptions{})
		if err != nil {
			h.fail("final Read(%q): %v", c.key, err)
		}
		keys := map[IdempotencyKey]uint64{}
		for _, m := range msgs {
			where := fmt.Sprintf("%q seq %d", c.key, m.MessageSeq)
			if prev, dup := ids[m.MessageID]; dup {
				h.fail("message id %d is stored twice: at %s and at %s", m.MessageID, prev, where)
			}
			ids[m.MessageID] = where
			if m.FromUID == "" || m.ClientMsgNo == "" {
				continue
			}
			k := IdempotencyKey{FromUID: m.FromUID, ClientMsgNo: m.ClientMsgNo}
			if prev, dup := keys[k]; dup {
				h.fail("channel %q stores (sender %q, client number %q) twice: seq %d and seq %d", c.key, k.FromUID, k.ClientMsgNo, prev, m.MessageSeq)
			}
			keys[k] = m.MessageSeq
		}
	}
}

func TestVerifC08UniqueKeysAndIDs(t *testing.T) {
	satRows := kit.Scale("C08_SATURATE", 1500, 3000)
	kit.Check(t, "C08", func(rt *rapid.T, k *kit.Case) {
		nch := rapid.IntRange(2, 3).Draw(rt, "channels")
		keys := make([]ChannelKey, nch)
		ids := make([]ChannelID, nch)
		for i := range keys {
			keys[i] = ChannelKey(fmt.Sprintf("k%d", i))
			ids[i] = ChannelID{ID: fmt.Sprintf("k%d", i), Type: 1}
		}
		onDisk := rapid.IntRange(0, 11).Draw(rt, "onDisk") == 0
		warm := rapid.SampledFrom([]int{-1, -1, 0, 1}).Draw(rt, "warmBound")
		h := verifC07NewH(rt, keys, ids, onDisk, warm, true)
		defer h.s.destroy()
		s := &verifC08State{h: h, saturated: map[int]bool{}, freed: map[int]map[IdempotencyKey]bool{},
			reloadLEO: map[int]uint64{}, reloadCold: map[int]bool{}, removed: map[int][]verifC07Row{}}
		s.idBase = rapid.SampledFrom([]uint64{0, 1 << 40, ^uint64(0) - 5_000_000}).Draw(rt, "idBase")
		maySaturate := rapid.IntRange(0, kit.Scale("C08_SATURATE_ONE_IN", 7, 2)).Draw(rt, "maySaturate") == 0
		ch := func(rt *rapid.T) int { return rapid.IntRange(0, nch-1).Draw(rt, "ch") }
		batch := func(rt *rapid.T, poolIDs bool) []Record {
			n := rapid.IntRange(1, 5).Draw(rt, "n")
			recs := make([]Record, 0, n)
			for i := 0; i < n; i++ {
				r := s.record(rt, poolIDs)
				if i > 0 && rapid.IntRange(0, 7).Draw(rt, "dupInBatch") == 0 {
					j := rapid.IntRange(0, i-1).Draw(rt, "dupOf")
					if poolIDs && rapid.Bool().Draw(rt, "dupID") {
						r.ID = recs[j].ID
					} else {
						r.FromUID, r.ClientMsgNo = recs[j].FromUID, recs[j].ClientMsgNo
					}
				}
				recs = append(recs, r)
			}
			return recs
		}
		// storedKey re-uses the key of a random stored row of ci (if any) in
		// one record of the batch: the duplicate a retrying client produces
		storedKey := func(rt *rapid.T, ci int, recs []Record) {
			c := h.m.chans[ci]
			if len(c.rows) == 0 || rapid.IntRange(0, 3).Draw(rt, "dupOfStored") != 0 {
				return
			}
			old := c.rows[rapid.IntRange(0, len(c.rows)-1).Draw(rt, "storedRow")]
			i := rapid.IntRange(0, len(recs)-1).Draw(rt, "victim")
			recs[i].FromUID, recs[i].ClientMsgNo = old.FromUID, old.ClientMsgNo
		}
		// keyedRow draws a stored row of ci that carries a full pair.
		keyedRow := func(rt *rapid.T, ci int) (int, bool) {
			c := h.m.chans[ci]
			var idx []int
			for i := range c.rows {
				if verifC08Keyed(c.rows[i]) {
					idx = append(idx, i)
				}
			}
			if len(idx) == 0 {
				return 0, false
			}
			return idx[rapid.IntRange(0, len(idx)-1).Draw(rt, "keyedRow")], true
		}
		// storedExact turns one record of the batch into the exact re-submission
		// of a stored message (same pair, same id, same payload): the retry of
		// an already stored sequenced proposal
		storedExact := func(rt *rapid.T, ci int, recs []Record, oneIn int) {
			if rapid.IntRange(1, oneIn).Draw(rt, "exactOfStored") != 1 {
				return
			}
			i, ok := keyedRow(rt, ci)
			if !ok {
				return
			}
			recs[rapid.IntRange(0, len(recs)-1).Draw(rt, "exactVictim")] = verifC08RowRecord(h.m.chans[ci].rows[i])
		}
		strict := func(rt *rapid.T) {
			ci := ch(rt)
			recs := batch(rt, true)
			storedKey(rt, ci, recs)
			storedExact(rt, ci, recs, 6)
			s.append(rt, ci, recs, AppendStrict)
		}
		// resubmit: a run of 1-3 neighbouring stored rows around a keyed one is
		// sent again verbatim (a re-submitted proposal batch), optionally with
		// fresh records before / after it, optionally after the channel state
		// was reclaimed.
		resubmit := func(rt *rapid.T) {
			ci := ch(rt)
			i, ok := keyedRow(rt, ci)
			if !ok {
				rt.Skip("no stored row with a full pair")
			}
			c := h.m.chans[ci]
			lo := i - min(i, rapid.IntRange(0, 1).Draw(rt, "runBefore"))
			hi := i + min(len(c.rows)-1-i, rapid.IntRange(0, 1).Draw(rt, "runAfter"))
			var recs []Record
			for n := rapid.SampledFrom([]int{0, 0, 0, 1, 2}).Draw(rt, "freshBefore"); n > 0; n-- {
				recs = append(recs, s.record(rt, false))
			}
			for j := lo; j <= hi; j++ {
				r := verifC08RowRecord(c.rows[j])
				if rapid.IntRange(0, 5).Draw(rt, "restamp") == 0 {
					r.ServerTimestampMS++
				}
				recs = append(recs, r)
			}
			for n := rapid.SampledFrom([]int{0, 0, 0, 1, 2}).Draw(rt, "freshAfter"); n > 0; n-- {
				recs = append(recs, s.record(rt, false))
			}
			switch rapid.IntRange(0, 5).Draw(rt, "reloadFirst") {
			case 0:
				s.reopen(rapid.Bool().Draw(rt, "closeLeasesFirst"))
			case 1, 2:
				s.closeLeases(ci)
			}
			mode := rapid.SampledFrom([]AppendMode{AppendServerAllocatedMessageID, AppendServerAllocatedMessageID, AppendServerAllocatedMessageID, AppendStrict}).Draw(rt, "mode")
			s.append(rt, ci, recs, mode)
		}
		actions := map[string]func(*rapid.T){
			"appendStrict":  strict,
			"appendStrict2": strict,
			"appendServerAllocated": func(rt *rapid.T) {
				// ids fresh as the allocator issues them; keys collide freely
				ci := ch(rt)
				recs := batch(rt, false)
				storedKey(rt, ci, recs)
				storedExact(rt, ci, recs, 3)
				s.append(rt, ci, recs, AppendServerAllocatedMessageID)
			},
			"resubmitStored":  resubmit,
			"resubmitStored2": resubmit,
			"resubmitRemoved": func(rt *rapid.T) {
				// a message that was cut off by a truncation is proposed again
				// under its old id: stored once if its pair is free, refused if
				// the pair was taken meanwhile
				ci := ch(rt)
				var cand []verifC07Row
				for _, r := range s.removed[ci] {
					if _, live := h.m.ids[r.ID]; !live {
						cand = append(cand, r)
					}
				}
				if len(cand) == 0 {
					rt.Skip("no truncated-away message whose id is free")
				}
				r := cand[rapid.IntRange(0, len(cand)-1).Draw(rt, "removedRow")]
				mode := rapid.SampledFrom([]AppendMode{AppendServerAllocatedMessageID, AppendStrict}).Draw(rt, "mode")
				verdict, _ := h.m.appendVerdict(h.m.chans[ci], []Record{verifC08RowRecord(r)}, mode, 0)
				s.append(rt, ci, []Record{verifC08RowRecord(r)}, mode)
				if verdict == verifC07Accept {
					s.resubRemovedAccepted = true
				} else {
					s.resubRemovedRejected = true
				}
			},
			"reapplyTail": func(rt *rapid.T) {
				// the last 1-3 rows are cut off and the very same records are
				// applied again at the same sequences (follower replay after a
				// divergent-tail truncation, or the new leader appending them)
				ci := ch(rt)
				c := h.m.chans[ci]
				lo := uint64(1)
				if c.retOK {
					lo = c.ret.LocalRetentionThroughSeq + 1
				}
				if c.leo < lo {
					rt.Skip("nothing to truncate")
				}
				from := c.leo - min(c.leo-lo, uint64(rapid.IntRange(0, 2).Draw(rt, "back")))
				i, ok := c.find(from)
				if !ok {
					rt.Skip("tail row missing")
				}
				var recs []Record
				for _, r := range c.rows[i:] {
					recs = append(recs, verifC08RowRecord(r))
				}
				before := verifC08CopyKeys(c.keys)
				h.doTruncate(ci, from)
				s.markFreed(ci, before)
				s.truncated(ci)
				reloaded := false
				switch rapid.IntRange(0, 5).Draw(rt, "reloadBetween") {
				case 0:
					s.reopen(rapid.Bool().Draw(rt, "closeLeasesFirst"))
					reloaded = true
				case 1:
					s.closeLeases(ci)
					reloaded = true
				}
				switch how := rapid.IntRange(0, 4).Draw(rt, "how"); how {
				case 0, 1:
					if !h.doApplyFetch(ci, ApplyFetchRequest{Records: recs, BaseSeq: from}) {
						h.fail("re-apply of the truncated tail at seq %d refused", from)
					}
					s.after(ci, recs)
					s.reapplyFetch = true
				case 2:
					s.append(rt, ci, recs, AppendTrustedContiguous)
					s.reapplyTrusted = true
				default:
					s.append(rt, ci, recs, []AppendMode{AppendServerAllocatedMessageID, AppendStrict}[how-3])
					s.reapplyValidating = true
				}
				s.reapplyAfterReload = s.reapplyAfterReload || reloaded
			},
			"appendTrusted": func(rt *rapid.T) {
				ci := ch(rt)
				s.append(rt, ci, s.validBatch(rt, ci, rapid.IntRange(1, 4).Draw(rt, "n")), AppendTrustedContiguous)
			},
			"applyFetch": func(rt *rapid.T) {
				ci := ch(rt)
				recs := s.validBatch(rt, ci, rapid.IntRange(1, 4).Draw(rt, "n"))
				h.doApplyFetch(ci, ApplyFetchRequest{Records: recs, BaseSeq: h.m.chans[ci].leo + 1})
				s.after(ci, recs)
			},
			"truncateTail": func(rt *rapid.T) {
				ci := ch(rt)
				c := h.m.chans[ci]
				lo := uint64(1)
				if c.retOK {
					lo = c.ret.LocalRetentionThroughSeq + 1
				}
				if c.leo < lo {
					rt.Skip("nothing to truncate")
				}
				from := c.leo - min(c.leo-lo, uint64(rapid.IntRange(0, 3).Draw(rt, "back")))
				before := verifC08CopyKeys(c.keys)
				if i, ok := c.find(from); ok && len(s.removed[ci]) < 64 {
					s.removed[ci] = append(s.removed[ci], c.rows[i:]...)
				}
				h.doTruncate(ci, from)
				s.markFreed(ci, before)
				s.truncated(ci)
			},
			"trimHead": func(rt *rapid.T) {
				ci := ch(rt)
				c := h.m.chans[ci]
				if len(c.rows) == 0 {
					rt.Skip("nothing to trim")
				}
				through := c.rows[0].Seq + uint64(rapid.IntRange(0, 2).Draw(rt, "more"))
				if through > c.leo {
					through = c.leo
				}
				before := verifC08CopyKeys(c.keys)
				h.doTrim(ci, through, RetentionTrimOptions{}, false)
				s.markFreed(ci, before)
			},
			"closeLeases": func(rt *rapid.T) {
				s.closeLeases(ch(rt))
			},
			"reopen": func(rt *rapid.T) {
				if rapid.IntRange(0, 1).Draw(rt, "really") != 0 {
					for ci := range h.s.leases {
						if len(h.s.leases[ci]) > 0 {
							s.closeLeases(ci)
						}
					}
					return
				}
				s.reopen(rapid.Bool().Draw(rt, "closeLeasesFirst"))
			},
			"saturate": func(rt *rapid.T) {
				ci := ch(rt)
				if !maySaturate || s.saturated[ci] {
					rt.Skip("no saturation in this case")
				}
				// > 384 primary adds and enough overflow adds to fill its 8192 bits
				mode := rapid.SampledFrom([]AppendMode{AppendStrict, AppendServerAllocatedMessageID, AppendTrustedContiguous}).Draw(rt, "mode")
				sender := rapid.SampledFrom(verifC08Senders).Draw(rt, "uid")
				h.note("saturate(%d,mode=%d,rows=%d)", ci, mode, satRows)
				keep := len(h.trace)
				for done := 0; done < satRows; {
					n := min(250, satRows-done)
					recs := make([]Record, n)
					for i := range recs {
						id := s.freshID()
						recs[i] = Record{ID: id, FromUID: sender, ClientMsgNo: fmt.Sprintf("sat-%d", id), ServerTimestampMS: 7, Payload: []byte{1}}
					}
					if !h.doAppend(ci, recs, mode, 0) {
						h.fail("saturation batch rejected")
					}
					done += n
				}
				h.trace = h.trace[:keep]
				s.saturated[ci] = true
				// usually reload the channel state now, so that the filter is
				// rebuilt from > 384 durable keys, then retry stored keys
				switch rapid.IntRange(0, 3).Draw(rt, "reloadAfterSaturation") {
				case 0:
					s.reopen(true)
				case 1, 2:
					s.closeLeases(ci)
				}
				c := h.m.chans[ci]
				for probe := 0; probe < 3; probe++ {
					old := c.rows[rapid.IntRange(0, len(c.rows)-1).Draw(rt, "probeRow")]
					pm := rapid.SampledFrom([]AppendMode{AppendStrict, AppendServerAllocatedMessageID}).Draw(rt, "probeMode")
					probeRec := Record{ID: s.freshID(), FromUID: old.FromUID, ClientMsgNo: old.ClientMsgNo, ServerTimestampMS: 9, Payload: []byte{2}}
					if verifC08Keyed(old) && rapid.Bool().Draw(rt, "probeExact") {
						probeRec = verifC08RowRecord(old)
					}
					s.append(rt, ci, []Record{probeRec}, pm)
				}
			},
			"lookups": func(rt *rapid.T) {
				ci := ch(rt)
				uid, no := s.poolKey(rt)
				h.checkIdempotency(ci, IdempotencyKey{FromUID: uid, ClientMsgNo: no})
				h.checkByID(ci, s.idBase+uint64(rapid.IntRange(1, 30).Draw(rt, "id")))
				if no != "" {
					h.checkClientNo(ci, no, 0, 50)
				}
				h.note("lookups(%d)", ci)
			},
			"": func(rt *rapid.T) {
				for ci := range h.m.chans {
					h.checkLEO(ci)
				}
			},
		}
		rt.Repeat(actions)
		s.scanUnique()
		h.fullScan()

		nt := s.dupRejAfterReload || s.dupRejAfterSaturation
		k.Key(strings.Join(h.trace, ";"))
		k.SetNonTrivial(nt)
		k.LabelIf(s.dupRejAfterReload, "stored duplicate rejected after reopen / lease reclamation (non-trivial)")
		k.LabelIf(s.dupRejAfterSaturation, "stored duplicate key rejected behind a saturated filter (non-trivial)")
		k.LabelIf(len(s.saturated) > 0, "negative filter saturated")
		k.LabelIf(s.dupRejInBatch, "duplicate inside one batch rejected")
		k.LabelIf(s.dupRejAcrossBatch, "duplicate key of a stored row rejected")
		k.LabelIf(s.dupRejID, "duplicate id of a stored row rejected (strict)")
		k.LabelIf(s.dupRejIDCross, "duplicate id stored in another channel rejected")
		k.LabelIf(s.acceptAfterFree, "key accepted again after its holder was truncated / trimmed")
		k.LabelIf(h.nReopen > 0, "whole-DB close+reopen")
		k.LabelIf(h.nColdReclaim > 0, "lease reclamation with evicted warm state")
		k.LabelIf(h.nReclaim > h.nColdReclaim, "lease reclamation with warm state kept")
		k.LabelIf(s.resubSA, "exact re-submission (same pair, same id) refused in allocator-id mode")
		k.LabelIf(s.nResubSA >= 3, "exact re-submission refused in allocator-id mode >= 3 times")
		k.LabelIf(s.resubSAReloadCold, "exact re-submission refused in allocator-id mode, first copy stored before a reopen / cold reclamation (filter rebuilt)")
		k.LabelIf(s.resubSAReloadWarm, "exact re-submission refused in allocator-id mode, first copy stored before a warm reclamation")
		k.LabelIf(s.resubSAMulti, "exact re-submission refused in allocator-id mode inside a multi-record batch")
		k.LabelIf(s.resubSANotFirst, "exact re-submission refused in allocator-id mode behind other records of the batch")
		k.LabelIf(s.resubSASaturated, "exact re-submission refused in allocator-id mode behind a saturated filter")
		k.LabelIf(s.resubStrict, "exact re-submission refused in strict mode")
		k.LabelIf(s.resubRemovedAccepted, "truncated-away message proposed again under its id: stored once")
		k.LabelIf(s.resubRemovedRejected, "truncated-away message proposed again under its id: pair taken meanwhile, refused")
		k.LabelIf(s.reapplyFetch, "truncated tail re-applied verbatim at the same sequences by follower apply")
		k.LabelIf(s.reapplyTrusted, "truncated tail re-appended verbatim (trusted-contiguous)")
		k.LabelIf(s.reapplyValidating, "truncated tail re-appended verbatim (strict / allocator-id)")
		k.LabelIf(s.reapplyAfterReload, "truncated tail re-applied after a reload in between")
		k.LabelIf(s.nRejected == 0, "no duplicate rejected")
		k.Sample(func() any { return h.traceString() })
	})
}
