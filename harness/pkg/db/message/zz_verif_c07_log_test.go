package message

// C07 — the message store behaves as a faithful sequential log.
// rapid state machine over 2–4 channels sharing one Pebble engine, compared
// after every step with the reference model in zz_verif_c07_model_test.go.

import (
	"fmt"
	"sort"
	"strings"
	"testing"

	"pgregory.net/rapid"
	"verif.local/kit"
)

var (
	verifC07ChanPool = []string{"c1", "c1\x00", "c10", "c", "g/α", "C1", "c1:2"}
	verifC07UIDPool  = []string{"u1", "u2", "u10", "u1\x00", "用户", "U1", "\xff\xfe"}
	verifC07NoPool   = []string{"c1", "c2", "c10", "c1\x00", "", "编号"}
)

type verifC07Gen struct {
	h      *verifC07H
	nextID uint64
	uniq   int
	maxPay int
}

func (g *verifC07Gen) freshID() uint64 {
	g.nextID++
	return g.nextID
}

func (g *verifC07Gen) uid(rt *rapid.T) string {
	switch rapid.IntRange(0, 11).Draw(rt, "uidKind") {
	case 0, 1:
		return ""
	case 2:
		return string(kit.Bytes(40).Draw(rt, "uidRaw"))
	case 3:
		return strings.Repeat("x", rapid.IntRange(250, 300).Draw(rt, "uidLong"))
	default:
		return rapid.SampledFrom(verifC07UIDPool).Draw(rt, "uid")
	}
}

func (g *verifC07Gen) clientNo(rt *rapid.T) string {
	switch rapid.IntRange(0, 11).Draw(rt, "noKind") {
	case 0, 1:
		return ""
	case 2, 3, 4:
		return rapid.SampledFrom(verifC07NoPool).Draw(rt, "no")
	case 5:
		return string(kit.Bytes(40).Draw(rt, "noRaw"))
	default:
		g.uniq++
		return fmt.Sprintf("n%d", g.uniq)
	}
}

func (g *verifC07Gen) payload(rt *rapid.T) []byte {
	p := kit.Bytes(g.maxPay).Draw(rt, "payload")
	if len(p) == 0 && g.h.knownEmpty {
		// recorded finding: an empty payload makes the row unreadable on the
		// typed API; keep the trigger out so the search continues behind it
		g.h.excluded++
		return []byte{0}
	}
	return p
}

func (g *verifC07Gen) everIDs() []uint64 {
	ids := make([]uint64, 0, len(g.h.m.everIDs))
	for id := range g.h.m.everIDs {
		ids = append(ids, id)
	}
	sort.Slice(ids, func(i, j int) bool { return ids[i] < ids[j] })
	return ids
}

// records draws 0..8 records. collide=true lets ids / keys collide with what
// is stored (strict mode rejects those); otherwise the batch is one a
// validating leader would have produced.
func (g *verifC07Gen) records(rt *rapid.T, ci int, collide bool) []Record {
	n := rapid.IntRange(0, 8).Draw(rt, "n")
	if n == 0 && rapid.IntRange(0, 3).Draw(rt, "reallyEmpty") != 0 {
		n = 1
	}
	recs := make([]Record, 0, n)
	for i := 0; i < n; i++ {
		r := Record{ID: g.freshID(), FromUID: g.uid(rt), ClientMsgNo: g.clientNo(rt), Payload: g.payload(rt)}
		if rapid.IntRange(0, 3).Draw(rt, "tsZero") != 0 {
			r.ServerTimestampMS = rapid.Int64Range(1, 1<<41).Draw(rt, "ts")
		}
		if rapid.IntRange(0, 5).Draw(rt, "size") == 0 {
			r.SizeBytes = rapid.IntRange(1, 1<<20).Draw(rt, "sizeBytes")
		}
		if collide {
			switch rapid.IntRange(0, 15).Draw(rt, "idKind") {
			case 0:
				if ids := g.everIDs(); len(ids) > 0 {
					r.ID = rapid.SampledFrom(ids).Draw(rt, "oldID")
				}
			case 1:
				if i > 0 {
					r.ID = recs[rapid.IntRange(0, i-1).Draw(rt, "dupOf")].ID
				}
			case 2:
				if rapid.IntRange(0, 2).Draw(rt, "zero") == 0 {
					r.ID = 0
				}
			}
		}
		recs = append(recs, r)
	}
	if !collide {
		c := g.h.m.chans[ci]
		for tries := 0; !g.h.m.strictValid(c, recs) && tries < 4; tries++ {
			// make the colliding keys unique, as the validating leader would
			// have rejected them before replication
			seen := map[IdempotencyKey]struct{}{}
			for i := range recs {
				k := IdempotencyKey{FromUID: recs[i].FromUID, ClientMsgNo: recs[i].ClientMsgNo}
				if k.FromUID == "" || k.ClientMsgNo == "" {
					continue
				}
				_, dup := seen[k]
				_, live := c.keys[k]
				if dup || live {
					g.uniq++
					recs[i].ClientMsgNo = fmt.Sprintf("n%d", g.uniq)
					k.ClientMsgNo = recs[i].ClientMsgNo
				}
				seen[k] = struct{}{}
			}
		}
		if !g.h.m.strictValid(c, recs) {
			rt.Fatalf("VERIF-MACHINERY generator could not build a valid batch")
		}
	}
	return recs
}

func (g *verifC07Gen) base(rt *rapid.T, ci int) uint64 {
	leo := g.h.m.chans[ci].leo
	switch rapid.IntRange(0, 9).Draw(rt, "baseKind") {
	case 0, 1, 2:
		return leo + 1
	case 3:
		return leo + 2
	case 4:
		if leo > 0 {
			return leo
		}
		return leo + 3
	default:
		return 0
	}
}

func (g *verifC07Gen) seqNear(rt *rapid.T, ci int, label string) uint64 {
	leo := g.h.m.chans[ci].leo
	switch rapid.IntRange(0, 9).Draw(rt, label+"Kind") {
	case 0:
		return 0
	case 1:
		return leo + uint64(rapid.IntRange(1, 3).Draw(rt, label+"Over"))
	case 2:
		return ^uint64(0) - uint64(rapid.IntRange(0, 1).Draw(rt, label+"Max"))
	default:
		return uint64(rapid.IntRange(0, int(leo)).Draw(rt, label))
	}
}

// boundaryBytes picks a byte budget that sits exactly on (or one off) the sum
// of the first k payloads of the rows a scan will visit — the place where an
// off-by-one in the budget rule shows.
func (g *verifC07Gen) boundaryBytes(rt *rapid.T, lens []int, label string) int {
	if len(lens) == 0 {
		return rapid.IntRange(1, 64).Draw(rt, label+"Any")
	}
	k := rapid.IntRange(1, min(len(lens), 6)).Draw(rt, label+"K")
	sum := 0
	for _, n := range lens[:k] {
		sum += n
	}
	sum += rapid.IntRange(-1, 1).Draw(rt, label+"Delta")
	if sum < 1 {
		sum = 1
	}
	return sum
}

// scanLens returns the payload lengths in the order a forward (from) or
// reverse (down from hi) scan visits them.
func (g *verifC07Gen) scanLens(ci int, from uint64, reverse bool) []int {
	c := g.h.m.chans[ci]
	var lens []int
	if reverse {
		hi := from
		if hi == 0 {
			hi = c.leo
		}
		for i := len(c.rows) - 1; i >= 0; i-- {
			if hi == 0 || c.rows[i].Seq <= hi {
				lens = append(lens, len(c.rows[i].Payload))
			}
		}
		return lens
	}
	for i := range c.rows {
		if c.rows[i].Seq >= from {
			lens = append(lens, len(c.rows[i].Payload))
		}
	}
	return lens
}

func (g *verifC07Gen) readOptsAt(rt *rapid.T, ci int, from uint64, reverse bool) ReadOptions {
	o := g.readOpts(rt)
	if rapid.IntRange(0, 2).Draw(rt, "boundaryBudget") == 0 {
		o.MaxBytes = g.boundaryBytes(rt, g.scanLens(ci, from, reverse), "budget")
	}
	return o
}

func (g *verifC07Gen) readOpts(rt *rapid.T) ReadOptions {
	var o ReadOptions
	if rapid.IntRange(0, 2).Draw(rt, "hasLimit") == 0 {
		o.Limit = rapid.IntRange(-1, 12).Draw(rt, "limit")
	}
	if rapid.IntRange(0, 2).Draw(rt, "hasMaxBytes") == 0 {
		o.MaxBytes = rapid.IntRange(-1, 3*g.maxPay/2+8).Draw(rt, "maxBytes")
	}
	return o
}

func verifC07RowsWithNo(c *verifC07Chan, no string) []uint64 {
	var seqs []uint64
	for i := range c.rows {
		if c.rows[i].ClientMsgNo == no {
			seqs = append(seqs, c.rows[i].Seq)
		}
	}
	return seqs
}

func TestVerifC07SequentialLog(t *testing.T) {
	maxPay := kit.Scale("C07_PAYLOAD", 2048, 8192)
	kit.Check(t, "C07", func(rt *rapid.T, k *kit.Case) {
		nch := rapid.IntRange(2, 4).Draw(rt, "channels")
		perm := rapid.Permutation(verifC07ChanPool).Draw(rt, "chanNames")
		keys := make([]ChannelKey, nch)
		ids := make([]ChannelID, nch)
		for i := 0; i < nch; i++ {
			keys[i] = ChannelKey(perm[i])
			ids[i] = ChannelID{ID: perm[i], Type: uint8(rapid.IntRange(1, 3).Draw(rt, "chanType"))}
		}
		onDisk := rapid.IntRange(0, 9).Draw(rt, "onDisk") == 0
		warm := rapid.SampledFrom([]int{-1, -1, 0, 1, 2}).Draw(rt, "warmBound")
		small := rapid.Bool().Draw(rt, "smallMemtable")
		h := verifC07NewH(rt, keys, ids, onDisk, warm, small)
		defer h.s.destroy()
		g := &verifC07Gen{h: h, maxPay: maxPay}
		g.nextID = rapid.SampledFrom([]uint64{0, 999, 1 << 32, 1<<63 - 2, ^uint64(0) - 1_000_000}).Draw(rt, "idBase")
		ch := func(rt *rapid.T) int { return rapid.IntRange(0, nch-1).Draw(rt, "ch") }

		appendStrict := func(rt *rapid.T) {
			ci := ch(rt)
			h.doAppend(ci, g.records(rt, ci, true), AppendStrict, g.base(rt, ci))
		}
		actions := map[string]func(*rapid.T){
			"appendStrict":  appendStrict,
			"appendStrict2": appendStrict,
			"appendServerAllocated": func(rt *rapid.T) {
				// ids as the allocator issues them (fresh); keys may collide
				ci := ch(rt)
				recs := g.records(rt, ci, false)
				if len(recs) > 0 && rapid.IntRange(0, 3).Draw(rt, "collideKey") == 0 {
					c := h.m.chans[ci]
					if len(c.rows) > 0 {
						old := c.rows[rapid.IntRange(0, len(c.rows)-1).Draw(rt, "oldRow")]
						i := rapid.IntRange(0, len(recs)-1).Draw(rt, "victim")
						recs[i].FromUID, recs[i].ClientMsgNo = old.FromUID, old.ClientMsgNo
					}
				}
				h.doAppend(ci, recs, AppendServerAllocatedMessageID, g.base(rt, ci))
			},
			"appendTrusted": func(rt *rapid.T) {
				ci := ch(rt)
				h.doAppend(ci, g.records(rt, ci, false), AppendTrustedContiguous, g.base(rt, ci))
			},
			"applyFetch": func(rt *rapid.T) {
				ci := ch(rt)
				c := h.m.chans[ci]
				req := ApplyFetchRequest{Records: g.records(rt, ci, false), BaseSeq: g.base(rt, ci)}
				after := c.leo + uint64(len(req.Records))
				if rapid.IntRange(0, 2).Draw(rt, "withCheckpoint") == 0 {
					cp := Checkpoint{Epoch: c.cp.Epoch, LogStartOffset: c.cp.LogStartOffset, HW: c.cp.HW}
					switch rapid.IntRange(0, 5).Draw(rt, "cpKind") {
					case 0:
						cp.HW = after + 1 // beyond the log end
					case 1:
						if cp.HW > 0 {
							cp.HW-- // regression
						}
					default:
						if after >= cp.HW {
							cp.HW += uint64(rapid.IntRange(0, int(after-cp.HW)).Draw(rt, "cpAdvance"))
						}
						cp.Epoch += uint64(rapid.IntRange(0, 1).Draw(rt, "cpEpoch"))
					}
					req.Checkpoint = &cp
				}
				if rapid.IntRange(0, 3).Draw(rt, "withEpoch") == 0 {
					ep := EpochPoint{Epoch: 1, StartOffset: c.leo}
					if n := len(c.hist); n > 0 {
						ep.Epoch = c.hist[n-1].Epoch + uint64(rapid.IntRange(0, 2).Draw(rt, "epochStep"))
						if rapid.IntRange(0, 4).Draw(rt, "epochBack") == 0 && ep.StartOffset > 0 {
							ep.StartOffset = c.hist[n-1].StartOffset - min(c.hist[n-1].StartOffset, 1)
						}
					} else if rapid.IntRange(0, 6).Draw(rt, "epochZero") == 0 {
						ep.Epoch = 0
					}
					req.EpochPoint = &ep
				}
				h.doApplyFetch(ci, req)
			},
			"truncate": func(rt *rapid.T) {
				ci := ch(rt)
				c := h.m.chans[ci]
				// caller precondition: the uncommitted suffix lies above the
				// retention boundary (compat truncateLocked rejects below it)
				lo := uint64(1)
				if c.retOK {
					lo = c.ret.LocalRetentionThroughSeq + 1
				}
				if h.knownTrunc && c.retOK && c.ret.RetainedMaxSeq+1 > lo {
					// recorded finding: truncating below RetainedMaxSeq lets the
					// log end jump back up after a cold reload
					lo = c.ret.RetainedMaxSeq + 1
					h.excluded++
				}
				hi := c.leo + 2
				if lo > hi {
					lo = hi
				}
				from := lo + uint64(rapid.IntRange(0, int(hi-lo)).Draw(rt, "fromOff"))
				if rapid.IntRange(0, 2).Draw(rt, "tail") == 0 && c.leo >= lo {
					from = c.leo - min(c.leo-lo, uint64(rapid.IntRange(0, 2).Draw(rt, "tailOff")))
				}
				if from == 1 && rapid.Bool().Draw(rt, "zeroMeansAll") {
					from = 0
				}
				h.doTruncate(ci, from)
			},
			"trim": func(rt *rapid.T) {
				ci := ch(rt)
				c := h.m.chans[ci]
				through := uint64(rapid.IntRange(0, int(c.leo)).Draw(rt, "through"))
				if rapid.IntRange(0, 11).Draw(rt, "overshoot") == 0 {
					through = c.leo + uint64(rapid.IntRange(1, 3).Draw(rt, "over"))
				}
				h.doTrim(ci, through, RetentionTrimOptions{}, false)
			},
			"trimLimited": func(rt *rapid.T) {
				ci := ch(rt)
				c := h.m.chans[ci]
				through := uint64(rapid.IntRange(0, int(c.leo)+1).Draw(rt, "through"))
				opts := RetentionTrimOptions{}
				if rapid.IntRange(0, 3).Draw(rt, "hasMaxMessages") != 0 {
					opts.MaxMessages = rapid.IntRange(1, 4).Draw(rt, "maxMessages")
				}
				if rapid.IntRange(0, 2).Draw(rt, "hasMaxBytes") == 0 {
					opts.MaxBytes = rapid.IntRange(1, 2*g.maxPay).Draw(rt, "maxBytes")
					if rapid.Bool().Draw(rt, "boundaryBudget") {
						opts.MaxBytes = g.boundaryBytes(rt, g.scanLens(ci, c.ret.PhysicalRetentionThroughSeq+1, false), "trimBudget")
					}
				}
				h.doTrim(ci, through, opts, true)
			},
			"checkpoint": func(rt *rapid.T) {
				ci := ch(rt)
				c := h.m.chans[ci]
				cp := Checkpoint{
					Epoch:          c.cp.Epoch + uint64(rapid.IntRange(0, 1).Draw(rt, "epochStep")),
					LogStartOffset: uint64(rapid.IntRange(0, int(c.leo)+1).Draw(rt, "logStart")),
					HW:             uint64(rapid.IntRange(0, int(c.leo)+2).Draw(rt, "hw")),
				}
				if rapid.IntRange(0, 3).Draw(rt, "epochBack") == 0 && cp.Epoch > 0 {
					cp.Epoch--
				}
				mono := rapid.Bool().Draw(rt, "monotonic")
				visible := c.leo
				if rapid.IntRange(0, 3).Draw(rt, "visibleLag") == 0 {
					visible = uint64(rapid.IntRange(0, int(c.leo)).Draw(rt, "visible"))
				}
				h.doCheckpoint(ci, cp, mono, visible, c.leo)
			},
			"closeLeases": func(rt *rapid.T) {
				ci := ch(rt)
				if len(h.s.leases[ci]) == 0 {
					h.acquire(ci)
				}
				h.closeLeases(ci)
			},
			"acquireLease": func(rt *rapid.T) {
				ci := ch(rt)
				if len(h.s.leases[ci]) >= 3 {
					rt.Skip("enough leases")
				}
				h.acquire(ci)
				h.note("acquire(%d)", ci)
			},
			"reopen": func(rt *rapid.T) {
				if rapid.IntRange(0, 2).Draw(rt, "really") != 0 {
					// cheaper relative: reclaim every entry
					for ci := range h.s.leases {
						if len(h.s.leases[ci]) > 0 {
							h.closeLeases(ci)
						}
					}
					return
				}
				h.reopen(rapid.Bool().Draw(rt, "closeLeasesFirst"))
			},
			"lookups": func(rt *rapid.T) {
				ci := ch(rt)
				c := h.m.chans[ci]
				if ids := g.everIDs(); len(ids) > 0 {
					h.checkByID(ci, rapid.SampledFrom(ids).Draw(rt, "id"))
				}
				h.checkByID(ci, g.nextID+uint64(rapid.IntRange(0, 3).Draw(rt, "unusedID")))
				uid, no := g.uid(rt), rapid.SampledFrom(verifC07NoPool).Draw(rt, "no")
				if len(c.rows) > 0 && rapid.Bool().Draw(rt, "fromRow") {
					r := c.rows[rapid.IntRange(0, len(c.rows)-1).Draw(rt, "row")]
					uid, no = r.FromUID, r.ClientMsgNo
				}
				h.checkIdempotency(ci, IdempotencyKey{FromUID: uid, ClientMsgNo: no})
				before := g.seqNear(rt, ci, "before")
				if hits := verifC07RowsWithNo(c, no); len(hits) > 0 && rapid.Bool().Draw(rt, "beforeOnRow") {
					// page cursor exactly on / next to a row carrying this number
					before = rapid.SampledFrom(hits).Draw(rt, "beforeRow") + uint64(rapid.IntRange(0, 1).Draw(rt, "beforeDelta"))
				}
				h.checkClientNo(ci, no, before, rapid.IntRange(0, 4).Draw(rt, "pageLimit"))
				h.checkSenderSeq(ci, uid, g.seqNear(rt, ci, "through"))
				h.note("lookups(%d)", ci)
			},
			"reads": func(rt *rapid.T) {
				ci := ch(rt)
				from := g.seqNear(rt, ci, "from")
				h.checkRead(ci, from, g.readOptsAt(rt, ci, from, false))
				rfrom := g.seqNear(rt, ci, "rfrom")
				h.checkReadReverse(ci, rfrom, g.readOptsAt(rt, ci, rfrom, true))
				h.checkGetBySeq(ci, g.seqNear(rt, ci, "seq"))
				h.checkLastVisible(ci, g.seqNear(rt, ci, "after"))
				h.checkSystem(ci)
			},
			"": func(rt *rapid.T) {
				// after every step: all log ends, one channel in full
				for ci := range h.m.chans {
					h.checkLEO(ci)
				}
				ci := ch(rt)
				h.checkRead(ci, 0, ReadOptions{})
				h.checkContiguous(ci)
			},
		}
		rt.Repeat(actions)
		h.fullScan()

		k.Key(strings.Join(h.trace, ";"))
		k.SetNonTrivial(h.lookupAfterReload)
		k.LabelIf(h.lookupAfterReload, "removal → reload → index lookup (non-trivial)")
		k.LabelIf(h.nReopen > 0, "history contained whole-DB close+reopen")
		k.LabelIf(h.nReclaim > 0, "lease reclamation")
		k.LabelIf(h.nColdReclaim > 0, "lease reclamation with evicted warm state (cold reload)")
		k.LabelIf(h.nTrunc > 0, "truncate removed rows")
		k.LabelIf(h.nTrim > 0, "trim removed rows")
		k.LabelIf(h.nTrimMulti > 0, "bounded trim stopped early (More)")
		k.LabelIf(h.nTrimOver > 0, "trim boundary beyond log end")
		k.LabelIf(h.nAppendRej > 0, "append rejected (conflict / bad base / id 0)")
		k.LabelIf(h.nFetch > 0, "follower ApplyFetch accepted")
		k.LabelIf(h.nCheckpoint > 0, "checkpoint stored")
		k.LabelIf(onDisk, "real directory (not MemFS)")
		k.LabelIf(h.maxRows >= 20, "a channel held >= 20 rows")
		k.LabelIf(h.nAppendOK == 0, "no append accepted")
		if h.excluded > 0 {
			kit.For(t, "C07").AddExtra("excluded_by_known_finding", h.excluded)
		}
		k.Sample(func() any { return h.traceString() })
	})
}

// ---------------------------------------------------------------- findings

func verifC07Finding(t *testing.T, sig string, reproduced bool, detail string) {
	col := kit.For(t, "C07")
	k := col.NewCase()
	k.Key("finding", sig, reproduced)
	if reproduced {
		if !kit.KnownFinding("C07", sig) {
			t.Fatalf("C07 violated (deterministic reproduction, signature %q): %s", sig, detail)
		}
		k.Label("recorded finding reproduced: " + sig)
	} else {
		k.Label("recorded finding no longer reproduces: " + sig)
	}
	k.NonTrivial()
	k.Sample(func() any { return fmt.Sprintf("%s: reproduced=%v %s", sig, reproduced, detail) })
	col.Commit(k)
}

// TestVerifC07FindingEmptyPayload re-establishes on every run that a record
// with an empty payload, accepted by Append, cannot be read back.
func TestVerifC07FindingEmptyPayload(t *testing.T) {
	func(rt *testing.T) {
		h := verifC07NewH(rt, []ChannelKey{"c1"}, []ChannelID{{ID: "c1", Type: 1}}, false, -1, true)
		defer h.s.destroy()
		l := h.log(0)
		res, err := l.Append(h.ctx, []Record{{ID: 1, FromUID: "u1", ClientMsgNo: "c1"}}, AppendOptions{})
		if err != nil || res.BaseSeq != 1 {
			verifC07Finding(t, verifC07SigEmptyPayload, false, fmt.Sprintf("Append rejects an empty payload now: %v", err))
			return
		}
		msgs, rerr := l.Read(h.ctx, 1, ReadOptions{})
		_, _, gerr := l.GetBySeq(h.ctx, 1)
		_, terr := l.TrimPrefixThrough(h.ctx, 1)
		bad := rerr != nil || gerr != nil || len(msgs) != 1
		verifC07Finding(t, verifC07SigEmptyPayload, bad, fmt.Sprintf(
			"Append({ID:1,Payload:nil}) = %+v, then Read(1) -> %d rows err=%v; GetBySeq(1) err=%v; TrimPrefixThrough(1) err=%v", res, len(msgs), rerr, gerr, terr))
	}(t)
}

// TestVerifC07FindingTruncateRetainedMax re-establishes on every run that a
// suffix truncation after a prefix trim is forgotten by a reopen.
func TestVerifC07FindingTruncateRetainedMax(t *testing.T) {
	func(rt *testing.T) {
		h := verifC07NewH(rt, []ChannelKey{"c1"}, []ChannelID{{ID: "c1", Type: 1}}, false, -1, true)
		defer h.s.destroy()
		l := h.log(0)
		recs := []Record{{ID: 1, Payload: []byte("a")}, {ID: 2, Payload: []byte("b")}, {ID: 3, Payload: []byte("c")}}
		if _, err := l.Append(h.ctx, recs, AppendOptions{}); err != nil {
			rt.Fatalf("VERIF-MACHINERY append: %v", err)
		}
		if _, err := l.TrimPrefixThrough(h.ctx, 1); err != nil {
			rt.Fatalf("VERIF-MACHINERY trim: %v", err)
		}
		if err := l.TruncateFrom(h.ctx, 3); err != nil {
			rt.Fatalf("VERIF-MACHINERY truncate: %v", err)
		}
		before, _ := l.LEO(h.ctx)
		h.reopen(true)
		l = h.log(0)
		after, _ := l.LEO(h.ctx)
		res, err := l.Append(h.ctx, []Record{{ID: 4, Payload: []byte("d")}}, AppendOptions{})
		bad := before != 2 || after != 2 || err != nil || res.BaseSeq != 3
		verifC07Finding(t, verifC07SigTruncRetain, bad, fmt.Sprintf(
			"Append 3 rows; TrimPrefixThrough(1); TruncateFrom(3): LEO=%d; close+reopen: LEO=%d; next Append -> %+v err=%v (a sequential log gives LEO 2, 2 and seq 3)", before, after, res, err))
	}(t)
}
