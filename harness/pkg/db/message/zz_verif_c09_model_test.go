package message

// C09 — storage mutations are crash-atomic.
//
// This file: a small reference model of the channel stores (enough to generate
// caller-valid mutation histories and to judge log end / rows / watermark /
// exact frontier), the history generator, the executor against the real
// compatibility Engine (the surface pkg/channel/store uses), and the
// observable-state dump used by the prefix oracle. The crash engines are in
// zz_verif_c09_crash_test.go.

import (
	"context"
	"crypto/sha256"
	"encoding/binary"
	"encoding/hex"
	"errors"
	"fmt"
	"sort"
	"strings"
	"sync"
	"time"

	"github.com/WuKongIM/WuKongIM/pkg/db/internal/engine"
	"github.com/WuKongIM/WuKongIM/pkg/db/internal/keycodec"
	channel "github.com/WuKongIM/WuKongIM/pkg/db/message/channelcompat"
	"github.com/WuKongIM/WuKongIM/pkg/quorumlog"
	"pgregory.net/rapid"
)

// ---------------------------------------------------------------- model ----

type verifC09Row struct {
	ID      uint64
	From    string
	CNo     string
	Payload []byte
}

type verifC09Prop struct {
	M    DurableProposalManifest
	Recs []channel.Record
	Tail quorumlog.EntryIdentity
}

// verifC09Chan is the reference state of one channel store.
type verifC09Chan struct {
	Key      string
	ID       channel.ChannelID
	Exact    bool // every append is an exact proposal (production path); false = legacy appends without manifests
	LEO      uint64
	Rows     map[uint64]verifC09Row // physically retained rows by sequence
	Props    []verifC09Prop         // indexed proposals (survive prefix retention, removed by suffix truncation)
	HW       uint64
	HasCP    bool
	Adopted  uint64 // LocalRetentionThroughSeq
	Physical uint64 // PhysicalRetentionThroughSeq
	Epoch    uint64 // current channel epoch used by new proposals
	Points   []EpochPoint
	Term     uint64
}

func (c *verifC09Chan) clone() *verifC09Chan {
	d := *c
	d.Rows = make(map[uint64]verifC09Row, len(c.Rows))
	for k, v := range c.Rows {
		d.Rows[k] = v
	}
	d.Props = append([]verifC09Prop(nil), c.Props...)
	d.Points = append([]EpochPoint(nil), c.Points...)
	return &d
}

// boundaries returns the offsets at which the log may be cut without splitting
// a proposal (legacy channels: every offset), not below floor.
func (c *verifC09Chan) boundaries(floor uint64) []uint64 {
	var out []uint64
	if !c.Exact {
		for o := floor; o <= c.LEO; o++ {
			out = append(out, o)
		}
		return out
	}
	if floor == 0 {
		out = append(out, 0)
	}
	for _, p := range c.Props {
		if p.M.LastOffset >= floor && p.M.LastOffset <= c.LEO {
			out = append(out, p.M.LastOffset)
		}
	}
	return out
}

func (c *verifC09Chan) floor() uint64 {
	f := c.HW
	if c.Adopted > f {
		f = c.Adopted
	}
	return f
}

func (c *verifC09Chan) tail() (quorumlog.EntryIdentity, DurableProposalManifest) {
	if len(c.Props) == 0 {
		return quorumlog.EntryIdentity{}, DurableProposalManifest{}
	}
	p := c.Props[len(c.Props)-1]
	return p.Tail, p.M
}

func (c *verifC09Chan) tailAt(offset uint64) (quorumlog.EntryIdentity, bool) {
	if offset == 0 {
		return quorumlog.EntryIdentity{}, true
	}
	for _, p := range c.Props {
		if p.M.LastOffset == offset {
			return p.Tail, true
		}
	}
	return quorumlog.EntryIdentity{}, false
}

func (c *verifC09Chan) frontier() DurableFrontier {
	f := DurableFrontier{LEO: c.LEO, Committed: c.HW}
	if c.LEO > 0 {
		f.TailIdentity, f.Manifest = c.tail()
	}
	return f
}

func (c *verifC09Chan) truncate(to uint64, history bool) {
	for seq := range c.Rows {
		if seq > to {
			delete(c.Rows, seq)
		}
	}
	kept := c.Props[:0:0]
	for _, p := range c.Props {
		if p.M.LastOffset <= to {
			kept = append(kept, p)
		}
	}
	c.Props = kept
	if to < c.LEO {
		c.LEO = to
	}
	if history {
		pts := c.Points[:0:0]
		for _, p := range c.Points {
			if p.StartOffset <= to {
				pts = append(pts, p)
			}
		}
		c.Points = pts
	}
}

func (c *verifC09Chan) addRecords(recs []channel.Record) {
	for _, r := range recs {
		row, err := decodeCompatibilityRecordPayload(r.Payload)
		if err != nil {
			panic(err)
		}
		c.LEO++
		c.Rows[c.LEO] = verifC09Row{ID: row.MessageID, From: row.FromUID, CNo: row.ClientMsgNo, Payload: row.Payload}
	}
}

// verifC09Universe collects every identity a history ever used per channel, so
// that the dump also observes *absence* (a removed row must not be reachable
// through any index).
type verifC09Universe struct {
	IDs      []uint64
	Keys     [][2]string // from, clientNo
	CNos     []string
	Froms    []string
	Commands []quorumlog.CommandID
}

type verifC09World struct {
	Chans []*verifC09Chan
	Uni   []*verifC09Universe
	next  uint64 // fresh identity counter
}

func (w *verifC09World) snapshot() []*verifC09Chan {
	out := make([]*verifC09Chan, len(w.Chans))
	for i, c := range w.Chans {
		out[i] = c.clone()
	}
	return out
}

// ---------------------------------------------------------------- steps ----

type verifC09App struct {
	Ch          int
	Recs        []channel.Record
	M           DurableProposalManifest
	Base        uint64
	Committed   uint64
	ServerAlloc bool
	Replay      bool // the proposal is (expected to be) present already: want AlreadyDurable
	Staged      bool // ... because an earlier item of the same call carries it (coalesced retry)
}

type verifC09HW struct {
	Ch int
	HW uint64
}

type verifC09Coord struct {
	FlushUS     int // < 0: no collection window (a physical batch takes what is queued)
	Shards      int
	MaxRequests int
	MaxRecords  int
}

func (co *verifC09Coord) config() CommitCoordinatorConfig {
	cfg := CommitCoordinatorConfig{FlushWindow: time.Duration(co.FlushUS) * time.Microsecond, Shards: co.Shards, MaxRequests: co.MaxRequests, MaxRecords: co.MaxRecords}
	if co.FlushUS < 0 {
		cfg.FlushWindow = -1
	}
	return cfg
}

// verifC09Step is one storage mutation call (or reopen / a set of concurrent
// calls on distinct channels). Plain data: it is handed to the child process
// by gob.
type verifC09Step struct {
	Kind     string // append | legacy | applyfetch | checkpoint | truncate | adopt | trim | replace | discard | epoch | reopen | par
	Ch       int
	Apps     []verifC09App
	Class    uint8
	Mode     uint8
	Recs     []channel.Record
	HW       uint64
	HWs      []verifC09HW
	To       uint64
	Max      int
	Expected DurableFrontier
	Props    []RecoveryProposal
	Epoch    uint64
	Par      []verifC09Step
	Coord    *verifC09Coord
}

func (s verifC09Step) String() string {
	var b strings.Builder
	b.WriteString(s.Kind)
	switch s.Kind {
	case "append":
		for _, a := range s.Apps {
			fmt.Fprintf(&b, " [ch%d base=%d n=%d committed=%d", a.Ch, a.Base, len(a.Recs), a.Committed)
			if a.Staged {
				b.WriteString(" retry-in-batch")
			} else if a.Replay {
				b.WriteString(" replay")
			}
			b.WriteString("]")
		}
		fmt.Fprintf(&b, " class=%d", s.Class)
	case "legacy":
		fmt.Fprintf(&b, " ch%d n=%d mode=%d", s.Ch, len(s.Recs), s.Mode)
	case "applyfetch":
		fmt.Fprintf(&b, " ch%d n=%d hw=%d", s.Ch, len(s.Recs), s.HW)
	case "checkpoint":
		for _, h := range s.HWs {
			fmt.Fprintf(&b, " ch%d hw=%d", h.Ch, h.HW)
		}
	case "truncate", "adopt":
		fmt.Fprintf(&b, " ch%d to=%d", s.Ch, s.To)
	case "trim":
		fmt.Fprintf(&b, " ch%d through=%d max=%d", s.Ch, s.To, s.Max)
	case "replace":
		fmt.Fprintf(&b, " ch%d keep=%d proposals=%d committed=%d", s.Ch, s.To, len(s.Props), s.HW)
	case "discard":
		fmt.Fprintf(&b, " ch%d", s.Ch)
	case "epoch":
		fmt.Fprintf(&b, " ch%d epoch=%d", s.Ch, s.Epoch)
	case "par":
		for _, p := range s.Par {
			b.WriteString(" | " + p.String())
		}
	}
	return b.String()
}

func (s *verifC09Step) channels() []int {
	switch s.Kind {
	case "reopen":
		return nil
	case "append":
		var out []int
		for _, a := range s.Apps {
			out = append(out, a.Ch)
		}
		return out
	case "checkpoint":
		var out []int
		for _, h := range s.HWs {
			out = append(out, h.Ch)
		}
		return out
	case "par":
		var out []int
		for i := range s.Par {
			out = append(out, s.Par[i].channels()...)
		}
		return out
	}
	return []int{s.Ch}
}

// ------------------------------------------------------------ generator ----

func verifC09Payload(rt *rapid.T) []byte {
	var n int
	switch rapid.IntRange(0, 19).Draw(rt, "szClass") {
	case 0:
		n = 0
	case 1, 2, 3:
		n = rapid.IntRange(300, 3000).Draw(rt, "szMid")
	case 4:
		n = rapid.IntRange(5000, 60000).Draw(rt, "szBig")
	default:
		n = rapid.IntRange(1, 40).Draw(rt, "szSmall")
	}
	seed := rapid.Byte().Draw(rt, "fill")
	b := make([]byte, n)
	for i := range b {
		b[i] = seed + byte(i*5) + byte(i>>8)
	}
	return b
}

// genRecords draws n fresh records for channel ci (fresh message ids and
// idempotency keys: collisions are the business of C08, not of this check).
func (w *verifC09World) genRecords(rt *rapid.T, ci, n int, epoch uint64) []channel.Record {
	c, u := w.Chans[ci], w.Uni[ci]
	out := make([]channel.Record, 0, n)
	for i := 0; i < n; i++ {
		w.next++
		row := messageRow{
			MessageID:         1000 + w.next,
			ChannelID:         c.ID.ID,
			ChannelType:       c.ID.Type,
			ServerTimestampMS: 1_700_000_000_000 + int64(w.next),
			Timestamp:         1_700_000_000 + int64(w.next),
			Payload:           verifC09Payload(rt),
		}
		switch rapid.IntRange(0, 5).Draw(rt, "identKind") {
		case 0: // no sender, no client number
		case 1: // client number without sender (sequence-suffixed client index)
			row.ClientMsgNo = fmt.Sprintf("c%d", w.next)
		case 2: // sender without client number (sender index only)
			row.FromUID = fmt.Sprintf("u%d", rapid.IntRange(1, 3).Draw(rt, "uid"))
		default:
			row.FromUID = fmt.Sprintf("u%d", rapid.IntRange(1, 3).Draw(rt, "uid"))
			row.ClientMsgNo = fmt.Sprintf("c%d", w.next)
		}
		rec, err := compatibilityRecordFromRow(row)
		if err != nil {
			panic(err)
		}
		rec.Epoch = epoch
		out = append(out, rec)
		u.IDs = append(u.IDs, row.MessageID)
		if row.FromUID != "" && row.ClientMsgNo != "" {
			u.Keys = append(u.Keys, [2]string{row.FromUID, row.ClientMsgNo})
		}
		if row.ClientMsgNo != "" {
			u.CNos = append(u.CNos, row.ClientMsgNo)
		}
	}
	return out
}

// verifC09Seal computes the entry chain of a proposal the way a leader does
// (pkg/quorumlog) and seals the manifest with the tail digest.
func verifC09Seal(m DurableProposalManifest, recs []channel.Record) (DurableProposalManifest, quorumlog.EntryIdentity) {
	rows, err := compatibilityRowsFromRecords(m.BaseOffset+1, recs)
	if err != nil {
		panic(err)
	}
	m.Digest = quorumlog.EntryDigest{}
	entries, ok := deriveDurableProposalEntries(m, recs, rows)
	if !ok || len(entries) == 0 {
		panic("verif: cannot derive proposal entries")
	}
	m.Digest = entries[len(entries)-1].Digest
	return m, entries[len(entries)-1]
}

// genProposal draws a fresh exact proposal extending (prev, base).
func (w *verifC09World) genProposal(rt *rapid.T, ci int, base uint64, prev quorumlog.EntryIdentity, maxRecs int) verifC09Prop {
	c, u := w.Chans[ci], w.Uni[ci]
	if rapid.IntRange(0, 5).Draw(rt, "termBump") == 0 {
		c.Term++
	}
	if c.Term < prev.LeaderTerm {
		c.Term = prev.LeaderTerm
	}
	n := rapid.IntRange(1, maxRecs).Draw(rt, "nRecs")
	recs := w.genRecords(rt, ci, n, c.Epoch)
	w.next++
	var cmd quorumlog.CommandID
	binary.BigEndian.PutUint64(cmd[:8], w.next)
	cmd[31] = byte(ci + 1)
	m := DurableProposalManifest{
		Version: DurableProposalManifestVersion, ChannelEpoch: c.Epoch, LeaderTerm: c.Term, FenceVersion: 1 + c.Epoch,
		CommandID: cmd, BaseOffset: base, LastOffset: base + uint64(n), PreviousIndex: base,
	}
	if base > 0 {
		m.PreviousTerm, m.PreviousDigest = prev.LeaderTerm, prev.Digest
	}
	m, tail := verifC09Seal(m, recs)
	u.Commands = append(u.Commands, cmd)
	return verifC09Prop{M: m, Recs: recs, Tail: tail}
}

func verifC09Committed(rt *rapid.T, c *verifC09Chan, newLEO uint64) uint64 {
	if newLEO <= c.HW || rapid.IntRange(0, 2).Draw(rt, "withCommitted") == 0 {
		return 0
	}
	return uint64(rapid.IntRange(int(c.HW)+1, int(newLEO)).Draw(rt, "committed"))
}

// verifC09AddRetries inserts, into some append calls, coalesced retries: a copy
// of a proposal that an earlier item of the same call carries (the channel
// worker pool collects queued append tasks of one channel, originals and their
// retries alike, into one StoreAppendBatch). The copy is identical to the
// original or carries no committed watermark; it adds nothing to the model.
func verifC09AddRetries(rt *rapid.T, apps []verifC09App) []verifC09App {
	if len(apps) == 0 || rapid.IntRange(0, 2).Draw(rt, "retryInBatch") != 0 {
		return apps
	}
	n := rapid.IntRange(1, 2).Draw(rt, "nRetries")
	for r := 0; r < n; r++ {
		var orig []int
		for i, a := range apps {
			if !a.Replay {
				orig = append(orig, i)
			}
		}
		i := rapid.SampledFrom(orig).Draw(rt, "retryOf")
		cp := apps[i]
		cp.Replay, cp.Staged = true, true
		if rapid.IntRange(0, 2).Draw(rt, "retryKeepsCommitted") == 0 {
			cp.Committed = apps[i].Committed
		} else {
			cp.Committed = 0
		}
		at := rapid.IntRange(i+1, len(apps)).Draw(rt, "retryAt")
		apps = append(apps[:at], append([]verifC09App{cp}, apps[at:]...)...)
	}
	return apps
}

// genChanStep draws one caller-valid mutation for channel ci and applies it to
// the model. Preconditions come from the callers in pkg/channel/store and
// pkg/channel/replication: truncation and replacement never cut below the
// committed watermark or the adopted retention boundary nor through a
// proposal; retention is only adopted up to the committed watermark; trims
// follow an adopted boundary; checkpoints never exceed the log end.
func (w *verifC09World) genChanStep(rt *rapid.T, ci int, allowDiscard bool, force string) verifC09Step {
	c := w.Chans[ci]
	type choice struct {
		name string
		w    int
	}
	var cs []choice
	add := func(name string, wt int, ok bool) {
		if ok {
			cs = append(cs, choice{name, wt})
		}
	}
	floor := c.floor()
	cuts := c.boundaries(floor)
	add("append", 30, true)
	add("replay", 4, c.Exact && len(c.Props) > 0)
	add("applyfetch", 12, !c.Exact)
	add("checkpoint", 20, c.LEO > c.HW)
	add("truncate", 14, len(cuts) > 0 && c.LEO > 0)
	add("adopt", 30, c.HW > c.Adopted)
	add("trim", 45, c.Adopted > c.Physical)
	add("replace", 12, c.Exact && len(cuts) > 0)
	add("epoch", 8, c.Exact)
	add("discard", 2, allowDiscard && c.LEO > 0)
	total := 0
	for _, x := range cs {
		total += x.w
	}
	pick := rapid.IntRange(0, total-1).Draw(rt, "kind")
	name := ""
	for _, x := range cs {
		if pick < x.w {
			name = x.name
			break
		}
		pick -= x.w
	}
	for _, x := range cs {
		if x.name == force {
			name = force // warm-up: a forced kind, only when it is enabled
		}
	}
	st := verifC09Step{Kind: name, Ch: ci}
	switch name {
	case "append":
		if !c.Exact {
			st.Kind = "legacy"
			st.Mode = uint8(rapid.IntRange(0, 2).Draw(rt, "mode"))
			st.Recs = w.genRecords(rt, ci, rapid.IntRange(1, 5).Draw(rt, "nRecs"), c.Epoch)
			c.addRecords(st.Recs)
			break
		}
		st.Class = uint8(rapid.IntRange(0, 2).Draw(rt, "class"))
		nProps := 1
		if rapid.IntRange(0, 4).Draw(rt, "adjacent") == 0 {
			nProps = 2 // two adjacent exact proposals of one channel sharing one commit
		}
		for k := 0; k < nProps; k++ {
			prev, _ := c.tail()
			p := w.genProposal(rt, ci, c.LEO, prev, 4)
			app := verifC09App{Ch: ci, Recs: p.Recs, M: p.M, Base: c.LEO, ServerAlloc: rapid.Bool().Draw(rt, "serverAlloc")}
			c.addRecords(p.Recs)
			c.Props = append(c.Props, p)
			app.Committed = verifC09Committed(rt, c, c.LEO)
			if app.Committed > c.HW {
				c.HW, c.HasCP = app.Committed, true
			}
			st.Apps = append(st.Apps, app)
		}
		st.Apps = verifC09AddRetries(rt, st.Apps)
	case "replay":
		st.Kind = "append"
		p := c.Props[rapid.IntRange(0, len(c.Props)-1).Draw(rt, "which")]
		st.Apps = []verifC09App{{Ch: ci, Recs: p.Recs, M: p.M, Base: p.M.BaseOffset, Replay: true}}
	case "applyfetch":
		st.Recs = w.genRecords(rt, ci, rapid.IntRange(0, 4).Draw(rt, "nRecs"), c.Epoch)
		c.addRecords(st.Recs)
		if c.LEO > c.HW && rapid.Bool().Draw(rt, "withHW") {
			st.HW = uint64(rapid.IntRange(int(c.HW)+1, int(c.LEO)).Draw(rt, "hw"))
			c.HW, c.HasCP = st.HW, true
		}
	case "checkpoint":
		hw := uint64(rapid.IntRange(int(c.HW)+1, int(c.LEO)).Draw(rt, "hw"))
		st.HWs = []verifC09HW{{Ch: ci, HW: hw}}
		c.HW, c.HasCP = hw, true
	case "truncate":
		if len(cuts) > 1 && rapid.IntRange(0, 4).Draw(rt, "realCut") > 0 {
			cuts = cuts[:len(cuts)-1] // below the log end: the truncation removes rows
		}
		st.To = rapid.SampledFrom(cuts).Draw(rt, "to")
		c.truncate(st.To, c.Exact)
	case "adopt":
		st.To = uint64(rapid.IntRange(int(c.Adopted)+1, int(c.HW)).Draw(rt, "through"))
		c.Adopted = st.To
	case "trim":
		st.To = c.Adopted
		st.Max = rapid.SampledFrom([]int{0, 1, 1, 2, 3}).Draw(rt, "maxMessages")
		end := st.To
		if st.Max > 0 && c.Physical+uint64(st.Max) < end {
			end = c.Physical + uint64(st.Max)
		}
		for seq := c.Physical + 1; seq <= end; seq++ {
			delete(c.Rows, seq)
		}
		c.Physical = end
	case "replace":
		st.Expected = c.frontier()
		if len(cuts) > 1 && rapid.Bool().Draw(rt, "realCut") {
			cuts = cuts[:len(cuts)-1]
		}
		st.To = rapid.SampledFrom(cuts).Draw(rt, "keepThrough")
		c.truncate(st.To, true)
		n := rapid.IntRange(0, 2).Draw(rt, "nProposals")
		for k := 0; k < n; k++ {
			prev, _ := c.tailAt(c.LEO)
			p := w.genProposal(rt, ci, c.LEO, prev, 3)
			c.addRecords(p.Recs)
			c.Props = append(c.Props, p)
			st.Props = append(st.Props, RecoveryProposal{Manifest: p.M, Records: p.Recs})
		}
		st.HW = c.HW
		if c.LEO > c.HW && rapid.Bool().Draw(rt, "advanceCommitted") {
			st.HW = uint64(rapid.IntRange(int(c.HW), int(c.LEO)).Draw(rt, "committed"))
		}
		c.HW, c.HasCP = st.HW, true
	case "epoch":
		c.Epoch++
		st.Epoch = c.Epoch
		c.Points = append(c.Points, EpochPoint{Epoch: c.Epoch, StartOffset: c.LEO})
	case "discard":
		*c = verifC09Chan{Key: c.Key, ID: c.ID, Exact: c.Exact, Rows: map[uint64]verifC09Row{}, Epoch: c.Epoch, Term: c.Term}
	}
	return st
}

func verifC09NewWorld(rt *rapid.T) *verifC09World {
	w := &verifC09World{}
	n := rapid.IntRange(2, 3).Draw(rt, "nChannels")
	names := []string{"g1", "g1x", "p:u1@u2"} // adjacent key prefixes on purpose
	for i := 0; i < n; i++ {
		exact := i == 0 || rapid.IntRange(0, 2).Draw(rt, "exact") > 0
		id := channel.ChannelID{ID: names[i], Type: uint8(1 + i%2)}
		w.Chans = append(w.Chans, &verifC09Chan{Key: fmt.Sprintf("%d:%s", id.Type, id.ID), ID: id, Exact: exact, Rows: map[uint64]verifC09Row{}, Epoch: 1, Term: 1})
		w.Uni = append(w.Uni, &verifC09Universe{Froms: []string{"u1", "u2", "u3"}})
	}
	return w
}

// genStep draws the next history step and applies it to the model.
func (w *verifC09World) genStep(rt *rapid.T, reopenPct int) verifC09Step {
	k := rapid.IntRange(0, 99).Draw(rt, "step")
	switch {
	case k < reopenPct:
		co := &verifC09Coord{}
		switch rapid.IntRange(0, 2).Draw(rt, "coord") {
		case 0: // engine default
		case 1:
			co.FlushUS, co.Shards = 50, 1
		default:
			co.FlushUS, co.Shards, co.MaxRequests = 1500, 2, 2
		}
		return verifC09Step{Kind: "reopen", Coord: co}
	case k < reopenPct+10:
		// one cross-channel leader batch: several channels in one physical commit
		st := verifC09Step{Kind: "append", Class: uint8(rapid.IntRange(0, 2).Draw(rt, "class"))}
		for ci, c := range w.Chans {
			if !c.Exact {
				continue
			}
			prev, _ := c.tail()
			p := w.genProposal(rt, ci, c.LEO, prev, 3)
			app := verifC09App{Ch: ci, Recs: p.Recs, M: p.M, Base: c.LEO, ServerAlloc: true}
			c.addRecords(p.Recs)
			c.Props = append(c.Props, p)
			app.Committed = verifC09Committed(rt, c, c.LEO)
			if app.Committed > c.HW {
				c.HW, c.HasCP = app.Committed, true
			}
			st.Apps = append(st.Apps, app)
		}
		st.Apps = verifC09AddRetries(rt, st.Apps)
		return st
	case k < reopenPct+22:
		// concurrent calls on distinct channels (group commit across requests)
		st := verifC09Step{Kind: "par"}
		for ci := range w.Chans {
			if len(st.Par) >= 2 && rapid.Bool().Draw(rt, "skipChannel") {
				continue
			}
			st.Par = append(st.Par, w.genChanStep(rt, ci, false, ""))
		}
		return st
	}
	ci := rapid.IntRange(0, len(w.Chans)-1).Draw(rt, "channel")
	return w.genChanStep(rt, ci, true, "")
}

// verifC09History is a generated history with the reference state before
// every step.
type verifC09History struct {
	Chans  []*verifC09Chan // static description (Key, ID, Exact)
	Uni    []*verifC09Universe
	Steps  []verifC09Step
	States [][]*verifC09Chan
	world  *verifC09World // the model after the last step (to extend the history)
}

func verifC09GenHistory(rt *rapid.T, minSteps, maxSteps, reopenPct int) *verifC09History {
	w := verifC09NewWorld(rt)
	h := &verifC09History{}
	n := maxSteps - rapid.IntRange(0, maxSteps-minSteps).Draw(rt, "nStepsBelowMax") // rapid favours small draws: favour long histories
	h.States = append(h.States, w.snapshot())
	// warm-up (half of the histories): bring one channel to the point where
	// retention trims are possible, which random steps alone reach rarely
	var warm []string
	warmCh := 0
	if rapid.Bool().Draw(rt, "warmUp") {
		warm = []string{"append", "append", "checkpoint", "adopt"}
		warmCh = rapid.IntRange(0, len(w.Chans)-1).Draw(rt, "warmChannel")
	}
	for i := 0; i < n; i++ {
		if i < len(warm) {
			h.Steps = append(h.Steps, w.genChanStep(rt, warmCh, false, warm[i]))
		} else {
			h.Steps = append(h.Steps, w.genStep(rt, reopenPct))
		}
		h.States = append(h.States, w.snapshot())
	}
	h.Chans = w.snapshot()
	h.Uni = w.Uni
	h.world = w
	return h
}

func (h *verifC09History) trace(upto int) string {
	var b strings.Builder
	for i := 0; i < upto && i < len(h.Steps); i++ {
		fmt.Fprintf(&b, "%3d %s\n", i, h.Steps[i].String())
	}
	return b.String()
}

func (h *verifC09History) kindBefore(j int, kind string) bool {
	for i := 0; i < j && i < len(h.Steps); i++ {
		if h.Steps[i].Kind == kind {
			return true
		}
		for _, p := range h.Steps[i].Par {
			if p.Kind == kind {
				return true
			}
		}
	}
	return false
}

// ------------------------------------------------------- real execution ----

func verifC09OpenEngine(path string, co *verifC09Coord) (*Engine, error) {
	eng, err := Open(path)
	if err != nil {
		return nil, err
	}
	if err := eng.db.WaitLatestMessageIndex(context.Background()); err != nil {
		_ = eng.Close()
		return nil, err
	}
	if co != nil && co.FlushUS != 0 {
		eng.ConfigureCommitCoordinator(co.config())
	}
	return eng, nil
}

func verifC09Store(eng *Engine, c *verifC09Chan) (*ChannelStore, error) {
	return eng.ForChannel(channel.ChannelKey(c.Key), c.ID)
}

// verifC09Exec issues one step (not reopen) against the engine, acquiring a
// fresh lease per call like pkg/channel/store does. It returns a violation
// text when a caller-valid mutation is refused (or a replay is not recognised).
func verifC09Exec(eng *Engine, chans []*verifC09Chan, st *verifC09Step) string {
	return verifC09ExecCtx(context.Background(), eng, chans, st, nil)
}

// verifC09Report is what one (possibly interrupted) storage call told its
// caller: which channels it reported a mutation of this step durable for.
type verifC09Report struct {
	Claimed  map[int]bool // channel -> a mutation issued by this call was reported durable
	Refused  int          // items / calls that were not reported durable
	Verdicts []string
}

func (r *verifC09Report) add(ci int, durable, fresh bool, text string) {
	if r.Claimed == nil {
		r.Claimed = map[int]bool{}
	}
	if durable && fresh {
		r.Claimed[ci] = true
	}
	if !durable {
		r.Refused++
	}
	r.Verdicts = append(r.Verdicts, text)
}

// verifC09ExecCtx is verifC09Exec with a caller context. With rep != nil the
// call is allowed to fail (an injected fault interrupts it): errors and
// non-durable verdicts are recorded instead of being violations.
func verifC09ExecCtx(ctx context.Context, eng *Engine, chans []*verifC09Chan, st *verifC09Step, rep *verifC09Report) string {
	if st.Kind == "par" {
		out := make([]string, len(st.Par))
		var wg sync.WaitGroup
		for i := range st.Par {
			wg.Add(1)
			go func(i int) {
				defer wg.Done()
				out[i] = verifC09ExecCtx(ctx, eng, chans, &st.Par[i], nil)
			}(i)
		}
		wg.Wait()
		for _, s := range out {
			if s != "" {
				return s
			}
		}
		return ""
	}
	stores := map[int]*ChannelStore{}
	defer func() {
		for _, s := range stores {
			_ = s.Close()
		}
	}()
	get := func(ci int) (*ChannelStore, string) {
		if s, ok := stores[ci]; ok {
			return s, ""
		}
		s, err := verifC09Store(eng, chans[ci])
		if err != nil {
			return nil, fmt.Sprintf("step %s: ForChannel: %v", st.String(), err)
		}
		stores[ci] = s
		return s, ""
	}
	fail := func(err error) string { return fmt.Sprintf("step %s: caller-valid mutation refused: %v", st.String(), err) }
	switch st.Kind {
	case "append":
		items := make([]AppendBatchItem, 0, len(st.Apps))
		for _, a := range st.Apps {
			s, msg := get(a.Ch)
			if msg != "" {
				return msg
			}
			items = append(items, AppendBatchItem{Store: s, Records: a.Recs, Committed: a.Committed, Class: AppendBatchClass(st.Class),
				ServerAllocatedMessageIDs: a.ServerAlloc, ExactBaseOffset: true, ExpectedBaseOffset: a.Base, Proposal: a.M})
		}
		res := StoreAppendBatch(ctx, items)
		for i, r := range res {
			want := quorumlog.AppendOutcomeDurable
			if st.Apps[i].Replay {
				want = quorumlog.AppendOutcomeAlreadyDurable
			}
			if rep != nil {
				durable := r.Err == nil && (r.Outcome == quorumlog.AppendOutcomeDurable || r.Outcome == quorumlog.AppendOutcomeAlreadyDurable)
				rep.add(st.Apps[i].Ch, durable, !st.Apps[i].Replay || st.Apps[i].Staged, fmt.Sprintf("item %d (ch%d): outcome %v err %v", i, st.Apps[i].Ch, r.Outcome, r.Err))
				continue
			}
			if r.Err != nil || r.Outcome != want {
				return fmt.Sprintf("step %s: item %d outcome %v err %v, want outcome %v", st.String(), i, r.Outcome, r.Err, want)
			}
		}
	case "legacy":
		s, msg := get(st.Ch)
		if msg != "" {
			return msg
		}
		var err error
		switch st.Mode {
		case 0:
			_, err = s.Append(st.Recs)
		case 1:
			_, err = s.AppendServerAllocated(st.Recs)
		default:
			_, err = s.AppendTrusted(st.Recs)
		}
		if rep != nil {
			rep.add(st.Ch, err == nil, true, fmt.Sprintf("append: err %v", err))
			break
		}
		if err != nil {
			return fail(err)
		}
	case "applyfetch":
		s, msg := get(st.Ch)
		if msg != "" {
			return msg
		}
		req := channel.ApplyFetchStoreRequest{Records: st.Recs}
		if st.HW > 0 {
			hw := st.HW
			req.CheckpointHW = &hw
		}
		res := StoreApplyFetchTrustedBatch(ctx, []ApplyFetchBatchItem{{Store: s, Request: req}})
		if len(res) != 1 {
			return fmt.Sprintf("step %s: %d results for one item", st.String(), len(res))
		}
		if rep != nil {
			rep.add(st.Ch, res[0].Err == nil, true, fmt.Sprintf("apply fetch: err %v", res[0].Err))
			break
		}
		if res[0].Err != nil {
			return fail(res[0].Err)
		}
	case "checkpoint":
		items := make([]CheckpointHWBatchItem, 0, len(st.HWs))
		for _, h := range st.HWs {
			s, msg := get(h.Ch)
			if msg != "" {
				return msg
			}
			items = append(items, CheckpointHWBatchItem{Store: s, HW: h.HW})
		}
		for i, r := range StoreCheckpointHWMonotonicBatch(ctx, items) {
			if rep != nil {
				rep.add(st.HWs[i].Ch, r.Err == nil, true, fmt.Sprintf("checkpoint ch%d: err %v", st.HWs[i].Ch, r.Err))
				continue
			}
			if r.Err != nil {
				return fail(r.Err)
			}
		}
	case "truncate":
		s, msg := get(st.Ch)
		if msg != "" {
			return msg
		}
		var err error
		if chans[st.Ch].Exact {
			err = s.TruncateLogAndHistory(ctx, st.To)
		} else {
			err = s.Truncate(st.To)
		}
		if err != nil {
			return fail(err)
		}
	case "adopt":
		s, msg := get(st.Ch)
		if msg != "" {
			return msg
		}
		if err := s.AdoptRetentionBoundary(ctx, st.To, "committed"); err != nil {
			return fail(err)
		}
	case "trim":
		s, msg := get(st.Ch)
		if msg != "" {
			return msg
		}
		if _, err := s.TrimMessagesThroughLimit(ctx, st.To, RetentionTrimOptions{MaxMessages: st.Max}); err != nil {
			return fail(err)
		}
	case "replace":
		s, msg := get(st.Ch)
		if msg != "" {
			return msg
		}
		res, err := s.ReplaceRecoverySuffix(ctx, ReplaceRecoverySuffixRequest{Expected: st.Expected, KeepThrough: st.To, Proposals: st.Props, Committed: st.HW})
		if err != nil || res.Outcome != quorumlog.AppendOutcomeDurable {
			return fmt.Sprintf("step %s: ReplaceRecoverySuffix outcome %v err %v", st.String(), res.Outcome, err)
		}
	case "discard":
		s, msg := get(st.Ch)
		if msg != "" {
			return msg
		}
		if err := s.DiscardForRestore(ctx); err != nil {
			return fail(err)
		}
	case "epoch":
		s, msg := get(st.Ch)
		if msg != "" {
			return msg
		}
		leo, err := s.LEOWithError()
		if err != nil {
			return fail(err)
		}
		if err := s.BeginEpoch(ctx, channel.EpochPoint{Epoch: st.Epoch, StartOffset: leo}, leo); err != nil {
			return fail(err)
		}
	default:
		return "verif: unknown step kind " + st.Kind
	}
	return ""
}

// ----------------------------------------------------------------- dump ----

func verifC09Hash(b []byte) string {
	s := sha256.Sum256(b)
	return hex.EncodeToString(s[:6])
}

// verifC09Dump renders everything observable about one channel through the
// store API (log end, rows, the four secondary indexes, checkpoint, retention
// state, epoch history, exact frontier, entry identities, proposals) plus a
// digest of the channel's whole key space. It is a pure function of durable
// state for a quiescent store, so dumps of two stores are comparable.
func verifC09Dump(eng *Engine, c *verifC09Chan, u *verifC09Universe) (string, error) {
	ctx := context.Background()
	s, err := verifC09Store(eng, c)
	if err != nil {
		return "", err
	}
	defer s.Close()
	var b strings.Builder
	e := func(err error) string {
		if err == nil {
			return "ok"
		}
		return "err(" + err.Error() + ")"
	}
	leo, err := s.LEOWithError()
	fmt.Fprintf(&b, "LEO %d %s\n", leo, e(err))
	rows, err := s.log.readRows(ctx, 1, 0, ReadOptions{})
	fmt.Fprintf(&b, "rows %d %s\n", len(rows), e(err))
	for _, r := range rows {
		fmt.Fprintf(&b, " row %d id=%d from=%q cno=%q ts=%d/%d type=%d chan=%q flags=%d hash=%x size=%d payload=%s\n", r.MessageSeq, r.MessageID, r.FromUID, r.ClientMsgNo,
			r.Timestamp, r.ServerTimestampMS, r.ChannelType, r.ChannelID, r.FramerFlags, r.PayloadHash, r.PayloadSize, verifC09Hash(r.Payload))
	}
	for _, id := range u.IDs {
		m, ok, err := s.GetMessageByMessageID(id)
		fmt.Fprintf(&b, " byID %d -> %v seq=%d %s\n", id, ok, m.MessageSeq, e(err))
	}
	for _, k := range u.Keys {
		ent, hash, ok, err := s.LookupIdempotency(channel.IdempotencyKey{ChannelID: c.ID, FromUID: k[0], ClientMsgNo: k[1]})
		fmt.Fprintf(&b, " idem %s/%s -> %v seq=%d id=%d off=%d hash=%x %s\n", k[0], k[1], ok, ent.MessageSeq, ent.MessageID, ent.Offset, hash, e(err))
	}
	for _, cno := range u.CNos {
		msgs, next, more, err := s.ListMessagesByClientMsgNo(cno, 0, 50)
		fmt.Fprintf(&b, " byCNo %s ->", cno)
		for _, m := range msgs {
			fmt.Fprintf(&b, " %d", m.MessageSeq)
		}
		fmt.Fprintf(&b, " next=%d more=%v %s\n", next, more, e(err))
	}
	for _, from := range u.Froms {
		seq, ok, err := s.GetLastSenderMessageSeq(ctx, from, leo)
		fmt.Fprintf(&b, " lastSender %s -> %v %d %s\n", from, ok, seq, e(err))
	}
	cp, err := s.LoadCheckpoint()
	fmt.Fprintf(&b, "checkpoint %+v %s\n", cp, e(err))
	rs, err := s.LoadRetentionState()
	fmt.Fprintf(&b, "retention %+v %s\n", rs, e(err))
	hist, err := s.LoadHistory()
	fmt.Fprintf(&b, "history %+v %s\n", hist, e(err))
	cur, ok, err := s.LoadCommittedDispatchCursor("committed")
	fmt.Fprintf(&b, "cursor %d %v %s\n", cur, ok, e(err))
	fr, err := s.LoadDurableFrontier(ctx)
	fmt.Fprintf(&b, "frontier leo=%d committed=%d cmd=%x last=%d digest=%x tail=%d/%x %s\n", fr.LEO, fr.Committed, fr.Manifest.CommandID[:9], fr.Manifest.LastOffset,
		fr.Manifest.Digest[:6], fr.TailIdentity.Index, fr.TailIdentity.Digest[:6], e(err))
	if leo > 0 && leo < 4000 {
		idx := make([]uint64, 0, leo+1)
		for i := uint64(1); i <= leo+1; i++ {
			idx = append(idx, i)
		}
		rec, err := s.LoadDurableRecovery(ctx, idx)
		fmt.Fprintf(&b, "identities %s:", e(err))
		for _, p := range rec.Entries {
			fmt.Fprintf(&b, " %d=%v/%x", p.Index, p.Present, p.Identity.Digest[:4])
		}
		b.WriteByte('\n')
	}
	for _, cmd := range u.Commands {
		p, ok, err := s.LoadDurableProposal(ctx, cmd, 4096, 1<<30)
		fmt.Fprintf(&b, " proposal %x -> %v last=%d n=%d %s\n", cmd[:9], ok, p.Manifest.LastOffset, len(p.Records), e(err))
	}
	// physical key space of the channel partition + its catalog row
	span := keycodec.NewPrefixSpan(encodeMessageChannelPartitionPrefix(ChannelKey(c.Key)))
	it, err := s.log.db.engine.NewIter(engine.Span{Start: span.Start, End: span.End}, engine.IterOptions{})
	if err != nil {
		return "", err
	}
	h := sha256.New()
	n := 0
	for ok := it.First(); ok; ok = it.Next() {
		v, err := it.Value()
		if err != nil {
			it.Close()
			return "", err
		}
		var l [8]byte
		binary.BigEndian.PutUint32(l[:4], uint32(len(it.Key())))
		binary.BigEndian.PutUint32(l[4:], uint32(len(v)))
		h.Write(l[:])
		h.Write(it.Key())
		h.Write(v)
		n++
	}
	if err := it.Error(); err != nil {
		it.Close()
		return "", err
	}
	it.Close()
	cat, catOK, err := s.log.db.engine.Get(encodeCatalogKey(ChannelKey(c.Key)))
	fmt.Fprintf(&b, "keyspace %d keys %x catalog=%v/%x %s\n", n, h.Sum(nil)[:8], catOK, cat, e(err))
	return b.String(), nil
}

func verifC09DumpAll(eng *Engine, h *verifC09History) ([]string, error) {
	out := make([]string, len(h.Chans))
	for i, c := range h.Chans {
		d, err := verifC09Dump(eng, c, h.Uni[i])
		if err != nil {
			return nil, err
		}
		out[i] = d
	}
	return out, nil
}

// verifC09DiffLine returns the first differing line of two dumps.
func verifC09DiffLine(got, want string) string {
	g, w := strings.Split(got, "\n"), strings.Split(want, "\n")
	for i := 0; i < len(g) || i < len(w); i++ {
		var a, b string
		if i < len(g) {
			a = g[i]
		}
		if i < len(w) {
			b = w[i]
		}
		if a != b {
			return fmt.Sprintf("got %q, want %q", a, b)
		}
	}
	return ""
}

// verifC09CheckModel compares the store with the small reference model: log
// end = last stored row (or the retained log end), rows, watermark <= log end,
// exact frontier with its tail proof.
func verifC09CheckModel(eng *Engine, c *verifC09Chan) string {
	ctx := context.Background()
	s, err := verifC09Store(eng, c)
	if err != nil {
		return err.Error()
	}
	defer s.Close()
	leo, err := s.LEOWithError()
	if err != nil || leo != c.LEO {
		return fmt.Sprintf("channel %s: LEO %d (%v), model %d", c.Key, leo, err, c.LEO)
	}
	rows, err := s.log.readRows(ctx, 1, 0, ReadOptions{})
	if err != nil {
		return fmt.Sprintf("channel %s: read rows: %v", c.Key, err)
	}
	if len(rows) != len(c.Rows) {
		return fmt.Sprintf("channel %s: %d rows stored, model %d", c.Key, len(rows), len(c.Rows))
	}
	var lastRow uint64
	for _, r := range rows {
		m, ok := c.Rows[r.MessageSeq]
		if !ok || m.ID != r.MessageID || m.From != r.FromUID || m.CNo != r.ClientMsgNo || string(m.Payload) != string(r.Payload) {
			return fmt.Sprintf("channel %s: row %d id=%d differs from the model (%v)", c.Key, r.MessageSeq, r.MessageID, ok)
		}
		if r.MessageSeq <= lastRow {
			return fmt.Sprintf("channel %s: rows out of order at %d", c.Key, r.MessageSeq)
		}
		lastRow = r.MessageSeq
	}
	rs, err := s.LoadRetentionState()
	if err != nil {
		return fmt.Sprintf("channel %s: retention state: %v", c.Key, err)
	}
	end := lastRow
	if rs.RetainedMaxSeq > end {
		end = rs.RetainedMaxSeq
	}
	if leo != end {
		return fmt.Sprintf("channel %s: recovered log end %d is not the last stored row %d / retained end %d", c.Key, leo, lastRow, rs.RetainedMaxSeq)
	}
	if rs.LocalRetentionThroughSeq != c.Adopted || rs.PhysicalRetentionThroughSeq != c.Physical {
		return fmt.Sprintf("channel %s: retention %+v, model adopted %d physical %d", c.Key, rs, c.Adopted, c.Physical)
	}
	cp, err := s.LoadCheckpoint()
	switch {
	case errors.Is(err, channel.ErrEmptyState):
		if c.HasCP {
			return fmt.Sprintf("channel %s: checkpoint missing, model HW %d", c.Key, c.HW)
		}
	case err != nil:
		return fmt.Sprintf("channel %s: checkpoint: %v", c.Key, err)
	default:
		if cp.HW != c.HW {
			return fmt.Sprintf("channel %s: checkpoint HW %d, model %d", c.Key, cp.HW, c.HW)
		}
		if cp.HW > leo {
			return fmt.Sprintf("channel %s: committed watermark %d exceeds the log end %d", c.Key, cp.HW, leo)
		}
	}
	if c.Exact {
		fr, err := s.LoadDurableFrontier(ctx)
		if err != nil {
			return fmt.Sprintf("channel %s: LoadDurableFrontier: %v (LEO %d)", c.Key, err, leo)
		}
		if want := c.frontier(); fr != want {
			return fmt.Sprintf("channel %s: frontier %+v, model %+v", c.Key, fr, want)
		}
	}
	return ""
}

func verifC09CheckModelAll(eng *Engine, chans []*verifC09Chan) string {
	for _, c := range chans {
		if s := verifC09CheckModel(eng, c); s != "" {
			return s
		}
	}
	return ""
}

func verifC09SortedInts(in []int) []int {
	out := append([]int(nil), in...)
	sort.Ints(out)
	return out
}
