package message

// C09, acknowledged-means-durable under load and across interrupted calls.
//
// TestVerifC09AckedUnderLoad: after a generated history a burst of concurrent
// callers (one per channel, each issuing a short sequence of calls) runs on a
// generated commit-coordinator configuration (collection window, request and
// record caps, shards - all production tunables). A power-loss image is taken
// right after EVERY acknowledgement, while the other callers are in flight or
// queued behind the physical commit that produced the acknowledgement. Every
// call acknowledged before an image must be in it; every channel must show a
// prefix of its own call sequence between acknowledged and issued.
//
// TestVerifC09Interrupted: one coordinator-backed call of the history does not
// complete normally - its physical commit reports an error (before or after
// the bytes reached the disk), its caller context is cancelled while the
// request is queued, or the engine is closed while it is queued - and the
// machine stops right after the call returned. Whatever the call reported
// durable (per item) must be there after restart; the rest is all-or-nothing.

import (
	"context"
	"errors"
	"fmt"
	"math/rand/v2"
	"path/filepath"
	"runtime"
	"sort"
	"strconv"
	"strings"
	"sync"
	"sync/atomic"
	"testing"
	"time"

	"github.com/WuKongIM/WuKongIM/pkg/db/internal/engine"
	"github.com/cockroachdb/pebble/v2"
	"github.com/cockroachdb/pebble/v2/vfs"
	"github.com/cockroachdb/pebble/v2/vfs/errorfs"
	"pgregory.net/rapid"
	"verif.local/kit"
)

// verifC09GID returns the id of the calling goroutine (test machinery only: it
// matches the coordinator's per-request observer callback, which runs on the
// caller's goroutine, with the harness goroutine that issued the call).
func verifC09GID() uint64 {
	var b [64]byte
	f := strings.Fields(string(b[:runtime.Stack(b[:], false)]))
	if len(f) < 2 {
		return 0
	}
	n, _ := strconv.ParseUint(f[1], 10, 64)
	return n
}

// verifC09LoadCtl observes the commit coordinator through its public observer
// interface and holds back further durability FS calls while acknowledgements
// are on their way to callers that have not yet taken their crash image. It
// never injects an error and never influences a verdict: it only makes "power
// loss right after the acknowledgement" an exact crash point under concurrency.
type verifC09LoadCtl struct {
	mu            sync.Mutex
	armed         bool
	gaveUp        bool
	pending       int // requests of finished physical batches whose callers have not imaged yet
	wake          chan struct{}
	byGID         map[uint64]int
	depth         int
	batches       int
	batchesQueued int // physical batches finished while more requests waited in the queue
	waits         int
}

func (c *verifC09LoadCtl) SetCommitCoordinatorQueueDepth(depth int) {
	c.mu.Lock()
	c.depth = depth
	c.mu.Unlock()
}

func (c *verifC09LoadCtl) ObserveCommitCoordinatorBatch(ev CommitCoordinatorBatchEvent) {
	c.mu.Lock()
	if c.armed {
		c.pending += ev.Requests
		c.batches++
		if c.depth > 0 {
			c.batchesQueued++
		}
	}
	c.mu.Unlock()
}

func (c *verifC09LoadCtl) ObserveCommitCoordinatorRequest(CommitCoordinatorRequestEvent) {
	id := verifC09GID()
	c.mu.Lock()
	if c.armed {
		c.byGID[id]++
	}
	c.mu.Unlock()
}

// release is called by a harness goroutine after its call returned and its
// image was taken.
func (c *verifC09LoadCtl) release(id uint64) {
	c.mu.Lock()
	c.pending -= c.byGID[id]
	delete(c.byGID, id)
	if c.pending < 0 {
		c.pending = 0
	}
	close(c.wake)
	c.wake = make(chan struct{})
	c.mu.Unlock()
}

func (c *verifC09LoadCtl) onOp(op errorfs.Op) error {
	if !verifC09Durability(op.Kind) {
		return nil
	}
	c.mu.Lock()
	waited := false
	for c.armed && !c.gaveUp && c.pending > 0 {
		ch := c.wake
		if !waited {
			c.waits++
			waited = true
		}
		c.mu.Unlock()
		select {
		case <-ch:
		case <-time.After(3 * time.Second):
			c.mu.Lock()
			c.gaveUp = true // coverage only: images are then taken without the gate
			c.mu.Unlock()
		}
		c.mu.Lock()
	}
	c.mu.Unlock()
	return nil
}

// verifC09Burst is the concurrent part: per channel a sequence of calls, the
// reference state of the channel after each of them.
type verifC09Burst struct {
	Coord verifC09Coord
	Seqs  [][]verifC09Step
	Sub   [][]*verifC09Chan // Sub[ci][k] = model of channel ci after k calls of its sequence
}

func verifC09GenBurst(rt *rapid.T, w *verifC09World) *verifC09Burst {
	b := &verifC09Burst{}
	switch rapid.IntRange(0, 9).Draw(rt, "burstCoord") {
	case 0: // engine default: 500 us window, no caps
	case 1, 2, 3:
		b.Coord = verifC09Coord{FlushUS: 50, Shards: 1, MaxRequests: 1}
	case 4, 5:
		b.Coord = verifC09Coord{FlushUS: 200, Shards: 1, MaxRequests: 2}
	case 6:
		b.Coord = verifC09Coord{FlushUS: 100, Shards: 1, MaxRecords: 2}
	case 7:
		b.Coord = verifC09Coord{FlushUS: -1, Shards: 1, MaxRequests: 1}
	case 8:
		b.Coord = verifC09Coord{FlushUS: -1, Shards: 1}
	default:
		b.Coord = verifC09Coord{FlushUS: 300, Shards: 2, MaxRequests: 1}
	}
	for ci := range w.Chans {
		n := rapid.IntRange(1, 4).Draw(rt, "burstCalls")
		sub := []*verifC09Chan{w.Chans[ci].clone()}
		var seq []verifC09Step
		for k := 0; k < n; k++ {
			force := ""
			if rapid.IntRange(0, 9).Draw(rt, "burstAppend") < 7 {
				force = "append"
			}
			seq = append(seq, w.genChanStep(rt, ci, false, force))
			sub = append(sub, w.Chans[ci].clone())
		}
		b.Seqs = append(b.Seqs, seq)
		b.Sub = append(b.Sub, sub)
	}
	return b
}

func (b *verifC09Burst) trace() string {
	var sb strings.Builder
	fmt.Fprintf(&sb, "burst coordinator %+v\n", b.Coord)
	for ci, seq := range b.Seqs {
		for k := range seq {
			fmt.Fprintf(&sb, "  caller %d call %d: %s\n", ci, k, seq[k].String())
		}
	}
	return sb.String()
}

type verifC09LoadImage struct {
	By, Call int
	Pct      int
	FS       *vfs.MemFS
	Acked    []int // per channel: calls acknowledged before the image was taken
	Issued   []int // per channel: calls issued when the image had been taken
}

func (im *verifC09LoadImage) inFlight() int {
	n := 0
	for c := range im.Acked {
		if im.Issued[c] > im.Acked[c] {
			n++
		}
	}
	return n
}

func TestVerifC09AckedUnderLoad(t *testing.T) {
	maxSteps := kit.Scale("C09_LOAD_STEPS", 24, 40)
	col := kit.For(t, "C09")
	kit.Check(t, "C09", func(rt *rapid.T, k *kit.Case) {
		dir, clean := kit.TempDir()
		defer clean()
		h := verifC09GenHistory(rt, 2, maxSteps, 4)
		burst := verifC09GenBurst(rt, h.world) // extends the identity universe: before any dump
		final := h.world.snapshot()
		nch := len(h.Chans)
		type cloneCfg struct {
			pct  int
			seed uint64
		}
		cfgs := make([][]cloneCfg, nch)
		for ci := range burst.Seqs {
			for range burst.Seqs[ci] {
				cfgs[ci] = append(cfgs[ci], cloneCfg{rapid.SampledFrom([]int{0, 0, 0, 50}).Draw(rt, "unsyncedPercent"), rapid.Uint64().Draw(rt, "cloneSeed")})
			}
		}
		const maxJudged = 6
		rot := rapid.IntRange(0, 11).Draw(rt, "judgeFrom")

		mem := vfs.NewCrashableMem()
		ctl := &verifC09LoadCtl{wake: make(chan struct{}), byGID: map[uint64]int{}}
		var fs vfs.FS = errorfs.Wrap(mem, errorfs.InjectorFunc(ctl.onOp))
		engine.VerifPebbleOptions = func(o *pebble.Options) {
			o.Logger = verifC09QuietLogger{}
			o.FS = fs
		}
		defer func() { engine.VerifPebbleOptions = nil }()
		path := filepath.Join(dir, "msg")
		eng, err := verifC09OpenEngine(path, nil)
		if err != nil {
			rt.Fatalf("open: %v", err)
		}
		defer func() {
			if eng != nil {
				_ = eng.Close()
			}
		}()
		for i := range h.Steps {
			var s string
			eng, s = verifC09RunStep(eng, path, h, i)
			if s != "" {
				rt.Fatalf("%s\nhistory:\n%s", s, h.trace(i+1))
			}
		}
		pre, err := verifC09DumpAll(eng, h)
		if err != nil {
			rt.Fatalf("dump: %v", err)
		}
		if s := verifC09CheckModelAll(eng, h.States[len(h.Steps)]); s != "" {
			rt.Fatalf("before the burst: %s\nhistory:\n%s", s, h.trace(len(h.Steps)))
		}
		cfg := burst.Coord.config()
		cfg.Observer = ctl
		eng.ConfigureCommitCoordinator(cfg)

		issued, acked := make([]atomic.Int32, nch), make([]atomic.Int32, nch)
		snap := func(a []atomic.Int32) []int {
			out := make([]int, len(a))
			for i := range a {
				out[i] = int(a[i].Load())
			}
			return out
		}
		var imu sync.Mutex
		var images []*verifC09LoadImage
		errs := make([]string, nch)
		start := make(chan struct{})
		var wg sync.WaitGroup
		ctl.mu.Lock()
		ctl.armed = true
		ctl.mu.Unlock()
		for ci := range burst.Seqs {
			wg.Add(1)
			go func(ci int) {
				defer wg.Done()
				me := verifC09GID()
				<-start
				for n := range burst.Seqs[ci] {
					issued[ci].Store(int32(n + 1))
					if s := verifC09Exec(eng, h.Chans, &burst.Seqs[ci][n]); s != "" {
						errs[ci] = s
						ctl.release(me)
						return
					}
					acked[ci].Store(int32(n + 1))
					im := &verifC09LoadImage{By: ci, Call: n, Pct: cfgs[ci][n].pct, Acked: snap(acked)}
					im.FS = mem.CrashClone(vfs.CrashCloneCfg{UnsyncedDataPercent: im.Pct, RNG: rand.New(rand.NewPCG(cfgs[ci][n].seed, 9))})
					im.Issued = snap(issued)
					ctl.release(me)
					imu.Lock()
					images = append(images, im)
					imu.Unlock()
				}
			}(ci)
		}
		close(start)
		wg.Wait()
		ctl.mu.Lock()
		ctl.armed = false
		batches, batchesQueued, waits, gaveUp := ctl.batches, ctl.batchesQueued, ctl.waits, ctl.gaveUp
		ctl.mu.Unlock()
		for _, s := range errs {
			if s != "" {
				rt.Fatalf("%s\nhistory:\n%s%s", s, h.trace(len(h.Steps)), burst.trace())
			}
		}
		ackClone := mem.CrashClone(vfs.CrashCloneCfg{})
		post, err := verifC09DumpAll(eng, h)
		if err != nil {
			rt.Fatalf("dump: %v", err)
		}
		if s := verifC09CheckModelAll(eng, final); s != "" {
			rt.Fatalf("after the burst: %s\nhistory:\n%s%s", s, h.trace(len(h.Steps)), burst.trace())
		}
		_ = eng.Close()
		eng = nil

		// reference dumps of every channel after every prefix of its own calls:
		// the same history and calls, sequentially, on a plain in-memory store
		ref := make([][]string, nch)
		needRef := false
		for ci := range ref {
			ref[ci] = make([]string, len(burst.Seqs[ci])+1)
			ref[ci][0], ref[ci][len(burst.Seqs[ci])] = pre[ci], post[ci]
			needRef = needRef || len(burst.Seqs[ci]) > 1
		}
		if needRef {
			fs = vfs.NewMem()
			refPath := filepath.Join(dir, "ref")
			reng, err := verifC09OpenEngine(refPath, nil)
			if err != nil {
				rt.Fatalf("reference open: %v", err)
			}
			closeRef := func() {
				if reng != nil {
					_ = reng.Close()
					reng = nil
				}
			}
			defer closeRef()
			for i := range h.Steps {
				var s string
				reng, s = verifC09RunStep(reng, refPath, h, i)
				if s != "" {
					rt.Fatalf("reference run: %s\nhistory:\n%s", s, h.trace(i+1))
				}
			}
			for ci := range burst.Seqs {
				for n := range burst.Seqs[ci] {
					if s := verifC09Exec(reng, h.Chans, &burst.Seqs[ci][n]); s != "" {
						rt.Fatalf("reference run: %s\nhistory:\n%s%s", s, h.trace(len(h.Steps)), burst.trace())
					}
					d, err := verifC09Dump(reng, h.Chans[ci], h.Uni[ci])
					if err != nil {
						rt.Fatalf("dump: %v", err)
					}
					if n+1 == len(burst.Seqs[ci]) {
						if d != post[ci] {
							rt.Fatalf("channel %s: the concurrent callers left a different state than the same calls issued one after the other: %s\nhistory:\n%s%s",
								h.Chans[ci].Key, verifC09DiffLine(post[ci], d), h.trace(len(h.Steps)), burst.trace())
						}
					} else {
						ref[ci][n+1] = d
					}
				}
			}
			closeRef()
		}

		reopenOn := func(img *vfs.MemFS, where string) []string {
			fs = img
			var err error
			eng, err = verifC09OpenEngine(path, nil)
			if err != nil {
				eng = nil
				rt.Fatalf("%s: store does not open: %v\nhistory:\n%s%s", where, err, h.trace(len(h.Steps)), burst.trace())
			}
			rec, err := verifC09DumpAll(eng, h)
			if err != nil {
				rt.Fatalf("%s: dump of the recovered store: %v", where, err)
			}
			return rec
		}
		closeEng := func() {
			if eng != nil {
				_ = eng.Close()
				eng = nil
			}
		}

		where := "power loss right after the last caller of the burst was acknowledged (no unsynced data kept)"
		rec := reopenOn(ackClone, where)
		for ci := range rec {
			if rec[ci] != post[ci] {
				rt.Fatalf("%s: channel %s is not in the acknowledged state: %s\nhistory:\n%s%s", where, h.Chans[ci].Key, verifC09DiffLine(rec[ci], post[ci]), h.trace(len(h.Steps)), burst.trace())
			}
		}
		if s := verifC09CheckModelAll(eng, final); s != "" {
			rt.Fatalf("%s: %s\nhistory:\n%s%s", where, s, h.trace(len(h.Steps)), burst.trace())
		}
		closeEng()

		// judge the images with other calls in flight first
		sort.SliceStable(images, func(a, b int) bool { return images[a].inFlight() > images[b].inFlight() })
		busy := 0
		for _, im := range images {
			if im.inFlight() > 0 {
				busy++
			}
		}
		judged, judgedBusy, behind := 0, 0, 0
		for x := 0; x < len(images) && judged < maxJudged; x++ {
			im := images[x]
			if busy > maxJudged && im.inFlight() > 0 {
				im = images[(x+rot)%busy]
			}
			where := fmt.Sprintf("power loss right after call %d of caller %d (%s) was acknowledged, %d%% unsynced kept; acknowledged per channel %v, issued %v",
				im.Call, im.By, burst.Seqs[im.By][im.Call].String(), im.Pct, im.Acked, im.Issued)
			rec := reopenOn(im.FS, where)
			for ci := range rec {
				at := -1
				for p := im.Acked[ci]; p <= im.Issued[ci] && at < 0; p++ {
					if rec[ci] == ref[ci][p] {
						at = p
					}
				}
				if at < 0 {
					rt.Fatalf("%s: channel %s: %d calls were acknowledged before the power loss, but the recovered state is none of the states after %d..%d calls: against the acknowledged state: %s\nhistory:\n%s%s",
						where, h.Chans[ci].Key, im.Acked[ci], im.Acked[ci], im.Issued[ci], verifC09DiffLine(rec[ci], ref[ci][im.Acked[ci]]), h.trace(len(h.Steps)), burst.trace())
				}
				if s := verifC09CheckModel(eng, burst.Sub[ci][at]); s != "" {
					rt.Fatalf("%s: recovered at call prefix %d: %s\nhistory:\n%s%s", where, at, s, h.trace(len(h.Steps)), burst.trace())
				}
				if at < im.Issued[ci] {
					behind++
				}
			}
			closeEng()
			judged++
			if im.inFlight() > 0 {
				judgedBusy++
			}
		}
		col.AddExtra("load_crash_images", int64(judged+1))
		col.AddExtra("load_crash_images_with_calls_in_flight", int64(judgedBusy))
		col.AddExtra("load_physical_batches", int64(batches))
		col.AddExtra("load_physical_batches_with_requests_queued_behind", int64(batchesQueued))

		k.Key("load", fmt.Sprint(cfgs), rot, h.trace(len(h.Steps)), burst.trace())
		k.SetNonTrivial(judgedBusy > 0)
		k.LabelIf(judgedBusy > 0, "load: crash image right after an acknowledgement while other callers were in flight")
		k.LabelIf(batchesQueued > 0, "load: a physical batch was acknowledged while more requests waited in the coordinator queue")
		k.LabelIf(batchesQueued > 0 && judgedBusy > 0, "load: both (acknowledged with requests queued behind, image with callers in flight)")
		k.LabelIf(waits > 0, "load: the next durability FS call was held until the acknowledged caller had its image")
		k.LabelIf(gaveUp, "load: gate gave up waiting (images without the gate)")
		k.LabelIf(behind > 0, "load: an in-flight call was lost by the power loss")
		k.LabelIf(burst.Coord.MaxRequests > 0 || burst.Coord.MaxRecords > 0, "load: coordinator with request/record caps")
		k.LabelIf(burst.Coord.FlushUS == 0, "load: engine default coordinator")
		k.LabelIf(burst.Coord.Shards > 1, "load: sharded coordinator")
		k.Sample(func() any {
			return fmt.Sprintf("burst after %d steps, coordinator %+v, %d calls, %d physical batches (%d with requests queued behind), %d images (%d with callers in flight), judged %d",
				len(h.Steps), burst.Coord, len(images), batches, batchesQueued, len(images), busy, judged)
		})
	})
}

// ------------------------------------------------------ interrupted calls ----

type verifC09AdmitObserver struct {
	once    sync.Once
	onAdmit func()
}

func (o *verifC09AdmitObserver) SetCommitCoordinatorQueueDepth(int) {
	// every callback happens after a request entered the coordinator queue
	o.once.Do(o.onAdmit)
}
func (o *verifC09AdmitObserver) ObserveCommitCoordinatorBatch(CommitCoordinatorBatchEvent) {}

var verifC09ErrInjected = errors.New("verif: injected physical commit error")

func verifC09HasStagedRetry(st *verifC09Step) (staged, writeFree bool) {
	for _, a := range st.Apps {
		if a.Staged {
			staged = true
			if a.Committed == 0 {
				writeFree = true
			}
		}
	}
	return
}

func TestVerifC09Interrupted(t *testing.T) {
	maxSteps := kit.Scale("C09_INT_STEPS", 24, 40)
	col := kit.For(t, "C09")
	kit.Check(t, "C09", func(rt *rapid.T, k *kit.Case) {
		dir, clean := kit.TempDir()
		defer clean()
		h := verifC09GenHistory(rt, 4, maxSteps, 4)
		eligible := func(st *verifC09Step) bool {
			switch st.Kind {
			case "append", "legacy", "applyfetch", "checkpoint":
				return true
			}
			return false
		}
		j := len(h.Steps) - 1 - rapid.IntRange(0, len(h.Steps)-1).Draw(rt, "crashStepFromEnd")
		want := rapid.SampledFrom([]string{"retry", "retry", "retry", "retry", "retry", "append", "legacy", "applyfetch", "checkpoint", "checkpoint", "any"}).Draw(rt, "preferCall")
		found := false
		for pass := 0; pass < 2 && !found; pass++ {
			for d := 0; d < len(h.Steps) && !found; d++ {
				c := (j + d) % len(h.Steps)
				if !eligible(&h.Steps[c]) {
					continue
				}
				if pass == 0 && want != "any" {
					if staged, _ := verifC09HasStagedRetry(&h.Steps[c]); (want == "retry") != staged || (want != "retry" && h.Steps[c].Kind != want) {
						continue
					}
				}
				j, found = c, true
			}
		}
		mode := rapid.SampledFrom([]string{"commit error before the disk", "commit error before the disk", "commit error after the disk",
			"context cancelled while queued", "context cancelled while queued", "engine closed while queued"}).Draw(rt, "mode")
		if !found {
			k.Label("interrupted: history without a coordinator-backed call")
			return
		}
		st := &h.Steps[j]
		if st.Kind == "legacy" && mode == "context cancelled while queued" {
			mode = "commit error before the disk" // the legacy append surface takes no context
		}

		mem := vfs.NewCrashableMem()
		var fs vfs.FS = mem
		engine.VerifPebbleOptions = func(o *pebble.Options) {
			o.Logger = verifC09QuietLogger{}
			o.FS = fs
		}
		defer func() { engine.VerifPebbleOptions = nil }()
		path := filepath.Join(dir, "msg")
		eng, err := verifC09OpenEngine(path, nil)
		if err != nil {
			rt.Fatalf("open: %v", err)
		}
		defer func() {
			if eng != nil {
				_ = eng.Close()
			}
		}()
		for i := 0; i < j; i++ {
			var s string
			eng, s = verifC09RunStep(eng, path, h, i)
			if s != "" {
				rt.Fatalf("%s\nhistory:\n%s", s, h.trace(i+1))
			}
		}
		pre, err := verifC09DumpAll(eng, h)
		if err != nil {
			rt.Fatalf("dump: %v", err)
		}
		if s := verifC09CheckModelAll(eng, h.States[j]); s != "" {
			rt.Fatalf("before step %d: %s\nhistory:\n%s", j, s, h.trace(j))
		}
		// the disk as it is before the step: the interrupted run starts from it
		fork := mem.CrashClone(vfs.CrashCloneCfg{UnsyncedDataPercent: 100, RNG: rand.New(rand.NewPCG(1, 9))})
		var s string
		if eng, s = verifC09RunStep(eng, path, h, j); s != "" {
			rt.Fatalf("%s\nhistory:\n%s", s, h.trace(j+1))
		}
		post, err := verifC09DumpAll(eng, h)
		if err != nil {
			rt.Fatalf("dump: %v", err)
		}
		if s := verifC09CheckModelAll(eng, h.States[j+1]); s != "" {
			rt.Fatalf("after step %d (%s): %s\nhistory:\n%s", j, st.String(), s, h.trace(j+1))
		}
		_ = eng.Close()
		eng = nil

		// the interrupted run
		fs = fork
		feng, err := verifC09OpenEngine(path, nil)
		if err != nil {
			rt.Fatalf("open of the forked store: %v", err)
		}
		fclosed := false
		defer func() {
			if !fclosed {
				_ = feng.Close()
			}
		}()
		ctx, cancel := context.WithCancel(context.Background())
		defer cancel()
		closed := make(chan struct{})
		var closing atomic.Bool
		switch mode {
		case "commit error before the disk":
			feng.committer.SetCommitFunc(func(*engine.Batch) error { return verifC09ErrInjected })
		case "commit error after the disk":
			feng.committer.SetCommitFunc(func(b *engine.Batch) error {
				if err := b.Commit(true); err != nil {
					return err
				}
				return verifC09ErrInjected
			})
		case "context cancelled while queued":
			feng.ConfigureCommitCoordinator(CommitCoordinatorConfig{FlushWindow: time.Minute, Observer: &verifC09AdmitObserver{onAdmit: cancel}})
		case "engine closed while queued":
			feng.ConfigureCommitCoordinator(CommitCoordinatorConfig{FlushWindow: time.Minute, Observer: &verifC09AdmitObserver{onAdmit: func() {
				closing.Store(true)
				go func() {
					_ = feng.Close()
					close(closed)
				}()
			}}})
		}
		rep := &verifC09Report{}
		if s := verifC09ExecCtx(ctx, feng, h.Chans, st, rep); s != "" {
			rt.Fatalf("interrupted step %d: %s\nhistory:\n%s", j, s, h.trace(j+1))
		}
		stopped := fork.CrashClone(vfs.CrashCloneCfg{}) // the machine stops right after the call returned
		cancel()
		if closing.Load() {
			select {
			case <-closed:
				fclosed = true
			case <-time.After(60 * time.Second):
				col.Inconclusive("engine close did not return")
				rt.Skip("engine close did not return")
			}
		}
		if !fclosed {
			_ = feng.Close()
			fclosed = true
		}

		where := fmt.Sprintf("step %d (%s) interrupted (%s), reported %v, then the machine stopped", j, st.String(), mode, rep.Verdicts)
		fs = stopped
		eng, err = verifC09OpenEngine(path, nil)
		if err != nil {
			eng = nil
			rt.Fatalf("%s: store does not open: %v\nhistory:\n%s", where, err, h.trace(j+1))
		}
		rec, err := verifC09DumpAll(eng, h)
		if err != nil {
			rt.Fatalf("%s: dump of the recovered store: %v", where, err)
		}
		p, s := verifC09Judge(h, j, pre, post, rec)
		if s != "" {
			rt.Fatalf("%s: %s\nhistory:\n%s", where, s, h.trace(j+1))
		}
		for ci := range rep.Claimed {
			if rec[ci] != post[ci] {
				rt.Fatalf("%s: channel %s: the call reported its mutation durable, but after restart the channel is in the state before the call: %s\nhistory:\n%s",
					where, h.Chans[ci].Key, verifC09DiffLine(rec[ci], post[ci]), h.trace(j+1))
			}
		}
		if p >= 0 {
			if eng, s = verifC09AfterRecovery(eng, path, h, p); s != "" {
				rt.Fatalf("%s: %s\nhistory:\n%s", where, s, h.trace(len(h.Steps)))
			}
		}

		staged, writeFree := verifC09HasStagedRetry(st)
		k.Key("interrupted", j, mode, h.trace(len(h.Steps)))
		k.SetNonTrivial(rep.Refused > 0)
		k.LabelIf(rep.Refused > 0, "interrupted: the fault took effect (a verdict other than durable)")
		k.Label("interrupted: " + mode)
		k.Label("interrupted: " + st.Kind)
		k.LabelIf(staged, "interrupted: call carrying a coalesced retry of a proposal staged in the same call")
		k.LabelIf(writeFree, "interrupted: ... the retry without a committed watermark (stages no write)")
		k.LabelIf(len(rep.Claimed) > 0, "interrupted: something was reported durable")
		k.LabelIf(p == j+1, "interrupted: mutation present after restart")
		k.LabelIf(p == j && pre[st.channels()[0]] != post[st.channels()[0]], "interrupted: mutation absent after restart")
		k.LabelIf(len(st.channels()) > 1, "interrupted: multi-item call")
		k.Sample(func() any { return where + fmt.Sprintf(" -> recovered prefix %d", p) })
	})
}
