package message

// C09 crash engines and the clean (no crash) baseline. Oracle: after a crash
// the reopened store must show, for every channel, exactly the observable
// state (verifC09Dump: API-level reads of rows, all indexes, checkpoint,
// retention, history, frontier, identities, proposals + the channel's whole
// key space) that an uncrashed store shows after some prefix p of the issued
// steps with lastDurablyAcked <= p <= lastIssued; channels written by one call
// agree on p; the small model additionally fixes log end / rows / watermark /
// frontier at that prefix, and the recovered store must keep following the
// model for three more steps.

import (
	"bufio"
	"bytes"
	"context"
	"encoding/gob"
	"fmt"
	"math/rand/v2"
	"os"
	"os/exec"
	"path/filepath"
	"strings"
	"sync"
	"testing"
	"time"

	"github.com/WuKongIM/WuKongIM/pkg/db/internal/engine"
	"github.com/cockroachdb/pebble/v2"
	"github.com/cockroachdb/pebble/v2/vfs"
	"github.com/cockroachdb/pebble/v2/vfs/errorfs"
	"pgregory.net/rapid"
	"verif.local/kit"
)

type verifC09QuietLogger struct{}

func (verifC09QuietLogger) Infof(string, ...interface{})  {}
func (verifC09QuietLogger) Errorf(string, ...interface{}) {}
func (verifC09QuietLogger) Fatalf(f string, a ...interface{}) {
	panic("pebble fatal: " + fmt.Sprintf(f, a...))
}

// verifC09RunStep executes step i (including reopen) and returns the possibly
// new engine.
func verifC09RunStep(eng *Engine, path string, h *verifC09History, i int) (*Engine, string) {
	st := &h.Steps[i]
	if st.Kind == "reopen" {
		if err := eng.Close(); err != nil {
			return nil, fmt.Sprintf("close: %v", err)
		}
		neng, err := verifC09OpenEngine(path, st.Coord)
		if err != nil {
			return nil, fmt.Sprintf("reopen: %v", err)
		}
		return neng, ""
	}
	return eng, verifC09Exec(eng, h.Chans, st)
}

// verifC09Judge applies the prefix oracle to the dumps of a recovered store.
// pre/post are the dumps of an uncrashed store before/after step `acked`
// (post == nil when nothing was in flight). It returns the matched prefix (or
// -1 when the concurrent calls of a "par" step landed differently, or -2 for
// an interrupted multi-batch discard) and a violation text.
func verifC09Judge(h *verifC09History, acked int, pre, post, rec []string) (int, string) {
	if post == nil {
		for ci := range rec {
			if rec[ci] != pre[ci] {
				return 0, fmt.Sprintf("channel %s: recovered state is not the state after the %d acknowledged steps: %s", h.Chans[ci].Key, acked, verifC09DiffLine(rec[ci], pre[ci]))
			}
		}
		return acked, ""
	}
	st := &h.Steps[acked]
	old, new_ := 0, 0
	for ci := range rec {
		switch {
		case rec[ci] == pre[ci] && rec[ci] == post[ci]:
		case rec[ci] == pre[ci]:
			old++
		case rec[ci] == post[ci]:
			new_++
		default:
			if st.Kind == "discard" && st.Ch == ci {
				return -2, "" // paged cleanup interrupted between its batches: judged by retry
			}
			return 0, fmt.Sprintf("channel %s: recovered state is neither the state before step %d (%s) nor the state after it (%s)", h.Chans[ci].Key, acked,
				verifC09DiffLine(rec[ci], pre[ci]), verifC09DiffLine(rec[ci], post[ci]))
		}
	}
	if old > 0 && new_ > 0 {
		if st.Kind != "par" {
			return 0, fmt.Sprintf("step %d (%s) is one storage call but was recovered for some of its channels only", acked, st.String())
		}
		return -1, ""
	}
	if new_ > 0 {
		return acked + 1, ""
	}
	return acked, ""
}

// verifC09AfterRecovery checks the recovered store against the model at the
// matched prefix and continues the history for a few steps.
func verifC09AfterRecovery(eng *Engine, path string, h *verifC09History, p int) (*Engine, string) {
	if s := verifC09CheckModelAll(eng, h.States[p]); s != "" {
		return eng, fmt.Sprintf("recovered at prefix %d: %s", p, s)
	}
	end := p
	for ; end < len(h.Steps) && end < p+3; end++ {
		var s string
		eng, s = verifC09RunStep(eng, path, h, end)
		if s != "" {
			return eng, fmt.Sprintf("after recovery at prefix %d: %s", p, s)
		}
	}
	if s := verifC09CheckModelAll(eng, h.States[end]); s != "" {
		return eng, fmt.Sprintf("after recovery at prefix %d and steps %d..%d: %s", p, p, end-1, s)
	}
	return eng, ""
}

// ------------------------------------------------------------- baseline ----

// TestVerifC09Clean: no crash. Every step's result matches the small model and
// a clean close+reopen leaves every channel's dump unchanged — the premise of
// the crash oracle (dumps are a function of durable state only).
func TestVerifC09Clean(t *testing.T) {
	maxSteps := kit.Scale("C09_CLEAN_STEPS", 40, 70)
	kit.Check(t, "C09", func(rt *rapid.T, k *kit.Case) {
		dir, clean := kit.TempDir()
		defer clean()
		mem := vfs.NewMem()
		engine.VerifPebbleOptions = func(o *pebble.Options) {
			o.Logger = verifC09QuietLogger{}
			o.FS = mem
		}
		defer func() { engine.VerifPebbleOptions = nil }()
		h := verifC09GenHistory(rt, 4, maxSteps, 6)
		path := filepath.Join(dir, "msg")
		eng, err := verifC09OpenEngine(path, nil)
		if err != nil {
			rt.Fatalf("open: %v", err)
		}
		defer func() {
			if eng != nil {
				_ = eng.Close()
			}
		}()
		reopens, trims := 0, 0
		for i := range h.Steps {
			var before []string
			if h.Steps[i].Kind == "reopen" {
				if before, err = verifC09DumpAll(eng, h); err != nil {
					rt.Fatalf("dump: %v", err)
				}
			}
			var s string
			eng, s = verifC09RunStep(eng, path, h, i)
			if s != "" {
				rt.Fatalf("%s\nhistory:\n%s", s, h.trace(i+1))
			}
			if s := verifC09CheckModelAll(eng, h.States[i+1]); s != "" {
				rt.Fatalf("after step %d (%s): %s\nhistory:\n%s", i, h.Steps[i].String(), s, h.trace(i+1))
			}
			if before != nil {
				after, err := verifC09DumpAll(eng, h)
				if err != nil {
					rt.Fatalf("dump: %v", err)
				}
				for ci := range after {
					if after[ci] != before[ci] {
						rt.Fatalf("channel %s: clean reopen at step %d changed the observable state: %s\nhistory:\n%s", h.Chans[ci].Key, i, verifC09DiffLine(after[ci], before[ci]), h.trace(i+1))
					}
				}
				reopens++
			}
			if h.Steps[i].Kind == "trim" {
				trims++
			}
		}
		k.Key("clean", h.trace(len(h.Steps)))
		k.SetNonTrivial(reopens > 0 && (h.kindBefore(len(h.Steps), "truncate") || h.kindBefore(len(h.Steps), "replace")))
		k.LabelIf(reopens > 0, "clean: reopen compared")
		k.LabelIf(trims > 1, "clean: multi-batch retention trim")
		k.LabelIf(h.kindBefore(len(h.Steps), "replace"), "clean: recovery suffix replacement")
		k.LabelIf(h.kindBefore(len(h.Steps), "discard"), "clean: discard for restore")
		k.Sample(func() any { return strings.ReplaceAll(h.trace(len(h.Steps)), "\n", " ; ") })
	})
}

// ------------------------------------------------------ (a) power loss ----

// verifC09Image is one simulated power loss: the crash clone taken right
// before durability FS call #Call of the crash step.
type verifC09Image struct {
	Call int
	Pct  int
	FS   *vfs.MemFS
}

type verifC09CrashCtl struct {
	mu     sync.Mutex
	mem    *vfs.MemFS
	armed  bool
	calls  int
	first  int
	stride int
	pcts   []int
	seeds  []uint64
	images []verifC09Image
}

func verifC09Durability(k errorfs.OpKind) bool {
	switch k {
	case errorfs.OpCreate, errorfs.OpLink, errorfs.OpRemove, errorfs.OpRemoveAll, errorfs.OpRename, errorfs.OpReuseForWrite,
		errorfs.OpMkdirAll, errorfs.OpFileWrite, errorfs.OpFileWriteAt, errorfs.OpFileSync, errorfs.OpFileSyncData, errorfs.OpFileSyncTo:
		return true
	}
	return false
}

// onOp only counts, it never injects an error. While armed it takes a crash
// clone before the generated durability FS calls of the step (every call for
// short steps, a generated stride for long ones).
func (c *verifC09CrashCtl) onOp(op errorfs.Op) error {
	if !verifC09Durability(op.Kind) {
		return nil
	}
	c.mu.Lock()
	defer c.mu.Unlock()
	if !c.armed {
		return nil
	}
	n := c.calls
	c.calls++
	if n >= c.first && (n-c.first)%c.stride == 0 && len(c.images) < len(c.pcts) {
		i := len(c.images)
		c.images = append(c.images, verifC09Image{Call: n, Pct: c.pcts[i],
			FS: c.mem.CrashClone(vfs.CrashCloneCfg{UnsyncedDataPercent: c.pcts[i], RNG: rand.New(rand.NewPCG(c.seeds[i], 9))})})
	}
	return nil
}

// TestVerifC09PowerLoss: the history runs on Pebble's CrashableMem (through
// engine.VerifPebbleOptions). Inside one generated step a crash image is taken
// before each (generated subset of the) durability FS calls of that step, each
// keeping 0/50/100 % of the unsynced blocks, plus one image right after the
// step was acknowledged keeping nothing unsynced. The store is reopened on
// every image and judged by the prefix oracle.
func TestVerifC09PowerLoss(t *testing.T) {
	maxSteps := kit.Scale("C09_CRASH_STEPS", 40, 60)
	col := kit.For(t, "C09")
	kit.Check(t, "C09", func(rt *rapid.T, k *kit.Case) {
		dir, clean := kit.TempDir()
		defer clean()
		h := verifC09GenHistory(rt, 8, maxSteps, 5)
		j := len(h.Steps) - 1 - rapid.IntRange(0, len(h.Steps)-1).Draw(rt, "crashStepFromEnd")
		switch pm := rapid.IntRange(0, 9).Draw(rt, "preferKind"); {
		case pm >= 3:
			// most crash steps are of the less frequent mutation kinds
			want := rapid.SampledFrom([]string{"trim", "trim", "trim", "truncate", "truncate", "truncate", "replace", "replace", "checkpoint", "adopt", "adopt",
				"discard", "applyfetch", "legacy", "epoch", "par"}).Draw(rt, "crashKind")
			found := false
			for d := 0; d < len(h.Steps) && !found; d++ {
				if c := (j + d) % len(h.Steps); h.Steps[c].Kind == want {
					j, found = c, true
				}
			}
			for d := 0; d < len(h.Steps) && !found; d++ {
				if c := (j + d) % len(h.Steps); h.Steps[c].Kind != "reopen" {
					j, found = c, true
				}
			}
		case pm >= 1:
			for d := 0; d < len(h.Steps); d++ {
				if c := (j + d) % len(h.Steps); h.Steps[c].Kind != "reopen" {
					j = c
					break
				}
			}
		}
		isMutation := h.Steps[j].Kind != "reopen"
		const maxImages = 6
		ctl := &verifC09CrashCtl{stride: 1}
		if !isMutation {
			ctl.stride = rapid.IntRange(3, 9).Draw(rt, "stride")
			ctl.first = rapid.IntRange(0, ctl.stride-1).Draw(rt, "first")
		} else if rapid.IntRange(0, 5).Draw(rt, "skipFirst") == 0 {
			ctl.first = rapid.IntRange(1, 3).Draw(rt, "first")
		}
		for i := 0; i < maxImages; i++ {
			pct := rapid.SampledFrom([]int{0, 0, 50, 50, 100}).Draw(rt, "unsyncedPercent")
			if !isMutation && pct == 50 {
				// Fault-model limit: Pebble's own Open creates the new MANIFEST and
				// its marker file and syncs the directory once afterwards; a crash
				// image that keeps an arbitrary subset of those unsynced directory
				// entries (marker without MANIFEST) makes pebble.Open itself fail.
				// Journaling file systems persist directory entries in order, so
				// inside close+reopen only "none" or "all" unsynced data is kept.
				pct = rapid.SampledFrom([]int{0, 100}).Draw(rt, "unsyncedPercentReopen")
			}
			ctl.pcts = append(ctl.pcts, pct)
			ctl.seeds = append(ctl.seeds, rapid.Uint64().Draw(rt, "cloneSeed"))
		}
		contImage := rapid.IntRange(0, maxImages-1).Draw(rt, "continueOnImage")

		mem := vfs.NewCrashableMem()
		ctl.mem = mem
		var fs vfs.FS = errorfs.Wrap(mem, errorfs.InjectorFunc(ctl.onOp))
		engine.VerifPebbleOptions = func(o *pebble.Options) {
			o.Logger = verifC09QuietLogger{}
			o.FS = fs
		}
		defer func() { engine.VerifPebbleOptions = nil }()
		path := filepath.Join(dir, "msg")
		eng, err := verifC09OpenEngine(path, nil)
		if err != nil {
			rt.Fatalf("open: %v", err)
		}
		defer func() {
			if eng != nil {
				_ = eng.Close()
			}
		}()
		for i := 0; i < j; i++ {
			var s string
			eng, s = verifC09RunStep(eng, path, h, i)
			if s != "" {
				rt.Fatalf("%s\nhistory:\n%s", s, h.trace(i+1))
			}
		}
		pre, err := verifC09DumpAll(eng, h)
		if err != nil {
			rt.Fatalf("dump: %v", err)
		}
		if s := verifC09CheckModelAll(eng, h.States[j]); s != "" {
			rt.Fatalf("before the crash step %d: %s\nhistory:\n%s", j, s, h.trace(j))
		}
		ctl.mu.Lock()
		ctl.armed = true
		ctl.mu.Unlock()
		var s string
		eng, s = verifC09RunStep(eng, path, h, j)
		if s != "" {
			rt.Fatalf("%s\nhistory:\n%s", s, h.trace(j+1))
		}
		ctl.mu.Lock()
		ctl.armed = false
		images, calls := ctl.images, ctl.calls
		ctl.mu.Unlock()
		// last image: power lost right after the step was acknowledged, nothing
		// unsynced survives — the acknowledged step must be in it
		ackClone := mem.CrashClone(vfs.CrashCloneCfg{})
		post, err := verifC09DumpAll(eng, h)
		if err != nil {
			rt.Fatalf("dump: %v", err)
		}
		if s := verifC09CheckModelAll(eng, h.States[j+1]); s != "" {
			rt.Fatalf("after step %d (%s): %s\nhistory:\n%s", j, h.Steps[j].String(), s, h.trace(j+1))
		}
		_ = eng.Close()
		eng = nil

		reopenOn := func(img *vfs.MemFS, where string) []string {
			fs = img
			var err error
			eng, err = verifC09OpenEngine(path, nil)
			if err != nil {
				eng = nil
				rt.Fatalf("%s: store does not open: %v\nhistory:\n%s", where, err, h.trace(j+1))
			}
			rec, err := verifC09DumpAll(eng, h)
			if err != nil {
				rt.Fatalf("%s: dump of the recovered store: %v", where, err)
			}
			return rec
		}
		closeEng := func() {
			if eng != nil {
				_ = eng.Close()
				eng = nil
			}
		}

		where := fmt.Sprintf("power loss right after step %d (%s) was acknowledged (no unsynced data kept)", j, h.Steps[j].String())
		ackRec := reopenOn(ackClone, where)
		if _, s := verifC09Judge(h, j+1, post, nil, ackRec); s != "" {
			rt.Fatalf("%s: %s\nhistory:\n%s", where, s, h.trace(j+1))
		}
		if len(images) == 0 {
			// the step made no durability FS call: continue from the acknowledged image
			if eng, s = verifC09AfterRecovery(eng, path, h, j+1); s != "" {
				rt.Fatalf("%s: %s\nhistory:\n%s", where, s, h.trace(len(h.Steps)))
			}
		}
		closeEng()

		strict, survived, lost, mixed, partialDiscard := 0, 0, 0, 0, 0
		for ii, img := range images {
			where := fmt.Sprintf("power loss at step %d (%s) before durability FS call #%d of %d, %d%% unsynced kept", j, h.Steps[j].String(), img.Call, calls, img.Pct)
			rec := reopenOn(img.FS, where)
			p, s := verifC09Judge(h, j, pre, post, rec)
			if s != "" {
				rt.Fatalf("%s: %s\nhistory:\n%s", where, s, h.trace(j+1))
			}
			if isMutation && img.Call >= 1 {
				strict++
			}
			switch p {
			case j + 1:
				survived++
			case j:
				lost++
			case -1:
				mixed++
			case -2:
				partialDiscard++
				// interrupted paged cleanup: the documented recovery is to run it again
				if s := verifC09Exec(eng, h.Chans, &h.Steps[j]); s != "" {
					rt.Fatalf("%s: retry of the interrupted discard: %s", where, s)
				}
				again, err := verifC09DumpAll(eng, h)
				if err != nil {
					rt.Fatalf("dump: %v", err)
				}
				for ci := range again {
					if again[ci] != post[ci] {
						rt.Fatalf("%s: retried discard does not converge on channel %s: %s\nhistory:\n%s", where, h.Chans[ci].Key, verifC09DiffLine(again[ci], post[ci]), h.trace(j+1))
					}
				}
				p = j + 1
			}
			if p >= 0 && ii == contImage%len(images) {
				if eng, s = verifC09AfterRecovery(eng, path, h, p); s != "" {
					rt.Fatalf("%s: %s\nhistory:\n%s", where, s, h.trace(len(h.Steps)))
				}
			}
			closeEng()
		}
		col.AddExtra("powerloss_crash_images", int64(len(images)+1))
		col.AddExtra("powerloss_images_strictly_inside_mutation", int64(strict))

		kind := h.Steps[j].Kind
		k.Key("powerloss", j, ctl.first, ctl.stride, fmt.Sprint(ctl.pcts), h.trace(len(h.Steps)))
		k.SetNonTrivial(strict > 0)
		k.LabelIf(strict > 0, "powerloss: crash images strictly inside a mutation (after its first FS write, before the ack)")
		k.LabelIf(strict > 0, "powerloss: inside "+kind)
		k.LabelIf(strict > 2, "powerloss: step with more than 3 durability FS calls")
		k.LabelIf(len(images) == 0, "powerloss: step without durability FS call")
		k.LabelIf(!isMutation, "powerloss: crash inside close+reopen")
		k.LabelIf(survived > 0 && isMutation, "powerloss: in-flight mutation survived")
		k.LabelIf(lost > 0 && isMutation, "powerloss: in-flight mutation lost")
		if kind == "truncate" || kind == "replace" {
			pc, qc := h.States[j][h.Steps[j].Ch], h.States[j+1][h.Steps[j].Ch]
			k.LabelIf(qc.LEO < pc.LEO, "powerloss: inside a truncation/replacement that removes rows")
			k.LabelIf(qc.LEO < pc.LEO && pc.Adopted > 0, "powerloss: inside a truncation/replacement below a retained log end")
			k.LabelIf(len(qc.Points) < len(pc.Points), "powerloss: inside a truncation/replacement that removes epoch history")
		}
		k.LabelIf(mixed > 0, "powerloss: concurrent calls recovered independently")
		k.LabelIf(partialDiscard > 0, "powerloss: paged discard interrupted between batches, retried")
		k.LabelIf(strict > 0 && len(h.Steps[j].channels()) > 1 && kind != "par", "powerloss: inside a multi-channel single commit")
		k.LabelIf(h.kindBefore(j, "trim") && h.kindBefore(j, "truncate"), "powerloss: retention trim and truncation before the crash")
		k.Sample(func() any {
			return fmt.Sprintf("crash step %d/%d (%s): %d durability FS calls, images before calls %v, survived %d lost %d", j, len(h.Steps), h.Steps[j].String(), calls, func() []int {
				var c []int
				for _, im := range images {
					c = append(c, im.Call)
				}
				return c
			}(), survived, lost)
		})
	})
}

// ----------------------------------------------------- (b) process kill ----

type verifC09ChildInput struct {
	Path  string
	Chans []*verifC09Chan
	Steps []verifC09Step
}

// TestVerifC09Child is the re-executed child; it does nothing in a normal run.
func TestVerifC09Child(t *testing.T) {
	in := os.Getenv("VERIF_C09_CHILD")
	if in == "" {
		return
	}
	say := func(s string) { _, _ = os.Stdout.WriteString(s) }
	raw, err := os.ReadFile(in)
	if err != nil {
		say(fmt.Sprintf("childerror %v\n", err))
		os.Exit(3)
	}
	var ci verifC09ChildInput
	if err := gob.NewDecoder(bytes.NewReader(raw)).Decode(&ci); err != nil {
		say(fmt.Sprintf("childerror %v\n", err))
		os.Exit(3)
	}
	engine.VerifPebbleOptions = func(o *pebble.Options) { o.Logger = verifC09QuietLogger{} }
	eng, err := verifC09OpenEngine(ci.Path, nil)
	if err != nil {
		say(fmt.Sprintf("childerror open %v\n", err))
		os.Exit(3)
	}
	h := &verifC09History{Chans: ci.Chans, Steps: ci.Steps}
	for i := range ci.Steps {
		say(fmt.Sprintf("issued %d\n", i))
		var s string
		eng, s = verifC09RunStep(eng, ci.Path, h, i)
		if s != "" {
			say("childviolation " + strings.ReplaceAll(s, "\n", " ") + "\n")
			os.Exit(4)
		}
		say(fmt.Sprintf("durable %d\n", i))
	}
	say("done\n")
	os.Exit(0) // no Close: the parent reopens whatever is on disk
}

const verifC09KillSyscalls = "write,pwrite64,fsync,fdatasync,rename,renameat,renameat2,unlink,unlinkat,mkdir,mkdirat,openat"

func verifC09ChildCmd(ctx context.Context, bin, strace, inject, dir, inFile, traceFile string) *exec.Cmd {
	args := []string{bin, "-test.run", "^TestVerifC09Child$", "-test.count=1"}
	if strace != "" {
		pre := []string{strace, "-f", "-qq", "-o", traceFile, "-e", "trace=" + verifC09KillSyscalls}
		if inject != "" {
			pre = append(pre, "-e", inject)
		}
		args = append(append(pre, "--"), args...)
	}
	cmd := exec.CommandContext(ctx, args[0], args[1:]...)
	cmd.Env = append(os.Environ(), "VERIF_C09_CHILD="+inFile, "GOMAXPROCS=2", "VERIF_STATS_DIR=")
	cmd.Dir = dir
	return cmd
}

// verifC09Calibrate measures, per traced thread, how many injectable syscalls
// a child issues before its first step and per step (strace injection counters
// are per thread).
func verifC09Calibrate(t *testing.T, bin, strace string) (base, perStep int) {
	dir, clean := kit.TempDir()
	defer clean()
	h := rapid.Custom(func(rt *rapid.T) *verifC09History { return verifC09GenHistory(rt, 10, 10, 3) }).Example(9)
	var buf bytes.Buffer
	if err := gob.NewEncoder(&buf).Encode(verifC09ChildInput{Path: filepath.Join(dir, "msg"), Chans: h.Chans, Steps: h.Steps}); err != nil {
		return 0, 0
	}
	inFile, traceFile := filepath.Join(dir, "history.gob"), filepath.Join(dir, "trace.txt")
	if os.WriteFile(inFile, buf.Bytes(), 0o644) != nil {
		return 0, 0
	}
	ctx, cancel := context.WithTimeout(context.Background(), 180*time.Second)
	defer cancel()
	if err := verifC09ChildCmd(ctx, bin, strace, "", dir, inFile, traceFile).Run(); err != nil {
		t.Logf("strace calibration failed (%v): kill points use progress lines only", err)
		return 0, 0
	}
	raw, err := os.ReadFile(traceFile)
	if err != nil {
		return 0, 0
	}
	per := map[string]int{}
	maxOf := func() int {
		m := 0
		for _, v := range per {
			if v > m {
				m = v
			}
		}
		return m
	}
	for _, line := range strings.Split(string(raw), "\n") {
		f := strings.Fields(line)
		if len(f) < 2 || strings.HasPrefix(f[1], "<...") || strings.HasPrefix(f[1], "+++") || strings.HasPrefix(f[1], "---") {
			continue
		}
		if base == 0 && strings.Contains(line, `"issued 0\n"`) {
			base = maxOf()
		}
		per[f[0]]++
	}
	if base == 0 {
		return 0, 0
	}
	perStep = (maxOf() - base) / len(h.Steps)
	if perStep < 1 {
		perStep = 1
	}
	t.Logf("strace calibration: %d injectable syscalls on the busiest thread before the first step, about %d per step", base, perStep)
	return base, perStep
}

// TestVerifC09Kill: the history runs in a child process on a real directory
// and the child is killed (strace syscall-indexed SIGKILL, or SIGKILL after a
// generated progress line); the parent reopens the directory. The reference
// dumps come from the same history run on an in-memory store in the parent.
func TestVerifC09Kill(t *testing.T) {
	bin := os.Getenv("VERIF_TEST_BIN")
	if bin == "" {
		bin = os.Args[0]
	}
	strace, _ := exec.LookPath("strace")
	col := kit.For(t, "C09")
	maxSteps := kit.Scale("C09_KILL_STEPS", 12, 24)
	base, perStep := 0, 0
	if strace != "" {
		if base, perStep = verifC09Calibrate(t, bin, strace); perStep == 0 {
			strace = ""
		}
	}
	// the per-thread syscall window is re-centred from what the kills hit
	offset, span := base, perStep*15/10+1
	kit.Check(t, "C09", func(rt *rapid.T, k *kit.Case) {
		dir, clean := kit.TempDir()
		defer clean()
		h := verifC09GenHistory(rt, 3, maxSteps, 3)
		path := filepath.Join(dir, "msg")
		useStrace := strace != "" && rapid.IntRange(0, 4).Draw(rt, "killByStrace") < 2
		frac := rapid.IntRange(0, 1000).Draw(rt, "killSyscallFrac")
		when := offset + frac*span*len(h.Steps)/1000
		if when < 1 {
			when = 1
		}
		afterLines := rapid.IntRange(1, 2*len(h.Steps)).Draw(rt, "killAfterLines")
		if afterLines%2 == 0 && rapid.IntRange(0, 3).Draw(rt, "killAfterIssued") > 0 {
			afterLines-- // right after an "issued i" line: the kill lands inside step i
		}
		delayUS := rapid.IntRange(0, 1500).Draw(rt, "killDelayUS")

		var buf bytes.Buffer
		if err := gob.NewEncoder(&buf).Encode(verifC09ChildInput{Path: path, Chans: h.Chans, Steps: h.Steps}); err != nil {
			rt.Fatalf("VERIF-MACHINERY encode: %v", err)
		}
		inFile := filepath.Join(dir, "history.gob")
		if err := os.WriteFile(inFile, buf.Bytes(), 0o644); err != nil {
			rt.Fatalf("VERIF-MACHINERY write: %v", err)
		}
		ctx, cancel := context.WithTimeout(context.Background(), 180*time.Second)
		defer cancel()
		st, inject := "", ""
		if useStrace {
			st, inject = strace, fmt.Sprintf("inject=%s:signal=SIGKILL:when=%d", verifC09KillSyscalls, when)
		}
		cmd := verifC09ChildCmd(ctx, bin, st, inject, dir, inFile, "/dev/null")
		out, err := cmd.StdoutPipe()
		if err != nil {
			rt.Fatalf("VERIF-MACHINERY pipe: %v", err)
		}
		if err := cmd.Start(); err != nil {
			rt.Fatalf("VERIF-MACHINERY start child: %v", err)
		}
		issued, acked, lines := 0, 0, 0
		done, killedByUs := false, false
		var childMsg string
		rd := bufio.NewReader(out)
		for {
			line, err := rd.ReadString('\n')
			if err != nil {
				break // EOF; an unterminated last line is ignored
			}
			line = strings.TrimSpace(line)
			var n int
			switch {
			case strings.HasPrefix(line, "issued "):
				fmt.Sscanf(line, "issued %d", &n)
				issued = n + 1
				lines++
			case strings.HasPrefix(line, "durable "):
				fmt.Sscanf(line, "durable %d", &n)
				acked = n + 1
				lines++
			case line == "done":
				done = true
			case strings.HasPrefix(line, "childerror"), strings.HasPrefix(line, "childviolation"):
				childMsg = line
			}
			if !useStrace && !killedByUs && lines >= afterLines {
				for t0 := time.Now(); time.Since(t0) < time.Duration(delayUS)*time.Microsecond; {
				}
				_ = cmd.Process.Kill()
				killedByUs = true
			}
		}
		_ = cmd.Wait()
		if ctx.Err() != nil {
			col.Inconclusive("child timed out")
			rt.Skip("child timed out")
		}
		if strings.HasPrefix(childMsg, "childviolation") {
			rt.Fatalf("child: %s\nhistory:\n%s", childMsg, h.trace(len(h.Steps)))
		}
		if childMsg != "" {
			rt.Fatalf("VERIF-MACHINERY child failed: %s", childMsg)
		}
		if done {
			issued, acked = len(h.Steps), len(h.Steps)
		}
		if issued < acked || issued > acked+1 {
			rt.Fatalf("VERIF-MACHINERY inconsistent child progress issued=%d acked=%d", issued, acked)
		}

		// reference: the same history on an in-memory store, dumped at the two
		// candidate prefixes
		mem := vfs.NewMem()
		engine.VerifPebbleOptions = func(o *pebble.Options) {
			o.Logger = verifC09QuietLogger{}
			o.FS = mem
		}
		defer func() { engine.VerifPebbleOptions = nil }()
		refPath := filepath.Join(dir, "ref")
		ref, err := verifC09OpenEngine(refPath, nil)
		if err != nil {
			rt.Fatalf("VERIF-MACHINERY reference open: %v", err)
		}
		defer func() {
			if ref != nil {
				_ = ref.Close()
			}
		}()
		for i := 0; i < acked; i++ {
			var s string
			ref, s = verifC09RunStep(ref, refPath, h, i)
			if s != "" {
				rt.Fatalf("reference run: %s\nhistory:\n%s", s, h.trace(i+1))
			}
		}
		pre, err := verifC09DumpAll(ref, h)
		if err != nil {
			rt.Fatalf("dump: %v", err)
		}
		var post []string
		if issued > acked {
			var s string
			ref, s = verifC09RunStep(ref, refPath, h, acked)
			if s != "" {
				rt.Fatalf("reference run: %s\nhistory:\n%s", s, h.trace(acked+1))
			}
			if post, err = verifC09DumpAll(ref, h); err != nil {
				rt.Fatalf("dump: %v", err)
			}
		}
		_ = ref.Close()
		ref = nil

		engine.VerifPebbleOptions = func(o *pebble.Options) { o.Logger = verifC09QuietLogger{} }
		where := fmt.Sprintf("process killed with %d steps issued, %d acknowledged", issued, acked)
		eng, err := verifC09OpenEngine(path, nil)
		if err != nil {
			rt.Fatalf("%s: store does not open: %v\nhistory:\n%s", where, err, h.trace(issued))
		}
		defer func() {
			if eng != nil {
				_ = eng.Close()
			}
		}()
		rec, err := verifC09DumpAll(eng, h)
		if err != nil {
			rt.Fatalf("%s: dump of the recovered store: %v", where, err)
		}
		p, s := verifC09Judge(h, acked, pre, post, rec)
		if s != "" {
			rt.Fatalf("%s: %s\nhistory:\n%s", where, s, h.trace(issued))
		}
		if p == -2 {
			if s := verifC09Exec(eng, h.Chans, &h.Steps[acked]); s != "" {
				rt.Fatalf("%s: retry of the interrupted discard: %s", where, s)
			}
			again, err := verifC09DumpAll(eng, h)
			if err != nil {
				rt.Fatalf("dump: %v", err)
			}
			for ci := range again {
				if again[ci] != post[ci] {
					rt.Fatalf("%s: retried discard does not converge on channel %s: %s\nhistory:\n%s", where, h.Chans[ci].Key, verifC09DiffLine(again[ci], post[ci]), h.trace(issued))
				}
			}
			p = acked + 1
		}
		if p >= 0 {
			eng, s = verifC09AfterRecovery(eng, path, h, p)
			if s != "" {
				rt.Fatalf("%s: %s\nhistory:\n%s", where, s, h.trace(len(h.Steps)))
			}
		}
		inside := issued == acked+1
		isMutation := inside && h.Steps[acked].Kind != "reopen"
		if useStrace {
			switch {
			case !done && issued == 0:
				offset += offset/8 + 2
			case done && span > 2:
				span -= span/6 + 1
			}
		}
		k.Key("kill", useStrace, when, afterLines, h.trace(len(h.Steps)))
		k.SetNonTrivial(isMutation)
		k.LabelIf(isMutation, "kill: process died inside a mutation (issued, not acknowledged)")
		k.LabelIf(inside && !isMutation, "kill: process died inside close+reopen")
		k.LabelIf(!inside && !done && issued > 0, "kill: process died between steps")
		k.LabelIf(!done && issued == 0, "kill: process died before the first step")
		k.LabelIf(done, "kill: child finished before the kill point")
		k.LabelIf(isMutation && p == issued, "kill: in-flight mutation survived")
		k.LabelIf(isMutation && p == acked, "kill: in-flight mutation lost")
		k.LabelIf(useStrace, "kill: strace syscall-indexed SIGKILL")
		k.LabelIf(!useStrace, "kill: SIGKILL after progress lines")
		k.Sample(func() any {
			return fmt.Sprintf("kill strace=%v when=%d lines=%d: issued %d acked %d of %d, recovered prefix %d", useStrace, when, afterLines, issued, acked, len(h.Steps), p)
		})
	})
}
