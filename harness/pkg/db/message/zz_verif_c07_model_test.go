package message

// Reference model and driver for the Pebble-backed channel message store
// (typed ChannelLog API). Used by the C07 check (faithful sequential log) and
// reused by C08 (uniqueness of idempotency keys / message ids) through the
// spec's file_tags. Everything here is prefixed verifC07.
//
// The model is an independent "simple sequential log with retention": per
// channel a sorted slice of rows, a log end, the retention and checkpoint
// records, plus node-wide id -> (channel, seq) and per-channel
// (sender, clientNo) -> seq maps. It never looks at Pebble keys.

import (
	"bytes"
	"context"
	"errors"
	"fmt"
	"hash/fnv"
	"sort"
	"strings"

	"github.com/WuKongIM/WuKongIM/pkg/db/internal/dberrors"
	"github.com/WuKongIM/WuKongIM/pkg/db/internal/engine"
	"github.com/cockroachdb/pebble/v2"
	"github.com/cockroachdb/pebble/v2/vfs"
	"verif.local/kit"
)

// Signatures of the recorded findings (see /verif/known_findings.json).
const (
	verifC07SigEmptyPayload = "empty-payload-row-unreadable"
	verifC07SigTruncRetain  = "truncate-keeps-retained-max-seq"
)

type verifC07QuietLogger struct{}

func (verifC07QuietLogger) Infof(string, ...interface{})  {}
func (verifC07QuietLogger) Errorf(string, ...interface{}) {}
func (verifC07QuietLogger) Fatalf(f string, a ...interface{}) {
	panic("pebble fatal: " + fmt.Sprintf(f, a...))
}

// ---------------------------------------------------------------- model

type verifC07Row struct {
	Seq         uint64
	ID          uint64
	ClientMsgNo string
	FromUID     string
	Payload     []byte
	TS          int64 // 0 = assigned by the store; learned at first observation
}

type verifC07Loc struct {
	ch  int
	seq uint64
}

type verifC07Chan struct {
	idx   int
	key   ChannelKey
	id    ChannelID
	rows  []verifC07Row // ascending Seq
	leo   uint64
	ret   RetentionState
	retOK bool
	cp    Checkpoint
	cpOK  bool
	hist  []EpochPoint
	keys  map[IdempotencyKey]uint64
}

type verifC07Model struct {
	chans []*verifC07Chan
	ids   map[uint64]verifC07Loc
	// everything that was ever used, for the final scan
	everIDs     map[uint64]struct{}
	everKeys    map[IdempotencyKey]struct{}
	everSenders map[string]struct{}
	everNos     map[string]struct{}
}

func verifC07NewModel(keys []ChannelKey, ids []ChannelID) *verifC07Model {
	m := &verifC07Model{
		ids:         map[uint64]verifC07Loc{},
		everIDs:     map[uint64]struct{}{},
		everKeys:    map[IdempotencyKey]struct{}{},
		everSenders: map[string]struct{}{},
		everNos:     map[string]struct{}{},
	}
	for i := range keys {
		m.chans = append(m.chans, &verifC07Chan{idx: i, key: keys[i], id: ids[i], keys: map[IdempotencyKey]uint64{}})
	}
	return m
}

func (c *verifC07Chan) find(seq uint64) (int, bool) {
	i := sort.Search(len(c.rows), func(i int) bool { return c.rows[i].Seq >= seq })
	return i, i < len(c.rows) && c.rows[i].Seq == seq
}

type verifC07Verdict int

const (
	verifC07Accept verifC07Verdict = iota
	verifC07Conflict
	verifC07Invalid
)

func (v verifC07Verdict) String() string {
	return [...]string{"accept", "conflict", "invalid-argument"}[v]
}

// appendVerdict decides what a sequential log with unique ids / idempotency
// keys does with this batch. why names the first offending record.
func (m *verifC07Model) appendVerdict(c *verifC07Chan, recs []Record, mode AppendMode, base uint64) (verifC07Verdict, string) {
	if base != 0 && base != c.leo+1 {
		return verifC07Conflict, "base-seq"
	}
	seenID := map[uint64]struct{}{}
	seenKey := map[IdempotencyKey]struct{}{}
	for i, r := range recs {
		if r.ID == 0 {
			return verifC07Invalid, fmt.Sprintf("rec %d id 0", i)
		}
		if _, dup := seenID[r.ID]; dup {
			return verifC07Conflict, fmt.Sprintf("rec %d id dup in batch", i)
		}
		seenID[r.ID] = struct{}{}
		if mode == AppendStrict {
			if _, live := m.ids[r.ID]; live {
				return verifC07Conflict, fmt.Sprintf("rec %d id stored", i)
			}
		}
		if r.FromUID == "" || r.ClientMsgNo == "" {
			continue
		}
		k := IdempotencyKey{FromUID: r.FromUID, ClientMsgNo: r.ClientMsgNo}
		if _, dup := seenKey[k]; dup {
			return verifC07Conflict, fmt.Sprintf("rec %d key dup in batch", i)
		}
		seenKey[k] = struct{}{}
		if mode != AppendTrustedContiguous {
			if _, live := c.keys[k]; live {
				return verifC07Conflict, fmt.Sprintf("rec %d key stored", i)
			}
		}
	}
	return verifC07Accept, ""
}

// strictValid reports whether the batch would be accepted by a validating
// leader (the precondition of trusted-contiguous appends / follower applies,
// and of allocator-issued ids).
func (m *verifC07Model) strictValid(c *verifC07Chan, recs []Record) bool {
	v, _ := m.appendVerdict(c, recs, AppendStrict, 0)
	return v == verifC07Accept
}

func (m *verifC07Model) applyAppend(c *verifC07Chan, recs []Record) {
	for _, r := range recs {
		c.leo++
		row := verifC07Row{Seq: c.leo, ID: r.ID, ClientMsgNo: r.ClientMsgNo, FromUID: r.FromUID,
			Payload: append([]byte(nil), r.Payload...), TS: r.ServerTimestampMS}
		c.rows = append(c.rows, row)
		m.ids[r.ID] = verifC07Loc{ch: c.idx, seq: row.Seq}
		m.everIDs[r.ID] = struct{}{}
		if r.FromUID != "" {
			m.everSenders[r.FromUID] = struct{}{}
		}
		if r.ClientMsgNo != "" {
			m.everNos[r.ClientMsgNo] = struct{}{}
		}
		if r.FromUID != "" && r.ClientMsgNo != "" {
			k := IdempotencyKey{FromUID: r.FromUID, ClientMsgNo: r.ClientMsgNo}
			c.keys[k] = row.Seq
			m.everKeys[k] = struct{}{}
		}
	}
}

func (m *verifC07Model) dropRow(c *verifC07Chan, r verifC07Row) {
	if loc, ok := m.ids[r.ID]; ok && loc.ch == c.idx && loc.seq == r.Seq {
		delete(m.ids, r.ID)
	}
	if r.FromUID != "" && r.ClientMsgNo != "" {
		k := IdempotencyKey{FromUID: r.FromUID, ClientMsgNo: r.ClientMsgNo}
		if c.keys[k] == r.Seq {
			delete(c.keys, k)
		}
	}
}

// truncateFrom removes every row at or after from; returns the number removed.
func (m *verifC07Model) truncateFrom(c *verifC07Chan, from uint64) int {
	if from == 0 {
		from = 1
	}
	if from > c.leo {
		return 0
	}
	i, _ := c.find(from)
	n := len(c.rows) - i
	for _, r := range c.rows[i:] {
		m.dropRow(c, r)
	}
	c.rows = c.rows[:i]
	c.leo = from - 1
	if c.retOK && c.ret.RetainedMaxSeq > c.leo {
		c.ret.RetainedMaxSeq = c.leo
	}
	return n
}

// trimCandidates: the prefix a bounded physical trim is allowed to delete.
func (c *verifC07Chan) trimCandidates(through uint64, opts RetentionTrimOptions) (del []verifC07Row, allBelow int) {
	start := uint64(1)
	if c.retOK {
		start = c.ret.PhysicalRetentionThroughSeq + 1
	}
	var bytesTotal int
	stopped := false
	for _, r := range c.rows {
		if r.Seq < start || r.Seq > through {
			continue
		}
		allBelow++
		if stopped {
			continue
		}
		if opts.MaxMessages > 0 && len(del) >= opts.MaxMessages {
			stopped = true
			continue
		}
		if opts.MaxBytes > 0 && len(del) > 0 && bytesTotal+len(r.Payload) > opts.MaxBytes {
			stopped = true
			continue
		}
		del = append(del, r)
		bytesTotal += len(r.Payload)
	}
	return del, allBelow
}

// applyTrim removes the rows and advances the retention record. more is the
// store's own "another trim may find rows" answer (it decides whether the
// physical boundary may jump to through).
func (m *verifC07Model) applyTrim(c *verifC07Chan, through uint64, del []verifC07Row, more bool) {
	for _, r := range del {
		m.dropRow(c, r)
		if i, ok := c.find(r.Seq); ok {
			c.rows = append(c.rows[:i], c.rows[i+1:]...)
		}
	}
	st := c.ret
	if through > st.LocalRetentionThroughSeq {
		st.LocalRetentionThroughSeq = through
	}
	if through > st.RetainedMaxSeq {
		st.RetainedMaxSeq = through
	}
	if c.leo > st.RetainedMaxSeq {
		st.RetainedMaxSeq = c.leo
	}
	var deletedThrough uint64
	if len(del) > 0 {
		deletedThrough = del[len(del)-1].Seq
	}
	if !more && through > st.PhysicalRetentionThroughSeq {
		st.PhysicalRetentionThroughSeq = through
	} else if deletedThrough > st.PhysicalRetentionThroughSeq {
		st.PhysicalRetentionThroughSeq = deletedThrough
	}
	c.ret, c.retOK = st, true
	if st.RetainedMaxSeq > c.leo {
		c.leo = st.RetainedMaxSeq
	}
}

func verifC07CheckpointValid(cp Checkpoint) bool { return cp.LogStartOffset <= cp.HW }

func (c *verifC07Chan) checkpointMonotonicOK(cp Checkpoint, visibleHW, leo uint64) bool {
	if !verifC07CheckpointValid(cp) || cp.HW > visibleHW || cp.HW > leo {
		return false
	}
	if !c.cpOK {
		return true
	}
	return cp.HW >= c.cp.HW && cp.LogStartOffset >= c.cp.LogStartOffset && cp.Epoch >= c.cp.Epoch
}

// epochVerdict: (write, ok)
func (c *verifC07Chan) epochVerdict(p EpochPoint) (bool, bool) {
	if p.Epoch == 0 {
		return false, false
	}
	if len(c.hist) == 0 {
		return true, true
	}
	last := c.hist[len(c.hist)-1]
	switch {
	case p.Epoch > last.Epoch:
		return true, p.StartOffset >= last.StartOffset
	case p.Epoch == last.Epoch && p.StartOffset == last.StartOffset:
		return false, true
	}
	return false, false
}

func verifC07Hash(p []byte) uint64 {
	h := fnv.New64a()
	h.Write(p)
	return h.Sum64()
}

// ---------------------------------------------------------------- system

type verifC07Sys struct {
	memfs   vfs.FS
	dir     string
	cleanup func()
	opts    engine.Options
	warm    int // registry warm-cache bound; <0 = leave the default
	db      *MessageDB
	leases  [][]*ChannelLog
	opens   int
}

// verifC07Open starts a fresh store. onDisk=false runs Pebble on an in-memory
// file system through the verif options seam (same code above the VFS).
func verifC07Open(nch int, onDisk bool, warm int, small bool) (*verifC07Sys, error) {
	s := &verifC07Sys{warm: warm, leases: make([][]*ChannelLog, nch)}
	if small {
		// small memtable/cache: cheap to open, and long histories get flushed
		// to sstables so reads cross memtable and table files
		s.opts = engine.Options{MemTableSize: 128 << 10, CacheSize: 1 << 20}
	} else {
		s.opts = engine.Options{MemTableSize: 1 << 20, CacheSize: 2 << 20}
	}
	if onDisk {
		s.dir, s.cleanup = kit.TempDir()
	} else {
		s.memfs = vfs.NewMem()
		s.dir = "verifc07"
	}
	if err := s.open(); err != nil {
		s.destroy()
		return nil, err
	}
	return s, nil
}

func (s *verifC07Sys) open() error {
	fs := s.memfs
	engine.VerifPebbleOptions = func(o *pebble.Options) {
		if fs != nil {
			o.FS = fs
		}
		o.Logger = verifC07QuietLogger{}
	}
	defer func() { engine.VerifPebbleOptions = nil }()
	eng, err := engine.Open(s.dir, s.opts)
	if err != nil {
		return err
	}
	s.db = NewDB(eng)
	if s.warm >= 0 {
		s.db.registry.maxWarmEntries = s.warm
	}
	s.opens++
	return nil
}

func (s *verifC07Sys) destroy() {
	if s.db != nil {
		_ = s.db.Close()
		s.db = nil
	}
	if s.cleanup != nil {
		s.cleanup()
		s.cleanup = nil
	}
	engine.VerifPebbleOptions = nil
}

// ---------------------------------------------------------------- harness

// verifC07TB is satisfied by *rapid.T and *testing.T.
type verifC07TB interface {
	Fatalf(format string, args ...any)
}

type verifC07H struct {
	rt    verifC07TB
	m     *verifC07Model
	s     *verifC07Sys
	ctx   context.Context
	trace []string

	knownEmpty bool // finding listed: keep empty payloads out
	knownTrunc bool // finding listed: keep truncation below RetainedMaxSeq out
	excluded   int64

	// measured facts for labels / the non-trivial rule
	removedRows       bool // a truncate or trim removed >= 1 row
	reloadAfterRemove bool // ... then a DB reopen or a cold lease reload
	lookupAfterReload bool // ... then an index lookup
	nReopen, nReclaim, nColdReclaim           int
	nAppendOK, nAppendRej, nTrunc, nTrim      int
	nTrimMulti, nCheckpoint, nFetch, nLookups int
	nTrimOver                                 int
	maxRows                                   int
}

func verifC07NewH(rt verifC07TB, keys []ChannelKey, ids []ChannelID, onDisk bool, warm int, small bool) *verifC07H {
	s, err := verifC07Open(len(keys), onDisk, warm, small)
	if err != nil {
		rt.Fatalf("VERIF-MACHINERY open store: %v", err)
	}
	return &verifC07H{rt: rt, m: verifC07NewModel(keys, ids), s: s, ctx: context.Background(),
		knownEmpty: kit.HasKnownFinding("C07", verifC07SigEmptyPayload),
		knownTrunc: kit.HasKnownFinding("C07", verifC07SigTruncRetain)}
}

func (h *verifC07H) note(format string, a ...any) {
	h.trace = append(h.trace, fmt.Sprintf(format, a...))
}

func (h *verifC07H) traceString() string {
	t := h.trace
	if len(t) > 60 {
		t = append(append([]string{}, t[:40]...), fmt.Sprintf("…(%d more)", len(t)-40))
	}
	return strings.Join(t, " ; ")
}

func (h *verifC07H) fail(format string, a ...any) {
	h.rt.Fatalf("%s\n  history: %s", fmt.Sprintf(format, a...), strings.Join(h.trace, " ; "))
}

// log returns an open lease of channel ci (acquiring one if needed).
func (h *verifC07H) log(ci int) *ChannelLog {
	ls := h.s.leases[ci]
	if len(ls) > 0 {
		return ls[len(ls)-1]
	}
	return h.acquire(ci)
}

func (h *verifC07H) acquire(ci int) *ChannelLog {
	c := h.m.chans[ci]
	l, err := h.s.db.Channel(c.key, c.id)
	if err != nil {
		h.fail("Channel(%q) failed: %v", c.key, err)
	}
	h.s.leases[ci] = append(h.s.leases[ci], l)
	return l
}

func (h *verifC07H) anyRemovedThen(reload bool) {
	if reload && h.removedRows {
		h.reloadAfterRemove = true
	}
}

// closeLeases releases every lease of ci; the canonical entry is reclaimed
// (its warm state is kept or evicted depending on the warm-cache bound).
func (h *verifC07H) closeLeases(ci int) {
	ls := h.s.leases[ci]
	if len(ls) == 0 {
		return
	}
	for _, l := range ls {
		if err := l.Close(); err != nil {
			h.fail("lease Close: %v", err)
		}
	}
	// a closed lease must refuse work
	if _, err := ls[0].LEO(h.ctx); !errors.Is(err, dberrors.ErrClosed) {
		h.fail("closed lease answered LEO with err=%v, want closed", err)
	}
	h.s.leases[ci] = nil
	h.nReclaim++
	if h.s.db.registry.activeEntry(h.m.chans[ci].key) != nil {
		h.fail("entry of %q still canonical after its last lease closed", h.m.chans[ci].key)
	}
	h.s.db.registry.mu.Lock()
	_, warm := h.s.db.registry.warmEntries[h.m.chans[ci].key]
	h.s.db.registry.mu.Unlock()
	if !warm {
		h.nColdReclaim++
		h.anyRemovedThen(true)
	}
	h.note("close(%d,warm=%v)", ci, warm)
}

func (h *verifC07H) reopen(closeLeasesFirst bool) {
	var stale *ChannelLog
	for ci := range h.s.leases {
		if closeLeasesFirst {
			for _, l := range h.s.leases[ci] {
				_ = l.Close()
			}
		} else if len(h.s.leases[ci]) > 0 {
			stale = h.s.leases[ci][0]
		}
		h.s.leases[ci] = nil
	}
	if err := h.s.db.Close(); err != nil {
		h.fail("MessageDB.Close: %v", err)
	}
	if stale != nil {
		if _, err := stale.LEO(h.ctx); !errors.Is(err, dberrors.ErrClosed) {
			h.fail("lease of a closed database answered LEO with err=%v, want closed", err)
		}
	}
	h.s.db = nil
	if err := h.s.open(); err != nil {
		h.rt.Fatalf("VERIF-MACHINERY reopen store: %v", err)
	}
	h.nReopen++
	h.anyRemovedThen(true)
	h.note("reopen")
}

func verifC07ErrClass(err error) string {
	switch {
	case err == nil:
		return "ok"
	case errors.Is(err, dberrors.ErrConflict):
		return "conflict"
	case errors.Is(err, dberrors.ErrInvalidArgument):
		return "invalid-argument"
	case errors.Is(err, dberrors.ErrCorruptState):
		return "corrupt-state"
	case errors.Is(err, dberrors.ErrClosed):
		return "closed"
	}
	return "other:" + err.Error()
}

func verifC07RecsString(recs []Record) string {
	var b strings.Builder
	for i, r := range recs {
		if i > 0 {
			b.WriteByte(',')
		}
		fmt.Fprintf(&b, "{id=%d from=%q no=%q len=%d}", r.ID, verifC07Trunc(r.FromUID), verifC07Trunc(r.ClientMsgNo), len(r.Payload))
	}
	return b.String()
}

func verifC07Trunc(s string) string {
	if len(s) > 16 {
		return s[:16] + "…"
	}
	return s
}

// doAppend issues one Append and compares accept/reject, the assigned range
// and (through later observations) the stored rows with the model.
func (h *verifC07H) doAppend(ci int, recs []Record, mode AppendMode, base uint64) bool {
	c := h.m.chans[ci]
	want, why := h.m.appendVerdict(c, recs, mode, base)
	leoBefore := c.leo
	h.note("append(%d,mode=%d,base=%d,[%s])→%s", ci, mode, base, verifC07RecsString(recs), want)
	res, err := h.log(ci).Append(h.ctx, recs, AppendOptions{Mode: mode, BaseSeq: base})
	got := verifC07ErrClass(err)
	switch want {
	case verifC07Accept:
		if err != nil {
			h.fail("append to %q rejected (%v) but a sequential log accepts it", c.key, err)
		}
		if len(recs) == 0 {
			if res != (AppendResult{}) {
				h.fail("empty append returned %+v", res)
			}
			return true
		}
		if res.BaseSeq != leoBefore+1 || res.LastSeq != leoBefore+uint64(len(recs)) || res.Count != len(recs) {
			h.fail("append to %q assigned %+v, want base=%d last=%d count=%d", c.key, res, leoBefore+1, leoBefore+uint64(len(recs)), len(recs))
		}
		h.m.applyAppend(c, recs)
		h.nAppendOK++
		if len(c.rows) > h.maxRows {
			h.maxRows = len(c.rows)
		}
		return true
	case verifC07Conflict:
		if got != "conflict" {
			h.fail("append to %q: want conflict (%s), got %s (%v) result=%+v", c.key, why, got, err, res)
		}
	case verifC07Invalid:
		if got != "invalid-argument" {
			h.fail("append to %q: want invalid argument (%s), got %s (%v)", c.key, why, got, err)
		}
	}
	if res != (AppendResult{}) {
		h.fail("rejected append returned a non-zero result %+v", res)
	}
	h.nAppendRej++
	return false
}

// doApplyFetch: follower apply of leader-validated rows with optional
// checkpoint / epoch point in the same batch.
func (h *verifC07H) doApplyFetch(ci int, req ApplyFetchRequest) bool {
	c := h.m.chans[ci]
	leoBefore := c.leo
	okBase := req.BaseSeq == 0 || req.BaseSeq == c.leo+1
	visible := c.leo + uint64(len(req.Records))
	okCP := req.Checkpoint == nil || c.checkpointMonotonicOK(*req.Checkpoint, visible, visible)
	writeEpoch, okEpoch := false, true
	if req.EpochPoint != nil {
		writeEpoch, okEpoch = c.epochVerdict(*req.EpochPoint)
	}
	h.note("fetch(%d,base=%d,[%s],cp=%v,ep=%v)→%v", ci, req.BaseSeq, verifC07RecsString(req.Records), req.Checkpoint, req.EpochPoint, okBase && okCP && okEpoch)
	res, err := h.log(ci).ApplyFetch(h.ctx, req)
	if !(okBase && okCP && okEpoch) {
		if err == nil {
			h.fail("ApplyFetch on %q accepted (base ok=%v checkpoint ok=%v epoch ok=%v), result %+v", c.key, okBase, okCP, okEpoch, res)
		}
		if !okBase && verifC07ErrClass(err) != "conflict" {
			h.fail("ApplyFetch with wrong base: want conflict, got %v", err)
		}
		return false
	}
	if err != nil {
		h.fail("ApplyFetch on %q rejected: %v", c.key, err)
	}
	if len(req.Records) > 0 {
		if res.BaseSeq != leoBefore+1 || res.LastSeq != visible || res.Count != len(req.Records) {
			h.fail("ApplyFetch assigned %+v, want base=%d last=%d", res, leoBefore+1, visible)
		}
		h.m.applyAppend(c, req.Records)
	} else if res != (AppendResult{}) {
		h.fail("record-less ApplyFetch returned %+v", res)
	}
	if req.Checkpoint != nil {
		c.cp, c.cpOK = *req.Checkpoint, true
	}
	if writeEpoch {
		c.hist = append(c.hist, *req.EpochPoint)
	}
	h.nFetch++
	if len(c.rows) > h.maxRows {
		h.maxRows = len(c.rows)
	}
	return true
}

func (h *verifC07H) doTruncate(ci int, from uint64) {
	c := h.m.chans[ci]
	h.note("truncate(%d,from=%d)", ci, from)
	if err := h.log(ci).TruncateFrom(h.ctx, from); err != nil {
		h.fail("TruncateFrom(%d) on %q: %v", from, c.key, err)
	}
	if n := h.m.truncateFrom(c, from); n > 0 {
		h.removedRows = true
		h.nTrunc++
	}
}

func (h *verifC07H) doTrim(ci int, through uint64, opts RetentionTrimOptions, limited bool) {
	c := h.m.chans[ci]
	del, below := c.trimCandidates(through, opts)
	h.note("trim(%d,through=%d,opts=%+v,limited=%v)", ci, through, opts, limited)
	var res RetentionTrimResult
	var err error
	if limited {
		res, err = h.log(ci).TrimPrefixThroughLimit(h.ctx, through, opts)
	} else {
		res, err = h.log(ci).TrimPrefixThrough(h.ctx, through)
	}
	if err != nil {
		h.fail("trim through %d on %q: %v", through, c.key, err)
	}
	if through == 0 {
		if res != (RetentionTrimResult{}) {
			h.fail("trim through 0 returned %+v", res)
		}
		return
	}
	var wantThrough uint64
	if len(del) > 0 {
		wantThrough = del[len(del)-1].Seq
	}
	if res.Deleted != len(del) || res.DeletedThroughSeq != wantThrough {
		h.fail("trim through %d %+v on %q deleted %d rows through %d, model deletes %d through %d", through, opts, c.key, res.Deleted, res.DeletedThroughSeq, len(del), wantThrough)
	}
	if !res.More && len(del) < below {
		h.fail("trim through %d on %q reported complete but %d of %d rows at or below the boundary remain", through, c.key, below-len(del), below)
	}
	if res.More && opts.MaxMessages <= 0 && opts.MaxBytes <= 0 {
		h.fail("unbounded trim through %d on %q reported More", through, c.key)
	}
	if through > c.leo {
		h.nTrimOver++
	}
	h.m.applyTrim(c, through, del, res.More)
	if len(del) > 0 {
		h.removedRows = true
		h.nTrim++
	}
	if res.More {
		h.nTrimMulti++
	}
}

func (h *verifC07H) doCheckpoint(ci int, cp Checkpoint, mono bool, visibleHW, leo uint64) {
	c := h.m.chans[ci]
	var err error
	want := verifC07CheckpointValid(cp)
	if mono {
		want = c.checkpointMonotonicOK(cp, visibleHW, leo)
		err = h.log(ci).StoreCheckpointMonotonic(h.ctx, cp, visibleHW, leo)
	} else {
		err = h.log(ci).StoreCheckpoint(h.ctx, cp)
	}
	h.note("checkpoint(%d,%+v,mono=%v,vis=%d,leo=%d)→%v", ci, cp, mono, visibleHW, leo, want)
	if want != (err == nil) {
		h.fail("checkpoint %+v (monotonic=%v visible=%d leo=%d, stored %+v/%v) on %q: err=%v, want accept=%v", cp, mono, visibleHW, leo, c.cp, c.cpOK, c.key, err, want)
	}
	if err != nil && verifC07ErrClass(err) != "corrupt-state" {
		h.fail("rejected checkpoint: unexpected error class %v", err)
	}
	if want {
		c.cp, c.cpOK = cp, true
		h.nCheckpoint++
	}
}

// ---------------------------------------------------------------- observations

func (h *verifC07H) sameMessage(c *verifC07Chan, what string, got Message, want *verifC07Row) {
	if got.MessageSeq != want.Seq || got.MessageID != want.ID || got.ChannelID != c.id.ID || got.ChannelType != c.id.Type ||
		got.ClientMsgNo != want.ClientMsgNo || got.FromUID != want.FromUID || !bytes.Equal(got.Payload, want.Payload) {
		h.fail("%s on %q returned seq=%d id=%d ch=%q/%d no=%q from=%q payload[%d], model row seq=%d id=%d no=%q from=%q payload[%d]",
			what, c.key, got.MessageSeq, got.MessageID, got.ChannelID, got.ChannelType, got.ClientMsgNo, got.FromUID, len(got.Payload),
			want.Seq, want.ID, want.ClientMsgNo, want.FromUID, len(want.Payload))
	}
	if got.PayloadHash != verifC07Hash(want.Payload) && !(len(want.Payload) == 0 && got.PayloadHash == 0) {
		h.fail("%s on %q seq %d: payload hash %d, want fnv64a %d", what, c.key, got.MessageSeq, got.PayloadHash, verifC07Hash(want.Payload))
	}
	if want.TS == 0 {
		if got.ServerTimestampMS <= 0 {
			h.fail("%s on %q seq %d: defaulted server timestamp %d", what, c.key, got.MessageSeq, got.ServerTimestampMS)
		}
		want.TS = got.ServerTimestampMS
	} else if got.ServerTimestampMS != want.TS {
		h.fail("%s on %q seq %d: server timestamp %d, want %d", what, c.key, got.MessageSeq, got.ServerTimestampMS, want.TS)
	}
}

// expectScan applies the documented Limit/MaxBytes caps (first row always
// returned) to rows visited in the given order.
func verifC07Cap(rows []*verifC07Row, opts ReadOptions) []*verifC07Row {
	var out []*verifC07Row
	total := 0
	for _, r := range rows {
		if opts.MaxBytes > 0 && len(out) > 0 && total+len(r.Payload) > opts.MaxBytes {
			break
		}
		out = append(out, r)
		total += len(r.Payload)
		if opts.Limit > 0 && len(out) >= opts.Limit {
			break
		}
	}
	return out
}

func (h *verifC07H) sameList(c *verifC07Chan, what string, got []Message, want []*verifC07Row) {
	if len(got) != len(want) {
		gs := make([]uint64, len(got))
		for i := range got {
			gs[i] = got[i].MessageSeq
		}
		ws := make([]uint64, len(want))
		for i := range want {
			ws[i] = want[i].Seq
		}
		h.fail("%s on %q returned seqs %v, model %v", what, c.key, gs, ws)
	}
	for i := range got {
		h.sameMessage(c, what, got[i], want[i])
	}
}

func (h *verifC07H) checkLEO(ci int) {
	c := h.m.chans[ci]
	leo, err := h.log(ci).LEO(h.ctx)
	if err != nil || leo != c.leo {
		h.fail("LEO(%q)=%d err=%v, model %d", c.key, leo, err, c.leo)
	}
}

func (h *verifC07H) checkRead(ci int, from uint64, opts ReadOptions) {
	c := h.m.chans[ci]
	lo := from
	if lo == 0 {
		lo = 1
	}
	var vis []*verifC07Row
	for i := range c.rows {
		if c.rows[i].Seq >= lo {
			vis = append(vis, &c.rows[i])
		}
	}
	got, err := h.log(ci).Read(h.ctx, from, opts)
	if err != nil {
		h.fail("Read(%q,from=%d,%+v): %v", c.key, from, opts, err)
	}
	h.sameList(c, fmt.Sprintf("Read(from=%d,%+v)", from, opts), got, verifC07Cap(vis, opts))
}

func (h *verifC07H) checkReadReverse(ci int, from uint64, opts ReadOptions) {
	c := h.m.chans[ci]
	hi := from
	if hi == 0 {
		hi = c.leo
	}
	var vis []*verifC07Row
	for i := len(c.rows) - 1; i >= 0; i-- {
		if hi == 0 || c.rows[i].Seq <= hi {
			vis = append(vis, &c.rows[i])
		}
	}
	got, err := h.log(ci).ReadReverse(h.ctx, from, opts)
	if err != nil {
		h.fail("ReadReverse(%q,from=%d,%+v): %v", c.key, from, opts, err)
	}
	h.sameList(c, fmt.Sprintf("ReadReverse(from=%d,%+v)", from, opts), got, verifC07Cap(vis, opts))
}

func (h *verifC07H) checkGetBySeq(ci int, seq uint64) {
	c := h.m.chans[ci]
	got, ok, err := h.log(ci).GetBySeq(h.ctx, seq)
	if seq == 0 {
		if verifC07ErrClass(err) != "invalid-argument" {
			h.fail("GetBySeq(0): err=%v, want invalid argument", err)
		}
		return
	}
	i, present := c.find(seq)
	if err != nil || ok != present {
		h.fail("GetBySeq(%q,%d) ok=%v err=%v, model present=%v (leo=%d)", c.key, seq, ok, err, present, c.leo)
	}
	if present {
		h.sameMessage(c, "GetBySeq", got, &c.rows[i])
	}
}

func (h *verifC07H) checkLastVisible(ci int, after uint64) {
	c := h.m.chans[ci]
	got, ok, err := h.log(ci).GetLastVisibleMessage(h.ctx, after)
	var want *verifC07Row
	if n := len(c.rows); n > 0 && c.rows[n-1].Seq > after {
		want = &c.rows[n-1]
	}
	if err != nil || ok != (want != nil) {
		h.fail("GetLastVisibleMessage(%q,after=%d) ok=%v err=%v, model present=%v", c.key, after, ok, err, want != nil)
	}
	if want != nil {
		h.sameMessage(c, "GetLastVisibleMessage", got, want)
	}
}

func (h *verifC07H) indexLookup() {
	h.nLookups++
	if h.reloadAfterRemove {
		h.lookupAfterReload = true
	}
}

func (h *verifC07H) checkByID(ci int, id uint64) {
	c := h.m.chans[ci]
	got, ok, err := h.log(ci).GetByMessageID(h.ctx, id)
	if id == 0 {
		if verifC07ErrClass(err) != "invalid-argument" {
			h.fail("GetByMessageID(0): err=%v, want invalid argument", err)
		}
		return
	}
	h.indexLookup()
	loc, live := h.m.ids[id]
	present := live && loc.ch == ci
	if err != nil || ok != present {
		h.fail("GetByMessageID(%q,%d) ok=%v err=%v, model: live=%v at channel %d seq %d", c.key, id, ok, err, live, loc.ch, loc.seq)
	}
	if present {
		i, found := c.find(loc.seq)
		if !found {
			h.fail("model inconsistency: id %d -> seq %d missing", id, loc.seq)
		}
		h.sameMessage(c, "GetByMessageID", got, &c.rows[i])
	}
}

func (h *verifC07H) checkIdempotency(ci int, k IdempotencyKey) {
	c := h.m.chans[ci]
	hit, ok, err := h.log(ci).LookupIdempotency(h.ctx, k)
	if k.FromUID == "" || k.ClientMsgNo == "" {
		if verifC07ErrClass(err) != "invalid-argument" {
			h.fail("LookupIdempotency(%+v): err=%v, want invalid argument", k, err)
		}
		return
	}
	h.indexLookup()
	seq, present := c.keys[k]
	if err != nil || ok != present {
		h.fail("LookupIdempotency(%q,%q/%q) ok=%v err=%v, model present=%v seq=%d", c.key, k.FromUID, k.ClientMsgNo, ok, err, present, seq)
	}
	if present {
		i, _ := c.find(seq)
		r := c.rows[i]
		if hit.MessageSeq != seq || hit.MessageID != r.ID || hit.Offset != seq-1 ||
			(hit.PayloadHash != verifC07Hash(r.Payload) && !(len(r.Payload) == 0 && hit.PayloadHash == 0)) {
			h.fail("LookupIdempotency(%q,%q/%q) = %+v, model seq=%d id=%d", c.key, k.FromUID, k.ClientMsgNo, hit, seq, r.ID)
		}
	}
}

func (h *verifC07H) checkClientNo(ci int, no string, before uint64, limit int) {
	c := h.m.chans[ci]
	page, err := h.log(ci).ListByClientMsgNo(h.ctx, no, before, limit)
	if no == "" || limit <= 0 {
		if verifC07ErrClass(err) != "invalid-argument" {
			h.fail("ListByClientMsgNo(%q,%d,%d): err=%v, want invalid argument", no, before, limit, err)
		}
		return
	}
	h.indexLookup()
	if err != nil {
		h.fail("ListByClientMsgNo(%q,%q,before=%d,limit=%d): %v", c.key, no, before, limit, err)
	}
	var all []*verifC07Row
	for i := len(c.rows) - 1; i >= 0; i-- {
		if c.rows[i].ClientMsgNo == no && (before == 0 || c.rows[i].Seq < before) {
			all = append(all, &c.rows[i])
		}
	}
	want := all
	wantMore, wantNext := false, uint64(0)
	if len(all) > limit {
		want = all[:limit]
		wantMore, wantNext = true, want[limit-1].Seq
	}
	h.sameList(c, fmt.Sprintf("ListByClientMsgNo(%q,before=%d,limit=%d)", no, before, limit), page.Messages, want)
	if page.HasMore != wantMore || page.NextBeforeSeq != wantNext {
		h.fail("ListByClientMsgNo(%q,%q,before=%d,limit=%d) hasMore=%v next=%d, model %v/%d", c.key, no, before, limit, page.HasMore, page.NextBeforeSeq, wantMore, wantNext)
	}
}

func (h *verifC07H) checkSenderSeq(ci int, uid string, through uint64) {
	c := h.m.chans[ci]
	seq, ok, err := h.log(ci).GetLastSenderMessageSeq(h.ctx, uid, through)
	if uid == "" || through == 0 {
		if verifC07ErrClass(err) != "invalid-argument" {
			h.fail("GetLastSenderMessageSeq(%q,%d): err=%v, want invalid argument", uid, through, err)
		}
		return
	}
	h.indexLookup()
	var want uint64
	for i := len(c.rows) - 1; i >= 0; i-- {
		if c.rows[i].FromUID == uid && c.rows[i].Seq <= through {
			want = c.rows[i].Seq
			break
		}
	}
	if err != nil || ok != (want != 0) || seq != want {
		h.fail("GetLastSenderMessageSeq(%q,%q,through=%d)=%d ok=%v err=%v, model %d", c.key, uid, through, seq, ok, err, want)
	}
}

func (h *verifC07H) checkSystem(ci int) {
	c := h.m.chans[ci]
	cp, ok, err := h.log(ci).LoadCheckpoint(h.ctx)
	if err != nil || ok != c.cpOK || (ok && cp != c.cp) {
		h.fail("LoadCheckpoint(%q)=%+v ok=%v err=%v, model %+v ok=%v", c.key, cp, ok, err, c.cp, c.cpOK)
	}
	st, ok, err := h.log(ci).LoadRetentionState(h.ctx)
	if err != nil || ok != c.retOK || (ok && (st.LocalRetentionThroughSeq != c.ret.LocalRetentionThroughSeq || st.PhysicalRetentionThroughSeq != c.ret.PhysicalRetentionThroughSeq)) {
		h.fail("LoadRetentionState(%q)=%+v ok=%v err=%v, model %+v ok=%v", c.key, st, ok, err, c.ret, c.retOK)
	}
	hist, ok, err := h.log(ci).LoadHistory(h.ctx)
	if err != nil || ok != (len(c.hist) > 0) || len(hist) != len(c.hist) {
		h.fail("LoadHistory(%q)=%v ok=%v err=%v, model %v", c.key, hist, ok, err, c.hist)
	}
	for i := range hist {
		if hist[i] != c.hist[i] {
			h.fail("LoadHistory(%q)=%v, model %v", c.key, hist, c.hist)
		}
	}
}

// checkContiguous: rows above the logical retention boundary run without a
// hole up to the log end.
func (h *verifC07H) checkContiguous(ci int) {
	c := h.m.chans[ci]
	floor := uint64(0)
	if c.retOK {
		floor = c.ret.LocalRetentionThroughSeq
	}
	got, err := h.log(ci).Read(h.ctx, floor+1, ReadOptions{})
	if err != nil {
		h.fail("Read(%q,from=%d): %v", c.key, floor+1, err)
	}
	next := floor + 1
	for _, msg := range got {
		if msg.MessageSeq != next {
			h.fail("log %q is not contiguous above its retention boundary %d: got seq %d, want %d (leo %d)", c.key, floor, msg.MessageSeq, next, c.leo)
		}
		next++
	}
	if leo, _ := h.log(ci).LEO(h.ctx); next-1 != leo && !(len(got) == 0 && leo >= floor) {
		h.fail("log %q: rows end at %d but LEO is %d", c.key, next-1, leo)
	}
}

// fullScan compares every channel completely with the model, including every
// id / key / sender / client number that was ever used, on every channel.
func (h *verifC07H) fullScan() {
	ids := make([]uint64, 0, len(h.m.everIDs))
	for id := range h.m.everIDs {
		ids = append(ids, id)
	}
	sort.Slice(ids, func(i, j int) bool { return ids[i] < ids[j] })
	keys := make([]IdempotencyKey, 0, len(h.m.everKeys))
	for k := range h.m.everKeys {
		keys = append(keys, k)
	}
	sort.Slice(keys, func(i, j int) bool {
		if keys[i].FromUID != keys[j].FromUID {
			return keys[i].FromUID < keys[j].FromUID
		}
		return keys[i].ClientMsgNo < keys[j].ClientMsgNo
	})
	senders := make([]string, 0, len(h.m.everSenders))
	for s := range h.m.everSenders {
		senders = append(senders, s)
	}
	sort.Strings(senders)
	nos := make([]string, 0, len(h.m.everNos))
	for s := range h.m.everNos {
		nos = append(nos, s)
	}
	sort.Strings(nos)
	for ci, c := range h.m.chans {
		h.checkLEO(ci)
		h.checkRead(ci, 0, ReadOptions{})
		h.checkReadReverse(ci, 0, ReadOptions{})
		h.checkContiguous(ci)
		h.checkSystem(ci)
		h.checkLastVisible(ci, 0)
		for seq := uint64(1); seq <= c.leo+1 && seq <= 400; seq++ {
			h.checkGetBySeq(ci, seq)
		}
		for _, id := range ids {
			h.checkByID(ci, id)
		}
		for _, k := range keys {
			h.checkIdempotency(ci, k)
		}
		for _, s := range senders {
			h.checkSenderSeq(ci, s, ^uint64(0))
			h.checkSenderSeq(ci, s, c.leo)
		}
		for _, no := range nos {
			h.checkClientNo(ci, no, 0, 1000)
		}
	}
	// node-wide: every live id is found on exactly its own channel (checked
	// above per channel); every key maps to one row (by construction of the
	// comparison with the model's maps).
}
