package meta

// C15 — channel routing metadata never regresses.
//
// rapid state machine over three channels stored in the real meta DB. Every
// operation (direct Shard upsert / retention advance / delete, ShardStore
// compat upsert, multi-op WriteBatch and typed Batch with upsert /
// create-if-absent / advance / delete) is followed by a read of every row
// (decoded and raw bytes) which is judged twice:
//
//   1. property clauses on the before/after pair of the stored row
//      (verifC15CheckStep) — independent of any model;
//   2. an independent reference model of the resolution rules
//      (verifC15ModelUpsert …) predicting result code and stored row.

import (
	"bytes"
	"context"
	"errors"
	"fmt"
	"slices"
	"strings"
	"testing"

	"github.com/WuKongIM/WuKongIM/pkg/db/internal/dberrors"
	"github.com/WuKongIM/WuKongIM/pkg/db/internal/engine"
	"github.com/cockroachdb/pebble/v2"
	"github.com/cockroachdb/pebble/v2/vfs"
	"pgregory.net/rapid"
	"verif.local/kit"
)

type verifC15Chan struct {
	id  string
	typ int64
	hs  HashSlot
}

// Two ids share a hash slot, two rows share an id (different type), one row
// lives in another hash slot so a WriteBatch can span hash slots.
var verifC15Chans = []verifC15Chan{
	{id: "g-alpha", typ: 2, hs: 3},
	{id: "u1@u2", typ: 1, hs: 3},
	{id: "g-alpha", typ: 1, hs: 9},
}

type verifC15Row struct {
	meta   ChannelRuntimeMeta
	exists bool
	raw    []byte
}

type verifC15Env struct {
	db      *DB
	cleanup func()
}

func verifC15Open(rt *rapid.T, onDisk bool) *verifC15Env {
	dir, rm := kit.TempDir()
	if !onDisk {
		fs := vfs.NewMem()
		engine.VerifPebbleOptions = func(o *pebble.Options) { o.FS = fs }
	}
	db, err := Open(dir)
	engine.VerifPebbleOptions = nil
	if err != nil {
		rm()
		rt.Fatalf("open meta db: %v", err)
	}
	return &verifC15Env{db: db, cleanup: func() {
		_ = db.Close()
		rm()
	}}
}

func (e *verifC15Env) read(rt *rapid.T, c verifC15Chan) verifC15Row {
	shard := e.db.meta.HashSlot(c.hs)
	meta, ok, err := shard.GetChannelRuntimeMeta(context.Background(), c.id, c.typ)
	if err != nil {
		rt.Fatalf("GetChannelRuntimeMeta(%s,%d): %v", c.id, c.typ, err)
	}
	key := encodeChannelRuntimeMetaRowKey(c.hs, c.id, c.typ, channelRuntimeMetaPrimaryFamilyID)
	raw, rawOK, err := e.db.meta.get(key)
	if err != nil {
		rt.Fatalf("raw get: %v", err)
	}
	if rawOK != ok {
		rt.Fatalf("raw row exists=%v but Get says %v", rawOK, ok)
	}
	return verifC15Row{meta: meta, exists: ok, raw: append([]byte(nil), raw...)}
}

func (e *verifC15Env) readAll(rt *rapid.T) []verifC15Row {
	out := make([]verifC15Row, len(verifC15Chans))
	for i, c := range verifC15Chans {
		out[i] = e.read(rt, c)
	}
	return out
}

// ---------------------------------------------------------------------------
// oracle 1: property clauses on one before/after pair of the stored row

func verifC15FenceEqual(a, b ChannelRuntimeMeta) bool {
	return a.WriteFenceToken == b.WriteFenceToken && a.WriteFenceVersion == b.WriteFenceVersion &&
		a.WriteFenceReason == b.WriteFenceReason && a.WriteFenceUntilMS == b.WriteFenceUntilMS
}

// verifC15RoutingChanged is the statement's list: leader, replicas, ISR,
// status, lease, retention, fence.
func verifC15RoutingChanged(a, b ChannelRuntimeMeta) bool {
	return a.Leader != b.Leader || !slices.Equal(a.Replicas, b.Replicas) || !slices.Equal(a.ISR, b.ISR) ||
		a.Status != b.Status || a.LeaseUntilMS != b.LeaseUntilMS ||
		a.RetentionThroughSeq != b.RetentionThroughSeq || !verifC15FenceEqual(a, b)
}

// verifC15CheckStep returns "" when the pair satisfies every clause of the
// property, otherwise the violated clause. deleted = a delete of this row was
// issued (and accepted) between the two reads: the pair then spans two
// incarnations and only existence is judged.
func verifC15CheckStep(before, after verifC15Row, deleted bool) string {
	if before.exists && !after.exists && !deleted {
		return "row disappeared without a delete"
	}
	if !before.exists || !after.exists || deleted {
		return ""
	}
	b, a := before.meta, after.meta
	if a.ChannelEpoch < b.ChannelEpoch {
		return fmt.Sprintf("channel epoch decreased %d -> %d", b.ChannelEpoch, a.ChannelEpoch)
	}
	if a.ChannelEpoch == b.ChannelEpoch && a.LeaderEpoch < b.LeaderEpoch {
		return fmt.Sprintf("leader epoch decreased %d -> %d within channel epoch %d", b.LeaderEpoch, a.LeaderEpoch, a.ChannelEpoch)
	}
	if a.ChannelEpoch == b.ChannelEpoch && a.LeaderEpoch == b.LeaderEpoch {
		if a.Leader != b.Leader {
			return fmt.Sprintf("same-epoch write switched leader %d -> %d", b.Leader, a.Leader)
		}
		if a.LeaseUntilMS < b.LeaseUntilMS {
			return fmt.Sprintf("same-epoch write shortened lease %d -> %d", b.LeaseUntilMS, a.LeaseUntilMS)
		}
	}
	if a.RetentionThroughSeq < b.RetentionThroughSeq {
		return fmt.Sprintf("retention boundary decreased %d -> %d", b.RetentionThroughSeq, a.RetentionThroughSeq)
	}
	if a.WriteFenceVersion < b.WriteFenceVersion {
		return fmt.Sprintf("write fence version decreased %d -> %d", b.WriteFenceVersion, a.WriteFenceVersion)
	}
	if a.RouteGeneration < b.RouteGeneration {
		return fmt.Sprintf("route generation decreased %d -> %d", b.RouteGeneration, a.RouteGeneration)
	}
	if verifC15RoutingChanged(b, a) && a.RouteGeneration <= b.RouteGeneration {
		return fmt.Sprintf("routing fields changed but route generation %d -> %d did not increase", b.RouteGeneration, a.RouteGeneration)
	}
	return ""
}

// ---------------------------------------------------------------------------
// oracle 2: independent reference model

func verifC15Canon(m ChannelRuntimeMeta) ChannelRuntimeMeta {
	set := func(in []uint64) []uint64 {
		if len(in) == 0 {
			return nil
		}
		out := slices.Clone(in)
		slices.Sort(out)
		return slices.Compact(out)
	}
	m.Replicas = set(m.Replicas)
	m.ISR = set(m.ISR)
	if m.RouteGeneration == 0 {
		m.RouteGeneration = max(m.ChannelEpoch, m.LeaderEpoch, m.WriteFenceVersion, 1)
	}
	if m.ChannelType == 1 && m.DirectoryGeneration == 0 {
		m.DirectoryGeneration = 1
	}
	return m
}

func verifC15Valid(m ChannelRuntimeMeta) bool {
	m = verifC15Canon(m)
	if m.ChannelID == "" || len(m.Replicas) == 0 || m.MinISR <= 0 || m.MinISR > int64(len(m.Replicas)) {
		return false
	}
	for _, n := range m.ISR {
		if !slices.Contains(m.Replicas, n) {
			return false
		}
	}
	if m.Leader != 0 && !slices.Contains(m.ISR, m.Leader) {
		return false
	}
	if m.WriteFenceToken == "" {
		return m.WriteFenceReason == 0 && m.WriteFenceUntilMS == 0
	}
	return m.WriteFenceVersion != 0 && m.WriteFenceReason != 0 && m.WriteFenceUntilMS > 0
}

// every stored field except the route generation and the identity
func verifC15AnyFieldChanged(a, b ChannelRuntimeMeta) bool {
	return a.ChannelEpoch != b.ChannelEpoch || a.LeaderEpoch != b.LeaderEpoch || a.MinISR != b.MinISR ||
		a.RetentionUpdatedAtMS != b.RetentionUpdatedAtMS || verifC15RoutingChanged(a, b)
}

const (
	verifC15Older    = -1
	verifC15Same     = 0
	verifC15Newer    = 1
	verifC15ResError = MonotonicResult(0)
)

func verifC15EpochOrder(cand, ex ChannelRuntimeMeta) int {
	switch {
	case cand.ChannelEpoch != ex.ChannelEpoch:
		if cand.ChannelEpoch < ex.ChannelEpoch {
			return verifC15Older
		}
		return verifC15Newer
	case cand.LeaderEpoch != ex.LeaderEpoch:
		if cand.LeaderEpoch < ex.LeaderEpoch {
			return verifC15Older
		}
		return verifC15Newer
	}
	return verifC15Same
}

// verifC15ModelUpsert: the monotonic upsert rule written from the statement:
// older (by explicit route generation or by (channel epoch, leader epoch)) is
// stale; same epochs with another leader conflicts; otherwise the candidate is
// stored with lease (same epochs only), retention and fence clamped forward and
// the route generation advanced when anything routed changed.
func verifC15ModelUpsert(ex ChannelRuntimeMeta, exists bool, cand ChannelRuntimeMeta) (ChannelRuntimeMeta, MonotonicResult) {
	explicit := cand.RouteGeneration != 0
	cand = verifC15Canon(cand)
	if !exists {
		return cand, MonotonicApplied
	}
	order := verifC15EpochOrder(cand, ex)
	switch {
	case explicit && cand.RouteGeneration < ex.RouteGeneration:
		return ex, MonotonicIgnoredStale
	case order == verifC15Older:
		return ex, MonotonicIgnoredStale
	case order == verifC15Same && cand.Leader != ex.Leader:
		return ex, MonotonicConflict
	}
	next := cand
	if order == verifC15Same && next.LeaseUntilMS < ex.LeaseUntilMS {
		next.LeaseUntilMS = ex.LeaseUntilMS
	}
	if next.DirectoryGeneration < ex.DirectoryGeneration {
		next.DirectoryGeneration = ex.DirectoryGeneration
	}
	if next.RetentionThroughSeq < ex.RetentionThroughSeq ||
		(next.RetentionThroughSeq == ex.RetentionThroughSeq && next.RetentionUpdatedAtMS < ex.RetentionUpdatedAtMS) {
		next.RetentionThroughSeq, next.RetentionUpdatedAtMS = ex.RetentionThroughSeq, ex.RetentionUpdatedAtMS
	}
	if next.WriteFenceVersion <= ex.WriteFenceVersion {
		next.WriteFenceToken, next.WriteFenceVersion = ex.WriteFenceToken, ex.WriteFenceVersion
		next.WriteFenceReason, next.WriteFenceUntilMS = ex.WriteFenceReason, ex.WriteFenceUntilMS
	}
	if !explicit && next.RouteGeneration < ex.RouteGeneration {
		next.RouteGeneration = ex.RouteGeneration
	}
	if verifC15AnyFieldChanged(ex, next) && next.RouteGeneration <= ex.RouteGeneration {
		next.RouteGeneration = ex.RouteGeneration + 1
	}
	return next, MonotonicApplied
}

// verifC15ModelAdvance returns (next, changed, err).
func verifC15ModelAdvance(ex ChannelRuntimeMeta, exists bool, req ChannelRetentionAdvance) (ChannelRuntimeMeta, error) {
	if !exists {
		return ex, dberrors.ErrNotFound
	}
	if ex.ChannelEpoch != req.ExpectedChannelEpoch || ex.LeaderEpoch != req.ExpectedLeaderEpoch ||
		ex.Leader != req.ExpectedLeader || ex.LeaseUntilMS != req.ExpectedLeaseUntilMS {
		return ex, dberrors.ErrConflict
	}
	if req.RetentionThroughSeq <= ex.RetentionThroughSeq {
		return ex, nil
	}
	next := ex
	next.RetentionThroughSeq = req.RetentionThroughSeq
	next.RetentionUpdatedAtMS = req.RetentionUpdatedAtMS
	next.RouteGeneration = ex.RouteGeneration + 1
	return next, nil
}

func verifC15MetaEqual(a, b ChannelRuntimeMeta) bool {
	return a.ChannelID == b.ChannelID && a.ChannelType == b.ChannelType &&
		a.RouteGeneration == b.RouteGeneration && a.Features == b.Features &&
		a.DirectoryGeneration == b.DirectoryGeneration && !verifC15AnyFieldChanged(a, b)
}

// ---------------------------------------------------------------------------
// generators

func verifC15Delta(rt *rapid.T, label string, cur uint64) uint64 {
	// mostly equal / +1, sometimes behind, sometimes a jump
	d := rapid.SampledFrom([]int{-2, -1, -1, 0, 0, 0, 0, 1, 1, 2, 5}).Draw(rt, label)
	if d < 0 && uint64(-d) > cur {
		return 0
	}
	return uint64(int64(cur) + int64(d))
}

func verifC15Subset(rt *rapid.T, label string, from []uint64, allowEmpty bool) []uint64 {
	var out []uint64
	for _, n := range from {
		if rapid.IntRange(0, 3).Draw(rt, label) != 0 {
			out = append(out, n)
		}
	}
	if len(out) == 0 && !allowEmpty {
		out = append(out, from[rapid.IntRange(0, len(from)-1).Draw(rt, label+"One")])
	}
	if len(out) > 1 && rapid.IntRange(0, 5).Draw(rt, label+"Shuffle") == 0 {
		// callers may pass unsorted sets with duplicates; they are normalised
		out = append([]uint64{out[len(out)-1]}, out...)
	}
	return out
}

// verifC15Candidate draws a candidate around the current row (cur is the model
// row; when absent a zero row). Mostly valid; invalid ones are labelled.
func verifC15Candidate(rt *rapid.T, c verifC15Chan, cur ChannelRuntimeMeta, exists bool) ChannelRuntimeMeta {
	m := ChannelRuntimeMeta{ChannelID: c.id, ChannelType: c.typ}
	keep := func(label string) bool { return exists && rapid.IntRange(0, 9).Draw(rt, label) < 6 }

	m.ChannelEpoch = verifC15Delta(rt, "chEpochD", cur.ChannelEpoch)
	switch {
	case m.ChannelEpoch > cur.ChannelEpoch && rapid.IntRange(0, 2).Draw(rt, "leReset") == 0:
		m.LeaderEpoch = 1 // node_restore.go style: new channel epoch, leader epoch restarts
	default:
		m.LeaderEpoch = verifC15Delta(rt, "leEpochD", cur.LeaderEpoch)
	}
	nodes := []uint64{1, 2, 3, 4, 5}
	if keep("keepReplicas") {
		m.Replicas = slices.Clone(cur.Replicas)
	} else {
		m.Replicas = verifC15Subset(rt, "replica", nodes, false)
	}
	if keep("keepISR") && verifC15SubsetOf(cur.ISR, m.Replicas) {
		m.ISR = slices.Clone(cur.ISR)
	} else {
		m.ISR = verifC15Subset(rt, "isr", verifC15Canon(ChannelRuntimeMeta{Replicas: m.Replicas}).Replicas, true)
	}
	switch {
	case exists && slices.Contains(m.ISR, cur.Leader) && rapid.IntRange(0, 9).Draw(rt, "keepLeader") < 6:
		m.Leader = cur.Leader
	case len(m.ISR) == 0 || rapid.IntRange(0, 7).Draw(rt, "noLeader") == 0:
		m.Leader = 0
	default:
		m.Leader = m.ISR[rapid.IntRange(0, len(m.ISR)-1).Draw(rt, "leaderIdx")]
	}
	m.MinISR = int64(rapid.IntRange(1, len(verifC15Canon(m).Replicas)).Draw(rt, "minISR"))
	if keep("keepStatus") {
		m.Status = cur.Status
	} else {
		m.Status = uint8(rapid.IntRange(0, 3).Draw(rt, "status"))
	}
	m.Features = uint64(rapid.IntRange(0, 3).Draw(rt, "features"))
	m.LeaseUntilMS = int64(verifC15Delta(rt, "leaseD", uint64(cur.LeaseUntilMS))) * 1
	if rapid.IntRange(0, 4).Draw(rt, "leaseJump") == 0 {
		m.LeaseUntilMS = int64(rapid.IntRange(0, 40).Draw(rt, "lease"))
	}
	m.RetentionThroughSeq = verifC15Delta(rt, "retD", cur.RetentionThroughSeq)
	m.RetentionUpdatedAtMS = int64(verifC15Delta(rt, "retAtD", uint64(cur.RetentionUpdatedAtMS)))
	switch rapid.IntRange(0, 5).Draw(rt, "fenceKind") {
	case 0, 1: // carry the current fence
		m.WriteFenceToken, m.WriteFenceVersion = cur.WriteFenceToken, cur.WriteFenceVersion
		m.WriteFenceReason, m.WriteFenceUntilMS = cur.WriteFenceReason, cur.WriteFenceUntilMS
	case 2: // no fence, version around current
		m.WriteFenceVersion = verifC15Delta(rt, "fenceVerD", cur.WriteFenceVersion)
	default:
		m.WriteFenceToken = rapid.SampledFrom([]string{"task-a", "task-b"}).Draw(rt, "fenceToken")
		m.WriteFenceVersion = max(verifC15Delta(rt, "fenceVerD", cur.WriteFenceVersion), 1)
		m.WriteFenceReason = uint8(rapid.IntRange(1, 3).Draw(rt, "fenceReason"))
		m.WriteFenceUntilMS = int64(rapid.IntRange(1, 50).Draw(rt, "fenceUntil"))
	}
	if rapid.IntRange(0, 1).Draw(rt, "rgExplicit") == 1 {
		base := cur.RouteGeneration
		if !exists {
			base = uint64(rapid.IntRange(0, 6).Draw(rt, "rgBase"))
		}
		m.RouteGeneration = verifC15Delta(rt, "rgD", base)
	}
	if rapid.IntRange(0, 3).Draw(rt, "dirGen") == 0 {
		m.DirectoryGeneration = verifC15Delta(rt, "dirGenD", cur.DirectoryGeneration)
	}
	// a small share of candidates real validation must refuse
	switch rapid.IntRange(0, 24).Draw(rt, "invalidKind") {
	case 0:
		m.Leader = 9 // not a replica
	case 1:
		m.MinISR = 0
	case 2:
		m.WriteFenceToken, m.WriteFenceVersion = "task-x", 0
	case 3:
		m.ISR = append(m.ISR, 8) // ISR member outside the replica set
	}
	return m
}

func verifC15SubsetOf(sub, of []uint64) bool {
	for _, n := range sub {
		if !slices.Contains(of, n) {
			return false
		}
	}
	return true
}

func verifC15AdvanceReq(rt *rapid.T, c verifC15Chan, cur ChannelRuntimeMeta) (ChannelRetentionAdvance, bool) {
	req := ChannelRetentionAdvance{
		ChannelID: c.id, ChannelType: c.typ,
		ExpectedChannelEpoch: cur.ChannelEpoch, ExpectedLeaderEpoch: cur.LeaderEpoch,
		ExpectedLeader: cur.Leader, ExpectedLeaseUntilMS: cur.LeaseUntilMS,
		RetentionThroughSeq:  verifC15Delta(rt, "advRet", cur.RetentionThroughSeq),
		RetentionUpdatedAtMS: int64(rapid.IntRange(0, 60).Draw(rt, "advRetAt")),
	}
	staleExpect := true
	switch rapid.IntRange(0, 9).Draw(rt, "advStale") {
	case 0:
		req.ExpectedChannelEpoch++
	case 1:
		req.ExpectedLeaderEpoch += 2
	case 2:
		req.ExpectedLeader = cur.Leader%5 + 1
	case 3:
		req.ExpectedLeaseUntilMS++
	default:
		staleExpect = false
	}
	return req, staleExpect
}

// ---------------------------------------------------------------------------
// state machine

type verifC15Stats struct {
	applied, stale, conflict, invalid            int
	staleAfterApplied, conflictAfterApplied      bool
	advApplied, advConflict, advNoop, advMissing int
	deletes, created, createExisting             int
	batches, batchAborted, batchMultiSameRow     int
	rgExplicitApplied, clampLease, clampRet      int
	clampFence, epochJumpLowerLeaderEpoch        int
	ops                                          int
}

type verifC15SM struct {
	rt    *rapid.T
	env   *verifC15Env
	model []verifC15Row // meta+exists only
	st    *verifC15Stats
	log   []string
}

func (sm *verifC15SM) logf(format string, args ...any) {
	sm.log = append(sm.log, fmt.Sprintf(format, args...))
}

func verifC15Fmt(m ChannelRuntimeMeta) string {
	return fmt.Sprintf("{%s/%d ce=%d le=%d rg=%d L=%d R=%v I=%v min=%d st=%d lease=%d ret=%d@%d fence=%q/v%d/r%d/u%d dg=%d f=%d}",
		m.ChannelID, m.ChannelType, m.ChannelEpoch, m.LeaderEpoch, m.RouteGeneration, m.Leader, m.Replicas, m.ISR, m.MinISR, m.Status,
		m.LeaseUntilMS, m.RetentionThroughSeq, m.RetentionUpdatedAtMS, m.WriteFenceToken, m.WriteFenceVersion, m.WriteFenceReason, m.WriteFenceUntilMS,
		m.DirectoryGeneration, m.Features)
}

// judge compares the store after an operation with (a) the rows read before it
// by the property clauses and (b) the model. deleted[i] = a delete of row i was
// accepted by the operation. rejected = the operation reported
// stale/conflict/error, so nothing at all may have changed.
func (sm *verifC15SM) judge(what string, before []verifC15Row, deleted []bool, rejected bool) {
	rt := sm.rt
	after := sm.env.readAll(rt)
	for i := range verifC15Chans {
		if rejected {
			if before[i].exists != after[i].exists || !bytes.Equal(before[i].raw, after[i].raw) {
				rt.Fatalf("C15 violated: %s was reported stale/conflicting/failed but row %d changed\n before=%s\n after =%s\nhistory:\n%s",
					what, i, verifC15Fmt(before[i].meta), verifC15Fmt(after[i].meta), strings.Join(sm.log, "\n"))
			}
		}
		if msg := verifC15CheckStep(before[i], after[i], deleted != nil && deleted[i]); msg != "" {
			rt.Fatalf("C15 violated: %s: row %d: %s\n before=%s\n after =%s\nhistory:\n%s",
				what, i, msg, verifC15Fmt(before[i].meta), verifC15Fmt(after[i].meta), strings.Join(sm.log, "\n"))
		}
		if after[i].exists != sm.model[i].exists || (after[i].exists && !verifC15MetaEqual(after[i].meta, sm.model[i].meta)) {
			rt.Fatalf("C15 reference model mismatch after %s: row %d\n before=%s (exists=%v)\n stored=%s (exists=%v)\n model =%s (exists=%v)\nhistory:\n%s",
				what, i, verifC15Fmt(before[i].meta), before[i].exists, verifC15Fmt(after[i].meta), after[i].exists,
				verifC15Fmt(sm.model[i].meta), sm.model[i].exists, strings.Join(sm.log, "\n"))
		}
	}
}

// noteUpsert records generator coverage for an upsert that the model resolved.
func (sm *verifC15SM) noteUpsert(ex verifC15Row, cand ChannelRuntimeMeta, next ChannelRuntimeMeta, res MonotonicResult) {
	st := sm.st
	switch res {
	case MonotonicApplied:
		st.applied++
		if ex.exists {
			c := verifC15Canon(cand)
			if cand.RouteGeneration != 0 {
				st.rgExplicitApplied++
			}
			if c.LeaseUntilMS < next.LeaseUntilMS {
				st.clampLease++
			}
			if c.RetentionThroughSeq < next.RetentionThroughSeq {
				st.clampRet++
			}
			if c.WriteFenceVersion < next.WriteFenceVersion {
				st.clampFence++
			}
			if c.ChannelEpoch > ex.meta.ChannelEpoch && c.LeaderEpoch < ex.meta.LeaderEpoch {
				st.epochJumpLowerLeaderEpoch++
			}
		}
	case MonotonicIgnoredStale:
		st.stale++
		if st.applied > 0 {
			st.staleAfterApplied = true
		}
	case MonotonicConflict:
		st.conflict++
		if st.applied > 0 {
			st.conflictAfterApplied = true
		}
	}
}

func (sm *verifC15SM) pick() (int, verifC15Chan) {
	i := rapid.IntRange(0, len(verifC15Chans)-1).Draw(sm.rt, "chan")
	return i, verifC15Chans[i]
}

// shardUpsert: Shard.UpsertChannelRuntimeMeta (typed result) or the
// ShardStore compat wrapper (error only).
func (sm *verifC15SM) shardUpsert(rt *rapid.T) {
	sm.rt = rt
	i, c := sm.pick()
	cand := verifC15Candidate(rt, c, sm.model[i].meta, sm.model[i].exists)
	viaStore := rapid.IntRange(0, 3).Draw(rt, "viaStore") == 0
	before := sm.env.readAll(rt)
	sm.st.ops++

	var res MonotonicResult
	var err error
	if viaStore {
		err = sm.env.db.ForHashSlot(c.hs).UpsertChannelRuntimeMeta(context.Background(), cand)
	} else {
		res, err = sm.env.db.meta.HashSlot(c.hs).UpsertChannelRuntimeMeta(context.Background(), cand)
	}
	sm.logf("upsert[store=%v] row%d %s -> res=%d err=%v", viaStore, i, verifC15Fmt(cand), res, err)

	if !verifC15Valid(cand) {
		sm.st.invalid++
		if !errors.Is(err, dberrors.ErrInvalidArgument) {
			rt.Fatalf("invalid candidate %s accepted: res=%d err=%v", verifC15Fmt(cand), res, err)
		}
		sm.judge("invalid upsert", before, nil, true)
		return
	}
	next, want := verifC15ModelUpsert(sm.model[i].meta, sm.model[i].exists, cand)
	sm.noteUpsert(sm.model[i], cand, next, want)
	switch want {
	case MonotonicApplied:
		if err != nil || (!viaStore && res != MonotonicApplied) {
			rt.Fatalf("C15 model mismatch: upsert %s over %s expected applied, got res=%d err=%v\nhistory:\n%s",
				verifC15Fmt(cand), verifC15Fmt(sm.model[i].meta), res, err, strings.Join(sm.log, "\n"))
		}
		sm.model[i] = verifC15Row{meta: next, exists: true}
		sm.judge("applied upsert", before, nil, false)
	case MonotonicIgnoredStale:
		// a regressing write must be REPORTED stale (or conflicting), not applied
		if err != nil || (!viaStore && res != MonotonicIgnoredStale) {
			rt.Fatalf("C15 violated: older candidate %s over %s must be reported stale, got res=%d err=%v\nhistory:\n%s",
				verifC15Fmt(cand), verifC15Fmt(sm.model[i].meta), res, err, strings.Join(sm.log, "\n"))
		}
		sm.judge("stale upsert", before, nil, true)
	case MonotonicConflict:
		if !errors.Is(err, dberrors.ErrConflict) || (!viaStore && res != MonotonicConflict) {
			rt.Fatalf("C15 violated: same-epoch leader switch %s over %s must be reported conflicting, got res=%d err=%v\nhistory:\n%s",
				verifC15Fmt(cand), verifC15Fmt(sm.model[i].meta), res, err, strings.Join(sm.log, "\n"))
		}
		sm.judge("conflicting upsert", before, nil, true)
	}
}

func (sm *verifC15SM) shardAdvance(rt *rapid.T) {
	sm.rt = rt
	i, c := sm.pick()
	req, _ := verifC15AdvanceReq(rt, c, sm.model[i].meta)
	before := sm.env.readAll(rt)
	sm.st.ops++
	var err error
	if rapid.Bool().Draw(rt, "viaStore") {
		err = sm.env.db.ForHashSlot(c.hs).AdvanceChannelRetentionThroughSeq(context.Background(), req)
	} else {
		err = sm.env.db.meta.HashSlot(c.hs).AdvanceChannelRetentionThroughSeq(context.Background(), req)
	}
	sm.logf("advance row%d %+v -> err=%v", i, req, err)
	next, wantErr := verifC15ModelAdvance(sm.model[i].meta, sm.model[i].exists, req)
	if !errors.Is(err, wantErr) || (wantErr == nil && err != nil) {
		rt.Fatalf("C15: retention advance %+v over %s: got err=%v want %v\nhistory:\n%s",
			req, verifC15Fmt(sm.model[i].meta), err, wantErr, strings.Join(sm.log, "\n"))
	}
	switch {
	case errors.Is(wantErr, dberrors.ErrNotFound):
		sm.st.advMissing++
	case wantErr != nil:
		sm.st.advConflict++
	case verifC15MetaEqual(next, sm.model[i].meta):
		sm.st.advNoop++
	default:
		sm.st.advApplied++
	}
	if wantErr == nil {
		sm.model[i].meta = next
	}
	sm.judge("retention advance", before, nil, wantErr != nil)
}

func (sm *verifC15SM) shardDelete(rt *rapid.T) {
	sm.rt = rt
	i, c := sm.pick()
	before := sm.env.readAll(rt)
	sm.st.ops++
	var err error
	if rapid.Bool().Draw(rt, "viaStore") {
		err = sm.env.db.ForHashSlot(c.hs).DeleteChannelRuntimeMeta(context.Background(), c.id, c.typ)
	} else {
		err = sm.env.db.meta.HashSlot(c.hs).DeleteChannelRuntimeMeta(context.Background(), c.id, c.typ)
	}
	sm.logf("delete row%d -> err=%v", i, err)
	deleted := make([]bool, len(verifC15Chans))
	if sm.model[i].exists {
		if err != nil {
			rt.Fatalf("delete of existing row failed: %v", err)
		}
		sm.st.deletes++
		deleted[i] = true
		sm.model[i] = verifC15Row{}
		sm.judge("delete", before, deleted, false)
		return
	}
	if !errors.Is(err, dberrors.ErrNotFound) {
		rt.Fatalf("delete of absent row: err=%v want not found", err)
	}
	sm.judge("delete of absent row", before, nil, true)
}

// writeBatch stages 1..5 operations over the rows in one atomic batch (the
// compat WriteBatch used by the slot FSM, or the typed Batch) and commits.
func (sm *verifC15SM) writeBatch(rt *rapid.T) {
	sm.rt = rt
	n := rapid.IntRange(1, 5).Draw(rt, "batchOps")
	typed := rapid.IntRange(0, 3).Draw(rt, "typedBatch") == 0
	before := sm.env.readAll(rt)
	sm.st.ops++
	sm.st.batches++

	var wb *WriteBatch
	var tb *Batch
	if typed {
		tb = sm.env.db.meta.NewBatch()
		defer tb.Close()
	} else {
		wb = sm.env.db.NewWriteBatch()
		defer wb.Close()
	}
	// the model evolves on a scratch copy; it is adopted only if the batch commits
	scratch := slices.Clone(sm.model)
	deleted := make([]bool, len(verifC15Chans))
	touched := make([]int, len(verifC15Chans))
	var wantErr error // first error the batch must fail with (stage or commit time)
	var stageErr error
	var creates []*ChannelRuntimeMetaCreateResult
	var createWant []bool
	var notes []func()
	sm.logf("batch[typed=%v] begin", typed)
	for op := 0; op < n && stageErr == nil; op++ {
		i, c := sm.pick()
		kinds := []string{"upsert", "upsert", "create", "advance", "delete"}
		if typed {
			kinds = []string{"upsert", "upsert", "create"}
		}
		kind := rapid.SampledFrom(kinds).Draw(rt, "batchKind")
		touched[i]++
		switch kind {
		case "upsert", "create":
			cand := verifC15Candidate(rt, c, scratch[i].meta, scratch[i].exists)
			valid := verifC15Valid(cand)
			var err error
			var cr *ChannelRuntimeMetaCreateResult
			switch {
			case kind == "upsert" && typed:
				_, err = tb.UpsertChannelRuntimeMeta(c.hs, cand)
			case kind == "upsert":
				err = wb.UpsertChannelRuntimeMeta(c.hs, cand)
			case typed:
				cr, err = tb.CreateChannelRuntimeMeta(c.hs, cand)
			default:
				cr, err = wb.CreateChannelRuntimeMeta(c.hs, cand)
			}
			sm.logf("  stage %s row%d %s -> err=%v", kind, i, verifC15Fmt(cand), err)
			if !valid {
				sm.st.invalid++
				if !errors.Is(err, dberrors.ErrInvalidArgument) {
					rt.Fatalf("invalid candidate %s staged without error: %v", verifC15Fmt(cand), err)
				}
				stageErr = err
				continue
			}
			if err != nil {
				rt.Fatalf("staging valid %s %s failed: %v", kind, verifC15Fmt(cand), err)
			}
			if wantErr != nil {
				continue // batch already doomed; later ops are never evaluated
			}
			if kind == "create" {
				creates = append(creates, cr)
				createWant = append(createWant, !scratch[i].exists)
				if !scratch[i].exists {
					scratch[i] = verifC15Row{meta: verifC15Canon(cand), exists: true}
				}
				continue
			}
			next, res := verifC15ModelUpsert(scratch[i].meta, scratch[i].exists, cand)
			ex := scratch[i]
			notes = append(notes, func() { sm.noteUpsert(ex, cand, next, res) })
			switch res {
			case MonotonicApplied:
				scratch[i] = verifC15Row{meta: next, exists: true}
			case MonotonicConflict:
				wantErr = dberrors.ErrConflict
			}
		case "advance":
			req, _ := verifC15AdvanceReq(rt, c, scratch[i].meta)
			err := wb.AdvanceChannelRetentionThroughSeq(c.hs, req)
			sm.logf("  stage advance row%d %+v -> err=%v", i, req, err)
			if err != nil {
				rt.Fatalf("staging advance failed: %v", err)
			}
			if wantErr != nil {
				continue
			}
			next, aerr := verifC15ModelAdvance(scratch[i].meta, scratch[i].exists, req)
			if aerr != nil {
				wantErr = aerr
				continue
			}
			scratch[i].meta = next
		case "delete":
			err := wb.DeleteChannelRuntimeMeta(c.hs, c.id, c.typ)
			sm.logf("  stage delete row%d -> err=%v", i, err)
			if err != nil {
				rt.Fatalf("staging delete failed: %v", err)
			}
			if wantErr != nil {
				continue
			}
			deleted[i] = true
			scratch[i] = verifC15Row{}
		}
	}
	if stageErr != nil {
		// real callers (slot FSM ApplyBatch) abandon the batch on a staging error
		sm.st.batchAborted++
		sm.logf("batch abandoned after staging error %v", stageErr)
		sm.judge("abandoned batch", before, nil, true)
		return
	}
	var err error
	if typed {
		err = tb.Commit(context.Background())
	} else {
		err = wb.Commit()
	}
	sm.logf("batch commit -> err=%v", err)
	if wantErr != nil {
		sm.st.batchAborted++
		for _, f := range notes {
			f()
		}
		if !errors.Is(err, wantErr) {
			rt.Fatalf("C15: batch expected to fail with %v, got %v\nhistory:\n%s", wantErr, err, strings.Join(sm.log, "\n"))
		}
		for _, cr := range creates {
			_ = cr // Created is documented meaningful only after a nil Commit
		}
		sm.judge("failed batch", before, nil, true)
		return
	}
	if err != nil {
		rt.Fatalf("C15: batch expected to commit, got %v\nhistory:\n%s", err, strings.Join(sm.log, "\n"))
	}
	for _, f := range notes {
		f()
	}
	for j, cr := range creates {
		if cr == nil || cr.Created != createWant[j] {
			rt.Fatalf("C15: create-if-absent #%d reported Created=%v want %v\nhistory:\n%s", j, cr != nil && cr.Created, createWant[j], strings.Join(sm.log, "\n"))
		}
		if createWant[j] {
			sm.st.created++
		} else {
			sm.st.createExisting++
		}
	}
	for i := range touched {
		if touched[i] > 1 {
			sm.st.batchMultiSameRow++
			break
		}
	}
	for i := range deleted {
		if deleted[i] {
			sm.st.deletes++
		}
	}
	sm.model = scratch
	sm.judge("committed batch", before, deleted, false)
}

func TestVerifC15RuntimeMeta(t *testing.T) {
	kit.Check(t, "C15", func(rt *rapid.T, k *kit.Case) {
		onDisk := rapid.IntRange(0, 15).Draw(rt, "onDisk") == 0
		env := verifC15Open(rt, onDisk)
		defer env.cleanup()
		sm := &verifC15SM{rt: rt, env: env, model: make([]verifC15Row, len(verifC15Chans)), st: &verifC15Stats{}}
		rt.Repeat(map[string]func(*rapid.T){
			"upsert":  sm.shardUpsert,
			"upsert2": sm.shardUpsert,
			"upsert3": sm.shardUpsert,
			"advance": sm.shardAdvance,
			"delete":  sm.shardDelete,
			"batch":   sm.writeBatch,
			"batch2":  sm.writeBatch,
		})
		st := sm.st
		k.Key(strings.Join(sm.log, "\n"))
		k.SetNonTrivial(st.staleAfterApplied && st.conflictAfterApplied)
		k.LabelIf(onDisk, "store on real disk")
		k.LabelIf(st.stale > 0, "stale upsert")
		k.LabelIf(st.conflict > 0, "conflicting upsert")
		k.LabelIf(st.invalid > 0, "invalid candidate refused")
		k.LabelIf(st.advApplied > 0, "retention advance applied")
		k.LabelIf(st.advConflict > 0, "retention advance with stale expectation")
		k.LabelIf(st.advNoop > 0, "retention advance not beyond boundary")
		k.LabelIf(st.advMissing > 0, "retention advance on absent row")
		k.LabelIf(st.deletes > 0, "delete then new incarnation possible")
		k.LabelIf(st.created > 0, "create-if-absent created")
		k.LabelIf(st.createExisting > 0, "create-if-absent found existing")
		k.LabelIf(st.batchAborted > 0, "batch aborted atomically")
		k.LabelIf(st.batchMultiSameRow > 0, "batch with several ops on one row")
		k.LabelIf(st.rgExplicitApplied > 0, "explicit route generation applied")
		k.LabelIf(st.clampLease > 0, "shorter lease clamped")
		k.LabelIf(st.clampRet > 0, "lower retention clamped")
		k.LabelIf(st.clampFence > 0, "lower fence version clamped")
		k.LabelIf(st.epochJumpLowerLeaderEpoch > 0, "higher channel epoch with lower leader epoch")
		k.LabelIf(st.ops >= 20, "history >= 20 ops")
		k.Sample(func() any { return sm.log })
	})
}
