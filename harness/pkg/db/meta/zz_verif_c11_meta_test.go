package meta

// C11 (metadata side) — hash-slot metadata export / import.
//
// Random metadata tables (users, devices, channels, subscribers, runtime
// meta, user memberships) are written to 1-2 exported hash slots and one
// bystander slot. Checked on the raw key/value content of the slot spans:
// export -> import into another database (holding stale rows in the same slot
// and rows in the bystander slot) -> re-export is byte-identical and the
// target holds exactly the source rows; corrupted / truncated / mismatched
// streams are rejected without touching the target; an import interrupted by
// power loss converges when it is run again.

import (
	"bytes"
	"context"
	"crypto/sha256"
	"encoding/binary"
	"fmt"
	"hash/crc32"
	"io"
	"math/rand/v2"
	"path/filepath"
	"sort"
	"strings"
	"sync"
	"testing"

	"github.com/WuKongIM/WuKongIM/pkg/db/internal/engine"
	"github.com/cockroachdb/pebble/v2"
	"github.com/cockroachdb/pebble/v2/vfs"
	"github.com/cockroachdb/pebble/v2/vfs/errorfs"
	"pgregory.net/rapid"
	"verif.local/kit"
)

type verifC11QuietLogger struct{}

func (verifC11QuietLogger) Infof(string, ...interface{})  {}
func (verifC11QuietLogger) Errorf(string, ...interface{}) {}
func (verifC11QuietLogger) Fatalf(f string, a ...interface{}) {
	panic("pebble fatal: " + fmt.Sprintf(f, a...))
}

type verifC11Store struct {
	eng *engine.DB
	db  *MetaDB
}

func verifC11Open(path string) (*verifC11Store, error) {
	eng, err := engine.Open(path, engine.Options{})
	if err != nil {
		return nil, err
	}
	return &verifC11Store{eng: eng, db: NewDB(eng)}, nil
}

func (s *verifC11Store) close() {
	if s == nil || s.eng == nil {
		return
	}
	s.db.close()
	_ = s.eng.Close()
	s.eng = nil
}

// verifC11Populate writes a generated mix of table rows into hashSlot. Ops the
// tables refuse (their own preconditions) simply leave nothing behind; the
// number of accepted writes is returned.
func verifC11Populate(rt *rapid.T, db *MetaDB, hashSlot uint16, n int, tag string) (accepted int, kinds map[string]bool) {
	ctx := context.Background()
	sh := db.HashSlot(hashSlot)
	kinds = map[string]bool{}
	uid := func() string { return fmt.Sprintf("%su%d", tag, rapid.IntRange(1, 6).Draw(rt, "uid")) }
	chn := func() (string, int64) {
		return fmt.Sprintf("%sg%d", tag, rapid.IntRange(1, 4).Draw(rt, "channel")), int64(rapid.IntRange(1, 2).Draw(rt, "channelType"))
	}
	for i := 0; i < n; i++ {
		var err error
		kind := rapid.SampledFrom([]string{"user", "user", "device", "channel", "channel", "subscribers", "subscribers", "unsubscribe", "runtime", "membership", "deleteUser", "deleteChannel"}).Draw(rt, "table")
		switch kind {
		case "user":
			err = sh.UpsertUser(ctx, User{UID: uid(), Token: rapid.StringMatching(`[a-z0-9]{0,12}`).Draw(rt, "token"), DeviceFlag: int64(rapid.IntRange(0, 2).Draw(rt, "flag")), DeviceLevel: int64(rapid.IntRange(0, 1).Draw(rt, "level"))})
		case "device":
			err = sh.UpsertDevice(ctx, Device{UID: uid(), DeviceFlag: int64(rapid.IntRange(0, 2).Draw(rt, "flag")), Token: rapid.StringMatching(`[a-z0-9]{1,12}`).Draw(rt, "token"), DeviceLevel: int64(rapid.IntRange(0, 1).Draw(rt, "level"))})
		case "channel":
			id, typ := chn()
			err = sh.UpsertChannel(ctx, Channel{ChannelID: id, ChannelType: typ, Ban: int64(rapid.IntRange(0, 1).Draw(rt, "ban")), Large: int64(rapid.IntRange(0, 1).Draw(rt, "large")), AllowStranger: int64(rapid.IntRange(0, 1).Draw(rt, "stranger"))})
		case "subscribers", "unsubscribe":
			id, typ := chn()
			var uids []string
			for j := rapid.IntRange(1, 4).Draw(rt, "nSubs"); j > 0; j-- {
				uids = append(uids, uid())
			}
			ver := uint64(rapid.IntRange(1, 50).Draw(rt, "mutationVersion"))
			if kind == "subscribers" {
				err = sh.AddSubscribers(ctx, id, typ, uids, ver)
			} else {
				err = sh.RemoveSubscribers(ctx, id, typ, uids, ver)
			}
		case "runtime":
			id, typ := chn()
			leader := uint64(rapid.IntRange(1, 3).Draw(rt, "leader"))
			_, err = sh.UpsertChannelRuntimeMeta(ctx, ChannelRuntimeMeta{ChannelID: id, ChannelType: typ, ChannelEpoch: uint64(rapid.IntRange(1, 5).Draw(rt, "epoch")),
				LeaderEpoch: uint64(rapid.IntRange(1, 5).Draw(rt, "leaderEpoch")), Leader: leader, Replicas: []uint64{1, 2, 3}, ISR: []uint64{leader}, MinISR: 1, Status: 1})
		case "membership":
			id, typ := chn()
			err = sh.UpsertUserChannelMembership(ctx, UserChannelMembership{UID: uid(), ChannelID: id, ChannelType: typ, JoinSeq: uint64(rapid.IntRange(0, 9).Draw(rt, "joinSeq")),
				ReadSeq: uint64(rapid.IntRange(0, 9).Draw(rt, "readSeq")), SourceVersion: uint64(rapid.IntRange(1, 9).Draw(rt, "sourceVersion")), UpdatedAt: int64(rapid.IntRange(1, 1000).Draw(rt, "updatedAt"))})
		case "deleteUser":
			err = sh.DeleteUser(ctx, uid())
		case "deleteChannel":
			id, typ := chn()
			err = sh.DeleteChannel(ctx, id, typ)
		}
		if err == nil {
			accepted++
			kinds[kind] = true
		}
	}
	return accepted, kinds
}

type verifC11KV struct{ K, V []byte }

// verifC11Content reads the raw key/value content of the given spans.
func verifC11Content(db *MetaDB, spans []Span) ([]verifC11KV, error) {
	var out []verifC11KV
	for _, sp := range spans {
		it, err := db.engine.NewIter(engine.Span{Start: sp.Start, End: sp.End}, engine.IterOptions{})
		if err != nil {
			return nil, err
		}
		for ok := it.First(); ok; ok = it.Next() {
			v, err := it.Value()
			if err != nil {
				it.Close()
				return nil, err
			}
			out = append(out, verifC11KV{K: append([]byte(nil), it.Key()...), V: append([]byte(nil), v...)})
		}
		if err := it.Error(); err != nil {
			it.Close()
			return nil, err
		}
		it.Close()
	}
	sort.Slice(out, func(i, j int) bool { return bytes.Compare(out[i].K, out[j].K) < 0 })
	return out, nil
}

func verifC11Digest(kvs []verifC11KV) string {
	h := sha256.New()
	for _, kv := range kvs {
		var l [8]byte
		binary.BigEndian.PutUint32(l[:4], uint32(len(kv.K)))
		binary.BigEndian.PutUint32(l[4:], uint32(len(kv.V)))
		h.Write(l[:])
		h.Write(kv.K)
		h.Write(kv.V)
	}
	return fmt.Sprintf("%d keys %x", len(kvs), h.Sum(nil)[:10])
}

func verifC11Spans(slots []uint16, backupOnly bool) []Span {
	var spans []Span
	for _, s := range slots {
		if backupOnly {
			spans = append(spans, hashSlotBackupDataSpans(s)...)
		} else {
			spans = append(spans, hashSlotAllDataSpans(s)...)
		}
	}
	return spans
}

func verifC11DigestOf(db *MetaDB, slots []uint16, backupOnly bool) (string, error) {
	kvs, err := verifC11Content(db, verifC11Spans(slots, backupOnly))
	if err != nil {
		return "", err
	}
	return verifC11Digest(kvs), nil
}

func verifC11ExportStream(db *MetaDB, slots []uint16, backupOnly bool) ([]byte, error) {
	var (
		r   io.ReadCloser
		err error
	)
	if backupOnly {
		r, err = db.OpenBackupHashSlotSnapshot(context.Background(), slots)
	} else {
		r, err = db.OpenHashSlotSnapshot(context.Background(), slots)
	}
	if err != nil {
		return nil, err
	}
	data, err := io.ReadAll(r)
	if cerr := r.Close(); err == nil {
		err = cerr
	}
	return data, err
}

// verifC11ImportStream installs a stream with one of the import entry points.
func verifC11ImportStream(db *MetaDB, slots []uint16, data []byte, how int, backupOnly bool) error {
	ctx := context.Background()
	rd := bytes.NewReader(data)
	switch {
	case backupOnly:
		// production restore path (pkg/cluster/node_restore.go)
		_, err := db.ImportHashSlotSnapshotReaderForRestoreWithStats(ctx, slots, rd, int64(len(data)), false)
		return err
	case how == 0:
		return db.ImportHashSlotSnapshot(ctx, SlotSnapshot{HashSlots: slots, Data: data})
	default:
		return db.ImportHashSlotSnapshotReader(ctx, slots, rd, int64(len(data)))
	}
}

type verifC11Case struct {
	Slots      []uint16
	Other      uint16
	BackupOnly bool
	Stream     []byte
	SrcDigest  string
	Kinds      map[string]bool
	Accepted   int
}

// verifC11BuildSource fills a fresh source database and exports the selected
// hash slots.
func verifC11BuildSource(rt *rapid.T, dir string) *verifC11Case {
	mem := vfs.NewMem()
	engine.VerifPebbleOptions = func(o *pebble.Options) {
		o.Logger = verifC11QuietLogger{}
		o.FS = mem
	}
	src, err := verifC11Open(filepath.Join(dir, "src"))
	if err != nil {
		rt.Fatalf("open source: %v", err)
	}
	defer src.close()
	pool := rapid.Permutation([]uint16{0, 1, 2, 255, 256, 1023}).Draw(rt, "slots")
	c := &verifC11Case{Other: pool[2], BackupOnly: rapid.Bool().Draw(rt, "backupOnly"), Kinds: map[string]bool{}}
	c.Slots = append(c.Slots, pool[0])
	if rapid.Bool().Draw(rt, "twoSlots") {
		c.Slots = append(c.Slots, pool[1])
	}
	sort.Slice(c.Slots, func(i, j int) bool { return c.Slots[i] < c.Slots[j] })
	for _, s := range append(append([]uint16(nil), c.Slots...), c.Other) {
		n, kinds := verifC11Populate(rt, src.db, s, rapid.IntRange(0, 30).Draw(rt, "nWrites"), "s")
		c.Accepted += n
		for k := range kinds {
			c.Kinds[k] = true
		}
	}
	if c.SrcDigest, err = verifC11DigestOf(src.db, c.Slots, c.BackupOnly); err != nil {
		rt.Fatalf("read source: %v", err)
	}
	if c.Stream, err = verifC11ExportStream(src.db, c.Slots, c.BackupOnly); err != nil {
		rt.Fatalf("export: %v", err)
	}
	if !c.BackupOnly {
		// the in-memory export is the same portable format
		snap, err := src.db.ExportHashSlotSnapshot(context.Background(), c.Slots)
		if err != nil {
			rt.Fatalf("ExportHashSlotSnapshot: %v", err)
		}
		kvs, err := verifC11Content(src.db, verifC11Spans(c.Slots, false))
		if err != nil {
			rt.Fatalf("read source: %v", err)
		}
		if snap.Stats.EntryCount != len(kvs) {
			rt.Fatalf("ExportHashSlotSnapshot reports %d entries, the slots hold %d", snap.Stats.EntryCount, len(kvs))
		}
		n := 0
		if _, err := visitSlotSnapshotPayload(snap.Data, func(k, v []byte) error {
			if n >= len(kvs) || !bytes.Equal(k, kvs[n].K) || !bytes.Equal(v, kvs[n].V) {
				return fmt.Errorf("entry %d differs from the stored row", n)
			}
			n++
			return nil
		}); err != nil || n != len(kvs) {
			rt.Fatalf("ExportHashSlotSnapshot payload does not list the slot content (%d of %d, %v)", n, len(kvs), err)
		}
	}
	return c
}

// verifC11Target opens a target database that already holds stale rows in the
// exported slots and rows in the bystander slot.
func verifC11Target(rt *rapid.T, path string, c *verifC11Case) *verifC11Store {
	dst, err := verifC11Open(path)
	if err != nil {
		rt.Fatalf("open target: %v", err)
	}
	for _, s := range append(append([]uint16(nil), c.Slots...), c.Other) {
		verifC11Populate(rt, dst.db, s, rapid.IntRange(0, 10).Draw(rt, "nStale"), "t")
	}
	return dst
}

func verifC11MetaLabels(k *kit.Case, c *verifC11Case) {
	k.LabelIf(c.BackupOnly, "meta: backup (business tables) stream through the restore import")
	k.LabelIf(!c.BackupOnly, "meta: full hash-slot snapshot")
	k.LabelIf(len(c.Slots) > 1, "meta: two hash slots in one stream")
	k.LabelIf(c.Kinds["subscribers"], "meta: subscribers")
	k.LabelIf(c.Kinds["membership"], "meta: user memberships")
	k.LabelIf(c.Kinds["runtime"], "meta: channel runtime meta")
}

// TestVerifC11MetaRoundTrip: export / import / re-export identity on the raw
// slot content; stale target rows are replaced, the bystander slot is untouched.
func TestVerifC11MetaRoundTrip(t *testing.T) {
	kit.Check(t, "C11", func(rt *rapid.T, k *kit.Case) {
		dir, clean := kit.TempDir()
		defer clean()
		defer func() { engine.VerifPebbleOptions = nil }()
		c := verifC11BuildSource(rt, dir)
		mem := vfs.NewMem()
		engine.VerifPebbleOptions = func(o *pebble.Options) {
			o.Logger = verifC11QuietLogger{}
			o.FS = mem
		}
		dst := verifC11Target(rt, filepath.Join(dir, "dst"), c)
		defer dst.close()
		otherBefore, err := verifC11DigestOf(dst.db, []uint16{c.Other}, false)
		if err != nil {
			rt.Fatalf("read target: %v", err)
		}
		how := rapid.IntRange(0, 1).Draw(rt, "importVia")
		if err := verifC11ImportStream(dst.db, c.Slots, c.Stream, how, c.BackupOnly); err != nil {
			rt.Fatalf("import of a pristine export failed: %v", err)
		}
		got, err := verifC11DigestOf(dst.db, c.Slots, c.BackupOnly)
		if err != nil {
			rt.Fatalf("read target: %v", err)
		}
		if got != c.SrcDigest {
			rt.Fatalf("restored slot content (%s) differs from the source (%s)", got, c.SrcDigest)
		}
		again, err := verifC11ExportStream(dst.db, c.Slots, c.BackupOnly)
		if err != nil {
			rt.Fatalf("re-export: %v", err)
		}
		if !bytes.Equal(again, c.Stream) {
			rt.Fatalf("re-export of the restored database differs from the export (%d vs %d bytes)", len(again), len(c.Stream))
		}
		if otherAfter, _ := verifC11DigestOf(dst.db, []uint16{c.Other}, false); otherAfter != otherBefore {
			rt.Fatalf("import of slots %v changed the bystander slot %d", c.Slots, c.Other)
		}
		// an exact retry is idempotent
		if err := verifC11ImportStream(dst.db, c.Slots, c.Stream, 1-how, c.BackupOnly); err != nil {
			rt.Fatalf("repeated import failed: %v", err)
		}
		if got2, _ := verifC11DigestOf(dst.db, c.Slots, c.BackupOnly); got2 != c.SrcDigest {
			rt.Fatalf("repeated import changed the restored content")
		}
		verifC11MetaLabels(k, c)
		k.Key("meta-roundtrip", c.Slots, c.BackupOnly, c.SrcDigest, how)
		k.SetNonTrivial(c.Accepted >= 5 && (c.Kinds["subscribers"] || c.Kinds["membership"]))
		k.Sample(func() any {
			return fmt.Sprintf("slots %v backupOnly=%v source %s stream %d bytes", c.Slots, c.BackupOnly, c.SrcDigest, len(c.Stream))
		})
	})
}

func verifC11FixCRC(data []byte) []byte {
	out := append([]byte(nil), data...)
	if len(out) >= 4 {
		binary.BigEndian.PutUint32(out[len(out)-4:], crc32.ChecksumIEEE(out[:len(out)-4]))
	}
	return out
}

// TestVerifC11MetaCorruption: a corrupted, truncated, spliced or mismatched
// stream is refused and the target keeps its previous content.
func TestVerifC11MetaCorruption(t *testing.T) {
	kit.Check(t, "C11", func(rt *rapid.T, k *kit.Case) {
		dir, clean := kit.TempDir()
		defer clean()
		defer func() { engine.VerifPebbleOptions = nil }()
		c := verifC11BuildSource(rt, dir)
		kind := rapid.SampledFrom([]string{"byte", "byte", "byte", "truncate", "splice", "semantic", "wrongSlots"}).Draw(rt, "corruption")
		bad := c.Stream
		slots := c.Slots
		crcValid := false
		pos := 0
		switch kind {
		case "byte":
			var m kit.Mutation
			bad, m = kit.Mutate(rt, c.Stream)
			pos = m.Pos
		case "truncate":
			pos = rapid.IntRange(0, len(c.Stream)-1).Draw(rt, "cutAt")
			bad = append([]byte(nil), c.Stream[:pos]...)
		case "splice":
			other := verifC11BuildSource(rt, dir)
			pos = rapid.IntRange(1, len(c.Stream)-1).Draw(rt, "spliceAt")
			at := rapid.IntRange(0, len(other.Stream)-1).Draw(rt, "spliceFrom")
			bad = append(append([]byte(nil), c.Stream[:pos]...), other.Stream[at:]...)
			if bytes.Equal(bad, other.Stream) {
				rt.Skip("splice reproduced the other valid stream")
			}
		case "semantic":
			var m kit.Mutation
			bad, m = kit.Mutate(rt, c.Stream[:len(c.Stream)-4])
			pos = m.Pos
			bad = verifC11FixCRC(append(bad, 0, 0, 0, 0))
			crcValid = true
		case "wrongSlots":
			// a pristine stream offered for other hash slots than it was exported for
			slots = []uint16{c.Other}
			if rapid.Bool().Draw(rt, "superset") {
				slots = append(append([]uint16(nil), c.Slots...), c.Other)
				sort.Slice(slots, func(i, j int) bool { return slots[i] < slots[j] })
			}
		}
		if kind != "wrongSlots" && bytes.Equal(bad, c.Stream) {
			rt.Skip("mutation reproduced the original stream")
		}
		mem := vfs.NewMem()
		engine.VerifPebbleOptions = func(o *pebble.Options) {
			o.Logger = verifC11QuietLogger{}
			o.FS = mem
		}
		dst := verifC11Target(rt, filepath.Join(dir, "dst"), c)
		defer dst.close()
		all := append(append([]uint16(nil), c.Slots...), c.Other)
		before, err := verifC11DigestOf(dst.db, all, false)
		if err != nil {
			rt.Fatalf("read target: %v", err)
		}
		how := rapid.IntRange(0, 1).Draw(rt, "importVia")
		if crcValid {
			// A forged stream (valid checksum, edited entry count) makes the
			// in-memory decoder of ImportHashSlotSnapshot pre-allocate by the
			// declared count (panic "makeslice: cap out of range" / out of
			// memory). That entry point only ever receives snapshots produced by
			// this code (Raft snapshot restore), so checksum-preserving edits go
			// through the bounded streaming import; the observation is reported.
			how = 1
		}
		ierr := verifC11ImportStream(dst.db, slots, bad, how, c.BackupOnly)
		after, err := verifC11DigestOf(dst.db, all, false)
		if err != nil {
			rt.Fatalf("read target: %v", err)
		}
		switch {
		case ierr == nil && !crcValid:
			rt.Fatalf("a %s stream (at byte %d of %d, slots %v for export of %v) was accepted", kind, pos, len(c.Stream), slots, c.Slots)
		case ierr == nil:
			// a checksum-valid edit that is another well-formed stream for the same slots: the target must hold exactly that stream
			// (it need not be canonical — keys may repeat or be unsorted — so the
			// comparison is on the entries, last one winning)
			want := map[string][]byte{}
			if _, _, err := visitSlotSnapshotStream(context.Background(), bytes.NewReader(bad), int64(len(bad)), func(k, v []byte) error {
				want[string(k)] = append([]byte(nil), v...)
				return nil
			}); err != nil {
				rt.Fatalf("accepted stream cannot be parsed: %v", err)
			}
			have, err := verifC11Content(dst.db, verifC11Spans(c.Slots, false))
			if err != nil {
				rt.Fatalf("read target: %v", err)
			}
			if len(have) != len(want) {
				rt.Fatalf("an edited stream with a valid checksum was accepted: the target holds %d rows, the stream declares %d (edit at byte %d of %d)", len(have), len(want), pos, len(c.Stream))
			}
			for _, kv := range have {
				if v, ok := want[string(kv.K)]; !ok || !bytes.Equal(v, kv.V) {
					rt.Fatalf("an edited stream with a valid checksum was accepted but row %x of the target is not the stream's (edit at byte %d of %d)", kv.K, pos, len(c.Stream))
				}
			}
		case after != before:
			rt.Fatalf("a rejected stream (%s at byte %d of %d, error %v) changed the target (%s -> %s)", kind, pos, len(c.Stream), ierr, before, after)
		}
		if ierr != nil {
			if err := verifC11ImportStream(dst.db, c.Slots, c.Stream, how, c.BackupOnly); err != nil {
				rt.Fatalf("pristine stream after a rejected one: %v", err)
			}
			if got, _ := verifC11DigestOf(dst.db, c.Slots, c.BackupOnly); got != c.SrcDigest {
				rt.Fatalf("pristine stream after a rejected one: content %s, want %s", got, c.SrcDigest)
			}
		}
		verifC11MetaLabels(k, c)
		k.Key("meta-corrupt", kind, pos, len(c.Stream), c.SrcDigest)
		k.SetNonTrivial(kind == "wrongSlots" || pos >= 18)
		k.Label("meta corruption: " + kind)
		k.LabelIf(ierr == nil, "meta corruption: checksum-valid edit yielded another well-formed stream")
		k.LabelIf(ierr != nil && crcValid, "meta corruption: checksum-valid edit refused")
		k.Sample(func() any { return fmt.Sprintf("%s at byte %d of %d -> %v", kind, pos, len(c.Stream), ierr) })
	})
}

type verifC11Image struct {
	Call, Pct int
	FS        *vfs.MemFS
}

type verifC11CrashCtl struct {
	mu     sync.Mutex
	mem    *vfs.MemFS
	armed  bool
	calls  int
	first  int
	stride int
	pcts   []int
	seeds  []uint64
	images []verifC11Image
}

func (c *verifC11CrashCtl) onOp(op errorfs.Op) error {
	switch op.Kind {
	case errorfs.OpCreate, errorfs.OpLink, errorfs.OpRemove, errorfs.OpRemoveAll, errorfs.OpRename, errorfs.OpReuseForWrite,
		errorfs.OpMkdirAll, errorfs.OpFileWrite, errorfs.OpFileWriteAt, errorfs.OpFileSync, errorfs.OpFileSyncData, errorfs.OpFileSyncTo:
	default:
		return nil
	}
	c.mu.Lock()
	defer c.mu.Unlock()
	if !c.armed {
		return nil
	}
	n := c.calls
	c.calls++
	if n >= c.first && (n-c.first)%c.stride == 0 && len(c.images) < len(c.pcts) {
		i := len(c.images)
		c.images = append(c.images, verifC11Image{Call: n, Pct: c.pcts[i],
			FS: c.mem.CrashClone(vfs.CrashCloneCfg{UnsyncedDataPercent: c.pcts[i], RNG: rand.New(rand.NewPCG(c.seeds[i], 11))})})
	}
	return nil
}

// TestVerifC11MetaCrashRetry: the streaming import runs on CrashableMem; crash
// images are taken before its durability FS calls; every image is reopened and
// the import is run again: the result must equal an uninterrupted import.
func TestVerifC11MetaCrashRetry(t *testing.T) {
	col := kit.For(t, "C11")
	kit.Check(t, "C11", func(rt *rapid.T, k *kit.Case) {
		dir, clean := kit.TempDir()
		defer clean()
		defer func() { engine.VerifPebbleOptions = nil }()
		c := verifC11BuildSource(rt, dir)
		ctl := &verifC11CrashCtl{stride: rapid.IntRange(1, 2).Draw(rt, "stride")}
		ctl.first = rapid.IntRange(0, ctl.stride).Draw(rt, "first")
		for i := 0; i < 6; i++ {
			ctl.pcts = append(ctl.pcts, rapid.SampledFrom([]int{0, 0, 50, 50, 100}).Draw(rt, "unsyncedPercent"))
			ctl.seeds = append(ctl.seeds, rapid.Uint64().Draw(rt, "cloneSeed"))
		}
		mem := vfs.NewCrashableMem()
		ctl.mem = mem
		var fs vfs.FS = errorfs.Wrap(mem, errorfs.InjectorFunc(ctl.onOp))
		engine.VerifPebbleOptions = func(o *pebble.Options) {
			o.Logger = verifC11QuietLogger{}
			o.FS = fs
		}
		path := filepath.Join(dir, "dst")
		dst := verifC11Target(rt, path, c)
		otherBefore, err := verifC11DigestOf(dst.db, []uint16{c.Other}, false)
		if err != nil {
			dst.close()
			rt.Fatalf("read target: %v", err)
		}
		ctl.mu.Lock()
		ctl.armed = true
		ctl.mu.Unlock()
		ierr := verifC11ImportStream(dst.db, c.Slots, c.Stream, 1, c.BackupOnly)
		ctl.mu.Lock()
		ctl.armed = false
		images, calls := ctl.images, ctl.calls
		ctl.mu.Unlock()
		dst.close()
		if ierr != nil {
			rt.Fatalf("import: %v", ierr)
		}
		partial := 0
		for _, img := range images {
			fs = img.FS
			where := fmt.Sprintf("power loss before durability FS call #%d of %d of the import, %d%% unsynced kept", img.Call, calls, img.Pct)
			re, err := verifC11Open(path)
			if err != nil {
				rt.Fatalf("%s: database does not open: %v", where, err)
			}
			if got, _ := verifC11DigestOf(re.db, c.Slots, c.BackupOnly); got != c.SrcDigest {
				partial++
			}
			if err := verifC11ImportStream(re.db, c.Slots, c.Stream, 1, c.BackupOnly); err != nil {
				re.close()
				rt.Fatalf("%s: retried import failed: %v", where, err)
			}
			got, err := verifC11DigestOf(re.db, c.Slots, c.BackupOnly)
			if err != nil || got != c.SrcDigest {
				re.close()
				rt.Fatalf("%s: retried import does not converge: content %s (%v), want %s", where, got, err, c.SrcDigest)
			}
			again, err := verifC11ExportStream(re.db, c.Slots, c.BackupOnly)
			if err != nil || !bytes.Equal(again, c.Stream) {
				re.close()
				rt.Fatalf("%s: re-export after the retried import differs from the export (err %v)", where, err)
			}
			if other, _ := verifC11DigestOf(re.db, []uint16{c.Other}, false); other != otherBefore {
				re.close()
				rt.Fatalf("%s: the bystander slot %d changed", where, c.Other)
			}
			re.close()
		}
		col.AddExtra("meta_crashretry_images", int64(len(images)))
		verifC11MetaLabels(k, c)
		k.Key("meta-crashretry", ctl.first, ctl.stride, fmt.Sprint(ctl.pcts), c.SrcDigest)
		k.SetNonTrivial(partial > 0)
		k.LabelIf(partial > 0, "meta crashretry: an image held a partially imported snapshot")
		k.Sample(func() any {
			return fmt.Sprintf("import made %d durability FS calls, %d images, %d partial; %s", calls, len(images), partial, strings.TrimSpace(c.SrcDigest))
		})
	})
}
