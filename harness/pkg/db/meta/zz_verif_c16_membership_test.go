package meta

// C16 — per-user conversation cursors are monotonic; a directory pass lists
// each stored membership exactly once in (activation desc, channel) order.
//
// rapid state machine over 3 users x 4 channels (+ 2 command channels per
// user) in the real meta DB. Operations: ordinary upsert (subscriber-derived,
// source version older/equal/newer, live or tombstone), ensure, read advance,
// activate, hide, delete, CMD upsert / ack advance / tombstone — each through
// the direct Shard API or staged (alone or with others) in a WriteBatch — and
// exact replays of earlier operations. After every operation all rows are read
// back and judged by (1) the property's clauses on the before/after pair and
// (2) an independent reference model. Paginated directory scans with page
// sizes 1..7 are interleaved with mutations on other users' rows.

import (
	"context"
	"errors"
	"fmt"
	"slices"
	"strings"
	"testing"

	"github.com/WuKongIM/WuKongIM/pkg/db/internal/dberrors"
	"github.com/WuKongIM/WuKongIM/pkg/db/internal/engine"
	"github.com/cockroachdb/pebble/v2"
	"github.com/cockroachdb/pebble/v2/vfs"
	"pgregory.net/rapid"
	"verif.local/kit"
)

type verifC16User struct {
	uid string
	hs  HashSlot
}

// "ua" is a prefix of "uab" and both share a hash slot: scans of one user must
// never pick up the other's rows.
var verifC16Users = []verifC16User{{"ua", 5}, {"uab", 5}, {"ub", 11}}

// Equal-length ids, so that every reasonable reading of "channel order"
// (bytewise, or the table's length-prefixed key order) coincides.
var verifC16Chans = []ChannelKey{
	{ChannelID: "g-one", ChannelType: 2},
	{ChannelID: "g-two", ChannelType: 2},
	{ChannelID: "g-one", ChannelType: 3},
	{ChannelID: "ua@ub", ChannelType: 1},
}

var verifC16CMDChans = []ChannelKey{
	{ChannelID: "g-one____cmd", ChannelType: 2},
	{ChannelID: "ua@ub____cmd", ChannelType: 1},
}

type verifC16Row struct {
	m      UserChannelMembership
	exists bool
}

type verifC16CMDRow struct {
	m      UserCMDChannelMembership
	exists bool
}

type verifC16State struct {
	rows [][]verifC16Row    // [user][chan]
	cmds [][]verifC16CMDRow // [user][cmdchan]
}

func verifC16NewState() verifC16State {
	s := verifC16State{}
	for range verifC16Users {
		s.rows = append(s.rows, make([]verifC16Row, len(verifC16Chans)))
		s.cmds = append(s.cmds, make([]verifC16CMDRow, len(verifC16CMDChans)))
	}
	return s
}

func (s verifC16State) clone() verifC16State {
	out := verifC16State{}
	for i := range s.rows {
		out.rows = append(out.rows, slices.Clone(s.rows[i]))
		out.cmds = append(out.cmds, slices.Clone(s.cmds[i]))
	}
	return out
}

// ---------------------------------------------------------------------------
// operations

type verifC16Op struct {
	kind string // upsert ensure read activate hide delete cmdUpsert cmdAck cmdTomb batch
	via  string // shard | store | batch
	u, c int
	m    UserChannelMembership    // upsert/ensure payload; read/activate/hide use ReadSeq/ActivatedAt/DeletedToSeq/UpdatedAt
	cm   UserCMDChannelMembership // cmd payload
	subs []verifC16Op             // batch
}

func (o verifC16Op) String() string {
	switch o.kind {
	case "batch":
		parts := make([]string, len(o.subs))
		for i, s := range o.subs {
			parts[i] = s.String()
		}
		return "batch[" + strings.Join(parts, " ; ") + "]"
	case "upsert", "ensure":
		return fmt.Sprintf("%s/%s u%d c%d {sv=%d tomb=%v@%d join=%d read=%d del=%d act=%d upd=%d}", o.kind, o.via, o.u, o.c,
			o.m.SourceVersion, o.m.Tombstone, o.m.TombstoneAt, o.m.JoinSeq, o.m.ReadSeq, o.m.DeletedToSeq, o.m.ActivatedAt, o.m.UpdatedAt)
	case "read":
		return fmt.Sprintf("read/%s u%d c%d seq=%d upd=%d", o.via, o.u, o.c, o.m.ReadSeq, o.m.UpdatedAt)
	case "activate":
		return fmt.Sprintf("activate/%s u%d c%d at=%d upd=%d", o.via, o.u, o.c, o.m.ActivatedAt, o.m.UpdatedAt)
	case "hide":
		return fmt.Sprintf("hide/%s u%d c%d del=%d upd=%d", o.via, o.u, o.c, o.m.DeletedToSeq, o.m.UpdatedAt)
	case "delete":
		return fmt.Sprintf("delete/%s u%d c%d", o.via, o.u, o.c)
	default:
		return fmt.Sprintf("%s/%s u%d k%d {start=%d ack=%d tomb=%v@%d upd=%d}", o.kind, o.via, o.u, o.c,
			o.cm.StartSeq, o.cm.AckSeq, o.cm.Tombstone, o.cm.TombstoneAt, o.cm.UpdatedAt)
	}
}

func (o verifC16Op) isCMD() bool { return strings.HasPrefix(o.kind, "cmd") }

// ---------------------------------------------------------------------------
// reference model (written from the documented rules of the two tables)

func verifC16ModelUpsert(ex verifC16Row, in UserChannelMembership) verifC16Row {
	if !ex.exists {
		return verifC16Row{m: in, exists: true}
	}
	cur := ex.m
	switch {
	case in.SourceVersion < cur.SourceVersion:
		// older subscriber-derived write: refused
	case in.SourceVersion == cur.SourceVersion:
		if cur.Tombstone && !in.Tombstone { // same generation re-add
			cur.Tombstone, cur.TombstoneAt = false, 0
			cur.UpdatedAt = max(cur.UpdatedAt, in.UpdatedAt)
		}
	case in.Tombstone:
		cur.Tombstone, cur.TombstoneAt, cur.SourceVersion = true, in.TombstoneAt, in.SourceVersion
		cur.UpdatedAt = max(cur.UpdatedAt, in.UpdatedAt)
	case cur.Tombstone:
		cur = in // new incarnation after leave/re-join
	default:
		cur.SourceVersion = in.SourceVersion
		cur.UpdatedAt = max(cur.UpdatedAt, in.UpdatedAt)
	}
	return verifC16Row{m: cur, exists: true}
}

func verifC16ModelEnsure(ex verifC16Row, in UserChannelMembership) verifC16Row {
	if !ex.exists {
		return verifC16Row{m: in, exists: true}
	}
	cur := ex.m
	if in.SourceVersion <= cur.SourceVersion {
		return ex
	}
	cur.JoinSeq = in.JoinSeq
	if cur.SourceVersion == 0 {
		cur.ReadSeq = max(cur.ReadSeq, in.ReadSeq)
		cur.DeletedToSeq = max(cur.DeletedToSeq, in.DeletedToSeq)
	} else {
		cur.ReadSeq, cur.DeletedToSeq = in.ReadSeq, in.DeletedToSeq // delete/recreate boundary
	}
	cur.SourceVersion = in.SourceVersion
	cur.UpdatedAt = max(cur.UpdatedAt, in.UpdatedAt)
	return verifC16Row{m: cur, exists: true}
}

// verifC16ModelApply applies one non-batch op to st and returns the error class
// (nil, ErrNotFound, ErrInvalidArgument) plus whether the op starts a new
// incarnation of the addressed row (cursor monotonicity then does not apply).
func verifC16ModelApply(st verifC16State, o verifC16Op) (error, bool) {
	if o.isCMD() {
		ex := st.cmds[o.u][o.c]
		switch o.kind {
		case "cmdUpsert":
			if !ex.exists || (ex.m.Tombstone && !o.cm.Tombstone) {
				boundary := ex.exists
				st.cmds[o.u][o.c] = verifC16CMDRow{m: o.cm, exists: true}
				return nil, boundary
			}
			if !ex.m.Tombstone {
				ex.m.AckSeq = max(ex.m.AckSeq, o.cm.AckSeq)
				ex.m.UpdatedAt = max(ex.m.UpdatedAt, o.cm.UpdatedAt)
				st.cmds[o.u][o.c] = ex
			}
			return nil, false
		case "cmdAck", "cmdTomb":
			if !ex.exists {
				return dberrors.ErrNotFound, false
			}
			if ex.m.Tombstone {
				return nil, false
			}
			if o.kind == "cmdAck" {
				if o.via == "batch" {
					if o.cm.AckSeq > ex.m.AckSeq {
						ex.m.AckSeq = o.cm.AckSeq
						ex.m.UpdatedAt = max(ex.m.UpdatedAt, o.cm.UpdatedAt)
					}
				} else {
					ex.m.AckSeq = max(ex.m.AckSeq, o.cm.AckSeq)
					ex.m.UpdatedAt = max(ex.m.UpdatedAt, o.cm.UpdatedAt)
				}
			} else {
				ex.m.Tombstone = true
				ex.m.TombstoneAt = max(ex.m.TombstoneAt, o.cm.TombstoneAt)
				if o.via == "batch" {
					ex.m.UpdatedAt = max(ex.m.UpdatedAt, o.cm.UpdatedAt)
				} else {
					ex.m.UpdatedAt = max(ex.m.UpdatedAt, o.cm.TombstoneAt)
				}
			}
			st.cmds[o.u][o.c] = ex
			return nil, false
		}
		panic("unknown cmd op " + o.kind)
	}
	ex := st.rows[o.u][o.c]
	switch o.kind {
	case "upsert":
		boundary := ex.exists && ex.m.Tombstone && !o.m.Tombstone && o.m.SourceVersion > ex.m.SourceVersion
		st.rows[o.u][o.c] = verifC16ModelUpsert(ex, o.m)
		return nil, boundary
	case "ensure":
		boundary := ex.exists && o.m.SourceVersion > ex.m.SourceVersion && ex.m.SourceVersion != 0
		st.rows[o.u][o.c] = verifC16ModelEnsure(ex, o.m)
		return nil, boundary
	case "delete":
		st.rows[o.u][o.c] = verifC16Row{}
		return nil, true
	case "read", "activate", "hide":
		if o.m.UpdatedAt < 0 || o.m.ActivatedAt < 0 || (o.kind == "activate" && o.via == "batch" && o.m.ActivatedAt <= 0) {
			return dberrors.ErrInvalidArgument, false
		}
		if !ex.exists {
			return dberrors.ErrNotFound, false
		}
		if ex.m.Tombstone {
			return nil, false
		}
		cur := ex.m
		switch o.kind {
		case "read":
			if o.m.ReadSeq > cur.ReadSeq {
				cur.ReadSeq = o.m.ReadSeq
				cur.UpdatedAt = max(cur.UpdatedAt, o.m.UpdatedAt)
			}
		case "activate":
			if o.m.ActivatedAt > cur.ActivatedAt {
				cur.ActivatedAt = o.m.ActivatedAt
				cur.UpdatedAt = max(cur.UpdatedAt, o.m.UpdatedAt)
			}
		case "hide":
			changed := o.m.DeletedToSeq > cur.DeletedToSeq || cur.ActivatedAt != 0
			cur.DeletedToSeq = max(cur.DeletedToSeq, o.m.DeletedToSeq)
			cur.ActivatedAt = 0
			if changed {
				cur.UpdatedAt = max(cur.UpdatedAt, o.m.UpdatedAt)
			}
		}
		st.rows[o.u][o.c] = verifC16Row{m: cur, exists: true}
		return nil, false
	}
	panic("unknown op " + o.kind)
}

// ---------------------------------------------------------------------------
// real store

type verifC16Env struct {
	db      *DB
	cleanup func()
}

func verifC16Open(rt *rapid.T, onDisk bool) *verifC16Env {
	dir, rm := kit.TempDir()
	if !onDisk {
		fs := vfs.NewMem()
		engine.VerifPebbleOptions = func(o *pebble.Options) { o.FS = fs }
	}
	db, err := Open(dir)
	engine.VerifPebbleOptions = nil
	if err != nil {
		rm()
		rt.Fatalf("open meta db: %v", err)
	}
	return &verifC16Env{db: db, cleanup: func() { _ = db.Close(); rm() }}
}

func (e *verifC16Env) readAll(rt *rapid.T) verifC16State {
	st := verifC16NewState()
	ctx := context.Background()
	for u, usr := range verifC16Users {
		sh := e.db.meta.HashSlot(usr.hs)
		for c, ch := range verifC16Chans {
			m, ok, err := sh.GetUserChannelMembership(ctx, usr.uid, ch.ChannelID, ch.ChannelType)
			if err != nil {
				rt.Fatalf("GetUserChannelMembership: %v", err)
			}
			st.rows[u][c] = verifC16Row{m: m, exists: ok}
		}
		for c, ch := range verifC16CMDChans {
			m, ok, err := sh.GetUserCMDChannelMembership(ctx, usr.uid, ch.ChannelID, ch.ChannelType)
			if err != nil {
				rt.Fatalf("GetUserCMDChannelMembership: %v", err)
			}
			st.cmds[u][c] = verifC16CMDRow{m: m, exists: ok}
		}
	}
	return st
}

// exec runs one non-batch op directly (via shard/store) or stages it into wb.
func (e *verifC16Env) exec(o verifC16Op, wb *WriteBatch) error {
	ctx := context.Background()
	usr := verifC16Users[o.u]
	sh := e.db.meta.HashSlot(usr.hs)
	if o.isCMD() {
		if wb != nil {
			switch o.kind {
			case "cmdUpsert":
				return wb.UpsertUserCMDChannelMembership(usr.hs, o.cm)
			case "cmdAck":
				return wb.AdvanceUserCMDChannelMembershipAckSeq(usr.hs, o.cm)
			default:
				return wb.TombstoneUserCMDChannelMembership(usr.hs, o.cm)
			}
		}
		switch o.kind {
		case "cmdUpsert":
			return sh.UpsertUserCMDChannelMembership(ctx, o.cm)
		case "cmdAck":
			return sh.AdvanceUserCMDChannelMembershipAckSeq(ctx, o.cm.UID, o.cm.CommandChannelID, o.cm.ChannelType, o.cm.AckSeq, o.cm.UpdatedAt)
		default:
			return sh.TombstoneUserCMDChannelMembership(ctx, o.cm.UID, o.cm.CommandChannelID, o.cm.ChannelType, o.cm.TombstoneAt)
		}
	}
	key := verifC16Chans[o.c]
	if wb != nil {
		switch o.kind {
		case "upsert":
			return wb.UpsertUserChannelMembership(usr.hs, o.m)
		case "ensure":
			return wb.EnsureUserChannelMembership(usr.hs, o.m)
		case "read":
			return wb.AdvanceUserChannelMembershipReadSeq(usr.hs, usr.uid, key, o.m.ReadSeq, o.m.UpdatedAt)
		case "activate":
			return wb.ActivateUserChannelMembership(usr.hs, usr.uid, key, o.m.ActivatedAt, o.m.UpdatedAt)
		case "hide":
			return wb.HideUserChannelMembership(usr.hs, usr.uid, key, o.m.DeletedToSeq, o.m.UpdatedAt)
		default:
			return wb.DeleteUserChannelMembership(usr.hs, usr.uid, key)
		}
	}
	store := e.db.ForHashSlot(usr.hs)
	switch o.kind {
	case "upsert":
		if o.via == "store" {
			return store.UpsertUserChannelMembership(ctx, o.m)
		}
		return sh.UpsertUserChannelMembership(ctx, o.m)
	case "ensure":
		return sh.EnsureUserChannelMembership(ctx, o.m)
	case "read":
		return sh.AdvanceUserChannelMembershipReadSeq(ctx, usr.uid, key, o.m.ReadSeq, o.m.UpdatedAt)
	case "activate":
		return sh.SetUserChannelMembershipActivatedAt(ctx, usr.uid, key, o.m.ActivatedAt, o.m.UpdatedAt)
	case "hide":
		return sh.HideUserChannelMembership(ctx, usr.uid, key, o.m.DeletedToSeq, o.m.UpdatedAt)
	default:
		if o.via == "store" {
			return store.DeleteUserChannelMembership(ctx, usr.uid, key)
		}
		return sh.DeleteUserChannelMembership(ctx, usr.uid, key)
	}
}

// ---------------------------------------------------------------------------
// state machine

type verifC16Stats struct {
	ops, replays, replayOlderAfterNewer, olderSVRefused, boundaries int
	batches, batchAborted, notFound, invalid, tombstones            int
	scans, scanPages3, scanRows4, scanWithInterleave                int
	readAdv, hide, activate, cmdRebind, cmdAckAdv                   int
	maxPages                                                        int
}

type verifC16SM struct {
	env     *verifC16Env
	model   verifC16State
	history []verifC16Op
	// lastChange[row] = index in history of the last op that changed the row
	lastChange map[string]int
	st         *verifC16Stats
	log        []string
}

func (sm *verifC16SM) fail(rt *rapid.T, format string, args ...any) {
	// history first: drivers show the tail of the output, the verdict must be in it
	rt.Fatalf("history:\n%s\n%s", strings.Join(sm.log, "\n"), fmt.Sprintf(format, args...))
}

func verifC16RowKey(o verifC16Op) string {
	if o.isCMD() {
		return fmt.Sprintf("k%d/%d", o.u, o.c)
	}
	return fmt.Sprintf("r%d/%d", o.u, o.c)
}

// drawOp draws one non-batch op around the model state st.
func (sm *verifC16SM) drawOp(rt *rapid.T, st verifC16State, users []int, staged bool) verifC16Op {
	u := users[rapid.IntRange(0, len(users)-1).Draw(rt, "user")]
	usr := verifC16Users[u]
	around := func(label string, cur uint64) uint64 {
		d := rapid.SampledFrom([]int{-3, -1, -1, 0, 0, 1, 1, 2, 4}).Draw(rt, label)
		if d < 0 && uint64(-d) > cur {
			return 0
		}
		return uint64(int64(cur) + int64(d))
	}
	ts := func(label string) int64 { return int64(rapid.IntRange(0, 30).Draw(rt, label)) }
	kind := rapid.SampledFrom([]string{"upsert", "upsert", "upsert", "ensure", "ensure", "read", "read", "activate", "activate", "hide", "delete",
		"cmdUpsert", "cmdAck", "cmdTomb"}).Draw(rt, "kind")
	o := verifC16Op{kind: kind, u: u, via: "shard"}
	if staged {
		o.via = "batch"
	}
	if o.isCMD() {
		o.c = rapid.IntRange(0, len(verifC16CMDChans)-1).Draw(rt, "cmdChan")
		cur := st.cmds[u][o.c].m
		ch := verifC16CMDChans[o.c]
		o.cm = UserCMDChannelMembership{UID: usr.uid, CommandChannelID: ch.ChannelID, ChannelType: ch.ChannelType,
			StartSeq: around("start", cur.StartSeq), AckSeq: around("ack", cur.AckSeq), UpdatedAt: ts("upd")}
		switch kind {
		case "cmdUpsert":
			o.cm.Tombstone = rapid.IntRange(0, 7).Draw(rt, "cmdTombFlag") == 0
			if o.cm.Tombstone {
				o.cm.TombstoneAt = ts("tombAt")
			}
		case "cmdTomb":
			o.cm.TombstoneAt = ts("tombAt")
		}
		return o
	}
	o.c = rapid.IntRange(0, len(verifC16Chans)-1).Draw(rt, "chan")
	cur := st.rows[u][o.c].m
	ch := verifC16Chans[o.c]
	o.m = UserChannelMembership{UID: usr.uid, ChannelID: ch.ChannelID, ChannelType: ch.ChannelType, UpdatedAt: ts("upd")}
	switch kind {
	case "upsert", "ensure":
		o.m.SourceVersion = around("sv", cur.SourceVersion)
		o.m.JoinSeq = around("join", cur.JoinSeq)
		o.m.ReadSeq = around("read", cur.ReadSeq)
		o.m.DeletedToSeq = around("del", cur.DeletedToSeq)
		o.m.ActivatedAt = int64(rapid.IntRange(0, 6).Draw(rt, "act"))
		if kind == "upsert" && rapid.IntRange(0, 3).Draw(rt, "tomb") == 0 {
			o.m.Tombstone, o.m.TombstoneAt = true, ts("tombAt")
		}
		if kind == "upsert" && !staged && rapid.IntRange(0, 3).Draw(rt, "viaStore") == 0 {
			o.via = "store"
		}
	case "read":
		o.m.ReadSeq = around("read", cur.ReadSeq)
	case "activate":
		// few distinct activation times so that ties (ordered by channel) are common
		o.m.ActivatedAt = int64(rapid.IntRange(0, 6).Draw(rt, "act"))
	case "hide":
		o.m.DeletedToSeq = around("del", cur.DeletedToSeq)
	case "delete":
		if !staged && rapid.Bool().Draw(rt, "viaStore") {
			o.via = "store"
		}
	}
	return o
}

// judge reads the store and compares with the pre-state (property clauses) and
// the model.
func (sm *verifC16SM) judge(rt *rapid.T, what string, before verifC16State, boundary map[string]bool, olderSV map[string]bool) {
	after := sm.env.readAll(rt)
	for u := range verifC16Users {
		for c := range verifC16Chans {
			b, a := before.rows[u][c], after.rows[u][c]
			key := fmt.Sprintf("r%d/%d", u, c)
			if b.exists && a.exists && !boundary[key] {
				if a.m.ReadSeq < b.m.ReadSeq {
					sm.fail(rt, "C16 violated: %s: read cursor of %s moved backwards %d -> %d within one incarnation", what, key, b.m.ReadSeq, a.m.ReadSeq)
				}
				if a.m.DeletedToSeq < b.m.DeletedToSeq {
					sm.fail(rt, "C16 violated: %s: delete-to boundary of %s moved backwards %d -> %d within one incarnation", what, key, b.m.DeletedToSeq, a.m.DeletedToSeq)
				}
			}
			if b.exists && a.exists && !boundary[key+"/deleted"] && a.m.SourceVersion < b.m.SourceVersion {
				sm.fail(rt, "C16 violated: %s: source version of %s moved backwards %d -> %d", what, key, b.m.SourceVersion, a.m.SourceVersion)
			}
			if olderSV[key] && (a != b) {
				sm.fail(rt, "C16 violated: %s: subscriber-derived write with older source version changed %s\n before=%+v\n after =%+v", what, key, b.m, a.m)
			}
			if a != sm.model.rows[u][c] {
				sm.fail(rt, "C16 reference model mismatch after %s at %s\n before=%+v exists=%v\n stored=%+v exists=%v\n model =%+v exists=%v",
					what, key, b.m, b.exists, a.m, a.exists, sm.model.rows[u][c].m, sm.model.rows[u][c].exists)
			}
		}
		for c := range verifC16CMDChans {
			b, a := before.cmds[u][c], after.cmds[u][c]
			key := fmt.Sprintf("k%d/%d", u, c)
			if b.exists && a.exists && !boundary[key] && a.m.AckSeq < b.m.AckSeq {
				sm.fail(rt, "C16 violated: %s: command ack of %s moved backwards %d -> %d within one binding", what, key, b.m.AckSeq, a.m.AckSeq)
			}
			if b.exists && !a.exists {
				sm.fail(rt, "C16: %s: CMD row %s vanished", what, key)
			}
			if a != sm.model.cmds[u][c] {
				sm.fail(rt, "C16 reference model mismatch after %s at %s\n before=%+v exists=%v\n stored=%+v exists=%v\n model =%+v exists=%v",
					what, key, b.m, b.exists, a.m, a.exists, sm.model.cmds[u][c].m, sm.model.cmds[u][c].exists)
			}
		}
	}
}

func (sm *verifC16SM) noteChanges(prev verifC16State, idx int) {
	for u := range verifC16Users {
		for c := range verifC16Chans {
			if prev.rows[u][c] != sm.model.rows[u][c] {
				sm.lastChange[fmt.Sprintf("r%d/%d", u, c)] = idx
			}
		}
		for c := range verifC16CMDChans {
			if prev.cmds[u][c] != sm.model.cmds[u][c] {
				sm.lastChange[fmt.Sprintf("k%d/%d", u, c)] = idx
			}
		}
	}
}

func (sm *verifC16SM) noteOp(o verifC16Op, pre verifC16State, err error, boundary bool) {
	st := sm.st
	switch {
	case errors.Is(err, dberrors.ErrNotFound):
		st.notFound++
	case errors.Is(err, dberrors.ErrInvalidArgument):
		st.invalid++
	}
	if boundary {
		st.boundaries++
	}
	if o.isCMD() {
		if o.kind == "cmdUpsert" && boundary {
			st.cmdRebind++
		}
		if o.kind == "cmdAck" && err == nil && pre.cmds[o.u][o.c].exists && o.cm.AckSeq > pre.cmds[o.u][o.c].m.AckSeq {
			st.cmdAckAdv++
		}
		return
	}
	ex := pre.rows[o.u][o.c]
	switch o.kind {
	case "upsert", "ensure":
		if ex.exists && o.m.SourceVersion < ex.m.SourceVersion {
			st.olderSVRefused++
		}
		if o.m.Tombstone {
			st.tombstones++
		}
	case "read":
		if err == nil && ex.exists && !ex.m.Tombstone && o.m.ReadSeq > ex.m.ReadSeq {
			st.readAdv++
		}
	case "hide":
		if err == nil && ex.exists && !ex.m.Tombstone {
			st.hide++
		}
	case "activate":
		if err == nil && ex.exists && !ex.m.Tombstone && o.m.ActivatedAt > ex.m.ActivatedAt {
			st.activate++
		}
	}
}

// apply executes op (fresh or replayed) against store and model and judges.
func (sm *verifC16SM) apply(rt *rapid.T, o verifC16Op, replayOf int) {
	before := sm.env.readAll(rt)
	pre := sm.model.clone()
	idx := len(sm.history)
	tag := ""
	if replayOf >= 0 {
		tag = fmt.Sprintf(" (replay of #%d)", replayOf)
		sm.st.replays++
		keys := []verifC16Op{o}
		if o.kind == "batch" {
			keys = o.subs
		}
		for _, k := range keys {
			if last, ok := sm.lastChange[verifC16RowKey(k)]; ok && last > replayOf {
				sm.st.replayOlderAfterNewer++
				break
			}
		}
	}
	sm.st.ops++
	boundary := map[string]bool{}
	olderSV := map[string]bool{}
	markOlder := func(s verifC16Op, st verifC16State) {
		if (s.kind == "upsert" || s.kind == "ensure") && st.rows[s.u][s.c].exists && s.m.SourceVersion < st.rows[s.u][s.c].m.SourceVersion {
			olderSV[verifC16RowKey(s)] = true
		}
	}
	if o.kind != "batch" {
		markOlder(o, sm.model)
		err := sm.env.exec(o, nil)
		wantErr, b := verifC16ModelApply(sm.model, o)
		sm.log = append(sm.log, fmt.Sprintf("#%d %s%s -> err=%v", idx, o, tag, err))
		if (wantErr == nil) != (err == nil) || (wantErr != nil && !errors.Is(err, wantErr)) {
			sm.fail(rt, "C16: %s returned %v, expected %v", o, err, wantErr)
		}
		if b {
			boundary[verifC16RowKey(o)] = true
		}
		if o.kind == "delete" {
			boundary[verifC16RowKey(o)+"/deleted"] = true
		}
		sm.noteOp(o, pre, err, b)
	} else {
		sm.st.batches++
		wb := sm.env.db.NewWriteBatch()
		scratch := sm.model.clone()
		var wantErr, stageErr error
		touched := map[string]int{}
		for _, s := range o.subs {
			serr := sm.env.exec(s, wb)
			if wantErr != nil || stageErr != nil {
				continue
			}
			pres := scratch.clone()
			// an older-SV write is only "unchanged" on the net pair if nothing else in the batch touches the row
			touched[verifC16RowKey(s)]++
			merr, b := verifC16ModelApply(scratch, s)
			if errors.Is(merr, dberrors.ErrInvalidArgument) {
				if !errors.Is(serr, dberrors.ErrInvalidArgument) {
					sm.fail(rt, "C16: staging %s returned %v, expected invalid argument", s, serr)
				}
				stageErr = serr
				continue
			}
			if serr != nil {
				sm.fail(rt, "C16: staging %s failed: %v", s, serr)
			}
			if merr != nil {
				wantErr = merr
				continue
			}
			if b {
				boundary[verifC16RowKey(s)] = true
			}
			if s.kind == "delete" {
				boundary[verifC16RowKey(s)+"/deleted"] = true
			}
			sm.noteOp(s, pres, nil, b)
		}
		var err error
		if stageErr == nil {
			err = wb.Commit()
		} else {
			err = stageErr // callers abandon a batch whose staging failed
		}
		_ = wb.Close()
		sm.log = append(sm.log, fmt.Sprintf("#%d %s%s -> err=%v", idx, o, tag, err))
		switch {
		case stageErr != nil:
			sm.st.batchAborted++
			sm.st.invalid++
			boundary = map[string]bool{}
		case wantErr != nil:
			sm.st.batchAborted++
			sm.st.notFound++
			if !errors.Is(err, wantErr) {
				sm.fail(rt, "C16: batch must fail with %v, got %v", wantErr, err)
			}
			boundary = map[string]bool{}
		default:
			if err != nil {
				sm.fail(rt, "C16: batch must commit, got %v", err)
			}
			sm.model = scratch
			for _, s := range o.subs {
				if touched[verifC16RowKey(s)] == 1 {
					markOlder(s, pre)
				}
			}
		}
	}
	sm.history = append(sm.history, o)
	sm.noteChanges(pre, idx)
	sm.judge(rt, o.String()+tag, before, boundary, olderSV)
}

func (sm *verifC16SM) allUsers() []int {
	out := make([]int, len(verifC16Users))
	for i := range out {
		out[i] = i
	}
	return out
}

func (sm *verifC16SM) actSingle(rt *rapid.T) {
	sm.apply(rt, sm.drawOp(rt, sm.model, sm.allUsers(), false), -1)
}

func (sm *verifC16SM) drawBatch(rt *rapid.T, users []int) verifC16Op {
	n := rapid.IntRange(1, 5).Draw(rt, "batchN")
	o := verifC16Op{kind: "batch", via: "batch"}
	scratch := sm.model.clone()
	for i := 0; i < n; i++ {
		s := sm.drawOp(rt, scratch, users, true)
		o.subs = append(o.subs, s)
		_, _ = verifC16ModelApply(scratch, s) // later subs are drawn around the staged state
	}
	return o
}

func (sm *verifC16SM) actBatch(rt *rapid.T) {
	sm.apply(rt, sm.drawBatch(rt, sm.allUsers()), -1)
}

func (sm *verifC16SM) actReplay(rt *rapid.T) {
	if len(sm.history) == 0 {
		rt.Skip("nothing to replay")
	}
	// bias to old operations: replaying an old write after newer ones is the interesting case
	i := rapid.IntRange(0, len(sm.history)-1).Draw(rt, "replayIdx")
	sm.apply(rt, sm.history[i], i)
}

func verifC16SortedModelRows(st verifC16State, u int) []UserChannelMembership {
	var out []UserChannelMembership
	for c := range verifC16Chans {
		if st.rows[u][c].exists {
			out = append(out, st.rows[u][c].m)
		}
	}
	slices.SortFunc(out, func(a, b UserChannelMembership) int {
		switch {
		case a.ActivatedAt != b.ActivatedAt:
			if a.ActivatedAt > b.ActivatedAt {
				return -1
			}
			return 1
		case a.ChannelID != b.ChannelID:
			return strings.Compare(a.ChannelID, b.ChannelID)
		case a.ChannelType < b.ChannelType:
			return -1
		case a.ChannelType > b.ChannelType:
			return 1
		}
		return 0
	})
	return out
}

// actScan: one complete directory pass for one user with a drawn page size;
// between pages, mutations on OTHER users' rows (and any CMD rows, which live
// in another table) are interleaved.
func (sm *verifC16SM) actScan(rt *rapid.T) {
	u := rapid.IntRange(0, len(verifC16Users)-1).Draw(rt, "scanUser")
	usr := verifC16Users[u]
	pageSize := rapid.SampledFrom([]int{1, 1, 1, 2, 2, 3, 4, 5, 6, 7}).Draw(rt, "pageSize")
	viaStore := rapid.Bool().Draw(rt, "scanViaStore")
	var others []int
	for i := range verifC16Users {
		if i != u {
			others = append(others, i)
		}
	}
	want := verifC16SortedModelRows(sm.model, u)
	var got []UserChannelMembership
	cursor := UserChannelMembershipCursor{}
	pages, interleaved := 0, 0
	sm.log = append(sm.log, fmt.Sprintf("scan u%d pageSize=%d store=%v begin (%d rows expected)", u, pageSize, viaStore, len(want)))
	for {
		var rows []UserChannelMembership
		var next UserChannelMembershipCursor
		var done bool
		var err error
		if viaStore {
			rows, next, done, err = sm.env.db.ForHashSlot(usr.hs).ListUserChannelMembershipPage(context.Background(), usr.uid, cursor, pageSize)
		} else {
			rows, next, done, err = sm.env.db.meta.HashSlot(usr.hs).ListUserChannelMembershipPage(context.Background(), usr.uid, cursor, pageSize)
		}
		if err != nil {
			sm.fail(rt, "C16: ListUserChannelMembershipPage(u%d, %+v, %d): %v", u, cursor, pageSize, err)
		}
		pages++
		if len(rows) > pageSize {
			sm.fail(rt, "C16: page of %d rows exceeds limit %d", len(rows), pageSize)
		}
		got = append(got, rows...)
		sm.log = append(sm.log, fmt.Sprintf("  page %d: %d rows done=%v next=%+v", pages, len(rows), done, next))
		if done {
			break
		}
		if len(rows) == 0 || pages > len(want)+2 {
			sm.fail(rt, "C16 violated: directory pass of u%d does not make progress (page %d, %d rows so far, %d stored)", u, pages, len(got), len(want))
		}
		cursor = next
		if rapid.IntRange(0, 2).Draw(rt, "interleave") != 0 {
			interleaved++
			if rapid.IntRange(0, 3).Draw(rt, "interleaveBatch") == 0 {
				sm.apply(rt, sm.drawBatch(rt, others), -1)
			} else {
				sm.apply(rt, sm.drawOp(rt, sm.model, others, false), -1)
			}
		}
	}
	if !slices.Equal(got, want) {
		sm.fail(rt, "C16 violated: directory pass of u%d (page size %d) returned\n  %+v\nbut the stored memberships in (activation desc, channel) order are\n  %+v", u, pageSize, got, want)
	}
	sm.st.scans++
	sm.st.maxPages = max(sm.st.maxPages, pages)
	if pages >= 3 {
		sm.st.scanPages3++
	}
	if len(want) == len(verifC16Chans) {
		sm.st.scanRows4++
	}
	if interleaved > 0 {
		sm.st.scanWithInterleave++
	}
}

func TestVerifC16Membership(t *testing.T) {
	kit.Check(t, "C16", func(rt *rapid.T, k *kit.Case) {
		onDisk := rapid.IntRange(0, 15).Draw(rt, "onDisk") == 0
		env := verifC16Open(rt, onDisk)
		defer env.cleanup()
		sm := &verifC16SM{env: env, model: verifC16NewState(), lastChange: map[string]int{}, st: &verifC16Stats{}}
		rt.Repeat(map[string]func(*rapid.T){
			"op":     sm.actSingle,
			"op2":    sm.actSingle,
			"op3":    sm.actSingle,
			"batch":  sm.actBatch,
			"replay": sm.actReplay,
			"scan":   sm.actScan,
		})
		st := sm.st
		k.Key(strings.Join(sm.log, "\n"))
		k.SetNonTrivial(st.replayOlderAfterNewer > 0 && st.scanPages3 > 0)
		k.LabelIf(onDisk, "store on real disk")
		k.LabelIf(st.replays > 0, "replay")
		k.LabelIf(st.replayOlderAfterNewer > 0, "replay of an older op after a newer one on the same row")
		k.LabelIf(st.olderSVRefused > 0, "older source version refused")
		k.LabelIf(st.boundaries > 0, "incarnation boundary (delete / re-join / ensure new generation / CMD rebind)")
		k.LabelIf(st.cmdRebind > 0, "CMD rebind after tombstone")
		k.LabelIf(st.cmdAckAdv > 0, "CMD ack advanced")
		k.LabelIf(st.tombstones > 0, "tombstone write")
		k.LabelIf(st.readAdv > 0, "read cursor advanced")
		k.LabelIf(st.hide > 0, "hide on live row")
		k.LabelIf(st.activate > 0, "activation raised")
		k.LabelIf(st.notFound > 0, "mutation of absent row (not found)")
		k.LabelIf(st.batchAborted > 0, "batch aborted atomically")
		k.LabelIf(st.batches > 0, "batch")
		k.LabelIf(st.scans > 0, "directory pass")
		k.LabelIf(st.scanPages3 > 0, "directory pass >= 3 pages")
		k.LabelIf(st.scanRows4 > 0, "directory pass over 4 rows")
		k.LabelIf(st.scanWithInterleave > 0, "directory pass with interleaved mutations")
		k.Sample(func() any { return sm.log })
	})
}
