package meta

// C40 layer 1 — durable message event reducer (pkg/db/meta).
//
// rapid state machine over 3 stream messages x 3 lanes (+ the finish lane):
// open / delta / snapshot / close / error / cancel / finish events with fresh
// and duplicate event ids, applied one at a time (Shard / ShardStore) or several
// in one atomic WriteBatch. After every operation the message cursor and all
// lanes are read back and judged by
//   1. the statement's clauses on the before/after pair (sequence only grows by
//      exactly one per applied event, terminal lanes never change again,
//      a replayed event id changes nothing and answers as the first time,
//      exactly one lane changes per applied event), and
//   2. an independent reference model of the reducer (exact lane contents,
//      results, error classes) — which also makes batch and single application
//      agree by transitivity.

import (
	"bytes"
	"context"
	"encoding/json"
	"errors"
	"fmt"
	"slices"
	"strings"
	"testing"

	"github.com/WuKongIM/WuKongIM/pkg/db/internal/dberrors"
	"github.com/WuKongIM/WuKongIM/pkg/db/internal/engine"
	"github.com/cockroachdb/pebble/v2"
	"github.com/cockroachdb/pebble/v2/vfs"
	"pgregory.net/rapid"
	"verif.local/kit"
)

const (
	verifC40Channel     = "g-stream"
	verifC40ChannelType = int64(2)
	verifC40HashSlot    = HashSlot(4)
)

var verifC40Msgs = []string{"m1", "m2", "m3"}

// ---------------------------------------------------------------------------
// reference model

type verifC40Applied struct {
	key    string
	seq    uint64
	status string
}

type verifC40Msg struct {
	cursor  uint64
	lanes   map[string]MessageEventState
	applied map[string]verifC40Applied
}

func (m *verifC40Msg) clone() *verifC40Msg {
	out := &verifC40Msg{cursor: m.cursor, lanes: map[string]MessageEventState{}, applied: map[string]verifC40Applied{}}
	for k, v := range m.lanes {
		v.SnapshotPayload = slices.Clone(v.SnapshotPayload)
		out.lanes[k] = v
	}
	for k, v := range m.applied {
		out.applied[k] = v
	}
	return out
}

type verifC40Model map[string]*verifC40Msg

func (m verifC40Model) clone() verifC40Model {
	out := verifC40Model{}
	for k, v := range m {
		out[k] = v.clone()
	}
	return out
}

func (m verifC40Model) msg(no string) *verifC40Msg {
	if m[no] == nil {
		m[no] = &verifC40Msg{lanes: map[string]MessageEventState{}, applied: map[string]verifC40Applied{}}
	}
	return m[no]
}

func verifC40Terminal(status string) bool {
	return status == "closed" || status == "error" || status == "cancelled"
}

func verifC40Normalize(e MessageEventAppend) (MessageEventAppend, bool) {
	e.ChannelID = strings.TrimSpace(e.ChannelID)
	e.ClientMsgNo = strings.TrimSpace(e.ClientMsgNo)
	e.EventID = strings.TrimSpace(e.EventID)
	e.EventKey = strings.TrimSpace(e.EventKey)
	e.EventType = strings.ToLower(strings.TrimSpace(e.EventType))
	e.Visibility = strings.TrimSpace(e.Visibility)
	if e.ChannelID == "" || e.ChannelType <= 0 || e.ClientMsgNo == "" || e.EventID == "" {
		return e, false
	}
	switch e.EventType {
	case "stream.open", "stream.delta", "stream.snapshot", "stream.close", "stream.error", "stream.cancel":
	case "stream.finish":
		e.EventKey = "__finish__"
	default:
		return e, false
	}
	if e.EventKey == "" {
		e.EventKey = "main"
	}
	if e.Visibility == "" {
		e.Visibility = "public"
	}
	return e, true
}

func verifC40TextDelta(existing, payload []byte) []byte {
	var d struct {
		Kind  string `json:"kind"`
		Delta string `json:"delta"`
	}
	if json.Unmarshal(payload, &d) != nil || d.Kind != "text" {
		return slices.Clone(payload)
	}
	var cur struct {
		Kind string `json:"kind"`
		Text string `json:"text"`
	}
	text := ""
	if json.Unmarshal(existing, &cur) == nil && cur.Kind == "text" {
		text = cur.Text
	}
	out, _ := json.Marshal(struct {
		Kind string `json:"kind"`
		Text string `json:"text"`
	}{"text", text + d.Delta})
	return out
}

type verifC40Outcome struct {
	valid   bool
	applied bool
	key     string
	seq     uint64
	status  string
}

// apply runs the reducer rules on the model.
func (m verifC40Model) apply(in MessageEventAppend) verifC40Outcome {
	e, ok := verifC40Normalize(in)
	if !ok {
		return verifC40Outcome{}
	}
	msg := m.msg(e.ClientMsgNo)
	if a, dup := msg.applied[e.EventID]; dup { // replayed id: never applied twice
		return verifC40Outcome{valid: true, key: a.key, seq: a.seq, status: a.status}
	}
	lane, exists := msg.lanes[e.EventKey]
	if exists && verifC40Terminal(lane.Status) { // finalized once
		return verifC40Outcome{valid: true, key: lane.EventKey, seq: lane.LastMsgEventSeq, status: lane.Status}
	}
	if !exists {
		lane = MessageEventState{ChannelID: e.ChannelID, ChannelType: e.ChannelType, ClientMsgNo: e.ClientMsgNo, EventKey: e.EventKey, Status: "open"}
	}
	var term struct {
		Snapshot  json.RawMessage `json:"snapshot"`
		EndReason uint8           `json:"end_reason"`
		Error     string          `json:"error"`
	}
	isTerm := false
	switch e.EventType {
	case "stream.delta":
		lane.SnapshotPayload = verifC40TextDelta(lane.SnapshotPayload, e.Payload)
	case "stream.snapshot":
		lane.SnapshotPayload = slices.Clone(e.Payload)
	case "stream.close":
		lane.Status, isTerm = "closed", true
	case "stream.error":
		lane.Status, isTerm = "error", true
	case "stream.cancel":
		lane.Status, isTerm = "cancelled", true
	case "stream.finish":
		lane.Status = "closed"
	}
	if isTerm {
		if json.Unmarshal(e.Payload, &term) != nil {
			term.Snapshot, term.EndReason, term.Error = nil, 0, ""
		}
		if len(term.Snapshot) > 0 && string(term.Snapshot) != "null" {
			lane.SnapshotPayload = slices.Clone(term.Snapshot)
		}
		switch e.EventType {
		case "stream.close":
			lane.EndReason = term.EndReason
		case "stream.error":
			lane.Error = term.Error
		}
	}
	msg.cursor++
	lane.LastMsgEventSeq = msg.cursor
	lane.LastEventID, lane.LastEventType, lane.LastVisibility = e.EventID, e.EventType, e.Visibility
	lane.LastOccurredAt, lane.UpdatedAt = e.OccurredAt, e.UpdatedAt
	msg.lanes[e.EventKey] = lane
	msg.applied[e.EventID] = verifC40Applied{key: lane.EventKey, seq: lane.LastMsgEventSeq, status: lane.Status}
	return verifC40Outcome{valid: true, applied: true, key: lane.EventKey, seq: lane.LastMsgEventSeq, status: lane.Status}
}

func verifC40StateEqual(a, b MessageEventState) bool {
	return messageEventStateEqual(a, true, b, true)
}

// ---------------------------------------------------------------------------
// observation of the real store

type verifC40Obs struct {
	cursor map[string]uint64
	lanes  map[string]map[string]MessageEventState // msg -> key -> state
}

type verifC40Env struct {
	db      *DB
	cleanup func()
}

func verifC40Open(rt *rapid.T, onDisk bool) *verifC40Env {
	dir, rm := kit.TempDir()
	if !onDisk {
		fs := vfs.NewMem()
		engine.VerifPebbleOptions = func(o *pebble.Options) { o.FS = fs }
	}
	db, err := Open(dir)
	engine.VerifPebbleOptions = nil
	if err != nil {
		rm()
		rt.Fatalf("open meta db: %v", err)
	}
	return &verifC40Env{db: db, cleanup: func() { _ = db.Close(); rm() }}
}

func (e *verifC40Env) observe(rt *rapid.T) verifC40Obs {
	obs := verifC40Obs{cursor: map[string]uint64{}, lanes: map[string]map[string]MessageEventState{}}
	sh := e.db.meta.HashSlot(verifC40HashSlot)
	for _, no := range verifC40Msgs {
		cur, ok, err := messageEventCursorTable.getByPrimaryKey(e.db.meta, verifC40HashSlot, messageEventCursorPrimaryKey(verifC40Channel, verifC40ChannelType, no))
		if err != nil {
			rt.Fatalf("cursor read: %v", err)
		}
		if ok {
			obs.cursor[no] = cur.LastMsgEventSeq
		}
		rows, err := sh.ListMessageEventStates(context.Background(), verifC40Channel, verifC40ChannelType, no, 100)
		if err != nil {
			rt.Fatalf("ListMessageEventStates: %v", err)
		}
		obs.lanes[no] = map[string]MessageEventState{}
		for _, r := range rows {
			if _, dup := obs.lanes[no][r.EventKey]; dup {
				rt.Fatalf("lane %s/%s listed twice", no, r.EventKey)
			}
			obs.lanes[no][r.EventKey] = r
			one, ok, err := sh.GetMessageEventState(context.Background(), verifC40Channel, verifC40ChannelType, no, r.EventKey)
			if err != nil || !ok || !verifC40StateEqual(one, r) {
				rt.Fatalf("GetMessageEventState(%s,%s) = %+v ok=%v err=%v, list says %+v", no, r.EventKey, one, ok, err, r)
			}
		}
	}
	return obs
}

// ---------------------------------------------------------------------------
// generators

func verifC40Payload(rt *rapid.T, typ string) []byte {
	switch typ {
	case "stream.delta":
		switch rapid.IntRange(0, 7).Draw(rt, "deltaKind") {
		case 0:
			return []byte("raw-chunk-" + rapid.StringMatching(`[a-z]{0,4}`).Draw(rt, "raw"))
		case 1:
			return []byte(`{"kind":"json","delta":"x"}`)
		default:
			b, _ := json.Marshal(map[string]string{"kind": "text", "delta": rapid.StringMatching(`[a-z é"\\]{0,5}`).Draw(rt, "delta")})
			return b
		}
	case "stream.snapshot":
		if rapid.IntRange(0, 3).Draw(rt, "snapKind") == 0 {
			return []byte("opaque-snapshot")
		}
		b, _ := json.Marshal(map[string]string{"kind": "text", "text": rapid.StringMatching(`[A-Z]{0,4}`).Draw(rt, "snap")})
		return b
	case "stream.close", "stream.error", "stream.cancel", "stream.finish":
		return []byte(rapid.SampledFrom([]string{
			``, `{}`, `{"end_reason":2}`, `{"error":"boom"}`, `{"snapshot":null,"end_reason":1}`,
			`{"snapshot":{"kind":"text","text":"final"},"end_reason":3}`, `{"snapshot":"s","error":"e","end_reason":7}`,
			`not json`, `{"end_reason":300}`,
		}).Draw(rt, "termPayload"))
	}
	if rapid.Bool().Draw(rt, "openPayload") {
		return []byte(`{"title":"t"}`)
	}
	return nil
}

type verifC40Gen struct {
	nextID int
	ids    map[string][]string // msg -> ids used so far
	all    []MessageEventAppend
}

func (g *verifC40Gen) event(rt *rapid.T) MessageEventAppend {
	no := rapid.SampledFrom(verifC40Msgs).Draw(rt, "msg")
	typ := rapid.SampledFrom([]string{
		"stream.delta", "stream.delta", "stream.delta", "stream.delta", "stream.delta", "stream.delta",
		"stream.snapshot", "stream.snapshot", "stream.open", "stream.close", "stream.error", "stream.cancel", "stream.finish",
	}).Draw(rt, "type")
	e := MessageEventAppend{
		ChannelID: verifC40Channel, ChannelType: verifC40ChannelType, ClientMsgNo: no,
		EventKey:   rapid.SampledFrom([]string{"", "main", "tool", "tool", "aux", " aux "}).Draw(rt, "lane"),
		EventType:  typ,
		Visibility: rapid.SampledFrom([]string{"", "public", "private", "restricted"}).Draw(rt, "vis"),
		OccurredAt: int64(rapid.IntRange(0, 50).Draw(rt, "occ")),
		UpdatedAt:  int64(rapid.IntRange(0, 50).Draw(rt, "upd")),
	}
	e.Payload = verifC40Payload(rt, typ)
	switch k := rapid.IntRange(0, 19).Draw(rt, "idKind"); {
	case k < 4 && len(g.ids[no]) > 0: // duplicate id, new content
		e.EventID = rapid.SampledFrom(g.ids[no]).Draw(rt, "dupID")
	case k == 4:
		e.EventType = " Stream.Delta " // normalised by the store
		fallthrough
	default:
		g.nextID++
		e.EventID = fmt.Sprintf("e%d", g.nextID)
	}
	switch rapid.IntRange(0, 39).Draw(rt, "invalid") {
	case 0:
		e.EventID = "  "
	case 1:
		e.EventType = "stream.bogus"
	case 2:
		e.ChannelType = 0
	}
	return e
}

func (g *verifC40Gen) remember(e MessageEventAppend) {
	if id := strings.TrimSpace(e.EventID); id != "" {
		if !slices.Contains(g.ids[e.ClientMsgNo], id) {
			g.ids[e.ClientMsgNo] = append(g.ids[e.ClientMsgNo], id)
		}
	}
	g.all = append(g.all, e)
}

func verifC40FmtEvent(e MessageEventAppend) string {
	return fmt.Sprintf("{%s id=%q key=%q %s vis=%q occ=%d upd=%d payload=%q}", e.ClientMsgNo, e.EventID, e.EventKey, e.EventType, e.Visibility, e.OccurredAt, e.UpdatedAt, e.Payload)
}

// ---------------------------------------------------------------------------
// state machine

type verifC40Stats struct {
	applied, replays, replayAfterNewer, onTerminal, invalid int
	terminals, finishes, batches, batchSameLane, textAppend int
	dupOtherLane                                            int
}

type verifC40SM struct {
	env   *verifC40Env
	model verifC40Model
	gen   *verifC40Gen
	st    *verifC40Stats
	log   []string
	// what the store answered when an id was applied (observed, not modelled)
	firstAnswer map[string]verifC40Applied // msg|id
}

func (sm *verifC40SM) fail(rt *rapid.T, format string, args ...any) {
	rt.Fatalf("history:\n%s\n%s", strings.Join(sm.log, "\n"), fmt.Sprintf(format, args...))
}

// judgeStep checks the clauses for ONE event between two observations.
// res is the store's answer; out the model's outcome.
func (sm *verifC40SM) judgeStep(rt *rapid.T, e MessageEventAppend, res MessageEventAppendResult, before, after verifC40Obs, out verifC40Outcome) {
	ne, _ := verifC40Normalize(e)
	no := ne.ClientMsgNo
	id := no + "|" + ne.EventID
	// other messages untouched
	for _, other := range verifC40Msgs {
		if other == no {
			continue
		}
		if before.cursor[other] != after.cursor[other] || !verifC40LanesEqual(before.lanes[other], after.lanes[other]) {
			sm.fail(rt, "C40 violated: event for %s changed message %s", no, other)
		}
	}
	bc, ac := before.cursor[no], after.cursor[no]
	if ac < bc {
		sm.fail(rt, "C40 violated: durable event sequence of %s decreased %d -> %d", no, bc, ac)
	}
	if ac != bc && ac != bc+1 {
		sm.fail(rt, "C40 violated: durable event sequence of %s jumped %d -> %d on one event", no, bc, ac)
	}
	changed := 0
	for key, b := range before.lanes[no] {
		a, ok := after.lanes[no][key]
		if !ok {
			sm.fail(rt, "C40 violated: lane %s/%s disappeared", no, key)
		}
		if !verifC40StateEqual(a, b) {
			changed++
			if verifC40Terminal(b.Status) {
				sm.fail(rt, "C40 violated: lane %s/%s was terminal (%s) and changed again\n before=%+v\n after =%+v", no, key, b.Status, b, a)
			}
		}
	}
	for key := range after.lanes[no] {
		if _, ok := before.lanes[no][key]; !ok {
			changed++
		}
	}
	first, seen := sm.firstAnswer[id]
	if seen {
		// replayed id: not applied twice, answered as the first time
		if ac != bc || changed != 0 {
			sm.fail(rt, "C40 violated: replayed event id %q was applied again (seq %d -> %d, %d lanes changed)", ne.EventID, bc, ac, changed)
		}
		if res.MsgEventSeq != first.seq || res.EventKey != first.key || res.Status != first.status {
			sm.fail(rt, "C40 violated: replayed event id %q answered {key=%s seq=%d status=%s}, first answer was {key=%s seq=%d status=%s}",
				ne.EventID, res.EventKey, res.MsgEventSeq, res.Status, first.key, first.seq, first.status)
		}
	}
	if ac == bc+1 {
		if changed != 1 {
			sm.fail(rt, "C40 violated: one applied event changed %d lanes of %s", changed, no)
		}
		lane, ok := after.lanes[no][ne.EventKey]
		if !ok || lane.LastMsgEventSeq != ac || lane.LastEventID != ne.EventID {
			sm.fail(rt, "C40 violated: applied event %q did not land on its lane %s/%s with seq %d: %+v", ne.EventID, no, ne.EventKey, ac, lane)
		}
		if res.MsgEventSeq != ac || res.EventKey != ne.EventKey || res.Status != lane.Status {
			sm.fail(rt, "C40 violated: applied event %q answered {key=%s seq=%d status=%s}, stored lane is {key=%s seq=%d status=%s}",
				ne.EventID, res.EventKey, res.MsgEventSeq, res.Status, lane.EventKey, lane.LastMsgEventSeq, lane.Status)
		}
		sm.firstAnswer[id] = verifC40Applied{key: res.EventKey, seq: res.MsgEventSeq, status: res.Status}
	} else if changed != 0 {
		sm.fail(rt, "C40 violated: %d lanes of %s changed without a new sequence number", changed, no)
	}
	// lanes carry distinct sequence numbers not above the cursor
	seqs := map[uint64]string{}
	for key, a := range after.lanes[no] {
		if a.LastMsgEventSeq == 0 || a.LastMsgEventSeq > ac {
			sm.fail(rt, "C40 violated: lane %s/%s has sequence %d outside 1..%d", no, key, a.LastMsgEventSeq, ac)
		}
		if other, dup := seqs[a.LastMsgEventSeq]; dup {
			sm.fail(rt, "C40 violated: lanes %s and %s of %s share sequence %d", other, key, no, a.LastMsgEventSeq)
		}
		seqs[a.LastMsgEventSeq] = key
	}
	// model agreement on the answer
	if (ac == bc+1) != out.applied || res.EventKey != out.key || res.MsgEventSeq != out.seq || res.Status != out.status {
		sm.fail(rt, "C40 reference model mismatch for %s: store applied=%v answered {key=%s seq=%d status=%s}; model applied=%v {key=%s seq=%d status=%s}",
			verifC40FmtEvent(e), ac == bc+1, res.EventKey, res.MsgEventSeq, res.Status, out.applied, out.key, out.seq, out.status)
	}
}

func verifC40LanesEqual(a, b map[string]MessageEventState) bool {
	if len(a) != len(b) {
		return false
	}
	for k, v := range a {
		w, ok := b[k]
		if !ok || !verifC40StateEqual(v, w) {
			return false
		}
	}
	return true
}

func (sm *verifC40SM) judgeModel(rt *rapid.T, what string, after verifC40Obs) {
	for _, no := range verifC40Msgs {
		var mc uint64
		ml := map[string]MessageEventState{}
		if m := sm.model[no]; m != nil {
			mc, ml = m.cursor, m.lanes
		}
		if after.cursor[no] != mc {
			sm.fail(rt, "C40 reference model mismatch after %s: cursor of %s is %d, model %d", what, no, after.cursor[no], mc)
		}
		if !verifC40LanesEqual(after.lanes[no], ml) {
			sm.fail(rt, "C40 reference model mismatch after %s: lanes of %s\n stored=%+v\n model =%+v", what, no, after.lanes[no], ml)
		}
	}
}

func (sm *verifC40SM) note(e MessageEventAppend, pre verifC40Model, out verifC40Outcome) {
	ne, ok := verifC40Normalize(e)
	if !ok {
		sm.st.invalid++
		return
	}
	m := pre[ne.ClientMsgNo]
	if out.applied {
		sm.st.applied++
		switch ne.EventType {
		case "stream.close", "stream.error", "stream.cancel":
			sm.st.terminals++
		case "stream.finish":
			sm.st.finishes++
		case "stream.delta":
			if m != nil && len(m.lanes[ne.EventKey].SnapshotPayload) > 0 && bytes.HasPrefix(ne.Payload, []byte(`{"`)) {
				sm.st.textAppend++
			}
		}
		return
	}
	if m == nil {
		return
	}
	if a, dup := m.applied[ne.EventID]; dup {
		sm.st.replays++
		if a.seq < m.cursor {
			sm.st.replayAfterNewer++
		}
		if a.key != ne.EventKey {
			sm.st.dupOtherLane++
		}
		return
	}
	sm.st.onTerminal++
}

func (sm *verifC40SM) single(rt *rapid.T, e MessageEventAppend, tag string) {
	before := sm.env.observe(rt)
	pre := sm.model.clone()
	var res MessageEventAppendResult
	var err error
	via := "shard"
	if rapid.IntRange(0, 2).Draw(rt, "viaStore") == 0 {
		via = "store"
		res, err = sm.env.db.ForHashSlot(verifC40HashSlot).AppendMessageEvent(context.Background(), e)
	} else {
		res, err = sm.env.db.meta.HashSlot(verifC40HashSlot).AppendMessageEvent(context.Background(), e)
	}
	out := sm.model.apply(e)
	sm.log = append(sm.log, fmt.Sprintf("append/%s%s %s -> {key=%s seq=%d status=%s} err=%v", via, tag, verifC40FmtEvent(e), res.EventKey, res.MsgEventSeq, res.Status, err))
	sm.gen.remember(e)
	sm.note(e, pre, out)
	after := sm.env.observe(rt)
	if !out.valid {
		if !errors.Is(err, dberrors.ErrInvalidArgument) {
			sm.fail(rt, "C40: invalid event %s accepted: %v", verifC40FmtEvent(e), err)
		}
		sm.judgeModel(rt, "invalid event", after)
		return
	}
	if err != nil {
		sm.fail(rt, "C40: AppendMessageEvent(%s) failed: %v", verifC40FmtEvent(e), err)
	}
	sm.judgeStep(rt, e, res, before, after, out)
	sm.judgeModel(rt, "append", after)
}

func (sm *verifC40SM) actAppend(rt *rapid.T) { sm.single(rt, sm.gen.event(rt), "") }

func (sm *verifC40SM) actReplay(rt *rapid.T) {
	if len(sm.gen.all) == 0 {
		rt.Skip("nothing to replay")
	}
	e := sm.gen.all[rapid.IntRange(0, len(sm.gen.all)-1).Draw(rt, "replayIdx")]
	sm.single(rt, e, " (exact replay)")
}

// actBatch: 2..5 events staged in one WriteBatch and committed atomically.
// The per-event clauses are judged against the model's intermediate states;
// the committed store must equal the model that applied them one by one.
func (sm *verifC40SM) actBatch(rt *rapid.T) {
	n := rapid.IntRange(2, 5).Draw(rt, "batchN")
	before := sm.env.observe(rt)
	scratch := sm.model.clone()
	wb := sm.env.db.NewWriteBatch()
	defer wb.Close()
	sm.st.batches++
	sm.log = append(sm.log, "batch begin")
	var staged []MessageEventAppend
	var results []MessageEventAppendResult
	var outs []verifC40Outcome
	lanesSeen := map[string]int{}
	for i := 0; i < n; i++ {
		var e MessageEventAppend
		if i > 0 && rapid.IntRange(0, 4).Draw(rt, "dupInBatch") == 0 {
			e = staged[rapid.IntRange(0, len(staged)-1).Draw(rt, "dupIdx")] // same id twice in one batch
		} else {
			e = sm.gen.event(rt)
		}
		res, err := wb.AppendMessageEvent(uint16(verifC40HashSlot), e)
		pre := scratch.clone()
		out := scratch.apply(e)
		sm.log = append(sm.log, fmt.Sprintf("  stage %s -> {key=%s seq=%d status=%s} err=%v", verifC40FmtEvent(e), res.EventKey, res.MsgEventSeq, res.Status, err))
		sm.gen.remember(e)
		if !out.valid {
			if !errors.Is(err, dberrors.ErrInvalidArgument) {
				sm.fail(rt, "C40: invalid event %s staged without error: %v", verifC40FmtEvent(e), err)
			}
			// the slot FSM abandons the whole batch on a staging error
			sm.st.invalid++
			sm.log = append(sm.log, "batch abandoned")
			after := sm.env.observe(rt)
			for _, no := range verifC40Msgs {
				if before.cursor[no] != after.cursor[no] || !verifC40LanesEqual(before.lanes[no], after.lanes[no]) {
					sm.fail(rt, "C40 violated: abandoned batch changed message %s", no)
				}
			}
			sm.judgeModel(rt, "abandoned batch", after)
			return
		}
		if err != nil {
			sm.fail(rt, "C40: staging %s failed: %v", verifC40FmtEvent(e), err)
		}
		if res.EventKey != out.key || res.MsgEventSeq != out.seq || res.Status != out.status {
			sm.fail(rt, "C40 reference model mismatch (batch vs single application) for staged %s: batch answered {key=%s seq=%d status=%s}, one-by-one application gives {key=%s seq=%d status=%s}",
				verifC40FmtEvent(e), res.EventKey, res.MsgEventSeq, res.Status, out.key, out.seq, out.status)
		}
		sm.note(e, pre, out)
		ne, _ := verifC40Normalize(e)
		lanesSeen[ne.ClientMsgNo+"|"+ne.EventKey]++
		staged, results, outs = append(staged, e), append(results, res), append(outs, out)
	}
	if err := wb.Commit(); err != nil {
		sm.fail(rt, "C40: batch commit failed: %v", err)
	}
	sm.log = append(sm.log, "batch committed")
	for _, c := range lanesSeen {
		if c > 1 {
			sm.st.batchSameLane++
			break
		}
	}
	after := sm.env.observe(rt)
	// clauses on the net effect
	applied := map[string]uint64{}
	for i, e := range staged {
		ne, _ := verifC40Normalize(e)
		if outs[i].applied {
			applied[ne.ClientMsgNo]++
			sm.firstAnswer[ne.ClientMsgNo+"|"+ne.EventID] = verifC40Applied{key: results[i].EventKey, seq: results[i].MsgEventSeq, status: results[i].Status}
		} else if first, seen := sm.firstAnswer[ne.ClientMsgNo+"|"+ne.EventID]; seen {
			if results[i].MsgEventSeq != first.seq || results[i].EventKey != first.key || results[i].Status != first.status {
				sm.fail(rt, "C40 violated: replayed event id %q answered {key=%s seq=%d status=%s} in a batch, first answer was {key=%s seq=%d status=%s}",
					ne.EventID, results[i].EventKey, results[i].MsgEventSeq, results[i].Status, first.key, first.seq, first.status)
			}
		}
	}
	for _, no := range verifC40Msgs {
		if after.cursor[no] < before.cursor[no] {
			sm.fail(rt, "C40 violated: durable event sequence of %s decreased %d -> %d", no, before.cursor[no], after.cursor[no])
		}
		if after.cursor[no] != before.cursor[no]+applied[no] {
			sm.fail(rt, "C40 violated: sequence of %s moved %d -> %d but %d events of the batch were new", no, before.cursor[no], after.cursor[no], applied[no])
		}
		for key, b := range before.lanes[no] {
			if a := after.lanes[no][key]; verifC40Terminal(b.Status) && !verifC40StateEqual(a, b) {
				sm.fail(rt, "C40 violated: lane %s/%s was terminal (%s) and changed again in a batch\n before=%+v\n after =%+v", no, key, b.Status, b, a)
			}
		}
	}
	sm.model = scratch
	sm.judgeModel(rt, "committed batch", after)
}

func TestVerifC40Reducer(t *testing.T) {
	kit.Check(t, "C40", func(rt *rapid.T, k *kit.Case) {
		onDisk := rapid.IntRange(0, 15).Draw(rt, "onDisk") == 0
		env := verifC40Open(rt, onDisk)
		defer env.cleanup()
		sm := &verifC40SM{env: env, model: verifC40Model{}, gen: &verifC40Gen{ids: map[string][]string{}}, st: &verifC40Stats{}, firstAnswer: map[string]verifC40Applied{}}
		rt.Repeat(map[string]func(*rapid.T){
			"append":  sm.actAppend,
			"append2": sm.actAppend,
			"append3": sm.actAppend,
			"replay":  sm.actReplay,
			"batch":   sm.actBatch,
		})
		st := sm.st
		k.Key(strings.Join(sm.log, "\n"))
		k.SetNonTrivial(st.replays > 0 && st.onTerminal > 0 && st.applied >= 3)
		k.LabelIf(onDisk, "store on real disk")
		k.LabelIf(st.replays > 0, "replayed event id")
		k.LabelIf(st.replayAfterNewer > 0, "replayed id after newer events")
		k.LabelIf(st.dupOtherLane > 0, "replayed id aimed at another lane")
		k.LabelIf(st.onTerminal > 0, "event on a finalized lane")
		k.LabelIf(st.terminals > 0, "terminal event applied")
		k.LabelIf(st.finishes > 0, "finish applied")
		k.LabelIf(st.textAppend > 0, "text delta appended to existing snapshot")
		k.LabelIf(st.batches > 0, "batch")
		k.LabelIf(st.batchSameLane > 0, "batch with several events on one lane")
		k.LabelIf(st.invalid > 0, "invalid event refused")
		k.LabelIf(st.applied >= 10, ">= 10 applied events")
		k.Sample(func() any { return sm.log })
	})
}
