package transfer

import (
	"bytes"
	"context"
	"crypto/sha256"
	"encoding/hex"
	"encoding/json"
	"errors"
	"fmt"
	"os"
	"path/filepath"
	"strings"
	"sync"
	"testing"

	"github.com/WuKongIM/WuKongIM/pkg/db"
	"pgregory.net/rapid"
	"verif.local/kit"
)

// ---- bundle editing helpers ------------------------------------------------------

func verifC11tCopyTree(rt *rapid.T, src, dst string) {
	tree, err := verifC11tTree(src)
	if err != nil {
		rt.Fatalf("read bundle: %v", err)
	}
	for rel, b := range tree {
		p := filepath.Join(dst, filepath.FromSlash(rel))
		if err := os.MkdirAll(filepath.Dir(p), 0o755); err != nil {
			rt.Fatalf("mkdir: %v", err)
		}
		if err := os.WriteFile(p, b, 0o600); err != nil {
			rt.Fatalf("write: %v", err)
		}
	}
}

func verifC11tReadManifest(rt *rapid.T, root string) Manifest {
	b, err := os.ReadFile(filepath.Join(root, manifestFileName))
	if err != nil {
		rt.Fatalf("read manifest: %v", err)
	}
	var m Manifest
	if err := json.Unmarshal(b, &m); err != nil {
		rt.Fatalf("decode manifest: %v", err)
	}
	return m
}

func verifC11tWriteManifest(rt *rapid.T, root string, m Manifest) {
	var buf bytes.Buffer
	enc := json.NewEncoder(&buf)
	enc.SetEscapeHTML(false)
	enc.SetIndent("", "  ")
	if err := enc.Encode(m); err != nil {
		rt.Fatalf("encode manifest: %v", err)
	}
	if err := os.WriteFile(filepath.Join(root, manifestFileName), buf.Bytes(), 0o600); err != nil {
		rt.Fatalf("write manifest: %v", err)
	}
}

func verifC11tLines(rt *rapid.T, root, rel string) []string {
	b, err := os.ReadFile(filepath.Join(root, filepath.FromSlash(rel)))
	if err != nil {
		rt.Fatalf("read %s: %v", rel, err)
	}
	var out []string
	for _, l := range strings.Split(string(b), "\n") {
		if l != "" {
			out = append(out, l)
		}
	}
	return out
}

// verifC11tPutLines rewrites a data file and makes the manifest entry agree
// with it again (row count and checksum), i.e. a semantic edit that the
// checksums do not reveal.
func verifC11tPutLines(rt *rapid.T, root string, m *Manifest, rel string, lines []string) {
	data := []byte(strings.Join(lines, "\n"))
	if len(lines) > 0 {
		data = append(data, '\n')
	}
	if err := os.WriteFile(filepath.Join(root, filepath.FromSlash(rel)), data, 0o600); err != nil {
		rt.Fatalf("write %s: %v", rel, err)
	}
	sum := sha256.Sum256(data)
	for i := range m.Files {
		if m.Files[i].Path == rel {
			m.Files[i].Rows = int64(len(lines))
			m.Files[i].SHA256 = hex.EncodeToString(sum[:])
		}
	}
}

func verifC11tEditLine(rt *rapid.T, line string, edit func(map[string]any)) string {
	dec := json.NewDecoder(strings.NewReader(line))
	dec.UseNumber()
	var row map[string]any
	if err := dec.Decode(&row); err != nil {
		rt.Fatalf("decode row %q: %v", line, err)
	}
	edit(row)
	var buf bytes.Buffer
	enc := json.NewEncoder(&buf)
	enc.SetEscapeHTML(false)
	if err := enc.Encode(row); err != nil {
		rt.Fatalf("encode row: %v", err)
	}
	return strings.TrimSuffix(buf.String(), "\n")
}

func verifC11tField(rt *rapid.T, line, name string) string {
	dec := json.NewDecoder(strings.NewReader(line))
	dec.UseNumber()
	var row map[string]any
	if err := dec.Decode(&row); err != nil {
		rt.Fatalf("decode row %q: %v", line, err)
	}
	return fmt.Sprint(row[name])
}

// verifC11tFieldsSubset reports whether every field of the JSON row is a field
// of the record type of kind.
func verifC11tFieldsSubset(rt *rapid.T, line string, kind FileKind) bool {
	var zero any
	switch kind {
	case FileKindMetaUsers:
		zero = UserRecord{}
	case FileKindMetaDevices:
		zero = DeviceRecord{}
	case FileKindMetaChannels:
		zero = ChannelRecord{}
	case FileKindMetaSubscribers:
		zero = SubscriberRecord{}
	case FileKindMetaUserChannelMemberships:
		zero = UserChannelMembershipRecord{}
	case FileKindMetaUserCMDChannelMemberships:
		zero = UserCMDChannelMembershipRecord{}
	case FileKindMetaChannelLatest:
		zero = ChannelLatestRecord{}
	case FileKindMetaPersonDirectoryTasks:
		zero = PersonDirectoryTaskRecord{}
	case FileKindMessageChannels:
		zero = MessageChannelRecord{}
	case FileKindMessageMessages:
		zero = MessageRecord{}
	default:
		rt.Fatalf("unknown kind %q", kind)
	}
	b, err := json.Marshal(zero)
	if err != nil {
		rt.Fatalf("marshal zero record: %v", err)
	}
	var known, row map[string]any
	if err := json.Unmarshal(b, &known); err != nil {
		rt.Fatalf("decode zero record: %v", err)
	}
	if err := json.Unmarshal([]byte(line), &row); err != nil {
		rt.Fatalf("decode row %q: %v", line, err)
	}
	for f := range row {
		if _, ok := known[f]; !ok {
			return false
		}
	}
	return true
}

type verifC11tMsgLine struct {
	file string
	idx  int
	line string
	key  string
}

func verifC11tMessageLines(rt *rapid.T, root string, m Manifest) []verifC11tMsgLine {
	var out []verifC11tMsgLine
	for _, e := range m.Files {
		if e.Kind != FileKindMessageMessages {
			continue
		}
		for i, l := range verifC11tLines(rt, root, e.Path) {
			out = append(out, verifC11tMsgLine{file: e.Path, idx: i, line: l, key: verifC11tField(rt, l, "channel_key")})
		}
	}
	return out
}

// verifC11tMutation is one applied corruption. detectedBy says which stage the
// code promises to refuse it in: "validate" (ValidateBundle, before any write:
// the target must stay untouched), "apply" (only the store's unique indexes
// can see it: documented as non-transactional, only refusal is required) or
// "either" (a byte-level manifest edit may yield another valid manifest).
type verifC11tMutation struct {
	class      string
	detail     string
	detectedBy string
}

var verifC11tMutationClasses = []string{
	"row-moved-same-kind", "row-moved-other-kind", "hash-slot-swapped", "catalog-row-dropped", "message-seq-gap", "duplicate-message-id", "duplicate-idempotency-key",
	"subscriber-rows-swapped", "message-row-duplicated", "manifest-rows", "manifest-sha", "manifest-slot-count", "file-truncate", "file-missing", "manifest-bytes", "file-bytes",
}

// verifC11tMutate applies one drawn corruption to the bundle copy at root.
// ok=false: the drawn class is not applicable to this bundle.
func verifC11tMutate(rt *rapid.T, root string, slots uint16) (verifC11tMutation, bool) {
	m := verifC11tReadManifest(rt, root)
	// a permutation draw: SampledFrom strongly prefers the first elements
	class := rapid.Permutation(verifC11tMutationClasses).Draw(rt, "mutation")[0]
	mu := verifC11tMutation{class: class, detectedBy: "validate"}
	nonEmpty := func(pred func(FileEntry) bool) []FileEntry {
		var out []FileEntry
		for _, e := range m.Files {
			if e.Rows > 0 && (pred == nil || pred(e)) {
				out = append(out, e)
			}
		}
		return out
	}
	isMeta := func(e FileEntry) bool { return strings.HasPrefix(string(e.Kind), "meta.") }
	switch class {
	case "file-bytes", "file-truncate":
		e := rapid.SampledFrom(m.Files).Draw(rt, "file")
		p := filepath.Join(root, filepath.FromSlash(e.Path))
		b, err := os.ReadFile(p)
		if err != nil {
			rt.Fatalf("read: %v", err)
		}
		var out []byte
		if class == "file-truncate" {
			if len(b) == 0 {
				return mu, false
			}
			cut := rapid.IntRange(0, len(b)-1).Draw(rt, "cut")
			out = b[:cut]
			mu.detail = fmt.Sprintf("%s cut at %d/%d", e.Path, cut, len(b))
		} else {
			var mm kit.Mutation
			out, mm = kit.Mutate(rt, b)
			mu.detail = fmt.Sprintf("%s %s@%d/%d", e.Path, mm.Kind, mm.Pos, len(b))
		}
		if err := os.WriteFile(p, out, 0o600); err != nil {
			rt.Fatalf("write: %v", err)
		}
	case "file-missing":
		e := rapid.SampledFrom(m.Files).Draw(rt, "file")
		if err := os.Remove(filepath.Join(root, filepath.FromSlash(e.Path))); err != nil {
			rt.Fatalf("remove: %v", err)
		}
		mu.detail = e.Path
	case "manifest-bytes":
		p := filepath.Join(root, manifestFileName)
		b, _ := os.ReadFile(p)
		out, mm := kit.Mutate(rt, b)
		if err := os.WriteFile(p, out, 0o600); err != nil {
			rt.Fatalf("write: %v", err)
		}
		mu.detail = fmt.Sprintf("%s@%d/%d", mm.Kind, mm.Pos, len(b))
		mu.detectedBy = "either"
	case "manifest-rows":
		i := rapid.IntRange(0, len(m.Files)-1).Draw(rt, "entry")
		d := rapid.SampledFrom([]int64{-1, 1, 2}).Draw(rt, "delta")
		if m.Files[i].Rows+d < 0 {
			d = 1
		}
		m.Files[i].Rows += d
		verifC11tWriteManifest(rt, root, m)
		mu.detail = fmt.Sprintf("%s rows%+d", m.Files[i].Path, d)
	case "manifest-sha":
		i := rapid.IntRange(0, len(m.Files)-1).Draw(rt, "entry")
		pos := rapid.IntRange(0, len(m.Files[i].SHA256)-1).Draw(rt, "hexPos")
		sum := []byte(m.Files[i].SHA256)
		if sum[pos] == 'a' {
			sum[pos] = 'b'
		} else {
			sum[pos] = 'a'
		}
		m.Files[i].SHA256 = string(sum)
		verifC11tWriteManifest(rt, root, m)
		mu.detail = m.Files[i].Path
	case "manifest-slot-count":
		m.HashSlotCount = int(slots) + rapid.SampledFrom([]int{1, 2, 100}).Draw(rt, "slotDelta")
		verifC11tWriteManifest(rt, root, m)
		mu.detail = fmt.Sprint(m.HashSlotCount)
	case "row-moved-same-kind":
		msgs := verifC11tMessageLines(rt, root, m)
		if len(msgs) < 2 {
			return mu, false
		}
		first, last := msgs[0], msgs[len(msgs)-1]
		src := verifC11tLines(rt, root, first.file)
		if first.file == last.file {
			verifC11tPutLines(rt, root, &m, first.file, append(append([]string(nil), src[1:]...), src[0]))
		} else {
			verifC11tPutLines(rt, root, &m, first.file, src[1:])
			verifC11tPutLines(rt, root, &m, last.file, append(verifC11tLines(rt, root, last.file), src[0]))
		}
		verifC11tWriteManifest(rt, root, m)
		mu.detail = fmt.Sprintf("first message row of %s moved to the end of %s", first.file, last.file)
	case "row-moved-other-kind":
		from := nonEmpty(nil)
		if len(from) == 0 {
			return mu, false
		}
		a := rapid.SampledFrom(from).Draw(rt, "fromFile")
		src := verifC11tLines(rt, root, a.Path)
		// the strict decoder can only refuse a row that has a field the destination
		// kind does not know (users/devices have the same fields, a subscriber row
		// is a valid membership row with zero counters: those moves yield another
		// well-formed bundle)
		var to []FileEntry
		for _, e := range m.Files {
			if e.Kind != a.Kind && !verifC11tFieldsSubset(rt, src[0], e.Kind) {
				to = append(to, e)
			}
		}
		if len(to) == 0 {
			return mu, false
		}
		b := rapid.SampledFrom(to).Draw(rt, "toFile")
		verifC11tPutLines(rt, root, &m, a.Path, src[1:])
		verifC11tPutLines(rt, root, &m, b.Path, append(verifC11tLines(rt, root, b.Path), src[0]))
		verifC11tWriteManifest(rt, root, m)
		mu.detail = fmt.Sprintf("first row of %s moved to %s", a.Path, b.Path)
	case "hash-slot-swapped":
		files := nonEmpty(isMeta)
		if len(files) == 0 {
			return mu, false
		}
		e := rapid.SampledFrom(files).Draw(rt, "file")
		lines := verifC11tLines(rt, root, e.Path)
		i := rapid.IntRange(0, len(lines)-1).Draw(rt, "row")
		lines[i] = verifC11tEditLine(rt, lines[i], func(row map[string]any) {
			old, _ := row["hash_slot"].(json.Number).Int64()
			row["hash_slot"] = (old + 1) % 65536
		})
		verifC11tPutLines(rt, root, &m, e.Path, lines)
		verifC11tWriteManifest(rt, root, m)
		mu.detail = fmt.Sprintf("%s row %d", e.Path, i)
	case "message-seq-gap", "message-row-duplicated":
		msgs := verifC11tMessageLines(rt, root, m)
		var cand []verifC11tMsgLine
		for i, ml := range msgs {
			// a gap needs a later row of the same channel behind it
			if class == "message-row-duplicated" || (i+1 < len(msgs) && msgs[i+1].key == ml.key) {
				cand = append(cand, ml)
			}
		}
		if len(cand) == 0 {
			return mu, false
		}
		c := rapid.SampledFrom(cand).Draw(rt, "messageRow")
		lines := verifC11tLines(rt, root, c.file)
		if class == "message-seq-gap" {
			lines = append(lines[:c.idx:c.idx], lines[c.idx+1:]...)
		} else {
			lines = append(lines[:c.idx+1:c.idx+1], lines[c.idx:]...)
		}
		verifC11tPutLines(rt, root, &m, c.file, lines)
		verifC11tWriteManifest(rt, root, m)
		mu.detail = fmt.Sprintf("%s row %d (%s)", c.file, c.idx, c.key)
	case "catalog-row-dropped":
		msgs := verifC11tMessageLines(rt, root, m)
		if len(msgs) == 0 {
			return mu, false
		}
		key := rapid.SampledFrom(msgs).Draw(rt, "channelOfRow").key
		for _, e := range m.Files {
			if e.Kind != FileKindMessageChannels {
				continue
			}
			var keep []string
			for _, l := range verifC11tLines(rt, root, e.Path) {
				if verifC11tField(rt, l, "channel_key") != key {
					keep = append(keep, l)
				}
			}
			verifC11tPutLines(rt, root, &m, e.Path, keep)
		}
		verifC11tWriteManifest(rt, root, m)
		mu.detail = key
	case "subscriber-rows-swapped":
		var cand []int
		var lines []string
		path := ""
		for _, e := range m.Files {
			if e.Kind == FileKindMetaSubscribers {
				path = e.Path
				lines = verifC11tLines(rt, root, e.Path)
			}
		}
		for i := 0; i+1 < len(lines); i++ {
			if lines[i] != lines[i+1] {
				cand = append(cand, i)
			}
		}
		if len(cand) == 0 {
			return mu, false
		}
		i := rapid.SampledFrom(cand).Draw(rt, "subscriberRow")
		lines[i], lines[i+1] = lines[i+1], lines[i]
		verifC11tPutLines(rt, root, &m, path, lines)
		verifC11tWriteManifest(rt, root, m)
		mu.detail = fmt.Sprintf("rows %d,%d", i, i+1)
	case "duplicate-message-id", "duplicate-idempotency-key":
		msgs := verifC11tMessageLines(rt, root, m)
		type pair struct{ from, to verifC11tMsgLine }
		var cand []pair
		for i, a := range msgs {
			for j, b := range msgs {
				if i == j {
					continue
				}
				if a.key != b.key {
					continue // the documented refusal is the per-channel unique index
				}
				if class == "duplicate-message-id" {
					cand = append(cand, pair{a, b})
				} else if verifC11tField(rt, a.line, "from_uid") != "" && verifC11tField(rt, a.line, "client_msg_no") != "" {
					cand = append(cand, pair{a, b})
				}
			}
		}
		if len(cand) == 0 {
			return mu, false
		}
		c := rapid.SampledFrom(cand).Draw(rt, "duplicatePair")
		lines := verifC11tLines(rt, root, c.to.file)
		dec := json.NewDecoder(strings.NewReader(c.from.line))
		dec.UseNumber()
		var fromRow map[string]any
		_ = dec.Decode(&fromRow)
		lines[c.to.idx] = verifC11tEditLine(rt, lines[c.to.idx], func(row map[string]any) {
			if class == "duplicate-message-id" {
				row["message_id"] = fromRow["message_id"]
			} else {
				row["from_uid"], row["client_msg_no"] = fromRow["from_uid"], fromRow["client_msg_no"]
			}
		})
		verifC11tPutLines(rt, root, &m, c.to.file, lines)
		verifC11tWriteManifest(rt, root, m)
		mu.detail = fmt.Sprintf("%s row %d takes the value of %s row %d", c.to.file, c.to.idx, c.from.file, c.from.idx)
		mu.detectedBy = "apply"
	}
	return mu, true
}

// TestVerifC11BundleRejects: one generated corruption / truncation / mismatch
// of a genuine export is refused; when the validation pass is what refuses it
// the target store stays empty.
func TestVerifC11BundleRejects(t *testing.T) {
	avoid := verifC11tAvoidFromFindings()
	kit.Check(t, "C11", func(rt *rapid.T, k *kit.Case) {
		ctx := context.Background()
		env := verifC11tNewEnv()
		defer env.close()
		p := verifC11tExportSource(rt, env, avoid, kit.Scale("C11T_META_R", 20, 40), kit.Scale("C11T_LOG_R", 5, 8))
		if p.refused {
			verifC11tRefusedCase(k, p, "reject")
			return
		}
		bad := env.newDir("mutated")
		verifC11tCopyTree(rt, p.root, bad)
		mu, ok := verifC11tMutate(rt, bad, p.src.Slots)
		if !ok {
			k.Key("reject-not-applicable", mu.class)
			k.Label("reject: class not applicable to this bundle (" + mu.class + ")")
			return
		}
		opts := ImportOptions{HashSlotCount: p.src.Slots, MessageBatchSize: rapid.SampledFrom([]int{0, 1, 2}).Draw(rt, "messageBatchSize")}
		_, verr := ValidateBundle(ctx, bad, opts)
		target, err := db.OpenNodeStore(env.storeOpts("dst"))
		if err != nil {
			rt.Fatalf("open target: %v", err)
		}
		_, ierr := ImportBundle(ctx, bad, target, opts)
		if cerr := target.Close(); cerr != nil {
			rt.Fatalf("close target after refused import: %v", cerr)
		}
		switch mu.detectedBy {
		case "validate":
			if verr == nil {
				verifC11tFail(rt, "", "ValidateBundle accepted a %s bundle (%s)", mu.class, mu.detail)
			}
			if ierr == nil {
				verifC11tFail(rt, "", "ImportBundle accepted a %s bundle (%s)", mu.class, mu.detail)
			}
		case "apply":
			if ierr == nil {
				verifC11tFail(rt, "", "ImportBundle accepted a bundle with a %s (%s): the store's unique indexes were not enforced", mu.class, mu.detail)
			}
		case "either":
			if (verr == nil) != (ierr == nil) {
				verifC11tFail(rt, "", "ValidateBundle (%v) and ImportBundle (%v) disagree on a manifest edit (%s)", verr, ierr, mu.detail)
			}
		}
		untouchedChecked := false
		if verr != nil {
			// the refusal comes from the validation pass, which precedes every write
			_, st, err := env.export("dst", p.src.Slots, ExportOptions{})
			if err != nil {
				verifC11tFail(rt, "", "export of the target after a refused import failed: %v", err)
			}
			if st.RowsExported != 0 {
				verifC11tFail(rt, "", "a bundle refused by validation (%s: %s; %v) left %d rows in the target", mu.class, mu.detail, verr, st.RowsExported)
			}
			untouchedChecked = true
		}
		k.Key("reject", fmt.Sprint(p.meta), mu.class, mu.detail, opts.MessageBatchSize)
		for _, key := range p.src.logKeys() {
			k.Key(fmt.Sprintf("%+v", *p.src.Logs[key]))
		}
		k.SetNonTrivial(p.stats.RowsExported >= 3 && (verr != nil || ierr != nil))
		k.Label("reject: " + mu.class)
		k.LabelIf(untouchedChecked, "reject: refused by validation, target verified empty")
		k.LabelIf(mu.detectedBy == "apply" && verr == nil, "reject: refused only while applying (documented non-transactional; refusal asserted, target not judged)")
		k.LabelIf(mu.detectedBy == "either" && ierr == nil, "reject: manifest byte edit yielded another valid manifest (accepted by both)")
		k.Sample(func() any {
			return fmt.Sprintf("%s (%s) validate=%v import=%v rows=%d", mu.class, mu.detail, verr != nil, ierr != nil, p.stats.RowsExported)
		})
	})
	kit.For(t, "C11").AddExtra("excluded_by_known_finding", verifC11tExcluded.Swap(0))
}

// ---- interrupted import ------------------------------------------------------------

// verifC11tCountingCtx reports cancellation from its n-th Err() call on (n<0:
// never) — a context cancelled at a generated point of the import.
type verifC11tCountingCtx struct {
	context.Context
	mu     sync.Mutex
	calls  int
	cancel int
	done   chan struct{}
	closed bool
}

func verifC11tNewCountingCtx(cancelAt int) *verifC11tCountingCtx {
	return &verifC11tCountingCtx{Context: context.Background(), cancel: cancelAt, done: make(chan struct{})}
}

func (c *verifC11tCountingCtx) Err() error {
	c.mu.Lock()
	defer c.mu.Unlock()
	c.calls++
	if c.cancel >= 0 && c.calls > c.cancel {
		if !c.closed {
			c.closed = true
			close(c.done)
		}
		return context.Canceled
	}
	return nil
}

func (c *verifC11tCountingCtx) Done() <-chan struct{} { return c.done }

// TestVerifC11BundleRetry: an import cancelled through its context at a
// generated point fails; a second --require-empty import on the same target is
// refused exactly when the first one left rows behind; the documented retry
// (discard the target, import again) yields the same state as an
// uninterrupted import.
func TestVerifC11BundleRetry(t *testing.T) {
	avoid := verifC11tAvoidFromFindings()
	kit.Check(t, "C11", func(rt *rapid.T, k *kit.Case) {
		env := verifC11tNewEnv()
		defer env.close()
		p := verifC11tExportSource(rt, env, avoid, kit.Scale("C11T_META_R", 20, 40), kit.Scale("C11T_LOG_R", 5, 8))
		if p.refused {
			verifC11tRefusedCase(k, p, "retry")
			return
		}
		opts := ImportOptions{HashSlotCount: p.src.Slots, SubscriberBatchSize: rapid.SampledFrom([]int{0, 1, 2}).Draw(rt, "subscriberBatchSize"), MessageBatchSize: rapid.SampledFrom([]int{0, 1, 2}).Draw(rt, "messageBatchSize")}

		// uninterrupted reference import, counting the context checks
		ref, err := db.OpenNodeStore(env.storeOpts("ref"))
		if err != nil {
			rt.Fatalf("open reference target: %v", err)
		}
		counter := verifC11tNewCountingCtx(-1)
		_, err = ImportBundle(counter, p.root, ref, opts)
		if cerr := ref.Close(); err != nil || cerr != nil {
			verifC11tFail(rt, verifC11tClassify(fmt.Sprint(err), p.facts, p.src), "reference import failed: %v / close: %v", err, cerr)
		}
		verifC11tCheckTarget(rt, env, p, "ref", 0)
		if counter.calls == 0 {
			rt.Fatalf("import never consulted its context")
		}

		// roughly the first half of the checks belongs to the validation pass
		cancelAt := rapid.IntRange(0, counter.calls-1).Draw(rt, "cancelAtCheck")
		if rapid.IntRange(0, 3).Draw(rt, "cancelLate") > 0 {
			cancelAt = counter.calls - 1 - rapid.IntRange(0, counter.calls/2).Draw(rt, "cancelFromEnd")
			if cancelAt < 0 {
				cancelAt = 0
			}
		}
		first, err := db.OpenNodeStore(env.storeOpts("try1"))
		if err != nil {
			rt.Fatalf("open target: %v", err)
		}
		_, ierr := ImportBundle(verifC11tNewCountingCtx(cancelAt), p.root, first, opts)
		if ierr == nil {
			_ = first.Close()
			verifC11tFail(rt, "", "ImportBundle succeeded although its context was cancelled at check %d of %d", cancelAt, counter.calls)
		}
		if !errors.Is(ierr, context.Canceled) {
			_ = first.Close()
			verifC11tFail(rt, "", "interrupted import returned %v, want context.Canceled", ierr)
		}
		if cerr := first.Close(); cerr != nil {
			verifC11tFail(rt, "", "target does not close cleanly after an interrupted import (leaked channel lease?): %v", cerr)
		}
		_, partial, err := env.export("try1", p.src.Slots, ExportOptions{})
		if err != nil {
			verifC11tFail(rt, "", "partially imported target cannot be exported: %v", err)
		}
		// the emptiness probe is slow (65535 slots x tables); judge it in a fraction of the cases
		probed := rapid.IntRange(0, kit.Scale("C11T_PROBE_1_IN", 6, 3)-1).Draw(rt, "probeRequireEmpty") == 0
		if probed {
			again, err := db.OpenNodeStore(env.storeOpts("try1"))
			if err != nil {
				rt.Fatalf("reopen target: %v", err)
			}
			strict := opts
			strict.RequireEmpty = true
			_, rerr := ImportBundle(context.Background(), p.root, again, strict)
			if cerr := again.Close(); cerr != nil {
				rt.Fatalf("close target: %v", cerr)
			}
			if partial.RowsExported > 0 {
				if rerr == nil {
					verifC11tFail(rt, "", "a --require-empty import ran on a target holding %d rows of an interrupted import", partial.RowsExported)
				}
				_, after, err := env.export("try1", p.src.Slots, ExportOptions{})
				if err != nil || after != partial {
					verifC11tFail(rt, "", "a refused --require-empty import changed the target: before %+v after %+v err=%v", partial, after, err)
				}
			} else {
				if rerr != nil {
					verifC11tFail(rt, "", "retry on a still-empty target failed: %v", rerr)
				}
				verifC11tCheckTarget(rt, env, p, "try1", 0)
			}
		}
		// the documented retry: discard the target, import again
		second, err := db.OpenNodeStore(env.storeOpts("try2"))
		if err != nil {
			rt.Fatalf("open fresh target: %v", err)
		}
		_, err = ImportBundle(context.Background(), p.root, second, opts)
		if cerr := second.Close(); err != nil || cerr != nil {
			verifC11tFail(rt, "", "retried import into a fresh target failed: %v / close: %v", err, cerr)
		}
		verifC11tCheckTarget(rt, env, p, "try2", rapid.SampledFrom([]int{0, 1, 3}).Draw(rt, "reexportPageSize"))

		k.Key("retry", fmt.Sprint(p.meta), cancelAt, counter.calls, opts.SubscriberBatchSize, opts.MessageBatchSize)
		for _, key := range p.src.logKeys() {
			k.Key(fmt.Sprintf("%+v", *p.src.Logs[key]))
		}
		k.SetNonTrivial(partial.RowsExported > 0 && partial.RowsExported < p.stats.RowsExported)
		k.LabelIf(partial.RowsExported == 0, "retry: cancelled before the first write")
		k.LabelIf(partial.RowsExported > 0 && partial.MessagesExported == 0, "retry: cancelled inside the metadata files")
		k.LabelIf(partial.MessagesExported > 0, "retry: cancelled inside the message files")
		k.LabelIf(probed && partial.RowsExported > 0, "retry: --require-empty refused the partially imported target")
		k.Sample(func() any {
			return fmt.Sprintf("cancel at ctx check %d/%d: %d of %d rows applied", cancelAt, counter.calls, partial.RowsExported, p.stats.RowsExported)
		})
	})
	kit.For(t, "C11").AddExtra("excluded_by_known_finding", verifC11tExcluded.Swap(0))
}
