package transfer

import (
	"bytes"
	"context"
	"fmt"
	"os"
	"path/filepath"
	"sort"
	"strings"

	"github.com/WuKongIM/WuKongIM/pkg/db"
	msgdb "github.com/WuKongIM/WuKongIM/pkg/db/message"
	metadb "github.com/WuKongIM/WuKongIM/pkg/db/meta"
)

// verifC11tMeta is the observable metadata content of a store restricted to
// what bundle v1 carries, obtained with typed point reads / per-channel
// subscriber listings over the case's key pools (a read path that shares
// nothing with the inspect scans the exporter uses). Values are rendered rows.
type verifC11tMeta map[string]string

func verifC11tReadMeta(ctx context.Context, meta *metadb.MetaDB, src *verifC11tSource) (verifC11tMeta, map[string]int, error) {
	out := verifC11tMeta{}
	counts := map[string]int{}
	p := src.Pools
	put := func(table, key string, v any) {
		out[table+"|"+key] = fmt.Sprintf("%+v", v)
		counts[table]++
	}
	for _, u := range p.uids {
		sh := meta.HashSlot(verifC11tSlot(u, src.Slots))
		if user, ok, err := sh.GetUser(ctx, u); err != nil {
			return nil, nil, err
		} else if ok {
			put("user", u, user)
		}
		for f := int64(0); f <= 2; f++ {
			if d, ok, err := sh.GetDevice(ctx, u, f); err != nil {
				return nil, nil, err
			} else if ok {
				put("device", fmt.Sprintf("%s|%d", u, f), d)
			}
		}
		for _, c := range p.chans {
			for _, t := range p.mtypes {
				if m, ok, err := sh.GetUserChannelMembership(ctx, u, c, t); err != nil {
					return nil, nil, err
				} else if ok {
					put("membership", fmt.Sprintf("%s|%s|%d", u, c, t), m)
				}
				if m, ok, err := sh.GetUserCMDChannelMembership(ctx, u, c+"____cmd", t); err != nil {
					return nil, nil, err
				} else if ok {
					put("cmd", fmt.Sprintf("%s|%s|%d", u, c, t), m)
				}
			}
		}
	}
	for _, c := range p.chans {
		sh := meta.HashSlot(verifC11tSlot(c, src.Slots))
		for _, t := range p.mtypes {
			if ch, ok, err := sh.GetChannel(ctx, c, t); err != nil {
				return nil, nil, err
			} else if ok {
				put("channel", fmt.Sprintf("%s|%d", c, t), ch)
			}
			subs, err := sh.SnapshotSubscribers(ctx, c, t)
			if err != nil {
				return nil, nil, err
			}
			for _, u := range subs {
				put("subscriber", fmt.Sprintf("%s|%d|%s", c, t, u), true)
			}
			if l, ok, err := sh.GetChannelLatest(ctx, c, t); err != nil {
				return nil, nil, err
			} else if ok {
				if l.Payload == nil {
					l.Payload = []byte{}
				}
				put("latest", fmt.Sprintf("%s|%d", c, t), l)
			}
		}
		if task, ok, err := sh.GetPersonDirectoryTask(ctx, c, 1); err != nil {
			return nil, nil, err
		} else if ok {
			put("task", c, task)
		}
	}
	return out, counts, nil
}

func verifC11tDiffMeta(want, got verifC11tMeta) string {
	var diffs []string
	for k, w := range want {
		if g, ok := got[k]; !ok {
			diffs = append(diffs, "missing "+k+" = "+w)
		} else if g != w {
			diffs = append(diffs, "differs "+k+": source "+w+" target "+g)
		}
	}
	for k, g := range got {
		if _, ok := want[k]; !ok {
			diffs = append(diffs, "extra "+k+" = "+g)
		}
	}
	sort.Strings(diffs)
	if len(diffs) > 8 {
		diffs = append(diffs[:8], fmt.Sprintf("... %d more", len(diffs)-8))
	}
	return strings.Join(diffs, "\n  ")
}

// verifC11tFacts are the order-relevant facts of a source, measured on its
// read-back content.
type verifC11tFacts struct {
	sameIDTwoTypes  bool // a channel id present under >=2 channel types (channel rows or subscriber groups)
	mixedUIDLen     bool // one channel's subscribers have UIDs of different byte lengths
	mixedChanLen    bool // subscriber groups of one hash slot have channel ids of different lengths
	mixedKeyLen     bool // message channel keys of different lengths
	subscriberRows  int
	subscriberGroup int
}

func verifC11tMeasure(m verifC11tMeta, src *verifC11tSource) verifC11tFacts {
	var f verifC11tFacts
	typesOf := map[string]map[string]bool{}
	uidLens := map[string]map[int]bool{}
	chanLens := map[uint16]map[int]bool{}
	for k := range m {
		parts := strings.Split(k, "|")
		switch parts[0] {
		case "channel":
			if typesOf[parts[1]] == nil {
				typesOf[parts[1]] = map[string]bool{}
			}
			typesOf[parts[1]][parts[2]] = true
		case "subscriber":
			f.subscriberRows++
			if typesOf[parts[1]] == nil {
				typesOf[parts[1]] = map[string]bool{}
			}
			typesOf[parts[1]][parts[2]] = true
			g := parts[1] + "|" + parts[2]
			if uidLens[g] == nil {
				uidLens[g] = map[int]bool{}
			}
			uidLens[g][len(parts[3])] = true
			s := verifC11tSlot(parts[1], src.Slots)
			if chanLens[s] == nil {
				chanLens[s] = map[int]bool{}
			}
			chanLens[s][len(parts[1])] = true
		}
	}
	for _, ts := range typesOf {
		if len(ts) >= 2 {
			f.sameIDTwoTypes = true
		}
	}
	f.subscriberGroup = len(uidLens)
	for _, ls := range uidLens {
		if len(ls) >= 2 {
			f.mixedUIDLen = true
		}
	}
	for _, ls := range chanLens {
		if len(ls) >= 2 {
			f.mixedChanLen = true
		}
	}
	keyLens := map[int]bool{}
	for k := range src.Logs {
		keyLens[len(k)] = true
	}
	f.mixedKeyLen = len(keyLens) >= 2
	return f
}

// verifC11tCheckMessages compares the target's message domain with the model
// through the typed channel-log API: every exported row with its identity and
// idempotency data, log end exactly at the exported end, no other channel.
func verifC11tCheckMessages(ctx context.Context, store *db.NodeStore, src *verifC11tSource) error {
	entries, err := store.Messages().ListChannels(ctx)
	if err != nil {
		return fmt.Errorf("target ListChannels: %w", err)
	}
	have := map[string]msgdb.ChannelID{}
	for _, e := range entries {
		have[string(e.Key)] = e.ID
	}
	for _, key := range src.logKeys() {
		l := src.Logs[key]
		id, ok := have[key]
		if !ok {
			return fmt.Errorf("message channel %q (%d retained rows) is missing from the target", key, len(l.Rows)-int(l.Trim))
		}
		if id != l.ID {
			return fmt.Errorf("message channel %q: target identity %+v, source %+v", key, id, l.ID)
		}
		delete(have, key)
		log, err := store.Messages().Channel(msgdb.ChannelKey(key), l.ID)
		if err != nil {
			return fmt.Errorf("target Channel(%q): %w", key, err)
		}
		cerr := func() error {
			leo, err := log.LEO(ctx)
			if err != nil {
				return err
			}
			if leo != uint64(len(l.Rows)) {
				return fmt.Errorf("log end %d, exported end %d", leo, len(l.Rows))
			}
			rows, err := log.Read(ctx, 1, msgdb.ReadOptions{})
			if err != nil {
				return fmt.Errorf("Read: %w", err)
			}
			if len(rows) != len(l.Rows)-int(l.Trim) {
				return fmt.Errorf("%d rows, exported %d", len(rows), len(l.Rows)-int(l.Trim))
			}
			for i, got := range rows {
				seq := l.Trim + uint64(i) + 1
				want := l.Rows[seq-1]
				if got.MessageSeq != seq || got.MessageID != want.ID || got.ClientMsgNo != want.ClientMsgNo || got.FromUID != want.FromUID ||
					got.ServerTimestampMS != want.TS || !bytes.Equal(got.Payload, want.Payload) || got.ChannelID != l.ID.ID || got.ChannelType != l.ID.Type {
					return fmt.Errorf("row %d: target %+v, source %+v", seq, got, want)
				}
				byID, ok, err := log.GetByMessageID(ctx, want.ID)
				if err != nil || !ok || byID.MessageSeq != seq {
					return fmt.Errorf("GetByMessageID(%d) = seq %d ok=%v err=%v, want seq %d", want.ID, byID.MessageSeq, ok, err, seq)
				}
				if want.FromUID != "" && want.ClientMsgNo != "" {
					hit, ok, err := log.LookupIdempotency(ctx, msgdb.IdempotencyKey{FromUID: want.FromUID, ClientMsgNo: want.ClientMsgNo})
					if err != nil || !ok || hit.MessageSeq != seq || hit.MessageID != want.ID {
						return fmt.Errorf("LookupIdempotency(%q,%q) = %+v ok=%v err=%v, want seq %d id %d", want.FromUID, want.ClientMsgNo, hit, ok, err, seq, want.ID)
					}
				}
			}
			if _, ok, err := log.GetBySeq(ctx, uint64(len(l.Rows))+1); err != nil || ok {
				return fmt.Errorf("a row exists above the exported end %d (ok=%v err=%v)", len(l.Rows), ok, err)
			}
			return nil
		}()
		if err := log.Close(); err != nil && cerr == nil {
			cerr = err
		}
		if cerr != nil {
			return fmt.Errorf("message channel %q: %w", key, cerr)
		}
	}
	for key := range have {
		return fmt.Errorf("target has message channel %q that the source does not have", key)
	}
	return nil
}

// verifC11tTree reads a bundle directory into path -> bytes.
func verifC11tTree(root string) (map[string][]byte, error) {
	out := map[string][]byte{}
	err := filepath.Walk(root, func(p string, info os.FileInfo, err error) error {
		if err != nil || info.IsDir() {
			return err
		}
		rel, _ := filepath.Rel(root, p)
		b, err := os.ReadFile(p)
		out[filepath.ToSlash(rel)] = b
		return err
	})
	return out, err
}

func verifC11tDiffTrees(a, b map[string][]byte) string {
	var names []string
	for n := range a {
		names = append(names, n)
	}
	for n := range b {
		if _, ok := a[n]; !ok {
			names = append(names, n)
		}
	}
	sort.Strings(names)
	for _, n := range names {
		x, okx := a[n]
		y, oky := b[n]
		switch {
		case !okx:
			return "file " + n + " only in the re-export"
		case !oky:
			return "file " + n + " only in the first export"
		case !bytes.Equal(x, y):
			return fmt.Sprintf("file %s differs:\n--- first export\n%s--- re-export\n%s", n, verifC11tClip(x), verifC11tClip(y))
		}
	}
	return ""
}

func verifC11tClip(b []byte) string {
	if len(b) > 1500 {
		return string(b[:1500]) + "...\n"
	}
	return string(b)
}

// verifC11tClassify maps a failure of a pristine export to the signature of
// the known cause it exhibits ("" = none of them).
func verifC11tClassify(msg string, f verifC11tFacts, src *verifC11tSource) string {
	switch {
	case strings.Contains(msg, "subscriber order violation"):
		// previous=(slot,"chan",type,"uid") current=(...): same channel group => UID order
		prev, cur := verifC11tBetween(msg, "previous=(", ")"), verifC11tBetween(msg, "current=(", ")")
		if pi, ci := strings.LastIndex(prev, ","), strings.LastIndex(cur, ","); pi > 0 && ci > 0 && prev[:pi] == cur[:ci] {
			return verifC11tSigSubUID
		}
		return verifC11tSigSubChan
	case strings.Contains(msg, "message order violation"), strings.Contains(msg, "message channel order violation"):
		if f.mixedKeyLen {
			return verifC11tSigMsgChan
		}
	case strings.Contains(msg, "message sequence must be contiguous"):
		if src.SawTrim {
			return verifC11tSigRetention
		}
	}
	return ""
}

func verifC11tBetween(s, open, close string) string {
	i := strings.Index(s, open)
	if i < 0 {
		return ""
	}
	s = s[i+len(open):]
	if j := strings.Index(s, close); j >= 0 {
		return s[:j]
	}
	return s
}

// verifC11tCatalogRows counts the message-channel catalog rows of a bundle.
func verifC11tCatalogRows(root string) int {
	b, err := os.ReadFile(filepath.Join(root, "message", "channels.jsonl"))
	if err != nil {
		return -1
	}
	return bytes.Count(b, []byte("\n"))
}
