package transfer

// C11 (portable transfer bundle, cmd/wkdb export/import) — the bundle path.
//
// A generated node store (metadata tables written through the typed meta API
// into the hash slot of their owning key; message logs built with Append /
// ApplyFetch / checkpoint / suffix truncation / retention trims) is exported
// exactly the way `wkdb export` does it (read-only inspect store ->
// ExportBundle), imported the way `wkdb import --require-empty` does it
// (ValidateBundle-first ImportBundle into a fresh NodeStore) and re-exported.
// Oracles: the typed point reads of the target equal those of the source
// (every row, message identity and idempotency lookups, log end = exported
// end), the re-export is byte-identical (all data files and the manifest; the
// exporter is deterministic, no canonicalisation is needed or applied), and
// the scan page size never matters. Corrupted / truncated / mismatched bundles
// are refused with the target untouched whenever the refusal comes from the
// validation pass; an import interrupted through its context converges when
// it is retried the documented way (discard, import again).

import (
	"context"
	"fmt"
	"path/filepath"
	"sort"
	"strconv"
	"sync/atomic"

	"github.com/WuKongIM/WuKongIM/pkg/db"
	"github.com/WuKongIM/WuKongIM/pkg/db/inspect"
	"github.com/WuKongIM/WuKongIM/pkg/db/internal/engine"
	msgdb "github.com/WuKongIM/WuKongIM/pkg/db/message"
	metadb "github.com/WuKongIM/WuKongIM/pkg/db/meta"
	"github.com/WuKongIM/WuKongIM/pkg/hashslot"
	"github.com/cockroachdb/pebble/v2"
	"github.com/cockroachdb/pebble/v2/vfs"
	"pgregory.net/rapid"
	"verif.local/kit"
)

// Stable signatures of the genuine defects this check found in the bundle
// path. A violation with one of these causes is reported unless exactly that
// signature is listed in /verif/known_findings.json; when it is listed, the
// generators stop producing its trigger (counted in the evidence extra
// "excluded_by_known_finding") and TestVerifC11BundleFindings re-establishes
// it on every run.
const (
	verifC11tSigSubUID    = "transfer-export-order:subscribers-mixed-uid-length"
	verifC11tSigSubChan   = "transfer-export-order:subscribers-mixed-channel-id-length"
	verifC11tSigMsgChan   = "transfer-export-order:message-channels-mixed-key-length"
	verifC11tSigPageDrop  = "transfer-export-page:message-channel-dropped-at-page-boundary"
	verifC11tSigRetention = "transfer-bundle-retention:trimmed-prefix-not-importable"
)

var verifC11tExcluded atomic.Int64

// verifC11tAvoid says which trigger classes the generators must not produce.
type verifC11tAvoid struct {
	uidLen, chanLen, keyLen, pageDrop, retention bool
}

func verifC11tAvoidFromFindings() verifC11tAvoid {
	return verifC11tAvoid{
		uidLen:    kit.HasKnownFinding("C11", verifC11tSigSubUID),
		chanLen:   kit.HasKnownFinding("C11", verifC11tSigSubChan),
		keyLen:    kit.HasKnownFinding("C11", verifC11tSigMsgChan),
		pageDrop:  kit.HasKnownFinding("C11", verifC11tSigPageDrop),
		retention: kit.HasKnownFinding("C11", verifC11tSigRetention),
	}
}

type verifC11tQuietLogger struct{}

func (verifC11tQuietLogger) Infof(string, ...interface{})  {}
func (verifC11tQuietLogger) Errorf(string, ...interface{}) {}
func (verifC11tQuietLogger) Fatalf(f string, a ...interface{}) {
	panic("pebble fatal: " + fmt.Sprintf(f, a...))
}

// verifC11tEnv is the per-case environment: every Pebble store of the case
// lives in one in-memory FS (the read-only inspect store reopens the same
// files); bundles are real directories under the driver's scratch dir.
type verifC11tEnv struct {
	dir     string
	cleanup func()
	n       int
}

func verifC11tNewEnv() *verifC11tEnv {
	mem := vfs.NewMem()
	engine.VerifPebbleOptions = func(o *pebble.Options) {
		o.FS = mem
		o.Logger = verifC11tQuietLogger{}
		// a case opens ~10 stores; the production memtable arena (allocated and
		// zeroed at every open) would dominate the run time
		o.MemTableSize = 1 << 20
	}
	dir, cleanup := kit.TempDir()
	return &verifC11tEnv{dir: dir, cleanup: cleanup}
}

func (e *verifC11tEnv) close() {
	engine.VerifPebbleOptions = nil
	e.cleanup()
}

func (e *verifC11tEnv) storeOpts(name string) db.NodeStoreOptions {
	return db.DefaultNodeStoreOptions("/" + name)
}

func (e *verifC11tEnv) newDir(tag string) string {
	e.n++
	return filepath.Join(e.dir, fmt.Sprintf("%s-%d", tag, e.n))
}

// export runs the `wkdb export` sequence against the named (closed) store.
func (e *verifC11tEnv) export(name string, slots uint16, opt ExportOptions) (string, ExportStats, error) {
	o := e.storeOpts(name)
	rs, err := inspect.OpenStore(inspect.Options{MetaPath: o.MetaPath, MessagePath: o.MessagePath, HashSlotCount: slots, DefaultLimit: 100, MaxLimit: 10000})
	if err != nil {
		return "", ExportStats{}, fmt.Errorf("open inspect store: %w", err)
	}
	root := e.newDir("bundle")
	opt.HashSlotCount = slots
	st, err := ExportBundle(context.Background(), root, rs, opt)
	if cerr := rs.Close(); err == nil && cerr != nil {
		err = fmt.Errorf("close inspect store: %w", cerr)
	}
	return root, st, err
}

// ---- pools -------------------------------------------------------------------

var (
	verifC11tUIDsAny  = []string{"a", "b", "z", "Z", "0", "9", "10", "u1", "u2", "u9", "u10", "al", "bob", "alice", "bobby", "é", "日本", "a b", "q\"t", "x<y&z", "~", "u\\1"}
	verifC11tUIDsLen2 = []string{"u1", "u2", "u9", "al", "zz", "Zz", "10", "é", "a ", "<&"}
	verifC11tChansAny = []string{"g", "zz", "aaa", "g1", "g2", "g10", "G1", "grp", "a@b", "bob@al", "群", "c d", "x\"y"}
	verifC11tChansLen = []string{"aaa", "grp", "a@b", "群", "g10", "zzz", "G 1"}
)

type verifC11tPools struct {
	uids   []string
	chans  []string
	mtypes []int64 // metadata channel types
	ktypes []uint8 // message channel types
}

func verifC11tSubset(rt *rapid.T, pool []string, lo, hi int, label string) []string {
	n := rapid.IntRange(lo, hi).Draw(rt, label+"N")
	if n > len(pool) {
		n = len(pool)
	}
	perm := rapid.Permutation(pool).Draw(rt, label)
	out := append([]string(nil), perm[:n]...)
	return out
}

func verifC11tDrawPools(rt *rapid.T, avoid verifC11tAvoid) verifC11tPools {
	p := verifC11tPools{mtypes: []int64{1, 2, 3}, ktypes: []uint8{1, 2, 11}}
	if avoid.uidLen {
		verifC11tExcluded.Add(1)
		p.uids = verifC11tSubset(rt, verifC11tUIDsLen2, 3, 7, "uids")
	} else {
		p.uids = verifC11tSubset(rt, verifC11tUIDsAny, 3, 8, "uids")
	}
	if avoid.chanLen || avoid.keyLen {
		verifC11tExcluded.Add(1)
		p.chans = verifC11tSubset(rt, verifC11tChansLen, 2, 5, "chans")
		p.ktypes = []uint8{1, 2}
	} else {
		p.chans = verifC11tSubset(rt, verifC11tChansAny, 2, 5, "chans")
	}
	return p
}

// ---- source model --------------------------------------------------------------

type verifC11tMsg struct {
	ID          uint64
	ClientMsgNo string
	FromUID     string
	Payload     []byte
	TS          int64
}

type verifC11tLog struct {
	Key  string
	ID   msgdb.ChannelID
	Rows []verifC11tMsg // Rows[i] has sequence i+1; rows at or below Trim are physically gone
	Trim uint64
	HW   uint64
}

type verifC11tSource struct {
	Slots uint16
	Pools verifC11tPools
	Logs  map[string]*verifC11tLog
	// facts measured while generating
	MetaWrites     int
	SawUncommitted bool
	SawTrim        bool
	SawTruncate    bool
	Ops            []string
}

func (s *verifC11tSource) logKeys() []string {
	keys := make([]string, 0, len(s.Logs))
	for k := range s.Logs {
		keys = append(keys, k)
	}
	sort.Strings(keys)
	return keys
}

func (s *verifC11tSource) messageCount() (n int) {
	for _, l := range s.Logs {
		n += len(l.Rows) - int(l.Trim)
	}
	return n
}

func verifC11tSlot(key string, slots uint16) uint16 { return hashslot.HashSlotForKey(key, slots) }

func verifC11tMsgKey(id msgdb.ChannelID) string {
	return strconv.Itoa(int(id.Type)) + ":" + id.ID
}

// verifC11tBuildSource fills the store "src" with generated content through
// the typed APIs real writers use and returns the message-log model. Metadata
// is not modelled: it is read back with typed point reads (verifC11tReadMeta).
func verifC11tBuildSource(rt *rapid.T, env *verifC11tEnv, avoid verifC11tAvoid, maxMetaOps, maxMsgOps int) *verifC11tSource {
	ctx := context.Background()
	src := &verifC11tSource{Logs: map[string]*verifC11tLog{}}
	src.Slots = rapid.SampledFrom([]uint16{1, 2, 4, 16}).Draw(rt, "hashSlotCount")
	src.Pools = verifC11tDrawPools(rt, avoid)
	store, err := db.OpenNodeStore(env.storeOpts("src"))
	if err != nil {
		rt.Fatalf("open source store: %v", err)
	}
	defer func() {
		if !store.Closed() {
			_ = store.Close()
		}
	}()
	verifC11tGenMeta(rt, ctx, store.Meta(), src, maxMetaOps)
	verifC11tGenMessages(rt, ctx, store.Messages(), src, avoid, maxMsgOps)
	if err := store.Close(); err != nil {
		rt.Fatalf("close source store: %v", err)
	}
	return src
}

func verifC11tGenMeta(rt *rapid.T, ctx context.Context, meta *metadb.MetaDB, src *verifC11tSource, maxOps int) {
	p := src.Pools
	uid := func() string { return rapid.SampledFrom(p.uids).Draw(rt, "uid") }
	type chanKey struct {
		id  string
		typ int64
	}
	var existing []chanKey
	chn := func() (string, int64) {
		return rapid.SampledFrom(p.chans).Draw(rt, "channel"), rapid.SampledFrom([]int64{1, 2, 2, 3}).Draw(rt, "channelType")
	}
	// subscriber operations mostly address channels that exist (AddSubscribers
	// refuses unknown channels)
	known := func() (string, int64) {
		if len(existing) == 0 || rapid.IntRange(0, 9).Draw(rt, "unknownChannel") == 0 {
			return chn()
		}
		c := rapid.SampledFrom(existing).Draw(rt, "existingChannel")
		return c.id, c.typ
	}
	u64 := func(label string) uint64 {
		return rapid.SampledFrom([]uint64{0, 1, 2, 7, 1 << 53, 1<<63 + 5, ^uint64(0)}).Draw(rt, label)
	}
	i64 := func(label string) int64 { return int64(rapid.IntRange(0, 5000).Draw(rt, label)) }
	flag := func(label string) int64 { return int64(rapid.IntRange(0, 1).Draw(rt, label)) }
	kinds := []string{"user", "device", "channel", "channel", "channel", "subscribe", "subscribe", "subscribe", "subscribe", "unsubscribe", "membership", "cmd", "latest", "task", "taskDone", "deleteUser", "deleteChannel"}
	n := rapid.IntRange(maxOps/3, maxOps).Draw(rt, "metaOps")
	for i := 0; i < n; i++ {
		kind := rapid.SampledFrom(kinds).Draw(rt, "metaOp")
		var err error
		switch kind {
		case "user":
			u := uid()
			err = meta.HashSlot(verifC11tSlot(u, src.Slots)).UpsertUser(ctx, metadb.User{UID: u, Token: rapid.StringMatching(`[a-zA-Z0-9"<& ]{0,10}`).Draw(rt, "token"), DeviceFlag: int64(rapid.IntRange(0, 2).Draw(rt, "deviceFlag")), DeviceLevel: flag("deviceLevel")})
		case "device":
			u := uid()
			err = meta.HashSlot(verifC11tSlot(u, src.Slots)).UpsertDevice(ctx, metadb.Device{UID: u, DeviceFlag: int64(rapid.IntRange(0, 2).Draw(rt, "deviceFlag")), Token: rapid.StringMatching(`[a-z0-9]{0,8}`).Draw(rt, "token"), DeviceLevel: flag("deviceLevel")})
		case "channel":
			id, typ := chn()
			sh := meta.HashSlot(verifC11tSlot(id, src.Slots))
			c := metadb.Channel{ChannelID: id, ChannelType: typ, Ban: flag("ban"), Disband: flag("disband"), SendBan: flag("sendBan"), AllowStranger: flag("stranger"), Large: flag("large"), SubscriberMutationVersion: u64("mutationVersion")}
			if old, ok, gerr := sh.GetChannel(ctx, id, typ); gerr == nil && ok {
				// a business update keeps the storage-owned columns, as the real update paths do
				c.SubscriberCount = old.SubscriberCount
				c.DirectoryProjectionState = old.DirectoryProjectionState
				c.DirectoryProjectionGeneration = old.DirectoryProjectionGeneration
				if c.SubscriberMutationVersion < old.SubscriberMutationVersion {
					c.SubscriberMutationVersion = old.SubscriberMutationVersion
				}
			}
			if err = sh.UpsertChannel(ctx, c); err == nil {
				existing = append(existing, chanKey{id, typ})
			}
		case "subscribe", "unsubscribe":
			id, typ := known()
			sh := meta.HashSlot(verifC11tSlot(id, src.Slots))
			var uids []string
			for j := rapid.IntRange(1, 5).Draw(rt, "nSubs"); j > 0; j-- {
				uids = append(uids, uid())
			}
			ver := uint64(rapid.IntRange(0, 50).Draw(rt, "subVersion"))
			if kind == "subscribe" {
				err = sh.AddSubscribers(ctx, id, typ, uids, ver)
			} else {
				err = sh.RemoveSubscribers(ctx, id, typ, uids, ver)
			}
		case "membership":
			u := uid()
			id, typ := chn()
			tomb := rapid.IntRange(0, 4).Draw(rt, "tombstone") == 0
			m := metadb.UserChannelMembership{UID: u, ChannelID: id, ChannelType: typ, JoinSeq: u64("joinSeq"), ReadSeq: u64("readSeq"), DeletedToSeq: u64("deletedToSeq"),
				ActivatedAt: i64("activatedAt"), Tombstone: tomb, SourceVersion: u64("sourceVersion"), UpdatedAt: i64("updatedAt")}
			if tomb {
				m.TombstoneAt = i64("tombstoneAt")
			}
			err = meta.HashSlot(verifC11tSlot(u, src.Slots)).UpsertUserChannelMembership(ctx, m)
		case "cmd":
			u := uid()
			id, typ := chn()
			tomb := rapid.IntRange(0, 4).Draw(rt, "tombstone") == 0
			m := metadb.UserCMDChannelMembership{UID: u, CommandChannelID: id + "____cmd", ChannelType: typ, StartSeq: u64("startSeq"), AckSeq: u64("ackSeq"), Tombstone: tomb, UpdatedAt: i64("updatedAt")}
			if tomb {
				m.TombstoneAt = i64("tombstoneAt")
			}
			err = meta.HashSlot(verifC11tSlot(u, src.Slots)).UpsertUserCMDChannelMembership(ctx, m)
		case "latest":
			id, typ := chn()
			err = meta.HashSlot(verifC11tSlot(id, src.Slots)).UpsertChannelLatest(ctx, metadb.ChannelLatest{ChannelID: id, ChannelType: typ, LastMessageID: u64("lastID"), LastMessageSeq: u64("lastSeq"), LastAt: i64("lastAt"),
				FromUID: uid(), ClientMsgNo: rapid.StringMatching(`[a-z0-9"]{0,6}`).Draw(rt, "clientMsgNo"), Payload: rapid.SliceOfN(rapid.Byte(), 0, 12).Draw(rt, "latestPayload"), UpdatedAt: i64("updatedAt")})
		case "task", "taskDone":
			id := rapid.SampledFrom(p.chans).Draw(rt, "channel")
			slot := verifC11tSlot(id, src.Slots)
			b := meta.NewBatch()
			if kind == "task" {
				err = b.EnsurePersonDirectoryTask(slot, metadb.PersonDirectoryTask{ChannelID: id, ChannelType: 1, CommittedTail: u64("committedTail"), CreatedAt: i64("createdAt"), Generation: uint64(rapid.IntRange(1, 3).Draw(rt, "generation"))})
			} else {
				task, ok, gerr := meta.HashSlot(slot).GetPersonDirectoryTask(ctx, id, 1)
				if gerr != nil || !ok {
					_ = b.Close()
					continue
				}
				err = b.CompletePersonDirectoryTask(slot, metadb.PersonDirectoryTaskLocation{HashSlot: slot, ChannelID: id, ChannelType: 1, Generation: task.Generation})
			}
			if err == nil {
				err = b.Commit(ctx)
			}
			_ = b.Close()
		case "deleteUser":
			u := uid()
			err = meta.HashSlot(verifC11tSlot(u, src.Slots)).DeleteUser(ctx, u)
		case "deleteChannel":
			id, typ := chn()
			err = meta.HashSlot(verifC11tSlot(id, src.Slots)).DeleteChannel(ctx, id, typ)
		}
		if err == nil {
			src.MetaWrites++
			src.Ops = append(src.Ops, kind)
		}
	}
}

func verifC11tGenMessages(rt *rapid.T, ctx context.Context, messages *msgdb.MessageDB, src *verifC11tSource, avoid verifC11tAvoid, maxOps int) {
	p := src.Pools
	nextID := rapid.SampledFrom([]uint64{1, 1000, 1<<53 - 2, 1<<63 - 3, ^uint64(0) - 4000}).Draw(rt, "messageIDBase")
	nextNo := 0
	record := func() (msgdb.Record, verifC11tMsg) {
		id := nextID
		nextID += uint64(rapid.IntRange(1, 3).Draw(rt, "idStride"))
		m := verifC11tMsg{ID: id, TS: int64(rapid.IntRange(1, 1<<40).Draw(rt, "ts")), Payload: rapid.SliceOfN(rapid.Byte(), 0, 24).Draw(rt, "payload")}
		switch rapid.IntRange(0, 3).Draw(rt, "idempotency") {
		case 0:
		case 1:
			m.FromUID = rapid.SampledFrom(p.uids).Draw(rt, "fromUID")
		default:
			nextNo++
			m.FromUID = rapid.SampledFrom(p.uids).Draw(rt, "fromUID")
			m.ClientMsgNo = fmt.Sprintf("c%d%s", nextNo, rapid.SampledFrom([]string{"", "\"", " x", "é"}).Draw(rt, "noSuffix"))
		}
		return msgdb.Record{ID: m.ID, ClientMsgNo: m.ClientMsgNo, FromUID: m.FromUID, Payload: m.Payload, SizeBytes: len(m.Payload), ServerTimestampMS: m.TS}, m
	}
	nChans := rapid.SampledFrom([]int{0, 1, 2, 2, 3, 3, 4}).Draw(rt, "messageChannels")
	// bundle v1 cannot carry a trimmed log (the exporter refuses it, or the
	// bundle is refused: signature verifC11tSigRetention), so only a fraction
	// of the sources use retention
	trimCase := rapid.IntRange(0, 6).Draw(rt, "retentionCase") == 0
	for c := 0; c < nChans; c++ {
		id := msgdb.ChannelID{ID: rapid.SampledFrom(p.chans).Draw(rt, "logChannel"), Type: rapid.SampledFrom(p.ktypes).Draw(rt, "logChannelType")}
		key := verifC11tMsgKey(id)
		if _, dup := src.Logs[key]; dup {
			continue
		}
		log, err := messages.Channel(msgdb.ChannelKey(key), id)
		if err != nil {
			rt.Fatalf("source Channel(%q): %v", key, err)
		}
		l := &verifC11tLog{Key: key, ID: id}
		nOps := rapid.IntRange(1, maxOps).Draw(rt, "logOps")
		for i := 0; i < nOps; i++ {
			leo := uint64(len(l.Rows))
			op := "append"
			if i > 0 {
				op = rapid.SampledFrom([]string{"append", "append", "fetch", "checkpoint", "truncate", "trim"}).Draw(rt, "logOp")
			}
			switch op {
			case "append", "fetch":
				var recs []msgdb.Record
				var ms []verifC11tMsg
				for j := rapid.IntRange(1, 4).Draw(rt, "batch"); j > 0; j-- {
					r, m := record()
					recs, ms = append(recs, r), append(ms, m)
				}
				if op == "append" {
					mode := rapid.SampledFrom([]msgdb.AppendMode{msgdb.AppendStrict, msgdb.AppendServerAllocatedMessageID}).Draw(rt, "appendMode")
					_, err = log.Append(ctx, recs, msgdb.AppendOptions{Mode: mode})
				} else {
					req := msgdb.ApplyFetchRequest{BaseSeq: leo + 1, Records: recs}
					if rapid.Bool().Draw(rt, "fetchCheckpoint") {
						hw := l.HW + uint64(rapid.IntRange(0, int(leo+uint64(len(recs))-l.HW)).Draw(rt, "fetchHW"))
						req.Checkpoint = &msgdb.Checkpoint{Epoch: 1, LogStartOffset: l.Trim, HW: hw}
						if _, err = log.ApplyFetch(ctx, req); err == nil {
							l.HW = hw
						}
					} else {
						_, err = log.ApplyFetch(ctx, req)
					}
				}
				if err != nil {
					rt.Fatalf("source %s on %q: %v", op, key, err)
				}
				l.Rows = append(l.Rows, ms...)
			case "checkpoint":
				if leo == l.HW {
					continue
				}
				hw := l.HW + uint64(rapid.IntRange(1, int(leo-l.HW)).Draw(rt, "hw"))
				if err = log.StoreCheckpoint(ctx, msgdb.Checkpoint{Epoch: 1, LogStartOffset: l.Trim, HW: hw}); err != nil {
					rt.Fatalf("source StoreCheckpoint(%q, %d): %v", key, hw, err)
				}
				l.HW = hw
			case "truncate":
				// only an uncommitted suffix is ever truncated, and one retained row stays
				lo := l.HW
				if l.Trim+1 > lo {
					lo = l.Trim + 1
				}
				if lo == 0 {
					lo = 1
				}
				if leo <= lo {
					continue
				}
				from := lo + uint64(rapid.IntRange(1, int(leo-lo)).Draw(rt, "truncateFrom"))
				if err = log.TruncateFrom(ctx, from); err != nil {
					rt.Fatalf("source TruncateFrom(%q, %d): %v", key, from, err)
				}
				l.Rows = l.Rows[:from-1]
				src.SawTruncate = true
			case "trim":
				if !trimCase {
					continue
				}
				if avoid.retention {
					verifC11tExcluded.Add(1)
					continue
				}
				// retention never passes the committed watermark; keep one row
				hi := l.HW
				if hi > leo-1 {
					hi = leo - 1
				}
				if hi <= l.Trim {
					continue
				}
				through := l.Trim + uint64(rapid.IntRange(1, int(hi-l.Trim)).Draw(rt, "trimThrough"))
				if _, err = log.TrimPrefixThrough(ctx, through); err != nil {
					rt.Fatalf("source TrimPrefixThrough(%q, %d): %v", key, through, err)
				}
				l.Trim = through
				src.SawTrim = true
			}
			src.Ops = append(src.Ops, "log:"+op)
		}
		if err := log.Close(); err != nil {
			rt.Fatalf("source close log %q: %v", key, err)
		}
		if uint64(len(l.Rows)) > l.HW {
			src.SawUncommitted = true
		}
		src.Logs[key] = l
	}
}
