package transfer

import (
	"context"
	"errors"
	"fmt"
	"testing"

	"github.com/WuKongIM/WuKongIM/pkg/db"
	msgdb "github.com/WuKongIM/WuKongIM/pkg/db/message"
	metadb "github.com/WuKongIM/WuKongIM/pkg/db/meta"
	"pgregory.net/rapid"
	"verif.local/kit"
)

func verifC11tFail(rt *rapid.T, sig, format string, args ...any) {
	msg := fmt.Sprintf(format, args...)
	if sig != "" {
		rt.Fatalf("VERIF-VIOLATION C11 [%s] %s", sig, msg)
	}
	rt.Fatalf("VERIF-VIOLATION C11 %s", msg)
}

type verifC11tPristine struct {
	src    *verifC11tSource
	meta   verifC11tMeta
	counts map[string]int
	facts  verifC11tFacts
	root   string
	stats  ExportStats
	expOpt ExportOptions
	// refused: the source holds a retention-trimmed log and ExportBundle refused
	// it with a typed validation error (bundle v1 carries sequences from 1 only);
	// nothing was exported, so nothing else is judged.
	refused bool
}

// verifC11tExportSource builds a source, reads its metadata back, exports it
// and requires the export to be a valid bundle with the right row counts.
func verifC11tExportSource(rt *rapid.T, env *verifC11tEnv, avoid verifC11tAvoid, maxMetaOps, maxMsgOps int) *verifC11tPristine {
	ctx := context.Background()
	p := &verifC11tPristine{}
	p.src = verifC11tBuildSource(rt, env, avoid, maxMetaOps, maxMsgOps)
	store, err := db.OpenNodeStore(env.storeOpts("src"))
	if err != nil {
		rt.Fatalf("reopen source: %v", err)
	}
	p.meta, p.counts, err = verifC11tReadMeta(ctx, store.Meta(), p.src)
	cerr := store.Close()
	if err != nil || cerr != nil {
		rt.Fatalf("read source metadata: %v / close: %v", err, cerr)
	}
	p.facts = verifC11tMeasure(p.meta, p.src)

	p.expOpt = ExportOptions{
		PageSize:        rapid.SampledFrom([]int{0, 1, 2, 3, 7}).Draw(rt, "exportPageSize"),
		MessageFileRows: rapid.SampledFrom([]int{0, 1, 2, 5}).Draw(rt, "messageFileRows"),
	}
	if avoid.pageDrop && p.expOpt.PageSize != 0 && p.facts.mixedKeyLen {
		verifC11tExcluded.Add(1)
		p.expOpt.PageSize = 0
	}
	p.root, p.stats, err = env.export("src", p.src.Slots, p.expOpt)
	if err != nil && p.src.SawTrim && errors.Is(err, ErrValidation) {
		p.refused = true
		return p
	}
	if err != nil {
		verifC11tFail(rt, verifC11tClassify(err.Error(), p.facts, p.src), "ExportBundle of a healthy store failed: %v", err)
	}
	wantRows := int64(len(p.meta) + len(p.src.Logs) + p.src.messageCount())
	if p.stats.RowsExported != wantRows || p.stats.MessagesExported != int64(p.src.messageCount()) ||
		p.stats.SubscribersExported != int64(p.counts["subscriber"]) || p.stats.ChannelsExported != int64(p.counts["channel"]) {
		sig := ""
		if p.facts.mixedKeyLen && p.expOpt.PageSize != 0 && verifC11tCatalogRows(p.root) < len(p.src.Logs) {
			sig = verifC11tSigPageDrop
		}
		verifC11tFail(rt, sig, "export stats %+v, store holds rows=%d messages=%d subscribers=%d channels=%d (page size %d)", p.stats, wantRows, p.src.messageCount(), p.counts["subscriber"], p.counts["channel"], p.expOpt.PageSize)
	}
	if _, err := ValidateBundle(ctx, p.root, ImportOptions{HashSlotCount: p.src.Slots}); err != nil {
		verifC11tFail(rt, verifC11tClassify(err.Error(), p.facts, p.src), "a genuine export does not pass ValidateBundle: %v", err)
	}
	return p
}

func verifC11tImportOptions(rt *rapid.T, slots uint16) ImportOptions {
	return ImportOptions{
		HashSlotCount:       slots,
		// `wkdb import` always passes --require-empty; its emptiness probe walks all
		// 65535 possible hash slots of every table (1-2 s), so most cases skip it
		// (the target is a fresh store either way).
		RequireEmpty:        rapid.IntRange(0, kit.Scale("C11T_REQUIRE_EMPTY_1_IN", 20, 5)-1).Draw(rt, "requireEmpty") == 0,
		SubscriberBatchSize: rapid.SampledFrom([]int{0, 1, 2, 3}).Draw(rt, "subscriberBatchSize"),
		MessageBatchSize:    rapid.SampledFrom([]int{0, 1, 2, 5}).Draw(rt, "messageBatchSize"),
		MessageBatchBytes:   rapid.SampledFrom([]int{0, 1, 16}).Draw(rt, "messageBatchBytes"),
	}
}

// verifC11tCheckTarget judges a target store (closed, named name) against the
// pristine export: typed reads equal, re-export byte-identical.
func verifC11tCheckTarget(rt *rapid.T, env *verifC11tEnv, p *verifC11tPristine, name string, reexportPage int) {
	ctx := context.Background()
	store, err := db.OpenNodeStore(env.storeOpts(name))
	if err != nil {
		rt.Fatalf("reopen target: %v", err)
	}
	got, _, err := verifC11tReadMeta(ctx, store.Meta(), p.src)
	if err != nil {
		_ = store.Close()
		rt.Fatalf("read target metadata: %v", err)
	}
	merr := verifC11tCheckMessages(ctx, store, p.src)
	if cerr := store.Close(); cerr != nil {
		rt.Fatalf("close target: %v", cerr)
	}
	if d := verifC11tDiffMeta(p.meta, got); d != "" {
		verifC11tFail(rt, "", "restored metadata differs from the source:\n  %s", d)
	}
	if merr != nil {
		verifC11tFail(rt, verifC11tClassify(merr.Error(), p.facts, p.src), "restored messages differ from the source: %v", merr)
	}
	opt := p.expOpt
	opt.PageSize = reexportPage
	root2, stats2, err := env.export(name, p.src.Slots, opt)
	if err != nil {
		verifC11tFail(rt, "", "re-export of the restored store failed: %v", err)
	}
	t1, err1 := verifC11tTree(p.root)
	t2, err2 := verifC11tTree(root2)
	if err1 != nil || err2 != nil {
		rt.Fatalf("read bundles: %v / %v", err1, err2)
	}
	if d := verifC11tDiffTrees(t1, t2); d != "" {
		sig := ""
		if p.facts.mixedKeyLen && reexportPage != 0 && verifC11tCatalogRows(root2) < verifC11tCatalogRows(p.root) {
			sig = verifC11tSigPageDrop
		}
		verifC11tFail(rt, sig, "re-export (page size %d) is not identical to the export (page size %d): %s", reexportPage, p.expOpt.PageSize, d)
	}
	if stats2 != p.stats {
		verifC11tFail(rt, "", "re-export stats %+v, export stats %+v", stats2, p.stats)
	}
}

// verifC11tRefusedCase records a case whose export was refused (see refused).
func verifC11tRefusedCase(k *kit.Case, p *verifC11tPristine, test string) {
	k.Key(test+"-export-refused", fmt.Sprint(p.meta))
	for _, key := range p.src.logKeys() {
		k.Key(fmt.Sprintf("%+v", *p.src.Logs[key]))
	}
	k.Label("bundle: source has a retention-trimmed prefix: ExportBundle refuses it (bundle v1 carries sequences from 1 only)")
}

// TestVerifC11BundleRoundTrip: export -> import into a fresh store -> typed
// reads equal and re-export byte-identical.
func TestVerifC11BundleRoundTrip(t *testing.T) {
	avoid := verifC11tAvoidFromFindings()
	kit.Check(t, "C11", func(rt *rapid.T, k *kit.Case) {
		ctx := context.Background()
		env := verifC11tNewEnv()
		defer env.close()
		p := verifC11tExportSource(rt, env, avoid, kit.Scale("C11T_META", 30, 60), kit.Scale("C11T_LOG", 7, 12))
		if p.refused {
			verifC11tRefusedCase(k, p, "roundtrip")
			return
		}

		imp := verifC11tImportOptions(rt, p.src.Slots)
		target, err := db.OpenNodeStore(env.storeOpts("dst"))
		if err != nil {
			rt.Fatalf("open target: %v", err)
		}
		ist, err := ImportBundle(ctx, p.root, target, imp)
		cerr := target.Close()
		if err != nil {
			verifC11tFail(rt, verifC11tClassify(err.Error(), p.facts, p.src), "ImportBundle of a genuine export into a fresh store failed: %v", err)
		}
		if cerr != nil {
			rt.Fatalf("close target: %v", cerr)
		}
		if ist.RowsWritten != p.stats.RowsExported-int64(len(p.src.Logs)) || ist.MessagesImported != p.stats.MessagesExported ||
			ist.SubscribersImported != p.stats.SubscribersExported || ist.ChannelsImported != p.stats.ChannelsExported || ist.RowsValidated != p.stats.RowsExported {
			verifC11tFail(rt, "", "import stats %+v do not match export stats %+v (%d catalog rows)", ist, p.stats, len(p.src.Logs))
		}
		reexportPage := rapid.SampledFrom([]int{0, 1, 2, 5}).Draw(rt, "reexportPageSize")
		if avoid.pageDrop && p.facts.mixedKeyLen {
			reexportPage = 0
		}
		verifC11tCheckTarget(rt, env, p, "dst", reexportPage)

		f := p.facts
		k.Key("roundtrip", p.src.Slots, fmt.Sprint(p.meta), p.expOpt.PageSize, p.expOpt.MessageFileRows, imp.SubscriberBatchSize, imp.MessageBatchSize, imp.MessageBatchBytes, reexportPage)
		for _, key := range p.src.logKeys() {
			k.Key(fmt.Sprintf("%+v", *p.src.Logs[key]))
		}
		k.SetNonTrivial((f.sameIDTwoTypes || f.mixedUIDLen) && p.src.messageCount() >= 1)
		k.LabelIf(f.sameIDTwoTypes, "bundle: one channel id under >=2 channel types")
		k.LabelIf(f.mixedUIDLen, "bundle: subscribers of one channel with UIDs of different lengths")
		k.LabelIf(f.mixedChanLen, "bundle: subscriber groups with channel ids of different lengths in one hash slot")
		k.LabelIf(f.mixedKeyLen, "bundle: message channel keys of different lengths")
		k.LabelIf(f.subscriberGroup >= 2, "bundle: >=2 subscriber groups")
		k.LabelIf(p.counts["task"] > 0, "bundle: person-directory task rows")
		k.LabelIf(p.counts["membership"] > 0 || p.counts["cmd"] > 0, "bundle: membership rows")
		k.LabelIf(p.counts["latest"] > 0, "bundle: channel-latest rows")
		k.LabelIf(len(p.src.Logs) >= 2, "bundle: >=2 message channels")
		k.LabelIf(p.src.messageCount() == 0, "bundle: no message rows")
		k.LabelIf(p.src.SawUncommitted, "bundle: source log had rows above its checkpoint (bundle v1 has no watermark: the cut is the log end)")
		k.LabelIf(p.src.SawTruncate, "bundle: source truncated an uncommitted suffix")
		k.LabelIf(p.src.SawTrim, "bundle: source has a retention-trimmed prefix")
		k.LabelIf(p.expOpt.PageSize != 0 && p.expOpt.PageSize <= 2, "bundle: export scan page size 1-2")
		k.LabelIf(p.stats.FilesWritten > 10, "bundle: >1 message file")
		k.LabelIf(imp.RequireEmpty, "import with RequireEmpty (the wkdb import mode)")
		k.Sample(func() any {
			return fmt.Sprintf("slots=%d meta=%v logs=%d messages=%d page=%d fileRows=%d import=%+v facts=%+v", p.src.Slots, p.counts, len(p.src.Logs), p.src.messageCount(), p.expOpt.PageSize, p.expOpt.MessageFileRows, imp, f)
		})
	})
	kit.For(t, "C11").AddExtra("excluded_by_known_finding", verifC11tExcluded.Swap(0))
}

// TestVerifC11BundleFindings re-establishes each recorded defect of the bundle
// path with its minimal reproduction: a reproduced defect is a violation
// unless exactly its signature is listed in known_findings.json.
func TestVerifC11BundleFindings(t *testing.T) {
	ctx := context.Background()
	col := kit.For(t, "C11")
	const slots = 4
	sameSlot := func(a string, length int) string {
		want := verifC11tSlot(a, slots)
		for i := 0; ; i++ {
			c := fmt.Sprintf("%c%c%c%c", 'a'+i%26, 'a'+(i/26)%26, 'a'+(i/676)%26, 'a'+(i/17576)%26)[:length]
			if verifC11tSlot(c, slots) == want {
				return c
			}
		}
	}
	appendN := func(s *db.NodeStore, id msgdb.ChannelID, n int, base uint64) error {
		log, err := s.Messages().Channel(msgdb.ChannelKey(verifC11tMsgKey(id)), id)
		if err != nil {
			return err
		}
		defer log.Close()
		var recs []msgdb.Record
		for i := 0; i < n; i++ {
			recs = append(recs, msgdb.Record{ID: base + uint64(i), Payload: []byte("x"), ServerTimestampMS: 1})
		}
		_, err = log.Append(ctx, recs, msgdb.AppendOptions{})
		return err
	}
	subscribe := func(s *db.NodeStore, id string, uids ...string) error {
		sh := s.Meta().HashSlot(verifC11tSlot(id, slots))
		if err := sh.UpsertChannel(ctx, metadb.Channel{ChannelID: id, ChannelType: 2}); err != nil {
			return err
		}
		return sh.AddSubscribers(ctx, id, 2, uids, 0)
	}
	probes := []struct {
		sig, what string
		page      int
		fill      func(s *db.NodeStore) error
		// lost reports the defect from the export result
		wantMsgChannels int
	}{
		{sig: verifC11tSigSubUID, what: `channel ("g1",2) with subscribers "bob" and "alice": ExportBundle writes them in storage order (length-prefixed key: bob, alice) and ValidateBundle refuses the genuine export ("subscriber order violation")`,
			fill: func(s *db.NodeStore) error { return subscribe(s, "g1", "bob", "alice") }},
		{sig: verifC11tSigSubChan, what: `channels "zz" and a 3-byte id of the same hash slot, one subscriber each: exported in storage order (zz first), refused by ValidateBundle ("subscriber order violation")`,
			fill: func(s *db.NodeStore) error {
				if err := subscribe(s, "zz", "u1"); err != nil {
					return err
				}
				return subscribe(s, sameSlot("zz", 3), "u1")
			}},
		{sig: verifC11tSigMsgChan, what: `message channels "2:zz" and "2:aaa": exported in catalog storage order (2:zz first), refused by ValidateBundle ("message order violation")`,
			wantMsgChannels: 2,
			fill: func(s *db.NodeStore) error {
				if err := appendN(s, msgdb.ChannelID{ID: "zz", Type: 2}, 2, 100); err != nil {
					return err
				}
				return appendN(s, msgdb.ChannelID{ID: "aaa", Type: 2}, 2, 200)
			}},
		{sig: verifC11tSigPageDrop, what: `message channels "2:b","2:zz","2:aaa" exported with --page-size 1: msgdb.InspectChannels resumes after "2:zz" and skips "2:aaa" (lexical cursor comparison on a length-ordered scan); the bundle silently lacks the channel`,
			page: 1, wantMsgChannels: 3,
			fill: func(s *db.NodeStore) error {
				for i, id := range []string{"zz", "aaa", "b"} {
					if err := appendN(s, msgdb.ChannelID{ID: id, Type: 2}, 2, uint64(100*(i+1))); err != nil {
						return err
					}
				}
				return nil
			}},
		{sig: verifC11tSigRetention, what: `message channel with a retention-trimmed prefix (rows 3..5 retained): the export starts at message_seq 3 and ValidateBundle refuses it ("message sequence must be contiguous ... want=1"); bundle v1 cannot carry a trimmed log`,
			wantMsgChannels: 1,
			fill: func(s *db.NodeStore) error {
				id := msgdb.ChannelID{ID: "zz", Type: 2}
				if err := appendN(s, id, 5, 100); err != nil {
					return err
				}
				log, err := s.Messages().Channel(msgdb.ChannelKey(verifC11tMsgKey(id)), id)
				if err != nil {
					return err
				}
				defer log.Close()
				_, err = log.TrimPrefixThrough(ctx, 2)
				return err
			}},
	}
	for _, p := range probes {
		env := verifC11tNewEnv()
		s, err := db.OpenNodeStore(env.storeOpts("src"))
		if err != nil {
			env.close()
			t.Fatalf("VERIF-MACHINERY open store: %v", err)
		}
		err = p.fill(s)
		if cerr := s.Close(); err == nil {
			err = cerr
		}
		if err != nil {
			env.close()
			t.Fatalf("VERIF-MACHINERY probe %s: %v", p.sig, err)
		}
		root, st, err := env.export("src", slots, ExportOptions{PageSize: p.page})
		defect := ""
		if err != nil && p.sig == verifC11tSigRetention && errors.Is(err, ErrValidation) {
			// the exporter refuses the trimmed log instead of writing an unimportable bundle
		} else if err != nil {
			defect = "ExportBundle: " + err.Error()
		} else if _, verr := ValidateBundle(ctx, root, ImportOptions{HashSlotCount: slots}); verr != nil {
			defect = "ValidateBundle of the genuine export: " + verr.Error()
		} else if p.wantMsgChannels > 0 {
			m, lerr := LoadManifest(root)
			if lerr != nil {
				defect = "LoadManifest: " + lerr.Error()
			}
			for _, e := range m.Files {
				if e.Kind == FileKindMessageChannels && e.Rows != int64(p.wantMsgChannels) {
					defect = fmt.Sprintf("export holds %d of %d message channels (stats %+v)", e.Rows, p.wantMsgChannels, st)
				}
			}
		}
		env.close()
		kc := col.NewCase()
		kc.Key("finding-probe", p.sig)
		if defect == "" {
			kc.Label("finding probe: not reproduced (" + p.sig + ")")
			col.Commit(kc)
			continue
		}
		if kit.KnownFinding("C11", p.sig) {
			kc.Label("known finding re-established: " + p.sig)
			col.Commit(kc)
			continue
		}
		t.Errorf("VERIF-VIOLATION C11 [%s] %s — observed: %s", p.sig, p.what, defect)
	}
}
