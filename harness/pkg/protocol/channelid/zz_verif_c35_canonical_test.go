package channelid

import (
	"fmt"
	"hash/crc32"
	"strings"
	"sync"
	"testing"

	"pgregory.net/rapid"
	"verif.local/kit"
)

// ---- CRC32 collision construction ------------------------------------------

var (
	verifC35Once      sync.Once
	verifC35RevTop    [256]byte   // index j with IEEETable[j]>>24 == top byte
	verifC35Searched  [][2]string // identifier-like colliding UID pairs found by search
	verifC35SearchErr string
)

func verifC35Init() {
	verifC35Once.Do(func() {
		for j := 0; j < 256; j++ {
			verifC35RevTop[crc32.IEEETable[j]>>24] = byte(j)
		}
		// birthday search over identifier-like UIDs (5-8 lower-case letters
		// and digits from a fixed LCG): deterministic, well under a second
		seen := make(map[uint32]string, 1<<19)
		x := uint64(0x9E3779B97F4A7C15)
		const alphabet = "abcdefghijklmnopqrstuvwxyz0123456789"
		for i := 0; i < 400000 && len(verifC35Searched) < 12; i++ {
			x = x*6364136223846793005 + 1442695040888963407
			v := x >> 11
			n := 5 + int(v%4)
			v /= 4
			buf := make([]byte, n)
			for j := range buf {
				buf[j] = alphabet[v%36]
				v /= 36
			}
			s := string(buf)
			h := crc32.ChecksumIEEE(buf)
			if o, ok := seen[h]; ok && o != s {
				verifC35Searched = append(verifC35Searched, [2]string{o, s})
			} else {
				seen[h] = s
			}
		}
		verifC35Searched = append(verifC35Searched, [2]string{"l98cu", "pvdba"}) // the repository's own fixed pair
		for _, p := range verifC35Searched {
			if p[0] == p[1] || crc32.ChecksumIEEE([]byte(p[0])) != crc32.ChecksumIEEE([]byte(p[1])) {
				verifC35SearchErr = fmt.Sprintf("harness bug: %q/%q is not a CRC collision", p[0], p[1])
			}
		}
	})
}

// verifC35Forge returns base+4 bytes whose CRC-32 (IEEE) equals want. The
// four bytes are arbitrary (binary UID); ok=false if they would contain '@'.
func verifC35Forge(base string, want uint32) (string, bool) {
	verifC35Init()
	cur := ^crc32.ChecksumIEEE([]byte(base)) // internal register after base
	w := ^want                               // internal register to reach
	var idx [4]byte
	for i := 3; i >= 0; i-- {
		j := verifC35RevTop[w>>24]
		idx[i] = j
		w = (w ^ crc32.IEEETable[j]) << 8
	}
	var out [4]byte
	r := cur
	for i := 0; i < 4; i++ {
		out[i] = byte(r) ^ idx[i]
		r = crc32.IEEETable[idx[i]] ^ (r >> 8)
	}
	s := base + string(out[:])
	if crc32.ChecksumIEEE([]byte(s)) != want {
		panic("verifC35Forge: harness bug, forged CRC mismatch")
	}
	return s, !strings.Contains(string(out[:]), "@")
}

// ---- generators -----------------------------------------------------------

// verifC35PlainUID: a UID real callers can have (non-empty, no '@').
func verifC35PlainUID() *rapid.Generator[string] {
	return rapid.Custom(func(t *rapid.T) string {
		var s string
		switch rapid.IntRange(0, 6).Draw(t, "uidKind") {
		case 0, 1:
			s = rapid.StringMatching(`[a-z0-9_\-.]{1,12}`).Draw(t, "ident")
		case 2:
			s = rapid.SampledFrom([]string{"a", "b", "ab", "ba", "aa", "u1", "u2", "u10", "_", "d", "cmd", "____cmd", "a____cmd", "____cm"}).Draw(t, "tiny")
		case 3:
			s = rapid.String().Draw(t, "utf8")
		case 4:
			s = rapid.StringMatching(`[a-z0-9_cmd]{0,8}`).Draw(t, "stem") + CommandChannelSuffix
		case 5:
			s = string(kit.Bytes(64).Draw(t, "raw"))
		default:
			s = rapid.StringMatching(`[a-z]{1,6}[_cmd]{1,4}`).Draw(t, "suffixLike")
		}
		s = strings.ReplaceAll(s, "@", "")
		if s == "" {
			s = "x"
		}
		return s
	})
}

// verifC35AnyUID: also empty and '@'-containing strings (outside the domain
// of real UIDs; only fail-closed behaviour is asserted for them).
func verifC35AnyUID() *rapid.Generator[string] {
	return rapid.Custom(func(t *rapid.T) string {
		switch rapid.IntRange(0, 9).Draw(t, "anyKind") {
		case 0:
			return ""
		case 1:
			return rapid.SampledFrom([]string{"@", "a@", "@a", "a@b", "@@", "a@b@c", "a@@b"}).Draw(t, "atTiny")
		case 2:
			base := verifC35PlainUID().Draw(t, "atBase")
			pos := rapid.IntRange(0, len(base)).Draw(t, "atPos")
			return base[:pos] + "@" + base[pos:]
		default:
			return verifC35PlainUID().Draw(t, "plain")
		}
	})
}

type verifC35Pair struct {
	a, b string
	kind string
}

func verifC35GenPair(t *rapid.T, uid *rapid.Generator[string]) verifC35Pair {
	verifC35Init()
	a := uid.Draw(t, "a")
	switch rapid.IntRange(0, 9).Draw(t, "pairKind") {
	case 0:
		return verifC35Pair{a, a, "equal"}
	case 1, 2: // forged CRC collision with an independently drawn partner stem
		stem := uid.Draw(t, "stem")
		for try := 0; try < 8; try++ {
			b, ok := verifC35Forge(stem+strings.Repeat("~", try), crc32.ChecksumIEEE([]byte(a)))
			if ok || strings.Contains(stem, "@") {
				if b == a {
					break
				}
				return verifC35Pair{a, b, "forged collision"}
			}
		}
		return verifC35Pair{a, uid.Draw(t, "bFallback"), "independent"}
	case 3:
		p := rapid.SampledFrom(verifC35Searched).Draw(t, "searched")
		if rapid.Bool().Draw(t, "flip") {
			return verifC35Pair{p[1], p[0], "searched collision"}
		}
		return verifC35Pair{p[0], p[1], "searched collision"}
	case 4: // near: one is a prefix / extension of the other
		return verifC35Pair{a, a + rapid.StringMatching(`[a-z_]{1,3}`).Draw(t, "ext"), "prefix"}
	default:
		return verifC35Pair{a, uid.Draw(t, "b"), "independent"}
	}
}

type verifC35Failer interface {
	Fatalf(format string, args ...any)
}

func verifC35Valid(uid string) bool { return uid != "" && !strings.Contains(uid, "@") }

func verifC35SamePair(l, r, a, b string) bool {
	return (l == a && r == b) || (l == b && r == a)
}

// verifC35Canonical: y is a canonical person channel id that contains sender.
func verifC35Canonical(rt verifC35Failer, what, sender, y string) {
	l, r, err := DecodePersonChannel(y)
	if err != nil {
		rt.Fatalf("%s: result %q does not decode: %v", what, y, err)
	}
	if EncodePersonChannel(l, r) != y || EncodePersonChannel(r, l) != y {
		rt.Fatalf("%s: result %q is not canonical (Encode of its users gives %q)", what, y, EncodePersonChannel(l, r))
	}
	if l != sender && r != sender {
		rt.Fatalf("%s: sender %q addressed %q which does not contain them", what, sender, y)
	}
	again, err := NormalizePersonChannel(sender, y)
	if err != nil || again != y {
		rt.Fatalf("%s: normalizing the canonical id %q again gives %q, %v", what, y, again, err)
	}
}

// verifC35CheckPair holds every assertion about one (a, b, c) triple.
func verifC35CheckPair(rt verifC35Failer, a, b, c string) (decodedOK bool) {
	id := EncodePersonChannel(a, b)
	if other := EncodePersonChannel(b, a); other != id {
		rt.Fatalf("Encode(%q,%q)=%q but Encode(%q,%q)=%q", a, b, id, b, a, other)
	}
	if id != a+"@"+b && id != b+"@"+a {
		rt.Fatalf("Encode(%q,%q)=%q is not the two users joined by the separator", a, b, id)
	}
	if EncodePersonChannel(a, b) != id {
		rt.Fatalf("Encode(%q,%q) is not deterministic", a, b)
	}
	l, r, err := DecodePersonChannel(id)
	valid := verifC35Valid(a) && verifC35Valid(b)
	if err == nil && !verifC35SamePair(l, r, a, b) {
		rt.Fatalf("Decode(Encode(%q,%q)=%q) = (%q,%q): two wrong users", a, b, id, l, r)
	}
	if !valid {
		// outside the UID domain: everything must fail closed (error, or the right answer)
		for _, s := range []string{a, b} {
			if got, nerr := NormalizePersonChannel(s, id); nerr == nil && got != id {
				rt.Fatalf("Normalize(%q, %q) = %q: neither an error nor the canonical id", s, id, got)
			}
		}
		return err == nil
	}
	if err != nil {
		rt.Fatalf("Decode(Encode(%q,%q)=%q) failed: %v", a, b, id, err)
	}
	if EncodePersonChannel(l, r) != id {
		rt.Fatalf("Encode(Decode(%q)) = %q", id, EncodePersonChannel(l, r))
	}
	// whichever user sends, by peer uid, by canonical id or by the reversed id
	reversed := r + "@" + l
	for _, in := range []struct{ sender, channel string }{{a, b}, {b, a}, {a, id}, {b, id}, {a, reversed}, {b, reversed}} {
		got, nerr := NormalizePersonChannel(in.sender, in.channel)
		if nerr != nil || got != id {
			rt.Fatalf("Normalize(%q, %q) = %q, %v; want %q (pair %q,%q)", in.sender, in.channel, got, nerr, id, a, b)
		}
	}
	verifC35Canonical(rt, "Normalize(a,b)", a, id)
	verifC35Canonical(rt, "Normalize(b,a)", b, id)
	// a third party can not address the channel
	got, nerr := NormalizePersonChannel(c, id)
	if c == a || c == b {
		if nerr != nil || got != id {
			rt.Fatalf("member %q: Normalize(%q) = %q, %v", c, id, got, nerr)
		}
	} else {
		if nerr == nil {
			rt.Fatalf("outsider %q addressed person channel %q of (%q,%q): Normalize returned %q", c, id, a, b, got)
		}
		if got2, nerr2 := NormalizePersonChannel(c, reversed); nerr2 == nil {
			rt.Fatalf("outsider %q addressed reversed person channel %q: Normalize returned %q", c, reversed, got2)
		}
	}
	return true
}

// TestVerifC35Person: person channel ids are symmetric, canonical, decodable
// and only addressable by their members.
func TestVerifC35Person(t *testing.T) {
	verifC35Init()
	if verifC35SearchErr != "" {
		t.Fatal(verifC35SearchErr)
	}
	kit.Check(t, "C35", func(rt *rapid.T, k *kit.Case) {
		inDomain := rapid.IntRange(0, 3).Draw(rt, "domain") > 0
		uid := verifC35AnyUID()
		if inDomain {
			uid = verifC35PlainUID()
		}
		p := verifC35GenPair(rt, uid)
		a, b := p.a, p.b
		var c string
		switch rapid.IntRange(0, 5).Draw(rt, "thirdKind") {
		case 0:
			c = a
		case 1:
			c = b
		case 2: // confusable outsiders
			c = rapid.SampledFrom([]string{a + "@" + b, b + "@" + a, a + "@", "@" + b, a + b, a + "x", "", "@"}).Draw(rt, "confusable")
		case 3:
			if len(a) > 1 {
				c = a[:len(a)-1]
			} else {
				c = a + a
			}
		default:
			c = uid.Draw(rt, "c")
		}
		decoded := verifC35CheckPair(rt, a, b, c)

		// arbitrary sender input: success implies a canonical id containing the sender
		sender := verifC35PlainUID().Draw(rt, "sender")
		var input string
		switch rapid.IntRange(0, 4).Draw(rt, "inputKind") {
		case 0:
			input = verifC35AnyUID().Draw(rt, "inputUID")
		case 1:
			input = sender + "@" + verifC35AnyUID().Draw(rt, "inputPeer")
		case 2:
			input = verifC35AnyUID().Draw(rt, "inputPeer") + "@" + sender
		case 3:
			input = EncodePersonChannel(a, b)
		default:
			input = verifC35AnyUID().Draw(rt, "inputL") + "@" + verifC35AnyUID().Draw(rt, "inputR")
		}
		y, nerr := NormalizePersonChannel(sender, input)
		if nerr == nil {
			verifC35Canonical(rt, fmt.Sprintf("Normalize(%q,%q)", sender, input), sender, y)
			if !strings.Contains(input, "@") && y != EncodePersonChannel(sender, input) {
				rt.Fatalf("Normalize(%q,%q)=%q, want Encode of the two users", sender, input, y)
			}
		} else if verifC35Valid(input) {
			rt.Fatalf("Normalize(%q,%q) rejected a plain peer uid: %v", sender, input, nerr)
		}
		if _, e := NormalizePersonChannel("", input); e == nil {
			rt.Fatalf("Normalize with an empty sender succeeded for %q", input)
		}
		if _, e := NormalizePersonChannel(sender, ""); e == nil {
			rt.Fatalf("Normalize with an empty channel id succeeded")
		}

		valid := verifC35Valid(a) && verifC35Valid(b)
		collision := a != b && crc32.ChecksumIEEE([]byte(a)) == crc32.ChecksumIEEE([]byte(b))
		k.Key(a, b, c, sender, input)
		k.SetNonTrivial(valid && a != b)
		k.Label("pair: " + p.kind)
		k.LabelIf(collision, "distinct UIDs with equal CRC-32")
		k.LabelIf(a == b, "equal UIDs")
		k.LabelIf(strings.Contains(a, "@") || strings.Contains(b, "@"), "a UID contains the separator")
		k.LabelIf(a == "" || b == "", "a UID is empty")
		k.LabelIf(!valid && !decoded, "out-of-domain pair failed closed")
		k.LabelIf(strings.HasSuffix(a, CommandChannelSuffix) || strings.HasSuffix(b, CommandChannelSuffix), "a UID ends with the command suffix")
		k.LabelIf(valid && c != a && c != b, "third party rejected")
		k.LabelIf(valid && (c == a || c == b), "member accepted")
		k.LabelIf(nerr == nil, "arbitrary input normalized")
		k.LabelIf(nerr != nil, "arbitrary input rejected")
		k.Sample(func() any { return fmt.Sprintf("a=%q b=%q c=%q kind=%s id=%q", a, b, c, p.kind, EncodePersonChannel(a, b)) })
	})
}

// TestVerifC35Command: the command-channel mapping is idempotent and
// reversible, also on top of person channel ids.
func TestVerifC35Command(t *testing.T) {
	kit.Check(t, "C35", func(rt *rapid.T, k *kit.Case) {
		var x string
		kind := rapid.IntRange(0, 5).Draw(rt, "xKind")
		switch kind {
		case 0:
			x = verifC35AnyUID().Draw(rt, "x")
		case 1:
			x = EncodePersonChannel(verifC35PlainUID().Draw(rt, "pa"), verifC35PlainUID().Draw(rt, "pb"))
		case 2:
			x = rapid.StringMatching(`[a-z0-9]{0,6}[_cmd]{0,9}`).Draw(rt, "suffixLike")
		case 3:
			x = rapid.StringMatching(`[a-z0-9@]{0,6}`).Draw(rt, "stem") + strings.Repeat(CommandChannelSuffix, rapid.IntRange(1, 3).Draw(rt, "reps"))
		case 4:
			x = rapid.SampledFrom([]string{"", "_", "____cm", "___cmd", "____cmd", "_____cmd", "____cmd_", "____CMD", "g1", "cmd", "dmc____"}).Draw(rt, "edge")
		default:
			x = string(kit.Bytes(48).Draw(rt, "raw"))
		}
		has := strings.HasSuffix(x, CommandChannelSuffix)
		if IsCommandChannel(x) != has {
			rt.Fatalf("IsCommandChannel(%q)=%v", x, !has)
		}
		y := ToCommandChannel(x)
		if !IsCommandChannel(y) {
			rt.Fatalf("ToCommandChannel(%q)=%q is not a command channel", x, y)
		}
		if yy := ToCommandChannel(y); yy != y {
			rt.Fatalf("ToCommandChannel not idempotent: %q -> %q -> %q", x, y, yy)
		}
		src, ok := FromCommandChannel(y)
		if !ok || src+CommandChannelSuffix != y {
			rt.Fatalf("FromCommandChannel(%q) = (%q,%v): not the source of the command id", y, src, ok)
		}
		if !has {
			if y != x+CommandChannelSuffix {
				rt.Fatalf("ToCommandChannel(%q)=%q", x, y)
			}
			if src != x {
				rt.Fatalf("FromCommandChannel(ToCommandChannel(%q)) = %q", x, src)
			}
			if s, ok := FromCommandChannel(x); ok || s != x {
				rt.Fatalf("FromCommandChannel(%q) of a non-command id = (%q,%v)", x, s, ok)
			}
		} else {
			if y != x {
				rt.Fatalf("ToCommandChannel changed the command id %q to %q", x, y)
			}
			// exactly one suffix is removed
			if s, ok := FromCommandChannel(x); !ok || s != x[:len(x)-len(CommandChannelSuffix)] {
				rt.Fatalf("FromCommandChannel(%q) = (%q,%v)", x, s, ok)
			}
		}
		// on top of a person channel: the source id still decodes to the users
		if kind == 1 && !has {
			l, r, err := DecodePersonChannel(src)
			if err != nil || EncodePersonChannel(l, r) != x {
				rt.Fatalf("person channel %q lost through the command mapping: %q %q %v", x, l, r, err)
			}
		}
		k.Key("cmd", x)
		k.SetNonTrivial(x != "")
		k.LabelIf(has, "command: input already has the suffix")
		k.LabelIf(!has, "command: plain id round-trips")
		k.LabelIf(!has && len(x) > 0 && strings.ContainsAny(x[len(x)-1:], "_cmd"), "command: plain id ends in a suffix character")
		k.LabelIf(kind == 1, "command: over a person channel id")
		k.Sample(func() any { return fmt.Sprintf("x=%q to=%q", x, y) })
	})
}

// TestVerifC35Agent: the agent channel id (anchored beside the person id) is
// an ordered uid@agent pair that decodes to its two parts.
func TestVerifC35Agent(t *testing.T) {
	kit.Check(t, "C35", func(rt *rapid.T, k *kit.Case) {
		gen := verifC35PlainUID()
		if rapid.IntRange(0, 3).Draw(rt, "domain") == 0 {
			gen = verifC35AnyUID()
		}
		u := gen.Draw(rt, "uid")
		a := gen.Draw(rt, "agent")
		id := EncodeAgentChannel(u, a)
		l, r, err := DecodeAgentChannel(id)
		if verifC35Valid(u) && verifC35Valid(a) {
			if err != nil || l != u || r != a {
				rt.Fatalf("DecodeAgentChannel(EncodeAgentChannel(%q,%q)=%q) = (%q,%q,%v)", u, a, id, l, r, err)
			}
		} else if err == nil && (l != u || r != a) {
			rt.Fatalf("DecodeAgentChannel(%q) = (%q,%q): two wrong users for (%q,%q)", id, l, r, u, a)
		}
		k.Key("agent", u, a)
		k.SetNonTrivial(verifC35Valid(u) && verifC35Valid(a) && u != a)
		k.LabelIf(err != nil, "agent: out-of-domain failed closed")
		k.LabelIf(err == nil, "agent: round trip")
		k.Sample(func() any { return fmt.Sprintf("agent uid=%q agent=%q", u, a) })
	})
}

// TestVerifC35SmallScope: every pair and every sender over all strings of
// length <= 3 over {a, b, @} plus the searched CRC collisions.
func TestVerifC35SmallScope(t *testing.T) {
	verifC35Init()
	col := kit.For(t, "C35")
	var universe []string
	var gen func(prefix string, depth int)
	gen = func(prefix string, depth int) {
		universe = append(universe, prefix)
		if depth == 0 {
			return
		}
		for _, ch := range []string{"a", "b", "@"} {
			gen(prefix+ch, depth-1)
		}
	}
	gen("", 3)
	for _, p := range verifC35Searched {
		universe = append(universe, p[0], p[1])
	}
	for _, a := range universe {
		if col.Exhausted() {
			return
		}
		for _, b := range universe {
			for _, c := range universe {
				verifC35CheckPair(t, a, b, c)
			}
			k := col.NewCase()
			k.Key("small", a, b)
			k.SetNonTrivial(verifC35Valid(a) && verifC35Valid(b) && a != b)
			k.Label("small scope: pair x every sender")
			a, b := a, b
			k.Sample(func() any { return fmt.Sprintf("small scope a=%q b=%q x %d senders", a, b, len(universe)) })
			col.Commit(k)
		}
	}
}
