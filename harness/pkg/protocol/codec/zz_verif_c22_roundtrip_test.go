package codec

import (
	"bytes"
	"encoding/json"
	"fmt"
	"math"
	"reflect"
	"testing"

	"github.com/WuKongIM/WuKongIM/pkg/protocol/frame"
	"pgregory.net/rapid"
	"verif.local/kit"
)

// Protocol limits read from the encoder/decoder:
//   - length-prefixed strings: 0..math.MaxInt16 bytes (Encoder.WriteString
//     panics above, Decoder.Binary rejects a negative int16 length);
//   - SEND payload: 0..PayloadMaxSize;
//   - frame body (remaining length): 1..MaxRemaingLength;
//   - ClientSeq is carried as uint32; MessageSeq as uint32 up to
//     LegacyMessageSeqVersion and as uint64 afterwards.
const verifC22MaxStr = math.MaxInt16

var verifC22Types = []frame.FrameType{frame.CONNECT, frame.CONNACK, frame.SEND, frame.SENDACK, frame.RECV, frame.RECVACK,
	frame.PING, frame.PONG, frame.DISCONNECT, frame.SUB, frame.SUBACK, frame.EVENT}

type verifC22Failer interface {
	Fatalf(format string, args ...any)
}

// ---- generators -----------------------------------------------------------

func verifC22Fill(t *rapid.T, n int, label string) []byte {
	if n <= 48 {
		return rapid.SliceOfN(rapid.Byte(), n, n).Draw(t, label)
	}
	seed := rapid.SliceOfN(rapid.Byte(), 1, 8).Draw(t, label+"Fill")
	b := make([]byte, n)
	for i := range b {
		b[i] = seed[i%len(seed)] + byte(i/len(seed))
	}
	return b
}

func verifC22Str(t *rapid.T, label string) string {
	switch rapid.IntRange(0, 19).Draw(t, label+"Kind") {
	case 0:
		return ""
	case 1:
		n := rapid.SampledFrom([]int{1, 127, 128, 255, 256}).Draw(t, label+"Len")
		return string(verifC22Fill(t, n, label))
	case 2:
		if rapid.IntRange(0, 3).Draw(t, label+"Big") == 0 {
			n := rapid.SampledFrom([]int{16383, 16384, verifC22MaxStr - 1, verifC22MaxStr}).Draw(t, label+"Len")
			return string(verifC22Fill(t, n, label))
		}
		return rapid.String().Draw(t, label+"UTF8")
	case 3, 4:
		return rapid.String().Draw(t, label+"UTF8")
	default:
		return rapid.StringMatching(`[a-zA-Z0-9_\-@:.]{1,24}`).Draw(t, label+"Ident")
	}
}

func verifC22Payload(t *rapid.T, max int, label string) []byte {
	switch rapid.IntRange(0, 9).Draw(t, label+"Kind") {
	case 0:
		if rapid.Bool().Draw(t, label+"Nil") {
			return nil
		}
		return []byte{}
	case 1:
		n := rapid.SampledFrom([]int{1, 127, 128, 16383, 16384, max - 1, max}).Draw(t, label+"Len")
		if n > max {
			n = max
		}
		return verifC22Fill(t, n, label)
	default:
		return verifC22Fill(t, rapid.IntRange(0, 300).Draw(t, label+"Small"), label)
	}
}

func verifC22U32(t *rapid.T, label string) uint32 {
	if rapid.Bool().Draw(t, label+"Edge") {
		return rapid.SampledFrom([]uint32{0, 1, 127, 128, 255, 256, 65535, 65536, 1<<31 - 1, 1 << 31, math.MaxUint32}).Draw(t, label+"V")
	}
	return rapid.Uint32().Draw(t, label)
}

func verifC22I64(t *rapid.T, label string) int64 {
	if rapid.Bool().Draw(t, label+"Edge") {
		return rapid.SampledFrom([]int64{0, 1, -1, 255, 256, math.MaxInt32, math.MinInt32, math.MaxUint32, math.MaxInt64, math.MinInt64}).Draw(t, label+"V")
	}
	return rapid.Int64().Draw(t, label)
}

func verifC22MessageSeq(t *rapid.T, version uint8, label string) uint64 {
	if version <= frame.LegacyMessageSeqVersion {
		return uint64(verifC22U32(t, label))
	}
	if rapid.Bool().Draw(t, label+"Wide") {
		return rapid.SampledFrom([]uint64{math.MaxUint32 + 1, 1 << 40, 1<<63 - 1, 1 << 63, math.MaxUint64}).Draw(t, label+"V")
	}
	return kit.Uint64Edge().Draw(t, label)
}

func verifC22Setting(t *rapid.T, label string) frame.Setting {
	s := frame.Setting(rapid.Byte().Draw(t, label))
	// make the two gating bits independent and evenly distributed
	s &^= frame.SettingTopic | frame.SettingStream
	if rapid.Bool().Draw(t, label+"Topic") {
		s |= frame.SettingTopic
	}
	if rapid.Bool().Draw(t, label+"Stream") {
		s |= frame.SettingStream
	}
	return s
}

func verifC22Framer(t *rapid.T) frame.Framer {
	bits := rapid.IntRange(0, 15).Draw(t, "flags")
	f := frame.Framer{NoPersist: bits&1 != 0, RedDot: bits&2 != 0, SyncOnce: bits&4 != 0, DUP: bits&8 != 0,
		HasServerVersion: rapid.Bool().Draw(t, "hasServerVersion")}
	// fields that are not part of the wire format (projected away)
	if rapid.IntRange(0, 3).Draw(t, "framerNoise") == 0 {
		f.End = rapid.Bool().Draw(t, "end")
		f.RemainingLength = rapid.Uint32().Draw(t, "remainingLengthNoise")
		f.FrameSize = rapid.Int64().Draw(t, "frameSizeNoise")
		f.FrameType = frame.FrameType(rapid.IntRange(0, 15).Draw(t, "frameTypeNoise"))
	}
	return f
}

// verifC22GenFrame draws a frame of type ft with every field set to an
// arbitrary value within protocol limits (also fields the version does not
// carry — the expectation is computed by verifC22Project).
func verifC22GenFrame(t *rapid.T, ft frame.FrameType, version uint8) frame.Frame {
	fr := verifC22Framer(t)
	switch ft {
	case frame.CONNECT:
		return &frame.ConnectPacket{Framer: fr, Version: rapid.Byte().Draw(t, "version"), ClientKey: verifC22Str(t, "clientKey"), DeviceID: verifC22Str(t, "deviceID"),
			DeviceFlag: frame.DeviceFlag(rapid.Byte().Draw(t, "deviceFlag")), ClientTimestamp: verifC22I64(t, "clientTimestamp"),
			UID: verifC22Str(t, "uid"), Token: verifC22Str(t, "token")}
	case frame.CONNACK:
		return &frame.ConnackPacket{Framer: fr, ServerVersion: rapid.Byte().Draw(t, "serverVersion"), ServerKey: verifC22Str(t, "serverKey"), Salt: verifC22Str(t, "salt"),
			TimeDiff: verifC22I64(t, "timeDiff"), ReasonCode: frame.ReasonCode(rapid.Byte().Draw(t, "reason")), NodeId: kit.Uint64Edge().Draw(t, "nodeID")}
	case frame.SEND:
		return &frame.SendPacket{Framer: fr, Setting: verifC22Setting(t, "setting"), MsgKey: verifC22Str(t, "msgKey"), Expire: verifC22U32(t, "expire"),
			ClientSeq: uint64(verifC22U32(t, "clientSeq")), ClientMsgNo: verifC22Str(t, "clientMsgNo"), StreamNo: verifC22Str(t, "streamNo"),
			ChannelID: verifC22Str(t, "channelID"), ChannelType: rapid.Byte().Draw(t, "channelType"), Topic: verifC22Str(t, "topic"),
			Payload: verifC22Payload(t, PayloadMaxSize, "payload")}
	case frame.SENDACK:
		p := &frame.SendackPacket{Framer: fr, MessageID: verifC22I64(t, "messageID"), MessageSeq: verifC22MessageSeq(t, version, "messageSeq"),
			ClientSeq: uint64(verifC22U32(t, "clientSeq")), ClientMsgNo: verifC22Str(t, "clientMsgNo"), ReasonCode: frame.ReasonCode(rapid.Byte().Draw(t, "reason"))}
		if p.ClientMsgNo != "" && rapid.IntRange(0, 2).Draw(t, "sendackConfusable") == 0 {
			// the leading two bytes of the message sequence read as the length
			// of ClientMsgNo: the body also parses in the legacy
			// "ClientMsgNo first" layout the decoder still accepts
			n := uint64(len(p.ClientMsgNo))
			low := uint64(rapid.Uint16().Draw(t, "sendackSeqLow"))
			if version <= frame.LegacyMessageSeqVersion {
				p.MessageSeq = n<<16 | low
			} else {
				p.MessageSeq = n<<48 | low
			}
		}
		return p
	case frame.RECV:
		return &frame.RecvPacket{Framer: fr, Setting: verifC22Setting(t, "setting"), MsgKey: verifC22Str(t, "msgKey"), Expire: verifC22U32(t, "expire"),
			MessageID: verifC22I64(t, "messageID"), MessageSeq: verifC22MessageSeq(t, version, "messageSeq"), ClientMsgNo: verifC22Str(t, "clientMsgNo"),
			StreamNo: verifC22Str(t, "streamNo"), StreamId: kit.Uint64Edge().Draw(t, "streamID"), StreamFlag: frame.StreamFlag(rapid.Byte().Draw(t, "streamFlag")),
			Timestamp: int32(verifC22U32(t, "timestamp")), ChannelID: verifC22Str(t, "channelID"), ChannelType: rapid.Byte().Draw(t, "channelType"),
			Topic: verifC22Str(t, "topic"), FromUID: verifC22Str(t, "fromUID"), Payload: verifC22Payload(t, 70000, "payload"),
			ClientSeq: uint64(rapid.IntRange(0, 1).Draw(t, "clientSeqNoise")) * 77}
	case frame.RECVACK:
		return &frame.RecvackPacket{Framer: fr, MessageID: verifC22I64(t, "messageID"), MessageSeq: verifC22MessageSeq(t, version, "messageSeq")}
	case frame.PING:
		return &frame.PingPacket{Framer: fr}
	case frame.PONG:
		return &frame.PongPacket{Framer: fr}
	case frame.DISCONNECT:
		return &frame.DisconnectPacket{Framer: fr, ReasonCode: frame.ReasonCode(rapid.Byte().Draw(t, "reason")), Reason: verifC22Str(t, "reasonText")}
	case frame.SUB:
		return &frame.SubPacket{Framer: fr, Setting: frame.Setting(rapid.Byte().Draw(t, "setting")), SubNo: verifC22Str(t, "subNo"), ChannelID: verifC22Str(t, "channelID"),
			ChannelType: rapid.Byte().Draw(t, "channelType"), Action: frame.Action(rapid.Byte().Draw(t, "action")), Param: verifC22Str(t, "param")}
	case frame.SUBACK:
		return &frame.SubackPacket{Framer: fr, SubNo: verifC22Str(t, "subNo"), ChannelID: verifC22Str(t, "channelID"), ChannelType: rapid.Byte().Draw(t, "channelType"),
			Action: frame.Action(rapid.Byte().Draw(t, "action")), ReasonCode: frame.ReasonCode(rapid.Byte().Draw(t, "reason"))}
	case frame.EVENT:
		return &frame.EventPacket{Framer: fr, Id: verifC22Str(t, "id"), Type: verifC22Str(t, "type"), Timestamp: verifC22I64(t, "timestamp"), Data: verifC22Payload(t, 70000, "data")}
	}
	t.Fatalf("unknown frame type %d", ft)
	return nil
}

// ---- expectation ----------------------------------------------------------

func verifC22NilIfEmpty(b []byte) []byte {
	if len(b) == 0 {
		return nil
	}
	return b
}

func verifC22StreamCarried(version uint8, s frame.Setting) bool {
	return version >= 2 && version < 5 && s.IsSet(frame.SettingStream)
}

// verifC22Project returns what the wire format of `version` carries of f: the
// frame a correct decoder must return (Framer reduced to the header flags of
// the type; fields that the version / setting bits / header flag do not
// carry are zero). gated = number of version- or flag-gated fields that are
// carried with a non-zero value.
func verifC22Project(f frame.Frame, version uint8) (out frame.Frame, gated int) {
	flags := func(fr frame.Framer, t frame.FrameType) frame.Framer {
		return frame.Framer{FrameType: t, NoPersist: fr.NoPersist, RedDot: fr.RedDot, SyncOnce: fr.SyncOnce, DUP: fr.DUP}
	}
	nz := func(b bool) {
		if b {
			gated++
		}
	}
	switch p := f.(type) {
	case *frame.ConnectPacket:
		c := *p
		c.Framer = flags(p.Framer, frame.CONNECT)
		return &c, 0
	case *frame.ConnackPacket:
		c := *p
		c.Framer = frame.Framer{FrameType: frame.CONNACK, HasServerVersion: p.HasServerVersion} // bit 0 is HasServerVersion; no other header flag
		if !p.HasServerVersion {
			c.ServerVersion = 0
		}
		if version < 4 {
			c.NodeId = 0
		}
		nz(c.ServerVersion != 0)
		nz(c.NodeId != 0)
		return &c, gated
	case *frame.SendPacket:
		c := *p
		c.Framer = flags(p.Framer, frame.SEND)
		if !verifC22StreamCarried(version, p.Setting) {
			c.StreamNo = ""
		}
		if version < 3 {
			c.Expire = 0
		}
		if !p.Setting.IsSet(frame.SettingTopic) {
			c.Topic = ""
		}
		c.Payload = verifC22NilIfEmpty(p.Payload)
		nz(c.StreamNo != "")
		nz(c.Expire != 0)
		nz(c.Topic != "")
		return &c, gated
	case *frame.SendackPacket:
		c := *p
		c.Framer = flags(p.Framer, frame.SENDACK)
		nz(c.MessageSeq != 0) // width is version-gated
		return &c, gated
	case *frame.RecvPacket:
		c := *p
		c.Framer = flags(p.Framer, frame.RECV)
		if !verifC22StreamCarried(version, p.Setting) {
			c.StreamNo, c.StreamId, c.StreamFlag = "", 0, 0
		}
		if version < 3 {
			c.Expire = 0
		}
		if !p.Setting.IsSet(frame.SettingTopic) {
			c.Topic = ""
		}
		c.ClientSeq = 0 // never on the wire
		c.Payload = verifC22NilIfEmpty(p.Payload)
		nz(c.StreamNo != "" || c.StreamId != 0 || c.StreamFlag != 0)
		nz(c.Expire != 0)
		nz(c.Topic != "")
		nz(c.MessageSeq != 0)
		return &c, gated
	case *frame.RecvackPacket:
		c := *p
		c.Framer = flags(p.Framer, frame.RECVACK)
		nz(c.MessageSeq != 0)
		return &c, gated
	case *frame.PingPacket:
		return &frame.PingPacket{Framer: frame.Framer{FrameType: frame.PING}}, 0 // the single byte carries no flags
	case *frame.PongPacket:
		return &frame.PongPacket{Framer: frame.Framer{FrameType: frame.PONG}}, 0
	case *frame.DisconnectPacket:
		c := *p
		c.Framer = flags(p.Framer, frame.DISCONNECT)
		return &c, 0
	case *frame.SubPacket:
		c := *p
		c.Framer = flags(p.Framer, frame.SUB)
		return &c, 0
	case *frame.SubackPacket:
		c := *p
		c.Framer = flags(p.Framer, frame.SUBACK)
		return &c, 0
	case *frame.EventPacket:
		c := *p
		c.Framer = flags(p.Framer, frame.EVENT)
		c.Data = verifC22NilIfEmpty(p.Data)
		return &c, 0
	}
	return nil, 0
}

// verifC22NormalizeDecoded removes what the decoder computes rather than
// reads (RemainingLength, FrameSize) and the header bits a type does not own.
func verifC22NormalizeDecoded(f frame.Frame) frame.Frame {
	clean := func(fr frame.Framer) frame.Framer {
		fr.RemainingLength, fr.FrameSize = 0, 0
		return fr
	}
	switch p := f.(type) {
	case *frame.ConnectPacket:
		c := *p
		c.Framer = clean(p.Framer)
		return &c
	case *frame.ConnackPacket:
		c := *p
		c.Framer = frame.Framer{FrameType: p.Framer.FrameType, HasServerVersion: p.Framer.HasServerVersion, End: p.Framer.End}
		return &c
	case *frame.SendPacket:
		c := *p
		c.Framer = clean(p.Framer)
		c.Payload = verifC22NilIfEmpty(p.Payload)
		return &c
	case *frame.SendackPacket:
		c := *p
		c.Framer = clean(p.Framer)
		return &c
	case *frame.RecvPacket:
		c := *p
		c.Framer = clean(p.Framer)
		c.Payload = verifC22NilIfEmpty(p.Payload)
		return &c
	case *frame.RecvackPacket:
		c := *p
		c.Framer = clean(p.Framer)
		return &c
	case *frame.PingPacket:
		return &frame.PingPacket{Framer: frame.Framer{FrameType: frame.PING}}
	case *frame.PongPacket:
		return &frame.PongPacket{Framer: frame.Framer{FrameType: frame.PONG}}
	case *frame.DisconnectPacket:
		c := *p
		c.Framer = clean(p.Framer)
		return &c
	case *frame.SubPacket:
		c := *p
		c.Framer = clean(p.Framer)
		return &c
	case *frame.SubackPacket:
		c := *p
		c.Framer = clean(p.Framer)
		return &c
	case *frame.EventPacket:
		c := *p
		c.Framer = clean(p.Framer)
		c.Data = verifC22NilIfEmpty(p.Data)
		return &c
	}
	return f
}

// verifC22PadTo grows the frame's payload (or one string field) so that the
// encoded body is exactly target bytes, if the limits allow it.
func verifC22PadTo(f frame.Frame, version uint8, target int) bool {
	body, ok := encodedFrameBodySize(f, version) // only used to aim; the body length that counts is measured on the wire
	if !ok {
		return false
	}
	grow := target - body
	pad := func(n int) []byte { return bytes.Repeat([]byte{0xA5}, n) }
	growStr := func(s *string) bool {
		n := len(*s) + grow
		if n < 0 || n > verifC22MaxStr {
			return false
		}
		*s = string(pad(n))
		return true
	}
	growBytes := func(b *[]byte, max int) bool {
		n := len(*b) + grow
		if n < 0 || n > max {
			return false
		}
		*b = pad(n)
		return true
	}
	switch p := f.(type) {
	case *frame.ConnectPacket:
		return growStr(&p.Token)
	case *frame.ConnackPacket:
		return growStr(&p.ServerKey)
	case *frame.SendPacket:
		return growBytes(&p.Payload, PayloadMaxSize)
	case *frame.SendackPacket:
		n := len(p.ClientMsgNo) + grow
		if p.ClientMsgNo == "" {
			n = grow - 2 // an empty ClientMsgNo is omitted together with its length prefix
		}
		if n < 1 || n > verifC22MaxStr {
			return false
		}
		p.ClientMsgNo = string(pad(n))
		return true
	case *frame.RecvPacket:
		return growBytes(&p.Payload, int(MaxRemaingLength))
	case *frame.DisconnectPacket:
		return growStr(&p.Reason)
	case *frame.SubPacket:
		return growStr(&p.Param)
	case *frame.SubackPacket:
		return growStr(&p.SubNo)
	case *frame.EventPacket:
		return growBytes(&p.Data, int(MaxRemaingLength))
	}
	return false
}

// ---- the oracle -----------------------------------------------------------

type verifC22Result struct {
	wire    int
	body    int
	lenLen  int
	gated   int
	decoded frame.Frame
	bytes   []byte
}

// verifC22RoundTrip encodes f at version through both encoder entry points,
// decodes through both decoder entry points (with trailing bytes appended)
// and checks equality, consumption and the precomputed size.
func verifC22RoundTrip(t verifC22Failer, f frame.Frame, version uint8, trailing []byte, cut int) verifC22Result {
	proto := New()
	want, gated := verifC22Project(f, version)
	ft := f.GetFrameType()

	wire, err := proto.EncodeFrame(f, version)
	if err != nil {
		t.Fatalf("EncodeFrame(%s, v%d) of a frame within limits failed: %v", ft, version, err)
	}
	if size := encodedFrameSize(f, version); size != len(wire) {
		t.Fatalf("%s v%d: encodedFrameSize=%d but EncodeFrame produced %d bytes", ft, version, size, len(wire))
	}
	var buf bytes.Buffer
	if err := proto.WriteFrame(&buf, f, version); err != nil || !bytes.Equal(buf.Bytes(), wire) {
		t.Fatalf("%s v%d: WriteFrame differs from EncodeFrame (err=%v, %d vs %d bytes)", ft, version, err, buf.Len(), len(wire))
	}
	if again, err := proto.EncodeFrame(f, version); err != nil || !bytes.Equal(again, wire) {
		t.Fatalf("%s v%d: encoding twice gives different bytes", ft, version)
	}

	// the frame is self-delimiting: type nibble, varint body length, body
	res := verifC22Result{wire: len(wire), gated: gated, bytes: wire}
	if frame.FrameType(wire[0]>>4) != ft {
		t.Fatalf("%s v%d: type nibble on the wire is %d", ft, version, wire[0]>>4)
	}
	if ft == frame.PING || ft == frame.PONG {
		if len(wire) != 1 {
			t.Fatalf("%s encodes to %d bytes, want 1", ft, len(wire))
		}
	} else {
		var val, shift uint32
		n := 0
		for {
			if 1+n >= len(wire) || n >= 4 {
				t.Fatalf("%s v%d: malformed remaining-length prefix % x", ft, version, wire[:min(len(wire), 6)])
			}
			d := wire[1+n]
			val |= uint32(d&0x7f) << shift
			shift += 7
			n++
			if d&0x80 == 0 {
				break
			}
		}
		if 1+n+int(val) != len(wire) {
			t.Fatalf("%s v%d: remaining length %d (+%d prefix bytes) does not match the %d encoded bytes", ft, version, val, n, len(wire))
		}
		if val == 0 || val > MaxRemaingLength {
			t.Fatalf("harness bug: body length %d outside protocol limits", val)
		}
		res.body, res.lenLen = int(val), n
	}

	input := append(append(make([]byte, 0, len(wire)+len(trailing)), wire...), trailing...)
	got, consumed, err := proto.DecodeFrame(input, version)
	if err != nil {
		t.Fatalf("DecodeFrame(%s v%d, %d bytes + %d trailing) failed: %v", ft, version, len(wire), len(trailing), err)
	}
	if got == nil {
		t.Fatalf("DecodeFrame(%s v%d, %d bytes + %d trailing) returned no frame (consumed=%d)", ft, version, len(wire), len(trailing), consumed)
	}
	if consumed != len(wire) {
		t.Fatalf("%s v%d: decoder consumed %d of %d encoded bytes (%d trailing)", ft, version, consumed, len(wire), len(trailing))
	}
	if !bytes.Equal(input[:len(wire)], wire) || !bytes.Equal(input[len(wire):], trailing) {
		t.Fatalf("%s v%d: decoder modified its input", ft, version)
	}
	if ft != frame.PING && ft != frame.PONG && int(got.GetRemainingLength()) != res.body {
		t.Fatalf("%s v%d: decoded remaining length %d, body is %d bytes", ft, version, got.GetRemainingLength(), res.body)
	}
	if got.GetFrameType() != ft {
		t.Fatalf("decoded frame type %s, want %s", got.GetFrameType(), ft)
	}
	norm := verifC22NormalizeDecoded(got)
	if !reflect.DeepEqual(norm, want) {
		t.Fatalf("%s v%d round trip mismatch (%d bytes, %d trailing):\n decoded  %s\n expected %s", ft, version, len(wire), len(trailing), verifC22Dump(norm), verifC22Dump(want))
	}
	res.decoded = got

	// the stream-reader entry point of the same codec (used by pkg/client)
	reader := bytes.NewReader(input)
	viaConn, err := proto.DecodePacketWithConn(reader, version)
	if err != nil || viaConn == nil {
		t.Fatalf("DecodePacketWithConn(%s v%d) failed: %v", ft, version, err)
	}
	if reader.Len() != len(trailing) {
		t.Fatalf("%s v%d: DecodePacketWithConn left %d unread bytes, want the %d trailing bytes", ft, version, reader.Len(), len(trailing))
	}
	if normConn := verifC22NormalizeDecoded(viaConn); !reflect.DeepEqual(normConn, want) {
		t.Fatalf("%s v%d DecodePacketWithConn mismatch:\n decoded  %s\n expected %s", ft, version, verifC22Dump(normConn), verifC22Dump(want))
	}

	// an incomplete frame is never decoded nor consumed
	if len(wire) > 1 {
		at := 1 + cut%(len(wire)-1)
		if pf, pn, perr := proto.DecodeFrame(wire[:at:at], version); pf != nil || pn != 0 || perr != nil {
			t.Fatalf("%s v%d: DecodeFrame of the first %d of %d bytes returned frame=%v consumed=%d err=%v", ft, version, at, len(wire), pf != nil, pn, perr)
		}
	}

	// re-encoding what was decoded gives the same bytes
	if re, err := proto.EncodeFrame(got, version); err != nil || !bytes.Equal(re, wire) {
		t.Fatalf("%s v%d: re-encoding the decoded frame differs (err=%v)", ft, version, err)
	}
	return res
}

func verifC22Dump(f frame.Frame) string {
	js, _ := json.Marshal(f)
	s := fmt.Sprintf("%T%s", f, js)
	if len(s) > 900 {
		s = s[:900] + "…"
	}
	return s
}

// TestVerifC22RoundTrip: generated frames of every type at every version.
func TestVerifC22RoundTrip(t *testing.T) {
	kit.Check(t, "C22", func(rt *rapid.T, k *kit.Case) {
		ft := rapid.SampledFrom(verifC22Types).Draw(rt, "type")
		version := uint8(rapid.IntRange(0, frame.LatestVersion).Draw(rt, "version"))
		f := verifC22GenFrame(rt, ft, version)
		exact := rapid.Bool().Draw(rt, "exact")
		if exact {
			// leave everything the version/flags do not carry at zero: the
			// decoded frame must then equal the original itself
			f, _ = verifC22Project(f, version)
		}
		aimed := 0
		if rapid.IntRange(0, 5).Draw(rt, "aimBody") == 0 {
			targets := []int{127, 128, 16383, 16384}
			if (ft == frame.RECV || ft == frame.EVENT) && rapid.IntRange(0, 7).Draw(rt, "aimHuge") == 0 {
				targets = []int{1<<20 - 1, 1 << 20}
			}
			target := rapid.SampledFrom(targets).Draw(rt, "bodyTarget")
			if verifC22PadTo(f, version, target) {
				aimed = target
			}
		}
		var trailing []byte
		switch rapid.IntRange(0, 3).Draw(rt, "trailingKind") {
		case 0:
		case 1:
			trailing = rapid.SliceOfN(rapid.Byte(), 1, 16).Draw(rt, "trailing")
		case 2: // looks like the start of another frame / a continued varint
			trailing = rapid.SampledFrom([][]byte{{0x70}, {0x80}, {0xff, 0xff, 0xff, 0xff, 0xff}, {0x30, 0x80}, {0x00}}).Draw(rt, "trailingEdge")
		default:
			other, err := New().EncodeFrame(&frame.RecvackPacket{MessageID: 7, MessageSeq: 9}, version)
			if err != nil {
				rt.Fatalf("harness: %v", err)
			}
			trailing = other
		}
		cut := rapid.IntRange(0, 1<<20).Draw(rt, "cut")
		res := verifC22RoundTrip(rt, f, version, trailing, cut)
		if exact {
			// exact equality with the original, Framer bookkeeping aside
			orig, _ := verifC22Project(f, version)
			if !reflect.DeepEqual(verifC22NormalizeDecoded(res.decoded), orig) {
				rt.Fatalf("exact variant: decoded frame differs from the original")
			}
		}
		if aimed != 0 && res.body != aimed {
			rt.Fatalf("harness: aimed at body %d, got %d", aimed, res.body)
		}

		k.Key(ft, version, exact, len(trailing), res.bytes)
		k.SetNonTrivial(res.gated > 0)
		k.Label("type " + ft.String())
		k.Label(fmt.Sprintf("version %d", version))
		k.LabelIf(exact, "uncarried fields left zero (exact equality)")
		k.LabelIf(!exact, "uncarried fields set (equality modulo projection)")
		k.LabelIf(res.gated > 0, "a version/flag-gated field is carried non-zero")
		k.LabelIf(len(trailing) > 0, "trailing bytes appended")
		k.LabelIf(res.lenLen == 1, "body length prefix 1 byte")
		k.LabelIf(res.lenLen == 2, "body length prefix 2 bytes")
		k.LabelIf(res.lenLen == 3, "body length prefix 3 bytes")
		k.LabelIf(res.body == 127 || res.body == 128 || res.body == 16383 || res.body == 16384, "body exactly at a varint boundary")
		k.LabelIf(res.body >= 1<<20-1, "body at the 1 MiB limit")
		k.Sample(func() any { return fmt.Sprintf("v%d %s wire=%dB gated=%d %s", version, ft, res.wire, res.gated, verifC22Dump(res.decoded)[:min(200, len(verifC22Dump(res.decoded)))]) })
	})
}

// TestVerifC22Matrix: every frame type x every version 0..LatestVersion x
// every header flag combination x a fixed set of field valuations.
func TestVerifC22Matrix(t *testing.T) {
	col := kit.For(t, "C22")
	long := string(bytes.Repeat([]byte("x"), 200))
	maxStr := string(bytes.Repeat([]byte{0xfe}, verifC22MaxStr))
	type valuation struct {
		name  string
		build func(ft frame.FrameType, fr frame.Framer, version uint8) frame.Frame
	}
	seqFor := func(version uint8, wide uint64) uint64 {
		if version <= frame.LegacyMessageSeqVersion {
			return math.MaxUint32
		}
		return wide
	}
	full := func(setting frame.Setting, s string, payload []byte) func(frame.FrameType, frame.Framer, uint8) frame.Frame {
		return func(ft frame.FrameType, fr frame.Framer, version uint8) frame.Frame {
			switch ft {
			case frame.CONNECT:
				return &frame.ConnectPacket{Framer: fr, Version: 0xff, ClientKey: s, DeviceID: s + "d", DeviceFlag: 0x80, ClientTimestamp: math.MinInt64, UID: s + "u", Token: s + "t"}
			case frame.CONNACK:
				return &frame.ConnackPacket{Framer: fr, ServerVersion: 0xfe, ServerKey: s, Salt: s + "s", TimeDiff: -1, ReasonCode: 0xff, NodeId: math.MaxUint64}
			case frame.SEND:
				return &frame.SendPacket{Framer: fr, Setting: setting, MsgKey: s, Expire: math.MaxUint32, ClientSeq: math.MaxUint32, ClientMsgNo: s + "c", StreamNo: s + "n",
					ChannelID: s + "h", ChannelType: 0xff, Topic: s + "p", Payload: payload}
			case frame.SENDACK:
				return &frame.SendackPacket{Framer: fr, MessageID: math.MinInt64, MessageSeq: seqFor(version, math.MaxUint64), ClientSeq: math.MaxUint32, ClientMsgNo: s, ReasonCode: 0xff}
			case frame.RECV:
				return &frame.RecvPacket{Framer: fr, Setting: setting, MsgKey: s, Expire: math.MaxUint32, MessageID: -1, MessageSeq: seqFor(version, 1<<32), ClientMsgNo: s + "c",
					StreamNo: s + "n", StreamId: math.MaxUint64, StreamFlag: 2, Timestamp: math.MinInt32, ChannelID: s + "h", ChannelType: 0xff, Topic: s + "p", FromUID: s + "f", Payload: payload}
			case frame.RECVACK:
				return &frame.RecvackPacket{Framer: fr, MessageID: math.MaxInt64, MessageSeq: seqFor(version, math.MaxUint64)}
			case frame.PING:
				return &frame.PingPacket{Framer: fr}
			case frame.PONG:
				return &frame.PongPacket{Framer: fr}
			case frame.DISCONNECT:
				return &frame.DisconnectPacket{Framer: fr, ReasonCode: 0xff, Reason: s}
			case frame.SUB:
				return &frame.SubPacket{Framer: fr, Setting: setting, SubNo: s, ChannelID: s + "h", ChannelType: 0xff, Action: 0xff, Param: s + "p"}
			case frame.SUBACK:
				return &frame.SubackPacket{Framer: fr, SubNo: s, ChannelID: s + "h", ChannelType: 0xff, Action: 0xff, ReasonCode: 0xff}
			default:
				return &frame.EventPacket{Framer: fr, Id: s, Type: s + "t", Timestamp: math.MinInt64, Data: payload}
			}
		}
	}
	zero := func(ft frame.FrameType, fr frame.Framer, version uint8) frame.Frame {
		return full(0, "", nil)(ft, frame.Framer{NoPersist: fr.NoPersist, RedDot: fr.RedDot, SyncOnce: fr.SyncOnce, DUP: fr.DUP, HasServerVersion: fr.HasServerVersion}, version)
	}
	vals := []valuation{
		{"all fields set, no setting bits", full(0, "k", []byte("payload"))},
		{"topic", full(frame.SettingTopic, "k", []byte("payload"))},
		{"stream", full(frame.SettingStream, "k", []byte{0})},
		{"topic+stream+all other bits", full(0xff, long, bytes.Repeat([]byte{0x80}, 16384))},
		{"empty strings and payload", full(frame.SettingTopic|frame.SettingStream, "", nil)},
		{"zero-valued numerics", func(ft frame.FrameType, fr frame.Framer, version uint8) frame.Frame {
			f := zero(ft, fr, version)
			return f
		}},
	}
	cases := 0
	for _, ft := range verifC22Types {
		for version := uint8(0); version <= frame.LatestVersion; version++ {
			if col.Exhausted() {
				return
			}
			for bits := 0; bits < 32; bits++ {
				fr := frame.Framer{NoPersist: bits&1 != 0, RedDot: bits&2 != 0, SyncOnce: bits&4 != 0, DUP: bits&8 != 0, HasServerVersion: bits&16 != 0}
				for vi, val := range vals {
					f := val.build(ft, fr, version)
					if val.name == "zero-valued numerics" {
						// numeric fields zero but strings present where allowed; SENDACK keeps MessageSeq 0
						switch p := f.(type) {
						case *frame.SendackPacket:
							p.MessageSeq, p.MessageID, p.ClientSeq, p.ReasonCode = 0, 0, 0, 0
						case *frame.RecvackPacket:
							p.MessageSeq, p.MessageID = 0, 0
						case *frame.ConnackPacket:
							p.NodeId, p.ServerVersion, p.TimeDiff, p.ReasonCode = 0, 0, 0, 0
						case *frame.ConnectPacket:
							p.Version, p.DeviceFlag, p.ClientTimestamp = 0, 0, 0
						case *frame.RecvPacket:
							p.MessageSeq, p.MessageID, p.Expire, p.Timestamp, p.StreamId, p.StreamFlag, p.ChannelType = 0, 0, 0, 0, 0, 0, 0
						case *frame.SendPacket:
							p.Expire, p.ClientSeq, p.ChannelType = 0, 0, 0
						}
					}
					trailing := [][]byte{nil, {0x00}, {0xff, 0xff, 0xff, 0xff, 0xff, 0xff}}[(bits+vi)%3]
					res := verifC22RoundTrip(t, f, version, trailing, bits*7+vi)
					k := col.NewCase()
					k.Key("matrix", ft, version, bits, val.name)
					k.SetNonTrivial(res.gated > 0)
					k.Label("matrix: type x version x flags x valuation")
					k.LabelIf(res.gated > 0, "a version/flag-gated field is carried non-zero")
					ft, version, bits, name := ft, version, bits, val.name
					k.Sample(func() any { return fmt.Sprintf("matrix %s v%d flags=%05b %s", ft, version, bits, name) })
					col.Commit(k)
					cases++
				}
			}
		}
	}
	// string fields at the protocol limit, once per type and version
	for _, ft := range verifC22Types {
		for version := uint8(0); version <= frame.LatestVersion; version++ {
			f := full(frame.SettingTopic|frame.SettingStream, "", bytes.Repeat([]byte{1}, PayloadMaxSize))(ft, frame.Framer{DUP: true, HasServerVersion: true}, version)
			switch p := f.(type) {
			case *frame.ConnectPacket:
				p.ClientKey, p.DeviceID, p.UID, p.Token = maxStr, maxStr, maxStr, maxStr
			case *frame.ConnackPacket:
				p.ServerKey, p.Salt = maxStr, maxStr
			case *frame.SendPacket:
				p.MsgKey, p.ClientMsgNo, p.StreamNo, p.ChannelID, p.Topic = maxStr, maxStr, maxStr, maxStr, maxStr
			case *frame.SendackPacket:
				p.ClientMsgNo = maxStr
			case *frame.RecvPacket:
				p.MsgKey, p.ClientMsgNo, p.StreamNo, p.ChannelID, p.Topic, p.FromUID = maxStr, maxStr, maxStr, maxStr, maxStr, maxStr
			case *frame.DisconnectPacket:
				p.Reason = maxStr
			case *frame.SubPacket:
				p.SubNo, p.ChannelID, p.Param = maxStr, maxStr, maxStr
			case *frame.SubackPacket:
				p.SubNo, p.ChannelID = maxStr, maxStr
			case *frame.EventPacket:
				p.Id, p.Type = maxStr, maxStr
			}
			res := verifC22RoundTrip(t, f, version, []byte{0x80}, 3)
			k := col.NewCase()
			k.Key("matrix-max", ft, version)
			k.SetNonTrivial(res.gated > 0)
			k.Label("matrix: every string at the 32767-byte limit")
			col.Commit(k)
		}
	}
}
