package jsonrpc

import (
	"bytes"
	"encoding/base64"
	"encoding/json"
	"fmt"
	"reflect"
	"sort"
	"strconv"
	"strings"
	"testing"

	"github.com/WuKongIM/WuKongIM/pkg/protocol/frame"
	"pgregory.net/rapid"
	"verif.local/kit"
)

// ---------------------------------------------------------------- generators

// verifC24Str: valid UTF-8 (JSON text cannot carry anything else), with the
// characters that need escaping well represented.
func verifC24Str(label string) *rapid.Generator[string] {
	return rapid.Custom(func(t *rapid.T) string {
		switch rapid.IntRange(0, 9).Draw(t, label+"Kind") {
		case 0:
			return ""
		case 1, 2:
			return strings.ToValidUTF8(rapid.StringN(0, 12, 48).Draw(t, label+"Utf8"), "?")
		case 3:
			parts := rapid.SliceOfN(rapid.SampledFrom([]string{`"`, `\`, "/", "\n", "\t", "\x00", "\x1f", "\u007f", "<", ">", "&", "\u2028", "\u2029", "é", "频道", "😀", "\ufffd", "{", "}", "[", ":", ",", "null", "a"}), 1, 6).Draw(t, label+"Esc")
			return strings.Join(parts, "")
		default:
			return rapid.StringMatching(`[a-zA-Z0-9_@:\-]{1,20}`).Draw(t, label+"Ident")
		}
	})
}

func verifC24ID() *rapid.Generator[string] {
	return rapid.Custom(func(t *rapid.T) string {
		s := verifC24Str("id").Draw(t, "id")
		if s == "" {
			s = "req-" + strconv.Itoa(rapid.IntRange(0, 1<<20).Draw(t, "idNum"))
		}
		return s
	})
}

func verifC24Blob(label string) *rapid.Generator[[]byte] {
	return rapid.Custom(func(t *rapid.T) []byte {
		switch rapid.IntRange(0, 5).Draw(t, label+"Kind") {
		case 0:
			return nil
		case 1:
			return []byte(`{"content":"hi","type":1}`)
		default:
			return kit.Bytes(300).Draw(t, label)
		}
	})
}

type verifC24Hdr struct{ NoPersist, RedDot, SyncOnce, Dup, End bool }

func verifC24Header(t *rapid.T) verifC24Hdr {
	if rapid.Bool().Draw(t, "hdrZero") {
		return verifC24Hdr{}
	}
	b := rapid.IntRange(0, 31).Draw(t, "hdrBits")
	return verifC24Hdr{b&1 != 0, b&2 != 0, b&4 != 0, b&8 != 0, b&16 != 0}
}

func (h verifC24Hdr) framer() frame.Framer {
	return frame.Framer{NoPersist: h.NoPersist, RedDot: h.RedDot, SyncOnce: h.SyncOnce, DUP: h.Dup, End: h.End}
}

func (h verifC24Hdr) zero() bool { return h == verifC24Hdr{} }

func (h verifC24Hdr) jsonMap() map[string]any {
	m := map[string]any{}
	for k, v := range map[string]bool{"noPersist": h.NoPersist, "redDot": h.RedDot, "syncOnce": h.SyncOnce, "dup": h.Dup, "end": h.End} {
		if v {
			m[k] = true
		}
	}
	return m
}

func (h verifC24Hdr) pkg() Header {
	return Header{NoPersist: h.NoPersist, RedDot: h.RedDot, SyncOnce: h.SyncOnce, Dup: h.Dup, End: h.End}
}

// ------------------------------------------------------------- request cases

// verifC24Req is one generated client→server message in three independent
// forms: the package's typed message, the frame the bridge must produce
// (built by the harness from the drawn values per types.go/protocol.md), and
// a client-style JSON params object that only uses documented key names.
type verifC24Req struct {
	kind     string
	id       string // "" for notifications
	msg      any
	want     frame.Frame
	params   map[string]any
	optional int // non-default optional fields present
}

func verifC24Request(t *rapid.T) verifC24Req {
	kind := rapid.SampledFrom([]string{"connect", "send", "send", "send", "ping", "disconnect", "recvack", "recvack"}).Draw(t, "reqKind")
	r := verifC24Req{kind: kind, params: map[string]any{}}
	if kind != "recvack" {
		r.id = verifC24ID().Draw(t, "reqID")
	}
	base := BaseRequest{Jsonrpc: jsonRPCVersion, Method: kind, ID: r.id}
	opt := func(present bool) {
		if present {
			r.optional++
		}
	}
	switch kind {
	case "connect":
		h := verifC24Header(t)
		version := rapid.SampledFrom([]int{0, 0, 1, 2, 3, 4, 5, 6, 7, 255}).Draw(t, "version")
		p := ConnectParams{Header: h.pkg(), Version: version, ClientKey: verifC24Str("clientKey").Draw(t, "clientKey"), DeviceID: verifC24Str("deviceID").Draw(t, "deviceID"),
			DeviceFlag: DeviceFlagEnum(rapid.SampledFrom([]int{0, 1, 2, 99, 255}).Draw(t, "deviceFlag")), ClientTimestamp: rapid.Int64().Draw(t, "clientTs"),
			UID: verifC24Str("uid").Draw(t, "uid"), Token: verifC24Str("token").Draw(t, "token")}
		wantVersion := uint8(version)
		if version == 0 {
			wantVersion = frame.LatestVersion
		}
		r.msg = ConnectRequest{BaseRequest: base, Params: p}
		r.want = &frame.ConnectPacket{Framer: h.framer(), Version: wantVersion, ClientKey: p.ClientKey, DeviceID: p.DeviceID, DeviceFlag: frame.DeviceFlag(p.DeviceFlag),
			ClientTimestamp: p.ClientTimestamp, UID: p.UID, Token: p.Token}
		r.params = map[string]any{"deviceFlag": int(p.DeviceFlag), "uid": p.UID, "token": p.Token}
		if !h.zero() {
			r.params["header"] = h.jsonMap()
		}
		if version != 0 {
			r.params["version"] = version
		}
		if p.ClientKey != "" {
			r.params["clientKey"] = p.ClientKey
		}
		if p.DeviceID != "" {
			r.params["deviceId"] = p.DeviceID
		}
		if p.ClientTimestamp != 0 {
			r.params["clientTimestamp"] = p.ClientTimestamp
		}
		opt(!h.zero())
		opt(version != 0)
		opt(p.ClientKey != "")
		opt(p.DeviceID != "")
		opt(p.ClientTimestamp != 0)
	case "send":
		h := verifC24Header(t)
		sb := rapid.IntRange(0, 15).Draw(t, "settingBits")
		if rapid.Bool().Draw(t, "settingZero") {
			sb = 0
		}
		sf := SettingFlags{Receipt: sb&1 != 0, Signal: sb&2 != 0, Stream: sb&4 != 0, Topic: sb&8 != 0}
		var setting frame.Setting
		if sf.Receipt {
			setting |= 1 << 7
		}
		if sf.Signal {
			setting |= 1 << 5
		}
		if sf.Stream {
			setting |= 1 << 1
		}
		if sf.Topic {
			setting |= 1 << 3
		}
		p := SendParams{Header: h.pkg(), Setting: sf, MsgKey: verifC24Str("msgKey").Draw(t, "msgKey"), Expire: rapid.SampledFrom([]uint32{0, 0, 1, 60, 1<<32 - 1}).Draw(t, "expire"),
			ClientMsgNo: verifC24Str("clientMsgNo").Draw(t, "clientMsgNo"), StreamNo: verifC24Str("streamNo").Draw(t, "streamNo"),
			ChannelID: verifC24Str("channelID").Draw(t, "channelID"), ChannelType: rapid.SampledFrom([]int{0, 1, 2, 3, 10, 11, 12, 255}).Draw(t, "channelType"),
			Topic: verifC24Str("topic").Draw(t, "topic"), Payload: verifC24Blob("payload").Draw(t, "payload")}
		r.msg = SendRequest{BaseRequest: base, Params: p}
		r.want = &frame.SendPacket{Framer: h.framer(), Setting: setting, MsgKey: p.MsgKey, Expire: p.Expire, ClientMsgNo: p.ClientMsgNo, StreamNo: p.StreamNo,
			ChannelID: p.ChannelID, ChannelType: uint8(p.ChannelType), Topic: p.Topic, Payload: p.Payload}
		r.params = map[string]any{"channelId": p.ChannelID, "channelType": p.ChannelType}
		if p.Payload != nil {
			r.params["payload"] = base64.StdEncoding.EncodeToString(p.Payload)
		} else {
			r.params["payload"] = nil
		}
		if !h.zero() {
			r.params["header"] = h.jsonMap()
		}
		if sb != 0 {
			sm := map[string]any{}
			for k, v := range map[string]bool{"receipt": sf.Receipt, "signal": sf.Signal, "stream": sf.Stream, "topic": sf.Topic} {
				if v {
					sm[k] = true
				}
			}
			r.params["setting"] = sm
		}
		for k, v := range map[string]string{"msgKey": p.MsgKey, "clientMsgNo": p.ClientMsgNo, "streamNo": p.StreamNo, "topic": p.Topic} {
			if v != "" {
				r.params[k] = v
			}
			opt(v != "")
		}
		if p.Expire != 0 {
			r.params["expire"] = p.Expire
		}
		opt(!h.zero())
		opt(sb != 0)
		opt(p.Expire != 0)
	case "ping":
		pk := rapid.IntRange(0, 2).Draw(t, "pingParams")
		req := PingRequest{BaseRequest: base}
		switch pk {
		case 0:
			r.params = nil // no params key at all
		case 1:
			req.Params = &PingParams{}
		case 2:
			r.params = map[string]any{"__null__": true} // explicit "params": null
		}
		r.msg = req
		r.want = &frame.PingPacket{}
	case "disconnect":
		p := DisconnectParams{ReasonCode: ReasonCodeEnum(rapid.IntRange(0, 255).Draw(t, "reasonCode")), Reason: verifC24Str("reason").Draw(t, "reason")}
		r.msg = DisconnectRequest{BaseRequest: base, Params: p}
		r.want = &frame.DisconnectPacket{ReasonCode: frame.ReasonCode(p.ReasonCode), Reason: p.Reason}
		r.params = map[string]any{"reasonCode": int(p.ReasonCode)}
		if p.Reason != "" {
			r.params["reason"] = p.Reason
		}
		opt(p.Reason != "")
		opt(p.ReasonCode != 0)
	case "recvack":
		h := verifC24Header(t)
		mid := rapid.Int64().Draw(t, "messageID")
		seq := kit.Uint64Edge().Draw(t, "messageSeq")
		p := RecvAckParams{Header: h.pkg(), MessageID: strconv.FormatInt(mid, 10), MessageSeq: seq}
		r.msg = RecvAckNotification{BaseNotification: BaseNotification{Jsonrpc: jsonRPCVersion, Method: MethodRecvAck}, Params: p}
		r.want = &frame.RecvackPacket{Framer: h.framer(), MessageID: mid, MessageSeq: seq}
		r.params = map[string]any{"messageId": p.MessageID, "messageSeq": seq}
		if !h.zero() {
			r.params["header"] = h.jsonMap()
		}
		opt(!h.zero())
		opt(mid != 0)
		opt(seq != 0)
	}
	return r
}

// verifC24ClientJSON writes the message the way an independent client would:
// documented key names only, drawn member order, drawn whitespace, optional
// "jsonrpc" member.
func verifC24ClientJSON(t *rapid.T, r verifC24Req) []byte {
	type member struct{ k, v string }
	enc := func(v any) string {
		var buf bytes.Buffer
		e := json.NewEncoder(&buf)
		e.SetEscapeHTML(rapid.Bool().Draw(t, "escapeHTML"))
		if err := e.Encode(v); err != nil {
			t.Fatalf("harness json: %v", err)
		}
		return strings.TrimSuffix(buf.String(), "\n")
	}
	members := []member{{"method", enc(r.kind)}}
	if r.id != "" {
		members = append(members, member{"id", enc(r.id)})
	}
	if rapid.Bool().Draw(t, "withJsonrpc") {
		members = append(members, member{"jsonrpc", `"2.0"`})
	}
	switch {
	case r.params == nil:
	case r.params["__null__"] == true:
		members = append(members, member{"params", "null"})
	default:
		members = append(members, member{"params", enc(r.params)})
	}
	perm := rapid.Permutation(members).Draw(t, "memberOrder")
	ws := func() string {
		return rapid.SampledFrom([]string{"", "", "", " ", "\n", "\t ", "\r\n  "}).Draw(t, "ws")
	}
	var sb strings.Builder
	sb.WriteString(ws() + "{")
	for i, m := range perm {
		if i > 0 {
			sb.WriteString(",")
		}
		sb.WriteString(ws() + strconv.Quote(m.k))
		sb.WriteString(ws() + ":" + ws() + m.v)
	}
	sb.WriteString(ws() + "}")
	return []byte(sb.String())
}

func verifC24Decode(data []byte) (msg any, probe Probe, err error, panicked any) {
	defer func() {
		if p := recover(); p != nil {
			panicked = p
		}
	}()
	msg, probe, err = Decode(json.NewDecoder(bytes.NewReader(data)))
	return
}

// verifC24FrameEq compares frames field by field; nil and empty byte slices are the same payload.
func verifC24FrameEq(a, b frame.Frame) bool {
	norm := func(f frame.Frame) any {
		switch p := f.(type) {
		case *frame.SendPacket:
			c := *p
			if len(c.Payload) == 0 {
				c.Payload = nil
			}
			return c
		case *frame.RecvPacket:
			c := *p
			if len(c.Payload) == 0 {
				c.Payload = nil
			}
			return c
		case *frame.EventPacket:
			c := *p
			if len(c.Data) == 0 {
				c.Data = nil
			}
			return c
		}
		if f == nil {
			return nil
		}
		return reflect.Indirect(reflect.ValueOf(f)).Interface()
	}
	return reflect.DeepEqual(norm(a), norm(b))
}

func verifC24Show(v any) string {
	s := fmt.Sprintf("%#v", v)
	if rv := reflect.ValueOf(v); rv.IsValid() && rv.Kind() == reflect.Ptr && !rv.IsNil() {
		s = fmt.Sprintf("&%#v", rv.Elem().Interface())
	}
	if len(s) > 700 {
		s = s[:700] + "…"
	}
	return s
}

// verifC24MsgEq: typed messages equal modulo nil/empty payload slices.
func verifC24MsgEq(a, b any) bool {
	fix := func(v any) any {
		switch m := v.(type) {
		case SendRequest:
			if len(m.Params.Payload) == 0 {
				m.Params.Payload = nil
			}
			return m
		case RecvNotification:
			if len(m.Params.Payload) == 0 {
				m.Params.Payload = nil
			}
			return m
		}
		return v
	}
	return reflect.DeepEqual(fix(a), fix(b))
}

// TestVerifC24RequestPath: client message → JSON → Decode → ToFrame yields the
// frame the message stands for and the same request id, for the package's own
// encoding and for an independent client-style encoding.
func TestVerifC24RequestPath(t *testing.T) {
	kit.Check(t, "C24", func(rt *rapid.T, k *kit.Case) {
		r := verifC24Request(rt)
		own, err := Encode(r.msg)
		if err != nil {
			rt.Fatalf("Encode(%s): %v", verifC24Show(r.msg), err)
		}
		// An encoded document belongs to the caller (it is queued for the socket
		// while other replies are being encoded): later Encode calls must not
		// change it.
		ownCopy := append([]byte(nil), own...)
		for i := rapid.IntRange(1, 3).Draw(rt, "encodesInBetween"); i > 0; i-- {
			if _, err := Encode(verifC24Request(rt).msg); err != nil {
				rt.Fatalf("Encode of a second message: %v", err)
			}
		}
		if !bytes.Equal(own, ownCopy) {
			rt.Fatalf("the bytes returned by Encode changed after later Encode calls:\n before %s\n after  %s", ownCopy, own)
		}
		client := verifC24ClientJSON(rt, r)
		for name, doc := range map[string][]byte{"package encoding": own, "client encoding": client} {
			if !json.Valid(doc) {
				rt.Fatalf("%s is not valid JSON: %s", name, doc)
			}
			msg, probe, err, p := verifC24Decode(doc)
			if p != nil {
				rt.Fatalf("Decode panicked on %s %s: %v", name, doc, p)
			}
			if err != nil {
				rt.Fatalf("Decode refused a valid %s message (%s): %v\n%s", r.kind, name, err, doc)
			}
			if reflect.TypeOf(msg) != reflect.TypeOf(r.msg) {
				rt.Fatalf("%s decoded as %T, sent %T: %s", name, msg, r.msg, doc)
			}
			if name == "package encoding" && !verifC24MsgEq(msg, r.msg) {
				rt.Fatalf("Decode(Encode(m)) != m:\n got  %s\n want %s\n json %s", verifC24Show(msg), verifC24Show(r.msg), doc)
			}
			if got := DecodeID(probe.ID); got != r.id {
				rt.Fatalf("%s: probe id %q, sent %q", name, got, r.id)
			}
			f, id, err := ToFrame(msg)
			if err != nil {
				rt.Fatalf("ToFrame(%T) error: %v", msg, err)
			}
			if id != r.id {
				rt.Fatalf("%s: ToFrame returned id %q, request carried %q", name, id, r.id)
			}
			if !verifC24FrameEq(f, r.want) {
				rt.Fatalf("%s: frame differs\n got  %s\n want %s\n json %s", name, verifC24Show(f), verifC24Show(r.want), doc)
			}
			// the bridge's result is the same when asked again (no hidden state), and equals ToFrame of the original
			f2, id2, err2 := ToFrame(r.msg)
			if err2 != nil || id2 != r.id || !verifC24FrameEq(f2, r.want) {
				rt.Fatalf("ToFrame(original message) = %s id %q err %v, want %s", verifC24Show(f2), id2, err2, verifC24Show(r.want))
			}
		}
		k.Key(r.kind, r.id, own, client)
		k.SetNonTrivial(r.optional >= 1)
		k.Label("request " + r.kind)
		k.LabelIf(r.optional >= 3, "≥3 optional fields set")
		k.LabelIf(strings.ContainsAny(r.id, "\"\\\n\x00") || strings.ContainsRune(r.id, 0x2028), "id needs escaping")
		k.Sample(func() any { return string(verifC24TruncB(client)) })
	})
}

func verifC24TruncB(b []byte) []byte {
	if len(b) > 400 {
		return append(append([]byte(nil), b[:400]...), "…"...)
	}
	return b
}

// ------------------------------------------------------------ response cases

func verifC24Num(v any) string {
	switch n := v.(type) {
	case json.Number:
		return n.String()
	case nil:
		return "0"
	}
	return fmt.Sprintf("?%v", v)
}

func verifC24S(v any) string {
	if v == nil {
		return ""
	}
	s, ok := v.(string)
	if !ok {
		return fmt.Sprintf("?%v", v)
	}
	return s
}

func verifC24Obj(v any) map[string]any {
	m, _ := v.(map[string]any)
	if m == nil {
		return map[string]any{}
	}
	return m
}

func verifC24HdrOf(v any) verifC24Hdr {
	m := verifC24Obj(v)
	b := func(k string) bool { x, _ := m[k].(bool); return x }
	return verifC24Hdr{b("noPersist"), b("redDot"), b("syncOnce"), b("dup"), b("end")}
}

func verifC24ResponseFrame(t *rapid.T) (frame.Frame, string) {
	kind := rapid.SampledFrom([]string{"connack", "sendack", "sendack", "recv", "recv", "recv", "event", "disconnect", "pong"}).Draw(t, "respKind")
	h := verifC24Header(t).framer()
	switch kind {
	case "connack":
		return &frame.ConnackPacket{Framer: h, ServerVersion: uint8(rapid.SampledFrom([]int{0, 1, 5, 6, 255}).Draw(t, "serverVersion")), ServerKey: verifC24Str("serverKey").Draw(t, "serverKey"),
			Salt: verifC24Str("salt").Draw(t, "salt"), TimeDiff: rapid.Int64().Draw(t, "timeDiff"), ReasonCode: frame.ReasonCode(rapid.IntRange(0, 255).Draw(t, "reasonCode")),
			NodeId: kit.Uint64Edge().Draw(t, "nodeID")}, kind
	case "sendack":
		return &frame.SendackPacket{Framer: h, MessageID: rapid.Int64().Draw(t, "messageID"), MessageSeq: kit.Uint64Edge().Draw(t, "messageSeq"),
			ClientSeq: uint64(rapid.Uint32().Draw(t, "clientSeq")), ClientMsgNo: verifC24Str("clientMsgNo").Draw(t, "clientMsgNo"),
			ReasonCode: frame.ReasonCode(rapid.IntRange(0, 255).Draw(t, "reasonCode"))}, kind
	case "recv":
		sb := rapid.IntRange(0, 15).Draw(t, "settingBits")
		var setting frame.Setting
		if sb&1 != 0 {
			setting |= frame.SettingReceiptEnabled
		}
		if sb&2 != 0 {
			setting |= frame.SettingSignal
		}
		if sb&4 != 0 {
			setting |= frame.SettingStream
		}
		if sb&8 != 0 {
			setting |= frame.SettingTopic
		}
		return &frame.RecvPacket{Framer: h, Setting: setting, MsgKey: verifC24Str("msgKey").Draw(t, "msgKey"), Expire: rapid.SampledFrom([]uint32{0, 1, 1<<32 - 1}).Draw(t, "expire"),
			MessageID: rapid.Int64().Draw(t, "messageID"), MessageSeq: kit.Uint64Edge().Draw(t, "messageSeq"), ClientMsgNo: verifC24Str("clientMsgNo").Draw(t, "clientMsgNo"),
			StreamNo: verifC24Str("streamNo").Draw(t, "streamNo"), StreamId: kit.Uint64Edge().Draw(t, "streamID"), StreamFlag: frame.StreamFlag(rapid.IntRange(0, 2).Draw(t, "streamFlag")),
			Timestamp: rapid.Int32().Draw(t, "timestamp"), ChannelID: verifC24Str("channelID").Draw(t, "channelID"), ChannelType: uint8(rapid.IntRange(0, 255).Draw(t, "channelType")),
			Topic: verifC24Str("topic").Draw(t, "topic"), FromUID: verifC24Str("fromUID").Draw(t, "fromUID"), Payload: verifC24Blob("payload").Draw(t, "payload")}, kind
	case "event":
		return &frame.EventPacket{Framer: h, Id: verifC24Str("eventID").Draw(t, "eventID"), Type: verifC24Str("eventType").Draw(t, "eventType"),
			Timestamp: rapid.Int64().Draw(t, "eventTs"), Data: []byte(verifC24Str("eventData").Draw(t, "eventData"))}, kind
	case "disconnect":
		return &frame.DisconnectPacket{ReasonCode: frame.ReasonCode(rapid.IntRange(0, 255).Draw(t, "reasonCode")), Reason: verifC24Str("reason").Draw(t, "reason")}, kind
	default:
		return &frame.PongPacket{}, kind
	}
}

// verifC24Back rebuilds the frame from the JSON document using only the
// documented key names; fields the schema does not carry are copied from the
// original (they are listed here, and nowhere else, as excluded).
func verifC24Back(doc map[string]any, kind string, orig frame.Frame) frame.Frame {
	u8 := func(v any) uint8 { n, _ := strconv.ParseUint(verifC24Num(v), 10, 8); return uint8(n) }
	i64 := func(v any) int64 { n, _ := strconv.ParseInt(verifC24Num(v), 10, 64); return n }
	u64 := func(v any) uint64 { n, _ := strconv.ParseUint(verifC24Num(v), 10, 64); return n }
	b64 := func(v any) []byte {
		if v == nil {
			return nil
		}
		b, err := base64.StdEncoding.DecodeString(verifC24S(v))
		if err != nil {
			return []byte("!not base64!")
		}
		return b
	}
	switch kind {
	case "connack":
		r := verifC24Obj(doc["result"])
		o := orig.(*frame.ConnackPacket)
		f := &frame.ConnackPacket{Framer: verifC24HdrOf(r["header"]).framer(), ServerVersion: u8(r["serverVersion"]), ServerKey: verifC24S(r["serverKey"]), Salt: verifC24S(r["salt"]),
			TimeDiff: i64(r["timeDiff"]), ReasonCode: frame.ReasonCode(u8(r["reasonCode"])), NodeId: u64(r["nodeId"])}
		f.HasServerVersion = o.HasServerVersion // excluded: wire-only flag
		return f
	case "sendack":
		r := verifC24Obj(doc["result"])
		o := orig.(*frame.SendackPacket)
		mid, err := strconv.ParseInt(verifC24S(r["messageId"]), 10, 64)
		if err != nil {
			mid = -o.MessageID - 1
		}
		return &frame.SendackPacket{Framer: verifC24HdrOf(r["header"]).framer(), MessageID: mid, MessageSeq: u64(r["messageSeq"]), ReasonCode: frame.ReasonCode(u8(r["reasonCode"])),
			ClientSeq: o.ClientSeq, ClientMsgNo: o.ClientMsgNo} // excluded: correlation is by id
	case "recv":
		p := verifC24Obj(doc["params"])
		mid, err := strconv.ParseInt(verifC24S(p["messageId"]), 10, 64)
		if err != nil {
			mid = -1
		}
		sid, err := strconv.ParseUint(verifC24S(p["streamId"]), 10, 64)
		if err != nil && p["streamId"] != nil {
			sid = 1<<64 - 1
		}
		sm := verifC24Obj(p["setting"])
		var setting frame.Setting
		for k, bit := range map[string]frame.Setting{"receipt": frame.SettingReceiptEnabled, "signal": frame.SettingSignal, "stream": frame.SettingStream, "topic": frame.SettingTopic} {
			if x, _ := sm[k].(bool); x {
				setting |= bit
			}
		}
		ts, _ := strconv.ParseInt(verifC24Num(p["timestamp"]), 10, 32)
		exp, _ := strconv.ParseUint(verifC24Num(p["expire"]), 10, 32)
		return &frame.RecvPacket{Framer: verifC24HdrOf(p["header"]).framer(), Setting: setting, MsgKey: verifC24S(p["msgKey"]), Expire: uint32(exp), MessageID: mid, MessageSeq: u64(p["messageSeq"]),
			ClientMsgNo: verifC24S(p["clientMsgNo"]), StreamNo: verifC24S(p["streamNo"]), StreamId: sid, StreamFlag: frame.StreamFlag(u8(p["streamFlag"])), Timestamp: int32(ts),
			ChannelID: verifC24S(p["channelId"]), ChannelType: u8(p["channelType"]), Topic: verifC24S(p["topic"]), FromUID: verifC24S(p["fromUid"]), Payload: b64(p["payload"])}
	case "event":
		p := verifC24Obj(doc["params"])
		return &frame.EventPacket{Framer: verifC24HdrOf(p["header"]).framer(), Id: verifC24S(p["id"]), Type: verifC24S(p["type"]), Timestamp: i64(p["timestamp"]), Data: []byte(verifC24S(p["data"]))}
	case "disconnect":
		p := verifC24Obj(doc["params"])
		return &frame.DisconnectPacket{ReasonCode: frame.ReasonCode(u8(p["reasonCode"])), Reason: verifC24S(p["reason"])}
	default:
		return &frame.PongPacket{}
	}
}

// TestVerifC24ResponsePath: server frame → FromFrame → JSON → read back by
// documented key names gives an equivalent frame; responses carry the request
// id, notifications carry their method and no id; the package's own Decode
// accepts what the bridge emits.
func TestVerifC24ResponsePath(t *testing.T) {
	kit.Check(t, "C24", func(rt *rapid.T, k *kit.Case) {
		f, kind := verifC24ResponseFrame(rt)
		id := verifC24ID().Draw(rt, "replyID")
		snapshot := verifC24Show(f)
		msg, err := FromFrame(id, f)
		if err != nil {
			rt.Fatalf("FromFrame(%s): %v", snapshot, err)
		}
		doc, err := Encode(msg)
		if err != nil {
			rt.Fatalf("Encode(%T): %v", msg, err)
		}
		if verifC24Show(f) != snapshot {
			rt.Fatalf("FromFrame/Encode modified the frame")
		}
		docCopy := append([]byte(nil), doc...)
		if f2, _ := verifC24ResponseFrame(rt); f2 != nil {
			if m2, err := FromFrame(verifC24ID().Draw(rt, "replyID2"), f2); err == nil {
				_, _ = Encode(m2)
			}
		}
		if !bytes.Equal(doc, docCopy) {
			rt.Fatalf("the bytes returned by Encode changed after a later Encode call:\n before %s\n after  %s", docCopy, doc)
		}
		dec := json.NewDecoder(bytes.NewReader(doc))
		dec.UseNumber()
		var m map[string]any
		if err := dec.Decode(&m); err != nil {
			rt.Fatalf("bridge output is not a JSON object: %v\n%s", err, doc)
		}
		if v, ok := m["jsonrpc"]; ok && v != "2.0" {
			rt.Fatalf("jsonrpc member %v", v)
		}
		isResponse := kind == "connack" || kind == "sendack" || kind == "pong"
		if isResponse {
			if got := verifC24S(m["id"]); got != id {
				rt.Fatalf("%s response id %q, request id %q: %s", kind, got, id, doc)
			}
			if _, has := m["method"]; has {
				rt.Fatalf("response carries a method: %s", doc)
			}
		} else {
			if _, has := m["id"]; has {
				rt.Fatalf("%s notification carries an id: %s", kind, doc)
			}
			if verifC24S(m["method"]) != kind {
				rt.Fatalf("%s notification method %v: %s", kind, m["method"], doc)
			}
		}
		back := verifC24Back(m, kind, f)
		if !verifC24FrameEq(back, f) {
			rt.Fatalf("%s frame read back from JSON differs\n got  %s\n want %s\n json %s", kind, verifC24Show(back), snapshot, doc)
		}
		// the package's own decoder on the bridge output
		pkgMsg, probe, derr, p := verifC24Decode(doc)
		if p != nil {
			rt.Fatalf("Decode panicked on bridge output %s: %v", doc, p)
		}
		pongUndecodable := false
		switch kind {
		case "connack", "sendack":
			g, ok := pkgMsg.(GenericResponse)
			if derr != nil || !ok || g.ID != id || DecodeID(probe.ID) != id || g.Error != nil || len(g.Result) == 0 {
				rt.Fatalf("package Decode of %s response: %T err=%v id=%q want id %q\n%s", kind, pkgMsg, derr, g.ID, id, doc)
			}
		case "recv", "event", "disconnect":
			if derr != nil || !verifC24MsgEq(pkgMsg, msg) {
				rt.Fatalf("package Decode of %s notification: err=%v\n got  %s\n want %s\n json %s", kind, derr, verifC24Show(pkgMsg), verifC24Show(msg), doc)
			}
		case "pong":
			pongUndecodable = derr != nil // observation: the pong response has neither result nor error
		}
		nonZero := 0
		rv := reflect.Indirect(reflect.ValueOf(f))
		for i := 0; i < rv.NumField(); i++ {
			if !rv.Field(i).IsZero() {
				nonZero++
			}
		}
		k.Key(kind, id, doc)
		k.SetNonTrivial(nonZero >= 2 || kind == "pong")
		k.Label("response " + kind)
		k.LabelIf(pongUndecodable, "observation: pong response {jsonrpc,id} has no result/error member; package Decode rejects it")
		k.Sample(func() any { return string(verifC24TruncB(doc)) })
	})
}

// --------------------------------------------------------------- hostile JSON

var verifC24Vocabulary = []string{"jsonrpc", "id", "method", "params", "result", "error", "header", "setting", "payload", "channelId", "channelType", "messageId", "messageSeq",
	"uid", "token", "deviceFlag", "version", "reasonCode", "reason", "code", "message", "data", "noPersist", "topic", "expire", "clientMsgNo", "streamId", "timestamp", "fromUid", "type", "subNo", "x"}

var verifC24Methods = []string{"connect", "send", "recvack", "subscribe", "unsubscribe", "ping", "pong", "disconnect", "recv", "event", "", "Connect", "rpc.x"}

// verifC24JSONValue draws an arbitrary JSON value as text (so that number
// spellings, duplicate keys and odd whitespace are reachable).
func verifC24JSONValue(t *rapid.T, depth int) string {
	max := 9
	if depth <= 0 {
		max = 6
	}
	switch rapid.IntRange(0, max).Draw(t, "jv") {
	case 0:
		return "null"
	case 1:
		return rapid.SampledFrom([]string{"true", "false"}).Draw(t, "jbool")
	case 2:
		return rapid.SampledFrom([]string{"0", "1", "-1", "2", "255", "256", "4294967296", "18446744073709551615", "18446744073709551616", "-9223372036854775809", "1.5", "1e2", "1E400", "-0", "0.0"}).Draw(t, "jnum")
	case 3:
		b, _ := json.Marshal(verifC24Str("js").Draw(t, "jstr"))
		return string(b)
	case 4:
		b, _ := json.Marshal(rapid.SampledFrom(verifC24Methods).Draw(t, "jmethod"))
		return string(b)
	case 5:
		return rapid.SampledFrom([]string{`"2.0"`, `"1.0"`, `2.0`, `"aGk="`, `"!!"`, `""`, `"123"`, `"-5"`, `"9223372036854775808"`}).Draw(t, "jspecial")
	case 6:
		return strconv.Itoa(rapid.IntRange(-3, 300).Draw(t, "jint"))
	case 7, 8:
		n := rapid.IntRange(0, 5).Draw(t, "jobjN")
		parts := make([]string, n)
		for i := range parts {
			parts[i] = strconv.Quote(rapid.SampledFrom(verifC24Vocabulary).Draw(t, "jkey")) + ":" + verifC24JSONValue(t, depth-1)
		}
		return "{" + strings.Join(parts, ",") + "}"
	default:
		n := rapid.IntRange(0, 3).Draw(t, "jarrN")
		parts := make([]string, n)
		for i := range parts {
			parts[i] = verifC24JSONValue(t, depth-1)
		}
		return "[" + strings.Join(parts, ",") + "]"
	}
}

// verifC24Envelope draws a message-shaped object: protocol members with
// arbitrary values, any subset, any order, duplicates possible.
func verifC24Envelope(t *rapid.T) string {
	var parts []string
	add := func(k, v string) { parts = append(parts, strconv.Quote(k)+":"+v) }
	if rapid.IntRange(0, 3).Draw(t, "hasMethod") != 0 {
		if rapid.IntRange(0, 5).Draw(t, "methodOK") != 0 {
			b, _ := json.Marshal(rapid.SampledFrom(verifC24Methods).Draw(t, "method"))
			add("method", string(b))
		} else {
			add("method", verifC24JSONValue(t, 1))
		}
	}
	if rapid.IntRange(0, 2).Draw(t, "hasID") != 0 {
		if rapid.IntRange(0, 3).Draw(t, "idOK") != 0 {
			b, _ := json.Marshal(verifC24Str("id").Draw(t, "id"))
			add("id", string(b))
		} else {
			add("id", verifC24JSONValue(t, 1))
		}
	}
	if rapid.IntRange(0, 2).Draw(t, "hasVersion") == 0 {
		add("jsonrpc", rapid.SampledFrom([]string{`"2.0"`, `"2.0"`, `"1.0"`, `2`, `null`, `""`}).Draw(t, "versionVal"))
	}
	if rapid.IntRange(0, 3).Draw(t, "hasParams") != 0 {
		add("params", verifC24JSONValue(t, 3))
	}
	if rapid.IntRange(0, 3).Draw(t, "hasResult") == 0 {
		add("result", verifC24JSONValue(t, 2))
	}
	if rapid.IntRange(0, 3).Draw(t, "hasError") == 0 {
		add("error", verifC24JSONValue(t, 2))
	}
	if rapid.IntRange(0, 5).Draw(t, "hasExtra") == 0 {
		add(rapid.SampledFrom(verifC24Vocabulary).Draw(t, "extraKey"), verifC24JSONValue(t, 1))
	}
	perm := rapid.Permutation(parts).Draw(t, "envOrder")
	return "{" + strings.Join(perm, ",") + "}"
}

var verifC24KnownTypes = map[reflect.Type]string{
	reflect.TypeOf(ConnectRequest{}): "connect", reflect.TypeOf(SendRequest{}): "send", reflect.TypeOf(SubscribeRequest{}): "subscribe", reflect.TypeOf(UnsubscribeRequest{}): "unsubscribe",
	reflect.TypeOf(PingRequest{}): "ping", reflect.TypeOf(DisconnectRequest{}): "disconnect", reflect.TypeOf(GenericResponse{}): "", reflect.TypeOf(RecvNotification{}): "recv",
	reflect.TypeOf(RecvAckNotification{}): "recvack", reflect.TypeOf(DisconnectNotification{}): "disconnect", reflect.TypeOf(EventNotification{}): "event",
}

func verifC24JSONEquiv(a, b []byte) bool {
	if bytes.Equal(bytes.TrimSpace(a), bytes.TrimSpace(b)) {
		return true
	}
	// compare structure with numbers kept as their literal text (1E400 does not fit a float64)
	parse := func(raw []byte) (any, bool) {
		d := json.NewDecoder(bytes.NewReader(raw))
		d.UseNumber()
		var v any
		if err := d.Decode(&v); err != nil {
			return nil, false
		}
		return v, true
	}
	x, okx := parse(a)
	y, oky := parse(b)
	return okx && oky && reflect.DeepEqual(x, y)
}

func verifC24MethodAndID(msg any) (method, id string, isRequest bool) {
	rv := reflect.ValueOf(msg)
	if br := rv.FieldByName("BaseRequest"); br.IsValid() {
		b := br.Interface().(BaseRequest)
		return b.Method, b.ID, true
	}
	if bn := rv.FieldByName("BaseNotification"); bn.IsValid() {
		return bn.Interface().(BaseNotification).Method, "", false
	}
	if g, ok := msg.(GenericResponse); ok {
		return "", g.ID, false
	}
	return "", "", false
}

// verifC24JudgeDecode is the oracle for arbitrary input to Decode (shared with
// the native fuzz target). It returns the outcome class.
func verifC24JudgeDecode(data []byte) (string, error) {
	msg, _, err, p := verifC24Decode(data)
	if p != nil {
		return "", fmt.Errorf("Decode panicked: %v", p)
	}
	if err != nil {
		if msg != nil {
			return "", fmt.Errorf("Decode returned both a message (%T) and an error (%v)", msg, err)
		}
		return "error", nil
	}
	if msg == nil {
		return "", fmt.Errorf("Decode returned neither message nor error")
	}
	wantMethod, known := verifC24KnownTypes[reflect.TypeOf(msg)]
	if !known {
		return "", fmt.Errorf("Decode returned an unknown message type %T", msg)
	}
	method, id, isRequest := verifC24MethodAndID(msg)
	if method != wantMethod {
		return "", fmt.Errorf("%T carries method %q", msg, method)
	}
	if g, ok := msg.(GenericResponse); ok {
		if (len(g.Result) == 0) == (g.Error == nil) {
			return "", fmt.Errorf("response with result=%q error=%v", g.Result, g.Error)
		}
		if len(g.Result) > 0 && !json.Valid(g.Result) {
			return "", fmt.Errorf("response result is not JSON: %q", g.Result)
		}
	}
	// the bridge never panics on whatever Decode accepted
	var f frame.Frame
	var ferr error
	func() {
		defer func() {
			if p := recover(); p != nil {
				ferr = fmt.Errorf("ToFrame panicked: %v", p)
				f = nil
			}
		}()
		var fid string
		f, fid, ferr = ToFrame(msg)
		if ferr == nil && f == nil {
			ferr = fmt.Errorf("ToFrame returned neither frame nor error for %T", msg)
		} else if ferr == nil && isRequest && fid != id {
			ferr = fmt.Errorf("ToFrame id %q, message id %q", fid, id)
		} else if ferr != nil && strings.Contains(ferr.Error(), "unknown packet type") {
			ferr = nil // subscribe/unsubscribe/responses/server notifications are not bridged
		}
	}()
	if ferr != nil {
		return "", ferr
	}
	// well-formed: it can be written out again and reads back as the same message
	out, err := Encode(msg)
	if err != nil {
		return "", fmt.Errorf("accepted message cannot be encoded: %v", err)
	}
	if !json.Valid(out) {
		return "", fmt.Errorf("re-encoded message is not valid JSON: %s", out)
	}
	outcome := "message " + reflect.TypeOf(msg).Name()
	if _, isResponse := msg.(GenericResponse); (isRequest || isResponse) && id == "" {
		// "id":"" is accepted; the id member is omitempty on output, so the message cannot be written back. Recorded, not judged.
		return outcome + " (observation: empty-string id accepted)", nil
	}
	msg2, _, err2, p2 := verifC24Decode(out)
	if p2 != nil || err2 != nil {
		return "", fmt.Errorf("accepted message does not read back: %v / panic %v\nfirst  %s\nsecond %s", err2, p2, verifC24TruncB(data), verifC24TruncB(out))
	}
	g1, isResp := msg.(GenericResponse)
	if isResp {
		g2, ok := msg2.(GenericResponse)
		if !ok || g1.ID != g2.ID || g1.Jsonrpc != g2.Jsonrpc || !verifC24JSONEquiv(g1.Result, g2.Result) || !reflect.DeepEqual(g1.Error, g2.Error) {
			return "", fmt.Errorf("response changes when written and read again:\n first  %s\n second %s", verifC24Show(msg), verifC24Show(msg2))
		}
	} else if !verifC24MsgEq(msg, msg2) {
		return "", fmt.Errorf("message changes when written and read again:\n first  %s\n second %s\n json %s", verifC24Show(msg), verifC24Show(msg2), verifC24TruncB(out))
	}
	return outcome, nil
}

// TestVerifC24DecodeHostile: arbitrary and mutated JSON documents into Decode:
// no panic; the result is an error, or one of the known message types with
// the right method, accepted by ToFrame without panic, re-encodable to valid
// JSON that reads back as the same message.
func TestVerifC24DecodeHostile(t *testing.T) {
	kit.Check(t, "C24", func(rt *rapid.T, k *kit.Case) {
		kind := rapid.SampledFrom([]string{"envelope", "envelope", "perturbed fields", "perturbed fields", "perturbed fields", "mutated valid", "mutated valid", "json value", "bytes", "two values"}).Draw(rt, "hostileKind")
		var data []byte
		switch kind {
		case "envelope":
			data = []byte(verifC24Envelope(rt))
		case "mutated valid":
			r := verifC24Request(rt)
			data = verifC24ClientJSON(rt, r)
			if rapid.Bool().Draw(rt, "fromServerSide") {
				f, _ := verifC24ResponseFrame(rt)
				m, _ := FromFrame("r1", f)
				data, _ = Encode(m)
			}
			n := rapid.IntRange(1, 3).Draw(rt, "mutations")
			for i := 0; i < n; i++ {
				data, _ = kit.Mutate(rt, data)
			}
		case "perturbed fields":
			// a valid client message with 1-2 members replaced by arbitrary JSON values (document stays valid JSON)
			r := verifC24Request(rt)
			if r.params == nil || r.params["__null__"] == true {
				r.params = map[string]any{}
			}
			n := rapid.IntRange(1, 2).Draw(rt, "perturbations")
			for i := 0; i < n; i++ {
				keys := make([]string, 0, len(r.params)+2)
				for key := range r.params {
					keys = append(keys, key)
				}
				sort.Strings(keys)
				keys = append(keys, rapid.SampledFrom(verifC24Vocabulary).Draw(rt, "newKey"))
				key := rapid.SampledFrom(keys).Draw(rt, "perturbKey")
				if rapid.IntRange(0, 4).Draw(rt, "dropKey") == 0 {
					delete(r.params, key)
				} else {
					r.params[key] = json.RawMessage(verifC24JSONValue(rt, 2))
				}
			}
			switch rapid.IntRange(0, 5).Draw(rt, "idPerturb") {
			case 0:
				r.id = ""
			case 1:
				r.id = verifC24ID().Draw(rt, "otherID")
			}
			data = verifC24ClientJSON(rt, r)
		case "json value":
			data = []byte(verifC24JSONValue(rt, 3))
		case "bytes":
			data = kit.Bytes(200).Draw(rt, "raw")
		case "two values":
			data = []byte(verifC24Envelope(rt) + rapid.SampledFrom([]string{"", " ", "\n", ","}).Draw(rt, "sep") + verifC24Envelope(rt))
		}
		outcome, err := verifC24JudgeDecode(data)
		if err != nil {
			rt.Fatalf("%s input %q: %v", kind, verifC24TruncB(data), err)
		}
		k.Key(kind, data)
		k.SetNonTrivial(json.Valid(data) && bytes.HasPrefix(bytes.TrimLeft(data, " \t\r\n"), []byte("{")) || kind == "mutated valid")
		k.Label("input " + kind)
		if strings.HasPrefix(outcome, "message") {
			k.Label("outcome accepted")
		}
		k.Label("outcome " + outcome)
		k.LabelIf(json.Valid(data), "input is valid JSON")
		k.Sample(func() any { return fmt.Sprintf("%s → %s: %s", kind, outcome, verifC24TruncB(data)) })
	})
}

// TestVerifC24KnownShapes: fixed documents around the message-type decision.
func TestVerifC24KnownShapes(t *testing.T) {
	col := kit.For(t, "C24")
	cases := []string{
		`{"method":"ping","id":"a"}`, `{"method":"ping","id":"a","params":null}`, `{"method":"ping","id":"a","params":{}}`, `{"method":"ping","id":"a","params":[]}`,
		`{"method":"ping"}`, `{"method":"ping","id":null}`, `{"method":"ping","id":1}`, `{"method":"ping","id":""}`, `{"method":"recvack","params":{"messageId":"1","messageSeq":1}}`,
		`{"method":"recvack","id":"x","params":{"messageId":"1","messageSeq":1}}`, `{"method":"recvack","params":{"messageId":"abc","messageSeq":1}}`, `{"id":"a","result":null}`,
		`{"id":"a","error":null}`, `{"id":"a","result":1,"error":{"code":1,"message":"m"}}`, `{"id":"a"}`, `{"result":1}`, `{}`, `[]`, `null`, `1`, `"x"`, `{"method":"send","id":"s","params":{"channelId":"c","channelType":1,"payload":{"content":"Hello!","type":1}}}`,
		`{"method":"send","id":"s","params":{"channelId":"c","channelType":1,"payload":"aGk="}}`, `{"method":"send","id":"s"}`, `{"method":"send","id":"s","params":null}`,
		`{"jsonrpc":"1.0","method":"ping","id":"a"}`, `{"jsonrpc":2,"method":"ping","id":"a"}`, `{"METHOD":"ping","ID":"a"}`, `{"method":"ping","id":"a","id":"b"}`, `{"method":"connect","id":"c","params":{"uid":"u","token":"t","deviceFlag":300,"version":300}}`,
	}
	for _, c := range cases {
		outcome, err := verifC24JudgeDecode([]byte(c))
		if err != nil {
			t.Fatalf("%s: %v", c, err)
		}
		k := col.NewCase()
		k.Key("shape", c)
		k.NonTrivial()
		k.Label("fixed shape")
		c := c
		k.Sample(func() any { return c + " → " + outcome })
		col.Commit(k)
	}
}
