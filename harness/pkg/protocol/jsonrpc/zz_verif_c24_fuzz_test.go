package jsonrpc

import (
	"sync/atomic"
	"testing"

	"github.com/WuKongIM/WuKongIM/pkg/protocol/frame"
	"verif.local/kit"
)

var verifC24FuzzExecs atomic.Int64

// FuzzVerifC24Decode: native fuzzing of Decode (+ ToFrame, re-encode,
// read-back) with the oracle of TestVerifC24DecodeHostile inside the target.
func FuzzVerifC24Decode(f *testing.F) {
	seeds := []string{
		`{"method":"ping","id":"a"}`, `{"method":"ping","id":"a","params":{}}`, `{"jsonrpc":"2.0","method":"connect","id":"c","params":{"uid":"u","token":"t","deviceFlag":1,"version":5,"header":{"noPersist":true}}}`,
		`{"method":"send","id":"s","params":{"channelId":"c","channelType":1,"payload":"aGk=","setting":{"topic":true},"topic":"t","expire":3,"clientMsgNo":"n"}}`,
		`{"method":"recvack","params":{"messageId":"12","messageSeq":18446744073709551615,"header":{"dup":true}}}`, `{"method":"disconnect","id":"d","params":{"reasonCode":1,"reason":"bye"}}`,
		`{"method":"subscribe","id":"x","params":{"subNo":"1","channelId":"c","channelType":2}}`, `{"method":"unsubscribe","id":"x","params":{"subNo":"1","channelId":"c","channelType":2}}`,
		`{"id":"a","result":{"x":1}}`, `{"id":"a","error":{"code":1,"message":"m","data":[1,2]}}`, `{"id":"a","result":null}`, `{"id":"a","error":null}`, `{"id":"a"}`, `{}`, `[]`, `null`, `{"method":"ping","id":null}`,
		`{"method":"ping","id":""}`, `{"method":"ping","id":1}`, `{"method":"event","params":{"id":"e","type":"t","timestamp":1,"data":"{}"}}`, `{"method":"disconnect","params":{"reasonCode":2}}`,
		`{"method":"send","id":"s","params":{"channelId":"c","channelType":1,"payload":{"content":"Hello!"}}}`, `{"method":"send","id":"s","params":{"channelId":"c","channelType":1e2,"payload":"!"}}`,
	}
	for _, s := range seeds {
		f.Add([]byte(s))
	}
	for _, fr := range []frame.Frame{
		&frame.ConnackPacket{ServerKey: "k", Salt: "s", ReasonCode: 1, NodeId: 9}, &frame.SendackPacket{MessageID: -1, MessageSeq: 7, ReasonCode: 1},
		&frame.RecvPacket{Setting: frame.SettingTopic, MessageID: 5, MessageSeq: 6, ChannelID: "c", ChannelType: 2, Topic: "t", FromUID: "u", Payload: []byte("p"), StreamId: 3},
		&frame.EventPacket{Id: "i", Type: "t", Timestamp: 4, Data: []byte(`{"a":1}`)}, &frame.DisconnectPacket{ReasonCode: 3, Reason: "r"}, &frame.PongPacket{},
	} {
		m, err := FromFrame("r1", fr)
		if err != nil {
			f.Fatalf("seed: %v", err)
		}
		b, err := Encode(m)
		if err != nil {
			f.Fatalf("seed: %v", err)
		}
		f.Add(b)
	}
	col := kit.For(f, "C24")
	f.Fuzz(func(t *testing.T, data []byte) {
		if len(data) > 1<<16 {
			return
		}
		outcome, err := verifC24JudgeDecode(data)
		if err != nil {
			t.Fatalf("input %q: %v", verifC24TruncB(data), err)
		}
		if n := verifC24FuzzExecs.Add(1); n%128 == 0 {
			k := col.NewCase()
			k.Key(data)
			k.SetNonTrivial(len(data) > 0 && outcome != "error")
			k.Label("fuzz outcome " + outcome)
			col.Commit(k)
			col.AddExtra("fuzz_execs_sampled_x128", 1)
		}
	})
}
