package wkprotoenc

import (
	"bytes"
	"crypto/aes"
	"crypto/cipher"
	"crypto/md5"
	"encoding/base64"
	"encoding/hex"
	"errors"
	"fmt"
	"strconv"
	"testing"

	"github.com/WuKongIM/WuKongIM/pkg/protocol/frame"
	"golang.org/x/crypto/curve25519"
	"pgregory.net/rapid"
	"verif.local/kit"
)

// ---------------------------------------------------------------- generators

func verifC25Private() *rapid.Generator[[32]byte] {
	return rapid.Custom(func(t *rapid.T) [32]byte {
		var p [32]byte
		copy(p[:], rapid.SliceOfN(rapid.Byte(), 32, 32).Draw(t, "priv"))
		return p
	})
}

func verifC25Public(t *rapid.T, priv [32]byte) [32]byte {
	pub, err := curve25519.X25519(priv[:], curve25519.Basepoint)
	if err != nil {
		t.Fatalf("reference X25519 base mult failed: %v", err)
	}
	var out [32]byte
	copy(out[:], pub)
	return out
}

// verifC25Payload draws a payload whose length covers every value in 0..70
// (all block boundaries of 16) plus the 4 KiB neighbourhood.
func verifC25Payload() *rapid.Generator[[]byte] {
	return rapid.Custom(func(t *rapid.T) []byte {
		var n int
		switch rapid.IntRange(0, 9).Draw(t, "plKind") {
		case 0:
			n = rapid.SampledFrom([]int{0, 1, 15, 16, 17, 31, 32, 33, 47, 48, 49, 63, 64, 65}).Draw(t, "plEdge")
		case 1:
			n = rapid.IntRange(4079, 4113).Draw(t, "plBig")
		default:
			n = rapid.IntRange(0, 70).Draw(t, "plLen")
		}
		if n > 70 {
			seed := rapid.SliceOfN(rapid.Byte(), 1, 8).Draw(t, "plFill")
			b := make([]byte, n)
			for i := range b {
				b[i] = seed[i%len(seed)] + byte(i/len(seed))
			}
			return b
		}
		// payload bytes that look like padding are the interesting ones for PKCS7
		if rapid.IntRange(0, 5).Draw(t, "plPadLike") == 0 && n > 0 {
			v := byte(rapid.IntRange(0, 17).Draw(t, "plPadByte"))
			return bytes.Repeat([]byte{v}, n)
		}
		return rapid.SliceOfN(rapid.Byte(), n, n).Draw(t, "pl")
	})
}

type verifC25Session struct {
	keys       SessionKeys
	negotiated bool
}

// verifC25Keys draws session keys: mostly through the real negotiation
// (client key pair from drawn bytes → NegotiateServerSession), otherwise raw
// 16..24-byte key/IV material (only the first AES block is used, as documented).
func verifC25Keys(t *rapid.T) verifC25Session {
	if rapid.IntRange(0, 3).Draw(t, "keyKind") != 0 {
		priv := verifC25Private().Draw(t, "clientPriv")
		pub := verifC25Public(t, priv)
		keys, _, err := NegotiateServerSession(EncodePublicKey(pub))
		if err != nil {
			t.Fatalf("NegotiateServerSession: %v", err)
		}
		return verifC25Session{keys: keys, negotiated: true}
	}
	kl := rapid.IntRange(16, 24).Draw(t, "keyLen")
	il := rapid.IntRange(16, 24).Draw(t, "ivLen")
	return verifC25Session{keys: SessionKeys{
		AESKey: rapid.SliceOfN(rapid.Byte(), kl, kl).Draw(t, "aesKey"),
		AESIV:  rapid.SliceOfN(rapid.Byte(), il, il).Draw(t, "aesIV"),
	}}
}

// -------------------------------------------------------------- references

// verifC25RefEncrypt: AES-128-CBC + PKCS7 + std base64 with the Go stdlib.
func verifC25RefEncrypt(plain []byte, keys SessionKeys) []byte {
	block, err := aes.NewCipher(keys.AESKey[:16])
	if err != nil {
		panic(err)
	}
	pad := 16 - len(plain)%16
	buf := append(append([]byte(nil), plain...), bytes.Repeat([]byte{byte(pad)}, pad)...)
	cipher.NewCBCEncrypter(block, keys.AESIV[:16]).CryptBlocks(buf, buf)
	return []byte(base64.StdEncoding.EncodeToString(buf))
}

func verifC25RefMsgKey(p *frame.SendPacket, keys SessionKeys) string {
	var sign []byte
	sign = strconv.AppendUint(sign, p.ClientSeq, 10)
	sign = append(sign, p.ClientMsgNo...)
	sign = append(sign, p.ChannelID...)
	sign = strconv.AppendUint(sign, uint64(p.ChannelType), 10)
	sign = append(sign, p.Payload...)
	sum := md5.Sum(verifC25RefEncrypt(sign, keys))
	return hex.EncodeToString(sum[:])
}

func verifC25CloneKeys(k SessionKeys) SessionKeys {
	return SessionKeys{AESKey: append([]byte(nil), k.AESKey...), AESIV: append([]byte(nil), k.AESIV...)}
}

// ------------------------------------------------------------ key agreement

// TestVerifC25KeyAgreement: the client side (DeriveClientSession with its
// private key, the server key and the salt from the connack) derives exactly
// the keys the server side (NegotiateServerSession) holds; the agreement is
// symmetric and both key blocks are usable AES material.
func TestVerifC25KeyAgreement(t *testing.T) {
	kit.Check(t, "C25", func(rt *rapid.T, k *kit.Case) {
		priv := verifC25Private().Draw(rt, "clientPriv")
		pub := verifC25Public(rt, priv)
		clientKey := EncodePublicKey(pub)
		if dec, err := DecodePublicKey(clientKey); err != nil || dec != pub {
			rt.Fatalf("public key encode/decode: %v %x != %x", err, dec, pub)
		}
		serverKeys, serverKey, err := NegotiateServerSession(clientKey)
		if err != nil {
			rt.Fatalf("NegotiateServerSession: %v", err)
		}
		clientKeys, err := DeriveClientSession(priv, serverKey, string(serverKeys.AESIV))
		if err != nil {
			rt.Fatalf("DeriveClientSession: %v", err)
		}
		if !bytes.Equal(clientKeys.AESKey, serverKeys.AESKey) || !bytes.Equal(clientKeys.AESIV, serverKeys.AESIV) {
			rt.Fatalf("client and server derived different keys: client=%q/%q server=%q/%q", clientKeys.AESKey, clientKeys.AESIV, serverKeys.AESKey, serverKeys.AESIV)
		}
		if len(serverKeys.AESKey) != aes.BlockSize || len(serverKeys.AESIV) != aes.BlockSize {
			rt.Fatalf("negotiated key/iv sizes %d/%d, want %d", len(serverKeys.AESKey), len(serverKeys.AESIV), aes.BlockSize)
		}
		// what one side encrypts the other side decrypts
		payload := verifC25Payload().Draw(rt, "payload")
		enc, err := EncryptPayload(payload, clientKeys)
		if err != nil {
			rt.Fatalf("EncryptPayload(client): %v", err)
		}
		dec, err := DecryptPayload(enc, serverKeys)
		if err != nil || !bytes.Equal(dec, payload) {
			rt.Fatalf("server cannot read client payload: err=%v got=%x want=%x", err, dec, payload)
		}
		// symmetric agreement with a second drawn key pair (both sides deterministic)
		priv2 := verifC25Private().Draw(rt, "peerPriv")
		pub2 := verifC25Public(rt, priv2)
		salt := rapid.StringMatching(`[a-zA-Z0-9]{16}`).Draw(rt, "salt")
		a, errA := DeriveClientSession(priv, EncodePublicKey(pub2), salt)
		b, errB := DeriveClientSession(priv2, EncodePublicKey(pub), salt)
		if errA != nil || errB != nil {
			rt.Fatalf("DeriveClientSession symmetric: %v %v", errA, errB)
		}
		if !bytes.Equal(a.AESKey, b.AESKey) || !bytes.Equal(a.AESIV, b.AESIV) || string(a.AESIV) != salt {
			rt.Fatalf("asymmetric agreement: %q/%q vs %q/%q", a.AESKey, a.AESIV, b.AESKey, b.AESIV)
		}
		// a different peer must not yield the same key (sanity that the key depends on the exchange)
		differentPeer := priv2 != priv && !bytes.Equal(a.AESKey, serverKeys.AESKey)
		k.Key(priv[:], priv2[:], salt, payload)
		k.SetNonTrivial(true)
		k.LabelIf(differentPeer, "second peer gives a different key")
		k.LabelIf(len(payload) == 0, "empty payload")
		k.LabelIf(len(payload)%16 == 0 && len(payload) > 0, "payload length multiple of 16")
		k.Sample(func() any {
			return fmt.Sprintf("priv=%x… serverKey=%s key=%q iv=%q payloadLen=%d", priv[:4], serverKey, serverKeys.AESKey, serverKeys.AESIV, len(payload))
		})
	})
}

// ---------------------------------------------------------------- round trip

func verifC25RoundTrip(keys SessionKeys, payload []byte) error {
	sc, err := NewSessionCrypto(keys)
	if err != nil {
		return fmt.Errorf("NewSessionCrypto: %v", err)
	}
	orig := append([]byte(nil), payload...)
	encK, err := EncryptPayload(payload, keys)
	if err != nil {
		return fmt.Errorf("EncryptPayload: %v", err)
	}
	encC, err := EncryptPayloadWithCrypto(payload, sc)
	if err != nil {
		return fmt.Errorf("EncryptPayloadWithCrypto: %v", err)
	}
	if !bytes.Equal(payload, orig) {
		return fmt.Errorf("encrypt modified its input")
	}
	if !bytes.Equal(encK, encC) {
		return fmt.Errorf("keys API and cached API encrypt differently: %s vs %s", encK, encC)
	}
	if ref := verifC25RefEncrypt(payload, keys); !bytes.Equal(ref, encK) {
		return fmt.Errorf("ciphertext differs from stdlib AES-CBC/PKCS7/base64: got %s want %s", encK, ref)
	}
	for name, dec := range map[string]func([]byte) ([]byte, error){
		"DecryptPayload":           func(b []byte) ([]byte, error) { return DecryptPayload(b, keys) },
		"DecryptPayloadWithCrypto": func(b []byte) ([]byte, error) { return DecryptPayloadWithCrypto(b, sc) },
	} {
		in := append([]byte(nil), encK...)
		got, err := dec(in)
		if err != nil {
			return fmt.Errorf("%s(len %d): %v", name, len(payload), err)
		}
		if !bytes.Equal(got, orig) {
			return fmt.Errorf("%s returned %x want %x", name, got, orig)
		}
		if !bytes.Equal(in, encK) {
			return fmt.Errorf("%s modified its input", name)
		}
	}
	// a second use of the cached state gives the same result (no chained state)
	again, err := EncryptPayloadWithCrypto(payload, sc)
	if err != nil || !bytes.Equal(again, encC) {
		return fmt.Errorf("cached crypto is stateful: %s then %s (%v)", encC, again, err)
	}
	return nil
}

// TestVerifC25PayloadRoundTrip: Decrypt(Encrypt(p)) == p for every payload,
// through both APIs, cross-wise, and equal to a stdlib reference ciphertext.
func TestVerifC25PayloadRoundTrip(t *testing.T) {
	kit.Check(t, "C25", func(rt *rapid.T, k *kit.Case) {
		s := verifC25Keys(rt)
		payload := verifC25Payload().Draw(rt, "payload")
		if err := verifC25RoundTrip(s.keys, payload); err != nil {
			rt.Fatalf("%v (key=%x iv=%x)", err, s.keys.AESKey, s.keys.AESIV)
		}
		// RECV sealing: the sealed payload decrypts back, the input packet is untouched
		recv := &frame.RecvPacket{MessageID: int64(rapid.Uint32().Draw(rt, "mid")), MessageSeq: uint64(rapid.Uint32().Draw(rt, "mseq")),
			ChannelID: "c", ChannelType: 2, FromUID: "u", Payload: append([]byte(nil), payload...)}
		sealed, err := SealRecvPacket(recv, s.keys)
		if err != nil {
			rt.Fatalf("SealRecvPacket: %v", err)
		}
		if !bytes.Equal(recv.Payload, payload) || recv.MsgKey != "" {
			rt.Fatalf("SealRecvPacket modified its input packet")
		}
		got, err := DecryptPayload(sealed.Payload, s.keys)
		if err != nil || !bytes.Equal(got, payload) {
			rt.Fatalf("sealed RECV payload does not decrypt: %v %x want %x", err, got, payload)
		}
		if sealed.MsgKey == "" {
			rt.Fatalf("sealed RECV has no msg key")
		}
		k.Key(s.keys.AESKey, s.keys.AESIV, payload)
		k.SetNonTrivial(true)
		k.LabelIf(s.negotiated, "negotiated keys")
		k.LabelIf(!s.negotiated, "raw key material")
		k.LabelIf(len(payload) == 0, "empty payload")
		k.LabelIf(len(payload) > 0 && len(payload)%16 == 0, "payload length multiple of 16")
		k.LabelIf(len(payload)%16 == 15, "payload length ≡ 15 mod 16")
		k.LabelIf(len(payload)%16 == 1, "payload length ≡ 1 mod 16")
		k.LabelIf(len(payload) > 70, "payload ≈ 4 KiB")
		k.Sample(func() any { return fmt.Sprintf("key=%q iv=%q len=%d", s.keys.AESKey, s.keys.AESIV, len(payload)) })
	})
}

// TestVerifC25BoundarySweep: every payload length 0..70 and 4064..4128, three
// fill patterns each, under keys derived from the process seed.
func TestVerifC25BoundarySweep(t *testing.T) {
	col := kit.For(t, "C25")
	seed := kit.Seed()
	mk := func(tag byte) []byte {
		sum := md5.Sum([]byte(fmt.Sprintf("%d/%d", seed, tag)))
		return sum[:]
	}
	keys := SessionKeys{AESKey: mk(1), AESIV: mk(2)}
	lens := []int{}
	for n := 0; n <= 70; n++ {
		lens = append(lens, n)
	}
	for n := 4064; n <= 4128; n++ {
		lens = append(lens, n)
	}
	for _, n := range lens {
		for fill := 0; fill < 3; fill++ {
			p := make([]byte, n)
			for i := range p {
				switch fill {
				case 0:
					p[i] = byte(i*31) ^ mk(3)[i%16]
				case 1:
					p[i] = byte(16 - n%16) // looks like its own padding
				case 2:
					p[i] = 0
				}
			}
			if err := verifC25RoundTrip(keys, p); err != nil {
				t.Fatalf("len=%d fill=%d: %v", n, fill, err)
			}
			k := col.NewCase()
			k.Key("sweep", n, fill, keys.AESKey)
			k.NonTrivial()
			k.Label("boundary sweep case")
			n, fill := n, fill
			k.Sample(func() any { return fmt.Sprintf("sweep len=%d fill=%d", n, fill) })
			col.Commit(k)
		}
	}
}

// ------------------------------------------------------------------- tamper

func verifC25ID(label string, max int) *rapid.Generator[string] {
	return rapid.Custom(func(t *rapid.T) string {
		switch rapid.IntRange(0, 3).Draw(t, label+"Kind") {
		case 0:
			return rapid.StringMatching(`[0-9]{1,6}`).Draw(t, label+"Digits")
		case 1:
			return rapid.StringN(0, max, max*4).Draw(t, label+"Utf8")
		default:
			return rapid.StringMatching(`[a-zA-Z0-9_\-]{1,`+strconv.Itoa(max)+`}`).Draw(t, label+"Ident")
		}
	})
}

func verifC25Send(t *rapid.T) *frame.SendPacket {
	var seq uint64
	switch rapid.IntRange(0, 3).Draw(t, "seqKind") {
	case 0:
		seq = rapid.SampledFrom([]uint64{0, 1, 9, 10, 99, 100, 1<<31 - 1, 1 << 31, 1<<32 - 2, 1<<32 - 1}).Draw(t, "seqEdge")
	case 1:
		seq = uint64(rapid.IntRange(1, 2000).Draw(t, "seqSmall"))
	default:
		seq = uint64(rapid.Uint32().Draw(t, "seq"))
	}
	chType := uint8(rapid.SampledFrom([]int{1, 2, 3, 4, 5, 6, 7, 8, 9, 10, 11, 12, 100, 255, 0}).Draw(t, "chType"))
	p := &frame.SendPacket{
		ClientSeq:   seq,
		ClientMsgNo: verifC25ID("msgNo", 36).Draw(t, "clientMsgNo"),
		ChannelID:   verifC25ID("chan", 24).Draw(t, "channelID"),
		ChannelType: chType,
		Expire:      rapid.Uint32().Draw(t, "expire"),
	}
	if p.ChannelID == "" {
		p.ChannelID = "c"
	}
	if rapid.Bool().Draw(t, "hasTopic") {
		p.Setting = p.Setting.Set(frame.SettingTopic)
		p.Topic = "t"
	}
	return p
}

type verifC25Validator struct {
	name string
	fn   func(*frame.SendPacket) error
}

func verifC25Validators(keys SessionKeys, sc *SessionCrypto) []verifC25Validator {
	return []verifC25Validator{
		{"ValidateSendPacket", func(p *frame.SendPacket) error { return ValidateSendPacket(p, keys) }},
		{"ValidateSendPacketWithCrypto", func(p *frame.SendPacket) error { return ValidateSendPacketWithCrypto(p, sc) }},
	}
}

// verifC25MustReject asserts that both validation entry points refuse p.
func verifC25MustReject(rt *rapid.T, vs []verifC25Validator, p *frame.SendPacket, what string) {
	for _, v := range vs {
		err := v.fn(p)
		if err == nil {
			rt.Fatalf("%s accepted a SEND with altered %s: %s", v.name, what, verifC25Describe(p))
		}
		if !errors.Is(err, ErrMsgKeyMismatch) {
			rt.Fatalf("%s rejected altered %s with %v, want ErrMsgKeyMismatch", v.name, what, err)
		}
	}
}

func verifC25Describe(p *frame.SendPacket) string {
	return fmt.Sprintf("seq=%d msgNo=%q chan=%q type=%d msgKey=%q payload=%q", p.ClientSeq, p.ClientMsgNo, p.ChannelID, p.ChannelType, p.MsgKey, verifC25Trunc(p.Payload))
}

func verifC25Trunc(b []byte) []byte {
	if len(b) > 96 {
		return append(append([]byte(nil), b[:96]...), "…"...)
	}
	return b
}

// TestVerifC25SendTamper: a sealed SEND validates; every single-field
// perturbation of payload (ciphertext), MsgKey, ClientSeq, ClientMsgNo,
// ChannelID or ChannelType fails validation with ErrMsgKeyMismatch; a
// perturbed raw ciphertext additionally never decrypts to the original bytes.
func TestVerifC25SendTamper(t *testing.T) {
	kit.Check(t, "C25", func(rt *rapid.T, k *kit.Case) {
		s := verifC25Keys(rt)
		keys := s.keys
		sc, err := NewSessionCrypto(keys)
		if err != nil {
			rt.Fatalf("NewSessionCrypto: %v", err)
		}
		plain := verifC25Payload().Draw(rt, "payload")
		p := verifC25Send(rt)
		if p.Payload, err = EncryptPayloadWithCrypto(plain, sc); err != nil {
			rt.Fatalf("EncryptPayloadWithCrypto: %v", err)
		}
		// the client seals with either API; both must agree with the reference
		useKeysAPI := rapid.Bool().Draw(rt, "sealWithKeysAPI")
		if useKeysAPI {
			p.MsgKey, err = SendMsgKey(p, keys)
		} else {
			p.MsgKey, err = SendMsgKeyWithCrypto(p, sc)
		}
		if err != nil {
			rt.Fatalf("SendMsgKey: %v", err)
		}
		if ref := verifC25RefMsgKey(p, keys); ref != p.MsgKey {
			rt.Fatalf("msg key %q differs from reference %q for %s", p.MsgKey, ref, verifC25Describe(p))
		}
		vs := verifC25Validators(verifC25CloneKeys(keys), sc)
		for _, v := range vs {
			if err := v.fn(p); err != nil {
				rt.Fatalf("%s rejected an untouched sealed SEND: %v (%s)", v.name, err, verifC25Describe(p))
			}
		}
		snapshot := *p
		snapshot.Payload = append([]byte(nil), p.Payload...)
		clone := func() *frame.SendPacket {
			c := snapshot
			c.Payload = append([]byte(nil), snapshot.Payload...)
			return &c
		}

		// 1. raw ciphertext perturbation (canonical re-encoding)
		raw, err := base64.StdEncoding.DecodeString(string(p.Payload))
		if err != nil {
			rt.Fatalf("sealed payload is not base64: %v", err)
		}
		ctKind := rapid.SampledFrom([]string{"flipbit", "setbyte", "swap-blocks", "drop-last-block", "append-block"}).Draw(rt, "ctKind")
		mraw := append([]byte(nil), raw...)
		switch ctKind {
		case "flipbit":
			mraw[rapid.IntRange(0, len(mraw)-1).Draw(rt, "ctPos")] ^= 1 << rapid.IntRange(0, 7).Draw(rt, "ctBit")
		case "setbyte":
			pos := rapid.IntRange(0, len(mraw)-1).Draw(rt, "ctPos")
			v := rapid.Byte().Draw(rt, "ctVal")
			if v == mraw[pos] {
				v ^= 0xa5
			}
			mraw[pos] = v
		case "swap-blocks":
			if len(mraw) >= 32 && !bytes.Equal(mraw[:16], mraw[16:32]) {
				tmp := append([]byte(nil), mraw[:16]...)
				copy(mraw[:16], mraw[16:32])
				copy(mraw[16:32], tmp)
			} else {
				mraw[0] ^= 1
			}
		case "drop-last-block":
			if len(mraw) >= 32 {
				mraw = mraw[:len(mraw)-16]
			} else {
				mraw[len(mraw)-1] ^= 0x80
			}
		case "append-block":
			mraw = append(mraw, mraw[:16]...)
		}
		tp := clone()
		tp.Payload = []byte(base64.StdEncoding.EncodeToString(mraw))
		verifC25MustReject(rt, vs, tp, "ciphertext("+ctKind+")")
		decOutcome := "decrypt error"
		for name, dec := range map[string]func([]byte) ([]byte, error){
			"DecryptPayload":           func(b []byte) ([]byte, error) { return DecryptPayload(b, keys) },
			"DecryptPayloadWithCrypto": func(b []byte) ([]byte, error) { return DecryptPayloadWithCrypto(b, sc) },
		} {
			got, err := dec(append([]byte(nil), tp.Payload...))
			if err == nil {
				decOutcome = "different plaintext"
				if bytes.Equal(got, plain) {
					rt.Fatalf("%s: perturbed ciphertext (%s) decrypts to the original plaintext %x", name, ctKind, plain)
				}
			}
		}

		// 2. byte-level perturbation of the payload as carried (base64 text)
		tp = clone()
		var pm kit.Mutation
		tp.Payload, pm = kit.Mutate(rt, snapshot.Payload)
		verifC25MustReject(rt, vs, tp, "payload bytes("+pm.Kind+")")
		malleable := false
		if got, err := DecryptPayloadWithCrypto(append([]byte(nil), tp.Payload...), sc); err == nil && bytes.Equal(got, plain) {
			malleable = true // non-canonical base64 tail; still refused by validation above
		}

		// 3. message key
		tp = clone()
		mkKind := rapid.SampledFrom([]string{"mutate", "empty", "upper", "other-packet"}).Draw(rt, "mkKind")
		switch mkKind {
		case "mutate":
			b, _ := kit.Mutate(rt, []byte(snapshot.MsgKey))
			tp.MsgKey = string(b)
		case "empty":
			tp.MsgKey = ""
		case "upper":
			tp.MsgKey = string(bytes.ToUpper([]byte(snapshot.MsgKey)))
			if tp.MsgKey == snapshot.MsgKey { // all digits
				tp.MsgKey = snapshot.MsgKey[1:] + snapshot.MsgKey[:1]
				if tp.MsgKey == snapshot.MsgKey {
					tp.MsgKey = ""
				}
			}
		case "other-packet":
			o := clone()
			o.ClientSeq++
			tp.MsgKey, _ = SendMsgKeyWithCrypto(o, sc)
		}
		verifC25MustReject(rt, vs, tp, "MsgKey("+mkKind+")")

		// 4. covered header fields, one at a time
		tp = clone()
		if rapid.Bool().Draw(rt, "seqFlip") {
			tp.ClientSeq ^= 1 << rapid.IntRange(0, 31).Draw(rt, "seqBit")
		} else {
			tp.ClientSeq = tp.ClientSeq*10 + uint64(rapid.IntRange(0, 9).Draw(rt, "seqDigit")) // decimal neighbour
			if tp.ClientSeq == snapshot.ClientSeq {
				tp.ClientSeq = 1
			}
		}
		verifC25MustReject(rt, vs, tp, "ClientSeq")

		tp = clone()
		b, _ := kit.Mutate(rt, []byte(snapshot.ClientMsgNo))
		tp.ClientMsgNo = string(b)
		verifC25MustReject(rt, vs, tp, "ClientMsgNo")

		tp = clone()
		b, _ = kit.Mutate(rt, []byte(snapshot.ChannelID))
		tp.ChannelID = string(b)
		verifC25MustReject(rt, vs, tp, "ChannelID")

		tp = clone()
		tp.ChannelType ^= 1 << rapid.IntRange(0, 7).Draw(rt, "typeBit")
		verifC25MustReject(rt, vs, tp, "ChannelType")

		// the original is still accepted afterwards (no state was poisoned, pooled scratch is clean)
		for _, v := range vs {
			if err := v.fn(clone()); err != nil {
				rt.Fatalf("%s rejected the untouched SEND after the tamper attempts: %v", v.name, err)
			}
		}

		// observation only (outside the stated single-field domain): the signed
		// string is an unframed concatenation, so moving a byte across the
		// ClientMsgNo/ChannelID boundary keeps the key valid.
		spliceAccepted := false
		if len(snapshot.ClientMsgNo) > 0 {
			tp = clone()
			n := len(snapshot.ClientMsgNo)
			tp.ClientMsgNo, tp.ChannelID = snapshot.ClientMsgNo[:n-1], snapshot.ClientMsgNo[n-1:]+snapshot.ChannelID
			spliceAccepted = vs[0].fn(tp) == nil
		}
		// observation only: fields the key does not cover
		tp = clone()
		tp.Expire++
		tp.Topic += "x"
		uncoveredAccepted := vs[0].fn(tp) == nil

		k.Key(keys.AESKey, keys.AESIV, plain, snapshot.ClientSeq, snapshot.ClientMsgNo, snapshot.ChannelID, snapshot.ChannelType, ctKind, mkKind, pm.Kind, pm.Pos)
		k.SetNonTrivial(true)
		k.Label("ciphertext " + ctKind + " → " + decOutcome)
		k.Label("payload bytes " + pm.Kind)
		k.Label("msgkey " + mkKind)
		k.LabelIf(malleable, "observation: non-canonical base64 decrypts to same plaintext (validation still refuses)")
		k.LabelIf(spliceAccepted, "observation: cross-field byte move accepted (out of domain)")
		k.LabelIf(uncoveredAccepted, "observation: Expire/Topic change accepted (uncovered fields)")
		k.LabelIf(s.negotiated, "negotiated keys")
		k.LabelIf(len(plain) == 0, "empty payload")
		k.Sample(func() any { return verifC25Describe(&snapshot) + " ct=" + ctKind + " mk=" + mkKind })
	})
}
