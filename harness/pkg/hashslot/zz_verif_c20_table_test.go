package hashslot

import (
	"bytes"
	"fmt"
	"sort"
	"testing"

	"github.com/WuKongIM/WuKongIM/pkg/slot/multiraft"
	"pgregory.net/rapid"
	"verif.local/kit"
)

// ---------------------------------------------------------------------------
// Reference model: the owner of every hash slot, the active migrations and the
// last observed version. It is driven by the same operations as the real
// table and compared through the table's public API after every operation.
// ---------------------------------------------------------------------------

type verifC20Model struct {
	h          int
	owner      []multiraft.SlotID
	migrations map[uint16]HashSlotMigration
}

func verifC20NewModel(h, s int) *verifC20Model {
	m := &verifC20Model{h: h, owner: make([]multiraft.SlotID, h), migrations: map[uint16]HashSlotMigration{}}
	// contiguous initial layout: slot i (1-based) gets floor(h/s) hash slots,
	// the first h mod s slots one more.
	base, rem, next := h/s, h%s, 0
	for i := 0; i < s; i++ {
		n := base
		if i < rem {
			n++
		}
		for j := 0; j < n; j++ {
			m.owner[next] = multiraft.SlotID(i + 1)
			next++
		}
	}
	return m
}

func (m *verifC20Model) shares() map[multiraft.SlotID]int {
	out := map[multiraft.SlotID]int{}
	for _, o := range m.owner {
		out[o]++
	}
	return out
}

func (m *verifC20Model) active() []multiraft.SlotID {
	sh := m.shares()
	out := make([]multiraft.SlotID, 0, len(sh))
	for id := range sh {
		out = append(out, id)
	}
	sort.Slice(out, func(i, j int) bool { return out[i] < out[j] })
	return out
}

func (m *verifC20Model) sortedMigrations() []HashSlotMigration {
	out := make([]HashSlotMigration, 0, len(m.migrations))
	for _, mg := range m.migrations {
		out = append(out, mg)
	}
	sort.Slice(out, func(i, j int) bool { return out[i].HashSlot < out[j].HashSlot })
	return out
}

// observable state of a model, used to decide whether an operation was an
// effective change.
func (m *verifC20Model) fingerprint() string {
	return fmt.Sprintf("%v|%v", m.owner, m.sortedMigrations())
}

func verifC20Balanced(sh map[multiraft.SlotID]int, ids []multiraft.SlotID, h int) bool {
	n := len(ids)
	if n == 0 {
		return true
	}
	lo, hi := h/n, (h+n-1)/n
	for _, id := range ids {
		if sh[id] < lo || sh[id] > hi {
			return false
		}
	}
	return true
}

// verifC20CheckTable compares the real table with the model and checks the
// "every hash slot has exactly one owner" clause through the public API.
func verifC20CheckTable(fail func(string, ...any), t *HashSlotTable, m *verifC20Model) {
	if int(t.HashSlotCount()) != m.h {
		fail("HashSlotCount=%d want %d", t.HashSlotCount(), m.h)
	}
	assigned := t.AssignedSlotIDs()
	inAssigned := map[multiraft.SlotID]bool{}
	for i, id := range assigned {
		if id == 0 {
			fail("AssignedSlotIDs contains 0")
		}
		if i > 0 && assigned[i-1] >= id {
			fail("AssignedSlotIDs not strictly ascending: %v", assigned)
		}
		inAssigned[id] = true
	}
	for hs := 0; hs < m.h; hs++ {
		got := t.Lookup(uint16(hs))
		if got == 0 {
			fail("hash slot %d has no owner", hs)
		}
		if got != m.owner[hs] {
			fail("Lookup(%d)=%d, history implies owner %d", hs, got, m.owner[hs])
		}
		if !inAssigned[got] {
			fail("owner %d of hash slot %d missing from AssignedSlotIDs %v", got, hs, assigned)
		}
	}
	// m.h <= 4096 in every generator, so these are outside the table
	if got := t.Lookup(uint16(m.h)); got != 0 {
		fail("Lookup(count=%d)=%d want 0 (outside the table)", m.h, got)
	}
	if got := t.Lookup(65535); got != 0 {
		fail("Lookup(65535)=%d want 0 (outside the table)", got)
	}
	// the union of HashSlotsOf over the assigned slots partitions [0,h)
	covered := make([]int, m.h)
	total := 0
	for _, id := range assigned {
		hss := t.HashSlotsOf(id)
		if len(hss) == 0 {
			fail("assigned slot %d owns no hash slot", id)
		}
		for i, hs := range hss {
			if int(hs) >= m.h {
				fail("HashSlotsOf(%d) contains %d >= count %d", id, hs, m.h)
			}
			if i > 0 && hss[i-1] >= hs {
				fail("HashSlotsOf(%d) not strictly ascending", id)
			}
			if t.Lookup(hs) != id {
				fail("HashSlotsOf(%d) contains %d owned by %d", id, hs, t.Lookup(hs))
			}
			covered[hs]++
			total++
		}
	}
	if total != m.h {
		fail("HashSlotsOf over assigned slots covers %d hash slots, want %d", total, m.h)
	}
	for hs, c := range covered {
		if c != 1 {
			fail("hash slot %d is owned by %d slots", hs, c)
		}
	}
	// a slot id that owns nothing
	if hss := t.HashSlotsOf(0); len(hss) != 0 {
		fail("HashSlotsOf(0)=%v want empty", hss)
	}
	// migrations
	want := m.sortedMigrations()
	got := t.ActiveMigrations()
	if len(got) != len(want) {
		fail("ActiveMigrations=%v want %v", got, want)
	}
	for i := range want {
		if got[i] != want[i] {
			fail("ActiveMigrations[%d]=%+v want %+v", i, got[i], want[i])
		}
		g := t.GetMigration(want[i].HashSlot)
		if g == nil || *g != want[i] {
			fail("GetMigration(%d)=%v want %+v", want[i].HashSlot, g, want[i])
		}
	}
}

func verifC20SameTable(a, b *HashSlotTable) string {
	if a.version != b.version {
		return fmt.Sprintf("version %d vs %d", a.version, b.version)
	}
	if a.hashSlotCount != b.hashSlotCount {
		return fmt.Sprintf("hashSlotCount %d vs %d", a.hashSlotCount, b.hashSlotCount)
	}
	if len(a.assignment) != len(b.assignment) {
		return fmt.Sprintf("assignment length %d vs %d", len(a.assignment), len(b.assignment))
	}
	for i := range a.assignment {
		if a.assignment[i] != b.assignment[i] {
			return fmt.Sprintf("assignment[%d] %d vs %d", i, a.assignment[i], b.assignment[i])
		}
	}
	if len(a.migrations) != len(b.migrations) {
		return fmt.Sprintf("migrations %v vs %v", a.migrations, b.migrations)
	}
	for k, v := range a.migrations {
		if w, ok := b.migrations[k]; !ok || v != w {
			return fmt.Sprintf("migration[%d] %+v vs %+v (present=%v)", k, v, w, ok)
		}
	}
	if a.Version() != b.Version() || a.HashSlotCount() != b.HashSlotCount() {
		return "public Version/HashSlotCount differ"
	}
	return ""
}

// verifC20RoundTrip: Decode(Encode(t)) equals t including active migrations,
// the encoding is stable, and a clone is equal and independent.
func verifC20RoundTrip(fail func(string, ...any), t *HashSlotTable) {
	enc := t.Encode()
	dec, err := DecodeHashSlotTable(enc)
	if err != nil {
		fail("DecodeHashSlotTable(Encode(t)): %v", err)
	}
	if d := verifC20SameTable(t, dec); d != "" {
		fail("Decode(Encode(t)) differs from t: %s", d)
	}
	if again := dec.Encode(); !bytes.Equal(again, enc) {
		fail("Encode not stable across decode: %d vs %d bytes", len(again), len(enc))
	}
	if again := t.Encode(); !bytes.Equal(again, enc) {
		fail("Encode not deterministic on the same table")
	}
	cl := t.Clone()
	if d := verifC20SameTable(t, cl); d != "" {
		fail("Clone differs from t: %s", d)
	}
	// mutate the clone and the decoded copy; the original must not move
	if t.HashSlotCount() > 0 {
		cl.Reassign(0, cl.Lookup(0)+1)
		cl.StartMigration(0, cl.Lookup(0), cl.Lookup(0)+7)
		cl.AbortMigration(0)
		dec.Reassign(0, dec.Lookup(0)+1)
		for _, mg := range dec.ActiveMigrations() {
			dec.AbortMigration(mg.HashSlot)
		}
	}
	if again := t.Encode(); !bytes.Equal(again, enc) {
		fail("mutating a clone / decoded copy changed the original table")
	}
}

type verifC20Plan struct {
	kind string // add | remove | rebalance
	arg  multiraft.SlotID
}

type verifC20Flags struct {
	planNonEmpty, planBalancedPre, planUnbalancedPre bool
	add, remove, rebalance                           bool
	planWithMigrations                               bool
	maxPlan                                          int
}

// verifC20CheckPlan computes a plan on the real table, checks its validity
// against the model (pre-state), applies it to both and checks the balance
// clause. apply = 0: Reassign; 1: StartMigration+FinalizeMigration where the
// hash slot is not already migrating.
func verifC20CheckPlan(fail func(string, ...any), t *HashSlotTable, m *verifC20Model, p verifC20Plan, apply int, fl *verifC20Flags) {
	pre := m.shares()
	preActive := m.active()
	preBalanced := verifC20Balanced(pre, preActive, m.h)
	isActive := func(id multiraft.SlotID) bool { return pre[id] > 0 }
	encBefore := t.Encode()

	var plan []MigrationPlan
	switch p.kind {
	case "add":
		plan = ComputeAddSlotPlan(t, p.arg)
	case "remove":
		plan = ComputeRemoveSlotPlan(t, p.arg)
	default:
		plan = ComputeRebalancePlan(t)
	}
	if !bytes.Equal(encBefore, t.Encode()) {
		fail("%s plan computation modified the table", p.kind)
	}
	// deterministic
	var plan2 []MigrationPlan
	switch p.kind {
	case "add":
		plan2 = ComputeAddSlotPlan(t, p.arg)
	case "remove":
		plan2 = ComputeRemoveSlotPlan(t, p.arg)
	default:
		plan2 = ComputeRebalancePlan(t)
	}
	if fmt.Sprint(plan) != fmt.Sprint(plan2) {
		fail("%s plan not deterministic: %v vs %v", p.kind, plan, plan2)
	}

	// validity: each hash slot at most once, only away from its current owner
	seen := map[uint16]bool{}
	donors := map[multiraft.SlotID]bool{}
	receivers := map[multiraft.SlotID]bool{}
	for i, st := range plan {
		if int(st.HashSlot) >= m.h {
			fail("%s plan[%d] moves hash slot %d outside the table (count %d)", p.kind, i, st.HashSlot, m.h)
		}
		if seen[st.HashSlot] {
			fail("%s plan moves hash slot %d more than once: %v", p.kind, st.HashSlot, plan)
		}
		seen[st.HashSlot] = true
		if st.From != m.owner[st.HashSlot] {
			fail("%s plan[%d] moves hash slot %d from %d but its owner is %d", p.kind, i, st.HashSlot, st.From, m.owner[st.HashSlot])
		}
		if st.To == st.From {
			fail("%s plan[%d] moves hash slot %d to its current owner %d", p.kind, i, st.HashSlot, st.To)
		}
		if st.To == 0 {
			fail("%s plan[%d] moves hash slot %d to slot 0", p.kind, i, st.HashSlot)
		}
		donors[st.From] = true
		receivers[st.To] = true
		switch p.kind {
		case "add":
			if st.To != p.arg {
				fail("add(%d) plan[%d] targets slot %d", p.arg, i, st.To)
			}
		case "remove":
			if st.From != p.arg {
				fail("remove(%d) plan[%d] takes from slot %d", p.arg, i, st.From)
			}
			if !isActive(st.To) {
				fail("remove(%d) plan[%d] targets slot %d which owns nothing", p.arg, i, st.To)
			}
		default:
			if !isActive(st.To) {
				fail("rebalance plan[%d] targets slot %d which owns nothing", i, st.To)
			}
		}
	}
	for id := range donors {
		if receivers[id] {
			fail("%s plan uses slot %d both as source and as target: %v", p.kind, id, plan)
		}
	}

	// apply to the real table and to the model
	for _, st := range plan {
		v0 := t.Version()
		if apply == 1 && t.GetMigration(st.HashSlot) == nil {
			t.StartMigration(st.HashSlot, st.From, st.To)
			if mg := t.GetMigration(st.HashSlot); mg == nil || mg.Source != st.From || mg.Target != st.To || mg.Phase != PhaseSnapshot {
				fail("StartMigration for plan step %+v did not register: %v", st, mg)
			}
			v1 := t.Version()
			if v1 <= v0 {
				fail("version did not increase on StartMigration (%d -> %d)", v0, v1)
			}
			t.FinalizeMigration(st.HashSlot)
			if t.Version() <= v1 {
				fail("version did not increase on FinalizeMigration (%d -> %d)", v1, t.Version())
			}
		} else {
			t.Reassign(st.HashSlot, st.To)
			if t.Version() <= v0 {
				fail("version did not increase when applying plan step %+v (%d -> %d)", st, v0, t.Version())
			}
		}
		m.owner[st.HashSlot] = st.To
	}
	verifC20CheckTable(fail, t, m)

	post := m.shares()
	switch p.kind {
	case "add":
		if p.arg != 0 && !isActive(p.arg) {
			n := len(preActive) + 1
			lo, hi := m.h/n, (m.h+n-1)/n
			if post[p.arg] < lo || post[p.arg] > hi {
				fail("add(%d): new slot owns %d hash slots, ideal share is %d..%d (h=%d n=%d) pre=%v", p.arg, post[p.arg], lo, hi, m.h, n, pre)
			}
			if len(plan) != post[p.arg] {
				fail("add(%d): plan has %d steps but new slot owns %d", p.arg, len(plan), post[p.arg])
			}
			for id := range donors {
				if post[id] < lo {
					fail("add(%d): donor %d drained to %d, below its ideal share %d..%d", p.arg, id, post[id], lo, hi)
				}
			}
			if preBalanced {
				for _, id := range append(append([]multiraft.SlotID(nil), preActive...), p.arg) {
					if post[id] < lo || post[id] > hi {
						fail("add(%d) on a balanced table: slot %d owns %d, ideal share %d..%d (h=%d n=%d) pre=%v post=%v", p.arg, id, post[id], lo, hi, m.h, n, pre, post)
					}
				}
			}
		}
	case "remove":
		if isActive(p.arg) && len(preActive) > 1 {
			n := len(preActive) - 1
			lo, hi := m.h/n, (m.h+n-1)/n
			if post[p.arg] != 0 {
				fail("remove(%d): slot still owns %d hash slots after the plan; pre=%v plan=%v", p.arg, post[p.arg], pre, plan)
			}
			if len(plan) != pre[p.arg] {
				fail("remove(%d): plan has %d steps but the slot owned %d", p.arg, len(plan), pre[p.arg])
			}
			for id := range receivers {
				if post[id] > hi {
					fail("remove(%d): receiver %d filled to %d, above its ideal share %d..%d", p.arg, id, post[id], lo, hi)
				}
			}
			if preBalanced {
				for _, id := range preActive {
					if id == p.arg {
						continue
					}
					if post[id] < lo || post[id] > hi {
						fail("remove(%d) on a balanced table: slot %d owns %d, ideal share %d..%d (h=%d n=%d) pre=%v post=%v", p.arg, id, post[id], lo, hi, m.h, n, pre, post)
					}
				}
			}
		} else if len(plan) != 0 && !isActive(p.arg) {
			fail("remove(%d): slot owns nothing but plan is %v", p.arg, plan)
		}
	default:
		n := len(preActive)
		lo, hi := m.h/n, (m.h+n-1)/n
		for _, id := range preActive {
			if post[id] < lo || post[id] > hi {
				fail("rebalance: slot %d owns %d, ideal share %d..%d (h=%d n=%d) pre=%v post=%v", id, post[id], lo, hi, m.h, n, pre, post)
			}
		}
		if len(post) != len(pre) {
			fail("rebalance changed the set of participating slots: pre=%v post=%v", pre, post)
		}
	}

	if fl != nil {
		if len(plan) > 0 {
			fl.planNonEmpty = true
			switch p.kind {
			case "add":
				fl.add = true
			case "remove":
				fl.remove = true
			default:
				fl.rebalance = true
			}
			if preBalanced {
				fl.planBalancedPre = true
			} else {
				fl.planUnbalancedPre = true
			}
			if len(m.migrations) > 0 {
				fl.planWithMigrations = true
			}
			if len(plan) > fl.maxPlan {
				fl.maxPlan = len(plan)
			}
		}
	}
}

func verifC20HashSlotCount() *rapid.Generator[int] {
	return rapid.Custom(func(t *rapid.T) int {
		switch rapid.IntRange(0, 9).Draw(t, "hKind") {
		case 0, 1, 2, 3, 4:
			return rapid.IntRange(1, 64).Draw(t, "hSmall")
		case 5:
			return 256
		case 6:
			return rapid.SampledFrom([]int{1, 2, 63, 64, 65, 127, 128, 255, 257, 1024, 4095, 4096}).Draw(t, "hEdge")
		case 7, 8:
			return rapid.IntRange(65, 512).Draw(t, "hMid")
		default:
			return rapid.IntRange(513, 4096).Draw(t, "hBig")
		}
	})
}

// TestVerifC20Table: random histories of reassignments, migrations, plans,
// encode/decode and clone steps against the reference model.
func TestVerifC20Table(t *testing.T) {
	kit.Check(t, "C20", func(rt *rapid.T, k *kit.Case) {
		fail := func(f string, a ...any) { rt.Helper(); rt.Fatalf(f, a...) }
		h := verifC20HashSlotCount().Draw(rt, "h")
		s := rapid.IntRange(1, 64).Draw(rt, "s")
		tbl := NewHashSlotTable(uint16(h), s)
		eff := s
		if eff > h {
			eff = h
		}
		m := verifC20NewModel(h, eff)
		if tbl.Version() == 0 {
			fail("new table has version 0")
		}
		verifC20CheckTable(fail, tbl, m)
		if !verifC20Balanced(m.shares(), m.active(), h) {
			fail("initial layout not balanced: %v", m.shares())
		}
		verifC20RoundTrip(fail, tbl)

		var fl verifC20Flags
		var trace []string
		effective, noops, decodes, migStarted, migFinal, rtWithMig := 0, 0, 0, 0, 0, 0
		nOps := rapid.IntRange(1, 24).Draw(rt, "nOps")
		if h > 512 && nOps > 8 {
			nOps = 8
		}
		maxID := s + 3
		slotID := func(label string) multiraft.SlotID {
			if rapid.IntRange(0, 19).Draw(rt, label+"Wild") == 0 {
				return multiraft.SlotID(kit.Uint64Edge().Filter(func(v uint64) bool { return v != 0 }).Draw(rt, label+"Big"))
			}
			return multiraft.SlotID(rapid.IntRange(1, maxID).Draw(rt, label))
		}
		hashSlot := func(label string) int {
			// mostly inside the table, sometimes just outside
			if rapid.IntRange(0, 11).Draw(rt, label+"Out") == 0 {
				return rapid.SampledFrom([]int{h, h + 1, 65535}).Draw(rt, label+"OutV")
			}
			if len(m.migrations) > 0 && rapid.Bool().Draw(rt, label+"Mig") {
				keys := make([]int, 0, len(m.migrations))
				for hs := range m.migrations {
					keys = append(keys, int(hs))
				}
				sort.Ints(keys)
				return rapid.SampledFrom(keys).Draw(rt, label+"MigV")
			}
			return rapid.IntRange(0, h-1).Draw(rt, label)
		}
		for i := 0; i < nOps; i++ {
			before := m.fingerprint()
			v0 := tbl.Version()
			op := rapid.SampledFrom([]string{"reassign", "reassign", "start", "start", "start", "startBad", "advance", "advance", "finalize", "finalize", "finalize", "abort", "plan", "plan", "plan", "decode", "clone"}).Draw(rt, "op")
			switch op {
			case "reassign":
				hs := hashSlot("hs")
				to := slotID("to")
				if hs < h && rapid.IntRange(0, 5).Draw(rt, "same") == 0 {
					to = m.owner[hs]
				}
				tbl.Reassign(uint16(hs), to)
				if hs < h {
					m.owner[hs] = to
				}
				trace = append(trace, fmt.Sprintf("reassign(%d,%d)", hs, to))
			case "start":
				hs := hashSlot("hs")
				var src multiraft.SlotID
				if hs < h {
					src = m.owner[hs]
				} else {
					src = slotID("src")
				}
				dst := slotID("dst")
				tbl.StartMigration(uint16(hs), src, dst)
				if _, dup := m.migrations[uint16(hs)]; hs < h && !dup && src != dst {
					m.migrations[uint16(hs)] = HashSlotMigration{HashSlot: uint16(hs), Source: src, Target: dst, Phase: PhaseSnapshot}
					migStarted++
				}
				trace = append(trace, fmt.Sprintf("start(%d,%d,%d)", hs, src, dst))
			case "startBad":
				// a request that does not describe the current owner, or is degenerate: never takes effect
				hs := hashSlot("hs")
				src, dst := slotID("src"), slotID("dst")
				switch rapid.IntRange(0, 3).Draw(rt, "badKind") {
				case 0:
					src = 0
				case 1:
					dst = 0
				case 2:
					dst = src
				default:
					if hs < h && src == m.owner[hs] {
						src++
					}
				}
				tbl.StartMigration(uint16(hs), src, dst)
				trace = append(trace, fmt.Sprintf("startBad(%d,%d,%d)", hs, src, dst))
			case "advance":
				hs := hashSlot("hs")
				ph := MigrationPhase(rapid.IntRange(0, 3).Draw(rt, "phase"))
				tbl.AdvanceMigration(uint16(hs), ph)
				if mg, ok := m.migrations[uint16(hs)]; ok {
					mg.Phase = ph
					m.migrations[uint16(hs)] = mg
				}
				trace = append(trace, fmt.Sprintf("advance(%d,%d)", hs, ph))
			case "finalize":
				hs := hashSlot("hs")
				tbl.FinalizeMigration(uint16(hs))
				if mg, ok := m.migrations[uint16(hs)]; ok {
					m.owner[hs] = mg.Target
					delete(m.migrations, uint16(hs))
					migFinal++
				}
				trace = append(trace, fmt.Sprintf("finalize(%d)", hs))
			case "abort":
				hs := hashSlot("hs")
				tbl.AbortMigration(uint16(hs))
				delete(m.migrations, uint16(hs))
				trace = append(trace, fmt.Sprintf("abort(%d)", hs))
			case "plan":
				var p verifC20Plan
				act := m.active()
				switch rapid.IntRange(0, 2).Draw(rt, "planKind") {
				case 0:
					p.kind = "add"
					if rapid.IntRange(0, 7).Draw(rt, "addExisting") == 0 {
						p.arg = rapid.SampledFrom(act).Draw(rt, "addArgExisting")
					} else {
						p.arg = slotID("addArg")
					}
				case 1:
					p.kind = "remove"
					if rapid.IntRange(0, 7).Draw(rt, "rmAbsent") == 0 {
						p.arg = slotID("rmArgAny")
					} else {
						p.arg = rapid.SampledFrom(act).Draw(rt, "rmArg")
					}
				default:
					p.kind = "rebalance"
				}
				apply := rapid.IntRange(0, 1).Draw(rt, "applyVia")
				verifC20CheckPlan(fail, tbl, m, p, apply, &fl)
				trace = append(trace, fmt.Sprintf("plan(%s,%d,via=%d)", p.kind, p.arg, apply))
			case "decode":
				dec, err := DecodeHashSlotTable(tbl.Encode())
				if err != nil {
					fail("DecodeHashSlotTable(Encode(t)): %v", err)
				}
				if d := verifC20SameTable(tbl, dec); d != "" {
					fail("Decode(Encode(t)) differs from t: %s", d)
				}
				tbl = dec // continue the history on the decoded table
				decodes++
				if len(m.migrations) > 0 {
					rtWithMig++
				}
				trace = append(trace, "decode")
			case "clone":
				tbl = tbl.Clone()
				trace = append(trace, "clone")
			}
			after := m.fingerprint()
			v1 := tbl.Version()
			if after != before {
				effective++
				if v1 <= v0 {
					fail("effective change by %s did not increase the version (%d -> %d)", trace[len(trace)-1], v0, v1)
				}
			} else {
				noops++
				if v1 != v0 {
					fail("no-op %s changed the version (%d -> %d)", trace[len(trace)-1], v0, v1)
				}
				if v1 < v0 {
					fail("version decreased (%d -> %d)", v0, v1)
				}
			}
			verifC20CheckTable(fail, tbl, m)
			if h <= 512 || i == nOps-1 {
				if len(m.migrations) > 0 {
					rtWithMig++
				}
				verifC20RoundTrip(fail, tbl)
			}
		}
		// the three planners on the final table, rebalance last
		final := []verifC20Plan{{kind: "rebalance"}}
		if rapid.Bool().Draw(rt, "finalAdd") {
			final = append([]verifC20Plan{{kind: "add", arg: multiraft.SlotID(maxID + 1)}}, final...)
		} else if act := m.active(); len(act) > 1 {
			final = append([]verifC20Plan{{kind: "remove", arg: rapid.SampledFrom(act).Draw(rt, "finalRm")}}, final...)
		}
		for _, p := range final {
			verifC20CheckPlan(fail, tbl, m, p, 0, &fl)
			trace = append(trace, fmt.Sprintf("plan(%s,%d)", p.kind, p.arg))
		}
		verifC20RoundTrip(fail, tbl)

		k.Key(h, s, fmt.Sprint(trace))
		k.SetNonTrivial(effective >= 2 && fl.planNonEmpty && h > 1)
		k.LabelIf(h == 1, "h=1")
		k.LabelIf(h <= 12, "h<=12")
		k.LabelIf(h > 512, "h>512")
		k.LabelIf(s > h, "more slots than hash slots")
		k.LabelIf(noops > 0, "history has no-op operations")
		k.LabelIf(migStarted > 0, "migration started")
		k.LabelIf(migFinal > 0, "migration finalized")
		k.LabelIf(rtWithMig > 0, "encode/decode with active migrations")
		k.LabelIf(decodes > 0, "history continued on decoded table")
		k.LabelIf(fl.add, "non-empty add plan")
		k.LabelIf(fl.remove, "non-empty remove plan")
		k.LabelIf(fl.rebalance, "non-empty rebalance plan")
		k.LabelIf(fl.planBalancedPre, "plan on balanced table")
		k.LabelIf(fl.planUnbalancedPre, "plan on unbalanced table")
		k.LabelIf(fl.planWithMigrations, "plan while migrations active")
		k.LabelIf(fl.maxPlan >= 16, "plan with >=16 moves")
		k.Sample(func() any { return fmt.Sprintf("h=%d s=%d ops=%v", h, s, verifC20Trunc(trace)) })
	})
}

func verifC20Trunc(tr []string) []string {
	if len(tr) > 14 {
		return append(append([]string(nil), tr[:14]...), "…")
	}
	return tr
}

// TestVerifC20BalancedChain: from an initial layout, chains of add / remove /
// rebalance plans only (the tables real slot scaling produces). Every plan
// must leave every participating slot within one hash slot of its ideal share.
func TestVerifC20BalancedChain(t *testing.T) {
	kit.Check(t, "C20", func(rt *rapid.T, k *kit.Case) {
		fail := func(f string, a ...any) { rt.Helper(); rt.Fatalf(f, a...) }
		h := verifC20HashSlotCount().Draw(rt, "h")
		s := rapid.IntRange(1, 64).Draw(rt, "s")
		tbl := NewHashSlotTable(uint16(h), s)
		eff := s
		if eff > h {
			eff = h
		}
		m := verifC20NewModel(h, eff)
		verifC20CheckTable(fail, tbl, m)
		var fl verifC20Flags
		var trace []string
		n := rapid.IntRange(1, 10).Draw(rt, "nPlans")
		if h > 512 && n > 4 {
			n = 4
		}
		nextID := multiraft.SlotID(s + 1)
		moves := 0
		for i := 0; i < n; i++ {
			act := m.active()
			var p verifC20Plan
			switch kind := rapid.IntRange(0, 4).Draw(rt, "kind"); {
			case kind <= 1:
				p.kind = "add"
				// a fresh id: above all, or a gap left by an earlier removal, or a wild one
				switch rapid.IntRange(0, 3).Draw(rt, "idKind") {
				case 0:
					p.arg = multiraft.SlotID(rapid.IntRange(1, int(nextID)).Draw(rt, "gapID"))
				case 1:
					p.arg = multiraft.SlotID(kit.Uint64Edge().Filter(func(v uint64) bool { return v != 0 }).Draw(rt, "wildID"))
				default:
					p.arg = nextID
				}
				if p.arg >= nextID && p.arg < 1<<62 {
					nextID = p.arg + 1
				}
			case kind <= 3:
				p.kind = "remove"
				p.arg = rapid.SampledFrom(act).Draw(rt, "rm")
			default:
				p.kind = "rebalance"
			}
			if !verifC20Balanced(m.shares(), act, h) {
				fail("table not balanced before plan %d: %v (history %v)", i, m.shares(), trace)
			}
			v0 := tbl.Version()
			before := m.fingerprint()
			verifC20CheckPlan(fail, tbl, m, p, rapid.IntRange(0, 1).Draw(rt, "applyVia"), &fl)
			if m.fingerprint() != before {
				moves++
				if tbl.Version() <= v0 {
					fail("version did not increase across an applied plan")
				}
			} else if tbl.Version() != v0 {
				fail("empty plan changed the version")
			}
			trace = append(trace, fmt.Sprintf("%s(%d)", p.kind, p.arg))
			if rapid.IntRange(0, 3).Draw(rt, "reload") == 0 {
				dec, err := DecodeHashSlotTable(tbl.Encode())
				if err != nil {
					fail("decode: %v", err)
				}
				tbl = dec
			}
		}
		verifC20RoundTrip(fail, tbl)
		k.Key("chain", h, s, fmt.Sprint(trace))
		k.SetNonTrivial(moves >= 1 && h > 1)
		k.LabelIf(fl.add, "non-empty add plan")
		k.LabelIf(fl.remove, "non-empty remove plan")
		k.LabelIf(fl.rebalance, "non-empty rebalance plan")
		k.LabelIf(fl.planBalancedPre, "plan on balanced table")
		k.LabelIf(len(m.active()) > h/2, "slots > h/2 after chain")
		k.LabelIf(fl.maxPlan >= 16, "plan with >=16 moves")
		k.Label("chain of plans from initial layout")
		k.Sample(func() any { return fmt.Sprintf("h=%d s=%d plans=%v", h, s, verifC20Trunc(trace)) })
	})
}

// TestVerifC20Exhaustive: all initial layouts with h <= 12, s <= 4, each with
// no or one single reassignment (every hash slot x every target 1..s+1), and
// on each of these tables every add / remove / rebalance plan.
func TestVerifC20Exhaustive(t *testing.T) {
	col := kit.For(t, "C20")
	fail := func(f string, a ...any) { t.Helper(); t.Fatalf(f, a...) }
	tables := 0
	for h := 1; h <= 12; h++ {
		for s := 1; s <= 4; s++ {
			eff := s
			if eff > h {
				eff = h
			}
			for hs := -1; hs < h; hs++ {
				for to := 1; to <= s+1; to++ {
					if hs < 0 && to > 1 {
						break
					}
					build := func() (*HashSlotTable, *verifC20Model) {
						tbl := NewHashSlotTable(uint16(h), s)
						m := verifC20NewModel(h, eff)
						if hs >= 0 {
							v0 := tbl.Version()
							changed := m.owner[hs] != multiraft.SlotID(to)
							tbl.Reassign(uint16(hs), multiraft.SlotID(to))
							m.owner[hs] = multiraft.SlotID(to)
							if changed && tbl.Version() <= v0 {
								fail("h=%d s=%d reassign(%d,%d): version did not increase", h, s, hs, to)
							}
							if !changed && tbl.Version() != v0 {
								fail("h=%d s=%d reassign(%d,%d) is a no-op but changed the version", h, s, hs, to)
							}
						}
						return tbl, m
					}
					tbl, m := build()
					verifC20CheckTable(fail, tbl, m)
					verifC20RoundTrip(fail, tbl)
					var plans []verifC20Plan
					for id := 1; id <= s+2; id++ {
						plans = append(plans, verifC20Plan{kind: "add", arg: multiraft.SlotID(id)}, verifC20Plan{kind: "remove", arg: multiraft.SlotID(id)})
					}
					plans = append(plans, verifC20Plan{kind: "rebalance"})
					var fl verifC20Flags
					for _, p := range plans {
						for via := 0; via <= 1; via++ {
							tb, mm := build()
							verifC20CheckPlan(fail, tb, mm, p, via, &fl)
							// a rebalance afterwards always restores balance
							verifC20CheckPlan(fail, tb, mm, verifC20Plan{kind: "rebalance"}, via, &fl)
							verifC20RoundTrip(fail, tb)
						}
					}
					tables++
					k := col.NewCase()
					k.Key("exhaustive", h, s, hs, to)
					k.SetNonTrivial(fl.planNonEmpty && h > 1)
					k.Label("exhaustive h<=12 s<=4 x single reassignment x all plans")
					k.LabelIf(fl.planUnbalancedPre, "plan on unbalanced table")
					k.LabelIf(fl.planBalancedPre, "plan on balanced table")
					hh, ss, hs2, to2 := h, s, hs, to
					k.Sample(func() any { return fmt.Sprintf("h=%d s=%d reassign(%d,%d) x all plans", hh, ss, hs2, to2) })
					col.Commit(k)
				}
			}
		}
	}
	col.AddExtra("exhaustive_tables_h12_s4", int64(tables))
}
