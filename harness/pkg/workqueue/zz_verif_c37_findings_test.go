package workqueue

import (
	"context"
	"encoding/json"
	"fmt"
	"runtime"
	"sync"
	"sync/atomic"
	"testing"
	"time"

	"verif.local/kit"
)

// Directed reproductions of the three losses found while building the C37
// check. Each drives the real primitive into the window, lets Close return
// nil, and then inspects the quiescent state. When the loss is reproduced the
// test fails (VIOLATION) unless the signature is listed in
// /verif/known_findings.json (then a KNOWN-FINDING line is printed). When the
// code no longer loses the item the tests pass silently.

func verifC37Await(cond func() bool) bool {
	deadline := time.Now().Add(20 * time.Second)
	for !cond() {
		if time.Now().After(deadline) {
			return false
		}
		runtime.Gosched()
		time.Sleep(20 * time.Microsecond)
	}
	return true
}

func verifC37Report(t *testing.T, col *kit.Collector, sig string, reproduced bool, detail map[string]any, what string) {
	k := col.NewCase()
	k.Key("directed", sig)
	k.NonTrivial()
	if !reproduced {
		k.Label("directed: " + sig + " not reproduced")
		col.Commit(k)
		return
	}
	k.Label("directed: " + sig + " reproduced")
	if kit.KnownFinding("C37", sig) {
		col.AddExtra("known_finding_hits", 1)
		col.Commit(k)
		return
	}
	b, _ := json.MarshalIndent(map[string]any{"signature": sig, "what": what, "detail": detail}, "", " ")
	p := kit.SaveReplay("C37", t.Name(), "json", b)
	t.Fatalf("VERIF-VIOLATION C37 [signature %s]: %s (history %s)", sig, what, p)
}

// BoundedBatchPool with CancelAcceptedOnClose: the dispatcher holds batch [2]
// in its executor-retry loop (the only worker is busy with 1) while 3 is still
// queued. Close makes the dispatcher cancel [2] and return; 3 is neither run
// nor cancelled although Close returns nil.
func TestVerifC37FindingBatchCancelOnClose(t *testing.T) {
	col := kit.For(t, "C37")
	gate := make(chan struct{})
	started := make(chan struct{})
	var mu sync.Mutex
	var handled, cancelled []int
	pool, err := NewBoundedBatchPool[int](BoundedBatchPoolConfig[int]{
		Name: "verif", Workers: 1, QueueSize: 4, CancelAcceptedOnClose: true,
		CancelAccepted: func(it int, _ error) { mu.Lock(); cancelled = append(cancelled, it); mu.Unlock() },
		Policy:         func(int) BatchOptions { return BatchOptions{MaxItems: 1} },
	}, func(_ context.Context, items []int) error {
		if items[0] == 1 {
			close(started)
			<-gate
		}
		mu.Lock()
		handled = append(handled, items...)
		mu.Unlock()
		return nil
	})
	if err != nil {
		t.Fatalf("NewBoundedBatchPool: %v", err)
	}
	bg := context.Background()
	if err := pool.Submit(bg, 1); err != nil {
		t.Fatalf("Submit(1): %v", err)
	}
	<-started
	e2 := pool.Submit(bg, 2)
	e3 := pool.Submit(bg, 3)
	if e2 != nil || e3 != nil {
		t.Fatalf("Submit(2)=%v Submit(3)=%v", e2, e3)
	}
	// the dispatcher has taken 2 and retries the busy executor; 3 stays queued
	if !verifC37Await(func() bool { return len(pool.queue) == 1 }) {
		close(gate)
		_ = pool.Close(bg)
		col.Inconclusive("dispatcher did not pick up item 2")
		return
	}
	closed := make(chan error, 1)
	go func() { closed <- pool.Close(bg) }()
	ok := verifC37Await(func() bool { mu.Lock(); defer mu.Unlock(); return len(cancelled) > 0 })
	close(gate)
	cerr := <-closed
	if !ok {
		col.Inconclusive("cancel hook for the held batch never ran")
		return
	}
	mu.Lock()
	h, c := append([]int(nil), handled...), append([]int(nil), cancelled...)
	mu.Unlock()
	has := func(xs []int, v int) bool {
		for _, x := range xs {
			if x == v {
				return true
			}
		}
		return false
	}
	lost := cerr == nil && !has(h, 3) && !has(c, 3)
	verifC37Report(t, col, verifC37SigBatch, lost,
		map[string]any{"config": "Workers=1 QueueSize=4 CancelAcceptedOnClose=true policy MaxItems=1", "handled": h, "cancelled": c, "closeErr": fmt.Sprint(cerr), "left_in_queue": len(pool.queue)},
		"Submit(3) returned nil before Close was called, Close returned nil, but item 3 was neither handled nor passed to CancelAccepted (dispatcher cancelled the batch it was retrying and exited without cancelling the queue)")
}

// BoundedPool: SubmitWait callers blocked on a full queue when Close starts
// can win a freed slot and enqueue after the dispatcher has drained and
// exited. The two selects inside submit choose at random, so the scenario is
// repeated a bounded number of times.
func TestVerifC37FindingPoolSubmitDuringClose(t *testing.T) {
	col := kit.For(t, "C37")
	bg := context.Background()
	rounds := kit.Scale("C37POOLROUNDS", 300, 1500)
	for round := 0; round < rounds; round++ {
		gate := make(chan struct{})
		started := make(chan struct{})
		var mu sync.Mutex
		var handled []int
		pool, err := NewBoundedPool[int](BoundedPoolConfig{Name: "verif", Workers: 1, QueueSize: 1},
			func(_ context.Context, it int) error {
				if it == 1 {
					close(started)
					<-gate
				}
				mu.Lock()
				handled = append(handled, it)
				mu.Unlock()
				return nil
			})
		if err != nil {
			t.Fatalf("NewBoundedPool: %v", err)
		}
		if err := pool.Submit(bg, 1); err != nil {
			t.Fatalf("Submit(1): %v", err)
		}
		<-started
		if !verifC37Await(func() bool { return pool.Submit(bg, 2) == nil }) {
			close(gate)
			_ = pool.Close(bg)
			col.Inconclusive("item 2 could not be queued")
			return
		}
		const waiters = 4
		results := make([]error, waiters)
		var inWait atomic.Int32
		var wg sync.WaitGroup
		for w := 0; w < waiters; w++ {
			w := w
			wg.Add(1)
			go func() {
				defer wg.Done()
				inWait.Add(1)
				results[w] = pool.SubmitWait(bg, 10+w)
			}()
		}
		verifC37Await(func() bool { return inWait.Load() == waiters })
		time.Sleep(50 * time.Microsecond) // let the waiters park on the slot (schedule shaping only)
		closed := make(chan error, 1)
		go func() { closed <- pool.Close(bg) }()
		close(gate)
		cerr := <-closed
		wg.Wait()
		mu.Lock()
		h := append([]int(nil), handled...)
		mu.Unlock()
		var lost []int
		for w := 0; w < waiters; w++ {
			if results[w] != nil {
				continue
			}
			ran := false
			for _, x := range h {
				if x == 10+w {
					ran = true
				}
			}
			if !ran {
				lost = append(lost, 10+w)
			}
		}
		if cerr == nil && len(lost) > 0 {
			verifC37Report(t, col, verifC37SigPool, true,
				map[string]any{"config": "Workers=1 QueueSize=1, 4 SubmitWait callers blocked when Close starts", "round": round, "handled": h, "lost": lost, "left_in_queue": len(pool.queue)},
				fmt.Sprintf("SubmitWait returned nil for item(s) %v while Close was running, Close returned nil, the handler never ran for them (enqueued after the dispatcher drained and exited)", lost))
			return
		}
	}
	verifC37Report(t, col, verifC37SigPool, false, nil, "")
}

type verifC37MailboxHook struct {
	armed   atomic.Bool
	fired   atomic.Bool
	inHook  atomic.Bool
	workerN atomic.Int32
	act     func()
}

func (h *verifC37MailboxHook) ObserveShardedMailbox(o ShardedMailboxObservation) {
	// the second "worker" observation of a drain is emitted after the drain
	// found its queue empty and before finishShardDrain runs
	if o.Kind != observationWorker || h.inHook.Load() {
		return
	}
	if h.workerN.Add(1)%2 == 0 && h.armed.Load() && h.fired.CompareAndSwap(false, true) {
		h.inHook.Store(true)
		h.act()
		h.inHook.Store(false)
	}
}

// ShardedMailbox: an item admitted after the drain's last emptiness check but
// before finishShardDrain, followed by Close before finishShardDrain looks at
// the closed flag, is left in the shard queue: Close returns nil, the handler
// never runs. The observer is used only to place the other goroutines'
// Submit and Close calls inside that window deterministically.
func TestVerifC37FindingMailboxFinishWindow(t *testing.T) {
	col := kit.For(t, "C37")
	bg := context.Background()
	var mu sync.Mutex
	var handled []int
	hook := &verifC37MailboxHook{}
	mb, err := NewShardedMailbox[int](ShardedMailboxConfig{Name: "verif", Shards: 1, Workers: 1, QueueSizePerShard: 4, Observer: hook},
		func(_ context.Context, b MailboxBatch[int]) error {
			mu.Lock()
			handled = append(handled, b.Items...)
			mu.Unlock()
			return nil
		})
	if err != nil {
		t.Fatalf("NewShardedMailbox: %v", err)
	}
	var submitErr error
	closed := make(chan error, 1)
	hook.act = func() {
		// another goroutine submits item 2 (admitted: the shard is still
		// marked scheduled, so no new drain is scheduled) ...
		done := make(chan struct{})
		go func() { submitErr = mb.SubmitHash(bg, 0, 2); close(done) }()
		<-done
		// ... and a third goroutine calls Close, which gets as far as
		// publishing the closed flag while this drain is about to finish
		go func() { closed <- mb.Close(bg) }()
		verifC37Await(func() bool { return mb.closed.Load() })
	}
	hook.armed.Store(true)
	if err := mb.SubmitHash(bg, 0, 1); err != nil {
		t.Fatalf("Submit(1): %v", err)
	}
	if !verifC37Await(func() bool { return hook.fired.Load() }) {
		_ = mb.Close(bg)
		col.Inconclusive("drain-finish observation not seen")
		return
	}
	var cerr error
	select {
	case cerr = <-closed:
	case <-time.After(20 * time.Second):
		col.Inconclusive("Close did not return")
		return
	}
	mu.Lock()
	h := append([]int(nil), handled...)
	mu.Unlock()
	ran := false
	for _, x := range h {
		if x == 2 {
			ran = true
		}
	}
	lost := submitErr == nil && cerr == nil && !ran
	verifC37Report(t, col, verifC37SigMailbox, lost,
		map[string]any{"config": "Shards=1 Workers=1 QueueSizePerShard=4", "handled": h, "submit2": fmt.Sprint(submitErr), "closeErr": fmt.Sprint(cerr), "left_in_queue": mb.QueueDepth()},
		"SubmitHash(2) returned nil (placed between the drain's last emptiness check and finishShardDrain), Close then published closed; finishShardDrain did not reschedule the shard; Close returned nil and item 2 never ran")
}
