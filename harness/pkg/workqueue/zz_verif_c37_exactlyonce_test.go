package workqueue

import (
	"context"
	"encoding/json"
	"errors"
	"fmt"
	"runtime"
	"sort"
	"strconv"
	"sync"
	"sync/atomic"
	"testing"
	"time"

	"pgregory.net/rapid"
	"verif.local/kit"
)

// C37 — every task admitted to BoundedPool / BoundedBatchPool /
// BoundedWorkerQueue / ShardedMailbox runs exactly once unless Close was
// configured to cancel it (then only the cancellation hook runs); rejected
// tasks never run; Close waits for admitted work; a mailbox shard never runs
// two drains at once and keeps submission order.
//
// The plan (configuration, producer scripts, handler latencies, close / gate
// trigger points, observer perturbation) is drawn by rapid; real goroutines run
// it; every Submit and every handler/cancel-hook invocation is stamped with a
// global atomic counter; the recorded history is judged after Close returned
// and every producer was joined. Timers only shape the schedule (they open a
// gate or trigger Close); no verdict depends on elapsed time.

type verifC37Item struct {
	ID          int
	Hash        uint64 // mailbox: shard selector
	UseKey      bool   // mailbox: go through Submit(key) instead of SubmitHash
	Lat         int    // 0 none, 1 yield, 2 sleep, 3 wait for the gate, 4 (sched mode) wait until LatN more Submit calls returned
	LatN        int
	LatUs       int // Lat 4: upper bound of the wait (progress guarantee, schedule shaping only)
	BatchMax    int // batch pool: policy MaxItems chosen when this item is first in a batch
	BatchWaitUs int // batch pool: policy MaxWait
}

type verifC37Op struct {
	Item  verifC37Item
	Wait  bool // SubmitWait (pool and worker queue only)
	Ctx   int  // 0 background, 1 already cancelled, 2 cancelled after CtxUs
	CtxUs int
	Pre   int // sched mode: pause of the producer before this call: 0 none, 1 yield PreN times, 2 sleep PreN microseconds, 3 until some goroutine is held at an observation point or in a Lat-4 handler, 4 (closed loop) until this producer's previous item, if admitted, was handled (3, 4: at most PreN microseconds)
	PreN  int
}

type verifC37Plan struct {
	Prim           string
	Workers        int
	Queue          int
	Shards         int
	BatchMax       int
	BatchWaitUs    int
	CancelAccepted bool
	CancelRunning  bool
	Producers      [][]verifC37Op
	CloseAfter     int // Close is triggered when this many Submit calls have returned
	GateAfter      int // the gate opens when this many Submit calls have returned
	FallbackUs     int // or after this time (schedule shaping only)
	ObsEvery       int // observer yields on every n-th observation (0: no observer)
	ObsSleepUs     int
	Salt           uint64
	ReleaseUs      int // ReleaseTimeout of the ants pool after Close (0: package default 100ms)

	// mailbox scheduling mode (TestVerifC37MailboxSched, see zz_verif_c37_mailboxsched_test.go)
	Sched    bool   `json:",omitempty"`
	StallPct [4]int // % of the worker / batch / depth / admission observation points at which the calling goroutine is held
	StallN   int    // a held goroutine continues when up to this many more Submit calls have returned ...
	StallUs  int    // ... or after this time (progress guarantee, schedule shaping only)
}

type verifC37SubmitRec struct {
	P     int    `json:"p"`
	I     int    `json:"i"`
	ID    int    `json:"id"`
	Shard int    `json:"shard"`
	Wait  bool   `json:"wait,omitempty"`
	Start uint64 `json:"start"`
	End   uint64 `json:"end"`
	Err   string `json:"err,omitempty"`
}

type verifC37BatchRec struct {
	Shard int    `json:"shard"`
	Start uint64 `json:"start"`
	End   uint64 `json:"end"`
	IDs   []int  `json:"ids"`
	First verifC37Item `json:"-"`
	// sched mode: the drain that made this call was started by finishShardDrain
	// (hand-over of a non-empty shard), not by a Submit
	Resched bool `json:"resched,omitempty"`
}

type verifC37CancelRec struct {
	ID    int    `json:"id"`
	Stamp uint64 `json:"stamp"`
	Err   string `json:"err"`
}

type verifC37Run struct {
	plan      *verifC37Plan
	clock     atomic.Uint64
	attempts  atomic.Int64
	running   atomic.Int64
	obsCount  atomic.Uint64
	gate      chan struct{}
	gateOnce  sync.Once
	closeTrig chan struct{}
	closeOnce sync.Once
	sched     *verifC37Sched // nil unless plan.Sched

	mu        sync.Mutex
	batches   []verifC37BatchRec
	cancelled []verifC37CancelRec
}

func (r *verifC37Run) openGate()     { r.gateOnce.Do(func() { close(r.gate) }) }
func (r *verifC37Run) triggerClose() { r.closeOnce.Do(func() { close(r.closeTrig) }) }

func (r *verifC37Run) attemptDone() {
	n := int(r.attempts.Add(1))
	if r.sched != nil {
		r.sched.wake(r, false)
	}
	if n == r.plan.GateAfter {
		r.openGate()
	}
	if n == r.plan.CloseAfter {
		r.triggerClose()
	}
}

func (r *verifC37Run) latency(it verifC37Item) {
	switch it.Lat {
	case 1:
		for i := 0; i < it.LatN; i++ {
			runtime.Gosched()
		}
	case 2:
		time.Sleep(time.Duration(it.LatN) * time.Microsecond)
	case 3:
		<-r.gate
	case 4:
		r.sched.hold(r, it.LatN, it.LatUs)
	}
}

func (r *verifC37Run) handle(shard int, items []verifC37Item) {
	start := r.clock.Add(1)
	r.running.Add(1)
	ids := make([]int, len(items))
	for i, it := range items {
		ids[i] = it.ID
	}
	first := items[0]
	resched := r.sched != nil && shard >= 0 && shard < len(r.sched.cur) && r.sched.cur[shard].Load()
	for _, it := range items {
		r.latency(it)
	}
	r.mu.Lock()
	end := r.clock.Add(1)
	r.batches = append(r.batches, verifC37BatchRec{Shard: shard, Start: start, End: end, IDs: ids, First: first, Resched: resched})
	r.mu.Unlock()
	if r.sched != nil {
		r.sched.handled(ids)
	}
	r.running.Add(-1)
}

func (r *verifC37Run) cancelHook(it verifC37Item, err error) {
	s := r.clock.Add(1)
	e := "<nil>"
	if err != nil {
		e = err.Error()
	}
	r.mu.Lock()
	r.cancelled = append(r.cancelled, verifC37CancelRec{ID: it.ID, Stamp: s, Err: e})
	r.mu.Unlock()
}

// perturb is the observer body: concurrency-safe, never waits for anything;
// it only yields (or sleeps a few microseconds) on a generated subset of the
// observation points, which moves the scheduler through windows inside the
// primitives.
func (r *verifC37Run) perturb() {
	n := r.obsCount.Add(1)
	h := (n + r.plan.Salt) * 0x9E3779B97F4A7C15
	if (h>>33)%uint64(r.plan.ObsEvery) != 0 {
		return
	}
	if r.plan.ObsSleepUs > 0 && (h>>20)%3 == 0 {
		time.Sleep(time.Duration(r.plan.ObsSleepUs) * time.Microsecond)
		return
	}
	runtime.Gosched()
}

func (r *verifC37Run) ObserveBoundedPool(BoundedPoolObservation)         { r.perturb() }
func (r *verifC37Run) ObserveShardedMailbox(ShardedMailboxObservation) { r.perturb() }

type verifC37Target struct {
	submit func(ctx context.Context, wait bool, it verifC37Item) error
	close  func(ctx context.Context) error
	shard  func(it verifC37Item) int
}

func verifC37Build(r *verifC37Run) (*verifC37Target, error) {
	p := r.plan
	var pobs BoundedPoolObserver
	var mobs ShardedMailboxObserver
	if p.ObsEvery > 0 {
		pobs, mobs = r, r
	}
	if p.Sched {
		mobs = verifC37SchedObserver{r}
	}
	zero := func(verifC37Item) int { return 0 }
	switch p.Prim {
	case "pool":
		q, err := NewBoundedPool[verifC37Item](BoundedPoolConfig{Name: "verif", Workers: p.Workers, QueueSize: p.Queue, Observer: pobs, ReleaseTimeout: time.Duration(p.ReleaseUs) * time.Microsecond},
			func(_ context.Context, it verifC37Item) error { r.handle(0, []verifC37Item{it}); return nil })
		if err != nil {
			return nil, err
		}
		return &verifC37Target{shard: zero, close: q.Close, submit: func(ctx context.Context, wait bool, it verifC37Item) error {
			if wait {
				return q.SubmitWait(ctx, it)
			}
			return q.Submit(ctx, it)
		}}, nil
	case "wq":
		q, err := NewBoundedWorkerQueue[verifC37Item](BoundedWorkerQueueConfig{Name: "verif", Workers: p.Workers, QueueSize: p.Queue},
			func(_ context.Context, it verifC37Item) error { r.handle(0, []verifC37Item{it}); return nil })
		if err != nil {
			return nil, err
		}
		return &verifC37Target{shard: zero, close: q.Close, submit: func(ctx context.Context, wait bool, it verifC37Item) error {
			if wait {
				return q.SubmitWait(ctx, it)
			}
			return q.Submit(ctx, it)
		}}, nil
	case "batch":
		cfg := BoundedBatchPoolConfig[verifC37Item]{Name: "verif", Workers: p.Workers, QueueSize: p.Queue, Observer: pobs, ReleaseTimeout: time.Duration(p.ReleaseUs) * time.Microsecond,
			CancelAcceptedOnClose: p.CancelAccepted, CancelRunningOnClose: p.CancelRunning,
			CancelAccepted: r.cancelHook,
			Policy: func(first verifC37Item) BatchOptions {
				return BatchOptions{MaxItems: first.BatchMax, MaxWait: time.Duration(first.BatchWaitUs) * time.Microsecond}
			}}
		q, err := NewBoundedBatchPool[verifC37Item](cfg, func(_ context.Context, items []verifC37Item) error {
			if len(items) == 0 {
				r.mu.Lock()
				r.batches = append(r.batches, verifC37BatchRec{Shard: -1})
				r.mu.Unlock()
				return nil
			}
			r.handle(0, items)
			return nil
		})
		if err != nil {
			return nil, err
		}
		return &verifC37Target{shard: zero, close: q.Close, submit: func(ctx context.Context, _ bool, it verifC37Item) error {
			return q.Submit(ctx, it)
		}}, nil
	case "mailbox":
		q, err := NewShardedMailbox[verifC37Item](ShardedMailboxConfig{Name: "verif", Shards: p.Shards, Workers: p.Workers, QueueSizePerShard: p.Queue,
			BatchMaxItems: p.BatchMax, BatchMaxWait: time.Duration(p.BatchWaitUs) * time.Microsecond, Observer: mobs, ReleaseTimeout: time.Duration(p.ReleaseUs) * time.Microsecond},
			func(_ context.Context, b MailboxBatch[verifC37Item]) error {
				if len(b.Items) == 0 {
					r.mu.Lock()
					r.batches = append(r.batches, verifC37BatchRec{Shard: -1})
					r.mu.Unlock()
					return nil
				}
				r.handle(b.Shard, b.Items)
				return nil
			})
		if err != nil {
			return nil, err
		}
		if r.sched != nil {
			r.sched.mbox.Store(q)
		}
		shards := uint64(p.Shards)
		return &verifC37Target{close: q.Close,
			shard: func(it verifC37Item) int {
				if it.UseKey {
					return int(hashString(strconv.FormatUint(it.Hash, 10)) % shards)
				}
				return int(it.Hash % shards)
			},
			submit: func(ctx context.Context, _ bool, it verifC37Item) error {
				if it.UseKey {
					return q.Submit(ctx, strconv.FormatUint(it.Hash, 10), it)
				}
				return q.SubmitHash(ctx, it.Hash, it)
			}}, nil
	}
	return nil, fmt.Errorf("unknown primitive %q", p.Prim)
}

func verifC37DrawPlan(rt *rapid.T, prim string) *verifC37Plan {
	p := &verifC37Plan{Prim: prim}
	small := func(name string, max int) int {
		if rapid.IntRange(0, 2).Draw(rt, name+"Small") > 0 {
			return rapid.IntRange(1, 2).Draw(rt, name)
		}
		return rapid.IntRange(1, max).Draw(rt, name)
	}
	p.Workers = small("workers", 4)
	p.Queue = small("queue", 8)
	p.Shards = 1
	if prim == "mailbox" {
		p.Shards = rapid.IntRange(1, 4).Draw(rt, "shards")
		p.BatchMax = rapid.IntRange(0, 5).Draw(rt, "batchMax")
		p.BatchWaitUs = rapid.SampledFrom([]int{0, 0, 50, 300, 2000}).Draw(rt, "batchWaitUs")
	}
	if prim == "batch" {
		switch rapid.IntRange(0, 2).Draw(rt, "cancelCfg") {
		case 1:
			p.CancelAccepted = true
		case 2:
			p.CancelAccepted, p.CancelRunning = true, true
		}
	}
	np := rapid.IntRange(1, 6).Draw(rt, "producers")
	id := 0
	total := 0
	gateShare := rapid.IntRange(0, 60).Draw(rt, "gateShare") // % of items that wait for the gate
	for pi := 0; pi < np; pi++ {
		n := rapid.IntRange(1, 30).Draw(rt, "nops")
		ops := make([]verifC37Op, n)
		for i := range ops {
			id++
			it := verifC37Item{ID: id}
			w := rapid.IntRange(0, 99).Draw(rt, "lat")
			switch {
			case w < gateShare:
				it.Lat = 3
			case w < gateShare+15:
				it.Lat, it.LatN = 1, rapid.IntRange(1, 5).Draw(rt, "yields")
			case w < gateShare+25:
				it.Lat, it.LatN = 2, rapid.IntRange(1, 300).Draw(rt, "sleepUs")
			}
			if prim == "mailbox" {
				it.Hash = uint64(rapid.IntRange(0, 7).Draw(rt, "hash"))
				it.UseKey = rapid.IntRange(0, 3).Draw(rt, "useKey") == 0
			}
			if prim == "batch" {
				it.BatchMax = rapid.IntRange(0, 6).Draw(rt, "itemBatchMax")
				it.BatchWaitUs = rapid.SampledFrom([]int{0, 0, 50, 300, 2000}).Draw(rt, "itemBatchWaitUs")
			}
			op := verifC37Op{Item: it}
			if prim == "pool" || prim == "wq" {
				op.Wait = rapid.IntRange(0, 2).Draw(rt, "wait") == 0
			}
			switch c := rapid.IntRange(0, 19).Draw(rt, "ctx"); {
			case c == 0:
				op.Ctx = 1
			case c <= 3 && op.Wait:
				op.Ctx, op.CtxUs = 2, rapid.IntRange(10, 2000).Draw(rt, "ctxUs")
			}
			ops[i] = op
		}
		total += n
		p.Producers = append(p.Producers, ops)
	}
	p.CloseAfter = rapid.IntRange(0, total+total/4+1).Draw(rt, "closeAfter")
	p.GateAfter = rapid.IntRange(0, total+1).Draw(rt, "gateAfter")
	p.FallbackUs = rapid.IntRange(200, 5000).Draw(rt, "fallbackUs")
	if rapid.IntRange(0, 3).Draw(rt, "obs") > 0 && prim != "wq" {
		p.ObsEvery = rapid.IntRange(1, 6).Draw(rt, "obsEvery")
		p.ObsSleepUs = rapid.SampledFrom([]int{0, 0, 5, 50}).Draw(rt, "obsSleepUs")
	}
	p.Salt = rapid.Uint64Range(0, 1<<20).Draw(rt, "salt")
	p.ReleaseUs = rapid.SampledFrom([]int{0, 0, 1, 200}).Draw(rt, "releaseUs")
	return p
}

var verifC37Saved atomic.Int32

// Signatures of the losses established while building this check (each has a
// directed reproduction below). They only suppress a failure when the lead has
// listed them in /verif/known_findings.json.
const (
	verifC37SigPool    = "pool:submit-overlapping-close-admitted-after-dispatcher-exit"
	verifC37SigBatch   = "batch:cancel-on-close-leaves-queued-items-after-dispatcher-exit"
	verifC37SigMailbox = "mailbox:admitted-between-last-drain-check-and-finish-then-close"
)

func verifC37Check(t *testing.T, prim string, sched bool) {
	col := kit.For(t, "C37")
	kit.Check(t, "C37", func(rt *rapid.T, k *kit.Case) {
		var plan *verifC37Plan
		if sched {
			plan = verifC37DrawSchedPlan(rt)
		} else {
			plan = verifC37DrawPlan(rt, prim)
		}
		r := &verifC37Run{plan: plan, gate: make(chan struct{}), closeTrig: make(chan struct{})}
		if sched {
			r.sched = verifC37NewSched(plan)
		}
		tg, err := verifC37Build(r)
		if err != nil {
			rt.Fatalf("construct %s: %v", prim, err)
		}
		if plan.GateAfter == 0 {
			r.openGate()
		}
		if plan.CloseAfter == 0 {
			r.triggerClose()
		}
		stopTimers := make(chan struct{})
		var aux sync.WaitGroup
		aux.Add(1)
		go func() { // fallback: guarantees progress, shapes the schedule only
			defer aux.Done()
			if plan.FallbackUs <= 0 {
				// sched mode: every wait of the plan is bounded by itself and
				// the end of the producers' scripts opens the gate and calls Close
				<-stopTimers
				return
			}
			tm := time.NewTimer(time.Duration(plan.FallbackUs) * time.Microsecond)
			defer tm.Stop()
			select {
			case <-tm.C:
				r.openGate()
				r.triggerClose()
			case <-stopTimers:
			}
		}()

		subs := make([][]verifC37SubmitRec, len(plan.Producers))
		var prod sync.WaitGroup
		startCh := make(chan struct{})
		for pi := range plan.Producers {
			pi := pi
			prod.Add(1)
			go func() {
				defer prod.Done()
				out := make([]verifC37SubmitRec, 0, len(plan.Producers[pi]))
				<-startCh
				for i, op := range plan.Producers[pi] {
					ctx := context.Background()
					var cancel context.CancelFunc
					switch op.Ctx {
					case 1:
						ctx, cancel = context.WithCancel(ctx)
						cancel()
					case 2:
						ctx, cancel = context.WithTimeout(ctx, time.Duration(op.CtxUs)*time.Microsecond)
					}
					switch op.Pre {
					case 1:
						for y := 0; y < op.PreN; y++ {
							runtime.Gosched()
						}
					case 2:
						time.Sleep(time.Duration(op.PreN) * time.Microsecond)
					case 3:
						r.sched.awaitHeld(op.PreN)
					case 4:
						if n := len(out); n > 0 && out[n-1].Err == "" {
							r.sched.awaitHandled(out[n-1].ID, op.PreN)
						}
					}
					s := r.clock.Add(1)
					err := tg.submit(ctx, op.Wait, op.Item)
					e := r.clock.Add(1)
					if cancel != nil {
						cancel()
					}
					rec := verifC37SubmitRec{P: pi, I: i, ID: op.Item.ID, Shard: tg.shard(op.Item), Wait: op.Wait, Start: s, End: e}
					if err != nil {
						rec.Err = err.Error()
						if !errors.Is(err, ErrFull) && !errors.Is(err, ErrClosed) && !errors.Is(err, context.Canceled) && !errors.Is(err, context.DeadlineExceeded) {
							rec.Err = "UNDOCUMENTED:" + rec.Err
						}
					}
					out = append(out, rec)
					r.attemptDone()
				}
				subs[pi] = out
			}()
		}
		var closeStart, closeEnd uint64
		var closeErr, close2Err error
		var runningAtClose int64
		closerDone := make(chan struct{})
		go func() {
			defer close(closerDone)
			<-r.closeTrig
			closeStart = r.clock.Add(1)
			closeErr = tg.close(context.Background())
			runningAtClose = r.running.Load()
			closeEnd = r.clock.Add(1)
			close2Err = tg.close(context.Background())
		}()
		close(startCh)
		allDone := make(chan struct{})
		go func() {
			prod.Wait()
			if r.sched != nil {
				// no Submit call will return any more: release every held
				// goroutine, call Close if the plan's trigger count was not
				// reached, then open the gate (Close meets pending work)
				r.sched.wake(r, true)
				r.triggerClose()
				runtime.Gosched()
				r.openGate()
			}
			<-closerDone
			close(allDone)
		}()
		select {
		case <-allDone:
		case <-time.After(60 * time.Second):
			r.openGate()
			r.triggerClose()
			if r.sched != nil {
				r.sched.wake(r, true)
			}
			col.Inconclusive("producers/Close not joined within 60s")
			rt.Skip("inconclusive: join deadline")
		}
		close(stopTimers)
		aux.Wait()
		r.openGate()

		// one more attempt after Close returned: must be refused
		postItem := verifC37Item{ID: 1 << 30, Hash: 0}
		postErr := tg.submit(context.Background(), false, postItem)

		// quiescent point: Close returned, producers joined. If something
		// admitted is still unresolved, give late handlers a moment so that the
		// report can tell "ran after Close returned" from "never ran"; both
		// are violations, the wait changes only the message.
		var all []verifC37SubmitRec
		for _, s := range subs {
			all = append(all, s...)
		}
		accepted := map[int]verifC37SubmitRec{}
		rejected := map[int]verifC37SubmitRec{}
		for _, s := range all {
			if s.Err == "" {
				accepted[s.ID] = s
			} else {
				rejected[s.ID] = s
			}
		}
		resolved := func() int {
			r.mu.Lock()
			defer r.mu.Unlock()
			n := len(r.cancelled)
			for _, b := range r.batches {
				n += len(b.IDs)
			}
			return n
		}
		if resolved() < len(accepted) || r.running.Load() != 0 {
			for i := 0; i < 200 && (resolved() < len(accepted) || r.running.Load() != 0); i++ {
				time.Sleep(time.Millisecond)
			}
		}
		r.mu.Lock()
		batches := append([]verifC37BatchRec(nil), r.batches...)
		cancelled := append([]verifC37CancelRec(nil), r.cancelled...)
		r.mu.Unlock()

		fail := func(format string, args ...any) {
			msg := fmt.Sprintf(format, args...)
			if verifC37Saved.Add(1) <= 3 {
				b, _ := json.MarshalIndent(map[string]any{"violation": msg, "plan": plan, "submits": all, "batches": batches, "cancelled": cancelled,
					"closeStart": closeStart, "closeEnd": closeEnd}, "", " ")
				rt.Logf("history saved to %s", kit.SaveReplay("C37", t.Name(), "json", b))
			}
			rt.Fatalf("VERIF-VIOLATION C37 [%s workers=%d queue=%d shards=%d cancelAccepted=%v]: %s", prim, plan.Workers, plan.Queue, plan.Shards, plan.CancelAccepted, msg)
		}

		if closeErr != nil || close2Err != nil {
			fail("Close(background) returned %v / second Close %v", closeErr, close2Err)
		}
		if runningAtClose != 0 {
			fail("Close returned while %d handler call(s) were still running", runningAtClose)
		}
		if !errors.Is(postErr, ErrClosed) {
			fail("Submit after Close returned gave %v, want ErrClosed", postErr)
		}
		for _, s := range all {
			if len(s.Err) > 12 && s.Err[:13] == "UNDOCUMENTED:" {
				fail("Submit of item %d returned undocumented error %s", s.ID, s.Err)
			}
			if s.Start > closeEnd && s.Err == "" {
				fail("Submit of item %d was called after Close returned and was admitted", s.ID)
			}
		}

		handledAt := map[int]verifC37BatchRec{}
		for _, b := range batches {
			if b.Shard < 0 {
				fail("handler was called with an empty batch")
			}
			for _, id := range b.IDs {
				if prev, dup := handledAt[id]; dup {
					fail("item %d was handled twice (batches starting at stamps %d and %d)", id, prev.Start, b.Start)
				}
				handledAt[id] = b
				if s, ok := rejected[id]; ok {
					fail("item %d was rejected by Submit (%s) but its handler ran", id, s.Err)
				}
				if _, ok := accepted[id]; !ok {
					fail("handler ran for item %d which was never admitted", id)
				}
			}
			if b.End > closeEnd {
				fail("handler for items %v finished (stamp %d) after Close returned (stamp %d): Close did not wait", b.IDs, b.End, closeEnd)
			}
		}
		cancelledAt := map[int]verifC37CancelRec{}
		for _, c := range cancelled {
			if !plan.CancelAccepted {
				fail("cancel hook ran for item %d although CancelAcceptedOnClose is off", c.ID)
			}
			if _, dup := cancelledAt[c.ID]; dup {
				fail("cancel hook ran twice for item %d", c.ID)
			}
			cancelledAt[c.ID] = c
			if _, ok := handledAt[c.ID]; ok {
				fail("item %d was both handled and cancelled", c.ID)
			}
			if s, ok := rejected[c.ID]; ok {
				fail("item %d was rejected by Submit (%s) but its cancel hook ran", c.ID, s.Err)
			}
			if _, ok := accepted[c.ID]; !ok {
				fail("cancel hook ran for item %d which was never admitted", c.ID)
			}
			if c.Err != ErrClosed.Error() {
				fail("cancel hook for item %d got error %s, want ErrClosed", c.ID, c.Err)
			}
			if c.Stamp < closeStart {
				fail("cancel hook for item %d ran (stamp %d) before Close was called (stamp %d)", c.ID, c.Stamp, closeStart)
			}
			if c.Stamp > closeEnd {
				fail("cancel hook for item %d ran (stamp %d) after Close returned (stamp %d)", c.ID, c.Stamp, closeEnd)
			}
		}
		knownHits := 0
		for id, s := range accepted {
			_, h := handledAt[id]
			_, c := cancelledAt[id]
			if !h && !c {
				// signature of the loss, computed from the history (see DESIGN 1.5)
				sig := "lost-admitted:" + prim
				switch {
				case prim == "pool" && s.End > closeStart:
					sig = verifC37SigPool
				case prim == "batch" && plan.CancelAccepted:
					sig = verifC37SigBatch
				case prim == "mailbox":
					sig = verifC37SigMailbox
				}
				if kit.KnownFinding("C37", sig) {
					knownHits++
					continue
				}
				fail("item %d was admitted (Submit by producer %d #%d returned nil, stamps %d..%d; Close %d..%d) but never ran and was never cancelled [signature %s]", id, s.P, s.I, s.Start, s.End, closeStart, closeEnd, sig)
			}
		}
		if knownHits > 0 {
			col.AddExtra("known_finding_hits", int64(knownHits))
			k.Label(prim + ": history hit a recorded known finding")
		}

		// batch size limits
		maxBatch := 1
		for _, b := range batches {
			limit := 1
			switch prim {
			case "batch":
				limit = b.First.BatchMax
				if limit > plan.Queue {
					limit = plan.Queue
				}
			case "mailbox":
				limit = plan.BatchMax
			}
			if limit < 1 {
				limit = 1
			}
			if len(b.IDs) > limit {
				fail("handler got a batch of %d items %v, limit %d", len(b.IDs), b.IDs, limit)
			}
			if len(b.IDs) > maxBatch {
				maxBatch = len(b.IDs)
			}
		}

		// mailbox: one drain per shard at a time, shard = hash % shards, submission order kept
		orderPairs := 0
		if prim == "mailbox" {
			byShard := map[int][]verifC37BatchRec{}
			for _, b := range batches {
				byShard[b.Shard] = append(byShard[b.Shard], b)
			}
			for sh, bs := range byShard {
				sort.Slice(bs, func(i, j int) bool { return bs[i].Start < bs[j].Start })
				pos := map[int]int{}
				n := 0
				for i, b := range bs {
					if i > 0 && b.Start < bs[i-1].End {
						fail("shard %d ran two handler calls at once: items %v (stamps %d..%d) and %v (stamps %d..%d)", sh, bs[i-1].IDs, bs[i-1].Start, bs[i-1].End, b.IDs, b.Start, b.End)
					}
					for _, id := range b.IDs {
						if want := accepted[id].Shard; want != sh {
							fail("item %d belongs to shard %d but was delivered in a batch of shard %d", id, want, sh)
						}
						pos[id] = n
						n++
					}
				}
				var its []verifC37SubmitRec
				for id := range pos {
					its = append(its, accepted[id])
				}
				sort.Slice(its, func(i, j int) bool { return its[i].Start < its[j].Start })
				for i := range its {
					for j := i + 1; j < len(its); j++ {
						a, b := its[i], its[j]
						if a.End < b.Start { // a was admitted before b was submitted
							orderPairs++
							if pos[a.ID] > pos[b.ID] {
								fail("shard %d: item %d was admitted (stamps %d..%d) before item %d was submitted (%d..%d) but was handled after it", sh, a.ID, a.Start, a.End, b.ID, b.Start, b.End)
							}
						}
					}
				}
			}
		}

		// classification of what the run actually did
		var nFull, nClosed, nCtx, acceptedDuringClose, waitAccepted int
		for _, s := range all {
			switch {
			case s.Err == "":
				if s.End > closeStart {
					acceptedDuringClose++
				}
				if s.Wait {
					waitAccepted++
				}
			case s.Err == ErrFull.Error():
				nFull++
			case s.Err == ErrClosed.Error():
				nClosed++
			default:
				nCtx++
			}
		}
		pendingAtClose := 0 // admitted before Close was called, handled (or cancelled) after
		for id, s := range accepted {
			if s.End < closeStart {
				if b, ok := handledAt[id]; ok && b.End > closeStart {
					pendingAtClose++
				}
				if c, ok := cancelledAt[id]; ok && c.Stamp > closeStart {
					pendingAtClose++
				}
			}
		}
		b, _ := json.Marshal(plan)
		k.Key(b)
		lp := prim // label prefix
		if sched {
			lp = "mailbox-sched"
			verifC37SchedClassify(r, k, col, all, batches)
		} else {
			k.SetNonTrivial(len(accepted) > 0 && (pendingAtClose > 0 || nClosed > 0) && (nFull > 0 || len(plan.Producers) > 1 || waitAccepted > 0))
		}
		k.Label(lp)
		k.LabelIf(nFull > 0, lp+": ErrFull seen")
		k.LabelIf(nClosed > 0, lp+": ErrClosed seen by a producer")
		k.LabelIf(nCtx > 0, lp+": caller context error seen")
		k.LabelIf(pendingAtClose > 0, lp+": admitted work pending when Close was called")
		k.LabelIf(acceptedDuringClose > 0, lp+": Submit admitted while Close was running")
		k.LabelIf(len(cancelled) > 0, lp+": cancel hook ran")
		k.LabelIf(maxBatch > 1, lp+": multi-item batch")
		k.LabelIf(orderPairs > 0, lp+": ordered pairs checked")
		k.LabelIf(len(accepted) == 0, lp+": nothing admitted")
		col.AddExtra("submits_"+lp, int64(len(all)))
		col.AddExtra("admitted_"+lp, int64(len(accepted)))
		k.Sample(func() any {
			return fmt.Sprintf("%s workers=%d queue=%d shards=%d producers=%d submits=%d admitted=%d full=%d closed=%d ctx=%d cancelled=%d pendingAtClose=%d",
				lp, plan.Workers, plan.Queue, plan.Shards, len(plan.Producers), len(all), len(accepted), nFull, nClosed, nCtx, len(cancelled), pendingAtClose)
		})
	})
}

func TestVerifC37Pool(t *testing.T)        { verifC37Check(t, "pool", false) }
func TestVerifC37BatchPool(t *testing.T)   { verifC37Check(t, "batch", false) }
func TestVerifC37WorkerQueue(t *testing.T) { verifC37Check(t, "wq", false) }
func TestVerifC37Mailbox(t *testing.T)     { verifC37Check(t, "mailbox", false) }
