package workqueue

import (
	"fmt"
	"os"
	"sync"
	"sync/atomic"
	"testing"
	"time"

	"pgregory.net/rapid"
	"verif.local/kit"
)

// C37, mailbox scheduling mode — "a mailbox shard never runs two drains
// concurrently and processes its items in submission order".
//
// The single-drain guarantee rests on the shard's `scheduled` flag, which is
// handed from Submit to the drain, and from a finishing drain to its follow-up
// drain (finishShardDrain) when an item was admitted after the drain's last
// emptiness check. Those hand-over windows are a few instructions wide; the Go
// scheduler alone almost never parks a goroutine inside them. This mode widens
// them the way a preempted goroutine would: the mailbox observer (called by
// the package on the goroutine that is at the observation point, never with
// shard.mu held) HOLDS that goroutine at a generated subset of the observation
// points (worker start / worker end = between the drain loop's last emptiness
// check and finishShardDrain / after a batch / after a dequeue / after an
// admission) until a generated number of further Submit calls have returned,
// or a generated time has passed. Handlers can be slow in the same event-driven
// way (Lat 4: wait until n more Submit calls returned), and producers are paced
// by generated styles: closed loop (next Submit after the previous item was
// handled, so the drain keeps reaching its end while the producer is active),
// "wait until some goroutine is held", sleeps, yields, back to back. All waits
// are bounded (<= 3 ms) and end early when the event arrives, so the hit rate
// does not depend on machine load; there is no global timer. Holding a goroutine for
// a bounded time at a point where it owns no lock is a schedule the Go runtime
// may produce by itself, so the oracle is unchanged: the plan runner and the
// history judgement are verifC37Check's (exactly once, Close waits, handler
// intervals of a shard never overlap, admission order = handling order).
//
// Measured per case (labels): drains held in the finish window, reschedule
// hand-overs (shard queue non-empty when the drain leaves the finish window),
// admitted Submit calls that lie entirely inside a handler call made by a
// rescheduled drain.

const (
	verifC37ObsWorker = iota
	verifC37ObsBatch
	verifC37ObsDepth
	verifC37ObsAdmission
)

type verifC37Waiter struct {
	target int64
	ch     chan struct{}
}

type verifC37Sched struct {
	mbox atomic.Pointer[ShardedMailbox[verifC37Item]]
	occ  [4][]atomic.Uint64 // per kind, per shard: observation points passed
	next []atomic.Bool      // per shard: the drain that just left handed the shard over to a follow-up drain
	cur  []atomic.Bool      // per shard: the running drain is such a follow-up drain

	wmu        sync.Mutex
	waiters    []verifC37Waiter
	heldNow    int             // goroutines currently parked in hold
	preWaiters []chan struct{} // producers waiting for heldNow > 0
	noMore     bool

	doneMu sync.Mutex
	done   map[int]chan struct{} // item id -> closed when its handler call ended

	holds, drainEnds, finishHolds, resched, reschedHeld atomic.Int64
}

func (s *verifC37Sched) doneCh(id int) chan struct{} {
	s.doneMu.Lock()
	defer s.doneMu.Unlock()
	ch := s.done[id]
	if ch == nil {
		ch = make(chan struct{})
		s.done[id] = ch
	}
	return ch
}

// handled is called at the end of a handler call.
func (s *verifC37Sched) handled(ids []int) {
	for _, id := range ids {
		ch := s.doneCh(id)
		select {
		case <-ch: // already closed (an item handled twice is the oracle's business)
		default:
			close(ch)
		}
	}
}

// awaitHandled parks a closed-loop producer until item id was handled or us
// microseconds passed.
func (s *verifC37Sched) awaitHandled(id int, us int) {
	tm := time.NewTimer(time.Duration(us) * time.Microsecond)
	defer tm.Stop()
	select {
	case <-s.doneCh(id):
	case <-tm.C:
	}
}

func verifC37NewSched(p *verifC37Plan) *verifC37Sched {
	s := &verifC37Sched{next: make([]atomic.Bool, p.Shards), cur: make([]atomic.Bool, p.Shards), done: map[int]chan struct{}{}}
	for k := range s.occ {
		s.occ[k] = make([]atomic.Uint64, p.Shards)
	}
	return s
}

// hold parks the calling goroutine until n more Submit calls have returned,
// no Submit call will return any more, or us microseconds passed. It reports
// whether the goroutine was parked at all.
func (s *verifC37Sched) hold(r *verifC37Run, n int, us int) bool {
	s.wmu.Lock()
	if s.noMore {
		s.wmu.Unlock()
		return false
	}
	w := verifC37Waiter{target: r.attempts.Load() + int64(n), ch: make(chan struct{})}
	s.waiters = append(s.waiters, w)
	s.heldNow++
	for _, ch := range s.preWaiters {
		close(ch)
	}
	s.preWaiters = nil
	s.wmu.Unlock()
	tm := time.NewTimer(time.Duration(us) * time.Microsecond)
	select {
	case <-w.ch:
	case <-tm.C:
	}
	tm.Stop()
	s.wmu.Lock()
	s.heldNow--
	s.wmu.Unlock()
	return true
}

// awaitHeld parks a producer until some goroutine is held (observation point
// or Lat-4 handler), no Submit call will return any more, or us microseconds
// passed.
func (s *verifC37Sched) awaitHeld(us int) {
	s.wmu.Lock()
	if s.noMore || s.heldNow > 0 {
		s.wmu.Unlock()
		return
	}
	ch := make(chan struct{})
	s.preWaiters = append(s.preWaiters, ch)
	s.wmu.Unlock()
	tm := time.NewTimer(time.Duration(us) * time.Microsecond)
	defer tm.Stop()
	select {
	case <-ch:
	case <-tm.C:
	}
}

// wake releases the held goroutines whose Submit count was reached (all of
// them when no further Submit call will return).
func (s *verifC37Sched) wake(r *verifC37Run, all bool) {
	s.wmu.Lock()
	if all {
		s.noMore = true
	}
	n := r.attempts.Load()
	keep := s.waiters[:0]
	for _, w := range s.waiters {
		if s.noMore || w.target <= n {
			close(w.ch)
		} else {
			keep = append(keep, w)
		}
	}
	s.waiters = keep
	if s.noMore {
		for _, ch := range s.preWaiters {
			close(ch)
		}
		s.preWaiters = nil
	}
	s.wmu.Unlock()
}

type verifC37SchedObserver struct{ r *verifC37Run }

func verifC37Mix(x uint64) uint64 { // splitmix64 finaliser
	x += 0x9E3779B97F4A7C15
	x = (x ^ (x >> 30)) * 0xBF58476D1CE4E5B9
	x = (x ^ (x >> 27)) * 0x94D049BB133111EB
	return x ^ (x >> 31)
}

func (o verifC37SchedObserver) ObserveShardedMailbox(obs ShardedMailboxObservation) {
	r := o.r
	s, p := r.sched, r.plan
	if obs.Shard < 0 || obs.Shard >= p.Shards {
		return
	}
	var kind int
	switch obs.Kind {
	case observationWorker:
		kind = verifC37ObsWorker
	case observationBatch:
		kind = verifC37ObsBatch
	case observationDepth:
		kind = verifC37ObsDepth
	case observationAdmission:
		kind = verifC37ObsAdmission
	default:
		return
	}
	n := s.occ[kind][obs.Shard].Add(1)
	// A drain emits exactly two worker observations: when it starts and after
	// its loop found the shard empty, right before finishShardDrain. As long
	// as drains of a shard are serialised they alternate. (If they are not,
	// this classification is off; it feeds labels only, never a verdict.)
	drainEnd := false
	if kind == verifC37ObsWorker {
		if n%2 == 1 {
			s.cur[obs.Shard].Store(s.next[obs.Shard].Swap(false))
		} else {
			drainEnd = true
		}
	}
	h := verifC37Mix(n + uint64(kind)<<40 + uint64(obs.Shard)<<48 + p.Salt<<20)
	held := false
	if int((h>>33)%100) < p.StallPct[kind] {
		if held = s.hold(r, 1+int((h>>12)%uint64(p.StallN)), p.StallUs); held {
			s.holds.Add(1)
		}
	} else if p.ObsEvery > 0 {
		r.perturb()
	}
	if drainEnd {
		s.drainEnds.Add(1)
		if held {
			s.finishHolds.Add(1)
		}
		s.cur[obs.Shard].Store(false)
		// This goroutine is the shard's only consumer and calls
		// finishShardDrain next: a non-empty queue here means the shard is
		// handed over to a follow-up drain (reschedule path).
		if mb := s.mbox.Load(); mb != nil && len(mb.shards[obs.Shard].queue) > 0 {
			s.next[obs.Shard].Store(true)
			s.resched.Add(1)
			if held {
				s.reschedHeld.Add(1)
			}
		}
	}
}

func verifC37DrawSchedPlan(rt *rapid.T) *verifC37Plan {
	p := &verifC37Plan{Prim: "mailbox", Sched: true}
	p.Workers = rapid.SampledFrom([]int{1, 2, 2, 2, 3, 4}).Draw(rt, "workers")
	p.Queue = rapid.IntRange(1, 8).Draw(rt, "queue")
	p.Shards = rapid.SampledFrom([]int{1, 1, 2, 3}).Draw(rt, "shards")
	p.BatchMax = rapid.SampledFrom([]int{0, 1, 1, 2, 4}).Draw(rt, "batchMax")
	p.BatchWaitUs = rapid.SampledFrom([]int{0, 0, 0, 50, 300}).Draw(rt, "batchWaitUs")
	p.StallPct[verifC37ObsWorker] = rapid.SampledFrom([]int{0, 30, 60, 100, 100}).Draw(rt, "holdWorkerPct")
	p.StallPct[verifC37ObsBatch] = rapid.SampledFrom([]int{0, 0, 10, 30}).Draw(rt, "holdBatchPct")
	p.StallPct[verifC37ObsDepth] = rapid.SampledFrom([]int{0, 0, 10, 30}).Draw(rt, "holdDepthPct")
	p.StallPct[verifC37ObsAdmission] = rapid.SampledFrom([]int{0, 0, 0, 10}).Draw(rt, "holdAdmissionPct")
	p.StallN = rapid.IntRange(1, 3).Draw(rt, "holdSubmits")
	p.StallUs = rapid.SampledFrom([]int{300, 1000, 3000}).Draw(rt, "holdUs")
	np := rapid.IntRange(1, 4).Draw(rt, "producers")
	slowShare := rapid.IntRange(0, 70).Draw(rt, "slowShare") // % of items with a slow handler
	// handlers that block until the plan's gate opens stall their shard for a
	// large part of the run: only in some cases
	useGate := rapid.IntRange(0, 3).Draw(rt, "useGate") == 0
	id, total := 0, 0
	for pi := 0; pi < np; pi++ {
		n := rapid.IntRange(3, 14).Draw(rt, "nops")
		// pacing style of this producer: 4 closed loop (next call after the
		// previous item was handled), 3 waits for a held goroutine, 2 sleeps,
		// 5 back to back, 0 drawn per call
		style := rapid.SampledFrom([]int{4, 3, 0, 2, 5}).Draw(rt, "style")
		ops := make([]verifC37Op, n)
		for i := range ops {
			id++
			it := verifC37Item{ID: id}
			w := rapid.IntRange(0, 99).Draw(rt, "lat")
			switch {
			case w < slowShare:
				slow := rapid.SampledFrom([]int{4, 2, 4, 2, 3}).Draw(rt, "slow")
				if slow == 3 && !useGate {
					slow = 4
				}
				switch slow {
				case 3:
					it.Lat = 3
				case 2:
					it.Lat, it.LatN = 2, rapid.IntRange(20, 500).Draw(rt, "sleepUs")
				default:
					it.Lat, it.LatN, it.LatUs = 4, rapid.IntRange(1, 2).Draw(rt, "latSubmits"), rapid.SampledFrom([]int{300, 1000, 3000}).Draw(rt, "latUs")
				}
			case w < slowShare+15:
				it.Lat, it.LatN = 1, rapid.IntRange(1, 5).Draw(rt, "yields")
			}
			it.Hash = uint64(rapid.IntRange(0, 7).Draw(rt, "hash"))
			it.UseKey = rapid.IntRange(0, 3).Draw(rt, "useKey") == 0
			op := verifC37Op{Item: it}
			pre := style
			if pre == 0 || rapid.IntRange(0, 3).Draw(rt, "preDeviates") == 0 {
				pre = rapid.SampledFrom([]int{4, 3, 2, 1, 5}).Draw(rt, "pre")
			}
			switch pre {
			case 4:
				op.Pre, op.PreN = 4, rapid.SampledFrom([]int{200, 1000, 3000}).Draw(rt, "preHandledUs")
			case 3:
				op.Pre, op.PreN = 3, rapid.SampledFrom([]int{200, 1000, 3000}).Draw(rt, "preHeldUs")
			case 2:
				op.Pre, op.PreN = 2, rapid.IntRange(10, 300).Draw(rt, "preUs")
			case 1:
				op.Pre, op.PreN = 1, rapid.IntRange(1, 5).Draw(rt, "preYields")
			}
			if rapid.IntRange(0, 39).Draw(rt, "ctx") == 0 {
				op.Ctx = 1
			}
			ops[i] = op
		}
		total += n
		p.Producers = append(p.Producers, ops)
	}
	p.CloseAfter = rapid.IntRange(total/2, total+total/4+1).Draw(rt, "closeAfter")
	if rapid.IntRange(0, 2).Draw(rt, "closeLate") > 0 { // mostly: Close near the end of the producers' scripts
		p.CloseAfter = rapid.IntRange(total-total/8, total+1).Draw(rt, "closeAfterLate")
	}
	p.GateAfter = rapid.IntRange(0, total+1).Draw(rt, "gateAfter")
	p.FallbackUs = 0 // no global timer: see the fallback goroutine in verifC37Check
	if rapid.IntRange(0, 1).Draw(rt, "obs") > 0 {
		p.ObsEvery = rapid.IntRange(1, 6).Draw(rt, "obsEvery")
		p.ObsSleepUs = rapid.SampledFrom([]int{0, 0, 5, 50}).Draw(rt, "obsSleepUs")
	}
	p.Salt = rapid.Uint64Range(0, 1<<20).Draw(rt, "salt")
	p.ReleaseUs = rapid.SampledFrom([]int{0, 0, 1, 200}).Draw(rt, "releaseUs")
	return p
}

// verifC37SchedClassify records what the finished run did (labels, counters)
// and sets the non-trivial flag of a scheduling-mode case: the shard hand-over
// from a finishing drain to a follow-up drain happened with a second worker
// available.
func verifC37SchedClassify(r *verifC37Run, k *kit.Case, col *kit.Collector, submits []verifC37SubmitRec, batches []verifC37BatchRec) {
	s, p := r.sched, r.plan
	const lp = "mailbox-sched: "
	// admitted Submit calls that lie entirely inside a handler call of a
	// rescheduled drain of the same shard (from the stamped history)
	during := 0
	for _, sub := range submits {
		if sub.Err != "" {
			continue
		}
		for _, b := range batches {
			if b.Resched && b.Shard == sub.Shard && b.Start < sub.Start && sub.End < b.End {
				during++
				break
			}
		}
	}
	reschedBatches := 0
	for _, b := range batches {
		if b.Resched {
			reschedBatches++
		}
	}
	resched := s.resched.Load()
	if os.Getenv("VERIF_C37_DEBUG") != "" {
		adm := 0
		for _, sub := range submits {
			if sub.Err == "" {
				adm++
			}
		}
		pre := [5]int{}
		for _, ops := range p.Producers {
			for _, op := range ops {
				pre[op.Pre]++
			}
		}
		fmt.Fprintf(os.Stderr, "C37DBG w=%d q=%d sh=%d prod=%d sub=%d adm=%d batches=%d pct=%v n=%d us=%d pre=%v closeAfter=%d holds=%d drainEnds=%d finHolds=%d resched=%d reschedHeld=%d during=%d\n",
			p.Workers, p.Queue, p.Shards, len(p.Producers), len(submits), adm, len(batches), p.StallPct, p.StallN, p.StallUs, pre, p.CloseAfter, s.holds.Load(), s.drainEnds.Load(), s.finishHolds.Load(), resched, s.reschedHeld.Load(), during)
	}
	k.SetNonTrivial(resched > 0 && p.Workers >= 2)
	k.LabelIf(s.holds.Load() > 0, lp+"a goroutine was held at an observation point")
	k.LabelIf(s.finishHolds.Load() > 0, lp+"drain held between its last emptiness check and finishShardDrain")
	k.LabelIf(resched > 0, lp+"item admitted in the finish window (shard handed to a follow-up drain)")
	k.LabelIf(s.reschedHeld.Load() > 0, lp+"item admitted in the finish window while the drain was held there")
	k.LabelIf(reschedBatches > 0, lp+"handler call made by a rescheduled drain")
	k.LabelIf(during > 0, lp+"Submit admitted while a rescheduled drain was in the handler")
	k.LabelIf(during > 0 && p.Workers >= 2, lp+"Submit admitted while a rescheduled drain was in the handler, >=2 workers")
	k.LabelIf(p.Workers >= 2, lp+">=2 workers")
	col.AddExtra("sched_holds", s.holds.Load())
	col.AddExtra("sched_finish_window_holds", s.finishHolds.Load())
	col.AddExtra("sched_reschedule_handovers", resched)
	col.AddExtra("sched_submits_during_rescheduled_handler", int64(during))
}

func TestVerifC37MailboxSched(t *testing.T) { verifC37Check(t, "mailbox", true) }
