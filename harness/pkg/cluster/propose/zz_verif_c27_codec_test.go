package propose

import (
	"bytes"
	"encoding/binary"
	"errors"
	"fmt"
	"runtime"
	"sync"
	"testing"

	"pgregory.net/rapid"
	"verif.local/kit"
)

// verifC27Guard runs dec on in, turning a panic or an allocation beyond bound
// into a violation. It returns the decoder's error.
func verifC27Guard(rt *rapid.T, codec string, in []byte, bound uint64, dec func([]byte) error) (err error) {
	var before, after runtime.MemStats
	runtime.ReadMemStats(&before)
	func() {
		defer func() {
			if r := recover(); r != nil {
				verifC27Flag(codec, "decoder panicked")
				rt.Fatalf("VERIF-VIOLATION %s: decoder panicked on %d-byte input %x: %v", codec, len(in), verifC27Trunc(in), r)
			}
		}()
		err = dec(in)
	}()
	runtime.ReadMemStats(&after)
	if d := after.TotalAlloc - before.TotalAlloc; d > bound {
		verifC27Flag(codec, "allocation beyond bound")
		rt.Fatalf("VERIF-VIOLATION %s: decoding %d-byte input %x allocated %d bytes (bound %d)", codec, len(in), verifC27Trunc(in), d, bound)
	}
	return err
}

func verifC27Trunc(b []byte) []byte {
	if len(b) > 96 {
		return b[:96]
	}
	return b
}

// verifC27Cuts lists the strict-prefix lengths to try for an n-byte frame:
// all of them up to 160 bytes, otherwise both ends densely and the middle sampled.
func verifC27Cuts(n int) []int {
	var cuts []int
	if n <= 160 {
		for c := 0; c < n; c++ {
			cuts = append(cuts, c)
		}
		return cuts
	}
	for c := 0; c < 48; c++ {
		cuts = append(cuts, c)
	}
	step := (n - 96) / 64
	if step < 1 {
		step = 1
	}
	for c := 48; c < n-48; c += step {
		cuts = append(cuts, c)
	}
	for c := n - 48; c < n; c++ {
		cuts = append(cuts, c)
	}
	return cuts
}

var verifC27Once sync.Once

func verifC27Flag(codec, what string) {
	verifC27Once.Do(func() { fmt.Printf("VERIF-VIOLATION C27 %s: %s\n", codec, what) })
}

func verifC27Bound(n int) uint64 { return 16<<10 + 64*uint64(n) }

func verifC27ForwardGen() *rapid.Generator[ForwardRequest] {
	return rapid.Custom(func(t *rapid.T) ForwardRequest {
		return ForwardRequest{
			SlotID:     uint32(rapid.OneOf(rapid.Uint32Range(1, 8), rapid.Uint32Range(1, 1<<32-1)).Draw(t, "slot")),
			HashSlot:   rapid.Uint16().Draw(t, "hashSlot"),
			Class:      ProposalClass(rapid.SampledFrom([]uint8{0, 1, 1, 0, 2, 255}).Draw(t, "class")),
			WantResult: rapid.Bool().Draw(t, "want"),
			Payload:    append([]byte{rapid.Byte().Draw(t, "p0")}, kit.Bytes(4096).Draw(t, "payload")...),
		}
	})
}

func verifC27ForwardEqual(a, b ForwardRequest) bool {
	return a.SlotID == b.SlotID && a.HashSlot == b.HashSlot && a.Class == b.Class && a.WantResult == b.WantResult && bytes.Equal(a.Payload, b.Payload)
}

// verifC27LegacyForward is the harness' reference encoder for the two legacy
// forward layouts the decoder documents (v1: no class, v2: class, no flags).
func verifC27LegacyForward(version uint8, req ForwardRequest) []byte {
	switch version {
	case forwardVersionLegacy:
		out := make([]byte, 11+len(req.Payload))
		out[0] = version
		binary.BigEndian.PutUint32(out[1:5], req.SlotID)
		binary.BigEndian.PutUint16(out[5:7], req.HashSlot)
		binary.BigEndian.PutUint32(out[7:11], uint32(len(req.Payload)))
		copy(out[11:], req.Payload)
		return out
	default:
		out := make([]byte, 12+len(req.Payload))
		out[0] = version
		out[1] = byte(req.Class)
		binary.BigEndian.PutUint32(out[2:6], req.SlotID)
		binary.BigEndian.PutUint16(out[6:8], req.HashSlot)
		binary.BigEndian.PutUint32(out[8:12], uint32(len(req.Payload)))
		copy(out[12:], req.Payload)
		return out
	}
}

// TestVerifC27ProposePayload: the propose envelope round-trips every
// (hash slot, command) and rejects short / wrong-version frames.
func TestVerifC27ProposePayload(t *testing.T) {
	kit.Check(t, "C27", func(rt *rapid.T, k *kit.Case) {
		hashSlot := rapid.Uint16().Draw(rt, "hashSlot")
		cmd := kit.Bytes(4096).Draw(rt, "cmd")
		enc := EncodePayload(hashSlot, cmd)
		var gotSlot uint16
		var gotCmd []byte
		err := verifC27Guard(rt, "propose.DecodePayload", enc, verifC27Bound(len(enc)), func(b []byte) error {
			var e error
			gotSlot, gotCmd, e = DecodePayload(b)
			return e
		})
		if err != nil {
			rt.Fatalf("DecodePayload(EncodePayload(%d,%x)) error: %v", hashSlot, verifC27Trunc(cmd), err)
		}
		if gotSlot != hashSlot || !bytes.Equal(gotCmd, cmd) {
			rt.Fatalf("propose payload round trip: got (%d,%x) want (%d,%x)", gotSlot, verifC27Trunc(gotCmd), hashSlot, verifC27Trunc(cmd))
		}
		// decoded command is a copy: later reuse of the frame buffer must not change it
		if len(enc) > 3 {
			enc[3] ^= 0xff
			if !bytes.Equal(gotCmd, cmd) {
				rt.Fatalf("decoded command aliases the input frame")
			}
			enc[3] ^= 0xff
		}
		// header truncations and wrong version are errors
		for cut := 0; cut < 3; cut++ {
			if _, _, err := DecodePayload(enc[:cut]); !errors.Is(err, ErrInvalidPayload) {
				rt.Fatalf("DecodePayload of %d-byte prefix: err=%v want ErrInvalidPayload", cut, err)
			}
		}
		bad := append([]byte(nil), enc...)
		bad[0] = rapid.SampledFrom([]byte{0, 2, 3, 0x80, 0xff}).Draw(rt, "badVersion")
		if _, _, err := DecodePayload(bad); !errors.Is(err, ErrInvalidPayload) {
			rt.Fatalf("DecodePayload with version %d: err=%v want ErrInvalidPayload", bad[0], err)
		}
		k.Key("payload", hashSlot, cmd)
		k.SetNonTrivial(len(cmd) > 0)
		k.Label("codec=propose.Payload")
		k.LabelIf(len(cmd) == 0, "propose.Payload: empty command")
		k.Sample(func() any { return fmt.Sprintf("propose payload hashSlot=%d cmd=%d bytes", hashSlot, len(cmd)) })
	})
}

// TestVerifC27ForwardRequest: forward requests round-trip (current and both
// legacy layouts), every strict prefix and every extension is rejected, and
// arbitrary / mutated frames never panic or over-allocate.
func TestVerifC27ForwardRequest(t *testing.T) {
	kit.Check(t, "C27", func(rt *rapid.T, k *kit.Case) {
		req := verifC27ForwardGen().Draw(rt, "req")
		want := req
		want.Class = normalizeProposalClass(req.Class)
		enc, err := EncodeForwardRequest(req)
		if err != nil {
			rt.Fatalf("EncodeForwardRequest(%+v): %v", req, err)
		}
		decode := func(name string, in []byte) (ForwardRequest, error) {
			var got ForwardRequest
			err := verifC27Guard(rt, name, in, verifC27Bound(len(in)), func(b []byte) error {
				var e error
				got, e = DecodeForwardRequest(b)
				return e
			})
			return got, err
		}
		got, err := decode("propose.DecodeForwardRequest", enc)
		if err != nil || !verifC27ForwardEqual(got, want) {
			rt.Fatalf("forward round trip: got %+v err=%v want %+v", got, err, want)
		}
		// legacy layouts
		legacyWant := want
		legacyWant.WantResult = false
		v2 := verifC27LegacyForward(forwardVersionClass, req)
		if got, err := decode("propose.DecodeForwardRequest(v2)", v2); err != nil || !verifC27ForwardEqual(got, legacyWant) {
			rt.Fatalf("forward v2 decode: got %+v err=%v want %+v", got, err, legacyWant)
		}
		legacyWant.Class = ProposalClassForeground
		v1 := verifC27LegacyForward(forwardVersionLegacy, req)
		if got, err := decode("propose.DecodeForwardRequest(v1)", v1); err != nil || !verifC27ForwardEqual(got, legacyWant) {
			rt.Fatalf("forward v1 decode: got %+v err=%v want %+v", got, err, legacyWant)
		}
		// every strict prefix is an error (length-delimited frame), for all layouts
		prefixes := 0
		for _, frame := range [][]byte{enc, v2, v1} {
			for _, cut := range verifC27Cuts(len(frame)) {
				if _, err := DecodeForwardRequest(frame[:cut]); !errors.Is(err, ErrInvalidPayload) {
					rt.Fatalf("forward frame v%d prefix %d/%d accepted (err=%v)", frame[0], cut, len(frame), err)
				}
				prefixes++
			}
			ext := append(append([]byte(nil), frame...), kit.Bytes(8).Draw(rt, "ext")...)
			if len(ext) > len(frame) {
				if _, err := DecodeForwardRequest(ext); !errors.Is(err, ErrInvalidPayload) {
					rt.Fatalf("forward frame v%d with %d trailing bytes accepted (err=%v)", frame[0], len(ext)-len(frame), err)
				}
			}
		}
		// generated mutation of a valid frame
		src := [][]byte{enc, v2, v1}[rapid.IntRange(0, 2).Draw(rt, "mutSrc")]
		mut, m := kit.Mutate(rt, src)
		gotMut, errMut := decode("propose.DecodeForwardRequest(mutated)", mut)
		if errMut == nil {
			// accepted: must be internally consistent with its own frame
			re, err := EncodeForwardRequest(gotMut)
			if err != nil {
				// SlotID 0 / empty payload frames decode but are not encodable; they are still well-formed values
				if gotMut.SlotID != 0 && len(gotMut.Payload) != 0 {
					rt.Fatalf("decoded mutated frame cannot be re-encoded: %+v: %v", gotMut, err)
				}
			} else if back, err := DecodeForwardRequest(re); err != nil || !verifC27ForwardEqual(back, gotMut) {
				rt.Fatalf("re-encode of accepted mutated frame does not round trip: %+v vs %+v (%v)", back, gotMut, err)
			}
		} else if !errors.Is(errMut, ErrInvalidPayload) {
			rt.Fatalf("mutated frame: unexpected error class %v", errMut)
		}
		// a corrupted declared payload length is always rejected
		lenOff := map[uint8]int{forwardVersionLegacy: 7, forwardVersionClass: 8, forwardVersion: 9}[src[0]]
		badLen := append([]byte(nil), src...)
		delta := uint32(rapid.OneOf(rapid.Uint32Range(1, 8), rapid.Uint32Range(1, 1<<32-1)).Draw(rt, "lenDelta"))
		binary.BigEndian.PutUint32(badLen[lenOff:], binary.BigEndian.Uint32(badLen[lenOff:])+delta)
		if _, err := decode("propose.DecodeForwardRequest(hostile length)", badLen); !errors.Is(err, ErrInvalidPayload) {
			rt.Fatalf("forward frame with declared length off by %d accepted (err=%v)", delta, err)
		}
		k.Key("forward", req.SlotID, req.HashSlot, req.Class, req.WantResult, req.Payload, m.Kind, m.Pos)
		k.SetNonTrivial(prefixes > 0)
		k.Label("codec=propose.ForwardRequest")
		k.LabelIf(errMut == nil, "propose.Forward: mutated frame still accepted")
		k.LabelIf(errMut != nil, "propose.Forward: mutated frame rejected")
		k.LabelIf(req.Class > 1, "propose.Forward: class normalised")
		k.Sample(func() any {
			return fmt.Sprintf("forward slot=%d hashSlot=%d class=%d want=%v payload=%dB prefixes=%d mutation=%s@%d", req.SlotID, req.HashSlot, req.Class, req.WantResult, len(req.Payload), prefixes, m.Kind, m.Pos)
		})
	})
}

// TestVerifC27ProposeGarbage: arbitrary bytes into both decoders.
func TestVerifC27ProposeGarbage(t *testing.T) {
	kit.Check(t, "C27", func(rt *rapid.T, k *kit.Case) {
		raw := kit.Bytes(2048).Draw(rt, "raw")
		if len(raw) > 0 && rapid.Bool().Draw(rt, "plausibleVersion") {
			raw[0] = rapid.SampledFrom([]byte{1, 2, 3}).Draw(rt, "v")
		}
		var fr ForwardRequest
		errF := verifC27Guard(rt, "propose.DecodeForwardRequest(garbage)", raw, verifC27Bound(len(raw)), func(b []byte) error {
			var e error
			fr, e = DecodeForwardRequest(b)
			return e
		})
		if errF == nil {
			hdr := map[uint8]int{1: 11, 2: 12, 3: 13}[raw[0]]
			if hdr == 0 || len(fr.Payload) != len(raw)-hdr {
				rt.Fatalf("garbage accepted with inconsistent payload: raw=%x got=%+v", verifC27Trunc(raw), fr)
			}
		} else if !errors.Is(errF, ErrInvalidPayload) {
			rt.Fatalf("garbage: unexpected error class %v", errF)
		}
		errP := verifC27Guard(rt, "propose.DecodePayload(garbage)", raw, verifC27Bound(len(raw)), func(b []byte) error {
			_, _, e := DecodePayload(b)
			return e
		})
		if (errP == nil) != (len(raw) >= 3 && raw[0] == payloadVersion) {
			rt.Fatalf("DecodePayload(%x) err=%v, does not match the documented envelope rule", verifC27Trunc(raw), errP)
		}
		k.Key("garbage", raw)
		k.SetNonTrivial(len(raw) > 0)
		k.Label("codec=propose garbage")
		k.LabelIf(errF == nil, "propose garbage: forward accepted")
		k.Sample(func() any { return fmt.Sprintf("garbage %d bytes %x forwardErr=%v", len(raw), verifC27Trunc(raw), errF) })
	})
}
