package cluster

// C40 layer 2 — the slot leader's stream cache in front of the durable reducer.
//
// Driven object: a Node assembled in-package (same partial construction the
// repository's own TestClusterMessageEventCacheClearsWhenLocalSlotLeadershipIsLost
// uses: cfg, router with a one-slot control snapshot, the real
// messageEventStreamCache, optionally the real finish coalescer) whose proposer
// is a harness object that applies every proposed command synchronously to the
// REAL slot state machine (pkg/slot/fsm) over a REAL meta DB. So
// Node.AppendMessageEvent -> appendMessageEventLocal -> cache / finish flush /
// durable path run unmodified; only Raft replication is replaced by a direct
// apply. Cache loss is injected through the code's own paths:
// route updates installed exactly the way production installs them
// (Node.updateRouteAuthorityTable around router.UpdateSlotLeaders /
// router.UpdateControlSnapshot / router.AdvanceRevision, see
// refreshDefaultSlotLeaders, installObservedRemoteSlotLeaders, applySnapshot),
// resetAfterRestore, pauseForRestore/resumeAfterRestore.
//
// Routing shape: 4 hash slots, Slots 1..3, nodes 1..3 (node 1 is the node under
// test). Message m1 lives on channel verifC40Channel, m2 on a channel of another
// hash slot. A hash slot's authority is local (leader 1), remote (2, 3) or
// leaderless (0: the hash slot was assigned by a control snapshot to a Slot whose
// leader has not been observed, the only way the router produces a leaderless
// route — UpdateSlotLeaders ignores Leader==0 and older terms). The harness
// keeps an independent model of the table (documented router rules) and derives
// from it, per message, whether local authority was lost by an update.

import (
	"bytes"
	"context"
	"encoding/json"
	"errors"
	"fmt"
	"path/filepath"
	"slices"
	"sort"
	"strings"
	"sync"
	"testing"

	"github.com/WuKongIM/WuKongIM/pkg/cluster/control"
	"github.com/WuKongIM/WuKongIM/pkg/cluster/propose"
	"github.com/WuKongIM/WuKongIM/pkg/cluster/routing"
	metadb "github.com/WuKongIM/WuKongIM/pkg/db/meta"
	metafsm "github.com/WuKongIM/WuKongIM/pkg/slot/fsm"
	"github.com/WuKongIM/WuKongIM/pkg/slot/multiraft"
	"pgregory.net/rapid"
	"verif.local/kit"
)

const (
	verifC40Channel     = "g-stream"
	verifC40ChannelType = int64(2)
	// signature under which the finding below is (or is not) listed in known_findings.json
	verifC40PartialLossSignature = "finish-after-partial-cache-loss-completes"
)

var verifC40Msgs = []string{"m1", "m2"}

const (
	verifC40HashSlots = uint16(4)
	verifC40Local     = uint64(1)
)

var verifC40SlotIDs = []uint32{1, 2, 3}

// verifC40Channel2: a channel whose hash slot differs from verifC40Channel's.
var verifC40Channel2 = func() string {
	base := routing.HashSlotForKey(verifC40Channel, verifC40HashSlots)
	for i := 0; ; i++ {
		name := fmt.Sprintf("g-other-%d", i)
		if routing.HashSlotForKey(name, verifC40HashSlots) != base {
			return name
		}
	}
}()

func verifC40ChannelOf(no string) string {
	if no == "m2" {
		return verifC40Channel2
	}
	return verifC40Channel
}

func verifC40HashSlotOf(no string) uint16 {
	return routing.HashSlotForKey(verifC40ChannelOf(no), verifC40HashSlots)
}

// verifC40Proposer applies proposals straight to the real slot state machine.
type verifC40Proposer struct {
	mu sync.Mutex
	// one real state machine per Slot over the same node DB; the DB is keyed by
	// hash slot, so a hash slot moved to another Slot keeps its durable rows
	// (hash-slot data migration is taken as completed, see spec assumptions)
	sms   map[uint32]multiraft.StateMachine
	route func(key string) (uint32, uint16, error)
	index uint64
	calls int
}

func (p *verifC40Proposer) Propose(ctx context.Context, req propose.Request) error {
	_, err := p.ProposeResult(ctx, req)
	return err
}

func (p *verifC40Proposer) ProposeResult(ctx context.Context, req propose.Request) ([]byte, error) {
	p.mu.Lock()
	defer p.mu.Unlock()
	slot, hs, err := p.route(req.Key)
	if err != nil {
		return nil, err
	}
	p.index++
	p.calls++
	return p.sms[slot].Apply(ctx, multiraft.Command{SlotID: multiraft.SlotID(slot), HashSlot: hs, Index: p.index, Term: 1, Data: req.Command})
}

type verifC40Env struct {
	node    *Node
	db      *metadb.DB
	prop    *verifC40Proposer
	term    uint64
	routes  *verifC40Routes
	cleanup func()
}

// verifC40Routes: independent model of the installed route table, following the
// router's documented rules: UpdateControlSnapshot rebuilds the table and keeps
// the observed leader/term only of Slots that are still present;
// UpdateSlotLeaders ignores SlotID 0, Leader 0 and terms older than the known one.
type verifC40Routes struct {
	revision   uint64
	hashToSlot []uint32
	present    map[uint32]bool
	leader     map[uint32]uint64
	term       map[uint32]uint64
}

func (r *verifC40Routes) clone() *verifC40Routes {
	out := &verifC40Routes{revision: r.revision, hashToSlot: slices.Clone(r.hashToSlot), present: map[uint32]bool{}, leader: map[uint32]uint64{}, term: map[uint32]uint64{}}
	for k, v := range r.present {
		out.present[k] = v
	}
	for k, v := range r.leader {
		out.leader[k] = v
	}
	for k, v := range r.term {
		out.term[k] = v
	}
	return out
}

// authority of a hash slot: leader node id, 0 = leaderless.
func (r *verifC40Routes) authority(hs uint16) uint64 { return r.leader[r.hashToSlot[hs]] }

func verifC40AuthClass(leader uint64) string {
	switch leader {
	case verifC40Local:
		return "L"
	case 0:
		return "0"
	}
	return "R"
}

func (r *verifC40Routes) applySnapshot(revision uint64, hashToSlot []uint32, present map[uint32]bool) {
	r.revision = revision
	r.hashToSlot = slices.Clone(hashToSlot)
	r.present = present
	for slot := range r.leader {
		if !present[slot] {
			delete(r.leader, slot)
			delete(r.term, slot)
		}
	}
}

func (r *verifC40Routes) applyLeaders(status []routing.SlotStatus) {
	for _, st := range status {
		if st.SlotID == 0 || st.Leader == 0 {
			continue
		}
		if cur := r.term[st.SlotID]; cur != 0 && st.LeaderTerm < cur {
			continue
		}
		r.leader[st.SlotID] = st.Leader
		r.term[st.SlotID] = st.LeaderTerm
	}
}

func (r *verifC40Routes) snapshot() control.Snapshot {
	snap := control.Snapshot{
		Revision:     r.revision,
		ControllerID: 1,
		Nodes: []control.Node{
			{NodeID: 1, Addr: "127.0.0.1:1001", Roles: []control.Role{control.RoleData}, Status: control.NodeAlive},
			{NodeID: 2, Addr: "127.0.0.1:1002", Roles: []control.Role{control.RoleData}, Status: control.NodeAlive},
			{NodeID: 3, Addr: "127.0.0.1:1003", Roles: []control.Role{control.RoleData}, Status: control.NodeAlive},
		},
		HashSlots: control.HashSlotTable{Revision: r.revision, Count: uint16(len(r.hashToSlot))},
	}
	for _, slot := range verifC40SlotIDs {
		if r.present[slot] {
			snap.Slots = append(snap.Slots, control.SlotAssignment{SlotID: slot, DesiredPeers: []uint64{1, 2, 3}, ConfigEpoch: 1, PreferredLeader: uint64(slot)})
		}
	}
	for hs := 0; hs < len(r.hashToSlot); hs++ {
		if n := len(snap.HashSlots.Ranges); n > 0 && snap.HashSlots.Ranges[n-1].SlotID == r.hashToSlot[hs] {
			snap.HashSlots.Ranges[n-1].To = uint16(hs)
			continue
		}
		snap.HashSlots.Ranges = append(snap.HashSlots.Ranges, control.HashSlotRange{From: uint16(hs), To: uint16(hs), SlotID: r.hashToSlot[hs]})
	}
	return snap
}

type verifC40TB interface {
	Fatalf(format string, args ...any)
}

func verifC40NewEnv(rt verifC40TB, coalesce bool) *verifC40Env {
	dir, rm := kit.TempDir()
	db, err := metadb.Open(filepath.Join(dir, "meta"))
	if err != nil {
		rm()
		rt.Fatalf("open meta: %v", err)
	}
	all := make([]uint16, verifC40HashSlots)
	for i := range all {
		all[i] = uint16(i)
	}
	sms := map[uint32]multiraft.StateMachine{}
	for _, slot := range verifC40SlotIDs {
		sm, err := metafsm.NewStateMachineWithHashSlots(db, uint64(slot), all)
		if err != nil {
			db.Close()
			rm()
			rt.Fatalf("state machine: %v", err)
		}
		sms[slot] = sm
	}
	node := &Node{
		cfg:                     Config{NodeID: verifC40Local},
		router:                  routing.NewRouter(),
		messageEventStreamCache: newMessageEventStreamCache(0),
	}
	if coalesce {
		node.messageEventFinishCoalescer = newMessageEventFinishCoalescer(defaultMessageEventFinishCoalesceWindow)
	}
	env := &verifC40Env{node: node, db: db, term: 9, cleanup: func() { _ = db.Close(); rm() }}
	// initial table: every hash slot on Slot 1, led by the local node
	env.routes = &verifC40Routes{revision: 1, hashToSlot: make([]uint32, verifC40HashSlots), present: map[uint32]bool{1: true}, leader: map[uint32]uint64{}, term: map[uint32]uint64{}}
	for i := range env.routes.hashToSlot {
		env.routes.hashToSlot[i] = 1
	}
	if err := node.updateRouteAuthorityTable(func() error {
		if err := node.router.UpdateControlSnapshot(env.routes.snapshot()); err != nil {
			return err
		}
		st := []routing.SlotStatus{{SlotID: 1, Leader: verifC40Local, LeaderTerm: env.term}}
		node.router.UpdateSlotLeaders(st)
		env.routes.applyLeaders(st)
		return nil
	}); err != nil {
		db.Close()
		rm()
		rt.Fatalf("install initial route: %v", err)
	}
	env.prop = &verifC40Proposer{sms: sms, route: func(key string) (uint32, uint16, error) {
		r, err := node.router.RouteKey(key)
		if err != nil {
			return 0, 0, err
		}
		return r.SlotID, r.HashSlot, nil
	}}
	node.proposer = env.prop
	node.started.Store(true)
	return env
}

// durable reads every stored lane of every message (straight from the node DB,
// independent of the current route).
func (e *verifC40Env) durable(rt verifC40TB) map[string]map[string]metadb.MessageEventState {
	out := map[string]map[string]metadb.MessageEventState{}
	for _, no := range verifC40Msgs {
		rows, err := e.db.ForHashSlot(verifC40HashSlotOf(no)).ListMessageEventStates(context.Background(), verifC40ChannelOf(no), verifC40ChannelType, no, 100)
		if err != nil {
			rt.Fatalf("ListMessageEventStates: %v", err)
		}
		out[no] = map[string]metadb.MessageEventState{}
		for _, r := range rows {
			out[no][r.EventKey] = r
		}
	}
	return out
}

// authorityOf: model authority (leader node id, 0 = leaderless) over a message's hash slot.
func (e *verifC40Env) authorityOf(no string) uint64 { return e.routes.authority(verifC40HashSlotOf(no)) }

// routeUpdate installs one route update the way production does
// (Node.updateRouteAuthorityTable; the cache clearing for lost local authority
// runs inside it), applies the same update to the model, cross-checks the
// installed table against the model and returns the messages over whose hash
// slot local authority was lost by this update.
func (e *verifC40Env) routeUpdate(rt verifC40TB, real func(r *routing.Router) error, model func(m *verifC40Routes)) (lost []string, changed int) {
	before := e.routes.clone()
	model(e.routes)
	if err := e.node.updateRouteAuthorityTable(func() error { return real(e.node.router) }); err != nil {
		rt.Fatalf("C40 harness: route update rejected: %v", err)
	}
	table := e.node.router.Table()
	for hs := uint16(0); hs < verifC40HashSlots; hs++ {
		slot := table.HashToSlot[hs]
		if slot != e.routes.hashToSlot[hs] || table.SlotLeaders[slot] != e.routes.authority(hs) {
			rt.Fatalf("C40 harness: installed route of hash slot %d is slot=%d leader=%d, routing model says slot=%d leader=%d", hs, slot, table.SlotLeaders[slot], e.routes.hashToSlot[hs], e.routes.authority(hs))
		}
		if before.authority(hs) != e.routes.authority(hs) || before.hashToSlot[hs] != e.routes.hashToSlot[hs] {
			changed++
		}
	}
	for _, no := range verifC40Msgs {
		hs := verifC40HashSlotOf(no)
		if before.authority(hs) == verifC40Local && e.routes.authority(hs) != verifC40Local {
			lost = append(lost, no)
		}
	}
	return lost, changed
}

func (e *verifC40Env) setLeader(rt verifC40TB, slot uint32, leader uint64) []string {
	e.term++
	st := []routing.SlotStatus{{SlotID: slot, Leader: leader, LeaderTerm: e.term}}
	lost, _ := e.routeUpdate(rt, func(r *routing.Router) error { r.UpdateSlotLeaders(st); return nil }, func(m *verifC40Routes) { m.applyLeaders(st) })
	return lost
}

// loseLeadership: the leader of the Slot serving verifC40Channel moves to node 2
// and back (two route updates); returns the messages that lost local authority.
func (e *verifC40Env) loseLeadership(rt verifC40TB) []string {
	slot := e.routes.hashToSlot[verifC40HashSlotOf("m1")]
	lost := e.setLeader(rt, slot, 2)
	lost = append(lost, e.setLeader(rt, slot, verifC40Local)...)
	return lost
}

// ---------------------------------------------------------------------------
// model of the leader cache (what is cached, non-durable)

type verifC40Lane struct {
	terminal bool
	snapshot []byte
}

type verifC40Session struct {
	lanes   map[string]*verifC40Lane
	applied map[string]bool
}

type verifC40Model struct {
	sessions map[string]*verifC40Session
	// lost[msg][lane]: cached non-durable content of that lane was lost with the
	// cache and has not been superseded since
	lost map[string]map[string]bool
}

func verifC40NewModel() *verifC40Model {
	return &verifC40Model{sessions: map[string]*verifC40Session{}, lost: map[string]map[string]bool{}}
}

func (m *verifC40Model) session(no string, create bool) *verifC40Session {
	s := m.sessions[no]
	if s == nil && create {
		s = &verifC40Session{lanes: map[string]*verifC40Lane{}, applied: map[string]bool{}}
		m.sessions[no] = s
	}
	return s
}

func (m *verifC40Model) openLanes(no string) []string {
	s := m.sessions[no]
	if s == nil {
		return nil
	}
	var out []string
	for k, l := range s.lanes {
		if !l.terminal && k != metadb.EventKeyFinish {
			out = append(out, k)
		}
	}
	sort.Strings(out)
	return out
}

// loseCache drops the sessions of the given messages (nil = every session);
// lanes that held non-durable content are marked.
func (m *verifC40Model) loseCache(only []string) int {
	n := 0
	for no, s := range m.sessions {
		if only != nil && !slices.Contains(only, no) {
			continue
		}
		for k, l := range s.lanes {
			if !l.terminal && len(l.snapshot) > 0 {
				if m.lost[no] == nil {
					m.lost[no] = map[string]bool{}
				}
				m.lost[no][k] = true
				n++
			}
		}
	}
	for no := range m.sessions {
		if only == nil || slices.Contains(only, no) {
			delete(m.sessions, no)
		}
	}
	return n
}

func (m *verifC40Model) lostLanes(no string) []string {
	var out []string
	for k, v := range m.lost[no] {
		if v {
			out = append(out, k)
		}
	}
	sort.Strings(out)
	return out
}

func verifC40TextDelta(existing, payload []byte) []byte {
	var d struct {
		Kind  string `json:"kind"`
		Delta string `json:"delta"`
	}
	if json.Unmarshal(payload, &d) != nil || d.Kind != "text" {
		return slices.Clone(payload)
	}
	var cur struct {
		Kind string `json:"kind"`
		Text string `json:"text"`
	}
	text := ""
	if json.Unmarshal(existing, &cur) == nil && cur.Kind == "text" {
		text = cur.Text
	}
	out, _ := json.Marshal(struct {
		Kind string `json:"kind"`
		Text string `json:"text"`
	}{"text", text + d.Delta})
	return out
}

// cacheOnly applies open/delta/snapshot to the cache model.
func (m *verifC40Model) cacheOnly(e metadb.MessageEventAppend) {
	s := m.session(e.ClientMsgNo, true)
	if s.applied[e.EventID] {
		return
	}
	s.applied[e.EventID] = true
	l := s.lanes[e.EventKey]
	if l == nil {
		l = &verifC40Lane{}
		s.lanes[e.EventKey] = l
	}
	if l.terminal {
		return
	}
	switch e.EventType {
	case metadb.EventTypeStreamDelta:
		l.snapshot = verifC40TextDelta(l.snapshot, e.Payload)
	case metadb.EventTypeStreamSnapshot:
		l.snapshot = slices.Clone(e.Payload)
		delete(m.lost[e.ClientMsgNo], e.EventKey) // a full snapshot supersedes whatever was lost
	}
}

func verifC40OwnSnapshot(payload []byte) []byte {
	body := map[string]json.RawMessage{}
	if len(payload) == 0 || json.Unmarshal(payload, &body) != nil {
		return nil
	}
	raw, ok := body["snapshot"]
	if !ok {
		return nil
	}
	if s := strings.TrimSpace(string(raw)); s == "" || s == "null" {
		return nil
	}
	return raw
}

func verifC40Terminal(status string) bool {
	return status == metadb.EventStatusClosed || status == metadb.EventStatusError || status == metadb.EventStatusCancelled
}

func verifC40StateEqual(a, b metadb.MessageEventState) bool {
	as, bs := a.SnapshotPayload, b.SnapshotPayload
	a.SnapshotPayload, b.SnapshotPayload = nil, nil
	return bytes.Equal(as, bs) && fmt.Sprintf("%+v", a) == fmt.Sprintf("%+v", b)
}

func verifC40MaxSeq(lanes map[string]metadb.MessageEventState) uint64 {
	var m uint64
	for _, l := range lanes {
		m = max(m, l.LastMsgEventSeq)
	}
	return m
}

// verifC40AsMerged: how cached content appears inside a merged terminal payload
// (valid JSON is embedded as is, anything else as a JSON string).
func verifC40AsMerged(cached []byte) []byte {
	if len(cached) == 0 || json.Valid(cached) {
		return cached
	}
	out, _ := json.Marshal(string(cached))
	return out
}

func verifC40JSONEqual(a, b []byte) bool {
	if bytes.Equal(a, b) {
		return true
	}
	var x, y any
	if json.Unmarshal(a, &x) != nil || json.Unmarshal(b, &y) != nil {
		return false
	}
	return fmt.Sprintf("%v", x) == fmt.Sprintf("%v", y)
}

// ---------------------------------------------------------------------------
// state machine

type verifC40Stats struct {
	cacheOnly, terminalDurable, finishOK, finishMiss, finishMissAfterLoss  int
	finishOwnSnapshot, finishFlushed, losses, lossesWithContent, replays   int
	maintenance, partialLossFinish, eventOnCachedTerminal, finishOKNoFlush int
	// route schedules
	routeUpdates, routeSnapshots, routeLeaderUpdates, routeIgnored, routeMultiChange     int
	lossToLeaderless, lossToRemote, movedToUnknownLeader, keptOnLocalMove, untouchedKept int
	notLocalLeaderless, notLocalRemote                                                   int
	missAfterTwoStep, missAfterLeaderlessOnly, missAfterDirect                           int
	regainWithLostContent                                                                int
}

type verifC40SM struct {
	env      *verifC40Env
	model    *verifC40Model
	st       *verifC40Stats
	log      []string
	nextID   int
	ids      map[string][]string
	history  []metadb.MessageEventAppend
	// path[msg]: authority classes (L local, 0 leaderless, R remote) the message's
	// hash slot went through since content was last cached for it, e.g. "L0RL"
	path     map[string]string
	avoidGap bool // generator avoids continuing a stream whose cached content was lost
	excluded int  // continuations not generated because of avoidGap
	known    bool
}

func (sm *verifC40SM) fail(rt *rapid.T, format string, args ...any) {
	rt.Fatalf("history:\n%s\n%s", strings.Join(sm.log, "\n"), fmt.Sprintf(format, args...))
}

func verifC40FmtEvent(e metadb.MessageEventAppend) string {
	return fmt.Sprintf("{%s id=%q key=%q %s payload=%q}", e.ClientMsgNo, e.EventID, e.EventKey, e.EventType, e.Payload)
}

func (sm *verifC40SM) drawEvent(rt *rapid.T, types []string) metadb.MessageEventAppend {
	no := rapid.SampledFrom(verifC40Msgs).Draw(rt, "msg")
	typ := rapid.SampledFrom(types).Draw(rt, "type")
	if sm.avoidGap && len(sm.model.lostLanes(no)) > 0 && isMessageEventCacheOnlyEvent(typ) {
		// a stream that lost cached content is not continued (see TestVerifC40PartialCacheLoss
		// for that pattern); it may still be closed, finished or replayed
		sm.excluded++
		typ = rapid.SampledFrom([]string{metadb.EventTypeStreamFinish, metadb.EventTypeStreamFinish, metadb.EventTypeStreamClose, metadb.EventTypeStreamCancel}).Draw(rt, "typeAfterLoss")
	}
	e := metadb.MessageEventAppend{
		ChannelID: verifC40ChannelOf(no), ChannelType: verifC40ChannelType, ClientMsgNo: no,
		EventKey:   rapid.SampledFrom([]string{"main", "main", "tool", "aux"}).Draw(rt, "lane"),
		EventType:  typ,
		Visibility: metadb.VisibilityPublic,
		OccurredAt: int64(rapid.IntRange(0, 50).Draw(rt, "occ")),
		UpdatedAt:  int64(rapid.IntRange(0, 50).Draw(rt, "upd")),
	}
	switch typ {
	case metadb.EventTypeStreamDelta:
		if rapid.IntRange(0, 6).Draw(rt, "rawDelta") == 0 {
			e.Payload = []byte("raw-chunk")
		} else {
			e.Payload, _ = json.Marshal(map[string]string{"kind": "text", "delta": rapid.StringMatching(`[a-z]{1,3}`).Draw(rt, "delta")})
		}
	case metadb.EventTypeStreamSnapshot:
		e.Payload, _ = json.Marshal(map[string]string{"kind": "text", "text": rapid.StringMatching(`[A-Z]{1,3}`).Draw(rt, "snap")})
	case metadb.EventTypeStreamOpen:
	case metadb.EventTypeStreamFinish:
		e.EventKey = metadb.EventKeyFinish
		e.Payload = []byte(rapid.SampledFrom([]string{``, `{"end_reason":3}`, `{"end_reason":3}`, `{"snapshot":null,"end_reason":1}`,
			`{"snapshot":{"kind":"text","text":"FIN"},"end_reason":3}`}).Draw(rt, "finishPayload"))
	default:
		e.Payload = []byte(rapid.SampledFrom([]string{``, `{"end_reason":2}`, `{"error":"boom"}`, `{"snapshot":null}`,
			`{"snapshot":{"kind":"text","text":"own"},"end_reason":3}`, `not json`}).Draw(rt, "termPayload"))
	}
	if len(sm.ids[no]) > 0 && rapid.IntRange(0, 7).Draw(rt, "dup") == 0 {
		e.EventID = rapid.SampledFrom(sm.ids[no]).Draw(rt, "dupID")
	} else {
		sm.nextID++
		e.EventID = fmt.Sprintf("e%d", sm.nextID)
	}
	return e
}

var verifC40AllTypes = []string{
	metadb.EventTypeStreamDelta, metadb.EventTypeStreamDelta, metadb.EventTypeStreamDelta, metadb.EventTypeStreamDelta, metadb.EventTypeStreamDelta,
	metadb.EventTypeStreamSnapshot, metadb.EventTypeStreamOpen, metadb.EventTypeStreamClose, metadb.EventTypeStreamError, metadb.EventTypeStreamCancel,
	metadb.EventTypeStreamFinish, metadb.EventTypeStreamFinish,
}

// checkCache compares the real cache content with the model.
func (sm *verifC40SM) checkCache(rt *rapid.T, what string) {
	for _, no := range verifC40Msgs {
		if sm.env.authorityOf(no) != verifC40Local {
			// sessions of a hash slot this node is not authoritative for are not
			// reachable by any request; they are judged when authority returns
			continue
		}
		real := sm.env.node.messageEventStreamCache.states(metadb.MessageEventMessageKey{ChannelID: verifC40ChannelOf(no), ChannelType: verifC40ChannelType, ClientMsgNo: no})
		got := map[string]metadb.MessageEventState{}
		for _, s := range real {
			got[s.EventKey] = s
		}
		var want map[string]*verifC40Lane
		if s := sm.model.sessions[no]; s != nil {
			want = s.lanes
		}
		if lost := sm.model.lostLanes(no); len(want) == 0 && len(got) > 0 && len(lost) > 0 {
			sm.fail(rt, "C40 violated (after %s): this node is Slot leader of %s's hash slot again and its stream cache still holds lanes %s cached before local authority over the hash slot was lost (authority path %s); a finish without snapshot would complete from this stale partial cache instead of failing closed", what, no, verifC40LaneSummary(got), sm.path[no])
		}
		if len(got) != len(want) {
			sm.fail(rt, "C40 (leader cache) model mismatch after %s: message %s has cached lanes %v, model %v", what, no, got, want)
		}
		for k, l := range want {
			g, ok := got[k]
			if !ok || verifC40Terminal(g.Status) != l.terminal || (!l.terminal && !bytes.Equal(g.SnapshotPayload, l.snapshot)) {
				sm.fail(rt, "C40 (leader cache) model mismatch after %s: cached lane %s/%s is %+v, model terminal=%v snapshot=%q", what, no, k, g, l.terminal, l.snapshot)
			}
		}
	}
}

// durableClauses: the durable projection only moves forward.
func (sm *verifC40SM) durableClauses(rt *rapid.T, what string, before, after map[string]map[string]metadb.MessageEventState) {
	for _, no := range verifC40Msgs {
		if verifC40MaxSeq(after[no]) < verifC40MaxSeq(before[no]) {
			sm.fail(rt, "C40 violated: %s: durable event sequence of %s decreased", what, no)
		}
		for key, b := range before[no] {
			a, ok := after[no][key]
			if !ok {
				sm.fail(rt, "C40 violated: %s: durable lane %s/%s disappeared", what, no, key)
			}
			if verifC40Terminal(b.Status) && !verifC40StateEqual(a, b) {
				sm.fail(rt, "C40 violated: %s: lane %s/%s was terminal (%s) and changed again\n before=%+v\n after =%+v", what, no, key, b.Status, b, a)
			}
		}
	}
}

func verifC40DurableEqual(a, b map[string]map[string]metadb.MessageEventState) bool {
	for _, no := range verifC40Msgs {
		if len(a[no]) != len(b[no]) {
			return false
		}
		for k, v := range a[no] {
			w, ok := b[no][k]
			if !ok || !verifC40StateEqual(v, w) {
				return false
			}
		}
	}
	return true
}

func (sm *verifC40SM) appendEvent(rt *rapid.T, e metadb.MessageEventAppend, tag string) {
	before := sm.env.durable(rt)
	callsBefore := sm.env.prop.calls
	ctx := context.Background()
	res, err := sm.env.node.AppendMessageEvent(ctx, e)
	after := sm.env.durable(rt)
	if auth := sm.env.authorityOf(e.ClientMsgNo); auth != verifC40Local {
		// This node is not the Slot leader of the message's hash slot: the event is
		// not served here (leaderless: ErrNoSlotLeader; remote: forwarded — the
		// harness has no transport, so the forward fails; in a cluster the event
		// would be applied by the other node, out of this node's sight).
		sm.log = append(sm.log, fmt.Sprintf("append%s while authority=%d %s -> err=%v", tag, auth, verifC40FmtEvent(e), err))
		if err == nil {
			sm.fail(rt, "C40 (leader cache): event %s was served locally although the hash slot's Slot leader is %d", verifC40FmtEvent(e), auth)
		}
		if auth == 0 && !errors.Is(err, ErrNoSlotLeader) {
			sm.fail(rt, "C40 (leader cache): event %s on a leaderless route returned %v, want ErrNoSlotLeader", verifC40FmtEvent(e), err)
		}
		if sm.env.prop.calls != callsBefore || !verifC40DurableEqual(before, after) {
			sm.fail(rt, "C40 (leader cache): event %s reached the durable store although this node is not the Slot leader", verifC40FmtEvent(e))
		}
		if auth == 0 {
			sm.st.notLocalLeaderless++
		} else {
			sm.st.notLocalRemote++
		}
		sm.checkCache(rt, verifC40FmtEvent(e))
		return
	}
	sm.log = append(sm.log, fmt.Sprintf("append%s %s -> {key=%s seq=%d status=%s} err=%v", tag, verifC40FmtEvent(e), res.EventKey, res.MsgEventSeq, res.Status, err))
	sm.history = append(sm.history, e)
	if !slices.Contains(sm.ids[e.ClientMsgNo], e.EventID) {
		sm.ids[e.ClientMsgNo] = append(sm.ids[e.ClientMsgNo], e.EventID)
	}
	no := e.ClientMsgNo
	what := verifC40FmtEvent(e)
	sm.durableClauses(rt, what, before, after)

	switch {
	case isMessageEventCacheOnlyEvent(e.EventType):
		if err != nil {
			sm.fail(rt, "C40: cache-only append failed: %v", err)
		}
		if sm.env.prop.calls != callsBefore || !verifC40DurableEqual(before, after) {
			sm.fail(rt, "C40 (leader cache): cache-only event %s reached the durable store", what)
		}
		if s := sm.model.sessions[no]; s != nil && s.lanes[e.EventKey] != nil && s.lanes[e.EventKey].terminal {
			sm.st.eventOnCachedTerminal++
		}
		sm.model.cacheOnly(e)
		sm.st.cacheOnly++
		if len(sm.model.lostLanes(no)) == 0 {
			sm.path[no] = "L"
		}

	case e.EventType == metadb.EventTypeStreamFinish:
		open := sm.model.openLanes(no)
		own := verifC40OwnSnapshot(e.Payload)
		lost := sm.model.lostLanes(no)
		if len(open) == 0 && own == nil {
			// nothing cached and no snapshot of its own: must fail closed
			if !errors.Is(err, ErrMessageEventStreamCacheMiss) {
				sm.fail(rt, "C40 violated: finish %s with an empty leader cache and no snapshot returned %v (want ErrMessageEventStreamCacheMiss); lost lanes=%v", what, err, lost)
			}
			if sm.env.prop.calls != callsBefore || !verifC40DurableEqual(before, after) {
				sm.fail(rt, "C40 violated: failed finish %s still wrote to the durable projection", what)
			}
			sm.st.finishMiss++
			if len(lost) > 0 {
				sm.st.finishMissAfterLoss++
				switch path := sm.path[no]; {
				case strings.HasPrefix(path, "L0R") && strings.HasSuffix(path, "L"):
					sm.st.missAfterTwoStep++
				case strings.HasPrefix(path, "L0") && !strings.Contains(path, "R") && strings.HasSuffix(path, "L"):
					sm.st.missAfterLeaderlessOnly++
				case strings.HasPrefix(path, "LR") && strings.HasSuffix(path, "L"):
					sm.st.missAfterDirect++
				}
			}
			break
		}
		if err != nil {
			sm.fail(rt, "C40 (leader cache): finish %s with cached open lanes %v / own snapshot %q failed: %v", what, open, own, err)
		}
		fin, hasFin := after[no][metadb.EventKeyFinish]
		_, hadFin := before[no][metadb.EventKeyFinish]
		if res.EventKey == metadb.EventKeyFinish && (!hasFin || fin.Status != metadb.EventStatusClosed) {
			sm.fail(rt, "C40 (leader cache): finish %s succeeded but the finish lane is %+v", what, fin)
		}
		if res.EventKey != metadb.EventKeyFinish && hasFin != hadFin {
			// the finish id was a replay of another durable event's id: not applied twice
			sm.fail(rt, "C40 violated: finish %s reused a durable event id (answer lane %s) but a finish lane appeared", what, res.EventKey)
		}
		if len(lost) > 0 && own == nil && hasFin && !hadFin {
			// Cached non-durable deltas of `lost` are gone, the finish carries no
			// snapshot, and still a completed projection was written.
			sm.st.partialLossFinish++
			msg := fmt.Sprintf("finish %s completed the projection although cached non-durable content of lane(s) %v of %s had been lost with the leader cache (durable lanes now: %v)",
				what, lost, no, verifC40LaneSummary(after[no]))
			if !kit.KnownFinding("C40", verifC40PartialLossSignature) {
				sm.fail(rt, "C40 violated: %s", msg)
			}
			sm.known = true
		}
		for _, key := range open {
			a, ok := after[no][key]
			if !ok || !verifC40Terminal(a.Status) {
				sm.fail(rt, "C40 violated: finish %s completed but cached open lane %s/%s was not flushed to a terminal durable lane: %+v", what, no, key, a)
			}
			if b, had := before[no][key]; had && verifC40Terminal(b.Status) {
				continue // finalized earlier; must not change (checked by durableClauses)
			}
			if a.LastEventID != finishFlushMessageEventID(e.EventID, key) {
				continue // flush event id was a replay of an earlier flush; lane content judged then
			}
			want := verifC40AsMerged(sm.model.sessions[no].lanes[key].snapshot)
			if own != nil {
				want = own
			}
			if len(want) > 0 && !verifC40JSONEqual(a.SnapshotPayload, want) {
				sm.fail(rt, "C40 violated: finish %s flushed lane %s/%s with snapshot %q, cached content was %q", what, no, key, a.SnapshotPayload, want)
			}
			sm.st.finishFlushed++
		}
		if len(open) == 0 {
			sm.st.finishOKNoFlush++
		}
		if own != nil {
			sm.st.finishOwnSnapshot++
		}
		sm.st.finishOK++
		delete(sm.model.sessions, no)
		delete(sm.model.lost, no)

	default: // close / error / cancel: merged with the cached snapshot, written durably
		if err != nil {
			sm.fail(rt, "C40 (leader cache): terminal event %s failed: %v", what, err)
		}
		appliedNow := res.MsgEventSeq == verifC40MaxSeq(before[no])+1 && res.State.LastEventID == e.EventID
		s := sm.model.sessions[no]
		if appliedNow {
			a := after[no][e.EventKey]
			if !verifC40Terminal(a.Status) || res.EventKey != e.EventKey {
				sm.fail(rt, "C40 violated: terminal event %s applied but lane is %+v", what, a)
			}
			var cached []byte
			if s != nil && s.lanes[e.EventKey] != nil {
				cached = s.lanes[e.EventKey].snapshot
			}
			want := verifC40OwnSnapshot(e.Payload)
			if want == nil {
				want = verifC40AsMerged(cached)
			}
			if len(want) > 0 && !verifC40JSONEqual(a.SnapshotPayload, want) {
				sm.fail(rt, "C40 violated: terminal event %s stored snapshot %q, expected %q (own snapshot, else cached content)", what, a.SnapshotPayload, want)
			}
			delete(sm.model.lost[no], e.EventKey)
			sm.st.terminalDurable++
		} else if !verifC40DurableEqual(before, after) {
			sm.fail(rt, "C40 violated: terminal event %s was not new (answer seq=%d) but the durable projection changed", what, res.MsgEventSeq)
		}
		if s != nil { // markTerminalPersisted mirrors the durable answer into the session
			s.applied[e.EventID] = true
			if verifC40Terminal(res.Status) || res.State.EventKey != "" {
				s.lanes[res.EventKey] = &verifC40Lane{terminal: verifC40Terminal(res.Status), snapshot: slices.Clone(res.State.SnapshotPayload)}
			}
		}
	}
	sm.checkCache(rt, what)
}

func verifC40LaneSummary(lanes map[string]metadb.MessageEventState) string {
	var keys []string
	for k := range lanes {
		keys = append(keys, k)
	}
	sort.Strings(keys)
	var parts []string
	for _, k := range keys {
		parts = append(parts, fmt.Sprintf("%s:%s:%q", k, lanes[k].Status, lanes[k].SnapshotPayload))
	}
	return strings.Join(parts, " ")
}

// afterRouteUpdate: bookkeeping + oracle shared by every route update. lost = the
// messages whose hash slot had the local node as Slot leader before the update
// and has not after it; exactly their sessions must be gone (checked for the
// messages this node is authoritative for, and again whenever authority returns).
func (sm *verifC40SM) afterRouteUpdate(rt *rapid.T, what string, lost []string, before map[string]map[string]metadb.MessageEventState, prevAuth map[string]uint64) {
	for _, no := range verifC40Msgs {
		auth := sm.env.authorityOf(no)
		cls := verifC40AuthClass(auth)
		if p := sm.path[no]; p != "" && !strings.HasSuffix(p, cls) {
			sm.path[no] = p + cls
		}
		hadContent := false
		if s := sm.model.sessions[no]; s != nil {
			for _, l := range s.lanes {
				hadContent = hadContent || (!l.terminal && len(l.snapshot) > 0)
			}
		}
		switch {
		case slices.Contains(lost, no) && hadContent && auth == 0:
			sm.st.lossToLeaderless++
		case slices.Contains(lost, no) && hadContent:
			sm.st.lossToRemote++
		case !slices.Contains(lost, no) && hadContent && prevAuth[no] == verifC40Local:
			sm.st.untouchedKept++
		}
		if prevAuth[no] != verifC40Local && auth == verifC40Local && len(sm.model.lostLanes(no)) > 0 {
			sm.st.regainWithLostContent++
		}
	}
	n := 0
	if len(lost) > 0 {
		n = sm.model.loseCache(lost)
		sm.st.losses++
		if n > 0 {
			sm.st.lossesWithContent++
		}
	}
	sm.st.routeUpdates++
	auths := ""
	for _, no := range verifC40Msgs {
		auths += fmt.Sprintf(" %s:hs%d->slot%d/leader%d", no, verifC40HashSlotOf(no), sm.env.routes.hashToSlot[verifC40HashSlotOf(no)], sm.env.authorityOf(no))
	}
	sm.log = append(sm.log, fmt.Sprintf("route update (%s):%s; local authority lost for %v, %d lanes with non-durable content lost", what, auths, lost, n))
	if !verifC40DurableEqual(before, sm.env.durable(rt)) {
		sm.fail(rt, "C40 (leader cache): route update changed the durable projection")
	}
	sm.checkCache(rt, "route update ("+what+")")
}

func (sm *verifC40SM) auths() map[string]uint64 {
	out := map[string]uint64{}
	for _, no := range verifC40Msgs {
		out[no] = sm.env.authorityOf(no)
	}
	return out
}

// actRoute: one route update of the kinds production installs.
func (sm *verifC40SM) actRoute(rt *rapid.T) {
	env := sm.env
	before := env.durable(rt)
	prev := sm.auths()
	kind := rapid.SampledFrom([]string{"leaders", "leaders", "leaders", "leaders", "snapshot", "snapshot", "snapshot", "ignored-status", "advance"}).Draw(rt, "routeKind")
	var present []uint32
	for _, slot := range verifC40SlotIDs {
		if env.routes.present[slot] {
			present = append(present, slot)
		}
	}
	switch kind {
	case "leaders":
		// observed Slot leaders (refreshDefaultSlotLeaders / installObservedRemoteSlotLeaders):
		// one or more Slots at once; half of the time aimed at a Slot serving a stream
		var st []routing.SlotStatus
		n := rapid.IntRange(1, 2).Draw(rt, "leaderCount")
		for i := 0; i < n; i++ {
			slot := rapid.SampledFrom(present).Draw(rt, "slot")
			if rapid.Bool().Draw(rt, "aimAtStream") {
				slot = env.routes.hashToSlot[verifC40HashSlotOf(rapid.SampledFrom(verifC40Msgs).Draw(rt, "aimMsg"))]
			}
			env.term++
			st = append(st, routing.SlotStatus{SlotID: slot, Leader: rapid.SampledFrom([]uint64{1, 1, 1, 2, 2, 3}).Draw(rt, "leader"), LeaderTerm: env.term})
		}
		lost, changed := env.routeUpdate(rt, func(r *routing.Router) error { r.UpdateSlotLeaders(st); return nil }, func(m *verifC40Routes) { m.applyLeaders(st) })
		sm.st.routeLeaderUpdates++
		if changed > 1 {
			sm.st.routeMultiChange++
		}
		sm.afterRouteUpdate(rt, fmt.Sprintf("slot leaders %+v", st), lost, before, prev)
	case "ignored-status":
		// a status without leader, or with an older term than the known one, is ignored
		var known []uint32
		for _, slot := range present {
			if env.routes.term[slot] > 1 {
				known = append(known, slot)
			}
		}
		if len(known) == 0 {
			rt.Skip("no Slot with a known leader term")
		}
		slot := rapid.SampledFrom(known).Draw(rt, "slot")
		st := []routing.SlotStatus{{SlotID: slot, Leader: 0, LeaderTerm: env.term + 1}}
		if rapid.Bool().Draw(rt, "staleTerm") {
			st = []routing.SlotStatus{{SlotID: slot, Leader: rapid.SampledFrom([]uint64{1, 2, 3}).Draw(rt, "leader"), LeaderTerm: env.routes.term[slot] - 1}}
		}
		lost, changed := env.routeUpdate(rt, func(r *routing.Router) error { r.UpdateSlotLeaders(st); return nil }, func(m *verifC40Routes) { m.applyLeaders(st) })
		if changed != 0 || len(lost) != 0 {
			sm.fail(rt, "C40 harness: ignored slot status %+v changed the routing model", st)
		}
		sm.st.routeIgnored++
		sm.afterRouteUpdate(rt, fmt.Sprintf("ignored slot status %+v", st), lost, before, prev)
	case "advance":
		rev := env.routes.revision + 1
		lost, _ := env.routeUpdate(rt, func(r *routing.Router) error { r.AdvanceRevision(rev); return nil }, func(m *verifC40Routes) { m.revision = rev })
		sm.afterRouteUpdate(rt, fmt.Sprintf("revision %d", rev), lost, before, prev)
	case "snapshot":
		// control snapshot (applySnapshot): hash slots rebalanced between Slots 1..3,
		// Slots added / removed; a Slot that is new to the table has no observed leader
		h2s := slices.Clone(env.routes.hashToSlot)
		for hs := range h2s {
			if rapid.IntRange(0, 2).Draw(rt, "move") == 0 {
				h2s[hs] = rapid.SampledFrom(verifC40SlotIDs).Draw(rt, "toSlot")
			}
		}
		if rapid.Bool().Draw(rt, "moveStream") { // aim at a stream's hash slot
			h2s[verifC40HashSlotOf(rapid.SampledFrom(verifC40Msgs).Draw(rt, "aimMsg"))] = rapid.SampledFrom(verifC40SlotIDs).Draw(rt, "toSlot")
		}
		pres := map[uint32]bool{}
		for _, slot := range h2s {
			pres[slot] = true
		}
		for _, slot := range verifC40SlotIDs {
			if !pres[slot] && env.routes.present[slot] && rapid.IntRange(0, 2).Draw(rt, "keepSlot") > 0 {
				pres[slot] = true
			}
		}
		rev := env.routes.revision + 1
		oldH2S := slices.Clone(env.routes.hashToSlot)
		lost, changed := env.routeUpdate(rt, func(r *routing.Router) error {
			return r.UpdateControlSnapshot(env.routes.snapshot())
		}, func(m *verifC40Routes) { m.applySnapshot(rev, h2s, pres) })
		sm.st.routeSnapshots++
		if changed > 1 {
			sm.st.routeMultiChange++
		}
		for _, no := range verifC40Msgs {
			hs := verifC40HashSlotOf(no)
			if oldH2S[hs] != h2s[hs] {
				switch {
				case env.routes.authority(hs) == 0:
					sm.st.movedToUnknownLeader++
				case prev[no] == verifC40Local && env.routes.authority(hs) == verifC40Local:
					sm.st.keptOnLocalMove++
				}
			}
		}
		sm.afterRouteUpdate(rt, fmt.Sprintf("control snapshot rev %d hashToSlot=%v slots=%v", rev, h2s, pres), lost, before, prev)
	}
}

func (sm *verifC40SM) actLoss(rt *rapid.T) {
	kind := rapid.SampledFrom([]string{"leadership", "leadership", "restore-reset", "restore-pause"}).Draw(rt, "lossKind")
	before := sm.env.durable(rt)
	if kind == "leadership" {
		// Slot leader of m1's channel moves to node 2, then back (two updates)
		slot := sm.env.routes.hashToSlot[verifC40HashSlotOf("m1")]
		for _, leader := range []uint64{2, verifC40Local} {
			prev := sm.auths()
			lost := sm.env.setLeader(rt, slot, leader)
			sm.afterRouteUpdate(rt, fmt.Sprintf("slot %d leader -> %d", slot, leader), lost, before, prev)
		}
		return
	}
	switch kind {
	case "restore-reset":
		sm.env.node.messageEventStreamCache.resetAfterRestore()
	case "restore-pause":
		sm.env.node.messageEventStreamCache.pauseForRestore()
		// while paused, cache-only traffic is fenced
		if sm.env.authorityOf(verifC40Msgs[0]) == verifC40Local {
			sm.nextID++
			e := metadb.MessageEventAppend{ChannelID: verifC40Channel, ChannelType: verifC40ChannelType, ClientMsgNo: verifC40Msgs[0],
				EventID: fmt.Sprintf("e%d", sm.nextID), EventKey: "main", EventType: metadb.EventTypeStreamDelta,
				Visibility: metadb.VisibilityPublic, Payload: []byte(`{"kind":"text","delta":"z"}`)}
			_, err := sm.env.node.AppendMessageEvent(context.Background(), e)
			if !errors.Is(err, ErrMaintenance) {
				sm.fail(rt, "C40 (leader cache): delta during restore pause returned %v, want ErrMaintenance", err)
			}
			sm.st.maintenance++
		}
		sm.env.node.messageEventStreamCache.resumeAfterRestore()
	}
	n := sm.model.loseCache(nil)
	sm.st.losses++
	if n > 0 {
		sm.st.lossesWithContent++
	}
	sm.log = append(sm.log, fmt.Sprintf("cache loss (%s): %d lanes with non-durable content lost", kind, n))
	if !verifC40DurableEqual(before, sm.env.durable(rt)) {
		sm.fail(rt, "C40 (leader cache): cache loss changed the durable projection")
	}
	sm.checkCache(rt, "cache loss")
}

func (sm *verifC40SM) run(rt *rapid.T, k *kit.Case) {
	rt.Repeat(map[string]func(*rapid.T){
		"append":  func(rt *rapid.T) { sm.appendEvent(rt, sm.drawEvent(rt, verifC40AllTypes), "") },
		"append2": func(rt *rapid.T) { sm.appendEvent(rt, sm.drawEvent(rt, verifC40AllTypes), "") },
		"append3": func(rt *rapid.T) { sm.appendEvent(rt, sm.drawEvent(rt, verifC40AllTypes), "") },
		"append4": func(rt *rapid.T) { sm.appendEvent(rt, sm.drawEvent(rt, verifC40AllTypes), "") },
		"replay": func(rt *rapid.T) {
			if len(sm.history) == 0 {
				rt.Skip("nothing to replay")
			}
			e := sm.history[rapid.IntRange(0, len(sm.history)-1).Draw(rt, "replayIdx")]
			if sm.avoidGap && len(sm.model.lostLanes(e.ClientMsgNo)) > 0 && isMessageEventCacheOnlyEvent(e.EventType) {
				sm.excluded++
				rt.Skip("stream that lost content is not continued here")
			}
			sm.st.replays++
			sm.appendEvent(rt, e, " (replay)")
		},
		"loss":   sm.actLoss,
		"route":  sm.actRoute,
		"route2": sm.actRoute,
	})
	st := sm.st
	k.Key(strings.Join(sm.log, "\n"))
	k.LabelIf(st.cacheOnly > 0, "cache-only events")
	k.LabelIf(st.terminalDurable > 0, "terminal event written durably")
	k.LabelIf(st.finishOK > 0, "finish completed")
	k.LabelIf(st.finishFlushed > 0, "finish flushed cached lanes")
	k.LabelIf(st.finishOwnSnapshot > 0, "finish with its own snapshot")
	k.LabelIf(st.finishMiss > 0, "finish failed closed (cache miss)")
	k.LabelIf(st.finishMissAfterLoss > 0, "finish failed closed after loss of cached deltas")
	k.LabelIf(st.losses > 0, "cache loss")
	k.LabelIf(st.lossesWithContent > 0, "cache loss dropping non-durable content")
	k.LabelIf(st.maintenance > 0, "delta fenced during restore pause")
	k.LabelIf(st.replays > 0, "replayed event")
	k.LabelIf(st.eventOnCachedTerminal > 0, "cache-only event on a lane already terminal")
	k.LabelIf(st.routeLeaderUpdates > 0, "route: observed slot leaders installed")
	k.LabelIf(st.routeSnapshots > 0, "route: control snapshot installed")
	k.LabelIf(st.routeIgnored > 0, "route: ignored slot status (no leader / older term)")
	k.LabelIf(st.routeMultiChange > 0, "route: several hash slots changed in one update")
	k.LabelIf(st.lossToLeaderless > 0, "route: local authority with cached content -> leaderless")
	k.LabelIf(st.lossToRemote > 0, "route: local authority with cached content -> remote leader")
	k.LabelIf(st.movedToUnknownLeader > 0, "route: stream's hash slot moved to a Slot with unknown leader")
	k.LabelIf(st.keptOnLocalMove > 0, "route: stream's hash slot moved between two locally led Slots")
	k.LabelIf(st.untouchedKept > 0, "route: update kept local authority of a stream with cached content")
	k.LabelIf(st.regainWithLostContent > 0, "route: local authority returned after cached content was lost")
	k.LabelIf(st.notLocalLeaderless > 0, "event refused on a leaderless route")
	k.LabelIf(st.notLocalRemote > 0, "event not served locally (remote leader)")
	k.LabelIf(st.missAfterTwoStep > 0, "finish failed closed after local->leaderless->remote->local")
	k.LabelIf(st.missAfterLeaderlessOnly > 0, "finish failed closed after local->leaderless->local")
	k.LabelIf(st.missAfterDirect > 0, "finish failed closed after local->remote->local")
	k.LabelIf(st.partialLossFinish > 0, "KNOWN FINDING pattern: finish after partial cache loss completed")
	k.Sample(func() any { return sm.log })
}

// TestVerifC40LeaderCache: random streams with cache loss. While the finding
// "finish-after-partial-cache-loss-completes" is listed as known, a stream whose
// cached content was lost is not CONTINUED with further cache-only events (that
// pattern is isolated in TestVerifC40PartialCacheLoss; the avoided continuations
// are counted in the evidence extra "excluded_by_known_finding"); everything
// else — finish/terminal events after loss, replays, other messages — is
// generated. Once the finding is no longer listed the restriction disappears.
func TestVerifC40LeaderCache(t *testing.T) {
	col := kit.For(t, "C40")
	// the exclusion exists only while the finding is recorded as known and unrepaired
	avoid := kit.HasKnownFinding("C40", verifC40PartialLossSignature)
	kit.Check(t, "C40", func(rt *rapid.T, k *kit.Case) {
		env := verifC40NewEnv(rt, rapid.Bool().Draw(rt, "coalescer"))
		defer env.cleanup()
		sm := &verifC40SM{env: env, model: verifC40NewModel(), st: &verifC40Stats{}, ids: map[string][]string{}, path: map[string]string{}, avoidGap: avoid}
		sm.run(rt, k)
		if avoid {
			col.AddExtra("excluded_by_known_finding", int64(sm.excluded))
		}
		// the property's rule: cache-only deltas, then loss, then finish
		k.SetNonTrivial(sm.st.finishMissAfterLoss > 0 && sm.st.finishFlushed > 0)
	})
}

// TestVerifC40PartialCacheLoss: the same machine without the restriction: after
// a loss the client keeps streaming (what a real client does after a leader
// change) and then finishes. The strict reading of C40 — a finish that would
// drop cached non-durable deltas fails instead of writing a completed
// projection — is asserted; the one recorded signature is reported as
// KNOWN-FINDING when listed in /verif/known_findings.json.
func TestVerifC40PartialCacheLoss(t *testing.T) {
	kit.Check(t, "C40", func(rt *rapid.T, k *kit.Case) {
		env := verifC40NewEnv(rt, false)
		defer env.cleanup()
		sm := &verifC40SM{env: env, model: verifC40NewModel(), st: &verifC40Stats{}, ids: map[string][]string{}, path: map[string]string{}}
		sm.run(rt, k)
		k.SetNonTrivial(sm.st.lossesWithContent > 0 && sm.st.finishOK+sm.st.finishMiss > 0)
	})
}

// TestVerifC40PartialCacheLossRepro: the minimal history of the recorded
// finding, replayed deterministically on every run (delta, leadership loss,
// delta, finish). Strict: the finish must fail closed or keep the lost delta;
// the one recorded signature is reported as KNOWN-FINDING while listed.
func TestVerifC40PartialCacheLossRepro(t *testing.T) {
	col := kit.For(t, "C40")
	env := verifC40NewEnv(t, false)
	defer env.cleanup()
	ev := func(id, typ, payload string) metadb.MessageEventAppend {
		key := "main"
		if typ == metadb.EventTypeStreamFinish {
			key = metadb.EventKeyFinish
		}
		return metadb.MessageEventAppend{ChannelID: verifC40Channel, ChannelType: verifC40ChannelType, ClientMsgNo: "m1", EventID: id,
			EventKey: key, EventType: typ, Visibility: metadb.VisibilityPublic, Payload: []byte(payload)}
	}
	ctx := context.Background()
	if _, err := env.node.AppendMessageEvent(ctx, ev("e1", metadb.EventTypeStreamDelta, `{"kind":"text","delta":"a"}`)); err != nil {
		t.Fatalf("delta 1: %v", err)
	}
	env.loseLeadership(t)
	if _, err := env.node.AppendMessageEvent(ctx, ev("e2", metadb.EventTypeStreamDelta, `{"kind":"text","delta":"bb"}`)); err != nil {
		t.Fatalf("delta 2: %v", err)
	}
	_, err := env.node.AppendMessageEvent(ctx, ev("e3", metadb.EventTypeStreamFinish, `{"end_reason":3}`))
	lanes := env.durable(t)["m1"]
	k := col.NewCase()
	k.Key("repro: delta a / leadership loss / delta bb / finish")
	k.NonTrivial()
	k.Label("deterministic reproduction of the partial-cache-loss finding")
	k.Sample(func() any {
		return fmt.Sprintf("delta a; leadership loss; delta bb; finish -> err=%v durable=%s", err, verifC40LaneSummary(lanes))
	})
	fin, completed := lanes[metadb.EventKeyFinish]
	switch {
	case errors.Is(err, ErrMessageEventStreamCacheMiss) && !completed:
		// fail closed: the property holds (the finding has been repaired)
	case err == nil && completed && fin.Status == metadb.EventStatusClosed && strings.Contains(string(lanes["main"].SnapshotPayload), `"abb"`):
		// nothing dropped
	case err == nil && completed:
		if !kit.KnownFinding("C40", verifC40PartialLossSignature) {
			t.Fatalf("C40 violated: delta a / leadership loss / delta bb / finish completed the projection without the lost delta: %s", verifC40LaneSummary(lanes))
		}
		k.Label("KNOWN FINDING pattern: finish after partial cache loss completed")
	default:
		t.Fatalf("C40 (leader cache): unexpected outcome err=%v durable=%s", err, verifC40LaneSummary(lanes))
	}
	col.Commit(k)
}
