package cluster

// C40 layer 2 — the slot leader's stream cache in front of the durable reducer.
//
// Driven object: a Node assembled in-package (same partial construction the
// repository's own TestClusterMessageEventCacheClearsWhenLocalSlotLeadershipIsLost
// uses: cfg, router with a one-slot control snapshot, the real
// messageEventStreamCache, optionally the real finish coalescer) whose proposer
// is a harness object that applies every proposed command synchronously to the
// REAL slot state machine (pkg/slot/fsm) over a REAL meta DB. So
// Node.AppendMessageEvent -> appendMessageEventLocal -> cache / finish flush /
// durable path run unmodified; only Raft replication is replaced by a direct
// apply. Cache loss is injected through the code's own paths:
// leadership loss (router.UpdateSlotLeaders + publishRouteAuthorityChanges),
// resetAfterRestore, pauseForRestore/resumeAfterRestore.

import (
	"bytes"
	"context"
	"encoding/json"
	"errors"
	"fmt"
	"path/filepath"
	"slices"
	"sort"
	"strings"
	"sync"
	"testing"

	"github.com/WuKongIM/WuKongIM/pkg/cluster/control"
	"github.com/WuKongIM/WuKongIM/pkg/cluster/propose"
	"github.com/WuKongIM/WuKongIM/pkg/cluster/routing"
	metadb "github.com/WuKongIM/WuKongIM/pkg/db/meta"
	metafsm "github.com/WuKongIM/WuKongIM/pkg/slot/fsm"
	"github.com/WuKongIM/WuKongIM/pkg/slot/multiraft"
	"pgregory.net/rapid"
	"verif.local/kit"
)

const (
	verifC40Channel     = "g-stream"
	verifC40ChannelType = int64(2)
	// signature under which the finding below is (or is not) listed in known_findings.json
	verifC40PartialLossSignature = "finish-after-partial-cache-loss-completes"
)

var verifC40Msgs = []string{"m1", "m2"}

// verifC40Proposer applies proposals straight to the real slot state machine.
type verifC40Proposer struct {
	mu    sync.Mutex
	sm    multiraft.StateMachine
	route func(key string) (uint16, error)
	index uint64
	calls int
}

func (p *verifC40Proposer) Propose(ctx context.Context, req propose.Request) error {
	_, err := p.ProposeResult(ctx, req)
	return err
}

func (p *verifC40Proposer) ProposeResult(ctx context.Context, req propose.Request) ([]byte, error) {
	p.mu.Lock()
	defer p.mu.Unlock()
	hs, err := p.route(req.Key)
	if err != nil {
		return nil, err
	}
	p.index++
	p.calls++
	return p.sm.Apply(ctx, multiraft.Command{SlotID: 1, HashSlot: hs, Index: p.index, Term: 1, Data: req.Command})
}

type verifC40Env struct {
	node    *Node
	db      *metadb.DB
	prop    *verifC40Proposer
	term    uint64
	cleanup func()
}

func verifC40Snapshot() control.Snapshot {
	return control.Snapshot{
		Revision:     1,
		ControllerID: 1,
		Nodes: []control.Node{
			{NodeID: 1, Addr: "127.0.0.1:1001", Roles: []control.Role{control.RoleData}, Status: control.NodeAlive},
			{NodeID: 2, Addr: "127.0.0.1:1002", Roles: []control.Role{control.RoleData}, Status: control.NodeAlive},
		},
		Slots:     []control.SlotAssignment{{SlotID: 1, DesiredPeers: []uint64{1, 2}, ConfigEpoch: 1, PreferredLeader: 1}},
		HashSlots: control.HashSlotTable{Revision: 1, Count: 2, Ranges: []control.HashSlotRange{{From: 0, To: 1, SlotID: 1}}},
	}
}

type verifC40TB interface {
	Fatalf(format string, args ...any)
}

func verifC40NewEnv(rt verifC40TB, coalesce bool) *verifC40Env {
	dir, rm := kit.TempDir()
	db, err := metadb.Open(filepath.Join(dir, "meta"))
	if err != nil {
		rm()
		rt.Fatalf("open meta: %v", err)
	}
	sm, err := metafsm.NewStateMachineWithHashSlots(db, 1, []uint16{0, 1})
	if err != nil {
		db.Close()
		rm()
		rt.Fatalf("state machine: %v", err)
	}
	node := &Node{
		cfg:                     Config{NodeID: 1},
		router:                  routing.NewRouter(),
		messageEventStreamCache: newMessageEventStreamCache(0),
	}
	if coalesce {
		node.messageEventFinishCoalescer = newMessageEventFinishCoalescer(defaultMessageEventFinishCoalesceWindow)
	}
	if err := node.router.UpdateControlSnapshot(verifC40Snapshot()); err != nil {
		db.Close()
		rm()
		rt.Fatalf("UpdateControlSnapshot: %v", err)
	}
	env := &verifC40Env{node: node, db: db, term: 9, cleanup: func() { _ = db.Close(); rm() }}
	node.router.UpdateSlotLeaders([]routing.SlotStatus{{SlotID: 1, Leader: 1, LeaderTerm: env.term}})
	env.prop = &verifC40Proposer{sm: sm, route: func(key string) (uint16, error) {
		r, err := node.router.RouteKey(key)
		if err != nil {
			return 0, err
		}
		return r.HashSlot, nil
	}}
	node.proposer = env.prop
	node.started.Store(true)
	return env
}

func (e *verifC40Env) hashSlot(rt verifC40TB) uint16 {
	hs, err := e.prop.route(verifC40Channel)
	if err != nil {
		rt.Fatalf("route: %v", err)
	}
	return hs
}

// durable reads every stored lane of every message.
func (e *verifC40Env) durable(rt verifC40TB) map[string]map[string]metadb.MessageEventState {
	out := map[string]map[string]metadb.MessageEventState{}
	hs := e.hashSlot(rt)
	for _, no := range verifC40Msgs {
		rows, err := e.db.ForHashSlot(hs).ListMessageEventStates(context.Background(), verifC40Channel, verifC40ChannelType, no, 100)
		if err != nil {
			rt.Fatalf("ListMessageEventStates: %v", err)
		}
		out[no] = map[string]metadb.MessageEventState{}
		for _, r := range rows {
			out[no][r.EventKey] = r
		}
	}
	return out
}

// loseLeadership: the slot leader moves to node 2 and back; the authority-change
// hook must drop the cached sessions of the lost hash slots.
func (e *verifC40Env) loseLeadership() {
	before := e.node.router.Table()
	e.term++
	e.node.router.UpdateSlotLeaders([]routing.SlotStatus{{SlotID: 1, Leader: 2, LeaderTerm: e.term}})
	e.node.publishRouteAuthorityChanges(before)
	before = e.node.router.Table()
	e.term++
	e.node.router.UpdateSlotLeaders([]routing.SlotStatus{{SlotID: 1, Leader: 1, LeaderTerm: e.term}})
	e.node.publishRouteAuthorityChanges(before)
}

// ---------------------------------------------------------------------------
// model of the leader cache (what is cached, non-durable)

type verifC40Lane struct {
	terminal bool
	snapshot []byte
}

type verifC40Session struct {
	lanes   map[string]*verifC40Lane
	applied map[string]bool
}

type verifC40Model struct {
	sessions map[string]*verifC40Session
	// lost[msg][lane]: cached non-durable content of that lane was lost with the
	// cache and has not been superseded since
	lost map[string]map[string]bool
}

func verifC40NewModel() *verifC40Model {
	return &verifC40Model{sessions: map[string]*verifC40Session{}, lost: map[string]map[string]bool{}}
}

func (m *verifC40Model) session(no string, create bool) *verifC40Session {
	s := m.sessions[no]
	if s == nil && create {
		s = &verifC40Session{lanes: map[string]*verifC40Lane{}, applied: map[string]bool{}}
		m.sessions[no] = s
	}
	return s
}

func (m *verifC40Model) openLanes(no string) []string {
	s := m.sessions[no]
	if s == nil {
		return nil
	}
	var out []string
	for k, l := range s.lanes {
		if !l.terminal && k != metadb.EventKeyFinish {
			out = append(out, k)
		}
	}
	sort.Strings(out)
	return out
}

// loseCache drops every session; lanes that held non-durable content are marked.
func (m *verifC40Model) loseCache() int {
	n := 0
	for no, s := range m.sessions {
		for k, l := range s.lanes {
			if !l.terminal && len(l.snapshot) > 0 {
				if m.lost[no] == nil {
					m.lost[no] = map[string]bool{}
				}
				m.lost[no][k] = true
				n++
			}
		}
	}
	m.sessions = map[string]*verifC40Session{}
	return n
}

func (m *verifC40Model) lostLanes(no string) []string {
	var out []string
	for k, v := range m.lost[no] {
		if v {
			out = append(out, k)
		}
	}
	sort.Strings(out)
	return out
}

func verifC40TextDelta(existing, payload []byte) []byte {
	var d struct {
		Kind  string `json:"kind"`
		Delta string `json:"delta"`
	}
	if json.Unmarshal(payload, &d) != nil || d.Kind != "text" {
		return slices.Clone(payload)
	}
	var cur struct {
		Kind string `json:"kind"`
		Text string `json:"text"`
	}
	text := ""
	if json.Unmarshal(existing, &cur) == nil && cur.Kind == "text" {
		text = cur.Text
	}
	out, _ := json.Marshal(struct {
		Kind string `json:"kind"`
		Text string `json:"text"`
	}{"text", text + d.Delta})
	return out
}

// cacheOnly applies open/delta/snapshot to the cache model.
func (m *verifC40Model) cacheOnly(e metadb.MessageEventAppend) {
	s := m.session(e.ClientMsgNo, true)
	if s.applied[e.EventID] {
		return
	}
	s.applied[e.EventID] = true
	l := s.lanes[e.EventKey]
	if l == nil {
		l = &verifC40Lane{}
		s.lanes[e.EventKey] = l
	}
	if l.terminal {
		return
	}
	switch e.EventType {
	case metadb.EventTypeStreamDelta:
		l.snapshot = verifC40TextDelta(l.snapshot, e.Payload)
	case metadb.EventTypeStreamSnapshot:
		l.snapshot = slices.Clone(e.Payload)
		delete(m.lost[e.ClientMsgNo], e.EventKey) // a full snapshot supersedes whatever was lost
	}
}

func verifC40OwnSnapshot(payload []byte) []byte {
	body := map[string]json.RawMessage{}
	if len(payload) == 0 || json.Unmarshal(payload, &body) != nil {
		return nil
	}
	raw, ok := body["snapshot"]
	if !ok {
		return nil
	}
	if s := strings.TrimSpace(string(raw)); s == "" || s == "null" {
		return nil
	}
	return raw
}

func verifC40Terminal(status string) bool {
	return status == metadb.EventStatusClosed || status == metadb.EventStatusError || status == metadb.EventStatusCancelled
}

func verifC40StateEqual(a, b metadb.MessageEventState) bool {
	as, bs := a.SnapshotPayload, b.SnapshotPayload
	a.SnapshotPayload, b.SnapshotPayload = nil, nil
	return bytes.Equal(as, bs) && fmt.Sprintf("%+v", a) == fmt.Sprintf("%+v", b)
}

func verifC40MaxSeq(lanes map[string]metadb.MessageEventState) uint64 {
	var m uint64
	for _, l := range lanes {
		m = max(m, l.LastMsgEventSeq)
	}
	return m
}

// verifC40AsMerged: how cached content appears inside a merged terminal payload
// (valid JSON is embedded as is, anything else as a JSON string).
func verifC40AsMerged(cached []byte) []byte {
	if len(cached) == 0 || json.Valid(cached) {
		return cached
	}
	out, _ := json.Marshal(string(cached))
	return out
}

func verifC40JSONEqual(a, b []byte) bool {
	if bytes.Equal(a, b) {
		return true
	}
	var x, y any
	if json.Unmarshal(a, &x) != nil || json.Unmarshal(b, &y) != nil {
		return false
	}
	return fmt.Sprintf("%v", x) == fmt.Sprintf("%v", y)
}

// ---------------------------------------------------------------------------
// state machine

type verifC40Stats struct {
	cacheOnly, terminalDurable, finishOK, finishMiss, finishMissAfterLoss  int
	finishOwnSnapshot, finishFlushed, losses, lossesWithContent, replays   int
	maintenance, partialLossFinish, eventOnCachedTerminal, finishOKNoFlush int
}

type verifC40SM struct {
	env      *verifC40Env
	model    *verifC40Model
	st       *verifC40Stats
	log      []string
	nextID   int
	ids      map[string][]string
	history  []metadb.MessageEventAppend
	avoidGap bool // generator avoids continuing a stream whose cached content was lost
	excluded int  // continuations not generated because of avoidGap
	known    bool
}

func (sm *verifC40SM) fail(rt *rapid.T, format string, args ...any) {
	rt.Fatalf("history:\n%s\n%s", strings.Join(sm.log, "\n"), fmt.Sprintf(format, args...))
}

func verifC40FmtEvent(e metadb.MessageEventAppend) string {
	return fmt.Sprintf("{%s id=%q key=%q %s payload=%q}", e.ClientMsgNo, e.EventID, e.EventKey, e.EventType, e.Payload)
}

func (sm *verifC40SM) drawEvent(rt *rapid.T, types []string) metadb.MessageEventAppend {
	no := rapid.SampledFrom(verifC40Msgs).Draw(rt, "msg")
	typ := rapid.SampledFrom(types).Draw(rt, "type")
	if sm.avoidGap && len(sm.model.lostLanes(no)) > 0 && isMessageEventCacheOnlyEvent(typ) {
		// a stream that lost cached content is not continued (see TestVerifC40PartialCacheLoss
		// for that pattern); it may still be closed, finished or replayed
		sm.excluded++
		typ = rapid.SampledFrom([]string{metadb.EventTypeStreamFinish, metadb.EventTypeStreamFinish, metadb.EventTypeStreamClose, metadb.EventTypeStreamCancel}).Draw(rt, "typeAfterLoss")
	}
	e := metadb.MessageEventAppend{
		ChannelID: verifC40Channel, ChannelType: verifC40ChannelType, ClientMsgNo: no,
		EventKey:   rapid.SampledFrom([]string{"main", "main", "tool", "aux"}).Draw(rt, "lane"),
		EventType:  typ,
		Visibility: metadb.VisibilityPublic,
		OccurredAt: int64(rapid.IntRange(0, 50).Draw(rt, "occ")),
		UpdatedAt:  int64(rapid.IntRange(0, 50).Draw(rt, "upd")),
	}
	switch typ {
	case metadb.EventTypeStreamDelta:
		if rapid.IntRange(0, 6).Draw(rt, "rawDelta") == 0 {
			e.Payload = []byte("raw-chunk")
		} else {
			e.Payload, _ = json.Marshal(map[string]string{"kind": "text", "delta": rapid.StringMatching(`[a-z]{1,3}`).Draw(rt, "delta")})
		}
	case metadb.EventTypeStreamSnapshot:
		e.Payload, _ = json.Marshal(map[string]string{"kind": "text", "text": rapid.StringMatching(`[A-Z]{1,3}`).Draw(rt, "snap")})
	case metadb.EventTypeStreamOpen:
	case metadb.EventTypeStreamFinish:
		e.EventKey = metadb.EventKeyFinish
		e.Payload = []byte(rapid.SampledFrom([]string{``, `{"end_reason":3}`, `{"end_reason":3}`, `{"snapshot":null,"end_reason":1}`,
			`{"snapshot":{"kind":"text","text":"FIN"},"end_reason":3}`}).Draw(rt, "finishPayload"))
	default:
		e.Payload = []byte(rapid.SampledFrom([]string{``, `{"end_reason":2}`, `{"error":"boom"}`, `{"snapshot":null}`,
			`{"snapshot":{"kind":"text","text":"own"},"end_reason":3}`, `not json`}).Draw(rt, "termPayload"))
	}
	if len(sm.ids[no]) > 0 && rapid.IntRange(0, 7).Draw(rt, "dup") == 0 {
		e.EventID = rapid.SampledFrom(sm.ids[no]).Draw(rt, "dupID")
	} else {
		sm.nextID++
		e.EventID = fmt.Sprintf("e%d", sm.nextID)
	}
	return e
}

var verifC40AllTypes = []string{
	metadb.EventTypeStreamDelta, metadb.EventTypeStreamDelta, metadb.EventTypeStreamDelta, metadb.EventTypeStreamDelta, metadb.EventTypeStreamDelta,
	metadb.EventTypeStreamSnapshot, metadb.EventTypeStreamOpen, metadb.EventTypeStreamClose, metadb.EventTypeStreamError, metadb.EventTypeStreamCancel,
	metadb.EventTypeStreamFinish, metadb.EventTypeStreamFinish,
}

// checkCache compares the real cache content with the model.
func (sm *verifC40SM) checkCache(rt *rapid.T, what string) {
	for _, no := range verifC40Msgs {
		real := sm.env.node.messageEventStreamCache.states(metadb.MessageEventMessageKey{ChannelID: verifC40Channel, ChannelType: verifC40ChannelType, ClientMsgNo: no})
		got := map[string]metadb.MessageEventState{}
		for _, s := range real {
			got[s.EventKey] = s
		}
		var want map[string]*verifC40Lane
		if s := sm.model.sessions[no]; s != nil {
			want = s.lanes
		}
		if len(got) != len(want) {
			sm.fail(rt, "C40 (leader cache) model mismatch after %s: message %s has cached lanes %v, model %v", what, no, got, want)
		}
		for k, l := range want {
			g, ok := got[k]
			if !ok || verifC40Terminal(g.Status) != l.terminal || (!l.terminal && !bytes.Equal(g.SnapshotPayload, l.snapshot)) {
				sm.fail(rt, "C40 (leader cache) model mismatch after %s: cached lane %s/%s is %+v, model terminal=%v snapshot=%q", what, no, k, g, l.terminal, l.snapshot)
			}
		}
	}
}

// durableClauses: the durable projection only moves forward.
func (sm *verifC40SM) durableClauses(rt *rapid.T, what string, before, after map[string]map[string]metadb.MessageEventState) {
	for _, no := range verifC40Msgs {
		if verifC40MaxSeq(after[no]) < verifC40MaxSeq(before[no]) {
			sm.fail(rt, "C40 violated: %s: durable event sequence of %s decreased", what, no)
		}
		for key, b := range before[no] {
			a, ok := after[no][key]
			if !ok {
				sm.fail(rt, "C40 violated: %s: durable lane %s/%s disappeared", what, no, key)
			}
			if verifC40Terminal(b.Status) && !verifC40StateEqual(a, b) {
				sm.fail(rt, "C40 violated: %s: lane %s/%s was terminal (%s) and changed again\n before=%+v\n after =%+v", what, no, key, b.Status, b, a)
			}
		}
	}
}

func verifC40DurableEqual(a, b map[string]map[string]metadb.MessageEventState) bool {
	for _, no := range verifC40Msgs {
		if len(a[no]) != len(b[no]) {
			return false
		}
		for k, v := range a[no] {
			w, ok := b[no][k]
			if !ok || !verifC40StateEqual(v, w) {
				return false
			}
		}
	}
	return true
}

func (sm *verifC40SM) appendEvent(rt *rapid.T, e metadb.MessageEventAppend, tag string) {
	before := sm.env.durable(rt)
	callsBefore := sm.env.prop.calls
	ctx := context.Background()
	res, err := sm.env.node.AppendMessageEvent(ctx, e)
	after := sm.env.durable(rt)
	sm.log = append(sm.log, fmt.Sprintf("append%s %s -> {key=%s seq=%d status=%s} err=%v", tag, verifC40FmtEvent(e), res.EventKey, res.MsgEventSeq, res.Status, err))
	sm.history = append(sm.history, e)
	if !slices.Contains(sm.ids[e.ClientMsgNo], e.EventID) {
		sm.ids[e.ClientMsgNo] = append(sm.ids[e.ClientMsgNo], e.EventID)
	}
	no := e.ClientMsgNo
	what := verifC40FmtEvent(e)
	sm.durableClauses(rt, what, before, after)

	switch {
	case isMessageEventCacheOnlyEvent(e.EventType):
		if err != nil {
			sm.fail(rt, "C40: cache-only append failed: %v", err)
		}
		if sm.env.prop.calls != callsBefore || !verifC40DurableEqual(before, after) {
			sm.fail(rt, "C40 (leader cache): cache-only event %s reached the durable store", what)
		}
		if s := sm.model.sessions[no]; s != nil && s.lanes[e.EventKey] != nil && s.lanes[e.EventKey].terminal {
			sm.st.eventOnCachedTerminal++
		}
		sm.model.cacheOnly(e)
		sm.st.cacheOnly++

	case e.EventType == metadb.EventTypeStreamFinish:
		open := sm.model.openLanes(no)
		own := verifC40OwnSnapshot(e.Payload)
		lost := sm.model.lostLanes(no)
		if len(open) == 0 && own == nil {
			// nothing cached and no snapshot of its own: must fail closed
			if !errors.Is(err, ErrMessageEventStreamCacheMiss) {
				sm.fail(rt, "C40 violated: finish %s with an empty leader cache and no snapshot returned %v (want ErrMessageEventStreamCacheMiss); lost lanes=%v", what, err, lost)
			}
			if sm.env.prop.calls != callsBefore || !verifC40DurableEqual(before, after) {
				sm.fail(rt, "C40 violated: failed finish %s still wrote to the durable projection", what)
			}
			sm.st.finishMiss++
			if len(lost) > 0 {
				sm.st.finishMissAfterLoss++
			}
			break
		}
		if err != nil {
			sm.fail(rt, "C40 (leader cache): finish %s with cached open lanes %v / own snapshot %q failed: %v", what, open, own, err)
		}
		fin, hasFin := after[no][metadb.EventKeyFinish]
		_, hadFin := before[no][metadb.EventKeyFinish]
		if res.EventKey == metadb.EventKeyFinish && (!hasFin || fin.Status != metadb.EventStatusClosed) {
			sm.fail(rt, "C40 (leader cache): finish %s succeeded but the finish lane is %+v", what, fin)
		}
		if res.EventKey != metadb.EventKeyFinish && hasFin != hadFin {
			// the finish id was a replay of another durable event's id: not applied twice
			sm.fail(rt, "C40 violated: finish %s reused a durable event id (answer lane %s) but a finish lane appeared", what, res.EventKey)
		}
		if len(lost) > 0 && own == nil && hasFin && !hadFin {
			// Cached non-durable deltas of `lost` are gone, the finish carries no
			// snapshot, and still a completed projection was written.
			sm.st.partialLossFinish++
			msg := fmt.Sprintf("finish %s completed the projection although cached non-durable content of lane(s) %v of %s had been lost with the leader cache (durable lanes now: %v)",
				what, lost, no, verifC40LaneSummary(after[no]))
			if !kit.KnownFinding("C40", verifC40PartialLossSignature) {
				sm.fail(rt, "C40 violated: %s", msg)
			}
			sm.known = true
		}
		for _, key := range open {
			a, ok := after[no][key]
			if !ok || !verifC40Terminal(a.Status) {
				sm.fail(rt, "C40 violated: finish %s completed but cached open lane %s/%s was not flushed to a terminal durable lane: %+v", what, no, key, a)
			}
			if b, had := before[no][key]; had && verifC40Terminal(b.Status) {
				continue // finalized earlier; must not change (checked by durableClauses)
			}
			if a.LastEventID != finishFlushMessageEventID(e.EventID, key) {
				continue // flush event id was a replay of an earlier flush; lane content judged then
			}
			want := verifC40AsMerged(sm.model.sessions[no].lanes[key].snapshot)
			if own != nil {
				want = own
			}
			if len(want) > 0 && !verifC40JSONEqual(a.SnapshotPayload, want) {
				sm.fail(rt, "C40 violated: finish %s flushed lane %s/%s with snapshot %q, cached content was %q", what, no, key, a.SnapshotPayload, want)
			}
			sm.st.finishFlushed++
		}
		if len(open) == 0 {
			sm.st.finishOKNoFlush++
		}
		if own != nil {
			sm.st.finishOwnSnapshot++
		}
		sm.st.finishOK++
		delete(sm.model.sessions, no)
		delete(sm.model.lost, no)

	default: // close / error / cancel: merged with the cached snapshot, written durably
		if err != nil {
			sm.fail(rt, "C40 (leader cache): terminal event %s failed: %v", what, err)
		}
		appliedNow := res.MsgEventSeq == verifC40MaxSeq(before[no])+1 && res.State.LastEventID == e.EventID
		s := sm.model.sessions[no]
		if appliedNow {
			a := after[no][e.EventKey]
			if !verifC40Terminal(a.Status) || res.EventKey != e.EventKey {
				sm.fail(rt, "C40 violated: terminal event %s applied but lane is %+v", what, a)
			}
			var cached []byte
			if s != nil && s.lanes[e.EventKey] != nil {
				cached = s.lanes[e.EventKey].snapshot
			}
			want := verifC40OwnSnapshot(e.Payload)
			if want == nil {
				want = verifC40AsMerged(cached)
			}
			if len(want) > 0 && !verifC40JSONEqual(a.SnapshotPayload, want) {
				sm.fail(rt, "C40 violated: terminal event %s stored snapshot %q, expected %q (own snapshot, else cached content)", what, a.SnapshotPayload, want)
			}
			delete(sm.model.lost[no], e.EventKey)
			sm.st.terminalDurable++
		} else if !verifC40DurableEqual(before, after) {
			sm.fail(rt, "C40 violated: terminal event %s was not new (answer seq=%d) but the durable projection changed", what, res.MsgEventSeq)
		}
		if s != nil { // markTerminalPersisted mirrors the durable answer into the session
			s.applied[e.EventID] = true
			if verifC40Terminal(res.Status) || res.State.EventKey != "" {
				s.lanes[res.EventKey] = &verifC40Lane{terminal: verifC40Terminal(res.Status), snapshot: slices.Clone(res.State.SnapshotPayload)}
			}
		}
	}
	sm.checkCache(rt, what)
}

func verifC40LaneSummary(lanes map[string]metadb.MessageEventState) string {
	var keys []string
	for k := range lanes {
		keys = append(keys, k)
	}
	sort.Strings(keys)
	var parts []string
	for _, k := range keys {
		parts = append(parts, fmt.Sprintf("%s:%s:%q", k, lanes[k].Status, lanes[k].SnapshotPayload))
	}
	return strings.Join(parts, " ")
}

func (sm *verifC40SM) actLoss(rt *rapid.T) {
	kind := rapid.SampledFrom([]string{"leadership", "leadership", "restore-reset", "restore-pause"}).Draw(rt, "lossKind")
	before := sm.env.durable(rt)
	switch kind {
	case "leadership":
		sm.env.loseLeadership()
	case "restore-reset":
		sm.env.node.messageEventStreamCache.resetAfterRestore()
	case "restore-pause":
		sm.env.node.messageEventStreamCache.pauseForRestore()
		// while paused, cache-only traffic is fenced
		sm.nextID++
		e := metadb.MessageEventAppend{ChannelID: verifC40Channel, ChannelType: verifC40ChannelType, ClientMsgNo: verifC40Msgs[0],
			EventID: fmt.Sprintf("e%d", sm.nextID), EventKey: "main", EventType: metadb.EventTypeStreamDelta,
			Visibility: metadb.VisibilityPublic, Payload: []byte(`{"kind":"text","delta":"z"}`)}
		_, err := sm.env.node.AppendMessageEvent(context.Background(), e)
		if !errors.Is(err, ErrMaintenance) {
			sm.fail(rt, "C40 (leader cache): delta during restore pause returned %v, want ErrMaintenance", err)
		}
		sm.st.maintenance++
		sm.env.node.messageEventStreamCache.resumeAfterRestore()
	}
	n := sm.model.loseCache()
	sm.st.losses++
	if n > 0 {
		sm.st.lossesWithContent++
	}
	sm.log = append(sm.log, fmt.Sprintf("cache loss (%s): %d lanes with non-durable content lost", kind, n))
	if !verifC40DurableEqual(before, sm.env.durable(rt)) {
		sm.fail(rt, "C40 (leader cache): cache loss changed the durable projection")
	}
	sm.checkCache(rt, "cache loss")
}

func (sm *verifC40SM) run(rt *rapid.T, k *kit.Case) {
	rt.Repeat(map[string]func(*rapid.T){
		"append":  func(rt *rapid.T) { sm.appendEvent(rt, sm.drawEvent(rt, verifC40AllTypes), "") },
		"append2": func(rt *rapid.T) { sm.appendEvent(rt, sm.drawEvent(rt, verifC40AllTypes), "") },
		"append3": func(rt *rapid.T) { sm.appendEvent(rt, sm.drawEvent(rt, verifC40AllTypes), "") },
		"append4": func(rt *rapid.T) { sm.appendEvent(rt, sm.drawEvent(rt, verifC40AllTypes), "") },
		"replay": func(rt *rapid.T) {
			if len(sm.history) == 0 {
				rt.Skip("nothing to replay")
			}
			e := sm.history[rapid.IntRange(0, len(sm.history)-1).Draw(rt, "replayIdx")]
			if sm.avoidGap && len(sm.model.lostLanes(e.ClientMsgNo)) > 0 && isMessageEventCacheOnlyEvent(e.EventType) {
				sm.excluded++
				rt.Skip("stream that lost content is not continued here")
			}
			sm.st.replays++
			sm.appendEvent(rt, e, " (replay)")
		},
		"loss": sm.actLoss,
	})
	st := sm.st
	k.Key(strings.Join(sm.log, "\n"))
	k.LabelIf(st.cacheOnly > 0, "cache-only events")
	k.LabelIf(st.terminalDurable > 0, "terminal event written durably")
	k.LabelIf(st.finishOK > 0, "finish completed")
	k.LabelIf(st.finishFlushed > 0, "finish flushed cached lanes")
	k.LabelIf(st.finishOwnSnapshot > 0, "finish with its own snapshot")
	k.LabelIf(st.finishMiss > 0, "finish failed closed (cache miss)")
	k.LabelIf(st.finishMissAfterLoss > 0, "finish failed closed after loss of cached deltas")
	k.LabelIf(st.losses > 0, "cache loss")
	k.LabelIf(st.lossesWithContent > 0, "cache loss dropping non-durable content")
	k.LabelIf(st.maintenance > 0, "delta fenced during restore pause")
	k.LabelIf(st.replays > 0, "replayed event")
	k.LabelIf(st.eventOnCachedTerminal > 0, "cache-only event on a lane already terminal")
	k.LabelIf(st.partialLossFinish > 0, "KNOWN FINDING pattern: finish after partial cache loss completed")
	k.Sample(func() any { return sm.log })
}

// TestVerifC40LeaderCache: random streams with cache loss. While the finding
// "finish-after-partial-cache-loss-completes" is listed as known, a stream whose
// cached content was lost is not CONTINUED with further cache-only events (that
// pattern is isolated in TestVerifC40PartialCacheLoss; the avoided continuations
// are counted in the evidence extra "excluded_by_known_finding"); everything
// else — finish/terminal events after loss, replays, other messages — is
// generated. Once the finding is no longer listed the restriction disappears.
func TestVerifC40LeaderCache(t *testing.T) {
	col := kit.For(t, "C40")
	// the exclusion exists only while the finding is recorded as known and unrepaired
	avoid := kit.HasKnownFinding("C40", verifC40PartialLossSignature)
	kit.Check(t, "C40", func(rt *rapid.T, k *kit.Case) {
		env := verifC40NewEnv(rt, rapid.Bool().Draw(rt, "coalescer"))
		defer env.cleanup()
		sm := &verifC40SM{env: env, model: verifC40NewModel(), st: &verifC40Stats{}, ids: map[string][]string{}, avoidGap: avoid}
		sm.run(rt, k)
		if avoid {
			col.AddExtra("excluded_by_known_finding", int64(sm.excluded))
		}
		// the property's rule: cache-only deltas, then loss, then finish
		k.SetNonTrivial(sm.st.finishMissAfterLoss > 0 && sm.st.finishFlushed > 0)
	})
}

// TestVerifC40PartialCacheLoss: the same machine without the restriction: after
// a loss the client keeps streaming (what a real client does after a leader
// change) and then finishes. The strict reading of C40 — a finish that would
// drop cached non-durable deltas fails instead of writing a completed
// projection — is asserted; the one recorded signature is reported as
// KNOWN-FINDING when listed in /verif/known_findings.json.
func TestVerifC40PartialCacheLoss(t *testing.T) {
	kit.Check(t, "C40", func(rt *rapid.T, k *kit.Case) {
		env := verifC40NewEnv(rt, false)
		defer env.cleanup()
		sm := &verifC40SM{env: env, model: verifC40NewModel(), st: &verifC40Stats{}, ids: map[string][]string{}}
		sm.run(rt, k)
		k.SetNonTrivial(sm.st.lossesWithContent > 0 && sm.st.finishOK+sm.st.finishMiss > 0)
	})
}

// TestVerifC40PartialCacheLossRepro: the minimal history of the recorded
// finding, replayed deterministically on every run (delta, leadership loss,
// delta, finish). Strict: the finish must fail closed or keep the lost delta;
// the one recorded signature is reported as KNOWN-FINDING while listed.
func TestVerifC40PartialCacheLossRepro(t *testing.T) {
	col := kit.For(t, "C40")
	env := verifC40NewEnv(t, false)
	defer env.cleanup()
	ev := func(id, typ, payload string) metadb.MessageEventAppend {
		key := "main"
		if typ == metadb.EventTypeStreamFinish {
			key = metadb.EventKeyFinish
		}
		return metadb.MessageEventAppend{ChannelID: verifC40Channel, ChannelType: verifC40ChannelType, ClientMsgNo: "m1", EventID: id,
			EventKey: key, EventType: typ, Visibility: metadb.VisibilityPublic, Payload: []byte(payload)}
	}
	ctx := context.Background()
	if _, err := env.node.AppendMessageEvent(ctx, ev("e1", metadb.EventTypeStreamDelta, `{"kind":"text","delta":"a"}`)); err != nil {
		t.Fatalf("delta 1: %v", err)
	}
	env.loseLeadership()
	if _, err := env.node.AppendMessageEvent(ctx, ev("e2", metadb.EventTypeStreamDelta, `{"kind":"text","delta":"bb"}`)); err != nil {
		t.Fatalf("delta 2: %v", err)
	}
	_, err := env.node.AppendMessageEvent(ctx, ev("e3", metadb.EventTypeStreamFinish, `{"end_reason":3}`))
	lanes := env.durable(t)["m1"]
	k := col.NewCase()
	k.Key("repro: delta a / leadership loss / delta bb / finish")
	k.NonTrivial()
	k.Label("deterministic reproduction of the partial-cache-loss finding")
	k.Sample(func() any {
		return fmt.Sprintf("delta a; leadership loss; delta bb; finish -> err=%v durable=%s", err, verifC40LaneSummary(lanes))
	})
	fin, completed := lanes[metadb.EventKeyFinish]
	switch {
	case errors.Is(err, ErrMessageEventStreamCacheMiss) && !completed:
		// fail closed: the property holds (the finding has been repaired)
	case err == nil && completed && fin.Status == metadb.EventStatusClosed && strings.Contains(string(lanes["main"].SnapshotPayload), `"abb"`):
		// nothing dropped
	case err == nil && completed:
		if !kit.KnownFinding("C40", verifC40PartialLossSignature) {
			t.Fatalf("C40 violated: delta a / leadership loss / delta bb / finish completed the projection without the lost delta: %s", verifC40LaneSummary(lanes))
		}
		k.Label("KNOWN FINDING pattern: finish after partial cache loss completed")
	default:
		t.Fatalf("C40 (leader cache): unexpected outcome err=%v durable=%s", err, verifC40LaneSummary(lanes))
	}
	col.Commit(k)
}
