package channels

import (
	"fmt"
	"testing"

	ch "github.com/WuKongIM/WuKongIM/pkg/channel"
	"github.com/WuKongIM/WuKongIM/pkg/cluster/control"
	metadb "github.com/WuKongIM/WuKongIM/pkg/db/meta"
	"pgregory.net/rapid"
	"verif.local/kit"
)

// TestVerifC01Planner: FailoverPlanner.Plan over generated probes/meta. The
// chosen target is a healthy ISR member other than the dead leader whose probe
// matches the authoritative meta, it proves the required safe prefix, and no
// other eligible candidate has a higher committed watermark; when no eligible
// candidate exists the plan is Blocked (never an unsafe target).
func TestVerifC01Planner(t *testing.T) {
	kit.Check(t, "C01", func(rt *rapid.T, k *kit.Case) {
		nNodes := rapid.IntRange(1, 6).Draw(rt, "nodes")
		meta := metadb.ChannelRuntimeMeta{ChannelID: "pc", ChannelType: 2, ChannelEpoch: uint64(rapid.IntRange(1, 3).Draw(rt, "epoch")),
			LeaderEpoch: uint64(rapid.IntRange(1, 4).Draw(rt, "leaderEpoch")), Leader: uint64(rapid.IntRange(1, nNodes).Draw(rt, "leader")), MinISR: 1}
		var nodes []control.Node
		healthy := map[uint64]bool{}
		for i := 1; i <= nNodes; i++ {
			n := control.Node{NodeID: uint64(i), Roles: []control.Role{control.RoleData}, JoinState: control.NodeJoinStateActive,
				Health: control.NodeHealth{Freshness: control.NodeHealthFresh, Status: control.NodeAlive, RuntimeReady: true}}
			switch rapid.IntRange(0, 7).Draw(rt, "nodeHealth") {
			case 0:
				n.Health.Status = control.NodeDown
			case 1:
				n.Health.RuntimeReady = false
			case 2:
				n.Roles = nil
			}
			if rapid.IntRange(0, 4).Draw(rt, "inReplicas") > 0 {
				meta.Replicas = append(meta.Replicas, uint64(i))
				if rapid.IntRange(0, 3).Draw(rt, "inISR") > 0 {
					meta.ISR = append(meta.ISR, uint64(i))
				}
			}
			healthy[n.NodeID] = control.NodeSchedulableForPlacement(n)
			nodes = append(nodes, n)
		}
		var probes []FailoverCandidateProbe
		for i := 1; i <= nNodes; i++ {
			if rapid.IntRange(0, 5).Draw(rt, "hasProbe") == 0 {
				continue
			}
			p := FailoverCandidateProbe{NodeID: uint64(i), Probe: ch.RuntimeProbeChannel{ChannelID: ch.ChannelID{ID: "pc", Type: 2}, ChannelEpoch: meta.ChannelEpoch,
				LeaderEpoch: meta.LeaderEpoch, Status: ch.StatusActive, HW: uint64(rapid.IntRange(0, 12).Draw(rt, "hw"))}}
			p.Probe.CheckpointHW = uint64(rapid.IntRange(0, int(p.Probe.HW)).Draw(rt, "ckpt"))
			p.Probe.LEO = p.Probe.HW + uint64(rapid.IntRange(0, 3).Draw(rt, "tail"))
			switch rapid.IntRange(0, 9).Draw(rt, "probeKind") {
			case 0:
				p.Probe.ChannelEpoch++
			case 1:
				if p.Probe.LeaderEpoch > 0 {
					p.Probe.LeaderEpoch--
				}
			case 2:
				p.Probe.LeaderEpoch += 2
			case 3:
				p.Probe.Status = ch.StatusDeleted
			case 4:
				p.PendingTruncationBelowSafePrefix = true
			case 5:
				p.Probe.ChannelID.ID = "other"
			}
			probes = append(probes, p)
		}
		in := FailoverPlanInput{Meta: meta, Nodes: nodes, Probes: probes, RequiredHW: uint64(rapid.IntRange(0, 10).Draw(rt, "requiredHW")),
			ActiveTask: rapid.IntRange(0, 9).Draw(rt, "activeTask") == 0, LeaderSuspect: true}
		d := NewFailoverPlanner().Plan(in)

		inISR := map[uint64]bool{}
		for _, id := range meta.ISR {
			inISR[id] = true
		}
		eligible := func(p FailoverCandidateProbe) bool {
			if p.NodeID == 0 || p.NodeID == meta.Leader || !healthy[p.NodeID] || !inISR[p.NodeID] || p.PendingTruncationBelowSafePrefix {
				return false
			}
			pr := p.Probe
			if pr.ChannelID.ID != meta.ChannelID || int64(pr.ChannelID.Type) != meta.ChannelType || pr.ChannelEpoch != meta.ChannelEpoch || pr.Status != ch.StatusActive {
				return false
			}
			if !(pr.LeaderEpoch == meta.LeaderEpoch || pr.LeaderEpoch+1 == meta.LeaderEpoch) {
				return false
			}
			return in.RequiredHW == 0 || pr.HW >= in.RequiredHW
		}
		var maxHW uint64
		anyEligible := false
		for _, p := range probes {
			if eligible(p) {
				anyEligible = true
				if p.Probe.HW > maxHW {
					maxHW = p.Probe.HW
				}
			}
		}
		switch d.Action {
		case FailoverActionCreateLeaderTransfer:
			if in.ActiveTask {
				rt.Fatalf("planned a transfer although a migration task is active: %+v", d)
			}
			var chosen *FailoverCandidateProbe
			for i := range probes {
				if probes[i].NodeID == d.TargetNode && eligible(probes[i]) && probes[i].Probe.HW == d.ObservedHW {
					chosen = &probes[i]
				}
			}
			if chosen == nil {
				rt.Fatalf("target %d (observedHW %d) is not an eligible candidate: input %+v", d.TargetNode, d.ObservedHW, in)
			}
			if chosen.Probe.HW < maxHW {
				rt.Fatalf("target %d has HW %d but an eligible candidate has HW %d", d.TargetNode, chosen.Probe.HW, maxHW)
			}
		case FailoverActionBlocked:
			if !in.ActiveTask && anyEligible {
				rt.Fatalf("blocked (%s) although an eligible candidate exists: %+v", d.BlockReason, in)
			}
		default:
			rt.Fatalf("unexpected action %d", d.Action)
		}
		k.Key(fmt.Sprintf("%+v", in))
		k.SetNonTrivial(len(probes) >= 2 && anyEligible)
		k.LabelIf(d.Action == FailoverActionBlocked, "planner: blocked")
		k.LabelIf(d.Action == FailoverActionCreateLeaderTransfer, "planner: transfer planned")
		k.Sample(func() any { return fmt.Sprintf("planner probes=%d eligibleMaxHW=%d requiredHW=%d -> %+v", len(probes), maxHW, in.RequiredHW, d) })
	})
}
