package channels

// C10, layer 1b — the channel service's local committed read
// (readLocalCommitted: HW cap + retention floor on top of the store), the
// conversation-head "last ordinary committed message" scan and the
// last-visible read, over generated logs on both store implementations:
// nothing above the committed watermark, nothing at or below the logical
// retention boundary (slot-authoritative or locally adopted), and no
// one-shot sync (barrier) record as an ordinary message.

import (
	"bytes"
	"context"
	"fmt"
	"strings"
	"testing"

	ch "github.com/WuKongIM/WuKongIM/pkg/channel"
	channelstore "github.com/WuKongIM/WuKongIM/pkg/channel/store"
	"pgregory.net/rapid"
	"verif.local/kit"
)

const verifC10SigLastVisible = "last-visible-read-ignores-committed-watermark"

type verifC10SvcLog struct {
	id    ch.ChannelID
	rows  []ch.Record
	leo   uint64
	hw    uint64
	local uint64
}

func verifC10SvcBuild(rt *rapid.T, nextID *uint64, id ch.ChannelID, cs channelstore.ChannelStore) *verifC10SvcLog {
	ctx := context.Background()
	l := &verifC10SvcLog{id: id}
	n := rapid.IntRange(0, 40).Draw(rt, "rows")
	if rapid.IntRange(0, 9).Draw(rt, "long") == 0 {
		n = rapid.IntRange(70, 160).Draw(rt, "rowsLong")
	}
	soRun := 0
	for len(l.rows) < n {
		k := min(rapid.IntRange(1, 8).Draw(rt, "batch"), n-len(l.rows))
		recs := make([]ch.Record, k)
		for i := range recs {
			*nextID++
			so := rapid.IntRange(0, 5).Draw(rt, "syncOnce") == 0
			if soRun > 0 {
				so = true
				soRun--
			} else if rapid.IntRange(0, 40).Draw(rt, "syncOnceRun") == 0 {
				soRun = rapid.IntRange(3, 80).Draw(rt, "runLen")
			}
			p := kit.Bytes(64).Draw(rt, "payload")
			recs[i] = ch.Record{ID: *nextID, FromUID: rapid.SampledFrom([]string{"", "u1", "u2"}).Draw(rt, "uid"),
				ClientMsgNo: fmt.Sprintf("n%d", *nextID), ServerTimestampMS: 1 + int64(*nextID%1000), SyncOnce: so, Payload: p, SizeBytes: len(p)}
		}
		if _, err := cs.AppendLeader(ctx, channelstore.AppendLeaderRequest{Records: recs}); err != nil {
			rt.Fatalf("VERIF-MACHINERY seed append: %v", err)
		}
		for _, r := range recs {
			l.leo++
			r.Index = l.leo
			l.rows = append(l.rows, r)
		}
	}
	if l.leo > 0 {
		// committed watermark somewhere inside the log (uncommitted tail above it)
		l.hw = uint64(rapid.IntRange(0, int(l.leo)).Draw(rt, "hw"))
		if rapid.IntRange(0, 3).Draw(rt, "hwAtEnd") == 0 {
			l.hw = l.leo
		}
		if err := cs.StoreCheckpoint(ctx, ch.Checkpoint{HW: l.hw}); err != nil {
			rt.Fatalf("VERIF-MACHINERY checkpoint: %v", err)
		}
		if rapid.IntRange(0, 2).Draw(rt, "retention") != 0 {
			// logical adoption may run ahead of the watermark; the physical trim is
			// only issued up to min(HW, boundary) (reactor gate)
			l.local = uint64(rapid.IntRange(1, int(l.leo)).Draw(rt, "boundary"))
			if _, err := cs.AdoptRetentionBoundary(ctx, l.local, "committed"); err != nil {
				rt.Fatalf("VERIF-MACHINERY adopt: %v", err)
			}
			if lim := min(l.local, l.hw); lim > 0 {
				trim := uint64(rapid.IntRange(0, int(lim)).Draw(rt, "trimThrough"))
				if trim > 0 {
					if _, err := cs.TrimMessagesThrough(ctx, trim, channelstore.RetentionTrimOptions{}); err != nil {
						rt.Fatalf("VERIF-MACHINERY trim: %v", err)
					}
					for len(l.rows) > 0 && l.rows[0].Index <= trim {
						l.rows = l.rows[1:]
					}
				}
			}
		}
	}
	return l
}

func verifC10SvcSeqs(ms []ch.Message) []uint64 {
	out := make([]uint64, len(ms))
	for i := range ms {
		out[i] = ms[i].MessageSeq
	}
	return out
}

// verifC10SvcRequest builds the store request exactly as the message reader
// does for a client pull (internal/infra/cluster.readCommittedRequest).
func verifC10SvcRequest(rt *rapid.T, l *verifC10SvcLog) (channelstore.ReadCommittedRequest, string) {
	hi := int(l.leo) + 2
	limit := rapid.IntRange(1, 10).Draw(rt, "limit")
	req := channelstore.ReadCommittedRequest{Limit: limit + 1, MaxBytes: int(^uint(0) >> 1)}
	if rapid.IntRange(0, 3).Draw(rt, "hasMin") == 0 {
		req.MinSeq = uint64(rapid.IntRange(1, hi).Draw(rt, "min"))
	}
	switch rapid.IntRange(0, 2).Draw(rt, "mode") {
	case 0: // latest page
		req.Reverse, req.FromSeq, req.MaxSeq = true, ^uint64(0), ^uint64(0)
		return req, "latest"
	case 1: // pull down from start
		start := uint64(rapid.IntRange(1, hi).Draw(rt, "start"))
		req.Reverse, req.FromSeq, req.MaxSeq = true, start, start
		return req, "down"
	default: // pull up from start to end
		req.FromSeq = uint64(rapid.IntRange(1, hi).Draw(rt, "start"))
		req.MaxSeq = ^uint64(0)
		if rapid.Bool().Draw(rt, "hasEnd") {
			req.MaxSeq = uint64(rapid.IntRange(1, hi).Draw(rt, "end"))
		}
		return req, "up"
	}
}

func TestVerifC10ServiceCommittedReads(t *testing.T) {
	dir, cleanup := kit.TempDir()
	dbf := channelstore.NewMessageDBFactory(dir)
	t.Cleanup(func() {
		_ = dbf.Close()
		cleanup()
	})
	var nextID uint64 = 9_000_000
	caseNo := 0
	kit.Check(t, "C10", func(rt *rapid.T, k *kit.Case) {
		caseNo++
		ctx := context.Background()
		id := ch.ChannelID{ID: fmt.Sprintf("vc10s-%d-%d", kit.Seed()%1000, caseNo), Type: 2}
		useDB := rapid.Bool().Draw(rt, "messageDB")
		var factory channelstore.Factory = channelstore.NewMemoryFactory()
		if useDB {
			factory = dbf
		}
		svc := &Service{store: factory, localNode: 1}
		cs, err := factory.ChannelStore(ch.ChannelKeyForID(id), id)
		if err != nil {
			rt.Fatalf("VERIF-MACHINERY ChannelStore: %v", err)
		}
		l := verifC10SvcBuild(rt, &nextID, id, cs)
		_ = cs.Close()

		var descr []string
		insideReverse, uncommittedTail, floorAboveRows, skippedMemoryZero := false, l.hw < l.leo, false, false
		nreq := rapid.IntRange(1, 5).Draw(rt, "requests")
		excludedLastVisible := int64(0)
		for i := 0; i < nreq; i++ {
			req, mode := verifC10SvcRequest(rt, l)
			metaRetention := uint64(0)
			if rapid.IntRange(0, 2).Draw(rt, "metaRetention") == 0 {
				metaRetention = uint64(rapid.IntRange(1, int(l.leo)+1).Draw(rt, "metaBoundary"))
			}
			minISR := rapid.IntRange(1, 3).Draw(rt, "minISR")
			committed := l.hw
			if minISR <= 1 {
				committed = l.leo
			}
			if !useDB && committed == 0 && l.leo > 0 {
				// With nothing committed the service passes FromSeq=0/MaxSeq=0 down;
				// the MessageDB adapter answers "below the floor" (MinSeq is always
				// >= 1 here), the in-memory test double reads 0 as "unbounded". The
				// double is not a production store, so this combination is outside
				// the property's domain; it is counted, not judged.
				skippedMemoryZero = true
				continue
			}
			floor := max(metaRetention, l.local)
			descr = append(descr, fmt.Sprintf("%s %+v metaRetention=%d minISR=%d", mode, req, metaRetention, minISR))
			got, err := svc.readLocalCommitted(ctx, CommittedRead{ChannelID: id, Request: req}, metaRetention, minISR)
			if err != nil {
				rt.Fatalf("readLocalCommitted(%+v): %v", req, err)
			}
			// reference page
			var vis []ch.Record
			inside := func(s uint64) bool {
				return s <= committed && s > floor && (req.MinSeq == 0 || s >= req.MinSeq) && (req.MaxSeq == 0 || s <= req.MaxSeq)
			}
			if req.Reverse {
				for j := len(l.rows) - 1; j >= 0; j-- {
					if s := l.rows[j].Index; s <= req.FromSeq && inside(s) {
						vis = append(vis, l.rows[j])
					}
				}
			} else {
				for _, r := range l.rows {
					if r.Index >= req.FromSeq && inside(r.Index) {
						vis = append(vis, r)
					}
				}
			}
			if len(vis) > req.Limit {
				vis = vis[:req.Limit]
			}
			for _, m := range got.Messages {
				if m.MessageSeq > committed {
					rt.Fatalf("readLocalCommitted(%s) returned seq %d above the committed watermark %d (hw=%d leo=%d minISR=%d); page %v", descr[len(descr)-1], m.MessageSeq, committed, l.hw, l.leo, minISR, verifC10SvcSeqs(got.Messages))
				}
				if m.MessageSeq <= floor {
					rt.Fatalf("readLocalCommitted(%s) returned seq %d at or below the retention boundary %d (slot %d, local %d); page %v", descr[len(descr)-1], m.MessageSeq, floor, metaRetention, l.local, verifC10SvcSeqs(got.Messages))
				}
			}
			want := make([]uint64, len(vis))
			for j := range vis {
				want[j] = vis[j].Index
			}
			if fmt.Sprint(verifC10SvcSeqs(got.Messages)) != fmt.Sprint(want) {
				rt.Fatalf("readLocalCommitted(%s) returned %v, reference %v (hw=%d leo=%d local=%d first row=%v)", descr[len(descr)-1], verifC10SvcSeqs(got.Messages), want, l.hw, l.leo, l.local, verifC10FirstSeq(l.rows))
			}
			for j, m := range got.Messages {
				if m.MessageID != vis[j].ID || m.SyncOnce != vis[j].SyncOnce || !bytes.Equal(m.Payload, vis[j].Payload) || m.FromUID != vis[j].FromUID {
					rt.Fatalf("readLocalCommitted(%s)[%d] = %+v, reference row %+v", descr[len(descr)-1], j, m, vis[j])
				}
			}
			if req.Reverse && len(l.rows) > 1 {
				if f := max(floor+1, req.MinSeq); f > l.rows[0].Index && f <= l.rows[len(l.rows)-1].Index {
					insideReverse = true
				}
			}
			if floor >= l.leo && l.leo > 0 {
				floorAboveRows = true
			}

			// conversation head: newest ordinary committed message above the floor
			store2, _ := factory.ChannelStore(ch.ChannelKeyForID(id), id)
			head, found, err := readLastOrdinaryCommitted(ctx, store2, committed, floor)
			_ = store2.Close()
			if err != nil {
				rt.Fatalf("readLastOrdinaryCommitted(committed=%d, floor=%d): %v", committed, floor, err)
			}
			var wantHead *ch.Record
			for j := len(l.rows) - 1; j >= 0; j-- {
				if r := l.rows[j]; r.Index <= committed && r.Index > floor && !r.SyncOnce {
					wantHead = &l.rows[j]
					break
				}
			}
			if found != (wantHead != nil) || (found && (head.MessageSeq != wantHead.Index || head.MessageID != wantHead.ID || head.SyncOnce)) {
				rt.Fatalf("readLastOrdinaryCommitted(committed=%d, floor=%d) = seq %d syncOnce=%v found=%v, reference %v", committed, floor, head.MessageSeq, head.SyncOnce, found, wantHead)
			}
			// last-visible read through the service API (slot metadata carries MinISR
			// and the slot retention boundary; the locally adopted boundary is not
			// consulted by this read, so it is only judged against the slot one)
			if kit.HasKnownFinding("C10", verifC10SigLastVisible) {
				excludedLastVisible++
			} else {
				after := uint64(rapid.IntRange(0, int(l.leo)+1).Draw(rt, "visibleAfter"))
				lv, lvOK, lvErr := verifC10LastVisible(factory, id, minISR, metaRetention, after)
				if lvErr != nil {
					rt.Fatalf("ReadChannelLastVisible: %v", lvErr)
				}
				if lvOK && (lv.MessageSeq > committed || lv.MessageSeq <= max(after, metaRetention) || lv.SyncOnce) {
					rt.Fatalf("ReadChannelLastVisible(after=%d, slot retention %d, minISR=%d) returned seq %d syncOnce=%v; committed watermark %d (hw=%d leo=%d)", after, metaRetention, minISR, lv.MessageSeq, lv.SyncOnce, committed, l.hw, l.leo)
				}
			}
		}
		if excludedLastVisible > 0 {
			kit.For(t, "C10").AddExtra("excluded_by_known_finding", excludedLastVisible)
		}
		k.Key("svc", useDB, l.hw, l.local, len(l.rows), strings.Join(descr, ";"))
		k.SetNonTrivial(insideReverse)
		k.LabelIf(insideReverse, "service: reverse / latest read with the floor strictly inside the stored range (non-trivial)")
		k.LabelIf(uncommittedTail, "service: log has an uncommitted tail above HW")
		k.LabelIf(floorAboveRows, "service: retention floor at or above the log end")
		k.LabelIf(skippedMemoryZero, "service: memory double with committed=0 (not judged)")
		k.LabelIf(useDB, "service: MessageDB adapter")
		k.LabelIf(!useDB, "service: memory store")
		k.LabelIf(len(l.rows) >= 70, "service: >= 70 rows (multi-page head scan)")
		k.Sample(func() any {
			return fmt.Sprintf("service rows=%d first=%v hw=%d leo=%d local=%d: %s", len(l.rows), verifC10FirstSeq(l.rows), l.hw, l.leo, l.local, strings.Join(descr, " ; "))
		})
	})
}

func verifC10FirstSeq(rows []ch.Record) uint64 {
	if len(rows) == 0 {
		return 0
	}
	return rows[0].Index
}

// verifC10LastVisible runs Service.ReadChannelLastVisible on a local leader
// whose slot metadata says MinISR=minISR.
func verifC10LastVisible(factory channelstore.Factory, id ch.ChannelID, minISR int, metaRetention, after uint64) (ch.Message, bool, error) {
	source := NewStaticMetaSource([]ch.Meta{{ID: id, Epoch: 1, LeaderEpoch: 1, Leader: 1, Replicas: []ch.NodeID{1, 2, 3}, ISR: []ch.NodeID{1, 2, 3},
		MinISR: minISR, RetentionThroughSeq: metaRetention, Status: ch.StatusActive}})
	svc := &Service{store: factory, localNode: 1, metaSource: source}
	return svc.ReadChannelLastVisible(context.Background(), id, after)
}

// TestVerifC10FindingLastVisible re-establishes on every run whether the
// last-visible read honours the committed watermark and skips one-shot sync
// records (deterministic; fails unless the finding is listed as known).
func TestVerifC10FindingLastVisible(t *testing.T) {
	ctx := context.Background()
	factory := channelstore.NewMemoryFactory()
	id := ch.ChannelID{ID: "vc10-last-visible", Type: 2}
	cs, err := factory.ChannelStore(ch.ChannelKeyForID(id), id)
	if err != nil {
		t.Fatalf("VERIF-MACHINERY %v", err)
	}
	recs := []ch.Record{
		{ID: 1, FromUID: "u1", ServerTimestampMS: 1, Payload: []byte("a"), SizeBytes: 1},
		{ID: 2, FromUID: "u1", ServerTimestampMS: 1, Payload: []byte("b"), SizeBytes: 1, SyncOnce: true},
		{ID: 3, FromUID: "u1", ServerTimestampMS: 1, Payload: []byte("c"), SizeBytes: 1},
	}
	if _, err := cs.AppendLeader(ctx, channelstore.AppendLeaderRequest{Records: recs}); err != nil {
		t.Fatalf("VERIF-MACHINERY %v", err)
	}
	if err := cs.StoreCheckpoint(ctx, ch.Checkpoint{HW: 2}); err != nil {
		t.Fatalf("VERIF-MACHINERY %v", err)
	}
	got, ok, err := verifC10LastVisible(factory, id, 2, 0, 0)
	if err != nil {
		t.Fatalf("VERIF-MACHINERY ReadChannelLastVisible: %v", err)
	}
	// committed = HW = 2 (MinISR 2); seq 2 is a one-shot sync record, so the
	// newest ordinary committed message is seq 1
	bad := !ok || got.MessageSeq != 1
	col := kit.For(t, "C10")
	k := col.NewCase()
	k.Key("finding", verifC10SigLastVisible, bad)
	detail := fmt.Sprintf("log seq1 ordinary, seq2 SyncOnce, seq3 ordinary; durable HW=2, MinISR=2: ReadChannelLastVisible(after=0) = seq %d syncOnce=%v found=%v, want seq 1", got.MessageSeq, got.SyncOnce, ok)
	if bad {
		if !kit.KnownFinding("C10", verifC10SigLastVisible) {
			t.Fatalf("C10 violated (deterministic reproduction, signature %q): %s", verifC10SigLastVisible, detail)
		}
		k.Label("recorded finding reproduced: " + verifC10SigLastVisible)
	} else {
		k.Label("recorded finding no longer reproduces: " + verifC10SigLastVisible)
	}
	k.NonTrivial()
	k.Sample(func() any { return detail })
	col.Commit(k)
}
