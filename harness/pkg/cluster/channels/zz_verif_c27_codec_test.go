package channels

import (
	"os"
	"encoding/binary"
	"errors"
	"fmt"
	"reflect"
	"runtime"
	"strings"
	"sync"
	"sync/atomic"
	"testing"
	"time"

	ch "github.com/WuKongIM/WuKongIM/pkg/channel"
	channelstore "github.com/WuKongIM/WuKongIM/pkg/channel/store"
	channeltransport "github.com/WuKongIM/WuKongIM/pkg/channel/transport"
	"pgregory.net/rapid"
	"verif.local/kit"
)

// Signatures of the recorded field losses of this codec (see DESIGN §1.5). The
// generators set these fields only while the signature is NOT a listed known
// finding; TestVerifC27ChannelsFieldLoss re-establishes each one on every run.
const (
	verifC27SigMessageSyncOnce = "channels-codec-drops:Message.SyncOnce"
	verifC27SigRecordSyncOnce  = "channels-codec-drops:Record.SyncOnce"
	verifC27SigMetaRouteGen    = "channels-codec-drops:Meta.RouteGeneration"
)

var verifC27Once sync.Once

// verifC27Excluded counts generated values whose field was forced to zero
// because its loss is a listed known finding.
var verifC27Excluded atomic.Int64

// verifC27Carried reports whether the generators may set the field guarded by sig.
func verifC27Carried(sig string) bool {
	if kit.HasKnownFinding("C27", sig) {
		verifC27Excluded.Add(1)
		return false
	}
	return true
}

// verifC27Tripped is set at the first panic / allocation violation seen in this
// process. A broken decoder can burn minutes of CPU on a single hostile frame
// (counts read from shifted bytes), and rapid cannot interrupt a running shrink
// attempt; so the first violation is reported once with its exact input (also
// saved as a .bin replay artefact) and every later execution fails at once.
var verifC27Tripped atomic.Bool

func verifC27Flag(codec, what string, in []byte) {
	verifC27Once.Do(func() {
		path := kit.SaveReplay("C27", "TestVerifC27Channels", "bin", in)
		fmt.Printf("VERIF-VIOLATION C27 %s: %s on %d-byte input %x (saved %s)\n", codec, what, len(in), verifC27Trunc(in), path)
		verifC27Tripped.Store(true)
	})
}

func verifC27Trunc(b []byte) []byte {
	if len(b) > 96 {
		return b[:96]
	}
	return b
}

// verifC27Bound: every collection count is checked against the remaining input
// (readCollectionLen), so allocation is linear in the input; the widest element
// is well under 512 bytes.
func verifC27Bound(n int) uint64 { return 64<<10 + 768*uint64(n) }

func verifC27Guard(rt *rapid.T, codec string, in []byte, dec func([]byte) error) (err error) {
	if verifC27Tripped.Load() {
		rt.Fatalf("VERIF-VIOLATION %s: a decoder panic / allocation violation was established earlier in this process (see the first VERIF-VIOLATION line and its .bin artefact)", codec)
	}
	bound := verifC27Bound(len(in))
	var before, after runtime.MemStats
	runtime.ReadMemStats(&before)
	func() {
		defer func() {
			if r := recover(); r != nil {
				verifC27Flag(codec, fmt.Sprintf("decoder panicked (%v)", r), in)
				rt.Fatalf("VERIF-VIOLATION %s: decoder panicked on %d-byte input %x: %v", codec, len(in), verifC27Trunc(in), r)
			}
		}()
		err = dec(in)
	}()
	runtime.ReadMemStats(&after)
	if d := after.TotalAlloc - before.TotalAlloc; d > bound {
		verifC27Flag(codec, fmt.Sprintf("allocated %d bytes, bound %d,", d, bound), in)
		rt.Fatalf("VERIF-VIOLATION %s: decoding %d-byte input %x allocated %d bytes (bound %d)", codec, len(in), verifC27Trunc(in), d, bound)
	}
	return err
}

func verifC27Cuts(n int) []int {
	var cuts []int
	if n <= 200 {
		for c := 0; c < n; c++ {
			cuts = append(cuts, c)
		}
		return cuts
	}
	for c := 0; c < 40; c++ {
		cuts = append(cuts, c)
	}
	step := (n - 80) / 100
	if step < 1 {
		step = 1
	}
	for c := 40; c < n-40; c += step {
		cuts = append(cuts, c)
	}
	for c := n - 40; c < n; c++ {
		cuts = append(cuts, c)
	}
	return cuts
}

// ---- value generators ------------------------------------------------------------

func verifC27Str() *rapid.Generator[string] {
	return rapid.Custom(func(t *rapid.T) string {
		switch rapid.IntRange(0, 4).Draw(t, "strKind") {
		case 0:
			return ""
		case 1:
			return string(kit.Bytes(300).Draw(t, "rawStr"))
		case 2:
			return rapid.StringN(0, 8, 32).Draw(t, "uni")
		default:
			return rapid.StringMatching(`[a-z0-9:_\-@]{1,20}`).Draw(t, "ident")
		}
	})
}

func verifC27U64() *rapid.Generator[uint64] { return kit.Uint64Edge() }

func verifC27Int() *rapid.Generator[int] {
	return rapid.Custom(func(t *rapid.T) int {
		switch rapid.IntRange(0, 3).Draw(t, "intKind") {
		case 0:
			return rapid.SampledFrom([]int{0, 1, -1, 1<<31 - 1, -1 << 31, 1<<63 - 1, -1 << 63}).Draw(t, "intEdge")
		default:
			return rapid.IntRange(-4, 1<<20).Draw(t, "int")
		}
	})
}

func verifC27NonNegInt() *rapid.Generator[int] {
	return rapid.Custom(func(t *rapid.T) int {
		if rapid.IntRange(0, 4).Draw(t, "minISRKind") == 0 {
			return rapid.SampledFrom([]int{0, 1<<31 - 1, 1<<63 - 1}).Draw(t, "minISREdge")
		}
		return rapid.IntRange(0, 7).Draw(t, "minISR")
	})
}

func verifC27Payload() *rapid.Generator[[]byte] {
	return rapid.Custom(func(t *rapid.T) []byte {
		p := kit.Bytes(2048).Draw(t, "payload")
		if len(p) == 0 {
			return nil // readBytesCopy returns nil for an empty value: one codec value
		}
		return p
	})
}

func verifC27TimeGen() *rapid.Generator[time.Time] {
	return rapid.Custom(func(t *rapid.T) time.Time {
		switch rapid.IntRange(0, 4).Draw(t, "timeKind") {
		case 0:
			return time.Time{}
		case 1:
			return time.Unix(0, rapid.SampledFrom([]int64{0, 1, -1, 1<<62 - 1, -1 << 62}).Draw(t, "nanosEdge"))
		default:
			return time.Unix(0, rapid.Int64Range(1.5e18, 2.5e18).Draw(t, "nanos")).UTC()
		}
	})
}

func verifC27ChannelID() *rapid.Generator[ch.ChannelID] {
	return rapid.Custom(func(t *rapid.T) ch.ChannelID {
		return ch.ChannelID{ID: verifC27Str().Draw(t, "channelID"), Type: rapid.Byte().Draw(t, "channelType")}
	})
}

func verifC27NodeIDs(t *rapid.T, label string) []ch.NodeID {
	switch rapid.IntRange(0, 4).Draw(t, label+"Kind") {
	case 0:
		return nil
	case 1:
		return []ch.NodeID{}
	}
	n := rapid.IntRange(1, 5).Draw(t, label+"N")
	out := make([]ch.NodeID, n)
	for i := range out {
		out[i] = ch.NodeID(verifC27U64().Draw(t, label))
	}
	return out
}

func verifC27Message() *rapid.Generator[ch.Message] {
	return rapid.Custom(func(t *rapid.T) ch.Message {
		m := ch.Message{
			MessageID: verifC27U64().Draw(t, "messageID"), MessageSeq: verifC27U64().Draw(t, "messageSeq"),
			ChannelID: verifC27Str().Draw(t, "msgChannelID"), ChannelType: rapid.Byte().Draw(t, "msgChannelType"),
			Setting: rapid.Byte().Draw(t, "setting"), FromUID: verifC27Str().Draw(t, "fromUID"), ClientMsgNo: verifC27Str().Draw(t, "clientMsgNo"),
			ServerTimestampMS: rapid.Int64().Draw(t, "serverTS"), TraceID: verifC27Str().Draw(t, "traceID"), ChannelKey: verifC27Str().Draw(t, "msgChannelKey"),
			Payload: verifC27Payload().Draw(t, "payload"),
		}
		if verifC27Carried(verifC27SigMessageSyncOnce) {
			m.SyncOnce = rapid.Bool().Draw(t, "syncOnce")
		}
		return m
	})
}

func verifC27Messages(t *rapid.T, label string) []ch.Message {
	switch rapid.IntRange(0, 5).Draw(t, label+"Kind") {
	case 0:
		return nil
	case 1:
		return []ch.Message{}
	}
	return rapid.SliceOfN(verifC27Message(), 1, 4).Draw(t, label)
}

func verifC27Record() *rapid.Generator[ch.Record] {
	return rapid.Custom(func(t *rapid.T) ch.Record {
		r := ch.Record{
			ID: verifC27U64().Draw(t, "recID"), Index: verifC27U64().Draw(t, "recIndex"), Epoch: verifC27U64().Draw(t, "recEpoch"),
			Setting: rapid.Byte().Draw(t, "recSetting"), FromUID: verifC27Str().Draw(t, "recFrom"), ClientMsgNo: verifC27Str().Draw(t, "recClientMsgNo"),
			ServerTimestampMS: rapid.Int64().Draw(t, "recTS"), Payload: verifC27Payload().Draw(t, "recPayload"), SizeBytes: verifC27Int().Draw(t, "recSize"),
		}
		if verifC27Carried(verifC27SigRecordSyncOnce) {
			r.SyncOnce = rapid.Bool().Draw(t, "recSyncOnce")
		}
		return r
	})
}

func verifC27Meta() *rapid.Generator[ch.Meta] {
	return rapid.Custom(func(t *rapid.T) ch.Meta {
		m := ch.Meta{
			Key: ch.ChannelKey(verifC27Str().Draw(t, "metaKey")), ID: verifC27ChannelID().Draw(t, "metaID"),
			Epoch: verifC27U64().Draw(t, "metaEpoch"), LeaderEpoch: verifC27U64().Draw(t, "metaLeaderEpoch"), Leader: ch.NodeID(verifC27U64().Draw(t, "metaLeader")),
			Replicas: verifC27NodeIDs(t, "replicas"), ISR: verifC27NodeIDs(t, "isr"), MinISR: verifC27Int().Draw(t, "metaMinISR"),
			LeaseUntil: verifC27TimeGen().Draw(t, "leaseUntil"), RetentionThroughSeq: verifC27U64().Draw(t, "retention"),
			WriteFence: ch.WriteFence{Token: verifC27Str().Draw(t, "fenceToken"), Version: verifC27U64().Draw(t, "fenceVersion"), Reason: ch.WriteFenceReason(rapid.Byte().Draw(t, "fenceReason")), Until: verifC27TimeGen().Draw(t, "fenceUntil")},
			Status: ch.Status(rapid.Byte().Draw(t, "status")),
		}
		if verifC27Carried(verifC27SigMetaRouteGen) {
			m.RouteGeneration = verifC27U64().Draw(t, "routeGeneration")
		}
		return m
	})
}

var verifC27Sentinels = []error{
	ch.ErrInvalidConfig, ch.ErrBackpressured, ch.ErrNotLeader, ch.ErrNotReady, ch.ErrStaleMeta,
	ch.ErrChannelNotFound, ch.ErrNotReplica, ch.ErrClosed, ch.ErrTooManyChannels,
}

// verifC27Error draws an application error the way handlers return them: nil, a
// sentinel, a sentinel with "prefix: detail" text, or an uncoded error.
func verifC27Error(t *rapid.T, label string, allowNil bool) error {
	lo := 0
	if !allowNil {
		lo = 1
	}
	switch rapid.IntRange(lo, 4).Draw(t, label+"Kind") {
	case 0:
		return nil
	case 1:
		return rapid.SampledFrom(verifC27Sentinels).Draw(t, label+"Sentinel")
	case 2:
		s := rapid.SampledFrom(verifC27Sentinels).Draw(t, label+"Sentinel")
		return fmt.Errorf("%w: %s", s, rapid.StringMatching(`[a-z0-9 =:]{1,24}`).Draw(t, label+"Detail"))
	case 3:
		return rapid.SampledFrom([]error{ch.ErrWriteFenced, ch.ErrLogConflict, errors.New("context deadline exceeded")}).Draw(t, label+"Uncoded")
	default:
		return errors.New("x" + rapid.StringN(0, 12, 40).Draw(t, label+"Text"))
	}
}

// verifC27ErrEqual: the envelope's documented contract for errors — the coded
// sentinel class survives (errors.Is), the text survives, and the textual
// matcher ch.ErrorMatches gives the same answers.
func verifC27ErrEqual(got, want error) string {
	if (got == nil) != (want == nil) {
		return fmt.Sprintf("error presence differs: got %v want %v", got, want)
	}
	if want == nil {
		return ""
	}
	for _, s := range verifC27Sentinels {
		if errors.Is(want, s) != errors.Is(got, s) {
			return fmt.Sprintf("sentinel %q: errors.Is got %v want %v (got %q, sent %q)", s, errors.Is(got, s), errors.Is(want, s), got, want)
		}
	}
	for _, s := range append([]error{ch.ErrWriteFenced, ch.ErrLogConflict}, verifC27Sentinels...) {
		if ch.ErrorMatches(want, s) != ch.ErrorMatches(got, s) {
			return fmt.Sprintf("sentinel %q: ErrorMatches differs (got %q, sent %q)", s, got, want)
		}
	}
	if got.Error() != want.Error() {
		return fmt.Sprintf("error text differs: got %q sent %q", got.Error(), want.Error())
	}
	return ""
}

// verifC27Equal compares a decoded value with the expected one: time instants by
// Equal, errors by the envelope contract, everything else structurally.
func verifC27Equal(path string, got, want reflect.Value) string {
	if got.Type() != want.Type() {
		return fmt.Sprintf("%s: type %s vs %s", path, got.Type(), want.Type())
	}
	switch got.Kind() {
	case reflect.Interface:
		if got.Type() == reflect.TypeOf((*error)(nil)).Elem() {
			var g, w error
			if !got.IsNil() {
				g = got.Interface().(error)
			}
			if !want.IsNil() {
				w = want.Interface().(error)
			}
			if d := verifC27ErrEqual(g, w); d != "" {
				return path + ": " + d
			}
			return ""
		}
	case reflect.Struct:
		if got.Type() == reflect.TypeOf(time.Time{}) {
			g, w := got.Interface().(time.Time), want.Interface().(time.Time)
			if g.IsZero() != w.IsZero() || !g.Equal(w) {
				return fmt.Sprintf("%s: time %v vs %v", path, g, w)
			}
			return ""
		}
		for i := 0; i < got.NumField(); i++ {
			if d := verifC27Equal(path+"."+got.Type().Field(i).Name, got.Field(i), want.Field(i)); d != "" {
				return d
			}
		}
		return ""
	case reflect.Pointer:
		if got.IsNil() != want.IsNil() {
			return fmt.Sprintf("%s: nil-ness %v vs %v", path, got.IsNil(), want.IsNil())
		}
		if got.IsNil() {
			return ""
		}
		return verifC27Equal(path, got.Elem(), want.Elem())
	case reflect.Slice:
		if got.IsNil() != want.IsNil() || got.Len() != want.Len() {
			return fmt.Sprintf("%s: slice nil=%v len=%d vs nil=%v len=%d", path, got.IsNil(), got.Len(), want.IsNil(), want.Len())
		}
		for i := 0; i < got.Len(); i++ {
			if d := verifC27Equal(fmt.Sprintf("%s[%d]", path, i), got.Index(i), want.Index(i)); d != "" {
				return d
			}
		}
		return ""
	}
	if !reflect.DeepEqual(got.Interface(), want.Interface()) {
		return fmt.Sprintf("%s: %v vs %v", path, got.Interface(), want.Interface())
	}
	return ""
}

// ---- codec table -------------------------------------------------------------------

type verifC27Codec struct {
	name string
	gen  func(t *rapid.T) any
	// enc encodes v at a wire version (5, 6 or 7).
	enc func(v any, version uint8) ([]byte, error)
	dec func(b []byte) (any, error)
	// project maps v to the value a decoder must return for a frame of that
	// version (older versions do not carry the newer fields).
	project func(v any, version uint8) any
}

func verifC27ProjectMeta(m *ch.Meta, version uint8) *ch.Meta {
	if m == nil {
		return nil
	}
	c := *m
	if version < legacyCodecVersionV6 {
		c.RetentionThroughSeq, c.WriteFence = 0, ch.WriteFence{}
	}
	return &c
}

func verifC27ProjectLastVisible(r LastVisibleResponse, version uint8) LastVisibleResponse {
	if version < codecVersion {
		r.LastCommittedSeq, r.RetentionThroughSeq, r.CurrentUserLastSendSeq = 0, 0, 0
	}
	return r
}

func verifC27PullRequest() *rapid.Generator[channeltransport.PullRequest] {
	return rapid.Custom(func(t *rapid.T) channeltransport.PullRequest {
		return channeltransport.PullRequest{
			ChannelKey: ch.ChannelKey(verifC27Str().Draw(t, "key")), ChannelID: verifC27ChannelID().Draw(t, "id"), Epoch: verifC27U64().Draw(t, "epoch"),
			LeaderEpoch: verifC27U64().Draw(t, "leaderEpoch"), Follower: ch.NodeID(verifC27U64().Draw(t, "follower")), NextOffset: verifC27U64().Draw(t, "next"),
			AckOffset: verifC27U64().Draw(t, "ack"), MaxBytes: verifC27Int().Draw(t, "maxBytes"), NeedMeta: rapid.Bool().Draw(t, "needMeta"),
		}
	})
}

func verifC27PullResponse() *rapid.Generator[channeltransport.PullResponse] {
	return rapid.Custom(func(t *rapid.T) channeltransport.PullResponse {
		resp := channeltransport.PullResponse{
			ChannelKey: ch.ChannelKey(verifC27Str().Draw(t, "key")), Epoch: verifC27U64().Draw(t, "epoch"), LeaderEpoch: verifC27U64().Draw(t, "leaderEpoch"),
			LeaderHW: verifC27U64().Draw(t, "hw"), LeaderLEO: verifC27U64().Draw(t, "leo"), ActivityVersion: verifC27U64().Draw(t, "activity"),
			NextPullAfter: time.Duration(rapid.Int64().Draw(t, "nextPullAfter")), Control: channeltransport.PullControl(rapid.Byte().Draw(t, "control")),
		}
		if rapid.Bool().Draw(t, "hasMeta") {
			m := verifC27Meta().Draw(t, "meta")
			resp.Meta = &m
		}
		switch rapid.IntRange(0, 4).Draw(t, "recordsKind") {
		case 0:
		case 1:
			resp.Records = []ch.Record{}
		default:
			resp.Records = rapid.SliceOfN(verifC27Record(), 1, 4).Draw(t, "records")
		}
		return resp
	})
}

func verifC27PullHint() *rapid.Generator[channeltransport.PullHintRequest] {
	return rapid.Custom(func(t *rapid.T) channeltransport.PullHintRequest {
		return channeltransport.PullHintRequest{
			ChannelKey: ch.ChannelKey(verifC27Str().Draw(t, "key")), ChannelID: verifC27ChannelID().Draw(t, "id"), Epoch: verifC27U64().Draw(t, "epoch"),
			LeaderEpoch: verifC27U64().Draw(t, "leaderEpoch"), Leader: ch.NodeID(verifC27U64().Draw(t, "leader")), LeaderLEO: verifC27U64().Draw(t, "leo"),
			ActivityVersion: verifC27U64().Draw(t, "activity"), Reason: channeltransport.PullHintReason(rapid.Byte().Draw(t, "reason")),
		}
	})
}

func verifC27LastVisibleResponse() *rapid.Generator[LastVisibleResponse] {
	return rapid.Custom(func(t *rapid.T) LastVisibleResponse {
		r := LastVisibleResponse{Found: rapid.Bool().Draw(t, "found"), LastCommittedSeq: verifC27U64().Draw(t, "lastCommitted"),
			RetentionThroughSeq: verifC27U64().Draw(t, "retention"), CurrentUserLastSendSeq: verifC27U64().Draw(t, "lastSend")}
		if r.Found { // the message is carried only when Found
			r.Message = verifC27Message().Draw(t, "message")
		}
		return r
	})
}

func verifC27RequestCodec[T any](name string, gen *rapid.Generator[T], enc func(T, uint8) ([]byte, error), dec func([]byte) (T, error), project func(T, uint8) T) verifC27Codec {
	return verifC27Codec{
		name: name,
		gen:  func(t *rapid.T) any { return gen.Draw(t, name) },
		enc:  func(v any, version uint8) ([]byte, error) { return enc(v.(T), version) },
		dec:  func(b []byte) (any, error) { return dec(b) },
		project: func(v any, version uint8) any {
			if project == nil {
				return v
			}
			return project(v.(T), version)
		},
	}
}

// verifC27ResultCodec wraps a response payload type carried by the RPC result envelope.
func verifC27ResultCodec[T any](name string, kind uint8, gen *rapid.Generator[T], dec func([]byte) (T, error), project func(T, uint8) T) verifC27Codec {
	return verifC27RequestCodec(name, gen, func(v T, version uint8) ([]byte, error) { return encodeRPCResultVersion(version, kind, v, nil) }, dec, project)
}

func verifC27Codecs() []verifC27Codec {
	return []verifC27Codec{
		verifC27RequestCodec("channels.PullRequest", verifC27PullRequest(), encodePullRequestVersion, DecodePullRequest, nil),
		verifC27RequestCodec("channels.PullBatchRequest", rapid.Custom(func(t *rapid.T) channeltransport.PullBatchRequest {
			return channeltransport.PullBatchRequest{Items: append([]channeltransport.PullRequest{}, rapid.SliceOfN(verifC27PullRequest(), 0, 5).Draw(t, "items")...)}
		}), encodePullBatchRequestVersion, decodePullBatchRequest, nil),
		verifC27RequestCodec("channels.AckRequest", rapid.Custom(func(t *rapid.T) channeltransport.AckRequest {
			return channeltransport.AckRequest{ChannelKey: ch.ChannelKey(verifC27Str().Draw(t, "key")), Epoch: verifC27U64().Draw(t, "epoch"), LeaderEpoch: verifC27U64().Draw(t, "leaderEpoch"),
				Follower: ch.NodeID(verifC27U64().Draw(t, "follower")), MatchOffset: verifC27U64().Draw(t, "match"), ActivityVersion: verifC27U64().Draw(t, "activity"), Stopped: rapid.Bool().Draw(t, "stopped")}
		}), encodeAckRequestVersion, decodeAckRequest, nil),
		verifC27RequestCodec("channels.PullHintRequest", verifC27PullHint(), encodePullHintRequestVersion, decodePullHintRequest, nil),
		verifC27RequestCodec("channels.PullHintBatchRequest", rapid.Custom(func(t *rapid.T) channeltransport.PullHintBatchRequest {
			return channeltransport.PullHintBatchRequest{Items: append([]channeltransport.PullHintRequest{}, rapid.SliceOfN(verifC27PullHint(), 0, 5).Draw(t, "items")...)}
		}), encodePullHintBatchRequestVersion, decodePullHintBatchRequest, nil),
		verifC27RequestCodec("channels.NotifyRequest", rapid.Custom(func(t *rapid.T) channeltransport.NotifyRequest {
			return channeltransport.NotifyRequest{ChannelKey: ch.ChannelKey(verifC27Str().Draw(t, "key")), ChannelID: verifC27ChannelID().Draw(t, "id"), Epoch: verifC27U64().Draw(t, "epoch"),
				LeaderEpoch: verifC27U64().Draw(t, "leaderEpoch"), Leader: ch.NodeID(verifC27U64().Draw(t, "leader")), LeaderLEO: verifC27U64().Draw(t, "leo")}
		}), encodeNotifyRequestVersion, decodeNotifyRequest, nil),
		verifC27RequestCodec("channels.AppendRequest", rapid.Custom(func(t *rapid.T) ch.AppendRequest {
			return ch.AppendRequest{ChannelID: verifC27ChannelID().Draw(t, "id"), Message: verifC27Message().Draw(t, "message"), CommitMode: ch.CommitMode(rapid.Byte().Draw(t, "commitMode")),
				ExpectedChannelEpoch: verifC27U64().Draw(t, "expectedEpoch"), ExpectedLeaderEpoch: verifC27U64().Draw(t, "expectedLeaderEpoch")}
		}), encodeAppendRequestVersion, decodeAppendRequest, nil),
		verifC27RequestCodec("channels.AppendBatchRequest", rapid.Custom(func(t *rapid.T) ch.AppendBatchRequest {
			return ch.AppendBatchRequest{ChannelID: verifC27ChannelID().Draw(t, "id"), Messages: verifC27Messages(t, "messages"), TraceID: verifC27Str().Draw(t, "trace"),
				ChannelKey: verifC27Str().Draw(t, "key"), Attempt: verifC27Int().Draw(t, "attempt"), CommitMode: ch.CommitMode(rapid.Byte().Draw(t, "commitMode")),
				ExpectedChannelEpoch: verifC27U64().Draw(t, "expectedEpoch"), ExpectedLeaderEpoch: verifC27U64().Draw(t, "expectedLeaderEpoch"),
				OmitResultPayload: rapid.Bool().Draw(t, "omit"), ServerAllocatedMessageIDs: rapid.Bool().Draw(t, "serverIDs")}
		}), encodeAppendBatchRequestVersion, decodeAppendBatchRequest, func(v ch.AppendBatchRequest, version uint8) ch.AppendBatchRequest {
			if version < codecVersion {
				v.ServerAllocatedMessageIDs = false
			}
			return v
		}),
		verifC27RequestCodec("channels.LastVisibleRequest", rapid.Custom(func(t *rapid.T) LastVisibleRequest {
			return LastVisibleRequest{ChannelID: verifC27ChannelID().Draw(t, "id"), VisibleAfterSeq: verifC27U64().Draw(t, "after"), ExpectedLeader: ch.NodeID(verifC27U64().Draw(t, "leader")),
				ExpectedChannelEpoch: verifC27U64().Draw(t, "epoch"), ExpectedLeaderEpoch: verifC27U64().Draw(t, "leaderEpoch"), HeadUID: verifC27Str().Draw(t, "headUID"), ExpectedMinISR: verifC27NonNegInt().Draw(t, "minISR")}
		}), encodeLastVisibleRequestVersion, decodeLastVisibleRequest, func(v LastVisibleRequest, version uint8) LastVisibleRequest {
			if version < codecVersion {
				v.HeadUID, v.ExpectedMinISR = "", 0
			}
			return v
		}),
		verifC27RequestCodec("channels.ConversationHeadsRequest", rapid.Custom(func(t *rapid.T) ConversationHeadsRequest {
			req := ConversationHeadsRequest{UID: verifC27Str().Draw(t, "uid")}
			switch rapid.IntRange(0, 4).Draw(t, "itemsKind") {
			case 0:
			case 1:
				req.Items = []ConversationHeadRequest{}
			default:
				req.Items = rapid.SliceOfN(rapid.Custom(func(t *rapid.T) ConversationHeadRequest {
					return ConversationHeadRequest{ChannelID: verifC27ChannelID().Draw(t, "id"), RetentionThroughSeq: verifC27U64().Draw(t, "retention"), ExpectedLeader: ch.NodeID(verifC27U64().Draw(t, "leader")),
						ExpectedChannelEpoch: verifC27U64().Draw(t, "epoch"), ExpectedLeaderEpoch: verifC27U64().Draw(t, "leaderEpoch"), ExpectedMinISR: verifC27NonNegInt().Draw(t, "minISR")}
				}), 1, 5).Draw(t, "items")
			}
			return req
		}), encodeConversationHeadsRequestVersion, decodeConversationHeadsRequest, nil),
		verifC27RequestCodec("channels.CommittedReadsRequest", rapid.Custom(func(t *rapid.T) CommittedReadsRequest {
			var req CommittedReadsRequest
			switch rapid.IntRange(0, 4).Draw(t, "itemsKind") {
			case 0:
			case 1:
				req.Items = []CommittedReadRequest{}
			default:
				req.Items = rapid.SliceOfN(rapid.Custom(func(t *rapid.T) CommittedReadRequest {
					return CommittedReadRequest{
						CommittedRead: CommittedRead{ChannelID: verifC27ChannelID().Draw(t, "id"), Request: channelstore.ReadCommittedRequest{FromSeq: verifC27U64().Draw(t, "from"), MaxSeq: verifC27U64().Draw(t, "max"),
							MinSeq: verifC27U64().Draw(t, "min"), Limit: verifC27Int().Draw(t, "limit"), MaxBytes: verifC27Int().Draw(t, "maxBytes"), Reverse: rapid.Bool().Draw(t, "reverse")}},
						RetentionThroughSeq: verifC27U64().Draw(t, "retention"), ExpectedLeader: ch.NodeID(verifC27U64().Draw(t, "leader")),
						ExpectedChannelEpoch: verifC27U64().Draw(t, "epoch"), ExpectedLeaderEpoch: verifC27U64().Draw(t, "leaderEpoch"), ExpectedMinISR: verifC27Int().Draw(t, "minISR")}
				}), 1, 5).Draw(t, "items")
			}
			return req
		}), encodeCommittedReadsRequestVersion, decodeCommittedReadsRequest, nil),

		verifC27ResultCodec("channels.PullResponse", kindPullResponse, verifC27PullResponse(), decodePullResponse, func(v channeltransport.PullResponse, version uint8) channeltransport.PullResponse {
			v.Meta = verifC27ProjectMeta(v.Meta, version)
			return v
		}),
		verifC27ResultCodec("channels.PullBatchResponse", kindPullBatchResponse, rapid.Custom(func(t *rapid.T) channeltransport.PullBatchResponse {
			n := rapid.IntRange(0, 4).Draw(t, "items")
			resp := channeltransport.PullBatchResponse{Items: make([]channeltransport.PullBatchItemResult, n)}
			for i := range resp.Items {
				if resp.Items[i].Err = verifC27Error(t, "itemErr", true); resp.Items[i].Err == nil { // a failed item carries no response
					resp.Items[i].Response = verifC27PullResponse().Draw(t, "response")
				}
			}
			return resp
		}), decodePullBatchResponse, func(v channeltransport.PullBatchResponse, version uint8) channeltransport.PullBatchResponse {
			items := make([]channeltransport.PullBatchItemResult, len(v.Items))
			copy(items, v.Items)
			for i := range items {
				items[i].Response.Meta = verifC27ProjectMeta(items[i].Response.Meta, version)
			}
			return channeltransport.PullBatchResponse{Items: items}
		}),
		verifC27ResultCodec("channels.PullHintBatchResponse", kindPullHintBatchResponse, rapid.Custom(func(t *rapid.T) channeltransport.PullHintBatchResponse {
			n := rapid.IntRange(0, 5).Draw(t, "items")
			resp := channeltransport.PullHintBatchResponse{Items: make([]channeltransport.PullHintBatchItemResult, n)}
			for i := range resp.Items {
				resp.Items[i].Err = verifC27Error(t, "itemErr", true)
			}
			return resp
		}), decodePullHintBatchResponse, nil),
		verifC27ResultCodec("channels.AppendResponse", kindAppendResponse, rapid.Custom(func(t *rapid.T) ch.AppendResult {
			return ch.AppendResult{MessageID: verifC27U64().Draw(t, "id"), MessageSeq: verifC27U64().Draw(t, "seq"), Message: verifC27Message().Draw(t, "message")}
		}), decodeAppendResponse, nil),
		verifC27ResultCodec("channels.AppendBatchResponse", kindAppendBatchResponse, rapid.Custom(func(t *rapid.T) ch.AppendBatchResult {
			var res ch.AppendBatchResult
			switch rapid.IntRange(0, 4).Draw(t, "itemsKind") {
			case 0:
				// nil Items decode to the zero result
			default:
				res.Items = append([]ch.AppendBatchItemResult{}, rapid.SliceOfN(rapid.Custom(func(t *rapid.T) ch.AppendBatchItemResult {
					return ch.AppendBatchItemResult{MessageID: verifC27U64().Draw(t, "id"), MessageSeq: verifC27U64().Draw(t, "seq"), Message: verifC27Message().Draw(t, "message"), Err: verifC27Error(t, "itemErr", true)}
				}), 0, 4).Draw(t, "items")...)
			}
			return res
		}), decodeAppendBatchResponse, nil),
		verifC27ResultCodec("channels.LastVisibleResponse", kindLastVisibleResponse, verifC27LastVisibleResponse(), decodeLastVisibleResponse, verifC27ProjectLastVisible),
		verifC27ResultCodec("channels.ConversationHeadsResponse", kindConversationHeadsResponse, rapid.Custom(func(t *rapid.T) ConversationHeadsResponse {
			var res ConversationHeadsResponse
			if rapid.IntRange(0, 4).Draw(t, "itemsKind") > 0 {
				n := rapid.IntRange(0, 4).Draw(t, "items")
				res.Items = make([]ConversationHeadResult, n)
				for i := range res.Items {
					res.Items[i] = ConversationHeadResult{Head: conversationHeadFromResponse(verifC27LastVisibleResponse().Draw(t, "head")), Err: verifC27Error(t, "itemErr", true)}
				}
			}
			return res
		}), decodeConversationHeadsResponse, func(v ConversationHeadsResponse, version uint8) ConversationHeadsResponse {
			if v.Items == nil {
				return v
			}
			items := make([]ConversationHeadResult, len(v.Items))
			for i, item := range v.Items {
				items[i] = ConversationHeadResult{Head: conversationHeadFromResponse(verifC27ProjectLastVisible(lastVisibleResponseFromHead(item.Head), version)), Err: item.Err}
			}
			return ConversationHeadsResponse{Items: items}
		}),
		verifC27ResultCodec("channels.CommittedReadsResponse", kindCommittedReadsResponse, rapid.Custom(func(t *rapid.T) CommittedReadsResponse {
			var res CommittedReadsResponse
			if rapid.IntRange(0, 4).Draw(t, "itemsKind") > 0 {
				n := rapid.IntRange(0, 4).Draw(t, "items")
				res.Items = make([]CommittedReadResult, n)
				for i := range res.Items {
					res.Items[i] = CommittedReadResult{Read: channelstore.ReadCommittedResult{Messages: verifC27Messages(t, "messages"), NextSeq: verifC27U64().Draw(t, "nextSeq")}, Err: verifC27Error(t, "itemErr", true)}
				}
			}
			return res
		}), decodeCommittedReadsResponse, nil),
	}
}

// verifC27Hostile overwrites one position of a valid frame with the uvarint of a
// large count / length.
func verifC27Hostile(t *rapid.T, enc []byte) [][]byte {
	big := binary.AppendUvarint(nil, rapid.SampledFrom([]uint64{1 << 13, 1 << 14, 1<<15 + 3}).Draw(t, "hostileCount"))
	var positions []int
	if len(enc) <= 300 {
		for p := 2; p < len(enc); p++ {
			positions = append(positions, p)
		}
	} else {
		for p := 2; p < 26; p++ {
			positions = append(positions, p)
		}
		for i := 0; i < 96; i++ {
			positions = append(positions, rapid.IntRange(26, len(enc)-1).Draw(t, "hostilePos"))
		}
	}
	out := make([][]byte, 0, len(positions))
	for _, p := range positions {
		f := append(append([]byte(nil), enc[:p]...), big...)
		out = append(out, append(f, enc[p+1:]...))
	}
	return out
}

// TestVerifC27ChannelsCodec: every encode/decode pair of the channel RPC codec,
// at every wire version the encoder supports.
func TestVerifC27ChannelsCodec(t *testing.T) {
	codecs := verifC27Codecs()
	kit.Check(t, "C27", func(rt *rapid.T, k *kit.Case) {
		c := codecs[rapid.IntRange(0, len(codecs)-1).Draw(rt, "codec")]
		version := rapid.SampledFrom([]uint8{codecVersion, codecVersion, legacyCodecVersionV6, legacyCodecVersionV5}).Draw(rt, "version")
		v := c.gen(rt)
		enc, err := c.enc(v, version)
		if err != nil {
			rt.Fatalf("%s: encode v%d refused %+v: %v", c.name, version, v, err)
		}
		if enc[0] != version {
			rt.Fatalf("%s: frame carries version %d, asked for %d", c.name, enc[0], version)
		}
		var got any
		if err := verifC27Guard(rt, c.name, enc, func(b []byte) error {
			var e error
			got, e = c.dec(b)
			return e
		}); err != nil {
			rt.Fatalf("%s v%d: decode of own encoding failed: %v\nvalue %+v\nframe %x", c.name, version, err, v, verifC27Trunc(enc))
		}
		want := c.project(v, version)
		if d := verifC27Equal(c.name, reflect.ValueOf(got), reflect.ValueOf(want)); d != "" {
			rt.Fatalf("%s v%d round trip differs at %s\n got  %+v\n want %+v", c.name, version, d, got, want)
		}
		// unsupported versions are refused by the encoder
		if _, err := c.enc(v, rapid.SampledFrom([]uint8{0, 1, 2, 3, 4, 8, 255}).Draw(rt, "badVersion")); err == nil {
			rt.Fatalf("%s: encoder accepted an unsupported wire version", c.name)
		}
		// every strict prefix and every extension is rejected
		cuts := verifC27Cuts(len(enc))
		for _, cut := range cuts {
			if _, err := c.dec(enc[:cut]); err == nil {
				rt.Fatalf("%s v%d: strict prefix %d/%d accepted: %x", c.name, version, cut, len(enc), verifC27Trunc(enc[:cut]))
			}
		}
		ext := append(append([]byte(nil), enc...), rapid.SliceOfN(rapid.Byte(), 1, 8).Draw(rt, "ext")...)
		if _, err := c.dec(ext); err == nil {
			rt.Fatalf("%s v%d: %d trailing bytes accepted", c.name, version, len(ext)-len(enc))
		}
		// wrong kind byte / unknown version byte
		wrong := append([]byte(nil), enc...)
		wrong[1] ^= byte(rapid.IntRange(1, 255).Draw(rt, "kindDelta"))
		if _, err := c.dec(wrong); err == nil {
			rt.Fatalf("%s: frame of kind %d accepted", c.name, wrong[1])
		}
		wrong = append([]byte(nil), enc...)
		wrong[0] = rapid.SampledFrom([]uint8{0, 1, 2, 8, 9, 0x80, 0xff}).Draw(rt, "unknownVersion")
		if _, err := c.dec(wrong); err == nil {
			rt.Fatalf("%s: frame of version %d accepted", c.name, wrong[0])
		}
		// hostile counts, generated mutation, and decode-only legacy versions
		hostile := verifC27Hostile(rt, enc)
		for _, f := range hostile {
			_ = verifC27Guard(rt, c.name+"(hostile count)", f, func(b []byte) error { _, e := c.dec(b); return e })
		}
		legacy := append([]byte(nil), enc...)
		legacy[0] = rapid.SampledFrom([]uint8{legacyCodecVersionV3, legacyCodecVersionV4, legacyCodecVersionV5, legacyCodecVersionV6, codecVersion}).Draw(rt, "reinterpretAs")
		_ = verifC27Guard(rt, c.name+"(version byte swapped)", legacy, func(b []byte) error { _, e := c.dec(b); return e })
		mut, m := kit.Mutate(rt, enc)
		errMut := verifC27Guard(rt, c.name+"(mutated)", mut, func(b []byte) error { _, e := c.dec(b); return e })
		k.Key(c.name, version, enc, m.Kind, m.Pos, m.Val)
		k.SetNonTrivial(len(cuts) > 2)
		k.Label("codec=" + c.name)
		k.Label(fmt.Sprintf("channels: wire version %d", version))
		k.LabelIf(errMut == nil, "channels: mutated frame accepted")
		k.LabelIf(errMut != nil, "channels: mutated frame rejected")
		k.Sample(func() any {
			return fmt.Sprintf("%s v%d frame=%dB prefixes=%d hostile=%d mutation=%s@%d accepted=%v", c.name, version, len(enc), len(cuts), len(hostile), m.Kind, m.Pos, errMut == nil)
		})
	})
	kit.For(t, "C27").AddExtra("excluded_by_known_finding", verifC27Excluded.Swap(0))
}

// TestVerifC27ChannelsResultEnvelope: the RPC result envelope carries an
// application error instead of a payload; every result decoder returns it.
func TestVerifC27ChannelsResultEnvelope(t *testing.T) {
	type resultDecoder struct {
		name string
		kind uint8
		dec  func([]byte) error
	}
	decoders := []resultDecoder{
		{"PullResponse", kindPullResponse, func(b []byte) error { _, e := decodePullResponse(b); return e }},
		{"PullBatchResponse", kindPullBatchResponse, func(b []byte) error { _, e := decodePullBatchResponse(b); return e }},
		{"PullHintBatchResponse", kindPullHintBatchResponse, func(b []byte) error { _, e := decodePullHintBatchResponse(b); return e }},
		{"AppendResponse", kindAppendResponse, func(b []byte) error { _, e := decodeAppendResponse(b); return e }},
		{"AppendBatchResponse", kindAppendBatchResponse, func(b []byte) error { _, e := decodeAppendBatchResponse(b); return e }},
		{"LastVisibleResponse", kindLastVisibleResponse, func(b []byte) error { _, e := decodeLastVisibleResponse(b); return e }},
		{"ConversationHeadsResponse", kindConversationHeadsResponse, func(b []byte) error { _, e := decodeConversationHeadsResponse(b); return e }},
		{"CommittedReadsResponse", kindCommittedReadsResponse, func(b []byte) error { _, e := decodeCommittedReadsResponse(b); return e }},
		{"Ack(empty result)", kindAck, func(b []byte) error { return decodeRPCResult(b, kindAck, nil) }},
		{"Notify(empty result)", kindNotify, func(b []byte) error { return decodeRPCResult(b, kindNotify, nil) }},
	}
	kit.Check(t, "C27", func(rt *rapid.T, k *kit.Case) {
		d := decoders[rapid.IntRange(0, len(decoders)-1).Draw(rt, "decoder")]
		version := rapid.SampledFrom([]uint8{codecVersion, legacyCodecVersionV6, legacyCodecVersionV5}).Draw(rt, "version")
		appErr := verifC27Error(rt, "appErr", false)
		enc, err := encodeRPCResultVersion(version, d.kind, nil, appErr)
		if err != nil {
			rt.Fatalf("encodeRPCResultVersion(err=%v): %v", appErr, err)
		}
		var got error
		_ = verifC27Guard(rt, "channels.RPCResult", enc, func(b []byte) error { got = d.dec(b); return got })
		if diff := verifC27ErrEqual(got, appErr); diff != "" {
			rt.Fatalf("%s v%d: application error through the envelope: %s", d.name, version, diff)
		}
		// a truncated error envelope is an error too, but never the application error's class by accident
		for _, cut := range verifC27Cuts(len(enc)) {
			if d.dec(enc[:cut]) == nil {
				rt.Fatalf("%s: truncated error envelope %d/%d decoded to success", d.name, cut, len(enc))
			}
		}
		// empty success results
		if d.kind == kindAck || d.kind == kindNotify {
			ok, err := encodeRPCResultVersion(version, d.kind, nil, nil)
			if err != nil || d.dec(ok) != nil {
				rt.Fatalf("%s: empty success result does not round trip (%v)", d.name, err)
			}
			if d.dec(append(ok, 0)) == nil {
				rt.Fatalf("%s: trailing byte after empty success result accepted", d.name)
			}
		}
		// status bytes other than 0/1 are refused
		bad := append([]byte(nil), enc...)
		bad[2] = byte(rapid.IntRange(2, 255).Draw(rt, "badStatus"))
		if d.dec(bad) == nil {
			rt.Fatalf("%s: result status %d accepted", d.name, bad[2])
		}
		k.Key(d.name, version, appErr.Error())
		k.SetNonTrivial(true)
		k.Label("codec=channels.RPCResult(error)")
		coded := false
		for _, s := range verifC27Sentinels {
			coded = coded || errors.Is(appErr, s)
		}
		k.LabelIf(coded, "channels.RPCResult: coded sentinel")
		k.LabelIf(!coded, "channels.RPCResult: uncoded error")
		k.LabelIf(coded && strings.Contains(appErr.Error(), ": ") && strings.Count(appErr.Error(), ": ") > 1, "channels.RPCResult: sentinel with detail")
		k.Sample(func() any { return fmt.Sprintf("%s v%d error %q -> %q", d.name, version, appErr, got) })
	})
}

// TestVerifC27ChannelsGarbage: arbitrary bytes with a plausible (version, kind)
// header into the decoder of that kind.
func TestVerifC27ChannelsGarbage(t *testing.T) {
	codecs := verifC27Codecs()
	byName := map[string]uint8{}
	for _, c := range codecs {
		enc, err := c.enc(c.gen2(), codecVersion)
		if err == nil {
			byName[c.name] = enc[1]
		}
	}
	kit.Check(t, "C27", func(rt *rapid.T, k *kit.Case) {
		c := codecs[rapid.IntRange(0, len(codecs)-1).Draw(rt, "codec")]
		raw := kit.Bytes(2048).Draw(rt, "raw")
		hdr := []byte{rapid.SampledFrom([]uint8{3, 4, 5, 6, 7}).Draw(rt, "version"), byName[c.name]}
		shaped := rapid.IntRange(0, 3).Draw(rt, "shaped")
		switch shaped {
		case 0:
		case 1:
			raw = append(hdr, raw...)
		default:
			// result envelopes: status byte, then a presence byte and a hostile count
			body := append([]byte{0, 1}, binary.AppendUvarint(nil, rapid.SampledFrom([]uint64{1, 255, 1 << 14, 1 << 16, 1<<64 - 1}).Draw(rt, "count"))...)
			raw = append(append(hdr, body...), raw...)
		}
		err := verifC27Guard(rt, c.name+"(garbage)", raw, func(b []byte) error { _, e := c.dec(b); return e })
		k.Key(c.name, raw)
		k.SetNonTrivial(len(raw) > 2)
		k.Label("codec=channels garbage")
		k.LabelIf(err == nil, "channels garbage: accepted")
		k.LabelIf(shaped > 0, "channels garbage: plausible header")
		k.Sample(func() any { return fmt.Sprintf("%s garbage %dB %x err=%v", c.name, len(raw), verifC27Trunc(raw), err) })
	})
}

func (c verifC27Codec) gen2() any {
	var out any
	rapid.Custom(func(t *rapid.T) int { out = c.gen(t); return 0 }).Example(1)
	return out
}

// TestVerifC27ChannelsFieldLoss re-establishes, deterministically on every run,
// the fields this codec does not carry. A signature listed as a known finding is
// reported (KNOWN-FINDING) and does not fail the run; anything else is a violation.
func TestVerifC27ChannelsFieldLoss(t *testing.T) {
	col := kit.For(t, "C27")
	type probe struct {
		sig, what string
		lost      func() (bool, error)
	}
	probes := []probe{
		{verifC27SigMessageSyncOnce, "pkg/cluster/channels codec does not carry ch.Message.SyncOnce: a forwarded append (ForwardAppend/ForwardAppendBatch) reaches the channel leader with SyncOnce=false", func() (bool, error) {
			req := ch.AppendBatchRequest{ChannelID: ch.ChannelID{ID: "c", Type: 2}, Messages: []ch.Message{{MessageID: 1, SyncOnce: true}}}
			enc, err := encodeAppendBatchRequest(req)
			if err != nil {
				return false, err
			}
			got, err := decodeAppendBatchRequest(enc)
			if err != nil {
				return false, err
			}
			return !got.Messages[0].SyncOnce, nil
		}},
		{verifC27SigRecordSyncOnce, "pkg/cluster/channels codec does not carry ch.Record.SyncOnce in PullResponse.Records", func() (bool, error) {
			enc, err := encodePullResponse(channeltransport.PullResponse{Records: []ch.Record{{ID: 1, Index: 1, SyncOnce: true}}})
			if err != nil {
				return false, err
			}
			got, err := decodePullResponse(enc)
			if err != nil {
				return false, err
			}
			return !got.Records[0].SyncOnce, nil
		}},
		{verifC27SigMetaRouteGen, "pkg/cluster/channels codec does not carry ch.Meta.RouteGeneration in PullResponse.Meta", func() (bool, error) {
			enc, err := encodePullResponse(channeltransport.PullResponse{Meta: &ch.Meta{RouteGeneration: 7}})
			if err != nil {
				return false, err
			}
			got, err := decodePullResponse(enc)
			if err != nil {
				return false, err
			}
			return got.Meta.RouteGeneration != 7, nil
		}},
	}
	for _, p := range probes {
		lost, err := p.lost()
		if err != nil {
			t.Fatalf("field-loss probe %s: %v", p.sig, err)
		}
		kc := col.NewCase()
		kc.Key("field-loss", p.sig)
		kc.NonTrivial()
		if !lost {
			kc.Label("field-loss probe: field carried (" + p.sig + ")")
			col.Commit(kc)
			continue
		}
		if kit.KnownFinding("C27", p.sig) {
			kc.Label("known finding re-established: " + p.sig)
			col.Commit(kc)
			continue
		}
		t.Errorf("VERIF-VIOLATION C27 round trip loses a field [%s]: %s", p.sig, p.what)
	}
}

// ---- native fuzz targets (thorough tier) -------------------------------------------

func verifC27FuzzDecodeAll(data []byte) {
	_, _ = DecodePullRequest(data)
	_, _ = decodePullBatchRequest(data)
	_, _ = decodeAckRequest(data)
	_, _ = decodePullHintRequest(data)
	_, _ = decodePullHintBatchRequest(data)
	_, _ = decodeNotifyRequest(data)
	_, _ = decodeAppendRequest(data)
	_, _ = decodeAppendBatchRequest(data)
	_, _ = decodeLastVisibleRequest(data)
	_, _ = decodeConversationHeadsRequest(data)
	_, _ = decodeCommittedReadsRequest(data)
	_, _ = decodePullResponse(data)
	_, _ = decodePullBatchResponse(data)
	_, _ = decodePullHintBatchResponse(data)
	_, _ = decodeAppendResponse(data)
	_, _ = decodeAppendBatchResponse(data)
	_, _ = decodeLastVisibleResponse(data)
	_, _ = decodeConversationHeadsResponse(data)
	_, _ = decodeCommittedReadsResponse(data)
}

func FuzzVerifC27ChannelsDecode(f *testing.F) {
	for _, c := range verifC27Codecs() {
		for _, version := range []uint8{5, 6, 7} {
			if enc, err := c.enc(c.gen2(), version); err == nil {
				f.Add(enc)
			}
		}
	}
	f.Fuzz(func(t *testing.T, data []byte) {
		var before, after runtime.MemStats
		runtime.ReadMemStats(&before)
		verifC27FuzzDecodeAll(data)
		runtime.ReadMemStats(&after)
		if d := after.TotalAlloc - before.TotalAlloc; d > 19*verifC27Bound(len(data)) {
			t.Fatalf("VERIF-VIOLATION decoding %d bytes allocated %d", len(data), d)
		}
	})
}

// TestVerifC27ChannelsReplayArtefact re-decodes a saved .bin frame with every
// decoder (./check C27 --replay <file.bin>).
func TestVerifC27ChannelsReplayArtefact(t *testing.T) {
	path := kit.ReplayFile()
	if !strings.HasSuffix(path, ".bin") {
		t.Skip("no .bin artefact to replay")
	}
	in, err := os.ReadFile(path)
	if err != nil {
		t.Fatalf("VERIF-MACHINERY read artefact: %v", err)
	}
	var before, after runtime.MemStats
	runtime.ReadMemStats(&before)
	func() {
		defer func() {
			if r := recover(); r != nil {
				t.Fatalf("VERIF-VIOLATION channel decoder panicked on the artefact: %v", r)
			}
		}()
		verifC27FuzzDecodeAll(in)
	}()
	runtime.ReadMemStats(&after)
	if d := after.TotalAlloc - before.TotalAlloc; d > 19*verifC27Bound(len(in)) {
		t.Fatalf("VERIF-VIOLATION decoding the %d-byte artefact allocated %d bytes (bound %d)", len(in), d, 19*verifC27Bound(len(in)))
	}
}
