package cluster

import (
	"fmt"
	"hash/crc32"
	"testing"

	"github.com/WuKongIM/WuKongIM/pkg/cluster/routing"
	"github.com/WuKongIM/WuKongIM/pkg/hashslot"
	"pgregory.net/rapid"
	"verif.local/kit"
)

// TestVerifC21Node: Node.HashSlotForKey agrees with hashslot.HashSlotForKey,
// routing.HashSlotForKey and crc32 mod count for every source of the count
// (configured, snapshot, control snapshot).
func TestVerifC21Node(t *testing.T) {
	kit.Check(t, "C21", func(rt *rapid.T, k *kit.Case) {
		key := string(kit.Bytes(1024).Draw(rt, "key"))
		n := uint16(rapid.IntRange(1, 65535).Draw(rt, "count"))
		want := uint16(crc32.ChecksumIEEE([]byte(key)) % uint32(n))
		src := rapid.IntRange(0, 2).Draw(rt, "countSource")
		node := &Node{}
		switch src {
		case 0:
			node.cfg.Slots.HashSlotCount = n
		case 1:
			node.snapshot.HashSlotCount = n
			node.cfg.Slots.HashSlotCount = n/2 + 1
		case 2:
			node.controlSnapshot.HashSlots.Count = n
			node.cfg.Slots.HashSlotCount = n/2 + 1
		}
		got := node.HashSlotForKey(key)
		if got != want {
			rt.Fatalf("Node.HashSlotForKey(%q) count=%d source=%d: %d want %d", key, n, src, got, want)
		}
		if a, b := hashslot.HashSlotForKey(key, n), routing.HashSlotForKey(key, n); a != got || b != got {
			rt.Fatalf("components disagree: node=%d hashslot=%d routing=%d", got, a, b)
		}
		// The count a node answers with before any route table exists is the
		// configured fallback; once a snapshot (then a control snapshot) installs
		// the cluster's real count, every later answer must follow it — the hash
		// slot of a key may not depend on which calls were made earlier.
		later := rapid.IntRange(0, 2).Draw(rt, "laterInstall")
		if later > 0 {
			n2 := uint16(rapid.IntRange(1, 65535).Draw(rt, "installedCount"))
			// resolution order: route table, snapshot, control snapshot, configuration
			switch {
			case src == 1 || later == 1:
				node.snapshot.HashSlotCount = n2 // a (new) snapshot outranks what answered before
			default:
				node.controlSnapshot.HashSlots.Count = n2 // src 0 or 2: outranks the configuration / replaces the old control snapshot
			}
			{
				for _, key2 := range []string{key, string(kit.Bytes(64).Draw(rt, "key2"))} {
					want2 := uint16(crc32.ChecksumIEEE([]byte(key2)) % uint32(n2))
					if got2 := node.HashSlotForKey(key2); got2 != want2 {
						rt.Fatalf("Node.HashSlotForKey(%q) after the count %d (source %d) was superseded by an installed count %d: %d want %d", key2, n, src, n2, got2, want2)
					}
				}
				k.Label("count superseded by a later installed table")
				k.Key(n2, later)
			}
		}
		k.Key(key, n, src)
		k.SetNonTrivial(len(key) > 0 && n > 1)
		k.Label(fmt.Sprintf("count source %d", src))
		k.Sample(func() any { return fmt.Sprintf("key=%x count=%d source=%d slot=%d", key[:min(len(key), 16)], n, src, got) })
	})
}
